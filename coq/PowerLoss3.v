(* PowerLoss3.v -- POWER LOSS AT ANY INSTANT of a history of epochs, and process crashes in the middle of a
   clean Open.  Closes the two gaps named in the header of PowerLoss2.v ("NOT COVERED"): (a) one statement for
   "any instant", with the proof that the instants covered by the existing theorems are ALL instants;
   (b) a process crash in the middle of a CLEAN Open as an epoch boundary.
   New file only; nothing else is touched.  No axioms (Print Assumptions at the end).  The theorems of
   PowerLoss.v / PowerLoss2.v are used as lemmas, not re-proved (for the histories extended by the new epoch,
   section 6, the two short top-level proofs are repeated on the extended invariant theorem).

   WHICH INSTANTS THE EXISTING THEOREMS COVERED.  A history after the sync point is a list of chunks K (events
   [CE es]; partial writes of dying processes [CT ..]).  [hcut Kcut K] (PowerLoss2.v) cuts K inside, or at
   either end of, ANY chunk of events -- also between the last event of Close (the removal of the lock file)
   and the first event of the clean Open that follows (the creation of the lock file): [hcut] does not
   exclude these cuts.  C06_with_recovery excludes them, by its premise d_lock (hrun Kcut d) = true: at these
   cuts the lock file does not exist, the next Open is a clean one, and the conclusion "OOpened true" would be
   false.  They are covered by C09_reopen_epochs (every admissible image of a history that ends with a complete
   Close is the closed directory).  The only instant that is not an [hcut] is the end of the empty history (the
   sync point itself), where the lock file exists.  The DICHOTOMY ([instant_dichotomy]) proves that this is
   all: at every event boundary of a history of epochs either the lock file exists and the boundary is an
   [hcut] (premises of C06_with_recovery), or the lock file does not exist and the boundary is the instant
   right after the last event of a completed Close, before the first event of the next clean Open
   ([closed_window]: premises of C09_reopen_epochs).  The cuts INSIDE that clean Open (lock file created) are
   [hcut]s with the lock file: C06_with_recovery covers them; that the contents are exactly the closed ones
   there too (C09_power_loss_during_reopen, for one process) is [power_loss_reopen_exact].

   CONTENTS
   1. Instants.  [hflat] / [hlen]: the events of a chunked history, a torn write counting as one; [hpre n K]:
      K up to its n-th event; [hpre_flat]: it consists of the first n events; [instant Kc K] := hcut Kc K or
      Kc = K; [hwf]: torn writes follow chunks of events (histories of [mrun] are such: [mrun_shape]);
      [hpre_instant]: EVERY event boundary 0 <= n <= hlen K is an [instant].
   2. [mstep]: the epochs of [mrun] one at a time; [mrun_cons] / [mrun_inv]; [mrun_cut_split]: an [hcut] of a
      history lies in one of its epochs.
   3. THE DICHOTOMY.  [mstep_lock]: at every cut of an epoch the lock file exists, except at the two
      representations of the instant after the complete Close of an MClose epoch; [closed_window];
      [instant_dichotomy].
   4. THEOREMS
      power_loss_any_instant        a sync point anywhere in a history of epochs (premises of
                                    C06_with_recovery); the history goes on through any epochs; the power fails
                                    at ANY instant; every admissible image ([plh]): db_open = OOpened b with
                                    b = "the lock file exists at that instant" = d_lock of the image, Inv, the
                                    contents are those at the sync point followed by a prefix of a linearisation
                                    of the later operations; b = false implies that the instant lies in the
                                    window after a completed Close; and whenever it does, the image is the
                                    closed directory and the contents are EXACTLY those of the closed database.
      power_loss_after_n_events     ... the same with the instant given by the number n of events
      power_loss_last_epoch         the last epoch is cut short (any kind of epoch)
      power_loss_during_close       the history ends with a Close that is cut short (C09_power_loss_during_close
                                    for histories of epochs)
      power_loss_during_reopen_exact / power_loss_reopen_exact
                                    the clean Open after a completed Close is cut short, anywhere: recovery or
                                    clean Open, contents EXACTLY the closed ones (C09_power_loss_during_reopen
                                    for histories of epochs, one power failure)
   5. GAP (b).  [clean_open_prefix]: every prefix of the events of a clean Open keeps the discipline (the one
      new segment file is the newest, and empty) and, once the lock file is there, leaves a recoverable
      directory with the closed contents.
      crash_during_clean_open       Close; the clean Open is killed after a non-empty prefix of its events;
                                    recovery attempts: the recovery succeeds with unchanged contents, and
                                    everything [mrun_main] asserts of an epoch holds of this one -- an [mrun]
                                    can go on from the recovered database.
   6. The extended histories [mrun3] = [mrun] + that epoch ([mstep3]); [mrun_mrun3]; [mrun3_main] (from
      [mrun_main] and [crash_during_clean_open], epoch by epoch); C06_with_recovery3, C09_reopen_epochs3;
      instant_dichotomy3; power_loss_any_instant3: POWER LOSS AT ANY INSTANT of a history in which processes
      also die in the middle of clean Opens.
   7. Non-vacuity (vm_compute), on the history Put [1]; Sync; Put [3]; Close; clean Open of PowerLoss2.v (19
      events after the Sync): the theorem applies at every n; n = 10 lies inside Close (lock file present),
      n = 18 in the window (lock file absent: every admissible image opens cleanly with [3] and [1]; losing
      the append of [3], admissible at n = 4, is not admissible there), n = 19 after the Open; an extended
      history in which the clean Open is killed after creating the lock file.
   FINDING: nothing is refuted; the property holds at every instant, in the model as it is.
   NOT COVERED: a power failure between two epochs counted as the beginning of a further history (two
   successive power failures; PowerLoss.v has C09_power_loss_during_reopen for that, for one process);
   concurrency finer than the micro-steps of xstep; the model's abstractions are those of PowerLoss.v. *)
From Coq Require Import ZArith Lia ZifyN ZifyNat ZifyBool Permutation Sorted.
From Pogreb Require Import Base BaseLemmas Crc Bytes Record RecordProofs Flat Spec DB DBInv DBLemmas
  DBProofsOps DBMeta DBProofsRecovery DBProofsCompact DBProofsCrash PowerLoss PowerLoss2.
Ltac Zify.zify_post_hook ::= Z.div_mod_to_equations.

Local Notation disk := (@DB.disk flat).
Local Notation st := (@DB.st flat).
Local Notation mem := (@DB.mem flat).
Local Notation fsev := (@DB.fsev flat).
Local Notation run_evs := (fold_left (apply_ev flat_ops)).
(* ================================================================================================ *)
(* 1. Instants of a chunked history                                                                  *)

(* the events of a chunked history, one by one: a torn write counts as one event *)
Inductive hev := HE (e : fsev) | HT (id seq : N) (r : rec) (c : N).
Definition hflat1 (k : chunk) : list hev :=
  match k with CE es => map HE es | CT id seq r c => [HT id seq r c] end.
Definition hflat (K : list chunk) : list hev := flat_map hflat1 K.
Definition hlen (K : list chunk) : nat := length (hflat K).

(* [instant Kc K]: Kc is the history K up to some event boundary: a cut inside (or at either end of) a
   chunk of events ([hcut]), or the whole of K *)
Definition instant (Kc K : list chunk) : Prop := hcut Kc K \/ Kc = K.

(* the history up to its n-th event *)
Fixpoint hpre (n : nat) (K : list chunk) : list chunk :=
  match K with
  | [] => []
  | CE es :: K' => if (n <=? length es)%nat then [CE (firstn n es)] else CE es :: hpre (n - length es) K'
  | CT id seq r c :: K' => match n with O => [] | S n' => CT id seq r c :: hpre n' K' end
  end.

Lemma hflat_app K1 K2 : hflat (K1 ++ K2) = hflat K1 ++ hflat K2.
Proof. unfold hflat. apply flat_map_app. Qed.

(* [hpre n K] consists of the first n events of K (all of them if n exceeds their number) *)
Lemma hpre_flat K : forall n, hflat (hpre n K) = firstn n (hflat K).
Proof.
  induction K as [|k K IH]; intros n; [destruct n; reflexivity|].
  destruct k as [es|id seq r c]; cbn [hpre].
  - change (hflat (CE es :: K)) with (map HE es ++ hflat K). rewrite firstn_app, map_length.
    destruct (n <=? length es)%nat eqn:E.
    + apply Nat.leb_le in E. replace (n - length es)%nat with O by lia. cbn [firstn]. rewrite app_nil_r.
      change (hflat [CE (firstn n es)]) with (map HE (firstn n es) ++ []). rewrite app_nil_r. symmetry. apply firstn_map.
    + apply Nat.leb_gt in E. change (hflat (CE es :: hpre (n - length es) K)) with (map HE es ++ hflat (hpre (n - length es) K)).
      rewrite IH, (firstn_all2 (n:=n) (map HE es)); [reflexivity|rewrite map_length; lia].
  - destruct n as [|n]; [reflexivity|].
    change (hflat (CT id seq r c :: hpre n K)) with (HT id seq r c :: hflat (hpre n K)). rewrite IH. reflexivity.
Qed.

Lemma hpre_len K n : hlen (hpre n K) = Nat.min n (hlen K).
Proof. unfold hlen. rewrite hpre_flat. apply firstn_length. Qed.

(* histories in which every torn write follows a chunk of events (those of [mrun] are such) *)
Inductive hwf : list chunk -> Prop :=
| hwf_nil : hwf []
| hwf_ce es K : hwf K -> hwf (CE es :: K)
| hwf_ct es id seq r c K : hwf K -> hwf (CE es :: CT id seq r c :: K).

Lemma hwf_app K1 K2 : hwf K1 -> hwf K2 -> hwf (K1 ++ K2).
Proof.
  intros H1 H2. induction H1 as [|es K H IH|es id seq r c K H IH]; cbn [app]; [exact H2|apply hwf_ce; exact IH|apply hwf_ct; exact IH].
Qed.

Lemma instant_cons k Kc K : instant Kc K -> instant (k :: Kc) (k :: K).
Proof. intros [H| ->]; [left; apply hcut_cons; exact H|right; reflexivity]. Qed.

(* EVERY event boundary is an instant *)
Lemma hpre_instant K : hwf K -> forall n, instant (hpre n K) K.
Proof.
  intros H. induction H as [|es K H IH|es id seq r c K H IH]; intros n.
  - right. reflexivity.
  - cbn [hpre]. destruct (n <=? length es)%nat.
    + left. rewrite <- (firstn_skipn n es) at 2. apply hcut_here.
    + apply instant_cons. apply IH.
  - cbn [hpre]. destruct (n <=? length es)%nat eqn:E.
    + left. rewrite <- (firstn_skipn n es) at 2. apply hcut_here.
    + apply Nat.leb_gt in E. destruct (n - length es)%nat as [|n'] eqn:En; [lia|].
      apply instant_cons. apply instant_cons. apply IH.
Qed.

(* ---- [hcut] and concatenation ---- *)
Lemma hcut_app_inv K1 : forall Kcut K2, hcut Kcut (K1 ++ K2) ->
  hcut Kcut K1 \/ exists Kc2, Kcut = K1 ++ Kc2 /\ hcut Kc2 K2.
Proof.
  induction K1 as [|k K1 IH]; intros Kcut K2 H; [right; exists Kcut; split; [reflexivity|exact H]|].
  cbn [app] in H. inversion H as [es1 es2 K0|k0 Kc K0 H']; subst.
  - left. apply hcut_here.
  - destruct (IH _ _ H') as [Hl|(Kc2 & -> & Hr)]; [left; apply hcut_cons; exact Hl|].
    right. exists Kc2. split; [reflexivity|exact Hr].
Qed.

Lemma hcut_app_l Kc K1 K2 : hcut Kc K1 -> hcut Kc (K1 ++ K2).
Proof. intros H. induction H as [es1 es2 K|k Kc K H IH]; cbn [app]; [apply hcut_here|apply hcut_cons; exact IH]. Qed.

Lemma hcut_one_inv Kc es : hcut Kc [CE es] -> exists es1 es2, es = es1 ++ es2 /\ Kc = [CE es1].
Proof.
  intros H. inversion H as [es1 es2 K0|k0 Kc0 K0 H']; subst.
  - exists es1, es2. split; reflexivity.
  - inversion H'.
Qed.

Lemma hcut_ce_inv Kc a K : hcut Kc (CE a :: K) ->
  (exists a1 a2, a = a1 ++ a2 /\ Kc = [CE a1]) \/ (exists Kc', Kc = CE a :: Kc' /\ hcut Kc' K).
Proof.
  intros H. inversion H as [es1 es2 K0|k0 Kc0 K0 H']; subst.
  - left. exists es1, es2. split; reflexivity.
  - right. exists Kc0. split; [reflexivity|exact H'].
Qed.

Lemma hcut_last K es : hcut (K ++ [CE es]) (K ++ [CE es]).
Proof. apply hcut_app. rewrite <- (app_nil_r es) at 2. apply hcut_here. Qed.

Lemma hcrash_full K : forall d : disk, hcrash d K (hrun K d).
Proof.
  induction K as [|k K IH]; intros d; [apply hc_here|]. cbn [hrun fold_left].
  destruct k; [apply hc_evs|apply hc_tnext]; apply IH.
Qed.
(* ================================================================================================ *)
(* 2. The epochs of [mrun], one at a time                                                            *)

(* [mstep P cf it Kit cf1]: the epoch item it, run from the open database cf, issues the chunks Kit and
   ends in the open database cf1 (the constructors of [mrun], without the rest of the history) *)
Inductive mstep (P : params) : cfg -> mitem -> list chunk -> cfg -> Prop :=
| ms_ops cf os cfs tr cf1 : xrun P cf os cfs tr cf1 -> mstep P cf (MOps os) [CE tr] cf1
| ms_crash cf o cfx Kc cimg Kr s1 :
    xstep P cf o cfx -> cutof (s_disk (fst cf)) (s_trace (fst cfx)) Kc cimg -> rrun P cimg Kr s1 ->
    mstep P cf (MCrash o) (Kc ++ Kr) (s1, None)
| ms_kill cf Kr s1 : rrun P (s_disk (fst cf)) Kr s1 -> mstep P cf MKill Kr (s1, None)
| ms_close cf s1 seed s2 :
    db_close flat_ops (clear_trace (fst cf)) = (s1, OOk) ->
    db_open flat_ops P seed (closed (s_disk s1)) = (s2, OOpened false) ->
    mstep P cf MClose [CE (s_trace s1); CE (s_trace s2)] (s2, None)
| ms_crash_close cf s1 o p e q Kr s1' :
    db_close flat_ops (clear_trace (fst cf)) = (s1, o) -> s_trace s1 = p ++ e :: q ->
    rrun P (run_evs p (s_disk (fst cf))) Kr s1' -> mstep P cf MKill (CE p :: Kr) (s1', None).

Lemma mrun_cons P cf it Kit cf1 mh K cf' :
  mstep P cf it Kit cf1 -> mrun P cf1 mh K cf' -> mrun P cf (it :: mh) (Kit ++ K) cf'.
Proof.
  intros Hs Hr. destruct Hs as [cf os cfs tr cf1 Hx|cf o cfx Kc cimg Kr s1 Hx Hcut Hrr|cf Kr s1 Hrr
                                |cf s1 seed s2 Ec Eo|cf s1 o p e q Kr s1' Ec Etr Hrr]; cbn [app].
  - eapply mr_ops; eassumption.
  - rewrite <- app_assoc. eapply mr_crash; eassumption.
  - eapply mr_kill; eassumption.
  - eapply mr_close; eassumption.
  - eapply mr_crash_close; eassumption.
Qed.

Lemma mrun_one P cf it Kit cf1 : mstep P cf it Kit cf1 -> mrun P cf [it] Kit cf1.
Proof. intros Hs. rewrite <- (app_nil_r Kit). apply (mrun_cons P _ _ _ _ _ _ _ Hs). apply mr_nil. Qed.

Lemma mrun_inv P cf mh K cf' : mrun P cf mh K cf' ->
  (mh = [] /\ K = [] /\ cf' = cf) \/
  exists it Kit cf1 mh' K', mstep P cf it Kit cf1 /\ mrun P cf1 mh' K' cf' /\ mh = it :: mh' /\ K = Kit ++ K'.
Proof.
  intros H. destruct H as [cf|cf os cfs tr cf1 mh K cf' Hr H|cf o cfx Kc cimg Kr s1 mh K cf' Hs Hcut Hrr H
                           |cf Kr s1 mh K cf' Hrr H|cf s1 seed s2 mh K cf' Ec Eo H
                           |cf s1 o p e q Kr s1' mh K cf' Ec Etr Hrr H]; [left; repeat split|right..].
  - exists (MOps os), [CE tr], cf1, mh, K. split; [eapply ms_ops; exact Hr|]. split; [exact H|split; reflexivity].
  - exists (MCrash o), (Kc ++ Kr), (s1, None), mh, K. split; [eapply ms_crash; eassumption|]. split; [exact H|].
    split; [reflexivity|apply app_assoc].
  - exists MKill, Kr, (s1, None), mh, K. split; [apply ms_kill; exact Hrr|]. split; [exact H|split; reflexivity].
  - exists MClose, [CE (s_trace s1); CE (s_trace s2)], (s2, None), mh, K. split; [eapply ms_close; eassumption|].
    split; [exact H|split; reflexivity].
  - exists MKill, (CE p :: Kr), (s1', None), mh, K. split; [eapply ms_crash_close; eassumption|].
    split; [exact H|split; reflexivity].
Qed.

(* the chunks of an epoch: not empty, the last one is a chunk of events, torn writes follow events *)
Lemma rrun_shape P d Kr s1 : rrun P d Kr s1 -> hwf Kr /\ exists K' es, Kr = K' ++ [CE es].
Proof.
  intros H. induction H as [d seed s' E|d seed p q K s' Etr H (IH1 & K' & es & IH2)].
  - split; [apply hwf_ce; apply hwf_nil|]. exists [], (s_trace s'). reflexivity.
  - split; [apply hwf_ce; exact IH1|]. exists (CE p :: K'), es. rewrite IH2. reflexivity.
Qed.

Lemma cutof_hwf d es Kc cimg : cutof d es Kc cimg -> hwf Kc.
Proof. intros H. destruct H; [apply hwf_ce; apply hwf_nil|apply hwf_ct; apply hwf_nil]. Qed.

Lemma mstep_shape P cf it Kit cf1 : mstep P cf it Kit cf1 -> hwf Kit /\ exists K' es, Kit = K' ++ [CE es].
Proof.
  intros Hs. destruct Hs as [cf os cfs tr cf1 Hx|cf o cfx Kc cimg Kr s1 Hx Hcut Hrr|cf Kr s1 Hrr
                             |cf s1 seed s2 Ec Eo|cf s1 o p e q Kr s1' Ec Etr Hrr].
  - split; [apply hwf_ce; apply hwf_nil|]. exists [], tr. reflexivity.
  - destruct (rrun_shape P _ _ _ Hrr) as (W & K' & es & ->).
    split; [apply hwf_app; [eapply cutof_hwf; exact Hcut|exact W]|]. exists (Kc ++ K'), es. apply app_assoc.
  - apply (rrun_shape P _ _ _ Hrr).
  - split; [apply hwf_ce; apply hwf_ce; apply hwf_nil|]. exists [CE (s_trace s1)], (s_trace s2). reflexivity.
  - destruct (rrun_shape P _ _ _ Hrr) as (W & K' & es & ->).
    split; [apply hwf_ce; exact W|]. exists (CE p :: K'), es. reflexivity.
Qed.

Lemma mrun_shape P cf mh K cf' : mrun P cf mh K cf' ->
  hwf K /\ ((mh = [] /\ K = [] /\ cf' = cf) \/ exists K' es, K = K' ++ [CE es]).
Proof.
  intros H. induction H as [cf|cf os cfs tr cf1 mh K cf' Hr H IH|cf o cfx Kc cimg Kr s1 mh K cf' Hs Hcut Hrr H IH
                            |cf Kr s1 mh K cf' Hrr H IH|cf s1 seed s2 mh K cf' Ec Eo H IH
                            |cf s1 o p e q Kr s1' mh K cf' Ec Etr Hrr H IH].
  - split; [apply hwf_nil|left; repeat split].
  - assert (Hs : mstep P cf (MOps os) [CE tr] cf1) by (eapply ms_ops; exact Hr).
    destruct (mstep_shape P _ _ _ _ Hs) as (W & K1 & es1 & E1). destruct IH as (W' & [(_ & -> & _)|(K' & es & ->)]).
    + split; [exact W|]. right. exists K1, es1. exact E1.
    + split; [apply (hwf_app [CE tr]); assumption|]. right. exists (CE tr :: K'), es. reflexivity.
  - assert (Hst : mstep P cf (MCrash o) (Kc ++ Kr) (s1, None)) by (eapply ms_crash; eassumption).
    destruct (mstep_shape P _ _ _ _ Hst) as (W & K1 & es1 & E1). destruct IH as (W' & [(_ & -> & _)|(K' & es & ->)]).
    + rewrite app_nil_r. split; [exact W|]. right. exists K1, es1. exact E1.
    + split; [rewrite app_assoc; apply hwf_app; assumption|]. right. exists (Kc ++ Kr ++ K'), es. rewrite <- !app_assoc. reflexivity.
  - assert (Hst : mstep P cf MKill Kr (s1, None)) by (apply ms_kill; exact Hrr).
    destruct (mstep_shape P _ _ _ _ Hst) as (W & K1 & es1 & E1). destruct IH as (W' & [(_ & -> & _)|(K' & es & ->)]).
    + rewrite app_nil_r. split; [exact W|]. right. exists K1, es1. exact E1.
    + split; [apply hwf_app; assumption|]. right. exists (Kr ++ K'), es. rewrite <- app_assoc. reflexivity.
  - destruct IH as (W' & [(_ & -> & _)|(K' & es & ->)]).
    + split; [apply hwf_ce; apply hwf_ce; apply hwf_nil|]. right. exists [CE (s_trace s1)], (s_trace s2). reflexivity.
    + split; [apply hwf_ce; apply hwf_ce; exact W'|]. right. exists (CE (s_trace s1) :: CE (s_trace s2) :: K'), es. reflexivity.
  - assert (Hst : mstep P cf MKill (CE p :: Kr) (s1', None)) by (eapply ms_crash_close; eassumption).
    destruct (mstep_shape P _ _ _ _ Hst) as (W & K1 & es1 & E1). destruct IH as (W' & [(_ & -> & _)|(K' & es & ->)]).
    + rewrite app_nil_r. split; [exact W|]. right. exists K1, es1. exact E1.
    + split; [apply (hwf_app (CE p :: Kr)); assumption|]. right. exists (CE p :: Kr ++ K'), es.
      cbn [app]. rewrite <- app_assoc. reflexivity.
Qed.

(* the end of a history of at least one epoch is a cut of it *)
Lemma mrun_end_cut P cf mh K cf' : mrun P cf mh K cf' -> (mh = [] /\ K = [] /\ cf' = cf) \/ hcut K K.
Proof.
  intros H. destruct (mrun_shape P _ _ _ _ H) as (_ & [Hn|(K' & es & ->)]); [left; exact Hn|right; apply hcut_last].
Qed.

(* an instant of a history of epochs lies in one of its epochs *)
Lemma mrun_cut_split P mh : forall cf K cf' Kcut, mrun P cf mh K cf' -> hcut Kcut K ->
  exists mh1 K1 cfb it Kit cfn mh2 K2 Kc,
    mrun P cf mh1 K1 cfb /\ mstep P cfb it Kit cfn /\ mrun P cfn mh2 K2 cf' /\
    mh = mh1 ++ it :: mh2 /\ K = K1 ++ Kit ++ K2 /\ Kcut = K1 ++ Kc /\ hcut Kc Kit.
Proof.
  induction mh as [|it0 mh IH]; intros cf K cf' Kcut Hr Hcut.
  - destruct (mrun_inv P _ _ _ _ Hr) as [(_ & -> & _)|(it & Kit & cf1 & mh' & K' & _ & _ & E & _)]; [inversion Hcut|discriminate E].
  - destruct (mrun_inv P _ _ _ _ Hr) as [(E & _)|(it & Kit & cf1 & mh' & K' & Hs & Hr' & E & ->)]; [discriminate E|].
    inversion E; subst it0 mh'.
    destruct (hcut_app_inv _ _ _ Hcut) as [Hl|(Kc2 & -> & Hc2)].
    + exists [], [], cf, it, Kit, cf1, mh, K', Kcut. split; [apply mr_nil|]. split; [exact Hs|]. split; [exact Hr'|].
      split; [reflexivity|]. split; [reflexivity|]. split; [reflexivity|exact Hl].
    + destruct (IH _ _ _ _ Hr' Hc2) as (mh1 & K1 & cfb & it2 & Kit2 & cfn & mh2 & K2 & Kc & A1 & A2 & A3 & -> & -> & -> & A7).
      exists (it :: mh1), (Kit ++ K1), cfb, it2, Kit2, cfn, mh2, K2, Kc.
      split; [apply (mrun_cons P _ _ _ _ _ _ _ Hs A1)|]. split; [exact A2|]. split; [exact A3|].
      split; [reflexivity|]. split; [rewrite <- app_assoc; reflexivity|]. split; [rewrite <- app_assoc; reflexivity|exact A7].
Qed.
(* ================================================================================================ *)
(* 3. THE DICHOTOMY: at every instant the lock file exists, or the instant lies in the window between   *)
(*    the removal of the lock file by a completed Close and its creation by the next clean Open        *)

(* the instants of one epoch *)
Lemma mstep_lock P cfb it Kit cfn Kc u :
  params_ok P -> XOpen P cfb -> DurS u (fst cfb) -> mstep P cfb it Kit cfn -> hcut Kc Kit ->
  d_lock (hrun Kc (s_disk (fst cfb))) = true \/
  exists s1 seed s2, it = MClose /\ db_close flat_ops (clear_trace (fst cfb)) = (s1, OOk) /\
    db_open flat_ops P seed (closed (s_disk s1)) = (s2, OOpened false) /\
    Kit = [CE (s_trace s1); CE (s_trace s2)] /\ cfn = (s2, None) /\
    (Kc = [CE (s_trace s1)] \/ Kc = [CE (s_trace s1); CE []]).
Proof.
  intros HP HX HD Hs Hcut. pose proof HX as [(HI & Hm & Hb) _]. pose proof (Inv_Good P _ HI Hm Hb) as Hg0.
  destruct Hs as [cf os cfs tr cf1 Hx|cf o cfx Kc0 cimg Kr s1 Hx Hcf Hrr|cf Kr s1 Hrr
                  |cf s1 seed s2 Ec Eo|cf s1 o p e q Kr s1' Ec Etr Hrr].
  - (* acknowledged steps *)
    left. destruct (hcut_one_inv _ _ Hcut) as (es1 & es2 & -> & ->). cbn [hrun fold_left hstep].
    destruct (xrun_crash P _ _ _ _ _ HP Hx HX (run_evs es1 (s_disk (fst cf)))) as [(_ & _ & G3) _]; [|exact G3].
    apply crash_image_app_l. apply crash_image_full.
  - (* a step dies; recovery attempts *)
    left. destruct (crash_trans P cf o cfx Kc0 cimg u HP HX HD Hx Hcf) as (Hgc & (uc & Hdc & HNc) & Hcrc).
    destruct (hcut_app_inv _ _ _ Hcut) as [Hl|(Kc2 & -> & Hc2)].
    + destruct (Hcrc _ (hcut_self _ _ Hl _)) as [(_ & _ & G3) _]. exact G3.
    + rewrite hrun_app, (cutof_hrun _ _ _ _ Hcf).
      destruct (rrun_ok P cimg Kr s1 HP Hrr uc Hgc HNc) as (_ & _ & _ & _ & Hcrr).
      destruct (Hcrr _ (hcut_self _ _ Hc2 _)) as [(_ & _ & G3) _]. exact G3.
  - (* killed between steps; recovery attempts *)
    left. pose proof (DurS_Neat P (fst cf) u HI HD) as HN0.
    destruct (rrun_ok P _ Kr s1 HP Hrr u Hg0 HN0) as (_ & _ & _ & _ & Hcrr).
    destruct (Hcrr _ (hcut_self _ _ Hcut _)) as [(_ & _ & G3) _]. exact G3.
  - (* Close, clean Open *)
    destruct (s_mem (fst cf)) as [m|] eqn:Em; [|congruence].
    destruct (closed_facts P (fst cf) m s1 OOk HI Em Hb Ec) as (_ & Hm1 & Hok1 & Hb1 & Hl1 & Hi1 & Hov1 & Him1 & Hh1 & Hc1 & Ed1).
    destruct (hcut_ce_inv _ _ _ Hcut) as [(es1 & es2 & Et1 & ->)|(Kc' & -> & Hcut')].
    + (* inside Close *)
      destruct es2 as [|e2 es2].
      * right. exists s1, seed, s2. rewrite app_nil_r in Et1. subst es1. split; [reflexivity|]. split; [exact Ec|]. split; [exact Eo|].
        split; [reflexivity|]. split; [reflexivity|left; reflexivity].
      * left. cbn [hrun fold_left hstep].
        pose proof (close_prefix_neutral (fst cf) m s1 OOk es1 e2 es2 Em Ec Et1) as Hn1.
        apply (safe_run_end es1 _ (neutral_safe_run es1 _ Hn1 Hg0) Hg0).
    + (* inside the clean Open *)
      destruct (hcut_one_inv _ _ Hcut') as (e1 & e2 & Et2 & ->).
      destruct e1 as [|a e1].
      * right. exists s1, seed, s2. split; [reflexivity|]. split; [exact Ec|]. split; [exact Eo|].
        split; [reflexivity|]. split; [reflexivity|right; reflexivity].
      * left. cbn [hrun fold_left hstep]. rewrite <- Ed1.
        destruct (clean_open_trace P seed (s_disk s1) _ _ Hok1 Hb1 Hl1 Hi1 Hov1 Him1 Hh1) as (pre & T & Hsafe & _).
        rewrite Eo in T. cbn [fst] in T. rewrite Et2 in T. cbn [app] in T. inversion T as [[Ea Epre]]. subst a.
        assert (Hg1 : Good (apply_ev flat_ops (s_disk s1) (ECreate FLock))) by (split; [exact Hok1|split; [exact Hb1|reflexivity]]).
        assert (Hci : crash_image (apply_ev flat_ops (s_disk s1) (ECreate FLock)) pre
                        (run_evs e1 (apply_ev flat_ops (s_disk s1) (ECreate FLock)))).
        { rewrite <- Epre. apply crash_image_app_l. apply crash_image_full. }
        destruct (safe_run_images pre _ _ Hsafe Hg1 Hci) as ((_ & _ & G3) & _). exact G3.
  - (* killed in the middle of Close; recovery attempts *)
    left. destruct (s_mem (fst cf)) as [m|] eqn:Em; [|congruence].
    pose proof (close_prefix_neutral (fst cf) m s1 o p e q Em Ec Etr) as Hn.
    destruct (hcut_ce_inv _ _ _ Hcut) as [(es1 & es2 & -> & ->)|(Kc' & -> & Hcut')].
    + cbn [hrun fold_left hstep]. apply Forall_app in Hn. destruct Hn as [Hn1 _].
      apply (safe_run_end es1 _ (neutral_safe_run es1 _ Hn1 Hg0) Hg0).
    + destruct (DurS_Neat P (fst cf) u HI HD) as (y & HJ0).
      pose proof (neutral_nolog p Hn) as Hnl.
      destruct (safe_run_end p _ (neutral_safe_run p _ Hn Hg0) Hg0) as [Hgp Hop].
      assert (Hslp : same_log (s_disk (fst cf)) (run_evs p (s_disk (fst cf)))).
      { apply (no_log_images_same_log p); [exact Hnl|apply crash_image_full]. }
      destruct (dur2_nolog p u Hnl) as (u_p & Hdp & Hup).
      assert (HNp : Neat u_p (run_evs p (s_disk (fst cf)))).
      { exists y. apply (Jd_same_log y _ _ _ Hslp). destruct HJ0 as (A & B & C). split; [exact A|]. split; [exact B|].
        intros x Ex. destruct Hup as [->| ->]; [apply C; exact Ex|discriminate]. }
      destruct (rrun_ok P _ Kr s1' HP Hrr u_p Hgp HNp) as (_ & _ & _ & _ & Hcrr).
      cbn [hrun fold_left hstep].
      destruct (Hcrr _ (hcut_self _ _ Hcut' _)) as [(_ & _ & G3) _]. exact G3.
Qed.

(* [closed_window P cf1 mh K cf' Kcut s s1]: the instant Kcut of the history (mh, K) from cf1 to cf' lies
   after the last event of a COMPLETED Close -- of the open database s, leaving the closed directory
   s_disk s1 -- and before the first event (the creation of the lock file) of the clean Open that follows *)
Definition closed_window (P : params) (cf1 : cfg) (mh : list mitem) (K : list chunk) (cf' : cfg)
  (Kcut : list chunk) (s s1 : st) : Prop :=
  exists mh1 K1 c seed s2 mh2 K2,
    mrun P cf1 mh1 K1 (s, c) /\ db_close flat_ops (clear_trace s) = (s1, OOk) /\
    db_open flat_ops P seed (closed (s_disk s1)) = (s2, OOpened false) /\
    mrun P (s2, None) mh2 K2 cf' /\ mh = mh1 ++ MClose :: mh2 /\
    K = K1 ++ CE (s_trace s1) :: CE (s_trace s2) :: K2 /\
    (Kcut = K1 ++ [CE (s_trace s1)] \/ Kcut = K1 ++ [CE (s_trace s1); CE []]).

(* in the window the directory is the closed one: no lock file *)
Lemma closed_window_disk P cf1 mh K cf' Kcut s s1 :
  params_ok P -> XOpen P cf1 -> closed_window P cf1 mh K cf' Kcut s s1 ->
  hrun Kcut (s_disk (fst cf1)) = s_disk s1 /\ d_lock (s_disk s1) = false.
Proof.
  intros HP HX1 (mh1 & K1 & c & seed & s2 & mh2 & K2 & Hr1 & Ec & Eo & Hr2 & Emh & EK & EKc).
  destruct (mrun_main P _ _ _ _ HP Hr1 None HX1 (open_DurS_None P cf1 HX1)) as ([(HI & Hm & Hb) _] & Ed & _).
  cbn [fst] in HI, Hm, Hb, Ed. destruct (s_mem s) as [m|] eqn:Em; [|congruence].
  destruct (closed_facts P s m s1 OOk HI Em Hb Ec) as (_ & _ & _ & _ & Hl1 & _ & _ & _ & _ & _ & Ed1).
  split; [|exact Hl1].
  destruct EKc as [-> | ->]; rewrite hrun_app, <- Ed; cbn [hrun fold_left hstep]; symmetry; exact Ed1.
Qed.

(* THE DICHOTOMY.  Every instant of a history of epochs is either an instant at which the lock file exists
   -- then it is a cut [hcut] of the history, as C06_with_recovery wants it (or the history is empty and
   the instant is its starting point) -- or it lies in the window after a completed Close, as
   C09_reopen_epochs wants it.  The two cases exclude each other (d_lock is true in one, false in the
   other). *)
Theorem instant_dichotomy P cf1 mh K cf' Kcut :
  params_ok P -> XOpen P cf1 -> mrun P cf1 mh K cf' -> instant Kcut K ->
  (d_lock (hrun Kcut (s_disk (fst cf1))) = true /\ (hcut Kcut K \/ (Kcut = [] /\ K = [] /\ mh = []))) \/
  (d_lock (hrun Kcut (s_disk (fst cf1))) = false /\ hcut Kcut K /\
   exists s s1, closed_window P cf1 mh K cf' Kcut s s1).
Proof.
  intros HP HX1 Hr Hin.
  assert (Hc : hcut Kcut K \/ (Kcut = [] /\ K = [] /\ mh = [])).
  { destruct Hin as [H| ->]; [left; exact H|]. destruct (mrun_end_cut P _ _ _ _ Hr) as [(A & B & _)|H]; [right; repeat split; assumption|left; exact H]. }
  destruct Hc as [Hcut|(-> & -> & ->)].
  - destruct (mrun_cut_split P mh _ _ _ _ Hr Hcut) as (mh1 & K1 & cfb & it & Kit & cfn & mh2 & K2 & Kc & A1 & A2 & A3 & Emh & EK & EKc & A7).
    destruct (mrun_main P _ _ _ _ HP A1 None HX1 (open_DurS_None P cf1 HX1)) as (HXb & Edb & (ub & _ & HDb) & _).
    destruct (mstep_lock P cfb it Kit cfn Kc ub HP HXb HDb A2 A7) as [Hl|(s1 & seed & s2 & -> & Ec & Eo & -> & -> & HKc)].
    + left. split; [rewrite EKc, hrun_app, <- Edb; exact Hl|left; exact Hcut].
    + assert (Hw : closed_window P cf1 mh K cf' Kcut (fst cfb) s1).
      { exists mh1, K1, (snd cfb), seed, s2, mh2, K2. rewrite <- surjective_pairing.
        split; [exact A1|]. split; [exact Ec|]. split; [exact Eo|]. split; [exact A3|]. split; [exact Emh|].
        split; [exact EK|]. rewrite EKc. destruct HKc as [-> | ->]; [left|right]; reflexivity. }
      right. destruct (closed_window_disk P _ _ _ _ _ _ _ HP HX1 Hw) as [E1 E2].
      split; [rewrite E1; exact E2|]. split; [exact Hcut|]. exists (fst cfb), s1. exact Hw.
  - left. split; [|right; repeat split]. cbn [hrun fold_left]. destruct HX1 as [(HI & Hm & Hb) _].
    apply (Inv_Good P _ HI Hm Hb).
Qed.

(* ================================================================================================ *)
(* 4. Power loss at ANY instant                                                                      *)

Lemma lin_app mh1 l1 : lin mh1 l1 -> forall mh2 l2, lin mh2 l2 -> lin (mh1 ++ mh2) (l1 ++ l2).
Proof.
  intros H. induction H as [|os mh l H IH|o mh l H IH|o mh l H IH|mh l H IH|mh l H IH]; intros mh2 l2 H2; cbn [app].
  - exact H2.
  - rewrite <- app_assoc. apply lin_ops. apply IH. exact H2.
  - apply lin_lost. apply IH. exact H2.
  - apply lin_done. apply IH. exact H2.
  - apply lin_kill. apply IH. exact H2.
  - apply lin_close. apply IH. exact H2.
Qed.

(* what holds after a prefix of the history holds with respect to the whole history *)
Lemma after_app_l c mh1 mh2 c' : after c mh1 c' -> after c (mh1 ++ mh2) c'.
Proof.
  intros (l & j & Hl & Hj & Hc). destruct (lin_exists mh2) as (l2 & Hl2). exists (l ++ l2), j.
  split; [apply lin_app; assumption|]. split; [rewrite app_length; lia|].
  rewrite firstn_app. replace (j - length l)%nat with O by lia. cbn [firstn]. rewrite app_nil_r. exact Hc.
Qed.

Lemma after_nil_ops c c' : after c [MOps []] c' -> after c [] c'.
Proof.
  intros (l & j & Hl & Hj & Hc). inversion Hl as [|os mh' l' Hl'| | | |]; subst. inversion Hl'; subst.
  cbn [app length] in Hj. exists [], O. split; [apply lin_nil|]. split; [apply Nat.le_refl|].
  replace j with O in Hc by lia. exact Hc.
Qed.

(* the sync step, as an epoch *)
Lemma sync_epoch P cf0 mh0 K0 cfa osync cf1 mh1 K1 cfb :
  mrun P cf0 mh0 K0 cfa -> xstep P cfa osync cf1 -> mrun P cf1 mh1 K1 cfb ->
  mrun P cf0 (mh0 ++ MOps [osync] :: mh1) (K0 ++ CE (s_trace (fst cf1)) :: K1) cfb.
Proof.
  intros Hr0 Hs Hr1. apply (mrun_app P _ _ _ _ Hr0).
  rewrite <- (app_nil_r (s_trace (fst cf1))). eapply mr_ops; [|exact Hr1].
  apply (xr_cons P cfa osync cf1 [] [] [] cf1 Hs). apply xr_nil.
Qed.

(* the window after a completed Close: every admissible image is the closed directory *)
Lemma window_power_loss P seed cf0 mh0 K0 cfa osync cf1 mh K cf' Kcut s s1 L' img' :
  params_ok P -> XOpen P cf0 ->
  mrun P cf0 mh0 K0 cfa -> xstep P cfa osync cf1 -> sync_point P osync ->
  closed_window P cf1 mh K cf' Kcut s s1 ->
  plh fnone (s_disk (fst cf0)) (K0 ++ CE (s_trace (fst cf1)) :: Kcut) L' img' ->
  img' = set_orphans (s_disk s1) (d_orphans img') /\ d_lock img' = false /\
  exists s2, db_open flat_ops P seed (closed img') = (s2, OOpened false) /\ Inv P s2 /\ s_mem s2 <> None /\
    ceq (cont (s_disk s2)) (cont (s_disk s)) /\ after (cont (s_disk (fst cf1))) mh (cont (s_disk s2)).
Proof.
  intros HP HX0 Hr0 Hs Hsp (mh1 & K1 & c & seed' & s2' & mh2 & K2 & Hr1 & Ec & Eo & Hr2 & Emh & EK & EKc) Hpl.
  assert (HX1 : XOpen P cf1).
  { destruct (mrun_main P _ _ _ _ HP Hr0 None HX0 (open_DurS_None P cf0 HX0)) as (HXa & _).
    apply (xstep_ok P _ _ _ HP HXa Hs). }
  destruct (mrun_main P _ _ _ _ HP Hr1 None HX1 (open_DurS_None P cf1 HX1)) as ([(HI & Hm & Hb) _] & Ed & _ & Hcr).
  cbn [fst] in HI, Hm, Hb, Ed. destruct (s_mem s) as [m|] eqn:Em; [|congruence].
  pose proof (sync_epoch P _ _ _ _ _ _ _ _ _ Hr0 Hs Hr1) as Hrall.
  assert (Hpl' : plh fnone (s_disk (fst cf0)) ((K0 ++ CE (s_trace (fst cf1)) :: K1) ++ [CE (s_trace s1)]) L' img').
  { destruct EKc as [-> | ->].
    - rewrite <- app_assoc. exact Hpl.
    - change [CE (s_trace s1); CE []] with ([CE (s_trace s1)] ++ [CE []]) in Hpl.
      rewrite app_assoc, app_comm_cons, app_assoc in Hpl.
      destruct (plh_app_inv _ _ _ _ _ _ Hpl) as (L1 & d1 & Hp1 & Hp2). apply plh_one_inv in Hp2.
      inversion Hp2; subst. rewrite <- app_assoc. exact Hp1. }
  destruct (C09_reopen_epochs P seed _ _ _ _ _ _ _ _ _ _ HP HX0 Hrall Em Ec Hpl') as (E1 & E2 & s2 & E3 & HI2 & Hm2 & Hc2).
  split; [exact E1|]. split; [exact E2|]. exists s2. split; [exact E3|]. split; [exact HI2|]. split; [exact Hm2|].
  split; [exact Hc2|]. rewrite Emh. apply after_app_l.
  destruct (Hcr _ (hcrash_full K1 _)) as (_ & _ & Haf). rewrite <- Ed in Haf.
  apply (after_ceq_r _ _ _ _ Haf Hc2).
Qed.

(* POWER LOSS AT ANY INSTANT.  A history of epochs from a durable directory; in some epoch a Sync (or,
   with p_sync, a Put / Delete) completes: contents A0 = cont (s_disk (fst cf1)).  The history goes on
   through any number of epochs mh (acknowledged steps; process crashes in the middle of a step, with torn
   writes, between steps, in the middle of Close; recovery attempts that die themselves; Close and clean
   Open).  The power fails at ANY instant of it: Kcut is the history up to any event boundary, first and
   last included.  Whatever the file system kept (every admissible image img'):
   - the next Open succeeds, through a recovery (b = true) exactly if the lock file exists at that
     instant, cleanly (b = false) otherwise; the invariant holds;
   - the contents are A0 followed by a prefix of (a linearisation of) the later operations;
   - if the lock file does not exist, the instant lies in the window after a completed Close, and
     whenever it does the image is the closed directory itself and the contents are EXACTLY those of the
     database that was closed. *)
Theorem power_loss_any_instant P seed cf0 mh0 K0 cfa osync cf1 mh K cf' Kcut L' img' :
  params_ok P -> XOpen P cf0 ->
  mrun P cf0 mh0 K0 cfa -> xstep P cfa osync cf1 -> sync_point P osync ->
  mrun P cf1 mh K cf' -> instant Kcut K ->
  plh fnone (s_disk (fst cf0)) (K0 ++ CE (s_trace (fst cf1)) :: Kcut) L' img' ->
  exists s2 b, db_open flat_ops P seed (closed img') = (s2, OOpened b) /\ Inv P s2 /\ s_mem s2 <> None /\
    after (cont (s_disk (fst cf1))) mh (cont (s_disk s2)) /\
    b = d_lock (hrun Kcut (s_disk (fst cf1))) /\ d_lock img' = b /\
    (b = false -> exists s s1, closed_window P cf1 mh K cf' Kcut s s1) /\
    (forall s s1, closed_window P cf1 mh K cf' Kcut s s1 ->
       b = false /\ img' = set_orphans (s_disk s1) (d_orphans img') /\ ceq (cont (s_disk s2)) (cont (s_disk s))).
Proof.
  intros HP HX0 Hr0 Hs Hsp Hr Hin Hpl.
  assert (HX1 : XOpen P cf1).
  { destruct (mrun_main P _ _ _ _ HP Hr0 None HX0 (open_DurS_None P cf0 HX0)) as (HXa & _).
    apply (xstep_ok P _ _ _ HP HXa Hs). }
  assert (Hlockimg : d_lock img' = d_lock (hrun Kcut (s_disk (fst cf1)))).
  { pose proof (mrun_main P _ _ _ _ HP Hr0 None HX0 (open_DurS_None P cf0 HX0)) as (HXa & Eda & _).
    destruct (xstep_ok P _ _ _ HP HXa Hs) as (_ & _ & Ed1).
    pose proof (plh_agree _ _ _ _ _ Hpl _ (Agree_refl _ _)) as (_ & _ & _ & _ & _ & A6 & _).
    rewrite A6, hrun_app. cbn [hrun fold_left hstep]. rewrite <- Eda, <- Ed1. reflexivity. }
  destruct (instant_dichotomy P _ _ _ _ _ HP HX1 Hr Hin) as [[Hl Hc]|(Hl & Hcut & s & s1 & Hw)].
  - (* the lock file exists: C06_with_recovery *)
    assert (Hrec : exists s2, db_open flat_ops P seed (closed img') = (s2, OOpened true) /\ Inv P s2 /\ s_mem s2 <> None /\
              after (cont (s_disk (fst cf1))) mh (cont (s_disk s2))).
    { destruct Hc as [Hcut|(-> & -> & ->)].
      - apply (C06_with_recovery P seed _ _ _ _ _ _ _ _ _ _ _ _ HP HX0 Hr0 Hs Hsp Hr Hcut Hl Hpl).
      - assert (Hr' : mrun P cf1 [MOps []] [CE []] cf1) by (eapply mr_ops; [apply xr_nil|apply mr_nil]).
        assert (Hpl' : plh fnone (s_disk (fst cf0)) (K0 ++ CE (s_trace (fst cf1)) :: [CE []]) L' img').
        { change (K0 ++ CE (s_trace (fst cf1)) :: [CE []]) with (K0 ++ [CE (s_trace (fst cf1))] ++ [CE []]).
          rewrite app_assoc. eapply plh_app; [exact Hpl|]. apply plh_one. apply pl_nil. }
        destruct (C06_with_recovery P seed _ _ _ _ _ _ _ _ _ [CE []] _ _ HP HX0 Hr0 Hs Hsp Hr' (hcut_here [] [] []) Hl Hpl')
          as (s2 & E2 & HI2 & Hm2 & Haf).
        exists s2. split; [exact E2|]. split; [exact HI2|]. split; [exact Hm2|apply after_nil_ops; exact Haf]. }
    destruct Hrec as (s2 & E2 & HI2 & Hm2 & Haf). exists s2, true.
    split; [exact E2|]. split; [exact HI2|]. split; [exact Hm2|]. split; [exact Haf|].
    split; [symmetry; exact Hl|]. split; [rewrite Hlockimg; exact Hl|]. split; [discriminate|].
    intros s s1 Hw. exfalso. destruct (closed_window_disk P _ _ _ _ _ _ _ HP HX1 Hw) as [E1 E2']. congruence.
  - (* the window after a completed Close: C09_reopen_epochs *)
    destruct (window_power_loss P seed _ _ _ _ _ _ _ _ _ _ _ _ _ _ HP HX0 Hr0 Hs Hsp Hw Hpl)
      as (_ & Hli & s2 & E2 & HI2 & Hm2 & _ & Haf).
    exists s2, false. split; [exact E2|]. split; [exact HI2|]. split; [exact Hm2|]. split; [exact Haf|].
    split; [symmetry; exact Hl|]. split; [exact Hli|]. split; [intros _; exists s, s1; exact Hw|].
    intros t t1 Hw'. split; [reflexivity|].
    destruct (window_power_loss P seed _ _ _ _ _ _ _ _ _ _ _ _ _ _ HP HX0 Hr0 Hs Hsp Hw' Hpl)
      as (Ei & _ & s2' & E2' & _ & _ & Hc' & _).
    rewrite E2 in E2'. inversion E2'; subst s2'. split; [exact Ei|exact Hc'].
Qed.

(* ... in particular after ANY NUMBER n of events of the history (all of it, if n exceeds their number) *)
Corollary power_loss_after_n_events P seed cf0 mh0 K0 cfa osync cf1 mh K cf' n L' img' :
  params_ok P -> XOpen P cf0 ->
  mrun P cf0 mh0 K0 cfa -> xstep P cfa osync cf1 -> sync_point P osync ->
  mrun P cf1 mh K cf' ->
  plh fnone (s_disk (fst cf0)) (K0 ++ CE (s_trace (fst cf1)) :: hpre n K) L' img' ->
  hflat (hpre n K) = firstn n (hflat K) /\
  exists s2 b, db_open flat_ops P seed (closed img') = (s2, OOpened b) /\ Inv P s2 /\ s_mem s2 <> None /\
    after (cont (s_disk (fst cf1))) mh (cont (s_disk s2)) /\
    b = d_lock (hrun (hpre n K) (s_disk (fst cf1))) /\ d_lock img' = b /\
    (b = false -> exists s s1, closed_window P cf1 mh K cf' (hpre n K) s s1) /\
    (forall s s1, closed_window P cf1 mh K cf' (hpre n K) s s1 ->
       b = false /\ img' = set_orphans (s_disk s1) (d_orphans img') /\ ceq (cont (s_disk s2)) (cont (s_disk s))).
Proof.
  intros HP HX0 Hr0 Hs Hsp Hr Hpl. split; [apply hpre_flat|].
  apply (power_loss_any_instant P seed _ _ _ _ _ _ _ _ _ _ L' _ HP HX0 Hr0 Hs Hsp Hr); [|exact Hpl].
  apply hpre_instant. apply (mrun_shape P _ _ _ _ Hr).
Qed.

(* ---- the last epoch is cut short ---- *)
(* the power fails at any instant of the epoch that follows the history (mh, K) *)
Corollary power_loss_last_epoch P seed cf0 mh0 K0 cfa osync cf1 mh K cfb it Kit cfn Kc L' img' :
  params_ok P -> XOpen P cf0 ->
  mrun P cf0 mh0 K0 cfa -> xstep P cfa osync cf1 -> sync_point P osync ->
  mrun P cf1 mh K cfb -> mstep P cfb it Kit cfn -> instant Kc Kit ->
  plh fnone (s_disk (fst cf0)) (K0 ++ CE (s_trace (fst cf1)) :: K ++ Kc) L' img' ->
  exists s2 b, db_open flat_ops P seed (closed img') = (s2, OOpened b) /\ Inv P s2 /\ s_mem s2 <> None /\
    after (cont (s_disk (fst cf1))) (mh ++ [it]) (cont (s_disk s2)) /\
    b = d_lock (hrun Kc (s_disk (fst cfb))) /\ d_lock img' = b.
Proof.
  intros HP HX0 Hr0 Hs Hsp Hr Hst Hin Hpl.
  assert (HX1 : XOpen P cf1).
  { destruct (mrun_main P _ _ _ _ HP Hr0 None HX0 (open_DurS_None P cf0 HX0)) as (HXa & _).
    apply (xstep_ok P _ _ _ HP HXa Hs). }
  destruct (mrun_main P _ _ _ _ HP Hr None HX1 (open_DurS_None P cf1 HX1)) as (_ & Edb & _).
  pose proof (mrun_app P _ _ _ _ Hr _ _ _ (mrun_one P _ _ _ _ Hst)) as Hr'.
  assert (Hin' : instant (K ++ Kc) (K ++ Kit)) by (destruct Hin as [H| ->]; [left; apply hcut_app; exact H|right; reflexivity]).
  destruct (power_loss_any_instant P seed _ _ _ _ _ _ _ _ _ _ _ _ HP HX0 Hr0 Hs Hsp Hr' Hin' Hpl)
    as (s2 & b & E2 & HI2 & Hm2 & Haf & Eb & El & _).
  exists s2, b. split; [exact E2|]. split; [exact HI2|]. split; [exact Hm2|]. split; [exact Haf|].
  split; [rewrite Eb, hrun_app, <- Edb; reflexivity|exact El].
Qed.

Lemma lin_drop_close mh : forall l, lin (mh ++ [MClose]) l -> lin mh l.
Proof.
  induction mh as [|it mh IH]; intros l H; cbn [app] in H.
  - inversion H as [| | | | |mh' l' H']; subst. exact H'.
  - inversion H as [|os mh' l' H'|o mh' l' H'|o mh' l' H'|mh' l' H'|mh' l' H']; subst.
    + apply lin_ops. apply IH. exact H'.
    + apply lin_lost. apply IH. exact H'.
    + apply lin_done. apply IH. exact H'.
    + apply lin_kill. apply IH. exact H'.
    + apply lin_close. apply IH. exact H'.
Qed.

Lemma after_drop_close c mh c' : after c (mh ++ [MClose]) c' -> after c mh c'.
Proof. intros (l & j & Hl & Hj & Hc). exists l, j. split; [apply lin_drop_close; exact Hl|split; assumption]. Qed.

(* a Close that returns nil can be followed by a clean Open *)
Lemma close_then_open P seed (s : st) s1 o : params_ok P -> Open P s ->
  db_close flat_ops (clear_trace s) = (s1, o) ->
  o = OOk /\ exists s2, db_open flat_ops P seed (closed (s_disk s1)) = (s2, OOpened false).
Proof.
  intros HP (HI & Hm & Hb) Ec. destruct (s_mem s) as [m|] eqn:Em; [|congruence].
  destruct (closed_facts P s m s1 o HI Em Hb Ec) as (-> & Hm1 & _). split; [reflexivity|].
  pose proof (close_reopen_ok_nometa P seed (clear_trace s) m HP (Inv_clear P s HI) Em) as Hro. rewrite Ec in Hro.
  assert (E : clear_trace s1 = closed (s_disk s1)) by (unfold clear_trace, closed; rewrite Hm1; reflexivity).
  rewrite E in Hro. destruct (db_open flat_ops P seed (closed (s_disk s1))) as [s2 o2]. destruct Hro as (-> & _).
  exists s2. reflexivity.
Qed.

(* the power fails after any prefix es1 of the events of a Close that ends the history (C09 "during Close",
   for histories of epochs): recovery while the lock file exists, clean Open with EXACTLY the closed contents
   after the complete Close *)
Corollary power_loss_during_close P seed cf0 mh0 K0 cfa osync cf1 mh K (s : st) c s1 o es1 es2 L' img' :
  params_ok P -> XOpen P cf0 ->
  mrun P cf0 mh0 K0 cfa -> xstep P cfa osync cf1 -> sync_point P osync ->
  mrun P cf1 mh K (s, c) ->
  db_close flat_ops (clear_trace s) = (s1, o) -> s_trace s1 = es1 ++ es2 ->
  plh fnone (s_disk (fst cf0)) (K0 ++ CE (s_trace (fst cf1)) :: K ++ [CE es1]) L' img' ->
  exists s2 b, db_open flat_ops P seed (closed img') = (s2, OOpened b) /\ Inv P s2 /\ s_mem s2 <> None /\
    after (cont (s_disk (fst cf1))) mh (cont (s_disk s2)) /\
    (es2 <> [] -> b = true) /\
    (es2 = [] -> b = false /\ img' = set_orphans (s_disk s1) (d_orphans img') /\ ceq (cont (s_disk s2)) (cont (s_disk s))).
Proof.
  intros HP HX0 Hr0 Hs Hsp Hr Ec Etr Hpl.
  assert (HX1 : XOpen P cf1).
  { destruct (mrun_main P _ _ _ _ HP Hr0 None HX0 (open_DurS_None P cf0 HX0)) as (HXa & _).
    apply (xstep_ok P _ _ _ HP HXa Hs). }
  destruct (mrun_main P _ _ _ _ HP Hr None HX1 (open_DurS_None P cf1 HX1)) as (HXs & Eds & _).
  pose proof HXs as [HOs _]. cbn [fst] in HOs, Eds.
  destruct (close_then_open P 0 s s1 o HP HOs Ec) as (-> & s2' & Eo).
  assert (Hst : mstep P (s, c) MClose [CE (s_trace s1); CE (s_trace s2')] (s2', None)) by (eapply ms_close; [exact Ec|exact Eo]).
  pose proof (mrun_app P _ _ _ _ Hr _ _ _ (mrun_one P _ _ _ _ Hst)) as Hr'.
  assert (Hin : instant (K ++ [CE es1]) (K ++ [CE (s_trace s1); CE (s_trace s2')])).
  { left. apply hcut_app. rewrite Etr. apply hcut_here. }
  destruct (power_loss_any_instant P seed _ _ _ _ _ _ _ _ _ _ _ _ HP HX0 Hr0 Hs Hsp Hr' Hin Hpl)
    as (s2 & b & E2 & HI2 & Hm2 & Haf & Eb & _ & _ & Hw).
  exists s2, b. split; [exact E2|]. split; [exact HI2|]. split; [exact Hm2|]. split; [apply after_drop_close; exact Haf|].
  split.
  - intros Hne. rewrite Eb, hrun_app, <- Eds. cbn [hrun fold_left hstep].
    destruct es2 as [|e2 es2]; [contradiction Hne; reflexivity|].
    destruct HOs as (HI & Hm & Hb). destruct (s_mem s) as [m|] eqn:Em; [|congruence].
    pose proof (close_prefix_neutral s m s1 OOk es1 e2 es2 Em Ec Etr) as Hn1.
    pose proof (Inv_Good P s HI ltac:(congruence) Hb) as Hg.
    apply (safe_run_end es1 (s_disk s) (neutral_safe_run es1 (s_disk s) Hn1 Hg) Hg).
  - intros ->. rewrite app_nil_r in Etr. subst es1. apply (Hw s s1).
    exists mh, K, c, 0, s2', [], []. split; [exact Hr|]. split; [exact Ec|]. split; [exact Eo|]. split; [apply mr_nil|].
    split; [reflexivity|]. split; [reflexivity|left; reflexivity].
Qed.

(* ---- the clean Open that follows a completed Close is cut short (C09 "during the next Open", for ---- *)
(*      histories of epochs): EXACTLY the closed contents, whatever prefix e1 of its events was issued  *)
Theorem power_loss_during_reopen_exact P seed cf0 mh K (s : st) c s1 seed' s2' e1 e2 L' img' :
  params_ok P -> XOpen P cf0 -> mrun P cf0 mh K (s, c) ->
  db_close flat_ops (clear_trace s) = (s1, OOk) ->
  db_open flat_ops P seed' (closed (s_disk s1)) = (s2', OOpened false) -> s_trace s2' = e1 ++ e2 ->
  plh fnone (s_disk (fst cf0)) (K ++ [CE (s_trace s1); CE e1]) L' img' ->
  exists s3 b, db_open flat_ops P seed (closed img') = (s3, OOpened b) /\ Inv P s3 /\ s_mem s3 <> None /\
    ceq (cont (s_disk s3)) (cont (s_disk s)) /\ b = match e1 with [] => false | _ :: _ => true end.
Proof.
  intros HP HX0 Hr Ec Eo Etr Hpl.
  destruct (mrun_main P _ _ _ _ HP Hr None HX0 (open_DurS_None P cf0 HX0)) as ([(HI & Hm & Hb) _] & Ed & (u' & Hd & HD') & _).
  cbn [fst] in HI, Hm, Hb, Ed, HD'. destruct HD' as (m & Em & HDm).
  destruct (closed_facts P s m s1 OOk HI Em Hb Ec) as (_ & Hm1 & Hok1 & Hb1 & Hl1 & Hi1 & Hov1 & Him1 & Hh1 & Hc1 & Ed1).
  change [CE (s_trace s1); CE e1] with ([CE (s_trace s1)] ++ [CE e1]) in Hpl. rewrite app_assoc in Hpl.
  destruct (plh_app_inv _ _ _ _ _ _ Hpl) as (L1 & img1 & Hp1 & Hp2). apply plh_one_inv in Hp2.
  destruct e1 as [|a e1].
  - inversion Hp2; subst.
    destruct (C09_reopen_epochs P seed _ _ _ _ _ _ _ _ _ _ HP HX0 Hr Em Ec Hp1) as (_ & _ & s3 & E3 & HI3 & Hm3 & Hc3).
    exists s3, false. split; [exact E3|]. split; [exact HI3|]. split; [exact Hm3|]. split; [exact Hc3|reflexivity].
  - set (d1 := s_disk s1) in *.
    assert (Hdur : hdur2 None (K ++ [CE (s_trace s1)]) = Some None).
    { apply (hdur2_cat _ _ _ _ _ Hd). rewrite hdur2_one.
      pose proof (close_dur2 P s m u' HI Em HDm) as Hdc. rewrite Ec in Hdc. exact Hdc. }
    assert (HL1 : seg_clean L1).
    { intros i q. destruct (L1 (FSeg i q)) eqn:E; [|reflexivity].
      assert (Hx : None = Some (i, q)); [|discriminate Hx].
      apply (plh_dur2 _ _ _ _ _ Hp1 None None Hdur); [intros i' q' H'; discriminate H'|exact E]. }
    assert (HA1 : Agree L1 d1 img1).
    { replace d1 with (hrun (K ++ [CE (s_trace s1)]) (s_disk (fst cf0))).
      - apply (plh_agree _ _ _ _ _ Hp1). apply Agree_refl.
      - rewrite hrun_app, <- Ed. cbn [hrun fold_left hstep]. symmetry. exact Ed1. }
    destruct (clean_open_trace P seed' d1 _ _ Hok1 Hb1 Hl1 Hi1 Hov1 Him1 Hh1) as (pre & T & Hsafe & Hpre).
    rewrite Eo in T. cbn [fst] in T. rewrite Etr in T. cbn [app] in T. inversion T as [[Ea Epre]]. subst a pre.
    set (d2 := apply_ev flat_ops d1 (ECreate FLock)) in *.
    assert (Hg2 : Good d2) by (split; [exact Hok1|split; [exact Hb1|reflexivity]]).
    assert (Hsl12 : same_log d1 d2) by (apply apply_ev_same_log; reflexivity).
    assert (Hend : crash_image d2 (e1 ++ e2) (run_evs e1 d2)) by (apply crash_image_app_l; apply crash_image_full).
    destruct (safe_run_images (e1 ++ e2) d2 _ Hsafe Hg2 Hend) as ((_ & Ge2 & Ge3) & _).
    pose proof (pl_agree _ _ _ _ _ Hp2 _ HA1) as (_ & _ & _ & _ & _ & A6 & A7).
    cbn [fold_left] in A6, A7. fold d2 in A6, A7.
    assert (Hd2 : dur2 None (ECreate FLock :: e1) <> None).
    { apply (dur2_prefix _ e2). cbn [app]. destruct Hpre as [->|(x & y & ->)]; discriminate. }
    assert (Hc : exists cimg, same_log cimg img' /\ DiskOK cimg /\ abs cimg = abs d1).
    { assert (Hci : forall cimg, crash_image d1 (ECreate FLock :: e1) cimg -> DiskOK cimg /\ abs cimg = abs d1).
      { intros cimg Hci. inversion Hci as [d0 es0|d0 e0 es0 img0 Hci'|]; subst; [split; [exact Hok1|reflexivity]|].
        fold d2 in Hci'. assert (Hci2 : crash_image d2 (e1 ++ e2) cimg) by (apply crash_image_app_l; exact Hci').
        destruct (safe_run_images (e1 ++ e2) d2 _ Hsafe Hg2 Hci2) as ((G1 & _) & Ho). split; [exact G1|].
        rewrite (olog_abs _ _ Ho). apply same_log_abs. exact Hsl12. }
      destruct (pl_reduce2 _ _ _ _ _ Hp2 d1 None HL1 HA1 Hd2) as [[HL' HA']|(cimg & x & C1 & C2 & _)].
      - exists (run_evs (ECreate FLock :: e1) d1). split; [apply (Agree_same_log L'); assumption|].
        apply Hci. apply crash_image_full.
      - exists cimg. split; [exact C2|apply Hci; exact C1]. }
    destruct Hc as (cimg & Hsame & Hokc & Habs).
    assert (G1 : DiskOK img') by (apply (same_log_DiskOK _ _ Hsame Hokc)).
    assert (G2 : bac_ok img') by (unfold bac_ok; rewrite A7; exact Ge2).
    assert (G3 : d_lock img' = true) by (rewrite A6; exact Ge3).
    destruct (crash_then_recover P seed img' HP G1 G2 G3) as (s3 & E3 & HI3 & Hm3 & _ & Ha3).
    exists s3, true. split; [exact E3|]. split; [exact HI3|]. split; [exact Hm3|]. split; [|reflexivity].
    intros k. unfold cont at 1. rewrite Ha3, (same_log_abs _ _ Hsame), Habs. apply Hc1.
Qed.

(* ================================================================================================ *)
(* 5. Gap (b): the process dies in the middle of a CLEAN Open                                        *)

Lemma crash_image_cons_inv (d : disk) e es x : crash_image d (e :: es) x ->
  x = d \/ crash_image (apply_ev flat_ops d e) es x \/ is_append e = true.
Proof.
  intros H. inversion H as [d0 es0|d0 e0 es0 img0 H'|d0 id seq off r es0 c Hc0 Hc1]; subst.
  - left. reflexivity.
  - right. left. exact H'.
  - right. right. reflexivity.
Qed.

(* Close does not touch the segment files proper *)
Lemma close_same_log (s : st) (m : mem) s1 o :
  s_mem s = Some m -> db_close flat_ops (clear_trace s) = (s1, o) ->
  s_disk s1 = run_evs (s_trace s1) (s_disk s) -> same_log (s_disk s) (s_disk s1).
Proof.
  intros Em Ec Ed1. destruct (close_shape (clear_trace s) m Em) as (s3 & (es' & T' & _ & Hn & _) & E').
  cbn [clear_trace s_trace app] in T'.
  assert (Et : s_trace s1 = es' ++ [ERemove FLock]).
  { rewrite Ec in E'. rewrite <- T'. injection E' as E1' _. rewrite E1'. reflexivity. }
  rewrite Ed1. apply (no_log_images_same_log (s_trace s1)); [|apply crash_image_full].
  rewrite Et. apply Forall_app. split; [apply neutral_nolog; exact Hn|constructor; [reflexivity|constructor]].
Qed.

(* The clean Open of a directory that Close has just left, cut after any prefix p of its events: the
   automaton accepts, at most the new (newest, still empty) segment file is dirty or unflushed; once the
   lock file has been created (p <> []) the directory is recoverable with the closed contents. *)
Lemma clean_open_prefix P seed (s : st) (m : mem) s1 s2 p q :
  params_ok P -> Inv P s -> s_mem s = Some m -> bac_ok (s_disk s) ->
  db_close flat_ops (clear_trace s) = (s1, OOk) ->
  db_open flat_ops P seed (closed (s_disk s1)) = (s2, OOpened false) -> s_trace s2 = p ++ q ->
  (exists u_p, dur2 None p = Some u_p /\ Neat u_p (run_evs p (s_disk s1))) /\
  (forall x, crash_image (s_disk s1) p x ->
     DiskOK x /\ bac_ok x /\ olog x = olog (s_disk s1) /\ (x = s_disk s1 \/ d_lock x = true)) /\
  (p <> [] -> d_lock (run_evs p (s_disk s1)) = true).
Proof.
  intros HP HI Em Hb Ec Eo Etr.
  destruct (closed_facts P s m s1 OOk HI Em Hb Ec) as (_ & Hm1 & Hok1 & Hb1 & Hl1 & Hi1 & Hov1 & Him1 & Hh1 & Hc1 & Ed1).
  pose proof (close_same_log s m s1 OOk Em Ec Ed1) as Hsl.
  pose proof (close_reopen_ok_nometa P seed (clear_trace s) m HP (Inv_clear P _ HI) Em) as Hro. rewrite Ec in Hro.
  assert (E : clear_trace s1 = closed (s_disk s1)) by (unfold clear_trace, closed; rewrite Hm1; reflexivity).
  rewrite E, Eo in Hro. destruct Hro as (_ & HI2 & _ & m2 & Em2 & _).
  destruct (clean_open_dur2 P seed (s_disk s1) _ _ s2 Hok1 Hb1 Hl1 Hi1 Hov1 Him1 Hh1 Eo HI2) as (u2 & Hd2 & HD2 & Ed2).
  destruct (clean_open_trace P seed (s_disk s1) _ _ Hok1 Hb1 Hl1 Hi1 Hov1 Him1 Hh1) as (pre & T & Hsafe & Hpre).
  rewrite Eo in T. cbn [fst] in T.
  set (d1 := s_disk s1) in *. set (d2 := apply_ev flat_ops d1 (ECreate FLock)) in *.
  assert (Hg2 : Good d2) by (split; [exact Hok1|split; [exact Hb1|reflexivity]]).
  assert (Hsl12 : same_log d1 d2) by (apply apply_ev_same_log; reflexivity).
  assert (Hclean : forall y, Qd y d1).
  { intros y. apply (Qd_same_log y _ _ Hsl). apply allclean_Qd. eapply Inv_allclean; eassumption. }
  (* the prefixes *)
  assert (Himg : forall p' q' x, s_trace s2 = p' ++ q' -> crash_image d1 p' x ->
            DiskOK x /\ bac_ok x /\ olog x = olog d1 /\ (x = d1 \/ d_lock x = true)).
  { intros p' q' x Etr' Hx. rewrite T in Etr'. destruct p' as [|a p'].
    - inversion Hx; subst. split; [exact Hok1|]. split; [exact Hb1|]. split; [reflexivity|left; reflexivity].
    - cbn [app] in Etr'. inversion Etr' as [[Ea Epre]]. subst a.
      destruct (crash_image_cons_inv _ _ _ _ Hx) as [->|[Hx'|Hx']]; [|fold d2 in Hx'|discriminate Hx'].
      + split; [exact Hok1|]. split; [exact Hb1|]. split; [reflexivity|left; reflexivity].
      + assert (Hx2 : crash_image d2 pre x) by (rewrite Epre; apply crash_image_app_l; exact Hx').
        destruct (safe_run_images pre d2 _ Hsafe Hg2 Hx2) as ((G1 & G2 & G3) & Ho).
        split; [exact G1|]. split; [exact G2|]. split; [rewrite Ho; apply same_log_olog; exact Hsl12|right; exact G3]. }
  split; [|split].
  - (* the discipline *)
    assert (HWJ : exists y, wtr false y d1 (s_trace s2) /\ Jd y d1 None).
    { destruct Hpre as [->|(a & b & ->)].
      - destruct (bound_exists d1) as (M & HM). exists (0, M). split.
        + rewrite T. apply wtr_nolog. constructor; [reflexivity|constructor].
        + split; [apply Hclean|]. split; [exact HM|intros x Ex; discriminate Ex].
      - exists (a, b). split.
        + rewrite T. apply wt_quiet; [reflexivity|].
          apply (wt_create false (a, b)); [intros Ex; discriminate Ex|]. cbn [fst snd].
          apply (wt_data false (a, b)); [reflexivity| |apply wt_nil].
          eexists. split; [rewrite d_segs_create_seg; apply in_or_app; right; left; reflexivity|reflexivity].
        + split; [apply Hclean|]. split; [|intros x Ex; discriminate Ex].
          (* the new segment file is the newest: it is the current segment of the opened database *)
          rewrite T in Hd2. assert (Eu2 : u2 = Some (a, b)) by (cbn in Hd2; inversion Hd2; reflexivity).
          destruct HD2 as (m2' & Em2' & HDm2). rewrite Eu2 in HDm2.
          destruct (DurM_upart P s2 m2' (Some (a, b)) HI2 Em2' HDm2 (a, b) eq_refl) as [_ Hbd].
          intros f Hf. cbn [snd].
          assert (Hseqs : map f_seq (d_segs (s_disk s2)) = map f_seq (d_segs d1) ++ [b]).
          { rewrite Ed2, T. cbn [fold_left]. fold d2.
            destruct (seg_data_upd (EHeader (FSeg a b)) a b eq_refl) as (g & Hg & Eg). rewrite Eg, (upd_seqs a b g _ Hg).
            rewrite d_segs_create_seg, map_app, (same_log_seqs _ _ Hsl12). reflexivity. }
          assert (Hin : In (f_seq f) (map f_seq (d_segs (s_disk s2)))) by (rewrite Hseqs; apply in_or_app; left; apply in_map; exact Hf).
          apply in_map_iff in Hin. destruct Hin as (f' & Ef' & Hf'). rewrite <- Ef'. apply (Hbd f' Hf'). }
    destruct HWJ as (y & W & HJ).
    destruct (cut_Jd false y (s_trace s2) d1 None u2 p q W HJ Hd2 Etr) as (u_p & A & B & _).
    exists u_p. split; [exact A|exists y; exact B].
  - intros x Hx. apply (Himg p q x Etr Hx).
  - intros Hne. destruct (Himg p q _ Etr (crash_image_full p d1)) as (_ & _ & _ & [Ex|Hl]); [|exact Hl].
    exfalso. rewrite T in Etr. destruct p as [|a p]; [contradiction Hne; reflexivity|].
    cbn [app] in Etr. inversion Etr as [[Ea Epre]]. subst a. cbn [fold_left] in Ex. fold d2 in Ex.
    assert (Hx2 : crash_image d2 pre (run_evs p d2)) by (rewrite Epre; apply crash_image_app_l; apply crash_image_full).
    destruct (safe_run_images pre d2 _ Hsafe Hg2 Hx2) as ((_ & _ & G3) & _). rewrite Ex, Hl1 in G3. discriminate G3.
Qed.

(* CRASH DURING A CLEAN OPEN.  The database cf is closed (Close returns nil); the next Open, a clean one,
   is killed after a non-empty prefix p of its events (the lock file created; possibly a new, empty segment
   file created; possibly its header written); recovery attempts Kr follow (any number that die, one that
   completes: s1').  Then everything [mrun_main] asserts of an epoch MKill holds of this epoch
   K = Close ; p ; Kr:  the recovery ends in an open database with the invariant and UNCHANGED contents, on
   the disk [hrun K]; the automaton accepts K and the unflushed segment file, if any, is the current segment;
   every process-crash image of K is recoverable (or the closed directory) with the same contents.
   Hence the history can go on with any [mrun] from (s1', None). *)
Theorem crash_during_clean_open P seed cf s1 s2 p q Kr s1' u :
  params_ok P -> XOpen P cf -> DurS u (fst cf) ->
  db_close flat_ops (clear_trace (fst cf)) = (s1, OOk) ->
  db_open flat_ops P seed (closed (s_disk s1)) = (s2, OOpened false) ->
  s_trace s2 = p ++ q -> p <> [] ->
  rrun P (run_evs p (s_disk s1)) Kr s1' ->
  XOpen P (s1', None) /\
  s_disk s1' = hrun (CE (s_trace s1) :: CE p :: Kr) (s_disk (fst cf)) /\
  ceq (cont (s_disk s1')) (cont (s_disk (fst cf))) /\
  (exists u', hdur2 u (CE (s_trace s1) :: CE p :: Kr) = Some u' /\ DurS u' s1') /\
  d_lock (run_evs p (s_disk s1)) = true /\
  (forall x, hcrash (s_disk (fst cf)) (CE (s_trace s1) :: CE p :: Kr) x ->
     DiskOK x /\ bac_ok x /\ ceq (cont x) (cont (s_disk (fst cf))) /\ (d_lock x = true \/ x = s_disk s1)).
Proof.
  intros HP HX HD Ec Eo Etr Hne Hrr. pose proof HX as [(HI & Hm & Hb) _]. destruct HD as (m & Em & HDm).
  destruct (closed_facts P (fst cf) m s1 OOk HI Em Hb Ec) as (_ & Hm1 & Hok1 & Hb1 & Hl1 & Hi1 & Hov1 & Him1 & Hh1 & Hc1 & Ed1).
  destruct (clean_open_prefix P seed (fst cf) m s1 s2 p q HP HI Em Hb Ec Eo Etr) as ((u_p & Hdp & HNp) & Himg & Hlk).
  specialize (Hlk Hne).
  destruct (Himg _ (crash_image_full p _)) as (Gp1 & Gp2 & Hop & _).
  assert (Hgp : Good (run_evs p (s_disk s1))) by (split; [exact Gp1|split; [exact Gp2|exact Hlk]]).
  assert (Hcp : ceq (cont (run_evs p (s_disk s1))) (cont (s_disk (fst cf)))).
  { intros k. unfold cont. rewrite (olog_abs _ _ Hop). apply Hc1. }
  destruct (rrun_ok P _ Kr s1' HP Hrr u_p Hgp HNp) as (HO1 & Hc1' & Ed1' & (u1 & Hd1 & HD1) & Hcrr).
  pose proof (close_dur2 P (fst cf) m u HI Em HDm) as Hdc. rewrite Ec in Hdc. cbn [fst] in Hdc.
  split; [split; [exact HO1|exact Logic.I]|].
  split; [cbn [hrun fold_left hstep]; rewrite <- Ed1; exact Ed1'|].
  split; [eapply ceq_trans; eassumption|].
  split; [exists u1; split; [cbn [hdur2 hdur2_step]; rewrite Hdc, Hdp; exact Hd1|exact HD1]|].
  split; [exact Hlk|].
  assert (Hcl : DiskOK (s_disk s1) /\ bac_ok (s_disk s1) /\ ceq (cont (s_disk s1)) (cont (s_disk (fst cf))) /\
                (d_lock (s_disk s1) = true \/ s_disk s1 = s_disk s1)).
  { split; [exact Hok1|]. split; [exact Hb1|]. split; [exact Hc1|right; reflexivity]. }
  intros x Hx. inversion Hx as [d0 K0|d0 es0 K0 cimg Hci|d0 es0 K0 cimg Hc| |]; subst.
  - destruct (Inv_Good P _ HI Hm Hb) as (G1 & G2 & G3). split; [exact G1|]. split; [exact G2|]. split; [apply ceq_refl|left; exact G3].
  - destruct (crash_close P (fst cf) s1 OOk x HI Hm Hb Ec Hci) as [(G1 & G2 & G3 & Hc)| ->]; [|exact Hcl].
    split; [exact G1|]. split; [exact G2|]. split; [exact Hc|left; exact G3].
  - rewrite <- Ed1 in Hc. inversion Hc as [d0 K0|d0 es0 K0 cimg Hci|d0 es0 K0 cimg Hc2| |]; subst.
    + exact Hcl.
    + destruct (Himg x Hci) as (G1 & G2 & Ho & Hl). split; [exact G1|]. split; [exact G2|].
      split; [intros k; unfold cont; rewrite (olog_abs _ _ Ho); apply Hc1|].
      destruct Hl as [->|Hl]; [right; reflexivity|left; exact Hl].
    + destruct (Hcrr x Hc2) as [(G1 & G2 & G3) Hcx]. split; [exact G1|]. split; [exact G2|].
      split; [eapply ceq_trans; eassumption|left; exact G3].
Qed.

(* [reopen_window P cf1 mh K cf' Kcut s s1]: the instant Kcut lies after the completed Close of the open
   database s and not after the end of the clean Open that follows it: in the window of [closed_window]
   (e1 = []) or inside that Open, e1 being the events of it issued so far *)
Definition reopen_window (P : params) (cf1 : cfg) (mh : list mitem) (K : list chunk) (cf' : cfg)
  (Kcut : list chunk) (s s1 : st) : Prop :=
  exists mh1 K1 c seed s2 mh2 K2 e1 e2,
    mrun P cf1 mh1 K1 (s, c) /\ db_close flat_ops (clear_trace s) = (s1, OOk) /\
    db_open flat_ops P seed (closed (s_disk s1)) = (s2, OOpened false) /\
    mrun P (s2, None) mh2 K2 cf' /\ mh = mh1 ++ MClose :: mh2 /\
    K = K1 ++ CE (s_trace s1) :: CE (s_trace s2) :: K2 /\
    s_trace s2 = e1 ++ e2 /\ Kcut = K1 ++ [CE (s_trace s1); CE e1].

(* ... there too the contents are EXACTLY those of the database that was closed (a recovery, if the lock
   file has been created; a clean Open otherwise) *)
Theorem power_loss_reopen_exact P seed cf0 mh0 K0 cfa osync cf1 mh K cf' Kcut s s1 L' img' :
  params_ok P -> XOpen P cf0 ->
  mrun P cf0 mh0 K0 cfa -> xstep P cfa osync cf1 -> sync_point P osync ->
  reopen_window P cf1 mh K cf' Kcut s s1 ->
  plh fnone (s_disk (fst cf0)) (K0 ++ CE (s_trace (fst cf1)) :: Kcut) L' img' ->
  exists s3 b, db_open flat_ops P seed (closed img') = (s3, OOpened b) /\ Inv P s3 /\ s_mem s3 <> None /\
    ceq (cont (s_disk s3)) (cont (s_disk s)) /\ b = d_lock (hrun Kcut (s_disk (fst cf1))) /\ d_lock img' = b.
Proof.
  intros HP HX0 Hr0 Hs Hsp (mh1 & K1 & c & seed' & s2 & mh2 & K2 & e1 & e2 & Hr1 & Ec & Eo & Hr2 & Emh & EK & Etr & ->) Hpl.
  pose proof (sync_epoch P _ _ _ _ _ _ _ _ _ Hr0 Hs Hr1) as Hrall.
  rewrite app_comm_cons, app_assoc in Hpl.
  destruct (power_loss_during_reopen_exact P seed _ _ _ _ _ _ _ _ _ _ _ _ HP HX0 Hrall Ec Eo Etr Hpl)
    as (s3 & b & E3 & HI3 & Hm3 & Hc3 & Eb).
  exists s3, b. split; [exact E3|]. split; [exact HI3|]. split; [exact Hm3|]. split; [exact Hc3|].
  assert (HX1 : XOpen P cf1).
  { destruct (mrun_main P _ _ _ _ HP Hr0 None HX0 (open_DurS_None P cf0 HX0)) as (HXa & _).
    apply (xstep_ok P _ _ _ HP HXa Hs). }
  destruct (mrun_main P _ _ _ _ HP Hrall None HX0 (open_DurS_None P cf0 HX0)) as ([(HI & Hm & Hb) _] & Edall & _).
  destruct (mrun_main P _ _ _ _ HP Hr1 None HX1 (open_DurS_None P cf1 HX1)) as (_ & Ed & _).
  cbn [fst] in HI, Hm, Hb, Ed, Edall. destruct (s_mem s) as [m|] eqn:Em; [|congruence].
  destruct (closed_facts P s m s1 OOk HI Em Hb Ec) as (_ & _ & _ & _ & Hl1 & _ & _ & _ & _ & _ & Ed1).
  assert (Elock : d_lock (hrun (K1 ++ [CE (s_trace s1); CE e1]) (s_disk (fst cf1))) = b).
  { rewrite hrun_app, <- Ed. cbn [hrun fold_left hstep]. rewrite <- Ed1. rewrite Eb. destruct e1 as [|a e1]; [exact Hl1|].
    destruct (clean_open_prefix P seed' s m s1 s2 (a :: e1) e2 HP HI Em Hb Ec Eo Etr) as (_ & _ & Hlk). apply Hlk. discriminate. }
  split; [symmetry; exact Elock|].
  pose proof (plh_agree _ _ _ _ _ Hpl _ (Agree_refl _ _)) as (_ & _ & _ & _ & _ & A6 & _).
  rewrite A6, hrun_app, <- Edall. cbn [hrun fold_left hstep]. rewrite <- Ed1. rewrite Eb.
  destruct e1 as [|a e1]; [exact Hl1|].
  destruct (clean_open_prefix P seed' s m s1 s2 (a :: e1) e2 HP HI Em Hb Ec Eo Etr) as (_ & _ & Hlk). apply Hlk. discriminate.
Qed.

(* ================================================================================================ *)
(* 6. Histories with the new epoch: [mrun3] = [mrun] + "Close ; clean Open killed ; recovery"         *)

(* the epochs of [mrun], and the new one (labelled MClose: a Close completes in it; no operation) *)
Inductive mstep3 (P : params) : cfg -> mitem -> list chunk -> cfg -> Prop :=
| ms3_old cf it Kit cf1 : mstep P cf it Kit cf1 -> mstep3 P cf it Kit cf1
| ms3_crash_open cf s1 seed s2 p q Kr s1' :
    db_close flat_ops (clear_trace (fst cf)) = (s1, OOk) ->
    db_open flat_ops P seed (closed (s_disk s1)) = (s2, OOpened false) ->
    s_trace s2 = p ++ q -> p <> [] -> rrun P (run_evs p (s_disk s1)) Kr s1' ->
    mstep3 P cf MClose (CE (s_trace s1) :: CE p :: Kr) (s1', None).

Inductive mrun3 (P : params) : cfg -> list mitem -> list chunk -> cfg -> Prop :=
| m3_nil cf : mrun3 P cf [] [] cf
| m3_cons cf it Kit cf1 mh K cf' :
    mstep3 P cf it Kit cf1 -> mrun3 P cf1 mh K cf' -> mrun3 P cf (it :: mh) (Kit ++ K) cf'.

(* every history of [mrun] is one *)
Lemma mrun_mrun3 P mh : forall cf K cf', mrun P cf mh K cf' -> mrun3 P cf mh K cf'.
Proof.
  induction mh as [|it0 mh IH]; intros cf K cf' Hr.
  - destruct (mrun_inv P _ _ _ _ Hr) as [(_ & -> & ->)|(it & Kit & cf1 & mh' & K' & _ & _ & E & _)]; [apply m3_nil|discriminate E].
  - destruct (mrun_inv P _ _ _ _ Hr) as [(E & _)|(it & Kit & cf1 & mh' & K' & Hs & Hr' & E & ->)]; [discriminate E|].
    inversion E; subst it0 mh'. apply (m3_cons P _ _ _ _ _ _ _ (ms3_old P _ _ _ _ Hs)). apply IH. exact Hr'.
Qed.

Lemma mrun3_app P cf mh1 K1 cfb : mrun3 P cf mh1 K1 cfb -> forall mh2 K2 cf', mrun3 P cfb mh2 K2 cf' ->
  mrun3 P cf (mh1 ++ mh2) (K1 ++ K2) cf'.
Proof.
  intros H. induction H as [cf|cf it Kit cf1 mh K cfb Hs H IH]; intros mh2 K2 cf' H2; cbn [app]; [exact H2|].
  rewrite <- app_assoc. apply (m3_cons P _ _ _ _ _ _ _ Hs). apply IH. exact H2.
Qed.

Lemma mrun3_one P cf it Kit cf1 : mstep3 P cf it Kit cf1 -> mrun3 P cf [it] Kit cf1.
Proof. intros Hs. rewrite <- (app_nil_r Kit). apply (m3_cons P _ _ _ _ _ _ _ Hs). apply m3_nil. Qed.

(* ---- what one epoch does ---- *)
(* [lin1 it l]: l is a way to count the operations of the epoch it in a linearisation *)
Definition lin1 (it : mitem) (l : list xop) : Prop := forall mh l2, lin mh l2 -> lin (it :: mh) (l ++ l2).

Definition step_main (P : params) (cf : cfg) (it : mitem) (Kit : list chunk) (cf1 : cfg) (u : option (N * N)) : Prop :=
  XOpen P cf1 /\ s_disk (fst cf1) = hrun Kit (s_disk (fst cf)) /\
  (exists u', hdur2 u Kit = Some u' /\ DurS u' (fst cf1)) /\
  (forall x, hcrash (s_disk (fst cf)) Kit x ->
     DiskOK x /\ bac_ok x /\ after (cont (s_disk (fst cf))) [it] (cont x)) /\
  (exists l, lin1 it l /\ ceq (cont (s_disk (fst cf1))) (xspec_hist l (cont (s_disk (fst cf))))).

(* the epochs of [mrun]: by [mrun_main] *)
Lemma mstep_main P cf it Kit cf1 u :
  params_ok P -> XOpen P cf -> DurS u (fst cf) -> mstep P cf it Kit cf1 -> step_main P cf it Kit cf1 u.
Proof.
  intros HP HX HD Hs.
  destruct (mrun_main P _ _ _ _ HP (mrun_one P _ _ _ _ Hs) u HX HD) as (A1 & A2 & A3 & A4).
  split; [exact A1|]. split; [exact A2|]. split; [exact A3|]. split; [exact A4|].
  destruct (A4 _ (hcrash_full Kit _)) as (_ & _ & l & j & Hl & Hj & Hc). rewrite <- A2 in Hc.
  assert (Hnil : lin [] l -> l = []) by (intros H; inversion H; reflexivity).
  destruct Hs as [cf os cfs tr cf1 Hx|cf o cfx Kc cimg Kr s1 Hx Hcut Hrr|cf Kr s1 Hrr
                  |cf s1 seed s2 Ec Eo|cf s1 o p e q Kr s1' Ec Etr Hrr].
  - destruct (xrun_ok P _ _ _ _ _ HP Hx HX) as (_ & _ & Hc1 & _). exists os. split; [|exact Hc1].
    intros mh l2 H. apply lin_ops. exact H.
  - inversion Hl as [| |o' mh' l' Hl'|o' mh' l' Hl'| |]; subst.
    + inversion Hl'; subst. exists []. split; [intros mh l2 H; apply lin_lost; exact H|]. rewrite firstn_nil in Hc. exact Hc.
    + inversion Hl'; subst. destruct j as [|j].
      * exists []. split; [intros mh l2 H; apply lin_lost; exact H|exact Hc].
      * exists [o]. split; [intros mh l2 H; apply (lin_done o mh l2 H)|]. cbn [firstn] in Hc. rewrite firstn_nil in Hc. exact Hc.
  - inversion Hl as [| | | |mh' l' Hl'|]; subst. inversion Hl'; subst.
    exists []. split; [intros mh l2 H; apply lin_kill; exact H|]. rewrite firstn_nil in Hc. exact Hc.
  - inversion Hl as [| | | | |mh' l' Hl']; subst. inversion Hl'; subst.
    exists []. split; [intros mh l2 H; apply lin_close; exact H|]. rewrite firstn_nil in Hc. exact Hc.
  - inversion Hl as [| | | |mh' l' Hl'|]; subst. inversion Hl'; subst.
    exists []. split; [intros mh l2 H; apply lin_kill; exact H|]. rewrite firstn_nil in Hc. exact Hc.
Qed.

(* ... and the new one: by [crash_during_clean_open] *)
Lemma mstep3_main P cf it Kit cf1 u :
  params_ok P -> XOpen P cf -> DurS u (fst cf) -> mstep3 P cf it Kit cf1 -> step_main P cf it Kit cf1 u.
Proof.
  intros HP HX HD Hs. destruct Hs as [cf it Kit cf1 Hs|cf s1 seed s2 p q Kr s1' Ec Eo Etr Hne Hrr].
  - apply mstep_main; assumption.
  - destruct (crash_during_clean_open P seed cf s1 s2 p q Kr s1' u HP HX HD Ec Eo Etr Hne Hrr) as (B1 & B2 & B3 & B4 & _ & B6).
    split; [exact B1|]. split; [exact B2|]. split; [exact B4|]. split.
    + intros x Hx. destruct (B6 x Hx) as (G1 & G2 & Hc & _). split; [exact G1|]. split; [exact G2|apply after_here; exact Hc].
    + exists []. split; [intros mh l2 H; apply lin_close; exact H|exact B3].
Qed.

(* [mrun_main], for the extended histories *)
Theorem mrun3_main P cf mh K cf' : params_ok P -> mrun3 P cf mh K cf' -> forall u, XOpen P cf -> DurS u (fst cf) ->
  XOpen P cf' /\ s_disk (fst cf') = hrun K (s_disk (fst cf)) /\
  (exists u', hdur2 u K = Some u' /\ DurS u' (fst cf')) /\
  (forall x, hcrash (s_disk (fst cf)) K x ->
     DiskOK x /\ bac_ok x /\ after (cont (s_disk (fst cf))) mh (cont x)).
Proof.
  intros HP H. induction H as [cf|cf it Kit cf1 mh K cf' Hs H IH]; intros u HX HD.
  - split; [exact HX|]. split; [reflexivity|]. split; [exists u; split; [reflexivity|exact HD]|].
    intros x Hx. apply hcrash_nil_inv in Hx. subst x. destruct HX as [(HI & Hm & Hb) _].
    destruct (Inv_Good P _ HI Hm Hb) as (G1 & _). split; [exact G1|]. split; [exact Hb|apply after_here; apply ceq_refl].
  - destruct (mstep3_main P _ _ _ _ u HP HX HD Hs) as (HX1 & Ed1 & (u1 & Hd1 & HD1) & Hcr1 & (l1 & Hl1 & Hc1)).
    destruct (IH u1 HX1 HD1) as (HX' & Ed' & (u' & Hd' & HD') & Hcr).
    split; [exact HX'|]. split; [rewrite hrun_app, <- Ed1; exact Ed'|].
    split; [exists u'; split; [apply (hdur2_cat _ _ _ _ _ Hd1); exact Hd'|exact HD']|].
    intros x Hx. destruct (hcrash_app_inv _ _ _ _ Hx) as [Hl|Hr2].
    + destruct (Hcr1 x Hl) as (G1 & G2 & Haf). split; [exact G1|]. split; [exact G2|].
      apply (after_app_l _ [it] mh). exact Haf.
    + rewrite <- Ed1 in Hr2. destruct (Hcr x Hr2) as (G1 & G2 & (l2 & j2 & Hl2 & Hj2 & Hc2)). split; [exact G1|]. split; [exact G2|].
      exists (l1 ++ l2), (length l1 + j2)%nat. split; [apply Hl1; exact Hl2|]. split; [rewrite app_length; lia|].
      rewrite firstn_app_2, xspec_hist_app. eapply ceq_trans; [exact Hc2|]. apply xspec_hist_ceq. exact Hc1.
Qed.

(* ---- the two theorems of PowerLoss2.v, for the extended histories (same proofs, on [mrun3_main]) ---- *)
Lemma msync_clean3 P cf0 mh0 K0 cfa osync cf1 L1 img1 :
  params_ok P -> XOpen P cf0 -> mrun3 P cf0 mh0 K0 cfa -> xstep P cfa osync cf1 -> sync_point P osync ->
  plh fnone (s_disk (fst cf0)) (K0 ++ [CE (s_trace (fst cf1))]) L1 img1 ->
  XOpen P cf1 /\ seg_clean L1 /\ Agree L1 (s_disk (fst cf1)) img1.
Proof.
  intros HP HX0 Hr0 Hs Hsp Hpl.
  destruct (mrun3_main P _ _ _ _ HP Hr0 None HX0 (open_DurS_None P cf0 HX0)) as (HXa & Eda & (ua & Da & HDa) & _).
  destruct (xstep_ok P _ _ _ HP HXa Hs) as (HX1 & _ & Ed1).
  destruct (xstep_dur P _ _ _ ua HP HXa Hs HDa) as (u1 & D1 & _ & Hu1). rewrite (Hu1 Hsp) in D1. apply dur_dur2 in D1.
  assert (Hdur : hdur2 None (K0 ++ [CE (s_trace (fst cf1))]) = Some None).
  { apply (hdur2_cat _ _ _ _ _ Da). rewrite hdur2_one. exact D1. }
  split; [exact HX1|]. split.
  - intros i q. destruct (L1 (FSeg i q)) eqn:E; [|reflexivity].
    assert (Hx : None = Some (i, q)); [|discriminate Hx].
    apply (plh_dur2 _ _ _ _ _ Hpl None None Hdur); [intros i' q' H'; discriminate H'|exact E].
  - assert (Edisk : s_disk (fst cf1) = hrun (K0 ++ [CE (s_trace (fst cf1))]) (s_disk (fst cf0))).
    { rewrite hrun_app. cbn [hrun fold_left hstep]. rewrite <- Eda. exact Ed1. }
    rewrite Edisk. apply (plh_agree _ _ _ _ _ Hpl). apply Agree_refl.
Qed.

Theorem C06_with_recovery3 P seed cf0 mh0 K0 cfa osync cf1 mh K cf' Kcut L' img' :
  params_ok P -> XOpen P cf0 ->
  mrun3 P cf0 mh0 K0 cfa -> xstep P cfa osync cf1 -> sync_point P osync ->
  mrun3 P cf1 mh K cf' -> hcut Kcut K -> d_lock (hrun Kcut (s_disk (fst cf1))) = true ->
  plh fnone (s_disk (fst cf0)) (K0 ++ CE (s_trace (fst cf1)) :: Kcut) L' img' ->
  exists s2, db_open flat_ops P seed (closed img') = (s2, OOpened true) /\ Inv P s2 /\ s_mem s2 <> None /\
    after (cont (s_disk (fst cf1))) mh (cont (s_disk s2)).
Proof.
  intros HP HX0 Hr0 Hs Hsp Hr Hcut Hlock Hpl.
  change (K0 ++ CE (s_trace (fst cf1)) :: Kcut) with (K0 ++ [CE (s_trace (fst cf1))] ++ Kcut) in Hpl. rewrite app_assoc in Hpl.
  destruct (plh_app_inv _ _ _ _ _ _ Hpl) as (L1 & img1 & Hpl1 & Hpl2).
  destruct (msync_clean3 P _ _ _ _ _ _ L1 img1 HP HX0 Hr0 Hs Hsp Hpl1) as (HX1 & Hcl & HA).
  destruct (mrun3_main P _ _ _ _ HP Hr None HX1 (open_DurS_None P cf1 HX1)) as (_ & _ & (u' & Hd & _) & Hcr).
  assert (Hne : hdur2 None Kcut <> None) by (apply (hcut_hdur2 Kcut K Hcut); rewrite Hd; discriminate).
  pose proof (plh_agree _ _ _ _ _ Hpl2 _ HA) as (_ & _ & _ & _ & _ & A6 & A7).
  destruct (Hcr _ (hcut_self Kcut K Hcut _)) as (_ & Hbf & _).
  assert (Hc : exists cimg, hcrash (s_disk (fst cf1)) K cimg /\ same_log cimg img').
  { destruct (plh_reduce _ _ _ _ _ Hpl2 (s_disk (fst cf1)) None Hcl HA Hne) as [[HL' HA']|(cimg & x & C1 & C2 & _)].
    - exists (hrun Kcut (s_disk (fst cf1))). split; [apply hcut_self; exact Hcut|apply (Agree_same_log L'); assumption].
    - exists cimg. split; [apply (hcut_hcrash Kcut K Hcut); exact C1|exact C2]. }
  destruct Hc as (cimg & Hci & Hsame). destruct (Hcr cimg Hci) as (G1 & _ & Haf).
  assert (G1' : DiskOK img') by (apply (same_log_DiskOK _ _ Hsame G1)).
  assert (G2' : bac_ok img') by (unfold bac_ok; rewrite A7; exact Hbf).
  assert (G3' : d_lock img' = true) by (rewrite A6; exact Hlock).
  destruct (crash_then_recover P seed img' HP G1' G2' G3') as (s2 & E2 & HI2 & Hm2 & _ & Ha2).
  exists s2. split; [exact E2|]. split; [exact HI2|]. split; [exact Hm2|].
  apply (after_ceq_r _ _ _ _ Haf). intros k. unfold cont. rewrite Ha2, (same_log_abs _ _ Hsame). reflexivity.
Qed.

Theorem C09_reopen_epochs3 P seed cf0 mh K (s : st) c (m : mem) s1 o L' img' :
  params_ok P -> XOpen P cf0 -> mrun3 P cf0 mh K (s, c) -> s_mem s = Some m ->
  db_close flat_ops (clear_trace s) = (s1, o) ->
  plh fnone (s_disk (fst cf0)) (K ++ [CE (s_trace s1)]) L' img' ->
  img' = set_orphans (s_disk s1) (d_orphans img') /\ d_lock img' = false /\
  exists s2, db_open flat_ops P seed (closed img') = (s2, OOpened false) /\ Inv P s2 /\ s_mem s2 <> None /\
    ceq (cont (s_disk s2)) (cont (s_disk s)).
Proof.
  intros HP HX0 Hr Em Ec Hpl.
  destruct (mrun3_main P _ _ _ _ HP Hr None HX0 (open_DurS_None P cf0 HX0)) as ([(HI & _ & _) _] & Ed & _). cbn [fst] in HI, Ed.
  destruct (close_cl_run (clear_trace s) m Em) as (es & T & D & Hcov). rewrite Ec in T, D. cbn [fst clear_trace s_trace s_disk app] in T, D.
  assert (HA : Agree L' (s_disk s1) img').
  { rewrite D, Ed. replace (run_evs es (hrun K (s_disk (fst cf0)))) with (hrun (K ++ [CE es]) (s_disk (fst cf0))) by (rewrite hrun_app; reflexivity).
    rewrite <- T. apply (plh_agree _ _ _ _ _ Hpl). apply Agree_refl. }
  destruct (plh_app_inv _ _ _ _ _ _ Hpl) as (L1 & img1 & _ & Hpl2). apply plh_one_inv in Hpl2. rewrite T in Hpl2.
  assert (HL : forall f, CloseF (m_segs m) f -> L' f = false).
  { intros f Hf. apply (pl_clr _ _ _ _ _ Hpl2 f false); [discriminate|apply Hcov; exact Hf]. }
  destruct (close_reopen_master P 0 (clear_trace s) m (Inv_clear P s HI) Em)
    as (s1' & _ & _ & Ec' & _ & _ & _ & _ & _ & _ & _ & _ & _ & _ & Hsegs & _).
  rewrite Ec in Ec'. inversion Ec'; subst s1' o.
  destruct (rc_close_char (clear_trace s) m Em) as (s1' & Ec'' & _ & _ & _ & _ & _ & _ & _ & El & _).
  rewrite Ec in Ec''. inversion Ec''; subst s1'.
  destruct HA as (A1 & A2 & A3 & A4 & A5 & A6 & A7).
  assert (B1 : d_segs img' = d_segs (s_disk s1)).
  { apply (agree_segs_eq L' _ _ A1). intros f Hf. destruct (Hsegs f Hf) as (g & Hg & E1 & E2 & _).
    rewrite E1, E2. split; apply HL; unfold CloseF; do 4 right; exists g; split; auto. }
  assert (B2 : d_index img' = d_index (s_disk s1)) by (apply A2; apply HL; unfold CloseF; tauto).
  assert (B4 : d_imeta img' = d_imeta (s_disk s1)) by (apply A4; apply HL; unfold CloseF; tauto).
  assert (B5 : d_dbmeta img' = d_dbmeta (s_disk s1)) by (apply A5; apply HL; unfold CloseF; tauto).
  assert (Eimg : img' = set_orphans (s_disk s1) (d_orphans img')) by (apply disk_eq_orph; assumption).
  split; [exact Eimg|]. split; [congruence|].
  pose proof (close_reopen_ok_nometa P seed (clear_trace s) m HP (Inv_clear P s HI) Em) as H.
  pose proof (close_ok P (clear_trace s) m (Inv_clear P s HI) Em) as Hc.
  rewrite Ec in H, Hc. destruct Hc as (_ & Hm1 & _ & _ & Hl1 & _).
  assert (E : clear_trace s1 = closed (s_disk s1)) by (unfold clear_trace, closed; rewrite Hm1; reflexivity).
  rewrite E in H. rewrite Eimg, (db_open_orph P seed _ _ Hl1).
  destruct (db_open flat_ops P seed (closed (s_disk s1))) as [s2 o2]. cbn [fst snd].
  destruct H as (-> & HI2 & Ha2 & m2 & Em2 & _).
  exists (osim (d_orphans img') s2). split; [reflexivity|]. split; [apply Inv_osim; exact HI2|].
  split; [cbn [osim s_mem]; congruence|exact Ha2].
Qed.

(* ---- instants of the extended histories ---- *)
Lemma mstep3_shape P cf it Kit cf1 : mstep3 P cf it Kit cf1 -> hwf Kit /\ exists K' es, Kit = K' ++ [CE es].
Proof.
  intros Hs. destruct Hs as [cf it Kit cf1 Hs|cf s1 seed s2 p q Kr s1' Ec Eo Etr Hne Hrr]; [apply (mstep_shape P _ _ _ _ Hs)|].
  destruct (rrun_shape P _ _ _ Hrr) as (W & K' & es & ->).
  split; [apply hwf_ce; apply hwf_ce; exact W|]. exists (CE (s_trace s1) :: CE p :: K'), es. reflexivity.
Qed.

Lemma mrun3_shape P cf mh K cf' : mrun3 P cf mh K cf' ->
  hwf K /\ ((mh = [] /\ K = [] /\ cf' = cf) \/ exists K' es, K = K' ++ [CE es]).
Proof.
  intros H. induction H as [cf|cf it Kit cf1 mh K cf' Hs H (W' & IH)]; [split; [apply hwf_nil|left; repeat split]|].
  destruct (mstep3_shape P _ _ _ _ Hs) as (W & K1 & es1 & E1). split; [apply hwf_app; assumption|]. right.
  destruct IH as [(_ & -> & _)|(K' & es & ->)].
  - rewrite app_nil_r. exists K1, es1. exact E1.
  - exists (Kit ++ K'), es. apply app_assoc.
Qed.

Lemma mrun3_cut_split P cf mh K cf' : mrun3 P cf mh K cf' -> forall Kcut, hcut Kcut K ->
  exists mh1 K1 cfb it Kit cfn mh2 K2 Kc,
    mrun3 P cf mh1 K1 cfb /\ mstep3 P cfb it Kit cfn /\ mrun3 P cfn mh2 K2 cf' /\
    mh = mh1 ++ it :: mh2 /\ K = K1 ++ Kit ++ K2 /\ Kcut = K1 ++ Kc /\ hcut Kc Kit.
Proof.
  intros H. induction H as [cf|cf it Kit cf1 mh K cf' Hs H IH]; intros Kcut Hcut; [inversion Hcut|].
  destruct (hcut_app_inv _ _ _ Hcut) as [Hl|(Kc2 & -> & Hc2)].
  - exists [], [], cf, it, Kit, cf1, mh, K, Kcut. split; [apply m3_nil|]. split; [exact Hs|]. split; [exact H|].
    split; [reflexivity|]. split; [reflexivity|]. split; [reflexivity|exact Hl].
  - destruct (IH _ Hc2) as (mh1 & K1 & cfb & it2 & Kit2 & cfn & mh2 & K2 & Kc & A1 & A2 & A3 & -> & -> & -> & A7).
    exists (it :: mh1), (Kit ++ K1), cfb, it2, Kit2, cfn, mh2, K2, Kc.
    split; [apply (m3_cons P _ _ _ _ _ _ _ Hs A1)|]. split; [exact A2|]. split; [exact A3|].
    split; [reflexivity|]. split; [rewrite <- app_assoc; reflexivity|]. split; [rewrite <- app_assoc; reflexivity|exact A7].
Qed.

(* the instants of one epoch: the lock file exists, except right after the last event of a completed Close *)
Lemma mstep3_lock P cfb it Kit cfn Kc u :
  params_ok P -> XOpen P cfb -> DurS u (fst cfb) -> mstep3 P cfb it Kit cfn -> hcut Kc Kit ->
  d_lock (hrun Kc (s_disk (fst cfb))) = true \/
  exists s1 Krest, it = MClose /\ db_close flat_ops (clear_trace (fst cfb)) = (s1, OOk) /\
    Kit = CE (s_trace s1) :: Krest /\ (Kc = [CE (s_trace s1)] \/ Kc = [CE (s_trace s1); CE []]).
Proof.
  intros HP HX HD Hs Hcut. destruct Hs as [cf it Kit cf1 Hs|cf s1 seed s2 p q Kr s1' Ec Eo Etr Hne Hrr].
  - destruct (mstep_lock P _ _ _ _ _ u HP HX HD Hs Hcut) as [Hl|(s1 & seed & s2 & -> & Ec & Eo & -> & _ & HKc)]; [left; exact Hl|].
    right. exists s1, [CE (s_trace s2)]. split; [reflexivity|]. split; [exact Ec|]. split; [reflexivity|exact HKc].
  - pose proof HX as [(HI & Hm & Hb) _]. pose proof (Inv_Good P _ HI Hm Hb) as Hg0.
    destruct (s_mem (fst cf)) as [m|] eqn:Em; [|congruence].
    destruct (closed_facts P (fst cf) m s1 OOk HI Em Hb Ec) as (_ & _ & _ & _ & _ & _ & _ & _ & _ & Hc1 & Ed1).
    destruct (hcut_ce_inv _ _ _ Hcut) as [(es1 & es2 & Et1 & ->)|(Kc' & -> & Hcut')].
    + (* inside Close *)
      destruct es2 as [|e2 es2].
      * right. exists s1, (CE p :: Kr). rewrite app_nil_r in Et1. subst es1. split; [reflexivity|]. split; [exact Ec|].
        split; [reflexivity|left; reflexivity].
      * left. cbn [hrun fold_left hstep].
        pose proof (close_prefix_neutral (fst cf) m s1 OOk es1 e2 es2 Em Ec Et1) as Hn1.
        apply (safe_run_end es1 _ (neutral_safe_run es1 _ Hn1 Hg0) Hg0).
    + destruct (hcut_ce_inv _ _ _ Hcut') as [(e1 & e2 & Ep & ->)|(Kc'' & -> & Hcut'')].
      * (* inside the clean Open that is killed *)
        destruct e1 as [|a e1].
        -- right. exists s1, (CE p :: Kr). split; [reflexivity|]. split; [exact Ec|]. split; [reflexivity|right; reflexivity].
        -- left. cbn [hrun fold_left hstep]. rewrite <- Ed1.
           assert (Etr' : s_trace s2 = (a :: e1) ++ (e2 ++ q)) by (rewrite Etr, Ep, <- app_assoc; reflexivity).
           destruct (clean_open_prefix P seed (fst cf) m s1 s2 _ _ HP HI Em Hb Ec Eo Etr') as (_ & _ & Hlk).
           apply Hlk. discriminate.
      * (* inside the recovery attempts *)
        left. cbn [hrun fold_left hstep]. rewrite <- Ed1.
        destruct (clean_open_prefix P seed (fst cf) m s1 s2 p q HP HI Em Hb Ec Eo Etr) as ((u_p & Hdp & HNp) & Himg & Hlk).
        destruct (Himg _ (crash_image_full p _)) as (Gp1 & Gp2 & _).
        assert (Hgp : Good (run_evs p (s_disk s1))) by (split; [exact Gp1|split; [exact Gp2|exact (Hlk Hne)]]).
        destruct (rrun_ok P _ Kr s1' HP Hrr u_p Hgp HNp) as (_ & _ & _ & _ & Hcrr).
        destruct (Hcrr _ (hcut_self _ _ Hcut'' _)) as [(_ & _ & G3) _]. exact G3.
Qed.

(* the window after a completed Close, in an extended history *)
Definition closed_window3 (P : params) (cf1 : cfg) (mh : list mitem) (K Kcut : list chunk) (s s1 : st) : Prop :=
  exists mh1 K1 c mh2 Krest,
    mrun3 P cf1 mh1 K1 (s, c) /\ db_close flat_ops (clear_trace s) = (s1, OOk) /\
    mh = mh1 ++ mh2 /\ K = K1 ++ CE (s_trace s1) :: Krest /\
    (Kcut = K1 ++ [CE (s_trace s1)] \/ Kcut = K1 ++ [CE (s_trace s1); CE []]).

Lemma closed_window3_disk P cf1 mh K Kcut s s1 :
  params_ok P -> XOpen P cf1 -> closed_window3 P cf1 mh K Kcut s s1 ->
  hrun Kcut (s_disk (fst cf1)) = s_disk s1 /\ d_lock (s_disk s1) = false.
Proof.
  intros HP HX1 (mh1 & K1 & c & mh2 & Krest & Hr1 & Ec & Emh & EK & EKc).
  destruct (mrun3_main P _ _ _ _ HP Hr1 None HX1 (open_DurS_None P cf1 HX1)) as ([(HI & Hm & Hb) _] & Ed & _).
  cbn [fst] in HI, Hm, Hb, Ed. destruct (s_mem s) as [m|] eqn:Em; [|congruence].
  destruct (closed_facts P s m s1 OOk HI Em Hb Ec) as (_ & _ & _ & _ & Hl1 & _ & _ & _ & _ & _ & Ed1).
  split; [|exact Hl1].
  destruct EKc as [-> | ->]; rewrite hrun_app, <- Ed; cbn [hrun fold_left hstep]; symmetry; exact Ed1.
Qed.

(* the windows of [mrun] are windows of the extended histories *)
Lemma closed_window_window3 P cf1 mh K cf' Kcut s s1 :
  closed_window P cf1 mh K cf' Kcut s s1 -> closed_window3 P cf1 mh K Kcut s s1.
Proof.
  intros (mh1 & K1 & c & seed & s2 & mh2 & K2 & Hr1 & Ec & Eo & Hr2 & Emh & EK & EKc).
  exists mh1, K1, c, (MClose :: mh2), (CE (s_trace s2) :: K2). split; [apply mrun_mrun3; exact Hr1|].
  split; [exact Ec|]. split; [exact Emh|]. split; [exact EK|exact EKc].
Qed.

Theorem instant_dichotomy3 P cf1 mh K cf' Kcut :
  params_ok P -> XOpen P cf1 -> mrun3 P cf1 mh K cf' -> instant Kcut K ->
  (d_lock (hrun Kcut (s_disk (fst cf1))) = true /\ (hcut Kcut K \/ (Kcut = [] /\ K = [] /\ mh = []))) \/
  (d_lock (hrun Kcut (s_disk (fst cf1))) = false /\ hcut Kcut K /\
   exists s s1, closed_window3 P cf1 mh K Kcut s s1).
Proof.
  intros HP HX1 Hr Hin.
  assert (Hc : hcut Kcut K \/ (Kcut = [] /\ K = [] /\ mh = [])).
  { destruct Hin as [H| ->]; [left; exact H|].
    destruct (mrun3_shape P _ _ _ _ Hr) as (_ & [(A & B & _)|(K' & es & ->)]); [right; repeat split; assumption|left; apply hcut_last]. }
  destruct Hc as [Hcut|(-> & -> & ->)].
  - destruct (mrun3_cut_split P _ _ _ _ Hr _ Hcut) as (mh1 & K1 & cfb & it & Kit & cfn & mh2 & K2 & Kc & A1 & A2 & A3 & Emh & EK & EKc & A7).
    destruct (mrun3_main P _ _ _ _ HP A1 None HX1 (open_DurS_None P cf1 HX1)) as (HXb & Edb & (ub & _ & HDb) & _).
    destruct (mstep3_lock P cfb it Kit cfn Kc ub HP HXb HDb A2 A7) as [Hl|(s1 & Krest & -> & Ec & -> & HKc)].
    + left. split; [rewrite EKc, hrun_app, <- Edb; exact Hl|left; exact Hcut].
    + assert (Hw : closed_window3 P cf1 mh K Kcut (fst cfb) s1).
      { exists mh1, K1, (snd cfb), (MClose :: mh2), (Krest ++ K2). rewrite <- surjective_pairing.
        split; [exact A1|]. split; [exact Ec|]. split; [exact Emh|]. split; [exact EK|].
        rewrite EKc. destruct HKc as [-> | ->]; [left|right]; reflexivity. }
      right. destruct (closed_window3_disk P _ _ _ _ _ _ HP HX1 Hw) as [E1 E2].
      split; [rewrite E1; exact E2|]. split; [exact Hcut|]. exists (fst cfb), s1. exact Hw.
  - left. split; [|right; repeat split]. cbn [hrun fold_left]. destruct HX1 as [(HI & Hm & Hb) _].
    apply (Inv_Good P _ HI Hm Hb).
Qed.

Lemma sync_epoch3 P cf0 mh0 K0 cfa osync cf1 mh1 K1 cfb :
  mrun3 P cf0 mh0 K0 cfa -> xstep P cfa osync cf1 -> mrun3 P cf1 mh1 K1 cfb ->
  mrun3 P cf0 (mh0 ++ MOps [osync] :: mh1) (K0 ++ CE (s_trace (fst cf1)) :: K1) cfb.
Proof.
  intros Hr0 Hs Hr1. apply (mrun3_app P _ _ _ _ Hr0).
  apply (m3_cons P cfa (MOps [osync]) [CE (s_trace (fst cf1))] cf1 mh1 K1 cfb); [|exact Hr1].
  apply ms3_old. rewrite <- (app_nil_r (s_trace (fst cf1))). eapply ms_ops.
  apply (xr_cons P cfa osync cf1 [] [] [] cf1 Hs). apply xr_nil.
Qed.

Lemma window3_power_loss P seed cf0 mh0 K0 cfa osync cf1 mh K Kcut s s1 L' img' :
  params_ok P -> XOpen P cf0 ->
  mrun3 P cf0 mh0 K0 cfa -> xstep P cfa osync cf1 -> sync_point P osync ->
  closed_window3 P cf1 mh K Kcut s s1 ->
  plh fnone (s_disk (fst cf0)) (K0 ++ CE (s_trace (fst cf1)) :: Kcut) L' img' ->
  img' = set_orphans (s_disk s1) (d_orphans img') /\ d_lock img' = false /\
  exists s2, db_open flat_ops P seed (closed img') = (s2, OOpened false) /\ Inv P s2 /\ s_mem s2 <> None /\
    ceq (cont (s_disk s2)) (cont (s_disk s)) /\ after (cont (s_disk (fst cf1))) mh (cont (s_disk s2)).
Proof.
  intros HP HX0 Hr0 Hs Hsp (mh1 & K1 & c & mh2 & Krest & Hr1 & Ec & Emh & EK & EKc) Hpl.
  assert (HX1 : XOpen P cf1).
  { destruct (mrun3_main P _ _ _ _ HP Hr0 None HX0 (open_DurS_None P cf0 HX0)) as (HXa & _).
    apply (xstep_ok P _ _ _ HP HXa Hs). }
  destruct (mrun3_main P _ _ _ _ HP Hr1 None HX1 (open_DurS_None P cf1 HX1)) as ([(HI & Hm & Hb) _] & Ed & _ & Hcr).
  cbn [fst] in HI, Hm, Hb, Ed. destruct (s_mem s) as [m|] eqn:Em; [|congruence].
  pose proof (sync_epoch3 P _ _ _ _ _ _ _ _ _ Hr0 Hs Hr1) as Hrall.
  assert (Hpl' : plh fnone (s_disk (fst cf0)) ((K0 ++ CE (s_trace (fst cf1)) :: K1) ++ [CE (s_trace s1)]) L' img').
  { destruct EKc as [-> | ->].
    - rewrite <- app_assoc. exact Hpl.
    - change [CE (s_trace s1); CE []] with ([CE (s_trace s1)] ++ [CE []]) in Hpl.
      rewrite app_assoc, app_comm_cons, app_assoc in Hpl.
      destruct (plh_app_inv _ _ _ _ _ _ Hpl) as (L1 & d1 & Hp1 & Hp2). apply plh_one_inv in Hp2.
      inversion Hp2; subst. rewrite <- app_assoc. exact Hp1. }
  destruct (C09_reopen_epochs3 P seed _ _ _ _ _ _ _ _ _ _ HP HX0 Hrall Em Ec Hpl') as (E1 & E2 & s2 & E3 & HI2 & Hm2 & Hc2).
  split; [exact E1|]. split; [exact E2|]. exists s2. split; [exact E3|]. split; [exact HI2|]. split; [exact Hm2|].
  split; [exact Hc2|]. rewrite Emh. apply after_app_l.
  destruct (Hcr _ (hcrash_full K1 _)) as (_ & _ & Haf). rewrite <- Ed in Haf.
  apply (after_ceq_r _ _ _ _ Haf Hc2).
Qed.

(* POWER LOSS AT ANY INSTANT, for the extended histories: the statement of [power_loss_any_instant], with
   process crashes in the middle of a clean Open among the epochs *)
Theorem power_loss_any_instant3 P seed cf0 mh0 K0 cfa osync cf1 mh K cf' Kcut L' img' :
  params_ok P -> XOpen P cf0 ->
  mrun3 P cf0 mh0 K0 cfa -> xstep P cfa osync cf1 -> sync_point P osync ->
  mrun3 P cf1 mh K cf' -> instant Kcut K ->
  plh fnone (s_disk (fst cf0)) (K0 ++ CE (s_trace (fst cf1)) :: Kcut) L' img' ->
  exists s2 b, db_open flat_ops P seed (closed img') = (s2, OOpened b) /\ Inv P s2 /\ s_mem s2 <> None /\
    after (cont (s_disk (fst cf1))) mh (cont (s_disk s2)) /\
    b = d_lock (hrun Kcut (s_disk (fst cf1))) /\ d_lock img' = b /\
    (b = false -> exists s s1, closed_window3 P cf1 mh K Kcut s s1) /\
    (forall s s1, closed_window3 P cf1 mh K Kcut s s1 ->
       b = false /\ img' = set_orphans (s_disk s1) (d_orphans img') /\ ceq (cont (s_disk s2)) (cont (s_disk s))).
Proof.
  intros HP HX0 Hr0 Hs Hsp Hr Hin Hpl.
  assert (HX1 : XOpen P cf1).
  { destruct (mrun3_main P _ _ _ _ HP Hr0 None HX0 (open_DurS_None P cf0 HX0)) as (HXa & _).
    apply (xstep_ok P _ _ _ HP HXa Hs). }
  assert (Hlockimg : d_lock img' = d_lock (hrun Kcut (s_disk (fst cf1)))).
  { pose proof (mrun3_main P _ _ _ _ HP Hr0 None HX0 (open_DurS_None P cf0 HX0)) as (HXa & Eda & _).
    destruct (xstep_ok P _ _ _ HP HXa Hs) as (_ & _ & Ed1).
    pose proof (plh_agree _ _ _ _ _ Hpl _ (Agree_refl _ _)) as (_ & _ & _ & _ & _ & A6 & _).
    rewrite A6, hrun_app. cbn [hrun fold_left hstep]. rewrite <- Eda, <- Ed1. reflexivity. }
  destruct (instant_dichotomy3 P _ _ _ _ _ HP HX1 Hr Hin) as [[Hl Hc]|(Hl & Hcut & s & s1 & Hw)].
  - assert (Hrec : exists s2, db_open flat_ops P seed (closed img') = (s2, OOpened true) /\ Inv P s2 /\ s_mem s2 <> None /\
              after (cont (s_disk (fst cf1))) mh (cont (s_disk s2))).
    { destruct Hc as [Hcut|(-> & -> & ->)].
      - apply (C06_with_recovery3 P seed _ _ _ _ _ _ _ _ _ _ _ _ HP HX0 Hr0 Hs Hsp Hr Hcut Hl Hpl).
      - assert (Hr' : mrun3 P cf1 [MOps []] [CE []] cf1) by (apply mrun3_one; apply ms3_old; eapply ms_ops; apply xr_nil).
        assert (Hpl' : plh fnone (s_disk (fst cf0)) (K0 ++ CE (s_trace (fst cf1)) :: [CE []]) L' img').
        { change (K0 ++ CE (s_trace (fst cf1)) :: [CE []]) with (K0 ++ [CE (s_trace (fst cf1))] ++ [CE []]).
          rewrite app_assoc. eapply plh_app; [exact Hpl|]. apply plh_one. apply pl_nil. }
        destruct (C06_with_recovery3 P seed _ _ _ _ _ _ _ _ _ [CE []] _ _ HP HX0 Hr0 Hs Hsp Hr' (hcut_here [] [] []) Hl Hpl')
          as (s2 & E2 & HI2 & Hm2 & Haf).
        exists s2. split; [exact E2|]. split; [exact HI2|]. split; [exact Hm2|apply after_nil_ops; exact Haf]. }
    destruct Hrec as (s2 & E2 & HI2 & Hm2 & Haf). exists s2, true.
    split; [exact E2|]. split; [exact HI2|]. split; [exact Hm2|]. split; [exact Haf|].
    split; [symmetry; exact Hl|]. split; [rewrite Hlockimg; exact Hl|]. split; [discriminate|].
    intros s s1 Hw. exfalso. destruct (closed_window3_disk P _ _ _ _ _ _ HP HX1 Hw) as [E1 E2']. congruence.
  - destruct (window3_power_loss P seed _ _ _ _ _ _ _ _ _ _ _ _ _ HP HX0 Hr0 Hs Hsp Hw Hpl)
      as (_ & Hli & s2 & E2 & HI2 & Hm2 & _ & Haf).
    exists s2, false. split; [exact E2|]. split; [exact HI2|]. split; [exact Hm2|]. split; [exact Haf|].
    split; [symmetry; exact Hl|]. split; [exact Hli|]. split; [intros _; exists s, s1; exact Hw|].
    intros t t1 Hw'. split; [reflexivity|].
    destruct (window3_power_loss P seed _ _ _ _ _ _ _ _ _ _ _ _ _ HP HX0 Hr0 Hs Hsp Hw' Hpl)
      as (Ei & _ & s2' & E2' & _ & _ & Hc' & _).
    rewrite E2 in E2'. inversion E2'; subst s2'. split; [exact Ei|exact Hc'].
Qed.

(* ================================================================================================ *)
(* 7. Non-vacuity (vm_compute): Put [1]; Sync; Put [3]; Close; clean Open -- the history ez_K of      *)
(*    PowerLoss2.v, 19 events after the Sync -- and the power fails after n of them                  *)

(* the choice "nothing is lost" *)
Definition keep_all (K : list chunk) : list hch :=
  map (fun k => match k with CE es => HC (map (fun _ => Keep) es) | CT _ _ _ _ => HKeep end) K.

Definition ew_hist (n : nat) : list chunk := ey_K0 ++ CE (s_trace ey2) :: hpre n ez_K.

Lemma ew_image n hs : is_some (plh_exec hs fnone (s_disk pl_q0) (ew_hist n)) = true ->
  exists L, plh fnone (s_disk pl_q0) (ew_hist n) L (img_of (plh_exec hs fnone (s_disk pl_q0) (ew_hist n))).
Proof.
  intros H. destruct (plh_exec hs fnone (s_disk pl_q0) (ew_hist n)) as [[L img]|] eqn:E; [|discriminate H].
  exists L. apply (plh_exec_sound hs). exact E.
Qed.

(* the theorem applies at EVERY instant n, to every admissible image *)
Example power_loss_any_instant_nonvacuous :
  forall n hs, is_some (plh_exec hs fnone (s_disk pl_q0) (ew_hist n)) = true ->
  let img := img_of (plh_exec hs fnone (s_disk pl_q0) (ew_hist n)) in
  exists s2 b, db_open flat_ops ey_P 11 (closed img) = (s2, OOpened b) /\ Inv ey_P s2 /\ s_mem s2 <> None /\
    after (cont (s_disk ey2)) ez_mh (cont (s_disk s2)) /\
    b = d_lock (hrun (hpre n ez_K) (s_disk ey2)) /\ d_lock img = b.
Proof.
  intros n hs Hhs img. destruct (ew_image n hs Hhs) as (L & Hpl). fold img in Hpl.
  destruct (power_loss_after_n_events ey_P 11 (pl_q0, None) ey_mh0 ey_K0 (ey1, None) (XOp OpSync) (ey2, None)
              ez_mh ez_K (ez_o, None) n L img ey_params_ok (conj (pl_open0 ey_P) Logic.I) ey_mrun0 ey_sync Logic.I ez_mrun Hpl)
    as (_ & s2 & b & E2 & HI2 & Hm2 & Haf & Eb & El & _).
  exists s2, b. split; [exact E2|]. split; [exact HI2|]. split; [exact Hm2|]. split; [exact Haf|]. split; [exact Eb|exact El].
Qed.

(* an instant INSIDE an epoch (n = 10: in the middle of Close; n = 19: after the clean Open): the lock file
   exists; an instant in the WINDOW after the completed Close (n = 18): it does not; admissible images exist *)
Example power_loss_any_instant_nonvacuous_instants :
  hlen ez_K = 19%nat /\
  hpre 18 ez_K = [CE (s_trace ey3 ++ []); CE (s_trace ez_cl)] /\
  d_lock (hrun (hpre 10 ez_K) (s_disk ey2)) = true /\
  d_lock (hrun (hpre 18 ez_K) (s_disk ey2)) = false /\
  d_lock (hrun (hpre 19 ez_K) (s_disk ey2)) = true /\
  is_some (plh_exec (keep_all (ew_hist 10)) fnone (s_disk pl_q0) (ew_hist 10)) = true /\
  is_some (plh_exec (keep_all (ew_hist 18)) fnone (s_disk pl_q0) (ew_hist 18)) = true /\
  is_some (plh_exec (keep_all (ew_hist 19)) fnone (s_disk pl_q0) (ew_hist 19)) = true /\
  (* early in Close (n = 4) the append of [3] may still be lost; in the window (n = 18) that is not admissible *)
  is_some (plh_exec [HC [Keep; Keep]; HC [Keep]; HC [Drop; Keep]; HC [Keep; Keep]]
             fnone (s_disk pl_q0) (ew_hist 4)) = true /\
  abs (img_of (plh_exec [HC [Keep; Keep]; HC [Keep]; HC [Drop; Keep]; HC [Keep; Keep]]
             fnone (s_disk pl_q0) (ew_hist 4))) = [([1], [2])] /\
  plh_exec [HC [Keep; Keep]; HC [Keep]; HC [Drop; Keep];
            HC [Keep; Keep; Keep; Keep; Keep; Keep; Keep; Keep; Keep; Keep; Keep; Keep; Keep; Keep; Keep; Keep]]
           fnone (s_disk pl_q0) (ew_hist 18) = None.
Proof.
  split; [vm_compute; reflexivity|]. split; [vm_compute; reflexivity|]. split; [vm_compute; reflexivity|].
  split; [vm_compute; reflexivity|]. split; [vm_compute; reflexivity|]. split; [vm_compute; reflexivity|].
  split; [vm_compute; reflexivity|]. split; [vm_compute; reflexivity|]. split; [vm_compute; reflexivity|].
  split; vm_compute; reflexivity.
Qed.

(* in the window: every admissible image opens CLEANLY, with exactly the contents of the closed database *)
Example power_loss_any_instant_nonvacuous_window :
  forall hs, is_some (plh_exec hs fnone (s_disk pl_q0) (ew_hist 18)) = true ->
  let img := img_of (plh_exec hs fnone (s_disk pl_q0) (ew_hist 18)) in
  exists s2, db_open flat_ops ey_P 11 (closed img) = (s2, OOpened false) /\ Inv ey_P s2 /\ s_mem s2 <> None /\
    d_lock img = false /\ img = set_orphans (s_disk ez_cl) (d_orphans img) /\
    ceq (cont (s_disk s2)) (cont (s_disk ey3)) /\ abs (s_disk ey3) = [([3], [4]); ([1], [2])].
Proof.
  intros hs Hhs img. destruct (ew_image 18 hs Hhs) as (L & Hpl). fold img in Hpl.
  destruct (power_loss_after_n_events ey_P 11 (pl_q0, None) ey_mh0 ey_K0 (ey1, None) (XOp OpSync) (ey2, None)
              ez_mh ez_K (ez_o, None) 18 L img ey_params_ok (conj (pl_open0 ey_P) Logic.I) ey_mrun0 ey_sync Logic.I ez_mrun Hpl)
    as (_ & s2 & b & E2 & HI2 & Hm2 & _ & _ & El & _ & Hw).
  assert (W : closed_window ey_P (ey2, None) ez_mh ez_K (ez_o, None) (hpre 18 ez_K) ey3 ez_cl).
  { exists [MOps [XOp (OpPut [3] [4])]], [CE (s_trace ey3 ++ [])], None, 13, ez_o, [], [].
    split; [eapply mr_ops; [apply ey_run1; apply (ey_step _ _ _ _ ey_E3); vm_compute; reflexivity|apply mr_nil]|].
    split; [exact ez_Ecl|]. split; [exact ez_Eo|]. split; [apply mr_nil|]. split; [reflexivity|]. split; [reflexivity|].
    left. vm_compute. reflexivity. }
  destruct (Hw ey3 ez_cl W) as (-> & Ei & Hc). exists s2. split; [exact E2|]. split; [exact HI2|]. split; [exact Hm2|].
  split; [exact El|]. split; [exact Ei|]. split; [exact Hc|vm_compute; reflexivity].
Qed.

(* ---- gap (b): Put [1]; Sync; Put [3]; Close; the clean Open is killed after creating the lock file;
        recovery; and the power fails anywhere ---- *)
Definition ex_d : disk := Eval vm_compute in run_evs (s_trace ez_o) (s_disk ez_cl).
Definition ex_r : st := Eval vm_compute in fst (db_open flat_ops ey_P 17 (closed ex_d)).
Lemma ex_Ed : run_evs (s_trace ez_o) (s_disk ez_cl) = ex_d. Proof. vm_compute. reflexivity. Qed.
Lemma ex_Er : db_open flat_ops ey_P 17 (closed ex_d) = (ex_r, OOpened true). Proof. vm_compute. reflexivity. Qed.

Definition ex_K : list chunk := [CE (s_trace ey3 ++ [])] ++ (CE (s_trace ez_cl) :: CE (s_trace ez_o) :: [CE (s_trace ex_r)]) ++ [].

Lemma ex_mrun3 : mrun3 ey_P (ey2, None) ez_mh ex_K (ex_r, None).
Proof.
  apply (m3_cons ey_P (ey2, None) (MOps [XOp (OpPut [3] [4])]) [CE (s_trace ey3 ++ [])] (ey3, None) [MClose]
           ((CE (s_trace ez_cl) :: CE (s_trace ez_o) :: [CE (s_trace ex_r)]) ++ []) (ex_r, None)).
  { apply ms3_old. eapply ms_ops. apply ey_run1. apply (ey_step _ _ _ _ ey_E3); vm_compute; reflexivity. }
  apply (m3_cons ey_P (ey3, None) MClose (CE (s_trace ez_cl) :: CE (s_trace ez_o) :: [CE (s_trace ex_r)]) (ex_r, None) [] [] (ex_r, None)); [|apply m3_nil].
  apply (ms3_crash_open ey_P (ey3, None) ez_cl 13 ez_o (s_trace ez_o) [] [CE (s_trace ex_r)] ex_r ez_Ecl ez_Eo).
  - symmetry. apply app_nil_r.
  - vm_compute. discriminate.
  - rewrite ex_Ed. apply (rr_done ey_P ex_d 17 ex_r ex_Er).
Qed.

Example crash_during_clean_open_nonvacuous :
  s_trace ez_o = [ECreate FLock] /\ d_lock ex_d = true /\ abs (s_disk ex_r) = [([3], [4]); ([1], [2])] /\
  forall n hs, is_some (plh_exec hs fnone (s_disk pl_q0) (ey_K0 ++ CE (s_trace ey2) :: hpre n ex_K)) = true ->
  let img := img_of (plh_exec hs fnone (s_disk pl_q0) (ey_K0 ++ CE (s_trace ey2) :: hpre n ex_K)) in
  exists s2 b, db_open flat_ops ey_P 11 (closed img) = (s2, OOpened b) /\ Inv ey_P s2 /\ s_mem s2 <> None /\
    after (cont (s_disk ey2)) ez_mh (cont (s_disk s2)) /\ b = d_lock (hrun (hpre n ex_K) (s_disk ey2)).
Proof.
  split; [vm_compute; reflexivity|]. split; [vm_compute; reflexivity|]. split; [vm_compute; reflexivity|].
  intros n hs Hhs img.
  assert (Hpl : exists L, plh fnone (s_disk pl_q0) (ey_K0 ++ CE (s_trace ey2) :: hpre n ex_K) L img).
  { unfold img. destruct (plh_exec hs fnone (s_disk pl_q0) (ey_K0 ++ CE (s_trace ey2) :: hpre n ex_K)) as [[L im]|] eqn:E; [|discriminate Hhs].
    exists L. apply (plh_exec_sound hs). exact E. }
  destruct Hpl as (L & Hpl).
  destruct (power_loss_any_instant3 ey_P 11 (pl_q0, None) ey_mh0 ey_K0 (ey1, None) (XOp OpSync) (ey2, None)
              ez_mh ex_K (ex_r, None) (hpre n ex_K) L img ey_params_ok (conj (pl_open0 ey_P) Logic.I)
              (mrun_mrun3 _ _ _ _ _ ey_mrun0) ey_sync Logic.I ex_mrun3
              (hpre_instant _ (proj1 (mrun3_shape _ _ _ _ _ ex_mrun3)) n) Hpl)
    as (s2 & b & E2 & HI2 & Hm2 & Haf & Eb & _).
  exists s2, b. split; [exact E2|]. split; [exact HI2|]. split; [exact Hm2|]. split; [exact Haf|exact Eb].
Qed.

(* ================================================================================================ *)
Print Assumptions hpre_flat.
Print Assumptions hpre_instant.
Print Assumptions mrun_shape.
Print Assumptions mrun_cut_split.
Print Assumptions mstep_lock.
Print Assumptions instant_dichotomy.
Print Assumptions power_loss_any_instant.
Print Assumptions power_loss_after_n_events.
Print Assumptions power_loss_last_epoch.
Print Assumptions power_loss_during_close.
Print Assumptions power_loss_during_reopen_exact.
Print Assumptions power_loss_reopen_exact.
Print Assumptions clean_open_prefix.
Print Assumptions crash_during_clean_open.
Print Assumptions mrun3_main.
Print Assumptions C06_with_recovery3.
Print Assumptions C09_reopen_epochs3.
Print Assumptions instant_dichotomy3.
Print Assumptions power_loss_any_instant3.
Print Assumptions power_loss_any_instant_nonvacuous.
Print Assumptions power_loss_any_instant_nonvacuous_instants.
Print Assumptions power_loss_any_instant_nonvacuous_window.
Print Assumptions crash_during_clean_open_nonvacuous.
