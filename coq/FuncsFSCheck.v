(* FuncsFSCheck.v -- OBLIGATIONS tying the size bookkeeping of the memory-mapped file
   (fs/os_mmap.go: Slice's end-of-file test, WriteAt's size update, mremap's "mapping large enough"
   test and its choice of the new mapping size) AS TRANSLATED FROM THE CURRENT SOURCES (gen/Funcs.v)
   to the expressions FSImpl.v uses in mm_Slice, mm_WriteAt and mm_mremap.
   Each statement quantifies over ALL file sizes / offsets below 2^62. *)
From Coq Require Import ZArith NArith Bool Lia.
From Pogreb Require Import Base GoSem FSImpl.
From Pogreb.gen Require Import Funcs Consts.
Open Scope Z_scope.

(* Slice(start, end) reports EOF exactly when FSImpl.mm_Slice does: size < end *)
Theorem slice_eof_ok : forall e size : N,
  go_slice_eof (Z.of_N e) (Z.of_N size) = (size <? e)%N.
Proof.
  intros e size. unfold go_slice_eof, go_gtb.
  destruct (N.ltb_spec size e); [apply Z.ltb_lt|apply Z.ltb_ge]; lia.
Qed.

(* WriteAt: the wrapper's size becomes max(size, off + n), as in FSImpl.mm_WriteAt *)
Theorem mmap_write_size_ok : forall off n size : N,
  (off < 2 ^ 62)%N -> (n < 2 ^ 62)%N ->
  go_mmap_write_size (Z.of_N off) (Z.of_N n) (Z.of_N size)
  = Z.of_N (if (size <? off + n)%N then off + n else size)%N.
Proof.
  intros off n size Ho Hn. change (2 ^ 62)%N with 4611686018427387904%N in *.
  unfold go_mmap_write_size, go_add, go_conv, go_gtb.
  rewrite (wrap_S64 (Z.of_N n)) by lia. rewrite wrap_S64 by lia.
  destruct (N.ltb_spec size (off + n)) as [Lt|Ge].
  - replace (Z.of_N size <? Z.of_N off + Z.of_N n) with true by (symmetry; apply Z.ltb_lt; lia). lia.
  - replace (Z.of_N size <? Z.of_N off + Z.of_N n) with false by (symmetry; apply Z.ltb_ge; lia). lia.
Qed.

(* mremap leaves the mapping alone exactly when FSImpl.mm_mremap does: size <= mmapSize *)
Theorem mremap_enough_ok : forall msize size : N,
  go_mremap_enough (Z.of_N msize) (Z.of_N size) = (size <=? msize)%N.
Proof.
  intros msize size. unfold go_mremap_enough, go_geb.
  destruct (N.leb_spec size msize); [apply Z.leb_le|apply Z.leb_gt]; lia.
Qed.

(* the mapping size mremap asks for: max(initialMmapSize, size) for the first mapping, otherwise
   twice the current one (ONE doubling), as in FSImpl.mm_mremap with imm = initialMmapSize *)
Theorem mremap_size_ok : forall msize size : N,
  (msize < 2 ^ 62)%N ->
  go_mremap_size (Z.of_N msize) (Z.of_N size)
  = Z.of_N (if (msize =? 0)%N then (if (initial_mmap_size <? size)%N then size else initial_mmap_size)
            else msize * 2)%N.
Proof.
  intros msize size Hm. change (2 ^ 62)%N with 4611686018427387904%N in *.
  unfold go_mremap_size, go_eqb, go_ltb, go_mul, initial_mmap_size.
  destruct (N.eqb_spec msize 0) as [->|Ne].
  - change (Z.of_N 0 =? 0) with true. cbv iota.
    destruct (N.ltb_spec 1073741824 size) as [Lt|Ge].
    + replace (1073741824 <? Z.of_N size) with true by (symmetry; apply Z.ltb_lt; lia). reflexivity.
    + replace (1073741824 <? Z.of_N size) with false by (symmetry; apply Z.ltb_ge; lia). reflexivity.
  - replace (Z.of_N msize =? 0) with false by (symmetry; apply Z.eqb_neq; lia).
    rewrite wrap_S64 by lia. lia.
Qed.
