(* Bucket.v -- byte-level model of the on-disk index bucket (bucket.go), of the file header
   (header.go) and of the file names (segment.go: segmentName, datalog.go: parseSegmentName),
   with round-trip theorems: "the on-disk format stays the documented format version 2"
   (/repo/docs/design.md: Bucket, Slot).

   NOTE on the bucket layout: 31 slots of 16 bytes are 496 bytes, the overflow offset takes 8
   more (504); bucket.MarshalBinary allocates bucketSize = 512 bytes, so the last 8 bytes of a
   bucket are always zero.  [marshal_bucket] therefore ends with [zeros 8]. *)
From Coq Require Import ZArith Lia ZifyN ZifyNat ZifyBool.
From Pogreb Require Import Base BaseLemmas Crc Bytes Record RecordProofs DB.
Ltac Zify.zify_post_hook ::= Z.div_mod_to_equations.

(* ==== 0. constants, kept folded ==== *)
Lemma pow2_16 : 2 ^ 16 = 65536. Proof. reflexivity. Qed.
Lemma pow2_64 : 2 ^ 64 = 18446744073709551616. Proof. reflexivity. Qed.
Lemma pow256_8 : 256 ^ N.of_nat 8 = 18446744073709551616. Proof. reflexivity. Qed.

Lemma unle_le8 x : x < 18446744073709551616 -> unle (le 8 x) = x.
Proof. intros H. apply unle_le. rewrite pow256_8. exact H. Qed.

(* ==== 1. slots ==== *)
Definition slots_per_bucket : nat := 31.
Definition bucket_size : N := 512.
Definition slot_size : N := 16.

(* bucket.MarshalBinary, loop body: hash, segmentID, keySize, valueSize, offset *)
Definition marshal_slot (s : slot) : bytes :=
  le 4 (sl_h s) ++ le 2 (sl_seg s) ++ le 2 (sl_ks s) ++ le 4 (sl_vs s) ++ le 4 (sl_off s).

(* bucket.UnmarshalBinary, loop body: data[:4], data[4:6], data[6:8], data[8:12], data[12:16] *)
Definition unmarshal_slot (bs : bytes) : slot :=
  {| sl_h := unle (ntake 4 bs);
     sl_seg := unle (ntake 2 (ndrop 4 bs));
     sl_ks := unle (ntake 2 (ndrop 6 bs));
     sl_vs := unle (ntake 4 (ndrop 8 bs));
     sl_off := unle (ntake 4 (ndrop 12 bs)) |}.

Definition empty_slot : slot := {| sl_h := 0; sl_seg := 0; sl_ks := 0; sl_vs := 0; sl_off := 0 |}.

Definition slot_wf (s : slot) : Prop :=
  sl_h s < 2 ^ 32 /\ sl_seg s < 2 ^ 16 /\ sl_ks s < 2 ^ 16 /\ sl_vs s < 2 ^ 32 /\ sl_off s < 2 ^ 32.

Fixpoint marshal_slots (l : list slot) : bytes :=
  match l with [] => [] | s :: l' => marshal_slot s ++ marshal_slots l' end.

Definition pad_slots (slots : list slot) : list slot :=
  slots ++ repeat empty_slot (slots_per_bucket - length slots).

(* 31 slots, the overflow offset, and the 8 unused bytes of the 512-byte block *)
Definition marshal_bucket (slots : list slot) (next : N) : bytes :=
  marshal_slots (pad_slots slots) ++ le 8 next ++ zeros 8.

Fixpoint unmarshal_slots (n : nat) (bs : bytes) : list slot :=
  match n with O => [] | S n' => unmarshal_slot bs :: unmarshal_slots n' (ndrop 16 bs) end.

Definition unmarshal_bucket (bs : bytes) : list slot * N :=
  (unmarshal_slots slots_per_bucket bs, unle (ntake 8 (ndrop 496 bs))).

(* The slots index.get / bucketIterator / ItemIterator look at: up to the first free one. *)
Fixpoint dense (b : list slot) : list slot :=
  match b with
  | [] => []
  | s :: b' => if sl_off s =? 0 then [] else s :: dense b'
  end.

(* ---- slot ---- *)
Lemma nlen_marshal_slot s : nlen (marshal_slot s) = 16.
Proof. unfold marshal_slot. rewrite !nlen_app, !nlen_le. reflexivity. Qed.

Lemma marshal_slot_bytes s : Forall byte (marshal_slot s).
Proof. unfold marshal_slot. rewrite !Forall_app. repeat split; apply le_bytes. Qed.

Lemma slot_fields (a b c d e rest : bytes) :
  nlen a = 4 -> nlen b = 2 -> nlen c = 2 -> nlen d = 4 -> nlen e = 4 ->
  let l := a ++ b ++ c ++ d ++ e ++ rest in
  ntake 4 l = a /\ ntake 2 (ndrop 4 l) = b /\ ntake 2 (ndrop 6 l) = c /\
  ntake 4 (ndrop 8 l) = d /\ ntake 4 (ndrop 12 l) = e.
Proof.
  intros Ha Hb Hc Hd He l.
  assert (D4 : ndrop 4 l = b ++ c ++ d ++ e ++ rest) by (apply ndrop_app_exact'; exact Ha).
  assert (D6 : ndrop 6 l = c ++ d ++ e ++ rest).
  { change 6 with (4 + 2). rewrite ndrop_add, D4. apply ndrop_app_exact'. exact Hb. }
  assert (D8 : ndrop 8 l = d ++ e ++ rest).
  { change 8 with (6 + 2). rewrite ndrop_add, D6. apply ndrop_app_exact'. exact Hc. }
  assert (D12 : ndrop 12 l = e ++ rest).
  { change 12 with (8 + 4). rewrite ndrop_add, D8. apply ndrop_app_exact'. exact Hd. }
  rewrite D4, D6, D8, D12. unfold l.
  repeat split; apply ntake_app_exact'; assumption.
Qed.

Lemma marshal_slot_assoc s rest :
  marshal_slot s ++ rest =
  le 4 (sl_h s) ++ le 2 (sl_seg s) ++ le 2 (sl_ks s) ++ le 4 (sl_vs s) ++ le 4 (sl_off s) ++ rest.
Proof. unfold marshal_slot. rewrite <- !app_assoc. reflexivity. Qed.

Theorem slot_roundtrip s rest : slot_wf s -> unmarshal_slot (marshal_slot s ++ rest) = s.
Proof.
  intros (Hh & Hg & Hk & Hv & Ho).
  rewrite pow2_32 in Hh, Hv, Ho. rewrite pow2_16 in Hg, Hk.
  rewrite marshal_slot_assoc.
  destruct (slot_fields (le 4 (sl_h s)) (le 2 (sl_seg s)) (le 2 (sl_ks s)) (le 4 (sl_vs s))
              (le 4 (sl_off s)) rest) as (E1 & E2 & E3 & E4 & E5); try apply nlen_le.
  unfold unmarshal_slot. rewrite E1, E2, E3, E4, E5.
  rewrite !unle_le4, !unle_le2 by assumption.
  destruct s; reflexivity.
Qed.

Lemma empty_slot_wf : slot_wf empty_slot.
Proof. unfold slot_wf, empty_slot; cbn [sl_h sl_seg sl_ks sl_vs sl_off].
  rewrite pow2_32, pow2_16. lia. Qed.

Lemma ndrop_marshal_slot s rest : ndrop 16 (marshal_slot s ++ rest) = rest.
Proof. apply ndrop_app_exact'. apply nlen_marshal_slot. Qed.

(* ---- slot arrays ---- *)
Lemma nlen_marshal_slots l : nlen (marshal_slots l) = 16 * nlen l.
Proof.
  induction l as [|s l IH]; [reflexivity|].
  cbn [marshal_slots]. rewrite nlen_app, nlen_marshal_slot, IH, nlen_cons. lia.
Qed.

Lemma marshal_slots_bytes l : Forall byte (marshal_slots l).
Proof.
  induction l as [|s l IH]; cbn [marshal_slots]; [constructor|].
  apply Forall_app. split; [apply marshal_slot_bytes|exact IH].
Qed.

Lemma slots_roundtrip l : forall rest,
  Forall slot_wf l -> unmarshal_slots (length l) (marshal_slots l ++ rest) = l.
Proof.
  induction l as [|s l IH]; intros rest H; [reflexivity|].
  inversion H as [|? ? Hs Hl]; subst.
  cbn [marshal_slots length unmarshal_slots]. rewrite <- app_assoc.
  rewrite slot_roundtrip by exact Hs. rewrite ndrop_marshal_slot, IH by exact Hl. reflexivity.
Qed.

Lemma length_pad_slots slots :
  (length slots <= 31)%nat -> length (pad_slots slots) = 31%nat.
Proof. intros H. unfold pad_slots, slots_per_bucket. rewrite app_length, repeat_length. lia. Qed.

Lemma pad_slots_wf slots : Forall slot_wf slots -> Forall slot_wf (pad_slots slots).
Proof.
  intros H. unfold pad_slots. apply Forall_app. split; [exact H|].
  apply Forall_forall. intros x Hx. apply repeat_spec in Hx. subst x. apply empty_slot_wf.
Qed.

(* ---- bucket ---- *)
Lemma nlen_zeros n : nlen (zeros n) = N.of_nat n.
Proof. induction n as [|n IH]; [reflexivity|]. cbn [zeros]. rewrite nlen_cons, IH. lia. Qed.

Lemma zeros_bytes n : Forall byte (zeros n).
Proof. induction n as [|n IH]; cbn [zeros]; constructor; [unfold byte; lia|exact IH]. Qed.

Lemma nlen_padded_slots slots :
  (length slots <= 31)%nat -> nlen (marshal_slots (pad_slots slots)) = 496.
Proof.
  intros H. rewrite nlen_marshal_slots, nlen_length, length_pad_slots by exact H. reflexivity.
Qed.

Theorem marshal_bucket_length slots next :
  (length slots <= 31)%nat -> nlen (marshal_bucket slots next) = 512.
Proof.
  intros H. unfold marshal_bucket.
  rewrite !nlen_app, nlen_padded_slots, nlen_le, nlen_zeros by exact H. reflexivity.
Qed.

Theorem marshal_bucket_bytes slots next : Forall byte (marshal_bucket slots next).
Proof.
  unfold marshal_bucket. rewrite !Forall_app.
  repeat split; [apply marshal_slots_bytes|apply le_bytes|apply zeros_bytes].
Qed.

Theorem bucket_roundtrip slots next :
  (length slots <= 31)%nat -> Forall slot_wf slots -> next < 2 ^ 64 ->
  unmarshal_bucket (marshal_bucket slots next) =
    (slots ++ repeat empty_slot (31 - length slots), next).
Proof.
  intros Hl Hw Hn. rewrite pow2_64 in Hn.
  unfold unmarshal_bucket, marshal_bucket. f_equal.
  - change (unmarshal_slots 31 (marshal_slots (pad_slots slots) ++ le 8 next ++ zeros 8) =
            pad_slots slots).
    generalize (length_pad_slots slots Hl) (pad_slots_wf slots Hw).
    generalize (pad_slots slots) as p. intros p Lp Wp.
    rewrite <- Lp. apply slots_roundtrip. exact Wp.
  - rewrite (ndrop_app_exact' 496 _ _ (nlen_padded_slots slots Hl)).
    rewrite (ntake_app_exact' 8 (le 8 next) _ (nlen_le 8 next)).
    apply unle_le8. exact Hn.
Qed.

Lemma dense_app_free l s rest :
  Forall (fun s => sl_off s <> 0) l -> sl_off s = 0 -> dense (l ++ s :: rest) = l.
Proof.
  intros H Hs. induction H as [|x l Hx Hl IH]; cbn [app dense].
  - rewrite Hs. reflexivity.
  - destruct (N.eqb_spec (sl_off x) 0) as [E|E]; [contradiction|]. rewrite IH. reflexivity.
Qed.

Lemma dense_all l : Forall (fun s => sl_off s <> 0) l -> dense l = l.
Proof.
  intros H. induction H as [|x l Hx Hl IH]; cbn [dense]; [reflexivity|].
  destruct (N.eqb_spec (sl_off x) 0) as [E|E]; [contradiction|]. rewrite IH. reflexivity.
Qed.

Lemma dense_pad slots :
  Forall (fun s => sl_off s <> 0) slots -> dense (pad_slots slots) = slots.
Proof.
  intros H. unfold pad_slots.
  destruct (slots_per_bucket - length slots)%nat as [|k]; cbn [repeat].
  - rewrite app_nil_r. apply dense_all. exact H.
  - apply dense_app_free; [exact H|reflexivity].
Qed.

Theorem bucket_dense_roundtrip slots next :
  (length slots <= 31)%nat -> Forall slot_wf slots -> next < 2 ^ 64 ->
  Forall (fun s => sl_off s <> 0) slots ->
  dense (fst (unmarshal_bucket (marshal_bucket slots next))) = slots.
Proof.
  intros Hl Hw Hn Ho. rewrite bucket_roundtrip by assumption. cbn [fst].
  apply (dense_pad slots Ho).
Qed.

(* ---- injectivity ---- *)
Theorem marshal_bucket_inj s1 n1 s2 n2 :
  (length s1 <= 31)%nat -> (length s2 <= 31)%nat -> Forall slot_wf s1 -> Forall slot_wf s2 ->
  n1 < 2 ^ 64 -> n2 < 2 ^ 64 ->
  marshal_bucket s1 n1 = marshal_bucket s2 n2 ->
  s1 ++ repeat empty_slot (31 - length s1) = s2 ++ repeat empty_slot (31 - length s2) /\ n1 = n2.
Proof.
  intros L1 L2 W1 W2 N1 N2 E.
  assert (R : unmarshal_bucket (marshal_bucket s1 n1) = unmarshal_bucket (marshal_bucket s2 n2))
    by (rewrite E; reflexivity).
  rewrite !bucket_roundtrip in R by assumption.
  split; [exact (f_equal fst R)|exact (f_equal snd R)].
Qed.

(* Buckets as the index keeps them (no free slot before a used one): the slot lists are equal. *)
Theorem marshal_bucket_inj_dense s1 n1 s2 n2 :
  (length s1 <= 31)%nat -> (length s2 <= 31)%nat -> Forall slot_wf s1 -> Forall slot_wf s2 ->
  n1 < 2 ^ 64 -> n2 < 2 ^ 64 ->
  Forall (fun s => sl_off s <> 0) s1 -> Forall (fun s => sl_off s <> 0) s2 ->
  marshal_bucket s1 n1 = marshal_bucket s2 n2 -> s1 = s2 /\ n1 = n2.
Proof.
  intros L1 L2 W1 W2 N1 N2 O1 O2 E.
  destruct (marshal_bucket_inj s1 n1 s2 n2 L1 L2 W1 W2 N1 N2 E) as [_ En]. split; [|exact En].
  rewrite <- (bucket_dense_roundtrip s1 n1 L1 W1 N1 O1), E.
  apply bucket_dense_roundtrip; assumption.
Qed.

Lemma app_eq_len {A} (a b c d : list A) : length a = length c -> a ++ b = c ++ d -> a = c.
Proof.
  revert c. induction a as [|x a IH]; intros c Hl E; destruct c as [|y c]; try discriminate Hl.
  - reflexivity.
  - cbn [app] in E. injection E as Exy E. cbn [length] in Hl. f_equal; [exact Exy|].
    apply IH; [lia|exact E].
Qed.

(* Slot arrays of the same length. *)
Theorem marshal_bucket_inj_len s1 n1 s2 n2 :
  length s1 = length s2 -> (length s1 <= 31)%nat -> Forall slot_wf s1 -> Forall slot_wf s2 ->
  n1 < 2 ^ 64 -> n2 < 2 ^ 64 ->
  marshal_bucket s1 n1 = marshal_bucket s2 n2 -> s1 = s2 /\ n1 = n2.
Proof.
  intros EL L1 W1 W2 N1 N2 E.
  assert (L2 : (length s2 <= 31)%nat) by lia.
  destruct (marshal_bucket_inj s1 n1 s2 n2 L1 L2 W1 W2 N1 N2 E) as [Es En]. split; [|exact En].
  exact (app_eq_len _ _ _ _ EL Es).
Qed.
