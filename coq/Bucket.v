(* Bucket.v -- byte-level model of the on-disk index bucket (bucket.go), of the file header
   (header.go) and of the file names (segment.go: segmentName, datalog.go: parseSegmentName),
   with round-trip theorems: "the on-disk format stays the documented format version 2"
   (/repo/docs/design.md: Bucket, Slot).

   NOTE on the bucket layout: 31 slots of 16 bytes are 496 bytes, the overflow offset takes 8
   more (504); bucket.MarshalBinary allocates bucketSize = 512 bytes, so the last 8 bytes of a
   bucket are always zero.  [marshal_bucket] therefore ends with [zeros 8]. *)
From Coq Require Import ZArith Lia ZifyN ZifyNat ZifyBool.
From Pogreb Require Import Base BaseLemmas Crc Bytes Record RecordProofs DB.
Ltac Zify.zify_post_hook ::= Z.div_mod_to_equations.

(* ==== 0. constants, kept folded ==== *)
Lemma pow2_16 : 2 ^ 16 = 65536. Proof. reflexivity. Qed.
Lemma pow2_64 : 2 ^ 64 = 18446744073709551616. Proof. reflexivity. Qed.
Lemma pow256_8 : 256 ^ N.of_nat 8 = 18446744073709551616. Proof. reflexivity. Qed.

Lemma unle_le8 x : x < 18446744073709551616 -> unle (le 8 x) = x.
Proof. intros H. apply unle_le. rewrite pow256_8. exact H. Qed.

(* ==== 1. slots ==== *)
Definition slots_per_bucket : nat := 31.
Definition bucket_size : N := 512.
Definition slot_size : N := 16.

(* bucket.MarshalBinary, loop body: hash, segmentID, keySize, valueSize, offset *)
Definition marshal_slot (s : slot) : bytes :=
  le 4 (sl_h s) ++ le 2 (sl_seg s) ++ le 2 (sl_ks s) ++ le 4 (sl_vs s) ++ le 4 (sl_off s).

(* bucket.UnmarshalBinary, loop body: data[:4], data[4:6], data[6:8], data[8:12], data[12:16] *)
Definition unmarshal_slot (bs : bytes) : slot :=
  {| sl_h := unle (ntake 4 bs);
     sl_seg := unle (ntake 2 (ndrop 4 bs));
     sl_ks := unle (ntake 2 (ndrop 6 bs));
     sl_vs := unle (ntake 4 (ndrop 8 bs));
     sl_off := unle (ntake 4 (ndrop 12 bs)) |}.

Definition empty_slot : slot := {| sl_h := 0; sl_seg := 0; sl_ks := 0; sl_vs := 0; sl_off := 0 |}.

Definition slot_wf (s : slot) : Prop :=
  sl_h s < 2 ^ 32 /\ sl_seg s < 2 ^ 16 /\ sl_ks s < 2 ^ 16 /\ sl_vs s < 2 ^ 32 /\ sl_off s < 2 ^ 32.

Fixpoint marshal_slots (l : list slot) : bytes :=
  match l with [] => [] | s :: l' => marshal_slot s ++ marshal_slots l' end.

Definition pad_slots (slots : list slot) : list slot :=
  slots ++ repeat empty_slot (slots_per_bucket - length slots).

(* 31 slots, the overflow offset, and the 8 unused bytes of the 512-byte block *)
Definition marshal_bucket (slots : list slot) (next : N) : bytes :=
  marshal_slots (pad_slots slots) ++ le 8 next ++ zeros 8.

Fixpoint unmarshal_slots (n : nat) (bs : bytes) : list slot :=
  match n with O => [] | S n' => unmarshal_slot bs :: unmarshal_slots n' (ndrop 16 bs) end.

Definition unmarshal_bucket (bs : bytes) : list slot * N :=
  (unmarshal_slots slots_per_bucket bs, unle (ntake 8 (ndrop 496 bs))).

(* The slots index.get / bucketIterator / ItemIterator look at: up to the first free one. *)
Fixpoint dense (b : list slot) : list slot :=
  match b with
  | [] => []
  | s :: b' => if sl_off s =? 0 then [] else s :: dense b'
  end.

(* ---- slot ---- *)
Lemma nlen_marshal_slot s : nlen (marshal_slot s) = 16.
Proof. unfold marshal_slot. rewrite !nlen_app, !nlen_le. reflexivity. Qed.

Lemma marshal_slot_bytes s : Forall byte (marshal_slot s).
Proof. unfold marshal_slot. rewrite !Forall_app. repeat split; apply le_bytes. Qed.

Lemma slot_fields (a b c d e rest : bytes) :
  nlen a = 4 -> nlen b = 2 -> nlen c = 2 -> nlen d = 4 -> nlen e = 4 ->
  let l := a ++ b ++ c ++ d ++ e ++ rest in
  ntake 4 l = a /\ ntake 2 (ndrop 4 l) = b /\ ntake 2 (ndrop 6 l) = c /\
  ntake 4 (ndrop 8 l) = d /\ ntake 4 (ndrop 12 l) = e.
Proof.
  intros Ha Hb Hc Hd He l.
  assert (D4 : ndrop 4 l = b ++ c ++ d ++ e ++ rest) by (apply ndrop_app_exact'; exact Ha).
  assert (D6 : ndrop 6 l = c ++ d ++ e ++ rest).
  { change 6 with (4 + 2). rewrite ndrop_add, D4. apply ndrop_app_exact'. exact Hb. }
  assert (D8 : ndrop 8 l = d ++ e ++ rest).
  { change 8 with (6 + 2). rewrite ndrop_add, D6. apply ndrop_app_exact'. exact Hc. }
  assert (D12 : ndrop 12 l = e ++ rest).
  { change 12 with (8 + 4). rewrite ndrop_add, D8. apply ndrop_app_exact'. exact Hd. }
  rewrite D4, D6, D8, D12. unfold l.
  repeat split; apply ntake_app_exact'; assumption.
Qed.

Lemma marshal_slot_assoc s rest :
  marshal_slot s ++ rest =
  le 4 (sl_h s) ++ le 2 (sl_seg s) ++ le 2 (sl_ks s) ++ le 4 (sl_vs s) ++ le 4 (sl_off s) ++ rest.
Proof. unfold marshal_slot. rewrite <- !app_assoc. reflexivity. Qed.

Theorem slot_roundtrip s rest : slot_wf s -> unmarshal_slot (marshal_slot s ++ rest) = s.
Proof.
  intros (Hh & Hg & Hk & Hv & Ho).
  rewrite pow2_32 in Hh, Hv, Ho. rewrite pow2_16 in Hg, Hk.
  rewrite marshal_slot_assoc.
  destruct (slot_fields (le 4 (sl_h s)) (le 2 (sl_seg s)) (le 2 (sl_ks s)) (le 4 (sl_vs s))
              (le 4 (sl_off s)) rest) as (E1 & E2 & E3 & E4 & E5); try apply nlen_le.
  unfold unmarshal_slot. rewrite E1, E2, E3, E4, E5.
  rewrite !unle_le4, !unle_le2 by assumption.
  destruct s; reflexivity.
Qed.

Lemma empty_slot_wf : slot_wf empty_slot.
Proof. unfold slot_wf, empty_slot; cbn [sl_h sl_seg sl_ks sl_vs sl_off].
  rewrite pow2_32, pow2_16. lia. Qed.

Lemma ndrop_marshal_slot s rest : ndrop 16 (marshal_slot s ++ rest) = rest.
Proof. apply ndrop_app_exact'. apply nlen_marshal_slot. Qed.

(* ---- slot arrays ---- *)
Lemma nlen_marshal_slots l : nlen (marshal_slots l) = 16 * nlen l.
Proof.
  induction l as [|s l IH]; [reflexivity|].
  cbn [marshal_slots]. rewrite nlen_app, nlen_marshal_slot, IH, nlen_cons. lia.
Qed.

Lemma marshal_slots_bytes l : Forall byte (marshal_slots l).
Proof.
  induction l as [|s l IH]; cbn [marshal_slots]; [constructor|].
  apply Forall_app. split; [apply marshal_slot_bytes|exact IH].
Qed.

Lemma slots_roundtrip l : forall rest,
  Forall slot_wf l -> unmarshal_slots (length l) (marshal_slots l ++ rest) = l.
Proof.
  induction l as [|s l IH]; intros rest H; [reflexivity|].
  inversion H as [|? ? Hs Hl]; subst.
  cbn [marshal_slots length unmarshal_slots]. rewrite <- app_assoc.
  rewrite slot_roundtrip by exact Hs. rewrite ndrop_marshal_slot, IH by exact Hl. reflexivity.
Qed.

Lemma length_pad_slots slots :
  (length slots <= 31)%nat -> length (pad_slots slots) = 31%nat.
Proof. intros H. unfold pad_slots, slots_per_bucket. rewrite app_length, repeat_length. lia. Qed.

Lemma pad_slots_wf slots : Forall slot_wf slots -> Forall slot_wf (pad_slots slots).
Proof.
  intros H. unfold pad_slots. apply Forall_app. split; [exact H|].
  apply Forall_forall. intros x Hx. apply repeat_spec in Hx. subst x. apply empty_slot_wf.
Qed.

(* ---- bucket ---- *)
Lemma nlen_zeros n : nlen (zeros n) = N.of_nat n.
Proof. induction n as [|n IH]; [reflexivity|]. cbn [zeros]. rewrite nlen_cons, IH. lia. Qed.

Lemma zeros_bytes n : Forall byte (zeros n).
Proof. induction n as [|n IH]; cbn [zeros]; constructor; [unfold byte; lia|exact IH]. Qed.

Lemma nlen_padded_slots slots :
  (length slots <= 31)%nat -> nlen (marshal_slots (pad_slots slots)) = 496.
Proof.
  intros H. rewrite nlen_marshal_slots, nlen_length, length_pad_slots by exact H. reflexivity.
Qed.

Theorem marshal_bucket_length slots next :
  (length slots <= 31)%nat -> nlen (marshal_bucket slots next) = 512.
Proof.
  intros H. unfold marshal_bucket.
  rewrite !nlen_app, nlen_padded_slots, nlen_le, nlen_zeros by exact H. reflexivity.
Qed.

Theorem marshal_bucket_bytes slots next : Forall byte (marshal_bucket slots next).
Proof.
  unfold marshal_bucket. rewrite !Forall_app.
  repeat split; [apply marshal_slots_bytes|apply le_bytes|apply zeros_bytes].
Qed.

Theorem bucket_roundtrip slots next :
  (length slots <= 31)%nat -> Forall slot_wf slots -> next < 2 ^ 64 ->
  unmarshal_bucket (marshal_bucket slots next) =
    (slots ++ repeat empty_slot (31 - length slots), next).
Proof.
  intros Hl Hw Hn. rewrite pow2_64 in Hn.
  unfold unmarshal_bucket, marshal_bucket. f_equal.
  - change (unmarshal_slots 31 (marshal_slots (pad_slots slots) ++ le 8 next ++ zeros 8) =
            pad_slots slots).
    generalize (length_pad_slots slots Hl) (pad_slots_wf slots Hw).
    generalize (pad_slots slots) as p. intros p Lp Wp.
    rewrite <- Lp. apply slots_roundtrip. exact Wp.
  - rewrite (ndrop_app_exact' 496 _ _ (nlen_padded_slots slots Hl)).
    rewrite (ntake_app_exact' 8 (le 8 next) _ (nlen_le 8 next)).
    apply unle_le8. exact Hn.
Qed.

Lemma dense_app_free l s rest :
  Forall (fun s => sl_off s <> 0) l -> sl_off s = 0 -> dense (l ++ s :: rest) = l.
Proof.
  intros H Hs. induction H as [|x l Hx Hl IH]; cbn [app dense].
  - rewrite Hs. reflexivity.
  - destruct (N.eqb_spec (sl_off x) 0) as [E|E]; [contradiction|]. rewrite IH. reflexivity.
Qed.

Lemma dense_all l : Forall (fun s => sl_off s <> 0) l -> dense l = l.
Proof.
  intros H. induction H as [|x l Hx Hl IH]; cbn [dense]; [reflexivity|].
  destruct (N.eqb_spec (sl_off x) 0) as [E|E]; [contradiction|]. rewrite IH. reflexivity.
Qed.

Lemma dense_pad slots :
  Forall (fun s => sl_off s <> 0) slots -> dense (pad_slots slots) = slots.
Proof.
  intros H. unfold pad_slots.
  destruct (slots_per_bucket - length slots)%nat as [|k]; cbn [repeat].
  - rewrite app_nil_r. apply dense_all. exact H.
  - apply dense_app_free; [exact H|reflexivity].
Qed.

Theorem bucket_dense_roundtrip slots next :
  (length slots <= 31)%nat -> Forall slot_wf slots -> next < 2 ^ 64 ->
  Forall (fun s => sl_off s <> 0) slots ->
  dense (fst (unmarshal_bucket (marshal_bucket slots next))) = slots.
Proof.
  intros Hl Hw Hn Ho. rewrite bucket_roundtrip by assumption. cbn [fst].
  apply (dense_pad slots Ho).
Qed.

(* ---- injectivity ---- *)
Theorem marshal_bucket_inj s1 n1 s2 n2 :
  (length s1 <= 31)%nat -> (length s2 <= 31)%nat -> Forall slot_wf s1 -> Forall slot_wf s2 ->
  n1 < 2 ^ 64 -> n2 < 2 ^ 64 ->
  marshal_bucket s1 n1 = marshal_bucket s2 n2 ->
  s1 ++ repeat empty_slot (31 - length s1) = s2 ++ repeat empty_slot (31 - length s2) /\ n1 = n2.
Proof.
  intros L1 L2 W1 W2 N1 N2 E.
  assert (R : unmarshal_bucket (marshal_bucket s1 n1) = unmarshal_bucket (marshal_bucket s2 n2))
    by (rewrite E; reflexivity).
  rewrite !bucket_roundtrip in R by assumption.
  split; [exact (f_equal fst R)|exact (f_equal snd R)].
Qed.

(* Buckets as the index keeps them (no free slot before a used one): the slot lists are equal. *)
Theorem marshal_bucket_inj_dense s1 n1 s2 n2 :
  (length s1 <= 31)%nat -> (length s2 <= 31)%nat -> Forall slot_wf s1 -> Forall slot_wf s2 ->
  n1 < 2 ^ 64 -> n2 < 2 ^ 64 ->
  Forall (fun s => sl_off s <> 0) s1 -> Forall (fun s => sl_off s <> 0) s2 ->
  marshal_bucket s1 n1 = marshal_bucket s2 n2 -> s1 = s2 /\ n1 = n2.
Proof.
  intros L1 L2 W1 W2 N1 N2 O1 O2 E.
  destruct (marshal_bucket_inj s1 n1 s2 n2 L1 L2 W1 W2 N1 N2 E) as [_ En]. split; [|exact En].
  rewrite <- (bucket_dense_roundtrip s1 n1 L1 W1 N1 O1), E.
  apply bucket_dense_roundtrip; assumption.
Qed.

Lemma app_eq_len {A} (a b c d : list A) : length a = length c -> a ++ b = c ++ d -> a = c.
Proof.
  revert c. induction a as [|x a IH]; intros c Hl E; destruct c as [|y c]; try discriminate Hl.
  - reflexivity.
  - cbn [app] in E. injection E as Exy E. cbn [length] in Hl. f_equal; [exact Exy|].
    apply IH; [lia|exact E].
Qed.

(* Slot arrays of the same length. *)
Theorem marshal_bucket_inj_len s1 n1 s2 n2 :
  length s1 = length s2 -> (length s1 <= 31)%nat -> Forall slot_wf s1 -> Forall slot_wf s2 ->
  n1 < 2 ^ 64 -> n2 < 2 ^ 64 ->
  marshal_bucket s1 n1 = marshal_bucket s2 n2 -> s1 = s2 /\ n1 = n2.
Proof.
  intros EL L1 W1 W2 N1 N2 E.
  assert (L2 : (length s2 <= 31)%nat) by lia.
  destruct (marshal_bucket_inj s1 n1 s2 n2 L1 L2 W1 W2 N1 N2 E) as [Es En]. split; [|exact En].
  exact (app_eq_len _ _ _ _ EL Es).
Qed.

(* ==== 2. file header (header.go) ==== *)
Lemma header_version : unle (ntake 4 (ndrop 8 header_bytes)) = 2.
Proof. vm_compute. reflexivity. Qed.

Lemma header_bytes_bytes : Forall byte header_bytes.
Proof.
  unfold header_bytes. rewrite !Forall_app. repeat split; [|apply le_bytes|apply zeros_bytes].
  unfold signature. repeat constructor.
Qed.

Theorem header_roundtrip rest :
  header_ok (header_bytes ++ rest) = true /\
  nlen header_bytes = 512 /\
  unle (ntake 4 (ndrop 8 header_bytes)) = 2.
Proof.
  split; [apply header_ok_header|]. split; [apply nlen_header_bytes|apply header_version].
Qed.

Lemma format_version_2 : format_version = 2. Proof. reflexivity. Qed.

Lemma header_ok_iff bs : header_ok bs = true <-> ntake 8 bs = signature.
Proof. unfold header_ok. destruct (bytes_eqb_spec (ntake 8 bs) signature); split; congruence. Qed.

Theorem header_ok_rejects bs :
  nlen bs = 512 -> ntake 8 bs <> signature -> header_ok bs = false.
Proof.
  intros _ H. destruct (header_ok bs) eqn:E; [|reflexivity].
  apply header_ok_iff in E. contradiction.
Qed.

(* A block that passes the check starts with the 8 signature bytes. *)
Theorem header_ok_accepts bs :
  header_ok bs = true -> exists rest, bs = signature ++ rest.
Proof.
  intros H. apply header_ok_iff in H. exists (ndrop 8 bs).
  rewrite <- H. symmetry. apply ntake_ndrop_id.
Qed.

(* ==== 3. file names ==== *)
Definition digit (b : N) : Prop := 48 <= b < 58.
Definition is_digit (b : N) : bool := (48 <=? b) && (b <? 58).

(* strconv.ParseUint(s, 10, _) without the range check: digits only, not empty *)
Fixpoint parse_digits (a : N) (bs : bytes) : option N :=
  match bs with
  | [] => Some a
  | b :: bs' => if is_digit b then parse_digits (10 * a + (b - 48)) bs' else None
  end.
Definition parse_decimal (bs : bytes) : option N :=
  match bs with [] => None | _ :: _ => parse_digits 0 bs end.

(* strings.SplitN(s, "-", 2): the part before the first '-' and, if there is one, the part after *)
Fixpoint split_dash (bs : bytes) : bytes * option bytes :=
  match bs with
  | [] => ([], None)
  | b :: bs' => if b =? 45 then ([], Some bs')
                else let '(a, r) := split_dash bs' in (b :: a, r)
  end.

(* strings.TrimSuffix *)
Definition trim_suffix (suf bs : bytes) : bytes :=
  let n := nlen bs in
  let k := nlen suf in
  if (k <=? n) && bytes_eqb (ndrop (n - k) bs) suf then ntake (n - k) bs else bs.

Definition max_u16 : N := 65536.
Definition max_u64 : N := 18446744073709551616.

(* datalog.go: parseSegmentName.  A name without '-' (format version 1) has sequence ID 0. *)
Definition parse_segment_name (name : bytes) : option (N * N) :=
  let '(a, r) := split_dash (trim_suffix ext_psg name) in
  match parse_decimal a with
  | None => None
  | Some id =>
    if id <? max_u16 then
      match r with
      | None => Some (id, 0)
      | Some b =>
        match parse_decimal b with
        | None => None
        | Some seq => if seq <? max_u64 then Some (id, seq) else None
        end
      end
    else None
  end.

(* ---- decimal ---- *)
Fixpoint dfold (a : N) (ds : bytes) : N :=
  match ds with [] => a | b :: ds' => dfold (10 * a + (b - 48)) ds' end.

Lemma dfold_app a x y : dfold a (x ++ y) = dfold (dfold a x) y.
Proof. revert a. induction x as [|b x IH]; intros a; [reflexivity|]. cbn [app dfold]. apply IH. Qed.

Lemma is_digit_true b : digit b -> is_digit b = true.
Proof. unfold digit, is_digit. intros H. lia. Qed.

Lemma parse_digits_dfold ds : forall a, Forall digit ds -> parse_digits a ds = Some (dfold a ds).
Proof.
  induction ds as [|b ds IH]; intros a H; [reflexivity|].
  inversion H as [|? ? Hb Hds]; subst. cbn [parse_digits dfold].
  rewrite (is_digit_true b Hb). apply IH. exact Hds.
Qed.

Lemma parse_decimal_dfold ds :
  ds <> [] -> Forall digit ds -> parse_decimal ds = Some (dfold 0 ds).
Proof.
  intros Hne H. destruct ds as [|b ds]; [congruence|].
  unfold parse_decimal. apply parse_digits_dfold. exact H.
Qed.

Lemma digits_fuel_S f n acc :
  digits_fuel (S f) n acc =
  if n / 10 =? 0 then (48 + n mod 10) :: acc else digits_fuel f (n / 10) ((48 + n mod 10) :: acc).
Proof. reflexivity. Qed.

Lemma digit_mod10 n : digit (48 + n mod 10).
Proof. unfold digit. lia. Qed.

Lemma digits_fuel_digits fuel : forall n acc,
  Forall digit acc -> Forall digit (digits_fuel fuel n acc).
Proof.
  induction fuel as [|f IH]; intros n acc H; [exact H|].
  rewrite digits_fuel_S.
  assert (H' : Forall digit ((48 + n mod 10) :: acc)) by (constructor; [apply digit_mod10|exact H]).
  destruct (n / 10 =? 0); [exact H'|apply IH; exact H'].
Qed.

Theorem decimal_digits n : Forall (fun b => 48 <= b < 58) (decimal n).
Proof. apply (digits_fuel_digits 20 n []). constructor. Qed.

Lemma pow10_succ f : 10 ^ N.of_nat (S f) = 10 * 10 ^ N.of_nat f.
Proof. rewrite Nat2N.inj_succ, N.pow_succ_r'. reflexivity. Qed.

Lemma digits_fuel_spec f : forall n acc,
  n < 10 ^ N.of_nat (S f) ->
  exists ds, digits_fuel (S f) n acc = ds ++ acc /\ ds <> [] /\ dfold 0 ds = n.
Proof.
  induction f as [|f IH]; intros n acc H; rewrite digits_fuel_S;
    destruct (N.eqb_spec (n / 10) 0) as [E|E].
  - exists [48 + n mod 10]. split; [reflexivity|]. split; [discriminate|]. cbn [dfold]. lia.
  - change (10 ^ N.of_nat 1) with 10 in H. lia.
  - exists [48 + n mod 10]. split; [reflexivity|]. split; [discriminate|]. cbn [dfold]. lia.
  - rewrite pow10_succ in H.
    destruct (IH (n / 10) ((48 + n mod 10) :: acc)) as (ds & E1 & E2 & E3).
    { set (p := 10 ^ N.of_nat (S f)) in *. lia. }
    exists (ds ++ [48 + n mod 10]). split; [rewrite E1, <- app_assoc; reflexivity|].
    split; [destruct ds; discriminate|].
    rewrite dfold_app, E3. cbn [dfold]. lia.
Qed.

Lemma pow10_20 : 10 ^ N.of_nat 20 = 10 ^ 20. Proof. reflexivity. Qed.

Lemma decimal_spec n : n < 10 ^ 20 -> decimal n <> [] /\ dfold 0 (decimal n) = n.
Proof.
  intros H. rewrite <- pow10_20 in H.
  destruct (digits_fuel_spec 19 n [] H) as (ds & E1 & E2 & E3).
  unfold decimal. rewrite E1, app_nil_r. split; assumption.
Qed.

Theorem parse_decimal_decimal n : n < 10 ^ 20 -> parse_decimal (decimal n) = Some n.
Proof.
  intros H. destruct (decimal_spec n H) as [Hne Hv].
  rewrite parse_decimal_dfold; [rewrite Hv; reflexivity|exact Hne|apply decimal_digits].
Qed.

(* More fuel changes nothing: fuel 20 is enough for n < 10^20. *)
Lemma digits_fuel_indep f : forall g n acc,
  n < 10 ^ N.of_nat (S f) -> (f <= g)%nat -> digits_fuel (S g) n acc = digits_fuel (S f) n acc.
Proof.
  induction f as [|f IH]; intros g n acc H Hg; rewrite !digits_fuel_S;
    destruct (N.eqb_spec (n / 10) 0) as [E|E]; try reflexivity.
  - change (10 ^ N.of_nat 1) with 10 in H. lia.
  - rewrite pow10_succ in H. destruct g as [|g]; [lia|].
    apply IH; [|lia]. set (p := 10 ^ N.of_nat (S f)) in *. lia.
Qed.

Theorem decimal_fuel_enough n fuel :
  n < 10 ^ 20 -> (20 <= fuel)%nat -> digits_fuel fuel n [] = decimal n.
Proof.
  intros H Hf. rewrite <- pow10_20 in H. destruct fuel as [|g]; [lia|].
  unfold decimal. apply digits_fuel_indep; [exact H|lia].
Qed.

(* ---- segment names ---- *)
Lemma repeat48_digits k : Forall digit (repeat 48 k).
Proof.
  apply Forall_forall. intros x Hx. apply repeat_spec in Hx. subst x. unfold digit. lia.
Qed.

Lemma dfold_repeat48 k : dfold 0 (repeat 48 k) = 0.
Proof. induction k as [|k IH]; [reflexivity|]. cbn [repeat dfold]. exact IH. Qed.

Lemma decimal_digits' n : Forall digit (decimal n).
Proof. exact (decimal_digits n). Qed.

Lemma pad5_decimal_digits n : Forall digit (pad5 (decimal n)).
Proof. unfold pad5. apply Forall_app. split; [apply repeat48_digits|apply decimal_digits']. Qed.

Lemma parse_decimal_pad5 n : n < 10 ^ 20 -> parse_decimal (pad5 (decimal n)) = Some n.
Proof.
  intros H. destruct (decimal_spec n H) as [Hne Hv].
  rewrite parse_decimal_dfold.
  - unfold pad5. rewrite dfold_app, dfold_repeat48, Hv. reflexivity.
  - unfold pad5. intros E. apply app_eq_nil in E. destruct E as [_ E]. contradiction.
  - apply pad5_decimal_digits.
Qed.

Lemma split_dash_digits a b :
  Forall digit a -> split_dash (a ++ 45 :: b) = (a, Some b).
Proof.
  intros H. induction H as [|x a Hx Ha IH]; cbn [app split_dash]; [reflexivity|].
  unfold digit in Hx. destruct (N.eqb_spec x 45) as [E|E]; [lia|]. rewrite IH. reflexivity.
Qed.

Lemma nlen_ext_psg : nlen ext_psg = 4. Proof. reflexivity. Qed.

Lemma trim_suffix_app x : trim_suffix ext_psg (x ++ ext_psg) = x.
Proof.
  unfold trim_suffix. rewrite nlen_app, nlen_ext_psg.
  replace (nlen x + 4 - 4) with (nlen x) by lia.
  rewrite ndrop_app_exact, ntake_app_exact.
  destruct (bytes_eqb_spec ext_psg ext_psg) as [_|E]; [|congruence].
  replace (4 <=? nlen x + 4) with true by lia. reflexivity.
Qed.

Lemma name_seg_eq id seq :
  name_str (FSeg id seq) = (pad5 (decimal id) ++ 45 :: decimal seq) ++ ext_psg.
Proof. cbn [name_str]. rewrite <- app_assoc. reflexivity. Qed.

Lemma max_u16_lt : max_u16 < 10 ^ 20. Proof. reflexivity. Qed.
Lemma max_u64_lt : max_u64 < 10 ^ 20. Proof. reflexivity. Qed.

(* The general form: every uint16 id and every uint64 sequence ID. *)
Theorem segname_roundtrip_full id seq :
  id < max_u16 -> seq < max_u64 ->
  parse_segment_name (name_str (FSeg id seq)) = Some (id, seq).
Proof.
  intros Hi Hs.
  assert (Hi' : id < 10 ^ 20) by (eapply N.lt_trans; [exact Hi|exact max_u16_lt]).
  assert (Hs' : seq < 10 ^ 20) by (eapply N.lt_trans; [exact Hs|exact max_u64_lt]).
  unfold parse_segment_name. rewrite name_seg_eq, trim_suffix_app.
  rewrite (split_dash_digits _ _ (pad5_decimal_digits id)).
  rewrite (parse_decimal_pad5 id Hi'), (parse_decimal_decimal seq Hs').
  apply N.ltb_lt in Hi. apply N.ltb_lt in Hs. rewrite Hi, Hs. reflexivity.
Qed.

Lemma small_id_u16 id : id < 32768 -> id < max_u16.
Proof. unfold max_u16. lia. Qed.
Lemma pow10_19_u64 : 10 ^ 19 < max_u64. Proof. reflexivity. Qed.

Theorem segname_roundtrip id seq :
  id < 32768 -> seq < 10 ^ 19 ->
  parse_segment_name (name_str (FSeg id seq)) = Some (id, seq).
Proof.
  intros Hi Hs. apply segname_roundtrip_full; [apply small_id_u16; exact Hi|].
  eapply N.lt_trans; [exact Hs|exact pow10_19_u64].
Qed.

Theorem segname_injective_full i s j t :
  i < max_u16 -> s < max_u64 -> j < max_u16 -> t < max_u64 ->
  name_str (FSeg i s) = name_str (FSeg j t) -> (i, s) = (j, t).
Proof.
  intros Hi Hs Hj Ht E.
  assert (P : parse_segment_name (name_str (FSeg i s)) = parse_segment_name (name_str (FSeg j t)))
    by (rewrite E; reflexivity).
  rewrite !segname_roundtrip_full in P by assumption. congruence.
Qed.

Theorem segname_injective i s j t :
  i < 32768 -> s < 10 ^ 19 -> j < 32768 -> t < 10 ^ 19 ->
  (i, s) <> (j, t) -> name_str (FSeg i s) <> name_str (FSeg j t).
Proof.
  intros Hi Hs Hj Ht Hne E. apply Hne.
  apply segname_injective_full; try (apply small_id_u16; assumption); try exact E;
    (eapply N.lt_trans; [eassumption|exact pow10_19_u64]).
Qed.

(* ---- a segment name is not the name of any other file: the last four bytes differ ---- *)
Definition suffix4 (l : bytes) : bytes := firstn 4 (rev l).

Lemma suffix4_app_ge a b : (4 <= length b)%nat -> suffix4 (a ++ b) = suffix4 b.
Proof.
  intros H. unfold suffix4. rewrite rev_app_distr, firstn_app, rev_length.
  replace (4 - length b)%nat with 0%nat by lia. cbn [firstn]. apply app_nil_r.
Qed.

Lemma suffix4_ext a b : length b = 4%nat -> suffix4 (a ++ b) = rev b.
Proof.
  intros H. rewrite suffix4_app_ge by lia. unfold suffix4.
  apply firstn_all2. rewrite rev_length. lia.
Qed.

Lemma suffix4_seg id seq : suffix4 (name_str (FSeg id seq)) = rev ext_psg.
Proof. rewrite name_seg_eq. apply suffix4_ext. reflexivity. Qed.

Lemma name_segmeta_eq id seq :
  name_str (FSegMeta id seq) = (pad5 (decimal id) ++ [45] ++ decimal seq ++ ext_psg) ++ ext_pmt.
Proof. cbn [name_str]. rewrite <- !app_assoc. reflexivity. Qed.

Definition is_seg (f : fname) : Prop := match f with FSeg _ _ => True | _ => False end.

Lemma suffix4_other g : ~ is_seg g -> suffix4 (name_str g) <> rev ext_psg.
Proof.
  intros Hg. destruct g as [i s|i s| | | | | |g].
  - exfalso. apply Hg. exact I.
  - rewrite name_segmeta_eq, suffix4_ext by reflexivity. discriminate.
  - cbn [name_str]. rewrite suffix4_ext by reflexivity. discriminate.
  - cbn [name_str]. rewrite suffix4_ext by reflexivity. discriminate.
  - cbn [name_str]. rewrite suffix4_ext by reflexivity. discriminate.
  - cbn [name_str]. rewrite suffix4_ext by reflexivity. discriminate.
  - cbn [name_str]. discriminate.
  - cbn [name_str]. rewrite suffix4_ext by reflexivity. discriminate.
Qed.

Theorem segment_names_distinct_from_others id seq g :
  ~ is_seg g -> name_str (FSeg id seq) <> name_str g.
Proof.
  intros Hg E. apply (suffix4_other g Hg). rewrite <- E. apply suffix4_seg.
Qed.

(* the same, one kind of file at a time *)
Corollary segment_name_not_other id seq :
  (forall i s, name_str (FSeg id seq) <> name_str (FSegMeta i s)) /\
  name_str (FSeg id seq) <> name_str FMain /\
  name_str (FSeg id seq) <> name_str FOverflow /\
  name_str (FSeg id seq) <> name_str FIndexMeta /\
  name_str (FSeg id seq) <> name_str FDbMeta /\
  name_str (FSeg id seq) <> name_str FLock /\
  (forall f, name_str (FSeg id seq) <> name_str (FBac f)).
Proof.
  repeat split; intros; apply segment_names_distinct_from_others; intros H; exact H.
Qed.

(* ==== 4. examples ==== *)
Definition ex_slot1 : slot :=
  {| sl_h := 16909060 (* 0x01020304 *); sl_seg := 1; sl_ks := 3; sl_vs := 5; sl_off := 512 |}.
Definition ex_slot2 : slot :=
  {| sl_h := 2864434397 (* 0xAABBCCDD *); sl_seg := 258 (* 0x0102 *); sl_ks := 256 (* 0x0100 *);
     sl_vs := 65536 (* 0x00010000 *); sl_off := 305419896 (* 0x12345678 *) |}.

Example ex_marshal_slot1 :
  marshal_slot ex_slot1 = [4; 3; 2; 1;  1; 0;  3; 0;  5; 0; 0; 0;  0; 2; 0; 0].
Proof. vm_compute. reflexivity. Qed.

Example ex_marshal_bucket :
  marshal_bucket [ex_slot1; ex_slot2] 1024 =
    [4; 3; 2; 1;  1; 0;  3; 0;  5; 0; 0; 0;  0; 2; 0; 0] ++
    [221; 204; 187; 170;  2; 1;  0; 1;  0; 0; 1; 0;  120; 86; 52; 18] ++
    zeros (29 * 16) ++
    [0; 4; 0; 0; 0; 0; 0; 0] ++
    zeros 8.
Proof. vm_compute. reflexivity. Qed.

Example ex_marshal_bucket_len : nlen (marshal_bucket [ex_slot1; ex_slot2] 1024) = 512.
Proof. vm_compute. reflexivity. Qed.

Example ex_unmarshal_bucket :
  unmarshal_bucket (marshal_bucket [ex_slot1; ex_slot2] 1024) =
    ([ex_slot1; ex_slot2] ++ repeat empty_slot 29, 1024) /\
  dense (fst (unmarshal_bucket (marshal_bucket [ex_slot1; ex_slot2] 1024))) = [ex_slot1; ex_slot2].
Proof. vm_compute. split; reflexivity. Qed.

Example ex_empty_bucket : marshal_bucket [] 0 = zeros 512.
Proof. vm_compute. reflexivity. Qed.

Example ex_header :
  ntake 12 header_bytes = [112; 111; 103; 114; 101; 98; 14; 253;  2; 0; 0; 0] /\
  ndrop 12 header_bytes = zeros 500.
Proof. vm_compute. split; reflexivity. Qed.

(* "00003-17.psg" *)
Example ex_segname :
  name_str (FSeg 3 17) = [48; 48; 48; 48; 51;  45;  49; 55;  46; 112; 115; 103].
Proof. vm_compute. reflexivity. Qed.

(* "00003-17.psg.pmt" *)
Example ex_segmetaname :
  name_str (FSegMeta 3 17) = [48; 48; 48; 48; 51;  45;  49; 55;  46; 112; 115; 103;  46; 112; 109; 116].
Proof. vm_compute. reflexivity. Qed.

Example ex_parse_segname :
  parse_segment_name [48; 48; 48; 48; 51;  45;  49; 55;  46; 112; 115; 103] = Some (3, 17).
Proof. vm_compute. reflexivity. Qed.

(* "00003.psg": a version-1 name, sequence ID 0 *)
Example ex_parse_legacy : parse_segment_name [48; 48; 48; 48; 51;  46; 112; 115; 103] = Some (3, 0).
Proof. vm_compute. reflexivity. Qed.

(* "65536-1.psg": the id does not fit uint16;  "main.pix", "-1.psg", "3-.psg": not numbers *)
Example ex_parse_rejects :
  parse_segment_name [54; 53; 53; 51; 54;  45;  49;  46; 112; 115; 103] = None /\
  parse_segment_name [109; 97; 105; 110; 46; 112; 105; 120] = None /\
  parse_segment_name [45; 49; 46; 112; 115; 103] = None /\
  parse_segment_name [51; 45; 46; 112; 115; 103] = None.
Proof. vm_compute. repeat split; reflexivity. Qed.

(* the largest names *)
Example ex_parse_max :
  parse_segment_name (name_str (FSeg 65535 18446744073709551615)) = Some (65535, 18446744073709551615).
Proof. vm_compute. reflexivity. Qed.

Print Assumptions marshal_bucket_length.
Print Assumptions slot_roundtrip.
Print Assumptions bucket_roundtrip.
Print Assumptions bucket_dense_roundtrip.
Print Assumptions marshal_bucket_bytes.
Print Assumptions marshal_bucket_inj.
Print Assumptions marshal_bucket_inj_dense.
Print Assumptions marshal_bucket_inj_len.
Print Assumptions header_roundtrip.
Print Assumptions header_ok_rejects.
Print Assumptions header_ok_accepts.
Print Assumptions decimal_digits.
Print Assumptions parse_decimal_decimal.
Print Assumptions decimal_fuel_enough.
Print Assumptions segname_roundtrip_full.
Print Assumptions segname_roundtrip.
Print Assumptions segname_injective_full.
Print Assumptions segname_injective.
Print Assumptions segment_names_distinct_from_others.
Print Assumptions segment_name_not_other.
Print Assumptions ex_marshal_bucket.
Print Assumptions ex_segname.
