(* Linz.v -- C07: concurrent HISTORIES (call and return events) and their LINEARIZABILITY (Herlihy &
   Wing 1990), for executions made of atomic actions; instantiated for pogreb.
   No axioms (Print Assumptions at the end: all "Closed under the global context").

   What was there: every operation's critical section is ONE atomic action on the shared state
   (ShapeCheck / Conc / the RWMutex assumption, see props/C07.v), and any SEQUENCE of atomic actions
   behaves like the plain map (DBSim.C01_chain_refines_map, DBRun.C01_chain_refines_map_with_compact,
   DBProofsCompact.creach_ok).  What this file adds: threads, call / action / return events,
   histories, the definition of linearizability, and the theorem that links the two.

   1. GENERIC PART (any state machine  step : St -> Op -> St * Res).
      Definitions
        event        ECall t o | EAct t | ERet t r | EBg        (threads are numbers)
        tstat        TIdle | TCalled o | TActed o r             (status of a thread)
        config       shared state + status of every thread;  init s0: all threads idle
        estep        one event.  ECall t o: t idle -> called o.  EAct t: t called o, [guard s o] holds ->
                     the shared state makes [step s o], t remembers the result r.  ERet t r: t acted with
                     result r -> idle.  EBg: the shared state makes a background action [bg s s'].
        exec s0 es c the events es (oldest first) lead from [init s0] to c.  Threads may be left pending
                     after their Call or after their Act.
        opid         (t, k): the k-th operation of thread t (k = number of operations of t that returned)
        hev          HCall i o | HRet i r;   hist es: THE HISTORY = the Call and Ret events of es, each
                     labelled with its operation id (EAct and EBg are internal and do not appear)
        act_ops es   the operations (id, o) whose action happened, in the order of the EAct events
        before l a b a occurs in l at a position preceding a position of b
        linearization astep req a0 h lin   (lin : list (opid * Op * Res))
                     lin_nodup / lin_called: lin is a sequence of distinct operations called in h, with
                       the arguments of the call;
                     lin_complete: every operation that returned r in h is in lin, paired with r
                       (operations without a return MAY be in lin, with any result);
                     lin_legal (a): Forall2 req (results in lin) (results of the sequential run of
                       the specification [astep] from a0 over the operations of lin);
                     lin_order (b): if i returned in h before j was called, and j is in lin, then i
                       precedes j in lin.
        linearizable astep req a0 h := exists lin, linearization astep req a0 h lin
        hist_wf h    operation ids are called at most once; every return follows its call
        lin_of step s0 es   the witness: act_ops es, each with the result of the sequential run
        exec_fn      executable check of [exec] (needs decidable equality on results), exec_fn_sound
      Theorems
        atomic_actions_linearizable_sim   with a simulation [sim] towards a specification machine
            [astep], preserved by every guarded action (results related by [req]) and by every
            background action:  exec -> exists lin, linearization astep req a0 (hist es) lin /\
            map fst lin = act_ops es /\ sim (final state) (final specification state)
        atomic_actions_linearizable       no guard, no background action, the machine itself as the
            specification, EQUAL results:  linearization step eq s0 (hist es) (lin_of step s0 es)
        exec_hist_wf                      histories of executions are well formed
        lin_result_of_completed, linearization_change_spec, linearization_req_mono
   2. POGREB, WHOLE OPERATIONS (section 3).  Machine: [DBRun.step_chain' P] on the database with the
      real bucket-chain index; operations [DBRun.op'] = Put, Delete, Get, GetAppend, Has, Count, Items,
      Sync, Compact.
        C07_linearizable   under the hypotheses of C01_chain_refines_map_with_compact (params_ok,
            st_rel sp sf, Inv, MetaOK for a flat-index shadow sf, and op_valid' / rooms' for the
            operations IN THE ORDER OF THEIR ACTIONS): the history is linearizable w.r.t. the plain map
            [step_spec'] from [abs (s_disk sf)], with the order of the actions as the witness.
            RESULT EQUIVALENCE: [out_equiv'] = equal results for Put, Delete, Get, GetAppend, Has,
            Count, Sync; Items up to a permutation of the list; the three numbers of a CompactionResult
            are not compared (the map has no segments).  Also: linearizable w.r.t. the flat-index
            database up to [out_equiv] (CompactionResults EQUAL), history well formed, final states.
        C07_linearizable_from_empty      the same from Open on an empty directory (contents [])
        read_your_writes / C07_read_your_writes   from the DEFINITION alone: if Put(k,v) returned before
            Get(k) was called and every other Put/Delete on k returned before that Put was called or was
            called after that Get returned, the Get returns v.
   3. POGREB, COMPACTION IN MICRO-STEPS (section 4).  Machine on (flat-index database, cursor):
      operations [DBSim.op] (no Compact: the compactor is not a caller), background actions = one
      critical section of the running compaction ([compact_step] = CMore) or, when none runs, a pick
      ([compact_pick]); guards as in [creach] (room, valid Put arguments, byte-string Delete keys).
        C07_linearizable_microsteps   Inv, CInv, MetaOK at the start: every history is linearizable
            w.r.t. [step_spec] up to [out_equiv] (Items up to a permutation, all else equal);
            the micro-steps are invisible.
   4. EXAMPLES (Module LinEx, by vm_compute): four threads (three clients with overlapping Put / Get /
      Delete / Has / Count on ONE key, one compactor) on a database with two segments: the event list
      is an execution, the side conditions hold, the history and the linearization are exhibited
      (ex_history, ex_witness, ex_linearization, ex_map_results, ex_real_time); and an execution with 21
      compaction micro-steps between the actions of three clients (the mi_ examples).
   5. SENSITIVITY (section 5 and 7): [sexec] = the semantics with every action split into two instants
      ([look] at the first, [fin] at the second); [pg_look] / [pg_fin]: Get's index lookup and log read
      separated (pg_split_same_instant: at one instant this is exactly db_get).
        non_atomic_not_linearizable   a concrete execution (Put returns; Get looks up; a whole Compact;
            Get reads the log at the stale slot -> OBroken 3) whose history has NO linearization w.r.t.
            the map, up to out_equiv' and even when the failed read is counted as "not found" (lenient).
            The proof is read_your_writes on the six-event history.  na_atomic_contrast: the same
            schedule with atomic actions returns the value.

   DEVIATIONS / REMARKS
     - Operation ids are not part of the events: [hist] computes them ((thread, number of returns
       of the thread so far)).  exec_hist_wf shows they identify operations.
     - Compaction micro-steps are modelled as events EBg restricted by a relation, not as threads:
       they have no call, no return and no result.  Consequently a Compact CALL appears in histories
       only in the whole-operation instance (section 3); in section 4 the compactor runs for ever.
     - The side conditions of C07_linearizable are stated on the flat shadow run (as in DBRun), not as
       guards of the semantics; section 4 has them as guards.
     - The variant "Get reads the state at its Call" suggested as a simpler sensitivity witness IS
       linearizable (the Call itself lies between call and return), so the split lookup / read is used;
       a stale slot can only go wrong through a compaction, and then the model answers OBroken 3 (in
       Go: a read of a removed segment).  A result that no map operation ever returns makes
       non-linearizability immediate, hence the stronger statement with [lenient].
   NOT COVERED: Backup and iterator calls (Items is the atomic scan of DBSim; the bucket-by-bucket
     iterator of C11 is deliberately not atomic and not an operation here), Close and Open as
     operations of a history, operations that fail the side conditions (rejected Puts), fairness /
     progress (pending operations are allowed for ever), crash events inside a history.
     That an operation's critical section IS one atomic action of the Go code is props/C07.v
     (C07_accesses_guarded, C07_no_conflicting_accesses) plus the trusted RWMutex. *)
From Coq Require Import List Arith Lia NArith Permutation.
From Pogreb Require Import Base BaseLemmas Record Flat Index Spec DB DBInv DBLemmas DBProofsOps DBMeta
  DBProofsCompact DBSim DBRun.

(* ================================================================================================ *)
(** * 0. Lists *)

(* [a] occurs at a position of [l] that precedes a position of [b] *)
Definition before {X} (l : list X) (a b : X) : Prop :=
  exists i j, (i < j)%nat /\ nth_error l i = Some a /\ nth_error l j = Some b.

Lemma before_in_l {X} (l : list X) a b : before l a b -> In a l.
Proof. intros (i & j & _ & Hi & _). exact (nth_error_In l i Hi). Qed.

Lemma before_in_r {X} (l : list X) a b : before l a b -> In b l.
Proof. intros (i & j & _ & _ & Hj). exact (nth_error_In l j Hj). Qed.

Lemma before_app_l {X} (l l' : list X) a b : before l a b -> before (l ++ l') a b.
Proof.
  intros (i & j & Hij & Hi & Hj). exists i, j. split; [exact Hij|].
  split; (rewrite nth_error_app1; [assumption|apply nth_error_Some; congruence]).
Qed.

Lemma before_snoc_in {X} (l : list X) a b : In a l -> before (l ++ [b]) a b.
Proof.
  intros H. apply In_nth_error in H. destruct H as [i Hi].
  assert (Hlt : (i < length l)%nat) by (apply nth_error_Some; congruence).
  exists i, (length l). split; [exact Hlt|]. split.
  - rewrite nth_error_app1; assumption.
  - rewrite nth_error_app2 by lia. rewrite Nat.sub_diag. reflexivity.
Qed.

Lemma before_snoc_inv {X} (l : list X) z a b :
  before (l ++ [z]) a b -> before l a b \/ (In a l /\ b = z).
Proof.
  intros (i & j & Hij & Hi & Hj).
  assert (Hjlt : (j < length (l ++ [z]))%nat) by (apply nth_error_Some; congruence).
  rewrite app_length in Hjlt. cbn [length] in Hjlt.
  destruct (Nat.lt_ge_cases j (length l)) as [Hlt|Hge].
  - left. exists i, j. split; [exact Hij|].
    rewrite nth_error_app1 in Hi by lia. rewrite nth_error_app1 in Hj by lia. split; assumption.
  - right. assert (E : j = length l) by lia. subst j.
    rewrite nth_error_app1 in Hi by lia. rewrite nth_error_app2 in Hj by lia.
    rewrite Nat.sub_diag in Hj. cbn [nth_error] in Hj.
    split; [exact (nth_error_In _ _ Hi)|congruence].
Qed.

Lemma before_asym {X} (l : list X) a b : NoDup l -> before l a b -> before l b a -> False.
Proof.
  intros Hnd (i & j & Hij & Hi & Hj) (i' & j' & Hij' & Hi' & Hj').
  pose proof (proj1 (NoDup_nth_error l) Hnd) as Hinj.
  assert (E1 : i = j') by (apply Hinj; [apply nth_error_Some; congruence|congruence]).
  assert (E2 : j = i') by (apply Hinj; [apply nth_error_Some; congruence|congruence]).
  lia.
Qed.

Lemma lz_NoDup_snoc {X} (l : list X) x : NoDup l -> ~ In x l -> NoDup (l ++ [x]).
Proof.
  induction l as [|y l IH]; intros Hnd Hx; cbn [app].
  - constructor; [intros []|constructor].
  - inversion Hnd as [|? ? Hy Hnd']; subst. constructor.
    + intros H. apply in_app_or in H. destruct H as [H|[H|[]]]; [contradiction|].
      subst. apply Hx. left. reflexivity.
    + apply IH; [exact Hnd'|]. intros H. apply Hx. right. exact H.
Qed.

Lemma lz_Forall2_nth {X Y} (R : X -> Y -> Prop) l1 l2 :
  Forall2 R l1 l2 -> forall n a b, nth_error l1 n = Some a -> nth_error l2 n = Some b -> R a b.
Proof.
  induction 1 as [|x y l1 l2 Hxy _ IH]; intros n a b Ha Hb.
  - destruct n; discriminate Ha.
  - destruct n as [|n]; cbn [nth_error] in Ha, Hb; [congruence|exact (IH n a b Ha Hb)].
Qed.

Lemma lz_Forall2_snoc {X Y} (R : X -> Y -> Prop) l1 l2 a b :
  Forall2 R l1 l2 -> R a b -> Forall2 R (l1 ++ [a]) (l2 ++ [b]).
Proof.
  induction 1 as [|x y l1 l2 Hxy _ IH]; intros Hab; cbn [app].
  - constructor; [exact Hab|constructor].
  - constructor; [exact Hxy|exact (IH Hab)].
Qed.

Lemma lz_nth_error_map_inv {X Y} (f : X -> Y) l n y :
  nth_error (map f l) n = Some y -> exists x, nth_error l n = Some x /\ f x = y.
Proof.
  rewrite nth_error_map. destruct (nth_error l n) as [x|]; cbn [option_map]; [|discriminate].
  intros E. exists x. split; [reflexivity|congruence].
Qed.

Definition lz_is_some {X} (o : option X) : bool := match o with Some _ => true | None => false end.

(* the per-thread tables are functions on thread numbers *)
Definition upd {X} (f : nat -> X) (t : nat) (x : X) : nat -> X :=
  fun u => if Nat.eqb u t then x else f u.

(* ================================================================================================ *)
(** * 1. Sequential runs of a state machine *)

Section SeqRun.
Context {X O R : Type} (f : X -> O -> X * R).

Fixpoint seq_run (x : X) (l : list O) : list R :=
  match l with
  | [] => []
  | o :: l' => snd (f x o) :: seq_run (fst (f x o)) l'
  end.
Definition seq_final (x : X) (l : list O) : X := fold_left (fun x o => fst (f x o)) l x.

Lemma seq_final_app x l1 l2 : seq_final x (l1 ++ l2) = seq_final (seq_final x l1) l2.
Proof. apply fold_left_app. Qed.

Lemma seq_run_app l1 : forall x l2, seq_run x (l1 ++ l2) = seq_run x l1 ++ seq_run (seq_final x l1) l2.
Proof.
  induction l1 as [|o l1 IH]; intros x l2; cbn [app seq_run]; [reflexivity|].
  rewrite IH. reflexivity.
Qed.

Lemma seq_run_nth l : forall x n o, nth_error l n = Some o ->
  nth_error (seq_run x l) n = Some (snd (f (seq_final x (firstn n l)) o)).
Proof.
  induction l as [|a l IH]; intros x n o Hn; [destruct n; discriminate Hn|].
  destruct n as [|n]; cbn [nth_error seq_run firstn] in *.
  - injection Hn as ->. reflexivity.
  - exact (IH _ n o Hn).
Qed.

Lemma seq_final_firstn_S l : forall x n o, nth_error l n = Some o ->
  seq_final x (firstn (S n) l) = fst (f (seq_final x (firstn n l)) o).
Proof.
  induction l as [|a l IH]; intros x n o Hn; [destruct n; discriminate Hn|].
  destruct n as [|n]; cbn [nth_error firstn] in *.
  - injection Hn as ->. reflexivity.
  - exact (IH _ n o Hn).
Qed.
End SeqRun.

(* ================================================================================================ *)
(** * 2. Executions of atomic actions, histories, linearizability *)

Definition opid := (nat * nat)%type.   (* (t, k): the k-th operation (from 0) of thread t *)

Section Generic.
Local Open Scope nat_scope.
Variables (St Op Res : Type).
Variable step : St -> Op -> St * Res.        (* the atomic action of an operation *)
Variable guard : St -> Op -> Prop.           (* side condition of an action (True if none) *)
Variable bg : St -> St -> Prop.              (* background actions that belong to no call *)

Inductive event :=
| ECall (t : nat) (o : Op)      (* thread t calls o *)
| EAct (t : nat)                (* the atomic action of t's pending operation happens *)
| ERet (t : nat) (r : Res)      (* t's operation returns r *)
| EBg.                          (* a background action *)

Inductive tstat := TIdle | TCalled (o : Op) | TActed (o : Op) (r : Res).
Record config := mkc { c_s : St; c_t : nat -> tstat }.
Definition init (s : St) : config := mkc s (fun _ => TIdle).

Inductive estep : config -> event -> config -> Prop :=
| es_call c t o : c_t c t = TIdle ->
    estep c (ECall t o) (mkc (c_s c) (upd (c_t c) t (TCalled o)))
| es_act c t o : c_t c t = TCalled o -> guard (c_s c) o ->
    estep c (EAct t) (mkc (fst (step (c_s c) o)) (upd (c_t c) t (TActed o (snd (step (c_s c) o)))))
| es_ret c t o r : c_t c t = TActed o r ->
    estep c (ERet t r) (mkc (c_s c) (upd (c_t c) t TIdle))
| es_bg c s' : bg (c_s c) s' ->
    estep c EBg (mkc s' (c_t c)).

(* [exec s0 es c]: from the shared state s0 with every thread idle, the events es (oldest first) lead
   to c.  Threads may be left pending (called, or acted but not returned). *)
Inductive exec (s0 : St) : list event -> config -> Prop :=
| exec_nil : exec s0 [] (init s0)
| exec_snoc es c e c' : exec s0 es c -> estep c e c' -> exec s0 (es ++ [e]) c'.

(* ---- the history of an execution: its Call and Ret events, labelled with operation ids ---------- *)
Inductive hev := HCall (i : opid) (o : Op) | HRet (i : opid) (r : Res).

Record view := mkv {
  v_n : nat -> nat;                   (* operations of the thread that have returned *)
  v_p : nat -> option Op;             (* the operation of the thread's last call *)
  v_hist : list hev;                  (* the history so far *)
  v_acts : list (opid * Op) }.        (* the operations whose action has happened, in that order *)
Definition view0 : view := mkv (fun _ => 0) (fun _ => None) [] [].
Definition vstep (v : view) (e : event) : view :=
  match e with
  | ECall t o => mkv (v_n v) (upd (v_p v) t (Some o)) (v_hist v ++ [HCall (t, v_n v t) o]) (v_acts v)
  | EAct t => match v_p v t with
              | Some o => mkv (v_n v) (v_p v) (v_hist v) (v_acts v ++ [((t, v_n v t), o)])
              | None => v
              end
  | ERet t r => mkv (upd (v_n v) t (S (v_n v t))) (upd (v_p v) t None)
                    (v_hist v ++ [HRet (t, v_n v t) r]) (v_acts v)
  | EBg => v
  end.
Definition view_of (es : list event) : view := fold_left vstep es view0.
Definition hist (es : list event) : list hev := v_hist (view_of es).
Definition act_ops (es : list event) : list (opid * Op) := v_acts (view_of es).

Lemma view_of_snoc es e : view_of (es ++ [e]) = vstep (view_of es) e.
Proof. unfold view_of. rewrite fold_left_app. reflexivity. Qed.

(* ---- linearizability of a history w.r.t. a sequential specification ----------------------------- *)
Definition lentry := (opid * Op * Res)%type.   (* an operation of the history with a result *)
Definition lid (x : lentry) : opid := fst (fst x).
Definition lop (x : lentry) : Op := snd (fst x).
Definition lres (x : lentry) : Res := snd x.

Definition calls_unique (h : list hev) : Prop :=
  forall i o o', In (HCall i o) h -> In (HCall i o') h -> o = o'.
Definition hist_wf (h : list hev) : Prop :=
  calls_unique h /\ (forall i r, In (HRet i r) h -> exists o, before h (HCall i o) (HRet i r)).

Section Lin.
Variables (A Res' : Type).
Variable astep : A -> Op -> A * Res'.        (* the sequential specification *)
Variable req : Res -> Res' -> Prop.          (* observed result vs. result of the specification *)

Record linearization (a0 : A) (h : list hev) (lin : list lentry) : Prop := mk_lin {
  (* a sequence of distinct operations of the history, with the arguments they were called with *)
  lin_nodup : NoDup (map lid lin);
  lin_called : forall i o r, In (i, o, r) lin -> In (HCall i o) h;
  (* every completed operation is in the sequence, paired with the result it returned *)
  lin_complete : forall i r, In (HRet i r) h -> exists o, In (i, o, r) lin;
  (* (a) the sequential run of the specification from a0 yields those results *)
  lin_legal : Forall2 req (map lres lin) (seq_run astep a0 (map lop lin));
  (* (b) real-time order: an operation that returned before another one was called precedes it *)
  lin_order : forall i r j o, before h (HRet i r) (HCall j o) -> In j (map lid lin) ->
              before (map lid lin) i j }.
Definition linearizable (a0 : A) (h : list hev) : Prop := exists lin, linearization a0 h lin.

(* only clause (a) mentions the specification *)
Lemma linearization_legal a0 h lin :
  NoDup (map lid lin) -> (forall i o r, In (i, o, r) lin -> In (HCall i o) h) ->
  (forall i r, In (HRet i r) h -> exists o, In (i, o, r) lin) ->
  (forall i r j o, before h (HRet i r) (HCall j o) -> In j (map lid lin) -> before (map lid lin) i j) ->
  Forall2 req (map lres lin) (seq_run astep a0 (map lop lin)) -> linearization a0 h lin.
Proof. intros. constructor; assumption. Qed.

(* ---- the theorem, with a simulation towards the specification ----------------------------------- *)
Variable sim : St -> A -> Prop.
Hypothesis step_sim : forall s a o, sim s a -> guard s o ->
  sim (fst (step s o)) (fst (astep a o)) /\ req (snd (step s o)) (snd (astep a o)).
Hypothesis bg_sim : forall s s' a, sim s a -> bg s s' -> sim s' a.

Record Jinv (a0 : A) (v : view) (c : config) (lin : list lentry) : Prop := mk_J {
  J_acts : map fst lin = v_acts v;
  J_legal : Forall2 req (map lres lin) (seq_run astep a0 (map lop lin));
  J_sim : sim (c_s c) (seq_final astep a0 (map lop lin));
  J_thr : forall t, match c_t c t with
                    | TIdle => True
                    | TCalled o => v_p v t = Some o /\ In (HCall (t, v_n v t) o) (v_hist v)
                    | TActed o r => In ((t, v_n v t), o, r) lin
                    end;
  J_ids : forall t k, In (t, k) (map lid lin) ->
          k < v_n v t \/ (k = v_n v t /\ exists o r, c_t c t = TActed o r);
  J_nodup : NoDup (map lid lin);
  J_called : forall i o r, In (i, o, r) lin -> In (HCall i o) (v_hist v);
  J_complete : forall i r, In (HRet i r) (v_hist v) -> exists o, In (i, o, r) lin;
  J_order : forall i r j o, before (v_hist v) (HRet i r) (HCall j o) -> In j (map lid lin) ->
            before (map lid lin) i j }.

Lemma J_init s0 a0 : sim s0 a0 -> Jinv a0 view0 (init s0) [].
Proof.
  intros H0. constructor; cbn [view0 init v_n v_p v_hist v_acts c_s c_t map seq_run seq_final fold_left].
  - reflexivity.
  - constructor.
  - exact H0.
  - intros t. exact I.
  - intros t k [].
  - constructor.
  - intros i o r [].
  - intros i r [].
  - intros i r j o _ [].
Qed.

Lemma J_call a0 v c lin t o :
  Jinv a0 v c lin -> c_t c t = TIdle ->
  Jinv a0 (vstep v (ECall t o)) (mkc (c_s c) (upd (c_t c) t (TCalled o))) lin.
Proof.
  intros [J1 J2 J3 J4 J5 J6 J7 J8 J9] Ht.
  constructor; cbn [vstep v_n v_p v_hist v_acts c_s c_t].
  - exact J1.
  - exact J2.
  - exact J3.
  - intros u. unfold upd. destruct (Nat.eqb_spec u t) as [->|Hne].
    + split; [reflexivity|]. apply in_or_app. right. left. reflexivity.
    + specialize (J4 u). destruct (c_t c u) as [|o'|o' r']; [exact I| |exact J4].
      destruct J4 as [A1 A2]. split; [exact A1|apply in_or_app; left; exact A2].
  - intros u k Hin. unfold upd. destruct (J5 u k Hin) as [Hlt|[Hk (o' & r' & Hu)]]; [left; exact Hlt|].
    destruct (Nat.eqb_spec u t) as [->|Hne]; [congruence|].
    right. split; [exact Hk|]. exists o', r'. exact Hu.
  - exact J6.
  - intros i o' r Hin. apply in_or_app. left. exact (J7 i o' r Hin).
  - intros i r Hin. apply in_app_or in Hin. destruct Hin as [Hin|[Hin|[]]]; [exact (J8 i r Hin)|discriminate Hin].
  - intros i r j o' Hb Hin. apply before_snoc_inv in Hb. destruct Hb as [Hb|[_ Hb]]; [exact (J9 i r j o' Hb Hin)|].
    injection Hb as -> _. exfalso.
    destruct (J5 t (v_n v t) Hin) as [Hlt|[_ (o2 & r2 & Hu)]]; [lia|congruence].
Qed.

Lemma J_act a0 v c lin t o :
  Jinv a0 v c lin -> c_t c t = TCalled o -> guard (c_s c) o ->
  Jinv a0 (vstep v (EAct t))
       (mkc (fst (step (c_s c) o)) (upd (c_t c) t (TActed o (snd (step (c_s c) o)))))
       (lin ++ [((t, v_n v t), o, snd (step (c_s c) o))]).
Proof.
  intros [J1 J2 J3 J4 J5 J6 J7 J8 J9] Ht Hg.
  pose proof (J4 t) as Hpt. rewrite Ht in Hpt. destruct Hpt as [Hp Hcall].
  assert (Hfresh : ~ In (t, v_n v t) (map lid lin)).
  { intros Hin. destruct (J5 t (v_n v t) Hin) as [Hlt|[_ (o2 & r2 & Hu)]]; [lia|congruence]. }
  destruct (step_sim (c_s c) _ o J3 Hg) as [Hsim Hreq].
  unfold vstep. rewrite Hp.
  constructor; cbn [v_n v_p v_hist v_acts c_s c_t]; rewrite ?map_app; cbn [map].
  - apply f_equal2; [exact J1|reflexivity].
  - rewrite seq_run_app. cbn [seq_run]. apply lz_Forall2_snoc; [exact J2|exact Hreq].
  - rewrite seq_final_app. exact Hsim.
  - intros u. unfold upd. destruct (Nat.eqb_spec u t) as [->|Hne].
    + apply in_or_app. right. left. reflexivity.
    + specialize (J4 u). destruct (c_t c u) as [|o'|o' r']; [exact I|exact J4|].
      apply in_or_app. left. exact J4.
  - intros u k Hin. unfold upd. apply in_app_or in Hin. destruct Hin as [Hin|[Hin|[]]].
    + destruct (J5 u k Hin) as [Hlt|[Hk (o' & r' & Hu)]]; [left; exact Hlt|].
      destruct (Nat.eqb_spec u t) as [->|Hne]; [congruence|].
      right. split; [exact Hk|]. exists o', r'. exact Hu.
    + unfold lid in Hin. cbn [fst] in Hin. injection Hin as <- <-. right. split; [reflexivity|].
      rewrite Nat.eqb_refl. eexists _, _. reflexivity.
  - apply lz_NoDup_snoc; [exact J6|exact Hfresh].
  - intros i o' r Hin. apply in_app_or in Hin. destruct Hin as [Hin|[Hin|[]]]; [exact (J7 i o' r Hin)|].
    injection Hin as <- <- _. exact Hcall.
  - intros i r Hin. destruct (J8 i r Hin) as [o' Ho']. exists o'. apply in_or_app. left. exact Ho'.
  - intros i r j o' Hb Hin. apply in_app_or in Hin. destruct Hin as [Hin|[Hin|[]]].
    + apply before_app_l. exact (J9 i r j o' Hb Hin).
    + unfold lid in Hin. cbn [fst] in Hin. subst j. apply before_snoc_in.
      destruct (J8 i r (before_in_l _ _ _ Hb)) as [o2 Ho2].
      exact (in_map lid _ _ Ho2).
Qed.

Lemma J_ret a0 v c lin t o r :
  Jinv a0 v c lin -> c_t c t = TActed o r ->
  Jinv a0 (vstep v (ERet t r)) (mkc (c_s c) (upd (c_t c) t TIdle)) lin.
Proof.
  intros [J1 J2 J3 J4 J5 J6 J7 J8 J9] Ht.
  pose proof (J4 t) as Hpt. rewrite Ht in Hpt.
  constructor; cbn [vstep v_n v_p v_hist v_acts c_s c_t].
  - exact J1.
  - exact J2.
  - exact J3.
  - intros u. unfold upd. destruct (Nat.eqb_spec u t) as [->|Hne]; [exact I|].
    specialize (J4 u). destruct (c_t c u) as [|o'|o' r']; [exact I| |exact J4].
    destruct J4 as [A1 A2]. split; [exact A1|apply in_or_app; left; exact A2].
  - intros u k Hin. unfold upd. destruct (Nat.eqb_spec u t) as [->|Hne].
    + left. destruct (J5 t k Hin) as [Hlt|[Hk _]]; lia.
    + exact (J5 u k Hin).
  - exact J6.
  - intros i o' r' Hin. apply in_or_app. left. exact (J7 i o' r' Hin).
  - intros i r' Hin. apply in_app_or in Hin. destruct Hin as [Hin|[Hin|[]]]; [exact (J8 i r' Hin)|].
    injection Hin as <- <-. exists o. exact Hpt.
  - intros i r' j o' Hb Hin. apply before_snoc_inv in Hb.
    destruct Hb as [Hb|[_ Hb]]; [exact (J9 i r' j o' Hb Hin)|discriminate Hb].
Qed.

Lemma J_bg a0 v c lin s' :
  Jinv a0 v c lin -> bg (c_s c) s' -> Jinv a0 (vstep v EBg) (mkc s' (c_t c)) lin.
Proof.
  intros [J1 J2 J3 J4 J5 J6 J7 J8 J9] Hb.
  constructor; cbn [vstep c_s c_t]; try assumption. exact (bg_sim _ _ _ J3 Hb).
Qed.

Lemma exec_Jinv s0 a0 : sim s0 a0 -> forall es c, exec s0 es c -> exists lin, Jinv a0 (view_of es) c lin.
Proof.
  intros H0 es c Hx. induction Hx as [|es c e c' Hx IH Hs].
  - exists []. apply J_init. exact H0.
  - destruct IH as [lin J]. rewrite view_of_snoc.
    inversion Hs as [c1 t o Ht|c1 t o Ht Hg|c1 t o r Ht|c1 s' Hb]; subst.
    + exists lin. apply J_call; assumption.
    + eexists. apply J_act; eassumption.
    + exists lin. eapply J_ret; eassumption.
    + exists lin. apply J_bg; assumption.
Qed.

(* Executions of atomic actions are linearizable: the operations whose action has happened, in the
   order of their actions, each with the result of its action.  With a simulation towards a
   specification; background actions are invisible if they preserve the simulation. *)
Theorem atomic_actions_linearizable_sim s0 a0 es c :
  sim s0 a0 -> exec s0 es c ->
  exists lin, linearization a0 (hist es) lin /\ map fst lin = act_ops es /\
              sim (c_s c) (seq_final astep a0 (map lop lin)).
Proof.
  intros H0 Hx. destruct (exec_Jinv s0 a0 H0 es c Hx) as [lin [J1 J2 J3 J4 J5 J6 J7 J8 J9]].
  exists lin. split; [|split; [exact J1|exact J3]]. constructor; assumption.
Qed.
End Lin.

(* ---- histories of executions are well formed ----------------------------------------------------- *)
Record Kinv (v : view) (c : config) : Prop := mk_K {
  K_ids : forall t k o, In (HCall (t, k) o) (v_hist v) ->
          k < v_n v t \/ (k = v_n v t /\ c_t c t <> TIdle);
  K_cur : forall t, c_t c t <> TIdle -> exists o, In (HCall (t, v_n v t) o) (v_hist v);
  K_uniq : calls_unique (v_hist v);
  K_ret : forall i r, In (HRet i r) (v_hist v) -> exists o, before (v_hist v) (HCall i o) (HRet i r) }.

Lemma exec_Kinv s0 es c : exec s0 es c -> Kinv (view_of es) c.
Proof.
  intros Hx. induction Hx as [|es c e c' Hx IH Hs].
  - constructor; cbn [view_of fold_left view0 v_hist v_n init c_t].
    + intros t k o [].
    + intros t H. congruence.
    + intros i o o' [].
    + intros i r [].
  - rewrite view_of_snoc. set (v := view_of es) in *. destruct IH as [K1 K2 K3 K4].
    inversion Hs as [c1 t o Ht|c1 t o Ht Hg|c1 t o r Ht|c1 s' Hb]; subst.
    + (* Call *)
      constructor; cbn [vstep v_n v_p v_hist v_acts c_s c_t].
      * intros u k o' Hin. unfold upd. apply in_app_or in Hin. destruct Hin as [Hin|[Hin|[]]].
        -- destruct (K1 u k o' Hin) as [Hlt|[Hk Hu]]; [left; exact Hlt|].
           destruct (Nat.eqb_spec u t) as [->|Hne]; [congruence|]. right. split; assumption.
        -- injection Hin as <- <- _. right. split; [reflexivity|]. rewrite Nat.eqb_refl. discriminate.
      * intros u. unfold upd. destruct (Nat.eqb_spec u t) as [->|Hne]; intros Hu.
        -- exists o. apply in_or_app. right. left. reflexivity.
        -- destruct (K2 u Hu) as [o' Ho']. exists o'. apply in_or_app. left. exact Ho'.
      * intros i o1 o2 H1 H2. apply in_app_or in H1. apply in_app_or in H2.
        destruct H1 as [H1|[H1|[]]]; destruct H2 as [H2|[H2|[]]].
        -- exact (K3 i o1 o2 H1 H2).
        -- injection H2 as <- <-. exfalso. destruct (K1 t _ o1 H1) as [Hlt|[_ Hu]]; [lia|congruence].
        -- injection H1 as <- <-. exfalso. destruct (K1 t _ o2 H2) as [Hlt|[_ Hu]]; [lia|congruence].
        -- congruence.
      * intros i r Hin. apply in_app_or in Hin. destruct Hin as [Hin|[Hin|[]]]; [|discriminate Hin].
        destruct (K4 i r Hin) as [o' Ho']. exists o'. apply before_app_l. exact Ho'.
    + (* Act *)
      assert (Hv : v_hist (vstep v (EAct t)) = v_hist v /\ v_n (vstep v (EAct t)) = v_n v).
      { unfold vstep. destruct (v_p v t); split; reflexivity. }
      destruct Hv as [Eh En]. constructor; rewrite ?Eh, ?En; cbn [c_s c_t].
      * intros u k o' Hin. unfold upd. destruct (K1 u k o' Hin) as [Hlt|[Hk Hu]]; [left; exact Hlt|].
        right. split; [exact Hk|]. destruct (Nat.eqb_spec u t) as [->|Hne]; [discriminate|exact Hu].
      * intros u. unfold upd. destruct (Nat.eqb_spec u t) as [->|Hne]; intros Hu.
        -- apply K2. congruence.
        -- exact (K2 u Hu).
      * exact K3.
      * exact K4.
    + (* Ret *)
      constructor; cbn [vstep v_n v_p v_hist v_acts c_s c_t].
      * intros u k o' Hin. unfold upd. apply in_app_or in Hin. destruct Hin as [Hin|[Hin|[]]]; [|discriminate Hin].
        destruct (Nat.eqb_spec u t) as [->|Hne].
        -- left. destruct (K1 t k o' Hin) as [Hlt|[Hk _]]; lia.
        -- exact (K1 u k o' Hin).
      * intros u. unfold upd. destruct (Nat.eqb_spec u t) as [->|Hne]; intros Hu; [congruence|].
        destruct (K2 u Hu) as [o' Ho']. exists o'. apply in_or_app. left. exact Ho'.
      * intros i o1 o2 H1 H2. apply in_app_or in H1. apply in_app_or in H2.
        destruct H1 as [H1|[H1|[]]]; [|discriminate H1]. destruct H2 as [H2|[H2|[]]]; [|discriminate H2].
        exact (K3 i o1 o2 H1 H2).
      * intros i r' Hin. apply in_app_or in Hin. destruct Hin as [Hin|[Hin|[]]].
        -- destruct (K4 i r' Hin) as [o' Ho']. exists o'. apply before_app_l. exact Ho'.
        -- injection Hin as <- <-. destruct (K2 t) as [o' Ho']; [congruence|].
           exists o'. apply before_snoc_in. exact Ho'.
    + (* Bg *)
      constructor; cbn [vstep c_s c_t]; assumption.
Qed.

Theorem exec_hist_wf s0 es c : exec s0 es c -> hist_wf (hist es).
Proof. intros Hx. destruct (exec_Kinv s0 es c Hx) as [_ _ K3 K4]. split; [exact K3|exact K4]. Qed.

(* ---- an executable check that an event list is an execution ------------------------------------- *)
Variable guardb : St -> Op -> bool.
Variable bgf : St -> option St.
Variable res_eq_dec : forall a b : Res, {a = b} + {a <> b}.
Hypothesis guardb_ok : forall s o, guardb s o = true -> guard s o.
Hypothesis bgf_ok : forall s s', bgf s = Some s' -> bg s s'.

Definition estep_fn (c : config) (e : event) : option config :=
  match e with
  | ECall t o => match c_t c t with
                 | TIdle => Some (mkc (c_s c) (upd (c_t c) t (TCalled o)))
                 | _ => None
                 end
  | EAct t => match c_t c t with
              | TCalled o =>
                if guardb (c_s c) o
                then Some (mkc (fst (step (c_s c) o)) (upd (c_t c) t (TActed o (snd (step (c_s c) o)))))
                else None
              | _ => None
              end
  | ERet t r => match c_t c t with
                | TActed o r' => if res_eq_dec r r' then Some (mkc (c_s c) (upd (c_t c) t TIdle)) else None
                | _ => None
                end
  | EBg => match bgf (c_s c) with Some s' => Some (mkc s' (c_t c)) | None => None end
  end.
Fixpoint exec_fn (c : config) (es : list event) : option config :=
  match es with
  | [] => Some c
  | e :: es' => match estep_fn c e with Some c' => exec_fn c' es' | None => None end
  end.

Lemma estep_fn_sound c e c' : estep_fn c e = Some c' -> estep c e c'.
Proof.
  destruct e as [t o|t|t r|]; cbn [estep_fn].
  - destruct (c_t c t) eqn:Et; try discriminate. intros E. injection E as <-. apply es_call. exact Et.
  - destruct (c_t c t) as [|o|o r] eqn:Et; try discriminate.
    destruct (guardb (c_s c) o) eqn:Eg; [|discriminate]. intros E. injection E as <-.
    apply es_act; [exact Et|apply guardb_ok; exact Eg].
  - destruct (c_t c t) as [|o|o r'] eqn:Et; try discriminate.
    destruct (res_eq_dec r r') as [->|_]; [|discriminate]. intros E. injection E as <-.
    apply (es_ret c t o r'). exact Et.
  - destruct (bgf (c_s c)) as [s'|] eqn:Eb; [|discriminate]. intros E. injection E as <-.
    apply es_bg. apply bgf_ok. exact Eb.
Qed.

Lemma exec_fn_sound_gen s0 es' : forall es c c',
  exec s0 es c -> exec_fn c es' = Some c' -> exec s0 (es ++ es') c'.
Proof.
  induction es' as [|e es' IH]; intros es c c' Hx E; cbn [exec_fn] in E.
  - injection E as <-. rewrite app_nil_r. exact Hx.
  - destruct (estep_fn c e) as [c1|] eqn:E1; [|discriminate].
    replace (es ++ e :: es') with ((es ++ [e]) ++ es') by (rewrite <- app_assoc; reflexivity).
    apply (IH _ c1); [|exact E].
    apply (exec_snoc s0 es c e c1 Hx). apply estep_fn_sound. exact E1.
Qed.

Lemma exec_fn_sound s0 es : lz_is_some (exec_fn (init s0) es) = true -> exists c, exec s0 es c.
Proof.
  destruct (exec_fn (init s0) es) as [c|] eqn:E; [|discriminate]. intros _. exists c.
  exact (exec_fn_sound_gen s0 es [] (init s0) c (exec_nil s0) E).
Qed.
End Generic.

Arguments ECall {Op Res} t o.
Arguments EAct {Op Res} t.
Arguments ERet {Op Res} t r.
Arguments EBg {Op Res}.
Arguments HCall {Op Res} i o.
Arguments HRet {Op Res} i r.
Arguments TIdle {Op Res}.
Arguments TCalled {Op Res} o.
Arguments TActed {Op Res} o r.
Arguments mkc {St Op Res} c_s c_t.
Arguments c_s {St Op Res} c.
Arguments c_t {St Op Res} c _.
Arguments init {St Op Res} s.
Arguments estep {St Op Res} step guard bg _ _ _.
Arguments exec {St Op Res} step guard bg s0 _ _.
Arguments hist {Op Res} es.
Arguments act_ops {Op Res} es.
Arguments view_of {Op Res} es.
Arguments lid {Op Res} x.
Arguments lop {Op Res} x.
Arguments lres {Op Res} x.
Arguments calls_unique {Op Res} h.
Arguments hist_wf {Op Res} h.
Arguments linearization {Op Res A Res'} astep req a0 h lin.
Arguments linearizable {Op Res A Res'} astep req a0 h.
Arguments exec_fn {St Op Res} step guardb bgf res_eq_dec c es.

(* no side condition, no background action *)
Definition no_guard {St Op : Type} : St -> Op -> Prop := fun _ _ => True.
Definition no_bg {St : Type} : St -> St -> Prop := fun _ _ => False.

(* the witness: the operations in the order of their actions, each with the result of the sequential
   run up to it *)
Fixpoint lin_from {St Op Res} (step : St -> Op -> St * Res) (s : St) (l : list (opid * Op)) :
    list (opid * Op * Res) :=
  match l with
  | [] => []
  | x :: l' => (x, snd (step s (snd x))) :: lin_from step (fst (step s (snd x))) l'
  end.
Definition lin_of {St Op Res} (step : St -> Op -> St * Res) (s0 : St) (es : list (event Op Res)) :
    list (opid * Op * Res) := lin_from step s0 (act_ops es).

Lemma lin_from_fst {St Op Res} (step : St -> Op -> St * Res) l : forall s, map fst (lin_from step s l) = l.
Proof. induction l as [|x l IH]; intros s; cbn [lin_from map fst]; [reflexivity|]. rewrite IH. reflexivity. Qed.

Lemma lin_from_lop {St Op Res} (step : St -> Op -> St * Res) l : forall s,
  map lop (lin_from step s l) = map snd l.
Proof.
  induction l as [|x l IH]; intros s; cbn [lin_from map]; [reflexivity|]. rewrite IH. reflexivity.
Qed.

Lemma lin_from_lres {St Op Res} (step : St -> Op -> St * Res) l : forall s,
  map lres (lin_from step s l) = seq_run step s (map snd l).
Proof.
  induction l as [|x l IH]; intros s; cbn [lin_from map seq_run]; [reflexivity|]. rewrite IH. reflexivity.
Qed.

Lemma lin_from_unique {St Op Res} (step : St -> Op -> St * Res) (lin : list (opid * Op * Res)) : forall s,
  Forall2 eq (map lres lin) (seq_run step s (map lop lin)) -> lin = lin_from step s (map fst lin).
Proof.
  induction lin as [|[[i o] r] lin IH]; intros s H; cbn [map lin_from]; [reflexivity|].
  cbn [map seq_run] in H. inversion H as [|? ? ? ? Hr Ht]; subst.
  unfold lres, lop in Hr. cbn [fst snd] in Hr. cbn [fst snd]. rewrite <- Hr. f_equal.
  apply IH. exact Ht.
Qed.

(* the clause (a) of a linearization can be restated against another specification *)
Lemma linearization_change_spec {Op Res A1 R1 A2 R2}
    (astep1 : A1 -> Op -> A1 * R1) (req1 : Res -> R1 -> Prop) (a1 : A1)
    (astep2 : A2 -> Op -> A2 * R2) (req2 : Res -> R2 -> Prop) (a2 : A2) (h : list (hev Op Res)) lin :
  linearization astep1 req1 a1 h lin ->
  Forall2 req2 (map lres lin) (seq_run astep2 a2 (map lop lin)) ->
  linearization astep2 req2 a2 h lin.
Proof. intros [L1 L2 L3 _ L5] H. constructor; assumption. Qed.

(* a completed operation is paired with the result it returned *)
Lemma lin_result_of_completed {Op Res A R'} (astep : A -> Op -> A * R') (req : Res -> R' -> Prop) a0
    (h : list (hev Op Res)) lin :
  linearization astep req a0 h lin ->
  forall i o r' r, In (i, o, r') lin -> In (HRet i r) h -> r' = r.
Proof.
  intros [L1 _ L3 _ _] i o r' r Hin Hret. destruct (L3 i r Hret) as [o2 Hin2].
  assert (E : (i, o, r') = (i, o2, r)) by (apply (NoDup_map_inj lid lin); [exact L1|exact Hin|exact Hin2|reflexivity]).
  congruence.
Qed.

(* THE GENERIC THEOREM.  Every execution of the atomic-action semantics (no side condition, no
   background action) is linearizable w.r.t. its own step function with EQUAL results; the witness is
   the order of the Act events; the final shared state is the one of the sequential run. *)
Theorem atomic_actions_linearizable {St Op Res} (step : St -> Op -> St * Res) s0 es c :
  exec step no_guard no_bg s0 es c ->
  linearization step eq s0 (hist es) (lin_of step s0 es) /\
  c_s c = seq_final step s0 (map snd (act_ops es)).
Proof.
  intros Hx.
  destruct (atomic_actions_linearizable_sim St Op Res step no_guard no_bg St Res step eq eq) with
    (s0 := s0) (a0 := s0) (es := es) (c := c) as (lin & L & Ea & Es).
  - intros s a o -> _. split; reflexivity.
  - intros s s' a _ [].
  - reflexivity.
  - exact Hx.
  - assert (El : lin = lin_of step s0 es).
    { unfold lin_of. rewrite <- Ea. apply lin_from_unique. destruct L as [_ _ _ L4 _]. exact L4. }
    subst lin. split; [exact L|]. rewrite Es. unfold lin_of. rewrite lin_from_lop. reflexivity.
Qed.

(* ================================================================================================ *)
(** * 3. pogreb: every operation (Compact as a whole) is one atomic action on the chain-index database *)

Local Notation stp := (@DB.st pindex).
Local Notation stf := (@DB.st flat).

Lemma seq_run_run' {X} (f : X -> op' -> X * out) l : forall s, seq_run f s l = run' f s l.
Proof.
  induction l as [|o l IH]; intros s; cbn [seq_run run']; [reflexivity|].
  rewrite IH. destruct (f s o) as [s' r]. reflexivity.
Qed.

Lemma seq_final_final' {X} (f : X -> op' -> X * out) s l : seq_final f s l = final' f s l.
Proof. reflexivity. Qed.

(* C07.  Threads call Put, Delete, Get, GetAppend, Has, Count, Items, Sync and Compact on the database
   with the real bucket-chain index; each call takes effect in ONE atomic action between its call and
   its return.  Under the side conditions of the run theorem (on the operations in the order of their
   actions), the history is linearizable w.r.t. the PLAIN MAP [step_spec'], the observed results being
   those of the map up to [out_equiv'] (EQUAL for Put, Delete, Get, GetAppend, Has, Count, Sync; Items up
   to a permutation; the three numbers of a CompactionResult are not compared) -- and w.r.t. the
   flat-index database up to [out_equiv] (Items up to a permutation, everything else EQUAL).  The
   witness is the order of the actions. *)
Theorem C07_linearizable P (sp : stp) (sf : stf) (es : list (event op' out)) c :
  params_ok P -> st_rel sp sf -> Inv P sf -> MetaOK sf ->
  exec (step_chain' P) no_guard no_bg sp es c ->
  Forall op_valid' (map snd (act_ops es)) -> rooms' P sf (map snd (act_ops es)) ->
  linearization step_spec' out_equiv' (abs (s_disk sf)) (hist es) (lin_of (step_chain' P) sp es) /\
  linearization (step_flat' P) out_equiv sf (hist es) (lin_of (step_chain' P) sp es) /\
  hist_wf (hist es) /\
  let sf' := seq_final (step_flat' P) sf (map snd (act_ops es)) in
  st_rel (c_s c) sf' /\ Inv P sf' /\ MetaOK sf' /\
  meq (abs (s_disk sf')) (seq_final step_spec' (abs (s_disk sf)) (map snd (act_ops es))).
Proof.
  intros HP Hs HI HM Hx Hv Hr.
  destruct (atomic_actions_linearizable (step_chain' P) sp es c Hx) as [L Ec].
  pose proof (C01_chain_refines_map_with_compact P sp sf _ HP Hs HI HM Hv Hr) as H. cbv zeta in H.
  destruct H as (A1 & A2 & A3 & A4 & A5 & A6).
  split; [|split; [|split]].
  - apply (linearization_change_spec _ _ _ _ _ _ _ _ L). unfold lin_of.
    rewrite lin_from_lres, lin_from_lop, !seq_run_run'. exact A1.
  - apply (linearization_change_spec _ _ _ _ _ _ _ _ L). unfold lin_of.
    rewrite lin_from_lres, lin_from_lop, !seq_run_run'. exact A2.
  - exact (exec_hist_wf _ _ _ _ _ _ _ _ _ Hx).
  - cbv zeta. rewrite Ec, !seq_final_final'. exact (conj A3 (conj A4 (conj A5 A6))).
Qed.

(* from Open on an empty directory: no hypothesis on the states is left *)
Corollary C07_linearizable_from_empty P seed (es : list (event op' out)) c :
  params_ok P ->
  exec (step_chain' P) no_guard no_bg (fst (db_open chain_ops P seed st0)) es c ->
  Forall op_valid' (map snd (act_ops es)) -> rooms' P (flat_init seed) (map snd (act_ops es)) ->
  linearization step_spec' out_equiv' [] (hist es)
                (lin_of (step_chain' P) (fst (db_open chain_ops P seed st0)) es).
Proof.
  intros HP Hx Hv Hr. pose proof (init_rel P seed) as H. rewrite flat_open_fresh in H.
  destruct (db_open chain_ops P seed st0) as [sp o]. destruct H as (_ & _ & Hs & HI & _ & Ea).
  cbn [fst] in *. rewrite <- Ea.
  exact (proj1 (C07_linearizable P sp _ es c HP Hs HI (flat_init_MetaOK seed) Hx Hv Hr)).
Qed.

(* ---- what a user gets from the definition: read your writes ------------------------------------- *)
Definition writes_key (k : key) (o : op') : Prop :=
  match o with
  | OpBase (OpPut k' _) => k' = k
  | OpBase (OpDelete k') => k' = k
  | _ => False
  end.

Lemma writes_key_dec k o : writes_key k o \/ ~ writes_key k o.
Proof.
  destruct o as [[k' v|k'|k'|k' b|k'| | |]|]; cbn [writes_key]; try (right; exact (fun H => H)).
  - destruct (list_eq_dec N.eq_dec k' k); [left|right]; assumption.
  - destruct (list_eq_dec N.eq_dec k' k); [left|right]; assumption.
Qed.

Lemma spec_keeps_key m o k : ~ writes_key k o -> sget (fst (step_spec' m o)) k = sget m k.
Proof.
  destruct o as [[k' v|k'|k'|k' b|k'| | |]|]; cbn [writes_key step_spec' step_spec fst]; intros H;
    try reflexivity.
  - rewrite sget_sput. destruct (key_eqb k k') eqn:E; [|reflexivity].
    apply key_eqb_eq in E. exfalso. apply H. congruence.
  - rewrite sget_sdel. destruct (key_eqb k k') eqn:E; [|reflexivity].
    apply key_eqb_eq in E. exfalso. apply H. congruence.
Qed.

(* In ANY linearizable history of the map: if Put(k,v) returned before Get(k) was called, and every
   other Put/Delete on k returned before that Put was called or was called after that Get returned,
   then the result of the Get is (related by [req] to) v. *)
Theorem read_your_writes (req : out -> out -> Prop) (a0 : smap) (h : list (hev op' out)) lin
    (ip ig : opid) (k : key) (v : val) (rp r : out) :
  linearization step_spec' req a0 h lin -> calls_unique h ->
  In (HCall ip (OpBase (OpPut k v))) h ->
  before h (HRet ip rp) (HCall ig (OpBase (OpGet k))) ->
  In (HRet ig r) h ->
  (forall j o, In (HCall j o) h -> j <> ip -> writes_key k o ->
     (exists r', before h (HRet j r') (HCall ip (OpBase (OpPut k v)))) \/
     before h (HRet ig r) (HCall j o)) ->
  req r (OVal (Some v)).
Proof.
  intros [L1 L2 L3 L4 L5] HU HcP Hbef HrG Hothers.
  pose proof (before_in_r _ _ _ Hbef) as HcG.
  (* the Get is in the sequence, after the Put *)
  destruct (L3 ig r HrG) as [oG HinG].
  assert (EoG : oG = OpBase (OpGet k)) by (apply (HU ig); [exact (L2 _ _ _ HinG)|exact HcG]). subst oG.
  assert (HigIn : In ig (map lid lin)) by exact (in_map lid _ _ HinG).
  destruct (L5 ip rp ig _ Hbef HigIn) as (i & j & Hij & Hi & Hj).
  assert (HipIn : In ip (map lid lin)) by exact (nth_error_In _ _ Hi).
  destruct (lz_nth_error_map_inv lid lin i ip Hi) as ([[ip' oP] rP] & HeP & EP).
  unfold lid in EP. cbn [fst] in EP. subst ip'.
  assert (EoP : oP = OpBase (OpPut k v)).
  { apply (HU ip); [exact (L2 _ _ _ (nth_error_In _ _ HeP))|exact HcP]. }
  subst oP.
  destruct (lz_nth_error_map_inv lid lin j ig Hj) as (eG & HeG & EG).
  assert (EeG : eG = (ig, OpBase (OpGet k), r)).
  { apply (NoDup_map_inj lid lin); [exact L1|exact (nth_error_In _ _ HeG)|exact HinG|exact EG]. }
  subst eG.
  set (ops := map lop lin) in *.
  assert (HopP : nth_error ops i = Some (OpBase (OpPut k v))).
  { unfold ops. rewrite nth_error_map, HeP. reflexivity. }
  assert (HopG : nth_error ops j = Some (OpBase (OpGet k))).
  { unfold ops. rewrite nth_error_map, HeG. reflexivity. }
  (* from the Put up to the Get the specification map holds v at k *)
  assert (Hst : forall d, (S i + d <= j)%nat -> sget (seq_final step_spec' a0 (firstn (S i + d) ops)) k = Some v).
  { induction d as [|d IH]; intros Hd.
    - rewrite Nat.add_0_r, (seq_final_firstn_S step_spec' ops a0 i _ HopP).
      cbn [step_spec' step_spec fst]. rewrite sget_sput, key_eqb_refl. reflexivity.
    - assert (Hn : (S i + d < length lin)%nat).
      { assert (j < length lin)%nat by (apply nth_error_Some; congruence). lia. }
      destruct (nth_error lin (S i + d)) as [[[jn on] rn]|] eqn:En; [|apply nth_error_None in En; lia].
      assert (Hon : nth_error ops (S i + d) = Some on).
      { unfold ops. rewrite nth_error_map, En. reflexivity. }
      replace (S i + S d)%nat with (S (S i + d)) by lia.
      rewrite (seq_final_firstn_S step_spec' ops a0 _ _ Hon).
      assert (Hjn : nth_error (map lid lin) (S i + d) = Some jn).
      { rewrite nth_error_map, En. reflexivity. }
      assert (HjnIn : In jn (map lid lin)) by exact (nth_error_In _ _ Hjn).
      assert (Hb1 : before (map lid lin) ip jn) by (exists i, (S i + d)%nat; split; [lia|split; assumption]).
      assert (Hb2 : before (map lid lin) jn ig) by (exists (S i + d)%nat, j; split; [lia|split; assumption]).
      rewrite spec_keeps_key; [apply IH; lia|].
      intros Hw.
      assert (Hne : jn <> ip).
      { intros ->. pose proof (proj1 (NoDup_nth_error _) L1 i (S i + d)%nat) as Hinj.
        assert (i = S i + d)%nat by (apply Hinj; [apply nth_error_Some; congruence|congruence]). lia. }
      destruct (Hothers jn on (L2 _ _ _ (nth_error_In _ _ En)) Hne Hw) as [[r' Hb]|Hb].
      + exact (before_asym _ _ _ L1 Hb1 (L5 _ _ _ _ Hb HipIn)).
      + exact (before_asym _ _ _ L1 Hb2 (L5 _ _ _ _ Hb HjnIn)). }
  assert (Hres : nth_error (map lres lin) j = Some r) by (rewrite nth_error_map, HeG; reflexivity).
  pose proof (seq_run_nth step_spec' ops a0 j _ HopG) as Hspec.
  pose proof (lz_Forall2_nth _ _ _ L4 j _ _ Hres Hspec) as Hreq.
  cbn [step_spec' step_spec snd] in Hreq.
  replace j with (S i + (j - S i))%nat in Hreq by lia. rewrite Hst in Hreq by lia. exact Hreq.
Qed.

(* the same for the executions of C07: the Get returns exactly v *)
Corollary C07_read_your_writes P (sp : stp) (sf : stf) (es : list (event op' out)) c ip ig k v rp r :
  params_ok P -> st_rel sp sf -> Inv P sf -> MetaOK sf ->
  exec (step_chain' P) no_guard no_bg sp es c ->
  Forall op_valid' (map snd (act_ops es)) -> rooms' P sf (map snd (act_ops es)) ->
  In (HCall ip (OpBase (OpPut k v))) (hist es) ->
  before (hist es) (HRet ip rp) (HCall ig (OpBase (OpGet k))) ->
  In (HRet ig r) (hist es) ->
  (forall j o, In (HCall j o) (hist es) -> j <> ip -> writes_key k o ->
     (exists r', before (hist es) (HRet j r') (HCall ip (OpBase (OpPut k v)))) \/
     before (hist es) (HRet ig r) (HCall j o)) ->
  r = OVal (Some v).
Proof.
  intros HP Hs HI HM Hx Hv Hr H1 H2 H3 H4.
  destruct (C07_linearizable P sp sf es c HP Hs HI HM Hx Hv Hr) as (L & _ & [HU _] & _).
  pose proof (read_your_writes out_equiv' _ _ _ ip ig k v rp r L HU H1 H2 H3 H4) as H.
  destruct r; cbn [out_equiv'] in H; try discriminate H; exact H.
Qed.

(* ================================================================================================ *)
(** * 4. pogreb: compaction split into its micro-steps, as background actions
      (flat-index database, the model in which [DBProofsCompact.creach] is stated) *)

Lemma out_equiv_trans a b c : out_equiv a b -> out_equiv b c -> out_equiv a c.
Proof.
  destruct a, b; cbn [out_equiv]; intros H1; try discriminate H1;
    destruct c; cbn [out_equiv]; intros H2; try discriminate H2; try congruence.
  etransitivity; eassumption.
Qed.

Section Micro.
Variable P : params.

(* shared state: the database and the cursor of the compaction in progress (if any) *)
Definition mstate := (stf * cursor)%type.
Definition mstep (x : mstate) (o : op) : mstate * out :=
  ((fst (step_flat P (fst x) o), snd x), snd (step_flat P (fst x) o)).
(* side conditions of an action: the 32-bit offset condition, valid Put arguments, byte-string keys
   for Delete (as in [creach]) *)
Definition mguard (x : mstate) (o : op) : Prop :=
  (exists m, s_mem (fst x) = Some m /\ room m) /\ op_valid o /\
  match o with OpDelete k => Forall byte k | _ => True end.
(* background actions: one critical section of the compaction in progress; or, when none is in
   progress, the pick of a new set of segments *)
Definition mbg (x y : mstate) : Prop :=
  ((exists m, s_mem (fst x) = Some m /\ room m) /\
   compact_step flat_ops P (fst x) (snd x) = CMore (fst y) (snd y)) \/
  (compact_step flat_ops P (fst x) (snd x) = CDone /\ compact_pick flat_ops P (fst x) = Some y).
Definition msim (x : mstate) (a : smap) : Prop :=
  Inv P (fst x) /\ CInv (fst x) (snd x) /\ MetaOK (fst x) /\
  meq (abs (s_disk (fst x))) a /\ NoDup (map fst a).

Lemma flat_step_ok (s : stf) (c : cursor) o :
  params_ok P -> Inv P s -> CInv s c -> MetaOK s -> mguard (s, c) o ->
  Inv P (fst (step_flat P s o)) /\ CInv (fst (step_flat P s o)) c /\ MetaOK (fst (step_flat P s o)) /\
  meq (abs (s_disk (fst (step_flat P s o)))) (fst (step_spec (abs (s_disk s)) o)) /\
  out_equiv (snd (step_flat P s o)) (snd (step_spec (abs (s_disk s)) o)).
Proof.
  intros HP HI HC HM (Hroom & Hv & Hk). cbn [fst] in Hroom.
  assert (Hopen : s_mem s <> None) by (destruct Hroom as (m & -> & _); discriminate).
  unfold step_flat. destruct o as [k v|k|k|k buf|k| | |]; cbn [step step_spec fst snd out_equiv].
  - destruct Hv as (Hbk & Hbv & Hkl & Hvl).
    pose proof (put_ok P s k v HP HI Hroom Hbk Hbv Hkl Hvl) as Hput.
    destruct (put_preserves P s c k v HI Hroom Hbk Hbv Hkl Hvl HC) as (C2 & M2 & _).
    destruct (db_put flat_ops P k v s) as [s2 o]. cbn [fst snd] in *.
    destruct Hput as (-> & I2 & _ & A2).
    split; [exact I2|]. split; [exact C2|]. split; [exact (M2 HM)|]. split; [|reflexivity].
    intros k'. rewrite A2, sget_sput. reflexivity.
  - pose proof (delete_ok P s k HP HI Hroom Hk) as Hdel.
    destruct (delete_preserves P s c k HI Hroom Hk HC) as (C2 & M2 & _).
    destruct (db_delete flat_ops P k s) as [s2 o]. cbn [fst snd] in *.
    destruct Hdel as (-> & I2 & _ & A2 & _).
    split; [exact I2|]. split; [exact C2|]. split; [exact (M2 HM)|]. split; [|reflexivity].
    intros k'. rewrite A2, sget_sdel. reflexivity.
  - rewrite (get_ok P s k HI Hopen). exact (conj HI (conj HC (conj HM (conj (meq_refl _) eq_refl)))).
  - rewrite (get_append_ok P s k buf HI Hopen). exact (conj HI (conj HC (conj HM (conj (meq_refl _) eq_refl)))).
  - rewrite (has_ok P s k HI Hopen). exact (conj HI (conj HC (conj HM (conj (meq_refl _) eq_refl)))).
  - rewrite (count_ok P s HI Hopen). exact (conj HI (conj HC (conj HM (conj (meq_refl _) eq_refl)))).
  - destruct (items_ok P s HI Hopen) as (l & -> & Hl).
    exact (conj HI (conj HC (conj HM (conj (meq_refl _) Hl)))).
  - pose proof (sync_ok P s HI Hopen) as Hsy.
    destruct (sync_preserves s c HC) as (C2 & M2 & _).
    destruct (db_sync flat_ops s) as [s2 o]. cbn [fst snd] in *.
    destruct Hsy as (-> & I2 & E2 & _).
    split; [exact I2|]. split; [exact C2|]. split; [exact (M2 HM)|]. split; [|reflexivity].
    rewrite E2. apply meq_refl.
Qed.

Lemma mstep_sim : params_ok P -> forall x a o, msim x a -> mguard x o ->
  msim (fst (mstep x o)) (fst (step_spec a o)) /\ out_equiv (snd (mstep x o)) (snd (step_spec a o)).
Proof.
  intros HP [s c] a o (HI & HC & HM & Hq & Hnd) Hg. cbn [fst snd] in HI, HC, HM, Hq.
  destruct (flat_step_ok s c o HP HI HC HM Hg) as (I2 & C2 & M2 & Q2 & O2).
  destruct (step_spec_meq (abs (s_disk s)) a o (abs_NoDup _) Hnd Hq) as (E & F & G).
  unfold mstep, msim. cbn [fst snd]. split.
  - split; [exact I2|]. split; [exact C2|]. split; [exact M2|]. split; [|exact F].
    eapply meq_trans; eassumption.
  - eapply out_equiv_trans; eassumption.
Qed.

Lemma mbg_sim : forall x y a, msim x a -> mbg x y -> msim y a.
Proof.
  intros [s c] [s' c'] a (HI & HC & HM & Hq & Hnd) Hb. cbn [fst snd] in *.
  destruct Hb as [[Hroom Hstep]|[_ Hpick]]; cbn [fst snd] in *.
  - pose proof (compact_step_ok_ex P s c HI HC Hroom) as H. rewrite Hstep in H.
    destruct H as (I2 & C2 & _ & A2 & _ & M2 & _).
    unfold msim. cbn [fst snd]. split; [exact I2|]. split; [exact C2|]. split; [exact (M2 HM)|].
    split; [|exact Hnd]. intros k. rewrite A2. apply Hq.
  - assert (Hopen : s_mem s <> None) by (destruct HC as (m & -> & _); discriminate).
    destruct (compact_pick_ok P s HI HM Hopen) as (s1 & c1 & Ep & I1 & C1 & Ed & M1 & _).
    rewrite Hpick in Ep. injection Ep as <- <-.
    unfold msim. cbn [fst snd]. split; [exact I1|]. split; [exact C1|]. split; [exact M1|].
    split; [|exact Hnd]. rewrite Ed. exact Hq.
Qed.

(* C07 with the compaction interleaved: threads call Put, Delete, Get, GetAppend, Has, Count, Items,
   Sync; between any two of their actions the compactor may run critical sections (one record each,
   segment removals, picks).  The history is linearizable w.r.t. the plain map up to [out_equiv]
   (Items up to a permutation, everything else equal): the micro-steps are invisible. *)
Theorem C07_linearizable_microsteps (s : stf) (c : cursor) (es : list (event op out)) cf :
  params_ok P -> Inv P s -> CInv s c -> MetaOK s ->
  exec mstep mguard mbg (s, c) es cf ->
  exists lin,
    linearization step_spec out_equiv (abs (s_disk s)) (hist es) lin /\ map fst lin = act_ops es /\
    hist_wf (hist es) /\
    let s' := fst (c_s cf) in
    Inv P s' /\ CInv s' (snd (c_s cf)) /\ MetaOK s' /\
    meq (abs (s_disk s')) (seq_final step_spec (abs (s_disk s)) (map snd (act_ops es))).
Proof.
  intros HP HI HC HM Hx.
  destruct (atomic_actions_linearizable_sim _ _ _ mstep mguard mbg _ _ step_spec out_equiv msim
              (mstep_sim HP) mbg_sim (s, c) (abs (s_disk s)) es cf) as (lin & L & Ea & Hsim).
  - unfold msim. cbn [fst snd]. split; [exact HI|]. split; [exact HC|]. split; [exact HM|].
    split; [apply meq_refl|apply abs_NoDup].
  - exact Hx.
  - exists lin. split; [exact L|]. split; [exact Ea|].
    split; [exact (exec_hist_wf _ _ _ _ _ _ _ _ _ Hx)|].
    destruct Hsim as (I2 & C2 & M2 & Q2 & _). cbv zeta.
    split; [exact I2|]. split; [exact C2|]. split; [exact M2|].
    replace (map snd (act_ops es)) with (map lop lin); [exact Q2|].
    rewrite <- Ea, map_map. reflexivity.
Qed.

(* executable versions of the side condition and of the background action *)
Definition mguardb (x : mstate) (o : op) : bool :=
  match s_mem (fst x) with Some m => room_b m | None => false end && op_valid_b o &&
  match o with OpDelete k => forallb (fun b => b <? 256) k | _ => true end.
Definition mbgf (x : mstate) : option mstate :=
  match compact_step flat_ops P (fst x) (snd x) with
  | CMore s' c' => match s_mem (fst x) with
                   | Some m => if room_b m then Some (s', c') else None
                   | None => None
                   end
  | CDone => compact_pick flat_ops P (fst x)
  | CFail _ => None
  end.

Lemma mguardb_ok x o : mguardb x o = true -> mguard x o.
Proof.
  unfold mguardb, mguard. rewrite !andb_true_iff. intros [[A B] C]. split; [|split].
  - destruct (s_mem (fst x)) as [m|]; [|discriminate]. exists m. split; [reflexivity|apply room_b_ok; exact A].
  - apply op_valid_b_ok. exact B.
  - destruct o; try exact I. apply forallb_byte. exact C.
Qed.

Lemma mbgf_ok x y : mbgf x = Some y -> mbg x y.
Proof.
  unfold mbgf, mbg. destruct (compact_step flat_ops P (fst x) (snd x)) as [|s' c'|w] eqn:E.
  - intros H. right. split; [reflexivity|exact H].
  - destruct (s_mem (fst x)) as [m|] eqn:Em; [|discriminate].
    destruct (room_b m) eqn:Er; [|discriminate]. intros H. injection H as <-. left. cbn [fst snd].
    split; [|reflexivity]. exists m. split; [reflexivity|apply room_b_ok; exact Er].
  - discriminate.
Qed.
End Micro.

(* ================================================================================================ *)
(** * 5. A NON-atomic variant: the action of an operation split into two instants *)

Section Split.
Variables (St Op Res Lk : Type).
Variable look : St -> Op -> Lk.                 (* first instant: what the operation reads *)
Variable fin : St -> Op -> Lk -> St * Res.      (* second instant: the rest, on the state of THAT instant *)

Inductive sevent :=
| SCall (t : nat) (o : Op) | SLook (t : nat) | SAct (t : nat) | SRet (t : nat) (r : Res).
Inductive sstat := SIdle | SCalled (o : Op) | SLooked (o : Op) (x : Lk) | SActed (o : Op) (r : Res).
Record sconfig := mksc { sc_s : St; sc_t : nat -> sstat }.

Inductive sstep : sconfig -> sevent -> sconfig -> Prop :=
| ss_call c t o : sc_t c t = SIdle ->
    sstep c (SCall t o) (mksc (sc_s c) (upd (sc_t c) t (SCalled o)))
| ss_look c t o : sc_t c t = SCalled o ->
    sstep c (SLook t) (mksc (sc_s c) (upd (sc_t c) t (SLooked o (look (sc_s c) o))))
| ss_act c t o x : sc_t c t = SLooked o x ->
    sstep c (SAct t) (mksc (fst (fin (sc_s c) o x)) (upd (sc_t c) t (SActed o (snd (fin (sc_s c) o x)))))
| ss_ret c t o r : sc_t c t = SActed o r ->
    sstep c (SRet t r) (mksc (sc_s c) (upd (sc_t c) t SIdle)).

Inductive sexec (s0 : St) : list sevent -> sconfig -> Prop :=
| sexec_nil : sexec s0 [] (mksc s0 (fun _ => SIdle))
| sexec_snoc es c e c' : sexec s0 es c -> sstep c e c' -> sexec s0 (es ++ [e]) c'.

(* the history: the Call and Ret events, as before (the two instants are internal) *)
Definition erase1 (e : sevent) : list (event Op Res) :=
  match e with
  | SCall t o => [ECall t o]
  | SLook _ => []
  | SAct t => [EAct t]
  | SRet t r => [ERet t r]
  end.
Definition shist (es : list sevent) : list (hev Op Res) := hist (flat_map erase1 es).

(* executable check *)
Variable res_eq_dec : forall a b : Res, {a = b} + {a <> b}.
Definition sstep_fn (c : sconfig) (e : sevent) : option sconfig :=
  match e with
  | SCall t o => match sc_t c t with
                 | SIdle => Some (mksc (sc_s c) (upd (sc_t c) t (SCalled o)))
                 | _ => None
                 end
  | SLook t => match sc_t c t with
               | SCalled o => Some (mksc (sc_s c) (upd (sc_t c) t (SLooked o (look (sc_s c) o))))
               | _ => None
               end
  | SAct t => match sc_t c t with
              | SLooked o x => Some (mksc (fst (fin (sc_s c) o x))
                                          (upd (sc_t c) t (SActed o (snd (fin (sc_s c) o x)))))
              | _ => None
              end
  | SRet t r => match sc_t c t with
                | SActed o r' => if res_eq_dec r r' then Some (mksc (sc_s c) (upd (sc_t c) t SIdle)) else None
                | _ => None
                end
  end.
Fixpoint sexec_fn (c : sconfig) (es : list sevent) : option sconfig :=
  match es with
  | [] => Some c
  | e :: es' => match sstep_fn c e with Some c' => sexec_fn c' es' | None => None end
  end.

Lemma sstep_fn_sound c e c' : sstep_fn c e = Some c' -> sstep c e c'.
Proof.
  destruct e as [t o|t|t|t r]; cbn [sstep_fn].
  - destruct (sc_t c t) eqn:Et; try discriminate. intros E. injection E as <-. apply ss_call. exact Et.
  - destruct (sc_t c t) as [|o|o x|o r] eqn:Et; try discriminate. intros E. injection E as <-.
    apply ss_look. exact Et.
  - destruct (sc_t c t) as [|o|o x|o r] eqn:Et; try discriminate. intros E. injection E as <-.
    apply ss_act. exact Et.
  - destruct (sc_t c t) as [|o|o x|o r'] eqn:Et; try discriminate.
    destruct (res_eq_dec r r') as [->|_]; [|discriminate]. intros E. injection E as <-.
    apply (ss_ret c t o r'). exact Et.
Qed.

Lemma sexec_fn_sound_gen s0 es' : forall es c c',
  sexec s0 es c -> sexec_fn c es' = Some c' -> sexec s0 (es ++ es') c'.
Proof.
  induction es' as [|e es' IH]; intros es c c' Hx E; cbn [sexec_fn] in E.
  - injection E as <-. rewrite app_nil_r. exact Hx.
  - destruct (sstep_fn c e) as [c1|] eqn:E1; [|discriminate].
    replace (es ++ e :: es') with ((es ++ [e]) ++ es') by (rewrite <- app_assoc; reflexivity).
    apply (IH _ c1); [|exact E].
    apply (sexec_snoc s0 es c e c1 Hx). apply sstep_fn_sound. exact E1.
Qed.

Lemma sexec_fn_sound s0 es :
  lz_is_some (sexec_fn (mksc s0 (fun _ => SIdle)) es) = true -> exists c, sexec s0 es c.
Proof.
  destruct (sexec_fn (mksc s0 (fun _ => SIdle)) es) as [c|] eqn:E; [|discriminate]. intros _. exists c.
  exact (sexec_fn_sound_gen s0 es [] _ c (sexec_nil s0) E).
Qed.
End Split.

Arguments SCall {Op Res} t o.
Arguments SLook {Op Res} t.
Arguments SAct {Op Res} t.
Arguments SRet {Op Res} t r.
Arguments sexec {St Op Res Lk} look fin s0 _ _.
Arguments shist {Op Res} es.
Arguments sexec_fn {St Op Res Lk} look fin res_eq_dec c es.
Arguments mksc {St Op Res Lk} sc_s sc_t.
Arguments SIdle {Op Res Lk}.

(* Get on the chain-index database, split as in the code WITHOUT the lock: the index lookup (which
   yields a slot: segment, offset, sizes) at one instant, the read of the log at that slot at a later
   instant.  Every other operation is left atomic. *)
Definition pg_look (P : params) (s : stp) (o : op') : option slot :=
  match o with
  | OpBase (OpGet k) =>
    match s_mem s with
    | Some m => ix_get chain_ops (m_idx m) (p_hash P (m_seed m) k) (matchf (s_disk s) k)
    | None => None
    end
  | _ => None
  end.
Definition pg_fin (P : params) (s : stp) (o : op') (x : option slot) : stp * out :=
  match o with
  | OpBase (OpGet k) =>
    (s, match s_mem s with
        | None => OErr EClosed
        | Some _ => match x with
                    | None => OVal None
                    | Some sl => match read_kv (s_disk s) sl with
                                 | Some (_, v) => OVal (Some v)
                                 | None => OBroken 3
                                 end
                    end
        end)
  | _ => step_chain' P s o
  end.

(* with both instants at the same state this IS the atomic action *)
Lemma pg_split_same_instant P s o : pg_fin P s o (pg_look P s o) = step_chain' P s o.
Proof.
  destruct o as [[k v|k|k|k b|k| | |]|]; try reflexivity.
  unfold pg_fin, pg_look, step_chain'. cbn [step' step]. unfold db_get.
  destruct (s_mem s) as [m|]; reflexivity.
Qed.

Definition out_eq_dec : forall a b : out, {a = b} + {a <> b}.
Proof. repeat decide equality. Defined.

Lemma linearization_req_mono {Op Res A R'} (astep : A -> Op -> A * R') (req1 req2 : Res -> R' -> Prop)
    a0 (h : list (hev Op Res)) lin :
  (forall a b, req1 a b -> req2 a b) ->
  linearization astep req1 a0 h lin -> linearization astep req2 a0 h lin.
Proof.
  intros Hm [L1 L2 L3 L4 L5]. constructor; try assumption.
  clear L1 L2 L3 L5. induction L4 as [|x y l1 l2 Hxy _ IH]; constructor; [exact (Hm _ _ Hxy)|exact IH].
Qed.

(* ================================================================================================ *)
(** * 6. Non-vacuity: concrete executions *)

Module LinEx.
Import RunEx.
Local Open Scope nat_scope.

(* the database after eight Puts (two segments), on both indexes *)
Definition pre_ops : list op' := map put (seq 1 8).
Definition sp1 : stp := final' (step_chain' exP) sp0 pre_ops.
Definition sf1 : stf := final' (step_flat' exP) (flat_init 1) pre_ops.

Lemma ex_rel : st_rel sp1 sf1 /\ Inv exP sf1 /\ MetaOK sf1.
Proof.
  destruct (C01_chain_from_empty_with_compact exP 1 pre_ops exP_ok) as (_ & _ & A & B & C & _).
  - apply ops_valid'_b_ok. vm_compute. reflexivity.
  - apply rooms'_b_ok. vm_compute. reflexivity.
  - exact (conj A (conj B C)).
Qed.

Example ex_contents : abs (s_disk sf1) = map (fun i => (key_of i, val_of i)) [8; 7; 6; 5; 4; 3; 2; 1].
Proof. vm_compute. reflexivity. Qed.

Definition k5 := key_of 5.
Definition v5 := val_of 5.
Definition v50 := val_of 50.

(* three client threads on the SAME key and a compactor; operations overlap; at the end thread 0 is
   pending without action and thread 2 is pending with its action done *)
Definition ex_es : list (event op' out) :=
  [ ECall 0 (OpBase (OpPut k5 v50));
    ECall 1 (OpBase (OpGet k5));
    ECall 2 (OpBase (OpDelete k5));
    EAct 1;                             (* the Get acts before the Put *)
    EAct 0;
    ERet 1 (OVal (Some v5));
    ECall 1 (OpBase (OpGet k5));
    EAct 1;                             (* the second Get acts between the Put and the Delete *)
    EAct 2;
    ERet 0 OOk;
    ERet 1 (OVal (Some v50));
    ECall 3 OpCompact;
    ECall 1 (OpBase (OpHas k5));
    EAct 3;
    EAct 1;
    ERet 2 OOk;                         (* the Delete was called third and returns only now *)
    ERet 1 (OBool false);
    ERet 3 (OCompact 2 3 37);
    ECall 0 (OpBase (OpGet k5));
    ECall 2 (OpBase OpCount);
    EAct 2 ].

Example ex_is_execution : exists c, exec (step_chain' exP) no_guard no_bg sp1 ex_es c.
Proof.
  apply (exec_fn_sound _ _ _ (step_chain' exP) no_guard no_bg (fun _ _ => true) (fun _ => None) out_eq_dec).
  - intros s o _. exact I.
  - intros s s' H. discriminate H.
  - vm_compute. reflexivity.
Qed.

Example ex_history : hist ex_es =
  [ HCall (0, 0) (OpBase (OpPut k5 v50)); HCall (1, 0) (OpBase (OpGet k5));
    HCall (2, 0) (OpBase (OpDelete k5)); HRet (1, 0) (OVal (Some v5));
    HCall (1, 1) (OpBase (OpGet k5)); HRet (0, 0) OOk; HRet (1, 1) (OVal (Some v50));
    HCall (3, 0) OpCompact; HCall (1, 2) (OpBase (OpHas k5)); HRet (2, 0) OOk;
    HRet (1, 2) (OBool false); HRet (3, 0) (OCompact 2 3 37);
    HCall (0, 1) (OpBase (OpGet k5)); HCall (2, 1) (OpBase OpCount) ].
Proof. vm_compute. reflexivity. Qed.

(* the linearization: the order of the actions *)
Definition ex_lin : list (opid * op' * out) :=
  [ ((1, 0), OpBase (OpGet k5), OVal (Some v5));
    ((0, 0), OpBase (OpPut k5 v50), OOk);
    ((1, 1), OpBase (OpGet k5), OVal (Some v50));
    ((2, 0), OpBase (OpDelete k5), OOk);
    ((3, 0), OpCompact, OCompact 2 3 37);
    ((1, 2), OpBase (OpHas k5), OBool false);
    ((2, 1), OpBase OpCount, ONum 7) ].

Example ex_witness : lin_of (step_chain' exP) sp1 ex_es = ex_lin.
Proof. vm_compute. reflexivity. Qed.

Example ex_side_conditions :
  Forall op_valid' (map snd (act_ops ex_es)) /\ rooms' exP sf1 (map snd (act_ops ex_es)).
Proof.
  split.
  - apply ops_valid'_b_ok. vm_compute. reflexivity.
  - apply rooms'_b_ok. vm_compute. reflexivity.
Qed.

(* C07_linearizable applies *)
Example ex_linearization :
  linearization step_spec' out_equiv' (abs (s_disk sf1)) (hist ex_es) ex_lin /\ hist_wf (hist ex_es).
Proof.
  destruct ex_is_execution as [c Hx]. destruct ex_rel as (Hs & HI & HM).
  destruct ex_side_conditions as [Hv Hr].
  destruct (C07_linearizable exP sp1 sf1 ex_es c exP_ok Hs HI HM Hx Hv Hr) as (L & _ & W & _).
  rewrite ex_witness in L. exact (conj L W).
Qed.

(* what the plain map answers along the linearization: the same, except for the numbers of the
   CompactionResult *)
Example ex_map_results :
  seq_run step_spec' (abs (s_disk sf1)) (map lop ex_lin) =
  [OVal (Some v5); OOk; OVal (Some v50); OOk; OCompact 0 0 0; OBool false; ONum 7].
Proof. vm_compute. reflexivity. Qed.

(* the real-time order is not the order of the calls: the Delete (2,0) was called before the second Get
   (1,1) and is linearized after it; both orders are allowed because the two overlap.  But the first
   Get (1,0) returned before the second was called, and must precede it: *)
Example ex_real_time :
  before (hist ex_es) (HRet (1, 0) (OVal (Some v5))) (HCall (1, 1) (OpBase (OpGet k5))) /\
  before (map lid ex_lin) (1, 0) (1, 1).
Proof.
  rewrite ex_history. split.
  - exists 3, 4. split; [lia|split; reflexivity].
  - exists 0, 2. split; [lia|split; reflexivity].
Qed.

(* ---- the compaction interleaved in micro-steps (flat-index database) ----------------------------- *)
Definition mi_es : list (event op out) :=
  [ EBg;                                  (* the compactor picks both segments *)
    ECall 0 (OpPut k5 v50);
    EBg; EBg;                             (* first segment: start, one record *)
    ECall 1 (OpGet k5);
    EAct 0;                               (* the Put lands in the middle of the compaction *)
    EBg; EBg;
    EAct 1;
    ERet 0 OOk;
    EBg; EBg; EBg; EBg; EBg; EBg;
    ECall 2 (OpDelete (key_of 2));
    ERet 1 (OVal (Some v50));
    EAct 2;
    EBg; EBg; EBg; EBg; EBg; EBg;
    ECall 1 (OpGet (key_of 2));
    EAct 1;
    ERet 1 (OVal None);
    ERet 2 OOk;
    ECall 0 OpCount; EAct 0; ERet 0 (ONum 7) ].

Example mi_is_execution : exists c, exec (mstep exP) mguard (mbg exP) (sf1, c0) mi_es c.
Proof.
  apply (exec_fn_sound _ _ _ (mstep exP) mguard (mbg exP) mguardb (mbgf exP) out_eq_dec).
  - exact mguardb_ok.
  - exact (mbgf_ok exP).
  - vm_compute. reflexivity.
Qed.

(* the 21 background actions are real: the first compaction runs to its end (both old segments are
   removed, their live records rewritten) and a second one is under way *)
Example mi_compaction_ran :
  option_map (fun c => (length (d_segs (s_disk (fst (c_s c)))), c_src (snd (c_s c))))
             (exec_fn (mstep exP) mguardb (mbgf exP) out_eq_dec (init (sf1, c0)) mi_es) =
  Some (3, Some (2%N, 3%N, 538%N)) /\
  map f_id (d_segs (s_disk sf1)) = [0%N; 1%N].
Proof. split; vm_compute; reflexivity. Qed.

Example mi_linearizable :
  exists lin, linearization step_spec out_equiv (abs (s_disk sf1)) (hist mi_es) lin /\
              map fst lin = act_ops mi_es /\
              map lres lin = [OOk; OVal (Some v50); OOk; OVal None; ONum 7].
Proof.
  destruct mi_is_execution as [c Hx]. destruct ex_rel as (_ & HI & HM).
  assert (HC : CInv sf1 c0).
  { destruct (s_mem sf1) as [m|] eqn:Em; [exact (CInv_c0 sf1 m Em)|vm_compute in Em; discriminate Em]. }
  destruct (C07_linearizable_microsteps exP sf1 c0 mi_es c exP_ok HI HC HM Hx) as (lin & L & Ea & _).
  exists lin. split; [exact L|]. split; [exact Ea|].
  (* every operation of [lin] has returned, so it is paired with the result it returned *)
  assert (Eh : hist mi_es =
    [ HCall (0, 0) (OpPut k5 v50); HCall (1, 0) (OpGet k5); HRet (0, 0) OOk;
      HCall (2, 0) (OpDelete (key_of 2)); HRet (1, 0) (OVal (Some v50));
      HCall (1, 1) (OpGet (key_of 2)); HRet (1, 1) (OVal None); HRet (2, 0) OOk;
      HCall (0, 1) OpCount; HRet (0, 1) (ONum 7) ]) by (vm_compute; reflexivity).
  assert (Eo : act_ops mi_es =
    [ ((0, 0), OpPut k5 v50); ((1, 0), OpGet k5); ((2, 0), OpDelete (key_of 2));
      ((1, 1), OpGet (key_of 2)); ((0, 1), OpCount) ]) by (vm_compute; reflexivity).
  pose proof (lin_result_of_completed _ _ _ _ _ L) as Hdet. rewrite Eh in Hdet. rewrite Eo in Ea.
  destruct lin as [|[x1 r1] [|[x2 r2] [|[x3 r3] [|[x4 r4] [|[x5 r5] [|x6 lin]]]]]]; try discriminate Ea.
  cbn [map fst] in Ea. injection Ea as -> -> -> -> ->. cbn [map lres snd].
  rewrite (Hdet _ _ r1 OOk (or_introl eq_refl)) by (do 2 right; left; reflexivity).
  rewrite (Hdet _ _ r2 (OVal (Some v50)) (or_intror (or_introl eq_refl))) by (do 4 right; left; reflexivity).
  rewrite (Hdet _ _ r3 OOk (or_intror (or_intror (or_introl eq_refl)))) by (do 7 right; left; reflexivity).
  rewrite (Hdet _ _ r4 (OVal None) (or_intror (or_intror (or_intror (or_introl eq_refl)))))
    by (do 6 right; left; reflexivity).
  rewrite (Hdet _ _ r5 (ONum 7) (or_intror (or_intror (or_intror (or_intror (or_introl eq_refl))))))
    by (do 9 right; left; reflexivity).
  reflexivity.
Qed.
End LinEx.

(* ================================================================================================ *)
(** * 7. Sensitivity: the split Get is NOT linearizable *)

(* even if the failed log read were reported as "not found" *)
Definition lenient (a b : out) : Prop := out_equiv' a b \/ (a = OBroken 3 /\ b = OVal None).

Module NonAtomic.
Import RunEx.
Local Open Scope nat_scope.

Definition k1 := key_of 1.
Definition v1 := val_of 1.

(* on a fresh database: thread 0 puts k1 and returns; thread 1 calls Get(k1) and looks the slot up
   (segment 0); thread 2 runs a whole Compact (the record moves to a new segment, segment 0 is
   removed); then thread 1 reads the log at the stale slot *)
Definition na_es : list (sevent op' out) :=
  [ SCall 0 (OpBase (OpPut k1 v1)); SLook 0; SAct 0; SRet 0 OOk;
    SCall 1 (OpBase (OpGet k1)); SLook 1;
    SCall 2 OpCompact; SLook 2; SAct 2; SRet 2 (OCompact 1 0 0);
    SAct 1; SRet 1 (OBroken 3) ].

Definition na_hist : list (hev op' out) :=
  [ HCall (0, 0) (OpBase (OpPut k1 v1)); HRet (0, 0) OOk;
    HCall (1, 0) (OpBase (OpGet k1));
    HCall (2, 0) OpCompact; HRet (2, 0) (OCompact 1 0 0);
    HRet (1, 0) (OBroken 3) ].

Lemma na_is_execution : exists c, sexec (pg_look exP) (pg_fin exP) sp0 na_es c.
Proof. apply (sexec_fn_sound _ _ _ _ _ _ out_eq_dec). vm_compute. reflexivity. Qed.

Lemma na_history : shist na_es = na_hist.
Proof. vm_compute. reflexivity. Qed.

Lemma na_calls_unique : calls_unique na_hist.
Proof.
  intros i o o' H1 H2. unfold na_hist in H1, H2. cbn [In] in H1, H2.
  destruct H1 as [E1|[E1|[E1|[E1|[E1|[E1|[]]]]]]]; try discriminate E1;
    destruct H2 as [E2|[E2|[E2|[E2|[E2|[E2|[]]]]]]]; try discriminate E2; congruence.
Qed.

(* no sequence of the three operations explains the history: the Put returned before the Get was
   called and nothing else writes k1, so the map answers Some v1 to the Get -- in every order *)
Theorem na_not_linearizable : forall lin, ~ linearization step_spec' lenient [] na_hist lin.
Proof.
  intros lin L.
  assert (H : lenient (OBroken 3) (OVal (Some v1))).
  { apply (read_your_writes lenient [] na_hist lin (0, 0) (1, 0) k1 v1 OOk (OBroken 3) L na_calls_unique).
    - left. reflexivity.
    - exists 1, 2. split; [lia|split; reflexivity].
    - do 5 right. left. reflexivity.
    - intros j o Hin Hne Hw. unfold na_hist in Hin. cbn [In] in Hin.
      destruct Hin as [E|[E|[E|[E|[E|[E|[]]]]]]]; try discriminate E; injection E as <- <-.
      + exfalso. apply Hne. reflexivity.
      + destruct Hw.
      + destruct Hw. }
  destruct H as [H|[_ H]]; [cbn [out_equiv'] in H; discriminate H|discriminate H].
Qed.

(* the same calls with ATOMIC actions in the same order: the Get returns the value *)
Example na_atomic_contrast : exists c,
  exec (step_chain' exP) no_guard no_bg sp0
    [ ECall 0 (OpBase (OpPut k1 v1)); EAct 0; ERet 0 OOk;
      ECall 1 (OpBase (OpGet k1));
      ECall 2 OpCompact; EAct 2; ERet 2 (OCompact 1 0 0);
      EAct 1; ERet 1 (OVal (Some v1)) ] c.
Proof.
  apply (exec_fn_sound _ _ _ (step_chain' exP) no_guard no_bg (fun _ _ => true) (fun _ => None) out_eq_dec).
  - intros s o _. exact I.
  - intros s s' H. discriminate H.
  - vm_compute. reflexivity.
Qed.
End NonAtomic.

(* THE SENSITIVITY WITNESS.  With the Get's action split in two (index lookup at one instant, log
   read at a later one) the fresh chain-index database (contents: the empty map) has an execution
   whose history is not linearizable w.r.t. the plain map -- neither up to [out_equiv'], nor when the
   failed read is identified with "not found". *)
Theorem non_atomic_not_linearizable :
  exists (es : list (sevent op' out)) c,
    sexec (pg_look RunEx.exP) (pg_fin RunEx.exP) RunEx.sp0 es c /\
    st_rel RunEx.sp0 (flat_init 1) /\ abs (s_disk (flat_init 1)) = [] /\
    shist es = NonAtomic.na_hist /\
    ~ linearizable step_spec' out_equiv' [] (shist es) /\
    ~ linearizable step_spec' lenient [] (shist es).
Proof.
  destruct NonAtomic.na_is_execution as [c Hx]. exists NonAtomic.na_es, c.
  split; [exact Hx|]. split.
  { pose proof (init_rel RunEx.exP 1) as H. rewrite flat_open_fresh in H. unfold RunEx.sp0.
    destruct (db_open chain_ops RunEx.exP 1 st0) as [sp o]. cbn [fst]. tauto. }
  split; [reflexivity|]. split; [exact NonAtomic.na_history|].
  rewrite NonAtomic.na_history. split.
  - intros [lin L]. apply (NonAtomic.na_not_linearizable lin).
    apply (linearization_req_mono _ out_equiv' lenient); [|exact L]. intros a b H. left. exact H.
  - intros [lin L]. exact (NonAtomic.na_not_linearizable lin L).
Qed.

(* ================================================================================================ *)
Print Assumptions atomic_actions_linearizable_sim.
Print Assumptions atomic_actions_linearizable.
Print Assumptions exec_hist_wf.
Print Assumptions exec_fn_sound.
Print Assumptions lin_result_of_completed.
Print Assumptions C07_linearizable.
Print Assumptions C07_linearizable_from_empty.
Print Assumptions read_your_writes.
Print Assumptions C07_read_your_writes.
Print Assumptions C07_linearizable_microsteps.
Print Assumptions pg_split_same_instant.
Print Assumptions LinEx.ex_is_execution.
Print Assumptions LinEx.ex_linearization.
Print Assumptions LinEx.ex_witness.
Print Assumptions LinEx.ex_real_time.
Print Assumptions LinEx.mi_is_execution.
Print Assumptions LinEx.mi_compaction_ran.
Print Assumptions LinEx.mi_linearizable.
Print Assumptions NonAtomic.na_not_linearizable.
Print Assumptions NonAtomic.na_atomic_contrast.
Print Assumptions non_atomic_not_linearizable.
