(* DBRun.v -- the run theorem of DBSim.v extended with Compact:
   for every hash function, split policy, thresholds and sync mode, any run of Put, Delete, Get,
   GetAppend, Has, Count, Items, Sync and COMPACT on the database with the real bucket-chain index
   produces the outputs of a plain map (Items up to order; the three counters of a CompactionResult
   are not compared with the map, which has no segments -- but they ARE equal to the counters the
   flat-index database returns), and the final states are again related, with [Inv] and [MetaOK]
   on the flat side.  No axioms (Print Assumptions at the end).

   Definitions:  op' (= DBSim.op + OpCompact), step' / step_chain' / step_flat' / step_spec',
     run', final', op_valid', out_equiv', meq (pointwise equal maps), rooms' (room before every
     operation of the FLAT run, compact_room before every Compact), c0 (the empty cursor).
   Results:  cinv_of_CInv (Inv + CInv + run_room give DBSim.cinv, hence cuniq/points_uniq along a
     compaction), chain_compact_ok (Compact on the chain index = Compact on the flat index, same
     CompactionResult, related states; flat side: Inv, MetaOK, contents unchanged),
     flat_put_MetaOK, flat_delete_MetaOK (any key), MetaOK_same, step_sim (chain vs flat, one base
     operation), step_refines', run_refines',
     C01_chain_refines_map_with_compact, flat_init_MetaOK, C01_chain_from_empty_with_compact,
     Module RunEx (a concrete run with two compactions; the hypotheses are satisfiable). *)
From Coq Require Import ZArith Lia ZifyN ZifyNat ZifyBool Permutation.
From Pogreb Require Import Base BaseLemmas Crc Bytes Record RecordProofs Flat Index Spec DB DBInv
  DBLemmas DBProofsOps DBMeta DBProofsCompact DBSim.
Ltac Zify.zify_post_hook ::= Z.div_mod_to_equations.

Local Notation stp := (@DB.st pindex).
Local Notation stf := (@DB.st flat).

(* ================================================================================================ *)
(** * 1. Operations, steps, runs *)

Inductive op' := OpBase (o : op) | OpCompact.

Definition step' {I} (ops : idx_ops I) (P : params) (s : @DB.st I) (o : op') : @DB.st I * out :=
  match o with
  | OpBase b => step ops P s b
  | OpCompact => db_compact ops P s
  end.
Definition step_chain' (P : params) : stp -> op' -> stp * out := step' chain_ops P.
Definition step_flat' (P : params) : stf -> op' -> stf * out := step' flat_ops P.

(* the specification: Compact does not change the map; its result is a placeholder *)
Definition step_spec' (m : smap) (o : op') : smap * out :=
  match o with
  | OpBase b => step_spec m b
  | OpCompact => (m, OCompact 0 0 0)
  end.

Fixpoint run' {S} (stepf : S -> op' -> S * out) (s : S) (l : list op') : list out :=
  match l with
  | [] => []
  | o :: l' => let '(s', r) := stepf s o in r :: run' stepf s' l'
  end.
Definition final' {S} (stepf : S -> op' -> S * out) (s : S) (l : list op') : S :=
  fold_left (fun s o => fst (stepf s o)) l s.

Definition op_valid' (o : op') : Prop := match o with OpBase b => op_valid b | OpCompact => True end.

(* against the plain map: Items up to order, the numbers of a CompactionResult are ignored.
   (Against the flat-index database the stronger [DBSim.out_equiv] holds: equal CompactionResults.) *)
Definition out_equiv' (a b : out) : Prop :=
  match a, b with
  | OItems l1, OItems l2 => Permutation l1 l2
  | OCompact _ _ _, OCompact _ _ _ => True
  | _, _ => a = b
  end.

Lemma out_equiv_weaken a b : out_equiv a b -> out_equiv' a b.
Proof. destruct a, b; cbn [out_equiv out_equiv']; intros H; try exact H; exact I. Qed.

Lemma out_equiv'_trans a b c : out_equiv' a b -> out_equiv' b c -> out_equiv' a c.
Proof.
  destruct a, b; cbn [out_equiv']; intros H1; try discriminate H1;
    destruct c; cbn [out_equiv']; intros H2; try discriminate H2; try exact I; try congruence.
  etransitivity; eassumption.
Qed.

(* the side conditions on the FLAT run: the 32-bit offset condition before every operation, and along
   every compaction *)
Inductive rooms' (P : params) : stf -> list op' -> Prop :=
| rooms'_nil s : rooms' P s []
| rooms'_cons s o l :
    (exists m, s_mem s = Some m /\ room m) ->
    (o = OpCompact -> compact_room P s) ->
    rooms' P (fst (step_flat' P s o)) l -> rooms' P s (o :: l).

(* ================================================================================================ *)
(** * 2. Maps up to pointwise equality ([abs] after a compaction is another list with the same lookups) *)

Definition meq (a b : smap) : Prop := forall k, sget a k = sget b k.

Lemma meq_refl a : meq a a. Proof. intros k. reflexivity. Qed.
Lemma meq_trans a b c : meq a b -> meq b c -> meq a c.
Proof. intros H1 H2 k. rewrite H1. apply H2. Qed.

Lemma meq_perm a b : NoDup (map fst a) -> NoDup (map fst b) -> meq a b -> Permutation a b.
Proof.
  intros Ha Hb H. apply NoDup_Permutation.
  - apply (NoDup_map_inv fst). exact Ha.
  - apply (NoDup_map_inv fst). exact Hb.
  - intros [k v]. rewrite <- (sget_In a k v Ha), <- (sget_In b k v Hb), (H k). tauto.
Qed.

Lemma meq_sput a b k v : meq a b -> meq (sput a k v) (sput b k v).
Proof. intros H k'. rewrite !sget_sput, (H k'). reflexivity. Qed.
Lemma meq_sdel a b k : meq a b -> meq (sdel a k) (sdel b k).
Proof. intros H k'. rewrite !sget_sdel, (H k'). reflexivity. Qed.

(* the specification step respects [meq] *)
Lemma step_spec_meq a b o :
  NoDup (map fst a) -> NoDup (map fst b) -> meq a b ->
  meq (fst (step_spec a o)) (fst (step_spec b o)) /\
  NoDup (map fst (fst (step_spec b o))) /\
  out_equiv (snd (step_spec a o)) (snd (step_spec b o)).
Proof.
  intros Ha Hb H. destruct o as [k v|k|k|k buf|k| | |]; cbn [step_spec fst snd out_equiv].
  - split; [apply meq_sput; exact H|]. split; [apply NoDup_sput; exact Hb|reflexivity].
  - split; [apply meq_sdel; exact H|]. split; [apply NoDup_sdel; exact Hb|reflexivity].
  - split; [exact H|]. split; [exact Hb|]. rewrite (H k). reflexivity.
  - split; [exact H|]. split; [exact Hb|]. rewrite (H k). reflexivity.
  - split; [exact H|]. split; [exact Hb|]. unfold shas. rewrite (H k). reflexivity.
  - split; [exact H|]. split; [exact Hb|]. unfold scount.
    rewrite (nlen_perm _ _ (meq_perm a b Ha Hb H)). reflexivity.
  - split; [exact H|]. split; [exact Hb|]. apply meq_perm; assumption.
  - split; [exact H|]. split; [exact Hb|reflexivity].
Qed.

(* ================================================================================================ *)
(** * 3. MetaOK along the flat run *)

Lemma MetaOK_same (s s' : stf) : s_mem s' = s_mem s -> s_disk s' = s_disk s -> MetaOK s -> MetaOK s'.
Proof. unfold MetaOK. intros -> ->. exact (fun H => H). Qed.

(* outside of a compaction the cursor is empty; the cursor invariant is then trivial *)
Definition c0 : cursor := {| c_todo := []; c_src := None; c_segs := 0; c_recs := 0; c_bytes := 0 |}.

Lemma CInv_c0 (s : stf) m : s_mem s = Some m -> CInv s c0.
Proof.
  intros Em. exists m. split; [exact Em|]. split; [intros x []|]. split; [constructor|].
  split; [exact I|]. intros x [].
Qed.

Lemma flat_put_MetaOK P (s : stf) k v :
  Inv P s -> (exists m, s_mem s = Some m /\ room m) ->
  Forall byte k -> Forall byte v -> nlen k <= max_key_len -> nlen v <= max_val_len ->
  MetaOK s -> MetaOK (fst (db_put flat_ops P k v s)).
Proof.
  intros HI Hm Hbk Hbv Hk Hv HM. destruct Hm as (m & Em & Hroom).
  apply (put_preserves_MetaOK P s c0 k v HI (ex_intro _ m (conj Em Hroom)) Hbk Hbv Hk Hv (CInv_c0 s m Em) HM).
Qed.

(* Delete with ANY key: a key that is not in the index leaves memory and disk as they are *)
Lemma flat_delete_MetaOK P (s : stf) k :
  Inv P s -> (exists m, s_mem s = Some m /\ room m) ->
  MetaOK s -> MetaOK (fst (db_delete flat_ops P k s)).
Proof.
  intros HI (m & Em & Hroom) HM.
  destruct (Inv_open P s m Em HI) as (HL & Hidx & _). assert (Hd : DiskOK (s_disk s)) by apply HL.
  destruct (fl_del (m_idx m) (p_hash P (m_seed m) k) (matchf (s_disk s) k)) as [i1 [o|]] eqn:Edel.
  - pose proof (del_found_bytes P _ _ _ k i1 o Hd Hidx Edel) as Hbk.
    apply (delete_preserves_MetaOK P s c0 k HI (ex_intro _ m (conj Em Hroom)) Hbk (CInv_c0 s m Em) HM).
  - destruct (del_absent P _ _ _ k i1 Hd Hidx Edel) as [-> _].
    destruct (finish_spec P s m) as (s' & Ef & Ems' & Eds' & _).
    unfold db_delete. rewrite Em. cbn [ix_del flat_ops]. rewrite Edel, Ef. cbn [fst].
    apply (MetaOK_same s s'); [congruence|exact Eds'|exact HM].
Qed.

(* ================================================================================================ *)
(** * 4. Compact on the chain index *)

(* the invariants of DBProofsCompact give the side condition of DBSim.sim_compact_run *)
Lemma cinv_of_CInv P fuel : forall (s : stf) c,
  Inv P s -> CInv s c -> run_room P fuel s c -> cinv P fuel s c.
Proof.
  induction fuel as [|f IH]; intros s c HI HC Hr; [constructor|].
  cbn [run_room] in Hr. destruct Hr as [Hm Hrest]. constructor; [exact HI|].
  intros s' c' E. pose proof (compact_step_ok P s c HI HC Hm) as Hstep.
  rewrite E in Hstep, Hrest. destruct Hstep as (HI' & HC' & _). apply IH; assumption.
Qed.

Theorem chain_compact_ok P (sp : stp) (sf : stf) :
  st_rel sp sf -> Inv P sf -> MetaOK sf -> s_mem sf <> None -> compact_room P sf ->
  let '(sp', o) := db_compact chain_ops P sp in
  let '(sf', of) := db_compact flat_ops P sf in
  o = of /\ (exists a b n, o = OCompact a b n) /\ st_rel sp' sf' /\ Inv P sf' /\ MetaOK sf' /\
  s_mem sf' <> None /\ meq (abs (s_disk sf')) (abs (s_disk sf)).
Proof.
  intros Hs HI HM Hm Hroom.
  assert (Hsim : so_rel idx_rel (db_compact chain_ops P sp) (db_compact flat_ops P sf)).
  { apply sim_db_compact; [exact Hs|]. intros s1 c Ep. apply cuniq_of_Inv.
    destruct (compact_pick_ok P sf HI HM Hm) as (s1' & c' & Ep' & HI1 & HC1 & _).
    rewrite Ep in Ep'. inversion Ep'; subst s1' c'.
    unfold compact_room in Hroom. rewrite Ep in Hroom. apply cinv_of_CInv; assumption. }
  pose proof (db_compact_ok P sf HI HM Hm Hroom) as Hf.
  destruct (db_compact chain_ops P sp) as [sp' o]. destruct (db_compact flat_ops P sf) as [sf' of].
  destruct Hsim as [Ho Hs']. cbn [fst snd] in Ho, Hs'. subst of.
  destruct Hf as (A1 & A2 & A3 & A4 & A5 & _). repeat split; assumption.
Qed.

(* ================================================================================================ *)
(** * 5. One step *)

(* a base operation on the chain index against the same operation on the flat index *)
Lemma step_sim P (sp : stp) (sf : stf) o :
  st_rel sp sf -> Inv P sf -> op_valid o -> (exists m, s_mem sf = Some m /\ room m) ->
  out_equiv (snd (step_chain P sp o)) (snd (step_flat P sf o)).
Proof.
  intros Hs HI Hv Hroom. unfold step_chain, step_flat.
  destruct o as [k v|k|k|k buf|k| | |]; cbn [step fst snd].
  - destruct Hv as (Hbk & Hbv & Hk & Hvl).
    destruct (sim_put_so P sp sf k v Hs HI Hroom Hbk Hbv Hk Hvl) as [-> _]. apply out_equiv_refl.
  - destruct (sim_delete_so P sp sf k Hs HI) as [-> _]. apply out_equiv_refl.
  - rewrite (sim_get P sp sf k Hs HI). apply out_equiv_refl.
  - rewrite (sim_get_append P sp sf k buf Hs HI). apply out_equiv_refl.
  - rewrite (sim_has P sp sf k Hs HI). apply out_equiv_refl.
  - rewrite (sim_count sp sf Hs). apply out_equiv_refl.
  - apply (sim_items P); assumption.
  - destruct (sync_rel idx_rel chain_ops flat_ops idx_rel_empty sp sf Hs) as [-> _]. apply out_equiv_refl.
Qed.

Lemma base_MetaOK P (sf : stf) o :
  Inv P sf -> op_valid o -> (exists m, s_mem sf = Some m /\ room m) -> MetaOK sf ->
  MetaOK (fst (step_flat P sf o)).
Proof.
  intros HI Hv Hroom HM. unfold step_flat. destruct o as [k v|k|k|k buf|k| | |]; cbn [step fst]; try exact HM.
  - destruct Hv as (Hbk & Hbv & Hk & Hvl). apply flat_put_MetaOK; assumption.
  - apply flat_delete_MetaOK; assumption.
  - assert (Hopen : s_mem sf <> None) by (destruct Hroom as (m & -> & _); discriminate).
    pose proof (sync_ok P sf HI Hopen) as H. destruct (db_sync flat_ops sf) as [sf' of]. cbn [fst].
    destruct H as (_ & _ & Ed & Em). apply (MetaOK_same sf sf'); assumption.
Qed.

Lemma step_refines' P (sp : stp) (sf : stf) (ms : smap) o :
  params_ok P -> st_rel sp sf -> Inv P sf -> MetaOK sf ->
  meq (abs (s_disk sf)) ms -> NoDup (map fst ms) -> op_valid' o ->
  (exists m, s_mem sf = Some m /\ room m) -> (o = OpCompact -> compact_room P sf) ->
  st_rel (fst (step_chain' P sp o)) (fst (step_flat' P sf o)) /\
  Inv P (fst (step_flat' P sf o)) /\ MetaOK (fst (step_flat' P sf o)) /\
  meq (abs (s_disk (fst (step_flat' P sf o)))) (fst (step_spec' ms o)) /\
  NoDup (map fst (fst (step_spec' ms o))) /\
  out_equiv' (snd (step_chain' P sp o)) (snd (step_spec' ms o)) /\
  out_equiv (snd (step_chain' P sp o)) (snd (step_flat' P sf o)).
Proof.
  intros HP Hs HI HM Hq Hnd Hv Hroom Hcr.
  assert (Hopen : s_mem sf <> None) by (destruct Hroom as (m & -> & _); discriminate).
  unfold step_chain', step_flat'. destruct o as [b|]; cbn [step' step_spec' op_valid'] in *.
  - destruct (step_refines P sp sf b HP Hs HI Hv Hroom) as (A & B & C & D).
    destruct (step_spec_meq (abs (s_disk sf)) ms b (abs_NoDup _) Hnd Hq) as (E & F & G).
    split; [exact A|]. split; [exact B|]. split; [apply base_MetaOK; assumption|].
    split; [unfold step_flat in C; rewrite C; exact E|]. split; [exact F|].
    split; [|apply step_sim; assumption].
    eapply out_equiv'_trans; apply out_equiv_weaken; eassumption.
  - pose proof (chain_compact_ok P sp sf Hs HI HM Hopen (Hcr eq_refl)) as H.
    destruct (db_compact chain_ops P sp) as [sp' o]. destruct (db_compact flat_ops P sf) as [sf' of].
    destruct H as (-> & (a & b & n & ->) & A & B & C & _ & D). cbn [fst snd].
    split; [exact A|]. split; [exact B|]. split; [exact C|].
    split; [eapply meq_trans; eassumption|]. split; [exact Hnd|]. split; [exact I|reflexivity].
Qed.

(* ================================================================================================ *)
(** * 6. Runs *)

Lemma run_refines' P (l : list op') : params_ok P -> forall (sp : stp) (sf : stf) (ms : smap),
  st_rel sp sf -> Inv P sf -> MetaOK sf -> meq (abs (s_disk sf)) ms -> NoDup (map fst ms) ->
  Forall op_valid' l -> rooms' P sf l ->
  Forall2 out_equiv' (run' (step_chain' P) sp l) (run' step_spec' ms l) /\
  Forall2 out_equiv (run' (step_chain' P) sp l) (run' (step_flat' P) sf l) /\
  st_rel (final' (step_chain' P) sp l) (final' (step_flat' P) sf l) /\
  Inv P (final' (step_flat' P) sf l) /\ MetaOK (final' (step_flat' P) sf l) /\
  meq (abs (s_disk (final' (step_flat' P) sf l))) (final' step_spec' ms l).
Proof.
  intros HP. unfold final'. induction l as [|o l IH]; intros sp sf ms Hs HI HM Hq Hnd Hv Hr.
  - cbn [run' fold_left]. repeat split; try assumption; constructor.
  - inversion Hv as [|? ? Hvo Hvl]; subst. inversion Hr as [|? ? ? Hro Hrc Hrl]; subst.
    destruct (step_refines' P sp sf ms o HP Hs HI HM Hq Hnd Hvo Hro Hrc) as (A & B & C & D & E & F & G).
    cbn [run' fold_left].
    destruct (IH _ _ _ A B C D E Hvl Hrl) as (R1 & R2 & R3 & R4 & R5 & R6).
    destruct (step_chain' P sp o) as [sp' rp]. destruct (step_flat' P sf o) as [sf' rf].
    destruct (step_spec' ms o) as [ms' rs]. cbn [fst snd] in *.
    split; [constructor; assumption|]. split; [constructor; assumption|]. repeat split; assumption.
Qed.

(* C01 with Compact, for the real index *)
Theorem C01_chain_refines_map_with_compact P (sp : stp) (sf : stf) (l : list op') :
  params_ok P -> st_rel sp sf -> Inv P sf -> MetaOK sf -> Forall op_valid' l -> rooms' P sf l ->
  (* the outputs are those of the plain map (Items up to order, CompactionResult numbers ignored) *)
  Forall2 out_equiv' (run' (step_chain' P) sp l) (run' step_spec' (abs (s_disk sf)) l) /\
  (* ... and those of the flat-index database (Items up to order, CompactionResults EQUAL) *)
  Forall2 out_equiv (run' (step_chain' P) sp l) (run' (step_flat' P) sf l) /\
  (* the final states are again related; invariants of the flat one; its contents *)
  let sp' := final' (step_chain' P) sp l in
  let sf' := final' (step_flat' P) sf l in
  st_rel sp' sf' /\ Inv P sf' /\ MetaOK sf' /\
  meq (abs (s_disk sf')) (final' step_spec' (abs (s_disk sf)) l).
Proof.
  intros HP Hs HI HM Hv Hr. cbv zeta.
  exact (run_refines' P l HP sp sf (abs (s_disk sf)) Hs HI HM (meq_refl _) (abs_NoDup _) Hv Hr).
Qed.

(* ================================================================================================ *)
(** * 7. From a fresh database *)

Lemma flat_init_MetaOK seed : MetaOK (flat_init seed).
Proof.
  unfold MetaOK, flat_init. cbn [s_mem s_disk m_segs].
  intros g f [<-|[]] Ef. cbn [g_id] in Ef. vm_compute in Ef. injection Ef as <-. reflexivity.
Qed.

Corollary C01_chain_from_empty_with_compact P seed (l : list op') :
  params_ok P -> Forall op_valid' l -> rooms' P (flat_init seed) l ->
  let sp0 := fst (db_open chain_ops P seed st0) in
  Forall2 out_equiv' (run' (step_chain' P) sp0 l) (run' step_spec' [] l) /\
  Forall2 out_equiv (run' (step_chain' P) sp0 l) (run' (step_flat' P) (flat_init seed) l) /\
  let sp' := final' (step_chain' P) sp0 l in
  let sf' := final' (step_flat' P) (flat_init seed) l in
  st_rel sp' sf' /\ Inv P sf' /\ MetaOK sf' /\ meq (abs (s_disk sf')) (final' step_spec' [] l).
Proof.
  intros HP Hv Hr. pose proof (init_rel P seed) as H. rewrite flat_open_fresh in H.
  destruct (db_open chain_ops P seed st0) as [sp o]. destruct H as (_ & _ & Hs & HI & _ & Ea).
  cbn [fst]. cbv zeta. rewrite <- Ea.
  apply C01_chain_refines_map_with_compact; try assumption. apply flat_init_MetaOK.
Qed.

(* ================================================================================================ *)
(** * 8. Executable side conditions and a concrete run with compactions *)

Fixpoint run_room_b (P : params) (fuel : nat) (s : stf) (c : cursor) : bool :=
  match fuel with
  | O => true
  | S f => match s_mem s with Some m => room_b m | None => false end &&
           match compact_step flat_ops P s c with
           | CMore s' c' => run_room_b P f s' c'
           | _ => true
           end
  end.

Lemma run_room_b_ok P fuel : forall s c, run_room_b P fuel s c = true -> run_room P fuel s c.
Proof.
  induction fuel as [|f IH]; intros s c H; [exact I|]. cbn [run_room_b] in H. cbn [run_room].
  apply andb_true_iff in H. destruct H as [A B]. split.
  - destruct (s_mem s) as [m|]; [|discriminate]. exists m. split; [reflexivity|apply room_b_ok; exact A].
  - destruct (compact_step flat_ops P s c) as [|s' c'|w]; [exact I|apply IH; exact B|exact I].
Qed.

Definition compact_room_b (P : params) (s : stf) : bool :=
  match compact_pick flat_ops P s with
  | Some (s1, c) => run_room_b P (S (2 * length (c_todo c) + 2 * total_recs (s_disk s1) + 2)) s1 c
  | None => true
  end.

Lemma compact_room_b_ok P s : compact_room_b P s = true -> compact_room P s.
Proof.
  unfold compact_room_b, compact_room. destruct (compact_pick flat_ops P s) as [[s1 c]|]; [|intros _; exact I].
  apply run_room_b_ok.
Qed.

Definition op_valid'_b (o : op') : bool := match o with OpBase b => op_valid_b b | OpCompact => true end.

Lemma ops_valid'_b_ok l : forallb op_valid'_b l = true -> Forall op_valid' l.
Proof.
  intros H. apply Forall_forall. intros o Ho. pose proof (proj1 (forallb_forall _ _) H o Ho) as Hb.
  destruct o as [b|]; [apply op_valid_b_ok; exact Hb|exact I].
Qed.

Fixpoint rooms'_b (P : params) (s : stf) (l : list op') : bool :=
  match l with
  | [] => true
  | o :: l' => match s_mem s with Some m => room_b m | None => false end &&
               match o with OpCompact => compact_room_b P s | _ => true end &&
               rooms'_b P (fst (step_flat' P s o)) l'
  end.

Lemma rooms'_b_ok P l : forall s, rooms'_b P s l = true -> rooms' P s l.
Proof.
  induction l as [|o l IH]; intros s H; [constructor|]. cbn [rooms'_b] in H.
  apply andb_true_iff in H. destruct H as [H C]. apply andb_true_iff in H. destruct H as [A B].
  constructor; [| |apply IH; exact C].
  - destruct (s_mem s) as [m|]; [|discriminate]. exists m. split; [reflexivity|apply room_b_ok; exact A].
  - intros ->. apply compact_room_b_ok. exact B.
Qed.

Module RunEx.
(* one hash for every key, no split, segments of at most 600 bytes (about 6 records each), every
   segment is always worth compacting *)
Definition exP : params :=
  {| p_maxseg := 600; p_minseg := 0; p_frag := fun _ _ => true; p_sync := true;
     p_grow := fun _ _ => false; p_hash := fun _ _ => 7 |}.

Definition key_of (i : nat) : key := [N.of_nat i].
Definition val_of (i : nat) : val := [N.of_nat i; N.of_nat i].
Definition put (i : nat) : op' := OpBase (OpPut (key_of i) (val_of i)).

Definition ex_ops : list op' :=
  map put (seq 1 40) ++
  [OpBase (OpDelete (key_of 3)); OpBase (OpPut (key_of 5) (val_of 50)); OpCompact;
   OpBase (OpGet (key_of 3)); OpBase (OpGet (key_of 5)); OpBase (OpGet (key_of 32)); OpBase OpCount;
   put 41; OpBase (OpDelete (key_of 40)); OpCompact; OpBase OpSync;
   OpBase (OpGet (key_of 41)); OpBase (OpHas (key_of 40)); OpBase OpCount; OpCompact].

Definition sp0 : stp := fst (db_open chain_ops exP 1 st0).

Lemma exP_ok : params_ok exP.
Proof. vm_compute. reflexivity. Qed.

(* the theorem applies: its hypotheses hold for this run *)
Example ex_run :
  Forall2 out_equiv' (run' (step_chain' exP) sp0 ex_ops) (run' step_spec' [] ex_ops) /\
  Forall2 out_equiv (run' (step_chain' exP) sp0 ex_ops) (run' (step_flat' exP) (flat_init 1) ex_ops) /\
  st_rel (final' (step_chain' exP) sp0 ex_ops) (final' (step_flat' exP) (flat_init 1) ex_ops) /\
  Inv exP (final' (step_flat' exP) (flat_init 1) ex_ops) /\
  MetaOK (final' (step_flat' exP) (flat_init 1) ex_ops).
Proof.
  destruct (C01_chain_from_empty_with_compact exP 1 ex_ops exP_ok) as (A & B & C & D & E & _).
  - apply ops_valid'_b_ok. vm_compute. reflexivity.
  - apply rooms'_b_ok. vm_compute. reflexivity.
  - exact (conj A (conj B (conj C (conj D E)))).
Qed.

(* what the run returns: the compactions do real work (segments removed, records reclaimed), and the
   chain index still has its overflow bucket *)
Example ex_outputs :
  skipn 40 (run' (step_chain' exP) sp0 ex_ops) =
    [OOk; OOk; OCompact 7 3 37; OVal None; OVal (Some (val_of 50)); OVal (Some (val_of 32)); ONum 39;
     OOk; OOk; OCompact 7 2 24; OOk; OVal (Some (val_of 41)); OBool false; ONum 39; OCompact 7 0 0].
Proof. vm_compute. reflexivity. Qed.

Example ex_final_shape :
  SimEx.chain_shape (final' (step_chain' exP) sp0 ex_ops) = [[31; 8]]%nat /\
  length (d_segs (s_disk (final' (step_chain' exP) sp0 ex_ops))) = 7%nat.
Proof. split; vm_compute; reflexivity. Qed.
End RunEx.

(* ================================================================================================ *)
Print Assumptions cinv_of_CInv.
Print Assumptions chain_compact_ok.
Print Assumptions flat_put_MetaOK.
Print Assumptions flat_delete_MetaOK.
Print Assumptions step_sim.
Print Assumptions step_refines'.
Print Assumptions run_refines'.
Print Assumptions C01_chain_refines_map_with_compact.
Print Assumptions flat_init_MetaOK.
Print Assumptions C01_chain_from_empty_with_compact.
Print Assumptions rooms'_b_ok.
Print Assumptions RunEx.ex_run.
Print Assumptions RunEx.ex_outputs.
Print Assumptions RunEx.ex_final_shape.
