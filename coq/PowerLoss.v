(* PowerLoss.v -- properties C06 "synced writes survive power loss through rollover, compaction and
   recovery" and C09 "a cleanly closed database is a durable checkpoint" for the database model (DB.v)
   instantiated with the flat reference index.  No axioms (Print Assumptions at the end).

   THE POWER-LOSS MODEL (section 1).  The history [es] is the list of ALL file-system events issued
   since a disk [d0] whose content is entirely durable.  Events are of three kinds ([event_kinds]):
     dir_event e          ECreate, ERename, ERemove: durable and ordered as issued, never lost;
     data_file e = Some f a write / truncation of the DATA of file f (EHeader f, EAppend -> the segment
                          file, ETrunc f, EIndex -> FMain, EGobSeg -> the side file, EGobIndex, EGobDb);
     sync_file e = Some f ESync f.
   [pl L d es L' img]  (inductive): with [L] the set of files that have already lost a write, the events
   [es] are issued on top of the durable content [d]; [img] is a directory the file system may show
   after the power failure, [L'] the files that have lost a write.  Per event:
     pl_keep   the event reaches the disk; for a data event of f, and for ESync f, this requires that f
               has not lost a write before (the durable content of a file is a PREFIX of the writes
               issued on it; data followed by a Sync of its file is durable);
     pl_drop   a data event is lost (the file is added to L: all its later writes are lost too);
     pl_tear   an append is cut: only the first c bytes, 0 < c < size, reach the file ([torn] of
               DBProofsCrash.v); the file counts as having lost a write.
   Directory events and Syncs cannot be dropped (no constructor).  A file is identified by its NAME:
   ERemove f / ERename f _ make the name forget its pending loss ([forget]: the pending data is gone with
   the file; a file created later under the same name is a new file).  Nothing else is reset: creating
   a file that exists does not truncate it.  Segment names are never reused (sequence ids are fresh), so
   for segment files "name" and "file" coincide.
   Executable forms: [pl_exec] (one choice Keep | Drop | Tear c per event; [pl_exec_sound]) and the
   function of the task statement, [pl_apply drop es d0] with the admissibility predicate [pl_ok]
   (a) (b) (c); [pl_ok_image]: every admissible [drop] is an image of [pl] (which admits more images:
   torn appends, re-created names), so all theorems below hold for [pl_apply] as well.
   Abstracted: no reordering of the writes of ONE file (prefix semantics, as specified); the content of
   *.bac files and of overflow.pix is not modelled by DB.v at all (names only).

   WHAT AN IMAGE HAS IN COMMON WITH THE REAL DISK (section 2).  [Agree L d img]: the image agrees with
   the real disk on every file that has not lost a write: segment file proper (seg_core), side file,
   main.pix, index.pmt, db.pmt; and always on the directory structure, the lock file and the *.bac
   names.  [pl_agree]: preserved by every event, whatever the history.

   THE SYNC DISCIPLINE: "Durable" (section 3).  My formulation is a property of the HISTORY ALONE, the
   run of a three-rule automaton [dur_step] whose state [u : option (id, seq)] is the one segment file
   that may hold unflushed data:
     - data may be written to a segment file only if no OTHER segment file is unflushed;
     - ESync of the unflushed segment file clears the state;
     - every event that is not [quiet] (creation / removal / rename of a segment file, of the lock file,
       anything that changes the *.bac names) requires that NO segment file is unflushed.
   [Durable es := dur None es <> None].  It says: at every instant at most one segment file has appends
   that are not followed by a Sync, and a segment file is created or removed (compaction!) only when
   every append issued so far is flushed.  It is inductive over events by construction; that the
   operations keep it needs the link to the in-memory state
     DurM u m := u = Some x -> x is the current segment of m and it is not sealed (sm_full = false),
   and [put_dur], [delete_dur], [sync_dur], [pick_dur], [cstep_dur] (from [seal_dur], [wr_dur],
   [do_sync_dur], [remove_segment_dur]) show, on Inv (+ CInv, room) states, by going through the events
   each operation emits: the automaton accepts the events and DurM holds again; after db_sync (or any
   Put / Delete with p_sync) the state is None: nothing is pending.  These are the places where the
   flushes of DB.v matter: the Sync in [seal] (rollover and pick), in [remove_segment] and in [do_sync].

   THE REDUCTION [pl_reduce] / [pl_is_crash_image]: for a history that keeps the discipline, every
   power-loss image is either complete on all segment files, or it coincides, on everything a recovery
   looks at ([Same]: segment files proper, lock, *.bac names), with a PROCESS-CRASH image
   ([crash_image] of DBProofsCrash.v) of the same history, namely the crash taken at the first write to
   a segment file that was lost ([frozen]: after that instant nothing a recovery looks at can change,
   because every later Sync, rollover or removal would be inadmissible).  Hence C06 follows from the
   process-crash theorems C03 for every kind of step.

   THEOREMS (sections 5-7; histories [xrun]: Put / Delete / Sync and the compaction micro-steps pick /
   step interleaved in any way, from a state whose disk is durable, e.g. a freshly created database or
   the state C09 ends in; run-time side conditions [room], [MetaOK] (for the pick) as in the other files):
     C06_image                 every image at any point of a history from a state with nothing pending is
                               recoverable (DiskOK, bac_ok, lock) and holds the contents after SOME PREFIX of
                               the steps (a consistent snapshot; compaction steps do not change contents)
     C06_synced_writes_survive a Sync (or a writer with p_sync) completed with contents A0; any later steps;
                               power failure after any prefix of their events; any admissible image:
                               db_open succeeds (OOpened true, Inv) and the contents are
                               xspec_hist (firstn j os) A0 for some j <= length os.  C06_per_key: per key
     C06_no_compaction         the same for writer-only histories, with spec_hist of DBProofsCrash.v
     C06_image_is_log_prefix   writer-only histories: olog img = olog(at the sync point) ++ l1 and
                               olog(current) = olog img ++ l2.  With compaction the log of the image is the
                               log at the crash point of the reduction (a removed source segment is missing
                               from it, its live records are in newer segments, flushed before the
                               removal); the statement that holds is the one on contents, C06_image
     C09_closed_is_durable     after a complete db_close EVERY admissible image of the whole history is
                               the closed disk itself (all components; the bookkeeping list d_orphans,
                               which no clean Open reads, excepted)
     C09_reopen                hence db_open = OOpened false, Inv, the closed contents ([db_open_orph])
     C09_power_loss_during_reopen   power failure during that next Open: the directory is either still the
                               closed one or a locked one with fully durable segments; a further db_open
                               yields Inv and the closed contents
     seal_without_sync_refuted, remove_before_sync_refuted   (vm_compute) without the Sync in sealSegment,
                               resp. before the removal of a compacted segment, the discipline is violated
                               and an admissible image loses a key although Sync had completed
     C06_nonvacuous, C06_nonvacuous_recover   a concrete history with rollover and Sync; two admissible
                               images (a lost append with its index write kept; a torn append)
     C06_nonvacuous_compaction a concrete history with Sync, pick and the micro-steps of one segment; the
                               image in which the promoted copy is lost (admissible only before the removal
                               of the source is issued); C06_synced_writes_survive applied to it
   NOT COVERED: histories that contain a recovery (db_open on a locked directory) between the durable
   starting point and the power failure: recovery renames files while the newest segment may hold
   unflushed data, which the automaton (rightly: the *.bac names change) does not accept; the
   reduction would have to be generalised to "crash image followed by the directory events". *)
From Coq Require Import ZArith Lia ZifyN ZifyNat ZifyBool Permutation.
From Pogreb Require Import Base BaseLemmas Crc Bytes Record RecordProofs Flat Spec DB DBInv DBLemmas
  DBProofsOps DBMeta DBProofsRecovery DBProofsCompact DBProofsCrash.
Ltac Zify.zify_post_hook ::= Z.div_mod_to_equations.

Local Notation disk := (@DB.disk flat).
Local Notation st := (@DB.st flat).
Local Notation mem := (@DB.mem flat).
Local Notation fsev := (@DB.fsev flat).
Local Notation run_evs := (fold_left (apply_ev flat_ops)).

(* ================================================================================================ *)
(* 1. The power-loss model                                                                           *)

Definition dir_event (e : fsev) : bool :=
  match e with ECreate _ | ERename _ _ | ERemove _ => true | _ => false end.

Definition data_file (e : fsev) : option fname :=
  match e with
  | EHeader f => Some f
  | EAppend id seq _ _ => Some (FSeg id seq)
  | ETrunc f _ => Some f
  | EIndex _ => Some FMain
  | EGobSeg id seq _ => Some (FSegMeta id seq)
  | EGobIndex _ => Some FIndexMeta
  | EGobDb _ => Some FDbMeta
  | _ => None
  end.

Definition sync_file (e : fsev) : option fname := match e with ESync f => Some f | _ => None end.

(* every event is of exactly one kind *)
Lemma event_kinds (e : fsev) :
  (dir_event e = true /\ data_file e = None /\ sync_file e = None) \/
  (dir_event e = false /\ data_file e <> None /\ sync_file e = None) \/
  (dir_event e = false /\ data_file e = None /\ sync_file e <> None).
Proof. destruct e; cbn; intuition discriminate. Qed.

(* sets of file names *)
Definition fset := fname -> bool.
Definition fnone : fset := fun _ => false.
Definition fadd (f : fname) (L : fset) : fset := fun g => fname_eqb g f || L g.
Definition fdel (f : fname) (L : fset) : fset := fun g => negb (fname_eqb g f) && L g.

Lemma fadd_same f L : fadd f L f = true.
Proof. unfold fadd. rewrite rc_fname_eqb_refl. reflexivity. Qed.
Lemma fadd_other f L g : g <> f -> fadd f L g = L g.
Proof.
  intros H. unfold fadd. destruct (fname_eqb g f) eqn:E; [|reflexivity].
  apply rc_fname_eqb_spec in E. congruence.
Qed.
Lemma fadd_mono f L g : L g = true -> fadd f L g = true.
Proof. intros H. unfold fadd. rewrite H. apply orb_true_r. Qed.
Lemma fadd_false f L g : fadd f L g = false -> L g = false.
Proof. unfold fadd. intros H. apply orb_false_iff in H. apply H. Qed.
Lemma fadd_true f L g : fadd f L g = true -> g = f \/ L g = true.
Proof.
  unfold fadd. intros H. apply orb_true_iff in H. destruct H as [H|H]; [left|right; exact H].
  apply rc_fname_eqb_spec. exact H.
Qed.
Lemma fdel_same f L : fdel f L f = false.
Proof. unfold fdel. rewrite rc_fname_eqb_refl. reflexivity. Qed.
Lemma fdel_other f L g : g <> f -> fdel f L g = L g.
Proof.
  intros H. unfold fdel. destruct (fname_eqb g f) eqn:E; [|reflexivity].
  apply rc_fname_eqb_spec in E. congruence.
Qed.
Lemma fdel_le f L g : fdel f L g = true -> L g = true.
Proof. unfold fdel. intros H. apply andb_true_iff in H. apply H. Qed.

(* a removed (or renamed away) file takes its pending data with it *)
Definition forget (e : fsev) (L : fset) : fset :=
  match e with ERemove f => fdel f L | ERename f _ => fdel f L | _ => L end.

Lemma forget_le e L g : forget e L g = true -> L g = true.
Proof. destruct e; cbn [forget]; try (intros H; exact H); apply fdel_le. Qed.

(* [pl L d es L' img]: starting from the durable content [d], with [L] the files that have already
   lost a write, the events [es] are issued and then the power fails: [img] is what is found
   afterwards and [L'] the files that have lost a write. *)
Inductive pl : fset -> disk -> list fsev -> fset -> disk -> Prop :=
| pl_nil L d : pl L d [] L d
| pl_keep L d e es L' img :
    (forall f, data_file e = Some f -> L f = false) ->
    (forall f, sync_file e = Some f -> L f = false) ->
    pl (forget e L) (apply_ev flat_ops d e) es L' img ->
    pl L d (e :: es) L' img
| pl_drop L d e f es L' img :
    data_file e = Some f ->
    pl (fadd f L) d es L' img ->
    pl L d (e :: es) L' img
| pl_tear L d id seq off r c es L' img :
    L (FSeg id seq) = false -> 0 < c -> c < rsize r ->
    pl (fadd (FSeg id seq) L) (torn d id seq r c) es L' img ->
    pl L d (EAppend id seq off r :: es) L' img.

Lemma pl_app_inv es1 : forall L d es2 L' img,
  pl L d (es1 ++ es2) L' img -> exists L1 d1, pl L d es1 L1 d1 /\ pl L1 d1 es2 L' img.
Proof.
  induction es1 as [|e es1 IH]; intros L d es2 L' img H.
  - exists L, d. split; [apply pl_nil|exact H].
  - rewrite <- app_comm_cons in H.
    inversion H as [|L0 d0 e0 es0 L0' img0 H1 H2 H3|L0 d0 e0 f es0 L0' img0 H1 H3|L0 d0 id seq off r c es0 L0' img0 H1 H2 H2' H3]; subst.
    + destruct (IH _ _ _ _ _ H3) as (L1 & d1 & A & B). exists L1, d1. split; [|exact B].
      apply pl_keep; assumption.
    + destruct (IH _ _ _ _ _ H3) as (L1 & d1 & A & B). exists L1, d1. split; [|exact B].
      eapply pl_drop; eassumption.
    + destruct (IH _ _ _ _ _ H3) as (L1 & d1 & A & B). exists L1, d1. split; [|exact B].
      eapply pl_tear; eassumption.
Qed.

Lemma pl_app es1 : forall L d es2 L1 d1 L' img,
  pl L d es1 L1 d1 -> pl L1 d1 es2 L' img -> pl L d (es1 ++ es2) L' img.
Proof.
  intros L d es2 L1 d1 L' img H. revert es2 L' img.
  induction H as [L d|L d e es L1 d1 H1 H2 H3 IH|L d e f es L1 d1 H1 H3 IH|L d id seq off r c es L1 d1 H1 H2 H2' H3 IH];
    intros es2 L' img H'.
  - exact H'.
  - rewrite <- app_comm_cons. apply pl_keep; [exact H1|exact H2|apply IH; exact H'].
  - rewrite <- app_comm_cons. eapply pl_drop; [exact H1|apply IH; exact H'].
  - rewrite <- app_comm_cons. apply (pl_tear _ _ _ _ _ _ c); [exact H1|exact H2|exact H2'|apply IH; exact H'].
Qed.

(* nothing is lost: the complete history is an admissible image *)
Lemma pl_full es : forall L d, (forall f, L f = false) ->
  exists L', pl L d es L' (run_evs es d) /\ forall f, L' f = false.
Proof.
  induction es as [|e es IH]; intros L d HL; [exists L; split; [apply pl_nil|exact HL]|].
  destruct (IH (forget e L) (apply_ev flat_ops d e)) as (L' & H & HL').
  { intros f. destruct (forget e L f) eqn:E; [|reflexivity]. apply forget_le in E. rewrite HL in E. discriminate. }
  exists L'. split; [|exact HL']. apply pl_keep; [intros f _; apply HL|intros f _; apply HL|exact H].
Qed.

(* ---- executable form: one choice per event ---- *)
Inductive plc := Keep | Drop | Tear (c : N).

Fixpoint pl_exec (cs : list plc) (L : fset) (d : disk) (es : list fsev) : option (fset * disk) :=
  match cs with
  | [] => match es with [] => Some (L, d) | _ :: _ => None end
  | c :: cs' =>
    match es with
    | [] => None
    | e :: es' =>
      match c with
      | Keep =>
          if match data_file e with Some f => L f | None => false end then None
          else if match sync_file e with Some f => L f | None => false end then None
          else pl_exec cs' (forget e L) (apply_ev flat_ops d e) es'
      | Drop =>
          match data_file e with
          | Some f => pl_exec cs' (fadd f L) d es'
          | None => None
          end
      | Tear n =>
          match e with
          | EAppend id seq off r =>
              if L (FSeg id seq) then None
              else if negb ((0 <? n) && (n <? rsize r)) then None
              else pl_exec cs' (fadd (FSeg id seq) L) (torn d id seq r n) es'
          | _ => None
          end
      end
    end
  end.

Lemma pl_exec_sound cs : forall L d es L' img,
  pl_exec cs L d es = Some (L', img) -> pl L d es L' img.
Proof.
  induction cs as [|c cs IH]; intros L d es L' img H.
  - destruct es; [|discriminate H]. cbn [pl_exec] in H. inversion H; subst. apply pl_nil.
  - destruct es as [|e es]; [discriminate H|]. destruct c as [| |c].
    + cbn [pl_exec] in H.
      destruct (match data_file e with Some f => L f | None => false end) eqn:E1; [discriminate|].
      destruct (match sync_file e with Some f => L f | None => false end) eqn:E2; [discriminate|].
      apply pl_keep; [| |apply IH; exact H].
      * intros f Hf. rewrite Hf in E1. exact E1.
      * intros f Hf. rewrite Hf in E2. exact E2.
    + cbn [pl_exec] in H. destruct (data_file e) as [f|] eqn:E1; [|discriminate].
      eapply pl_drop; [exact E1|apply IH; exact H].
    + destruct e as [f|f|id seq off r|i|id seq m|i|sd|f n|f g|f|f]; try discriminate H.
      cbn [pl_exec] in H. destruct (L (FSeg id seq)) eqn:E1; [discriminate|].
      destruct ((0 <? c) && (c <? rsize r)) eqn:E2; [|discriminate]. cbn [negb] in H.
      apply andb_true_iff in E2. destruct E2 as [A B].
      apply (pl_tear _ _ _ _ _ _ c); [exact E1|apply N.ltb_lt; exact A|apply N.ltb_lt; exact B|apply IH; exact H].
Qed.

(* ---- the same model as a function: event number i is applied unless [drop i] ---- *)
Fixpoint pl_apply (drop : nat -> bool) (es : list fsev) (d : disk) : disk :=
  match es with
  | [] => d
  | e :: es' => pl_apply (fun i => drop (S i)) es' (if drop O then d else apply_ev flat_ops d e)
  end.

(* admissibility: (a) only data events are dropped; (b) per file, the dropped data events are a
   suffix of its data events; (c) a data event followed by a Sync of its file is not dropped *)
Definition pl_ok (drop : nat -> bool) (es : list fsev) : Prop :=
  (forall i e, nth_error es i = Some e -> drop i = true -> data_file e <> None) /\
  (forall i j e e' f, (i < j)%nat -> nth_error es i = Some e -> nth_error es j = Some e' ->
     data_file e = Some f -> data_file e' = Some f -> drop i = true -> drop j = true) /\
  (forall i j e f, (i < j)%nat -> nth_error es i = Some e -> nth_error es j = Some (ESync f) ->
     data_file e = Some f -> drop i = false).

Lemma pl_ok_tail drop e es : pl_ok drop (e :: es) -> pl_ok (fun i => drop (S i)) es.
Proof.
  intros (A & B & C). split; [|split].
  - intros i x Hi. apply (A (S i) x). exact Hi.
  - intros i j x y f Hij Hi Hj. apply (B (S i) (S j) x y f); [lia|exact Hi|exact Hj].
  - intros i j x f Hij Hi Hj. apply (C (S i) (S j) x f); [lia|exact Hi|exact Hj].
Qed.

(* every admissible [drop] yields an image of the relational model (which admits more: torn appends,
   and files that are removed and created again under the same name) *)
Lemma pl_ok_pl es : forall drop L (d : disk),
  pl_ok drop es ->
  (forall f, L f = true -> forall j e, nth_error es j = Some e ->
     (data_file e = Some f -> drop j = true) /\ e <> ESync f) ->
  exists L', pl L d es L' (pl_apply drop es d).
Proof.
  induction es as [|e es IH]; intros drop L d Hok HL; [exists L; apply pl_nil|].
  pose proof (pl_ok_tail drop e es Hok) as Hok'. destruct Hok as (A & B & C). cbn [pl_apply].
  destruct (drop O) eqn:E0.
  - destruct (data_file e) as [f|] eqn:Ef; [|exfalso; exact (A O e eq_refl E0 Ef)].
    destruct (IH (fun i => drop (S i)) (fadd f L) d Hok') as (L' & H).
    + intros g Hg j x Hj. apply fadd_true in Hg. destruct Hg as [->|Hg].
      * split.
        -- intros Hx. apply (B O (S j) e x f); [lia|reflexivity|exact Hj|exact Ef|exact Hx|exact E0].
        -- intros ->. pose proof (C O (S j) e f (Nat.lt_0_succ j) eq_refl Hj Ef) as H. congruence.
      * apply (HL g Hg (S j) x). exact Hj.
    + exists L'. apply (pl_drop L d e f); assumption.
  - destruct (IH (fun i => drop (S i)) (forget e L) (apply_ev flat_ops d e) Hok') as (L' & H).
    + intros g Hg j x Hj. apply (HL g (forget_le _ _ _ Hg) (S j) x). exact Hj.
    + exists L'. apply pl_keep; [| |exact H].
      * intros f Hf. destruct (L f) eqn:El; [|reflexivity].
        destruct (HL f El O e eq_refl) as [H1 _]. rewrite (H1 Hf) in E0. discriminate.
      * intros f Hf. destruct (L f) eqn:El; [|reflexivity].
        destruct (HL f El O e eq_refl) as [_ H2]. destruct e; try discriminate Hf. inversion Hf; subst. contradiction.
Qed.

Corollary pl_ok_image drop es (d : disk) : pl_ok drop es -> exists L', pl fnone d es L' (pl_apply drop es d).
Proof. intros H. apply pl_ok_pl; [exact H|]. intros f Hf. discriminate Hf. Qed.
(* ================================================================================================ *)
(* 2. The image agrees with the real disk on every file that has not lost a write                    *)

Definition seg_agree (L : fset) (f f' : dseg) : Prop :=
  f_id f' = f_id f /\ f_seq f' = f_seq f /\
  (L (FSeg (f_id f) (f_seq f)) = false -> seg_core f' = seg_core f) /\
  (L (FSegMeta (f_id f) (f_seq f)) = false -> f_meta f' = f_meta f).

Definition Agree (L : fset) (d img : disk) : Prop :=
  Forall2 (seg_agree L) (d_segs d) (d_segs img) /\
  (L FMain = false -> d_index img = d_index d) /\
  d_overflow img = d_overflow d /\
  (L FIndexMeta = false -> d_imeta img = d_imeta d) /\
  (L FDbMeta = false -> d_dbmeta img = d_dbmeta d) /\
  d_lock img = d_lock d /\ d_bac img = d_bac d.

Lemma seg_agree_refl L f : seg_agree L f f.
Proof. repeat split. Qed.

Lemma F2_refl {A} (R : A -> A -> Prop) l : (forall a, R a a) -> Forall2 R l l.
Proof. intros H. induction l; constructor; auto. Qed.

Lemma Agree_refl L d : Agree L d d.
Proof. split; [apply F2_refl; apply seg_agree_refl|]. repeat split. Qed.

Lemma F2_map2 {A B} (R : A -> A -> Prop) (R' : B -> B -> Prop) (F G : A -> B) l l' :
  Forall2 R l l' -> (forall a b, R a b -> R' (F a) (G b)) -> Forall2 R' (map F l) (map G l').
Proof. intros H HF. induction H as [|a b l l' Hab H IH]; cbn [map]; constructor; auto. Qed.

Lemma F2_map_l {A} (R R' : A -> A -> Prop) (F : A -> A) l l' :
  Forall2 R l l' -> (forall a b, R a b -> R' (F a) b) -> Forall2 R' (map F l) l'.
Proof. intros H HF. induction H as [|a b l l' Hab H IH]; cbn [map]; constructor; auto. Qed.

Lemma F2_map_r {A} (R R' : A -> A -> Prop) (G : A -> A) l l' :
  Forall2 R l l' -> (forall a b, R a b -> R' a (G b)) -> Forall2 R' l (map G l').
Proof. intros H HF. induction H as [|a b l l' Hab H IH]; cbn [map]; constructor; auto. Qed.

Lemma F2_imp {A} (R R' : A -> A -> Prop) l l' :
  Forall2 R l l' -> (forall a b, R a b -> R' a b) -> Forall2 R' l l'.
Proof. intros H HF. induction H; constructor; auto. Qed.

Lemma F2_filter {A} (R R' : A -> A -> Prop) (p q : A -> bool) l l' :
  Forall2 R l l' -> (forall a b, R a b -> p a = q b) -> (forall a b, R a b -> p a = true -> R' a b) ->
  Forall2 R' (filter p l) (filter q l').
Proof.
  intros H Hpq HR. induction H as [|a b l l' Hab H IH]; cbn [filter]; [constructor|].
  rewrite <- (Hpq a b Hab). destruct (p a) eqn:E; [constructor; auto|exact IH].
Qed.

Lemma seg_agree_is_seg L id seq f f' : seg_agree L f f' -> is_seg id seq f' = is_seg id seq f.
Proof. intros (A & B & _). unfold is_seg. rewrite A, B. reflexivity. Qed.

Lemma is_seg_true id seq f : is_seg id seq f = true -> f_id f = id /\ f_seq f = seq.
Proof. unfold is_seg. intros H. apply andb_true_iff in H. destruct H as [A B]. split; apply N.eqb_eq; assumption. Qed.

Lemma is_seg_false id seq f : is_seg id seq f = false -> FSeg (f_id f) (f_seq f) <> FSeg id seq /\ FSegMeta (f_id f) (f_seq f) <> FSegMeta id seq.
Proof.
  unfold is_seg. intros H. split; intros E; inversion E; subst; rewrite !N.eqb_refl in H; discriminate.
Qed.

Lemma seg_agree_weaken (L L' : fset) f f' :
  (L' (FSeg (f_id f) (f_seq f)) = false -> L (FSeg (f_id f) (f_seq f)) = false) ->
  (L' (FSegMeta (f_id f) (f_seq f)) = false -> L (FSegMeta (f_id f) (f_seq f)) = false) ->
  seg_agree L f f' -> seg_agree L' f f'.
Proof. intros H1 H2 (A & B & C & D). split; [exact A|]. split; [exact B|]. split; auto. Qed.

(* one and the same update of the matching segment files, on both sides *)
Lemma upd_both (L L' : fset) id seq (g : dseg -> dseg) l l' :
  Forall2 (seg_agree L) l l' ->
  (forall f f', seg_agree L f f' -> is_seg id seq f = true -> seg_agree L' (g f) (g f')) ->
  (forall f f', seg_agree L f f' -> is_seg id seq f = false -> seg_agree L' f f') ->
  Forall2 (seg_agree L') (map (fun s => if is_seg id seq s then g s else s) l)
                         (map (fun s => if is_seg id seq s then g s else s) l').
Proof.
  intros H H1 H2. apply (F2_map2 _ _ _ _ _ _ H). intros f f' Hff.
  rewrite (seg_agree_is_seg _ id seq _ _ Hff). destruct (is_seg id seq f) eqn:E; auto.
Qed.

(* an update of the real disk only (the event is lost) *)
Lemma upd_left (L L' : fset) id seq (g : dseg -> dseg) l l' :
  Forall2 (seg_agree L) l l' ->
  (forall f f', seg_agree L f f' -> is_seg id seq f = true -> seg_agree L' (g f) f') ->
  (forall f f', seg_agree L f f' -> is_seg id seq f = false -> seg_agree L' f f') ->
  Forall2 (seg_agree L') (map (fun s => if is_seg id seq s then g s else s) l) l'.
Proof.
  intros H H1 H2. apply (F2_map_l _ _ _ _ _ H). intros f f' Hff.
  destruct (is_seg id seq f) eqn:E; auto.
Qed.

(* an update of the image only (a torn write) *)
Lemma upd_right (L L' : fset) id seq (g : dseg -> dseg) l l' :
  Forall2 (seg_agree L) l l' ->
  (forall f f', seg_agree L f f' -> is_seg id seq f = true -> seg_agree L' f (g f')) ->
  (forall f f', seg_agree L f f' -> is_seg id seq f = false -> seg_agree L' f f') ->
  Forall2 (seg_agree L') l (map (fun s => if is_seg id seq s then g s else s) l').
Proof.
  intros H H1 H2. apply (F2_map_r _ _ _ _ _ H). intros f f' Hff.
  rewrite (seg_agree_is_seg _ id seq _ _ Hff). destruct (is_seg id seq f) eqn:E; auto.
Qed.

(* updates whose result is a function of the file proper and that leave the side file alone *)
Definition core_fun (g : dseg -> dseg) : Prop :=
  (forall s, f_id (g s) = f_id s /\ f_seq (g s) = f_seq s /\ f_meta (g s) = f_meta s) /\
  (forall s s', seg_core s' = seg_core s -> seg_core (g s') = seg_core (g s)).
(* updates of the side file only, to a fixed content *)
Definition meta_fun (g : dseg -> dseg) : Prop :=
  (forall s, f_id (g s) = f_id s /\ f_seq (g s) = f_seq s /\ seg_core (g s) = seg_core s) /\
  (forall s s', f_meta (g s') = f_meta (g s)).

Lemma core_fun_append off r : core_fun (append_seg off r).
Proof.
  split; [intros s; repeat split|]. intros s s' E. apply seg_core_inv in E.
  destruct E as (E1 & E2 & E3 & E4 & E5 & _). unfold seg_core, append_seg. cbn [f_id f_seq f_hdr f_recs f_tail].
  congruence.
Qed.

Definition hdr_on (s : dseg) : dseg :=
  {| f_id := f_id s; f_seq := f_seq s; f_hdr := true; f_recs := f_recs s; f_tail := f_tail s; f_meta := f_meta s |}.

Lemma core_fun_hdr : core_fun hdr_on.
Proof.
  split; [intros s; repeat split|]. intros s s' E. apply seg_core_inv in E.
  destruct E as (E1 & E2 & E3 & E4 & E5 & _). unfold seg_core, hdr_on. cbn [f_id f_seq f_hdr f_recs f_tail].
  congruence.
Qed.

Lemma core_fun_trunc n : core_fun (trunc_seg n).
Proof.
  split.
  - intros s. unfold trunc_seg. destruct (negb (f_hdr s)); [repeat split|].
    destruct (trunc_recs header_size n (f_recs s)) as [keep e]. repeat split.
  - intros s s' E. apply seg_core_inv in E. destruct E as (E1 & E2 & E3 & E4 & E5 & _).
    unfold trunc_seg. rewrite E3, E4, E5. destruct (negb (f_hdr s)).
    + unfold seg_core. congruence.
    + destruct (trunc_recs header_size n (f_recs s)) as [keep e].
      unfold seg_core. cbn [f_id f_seq f_hdr f_recs f_tail]. congruence.
Qed.

Lemma core_fun_torn r c :
  core_fun (fun f => {| f_id := f_id f; f_seq := f_seq f; f_hdr := f_hdr f; f_recs := f_recs f;
                        f_tail := f_tail f ++ ntake c (encode_rec r); f_meta := f_meta f |}).
Proof.
  split; [intros s; repeat split|]. intros s s' E. apply seg_core_inv in E.
  destruct E as (E1 & E2 & E3 & E4 & E5 & _). unfold seg_core. cbn [f_id f_seq f_hdr f_recs f_tail]. congruence.
Qed.

Lemma meta_fun_set x : meta_fun (set_fmeta x).
Proof. split; [intros s; repeat split|reflexivity]. Qed.

Lemma core_both (L : fset) id seq g l l' :
  core_fun g -> L (FSeg id seq) = false ->
  Forall2 (seg_agree L) l l' ->
  Forall2 (seg_agree L) (map (fun s => if is_seg id seq s then g s else s) l)
                        (map (fun s => if is_seg id seq s then g s else s) l').
Proof.
  intros (G1 & G2) HL H. apply (upd_both L L id seq g l l' H); [|auto].
  intros f f' (A & B & C & D) Hs. destruct (is_seg_true _ _ _ Hs) as [Ei Eq].
  destruct (G1 f) as (a1 & a2 & a3). destruct (G1 f') as (b1 & b2 & b3).
  split; [congruence|]. split; [congruence|]. rewrite a1, a2. split.
  - intros _. apply G2. apply C. rewrite Ei, Eq. exact HL.
  - intros H0. rewrite a3, b3. apply D. exact H0.
Qed.

Lemma meta_both (L L' : fset) id seq g l l' :
  meta_fun g ->
  (forall f, f <> FSegMeta id seq -> L' f = false -> L f = false) ->
  Forall2 (seg_agree L) l l' ->
  Forall2 (seg_agree L') (map (fun s => if is_seg id seq s then g s else s) l)
                         (map (fun s => if is_seg id seq s then g s else s) l').
Proof.
  intros (G1 & G2) HL H. apply (upd_both L L' id seq g l l' H).
  - intros f f' (A & B & C & D) Hs.
    destruct (G1 f) as (a1 & a2 & a3). destruct (G1 f') as (b1 & b2 & b3).
    split; [congruence|]. split; [congruence|]. rewrite a1, a2. split.
    + intros H0. rewrite a3, b3. apply C. apply HL; [discriminate|exact H0].
    + intros _. apply G2.
  - intros f f' Hff Hs. destruct (is_seg_false _ _ _ Hs) as [N1 N2].
    apply (seg_agree_weaken L L' f f'); [apply HL; discriminate|apply HL; exact N2|exact Hff].
Qed.

(* the event is lost: the file it writes is marked *)
Lemma core_left (L : fset) id seq g l l' :
  (forall s, f_id (g s) = f_id s /\ f_seq (g s) = f_seq s /\ f_meta (g s) = f_meta s) ->
  Forall2 (seg_agree L) l l' ->
  Forall2 (seg_agree (fadd (FSeg id seq) L)) (map (fun s => if is_seg id seq s then g s else s) l) l'.
Proof.
  intros G1 H. apply (upd_left L _ id seq g l l' H).
  - intros f f' (A & B & C & D) Hs. destruct (is_seg_true _ _ _ Hs) as [Ei Eq].
    destruct (G1 f) as (a1 & a2 & a3). split; [congruence|]. split; [congruence|]. rewrite a1, a2, a3. split.
    + rewrite Ei, Eq, fadd_same. discriminate.
    + intros H0. apply D. apply fadd_false in H0. exact H0.
  - intros f f' Hff Hs. apply (seg_agree_weaken L _ f f'); [apply fadd_false|apply fadd_false|exact Hff].
Qed.

Lemma meta_left (L : fset) id seq g l l' :
  (forall s, f_id (g s) = f_id s /\ f_seq (g s) = f_seq s /\ seg_core (g s) = seg_core s) ->
  Forall2 (seg_agree L) l l' ->
  Forall2 (seg_agree (fadd (FSegMeta id seq) L)) (map (fun s => if is_seg id seq s then g s else s) l) l'.
Proof.
  intros G1 H. apply (upd_left L _ id seq g l l' H).
  - intros f f' (A & B & C & D) Hs. destruct (is_seg_true _ _ _ Hs) as [Ei Eq].
    destruct (G1 f) as (a1 & a2 & a3). split; [congruence|]. split; [congruence|]. rewrite a1, a2, a3. split.
    + intros H0. apply C. apply fadd_false in H0. exact H0.
    + rewrite Ei, Eq, fadd_same. discriminate.
  - intros f f' Hff Hs. apply (seg_agree_weaken L _ f f'); [apply fadd_false|apply fadd_false|exact Hff].
Qed.

Lemma agree_weaken_all (L L' : fset) l l' :
  (forall f, L' f = false -> L f = false) -> Forall2 (seg_agree L) l l' -> Forall2 (seg_agree L') l l'.
Proof. intros HL H. apply (F2_imp _ _ _ _ H). intros f f'. apply seg_agree_weaken; apply HL. Qed.

Ltac dproj := cbn [apply_ev file_removed set_segs set_orphans set_index set_overflow set_imeta set_dbmeta set_lock
                   set_bac upd_seg d_segs d_orphans d_index d_overflow d_imeta d_dbmeta d_lock d_bac forget].

Lemma fdel_false_other f L g : g <> f -> fdel f L g = false -> L g = false.
Proof. intros H E. rewrite fdel_other in E by exact H. exact E. Qed.

Lemma weaken_segs (L L' : fset) l l' :
  (forall i q, L' (FSeg i q) = false -> L (FSeg i q) = false) ->
  (forall i q, L' (FSegMeta i q) = false -> L (FSegMeta i q) = false) ->
  Forall2 (seg_agree L) l l' -> Forall2 (seg_agree L') l l'.
Proof. intros H1 H2 H. apply (F2_imp _ _ _ _ H). intros f f'. apply seg_agree_weaken; [apply H1|apply H2]. Qed.

Definition is_segname (f : fname) : bool := match f with FSeg _ _ | FSegMeta _ _ => true | _ => false end.

(* a file other than a segment file or a side file disappears / is marked *)
Lemma weaken_fdel (L : fset) f l l' :
  is_segname f = false -> Forall2 (seg_agree L) l l' -> Forall2 (seg_agree (fdel f L)) l l'.
Proof.
  intros Hf. apply weaken_segs; intros i q; apply fdel_false_other; intros E; subst f; discriminate.
Qed.
Lemma weaken_fadd (L : fset) f l l' :
  Forall2 (seg_agree L) l l' -> Forall2 (seg_agree (fadd f L)) l l'.
Proof. apply weaken_segs; intros i q; apply fadd_false. Qed.

Lemma removed_both L f (d img : disk) :
  Agree L d img -> Agree (fdel f L) (file_removed f d) (file_removed f img).
Proof.
  intros (A1 & A2 & A3 & A4 & A5 & A6 & A7).
  assert (Hrest : forall g, g <> f -> fdel f L g = false -> L g = false) by (intros g; apply fdel_false_other).
  destruct f as [id seq|id seq| | | | | |b]; unfold Agree; dproj.
  - split.
    + apply (F2_filter (seg_agree L) _ _ _ _ _ A1).
      * intros f f' Hff. rewrite (seg_agree_is_seg _ id seq _ _ Hff). reflexivity.
      * intros f f' Hff Hs. apply negb_true_iff in Hs. destruct (is_seg_false _ _ _ Hs) as [N1 N2].
        apply (seg_agree_weaken L _ f f'); [apply Hrest; exact N1|apply Hrest; discriminate|exact Hff].
    + split; [intros H; apply A2; revert H; apply Hrest; discriminate|]. split; [exact A3|].
      split; [intros H; apply A4; revert H; apply Hrest; discriminate|].
      split; [intros H; apply A5; revert H; apply Hrest; discriminate|]. split; assumption.
  - split.
    + apply (meta_both L _ id seq _ _ _ (meta_fun_set GAbsent)); [|exact A1].
      intros f Hne. apply Hrest. exact Hne.
    + split; [intros H; apply A2; revert H; apply Hrest; discriminate|]. split; [exact A3|].
      split; [intros H; apply A4; revert H; apply Hrest; discriminate|].
      split; [intros H; apply A5; revert H; apply Hrest; discriminate|]. split; assumption.
  - split; [apply weaken_fdel; [reflexivity|exact A1]|]. split; [reflexivity|]. split; [exact A3|].
    split; [intros H; apply A4; revert H; apply Hrest; discriminate|].
    split; [intros H; apply A5; revert H; apply Hrest; discriminate|]. split; assumption.
  - split; [apply weaken_fdel; [reflexivity|exact A1]|].
    split; [intros H; apply A2; revert H; apply Hrest; discriminate|]. split; [reflexivity|].
    split; [intros H; apply A4; revert H; apply Hrest; discriminate|].
    split; [intros H; apply A5; revert H; apply Hrest; discriminate|]. split; assumption.
  - split; [apply weaken_fdel; [reflexivity|exact A1]|].
    split; [intros H; apply A2; revert H; apply Hrest; discriminate|]. split; [exact A3|].
    split; [reflexivity|].
    split; [intros H; apply A5; revert H; apply Hrest; discriminate|]. split; assumption.
  - split; [apply weaken_fdel; [reflexivity|exact A1]|].
    split; [intros H; apply A2; revert H; apply Hrest; discriminate|]. split; [exact A3|].
    split; [intros H; apply A4; revert H; apply Hrest; discriminate|].
    split; [reflexivity|]. split; assumption.
  - split; [apply weaken_fdel; [reflexivity|exact A1]|].
    split; [intros H; apply A2; revert H; apply Hrest; discriminate|]. split; [exact A3|].
    split; [intros H; apply A4; revert H; apply Hrest; discriminate|].
    split; [intros H; apply A5; revert H; apply Hrest; discriminate|]. split; [reflexivity|assumption].
  - split; [apply weaken_fdel; [reflexivity|exact A1]|].
    split; [intros H; apply A2; revert H; apply Hrest; discriminate|]. split; [exact A3|].
    split; [intros H; apply A4; revert H; apply Hrest; discriminate|].
    split; [intros H; apply A5; revert H; apply Hrest; discriminate|]. split; [assumption|].
    rewrite A7. reflexivity.
Qed.

(* the event reaches the disk *)
Lemma agree_keep L (d img : disk) e :
  Agree L d img -> (forall f, data_file e = Some f -> L f = false) ->
  Agree (forget e L) (apply_ev flat_ops d e) (apply_ev flat_ops img e).
Proof.
  intros HA Hk. pose proof HA as (A1 & A2 & A3 & A4 & A5 & A6 & A7).
  destruct e as [f|f|id seq off r|i|id seq m|i|sd|f n|f g|f|f].
  - (* ECreate *)
    destruct f as [id seq|id seq| | | | | |b]; unfold Agree; dproj;
      try (split; [exact A1|]; repeat split; auto; congruence).
    + split; [|repeat split; auto].
      apply Forall2_app; [exact A1|]. constructor; [apply seg_agree_refl|constructor].
    + split; [|repeat split; auto].
      apply (meta_both L L id seq _ _ _ (meta_fun_set GPartial)); [auto|exact A1].
  - (* EHeader *)
    destruct f as [id seq|id seq| | | | | |b]; try exact HA.
    unfold Agree; dproj. split; [|repeat split; auto].
    apply (core_both L id seq hdr_on _ _ core_fun_hdr); [apply Hk; reflexivity|exact A1].
  - (* EAppend *)
    unfold Agree; dproj. split; [|repeat split; auto].
    apply (core_both L id seq _ _ _ (core_fun_append off r)); [apply Hk; reflexivity|exact A1].
  - (* EIndex *)
    unfold Agree; dproj. split; [exact A1|]. repeat split; auto.
  - (* EGobSeg *)
    unfold Agree; dproj. split; [|repeat split; auto].
    apply (meta_both L L id seq _ _ _ (meta_fun_set (GOk m))); [auto|exact A1].
  - unfold Agree; dproj. split; [exact A1|]. repeat split; auto.
  - unfold Agree; dproj. split; [exact A1|]. repeat split; auto.
  - (* ETrunc *)
    destruct f as [id seq|id seq| | | | | |b]; try exact HA; unfold Agree; dproj.
    + split; [|repeat split; auto].
      apply (core_both L id seq _ _ _ (core_fun_trunc n)); [apply Hk; reflexivity|exact A1].
    + split; [|repeat split; auto].
      apply (meta_both L L id seq _ _ _ (meta_fun_set GPartial)); [auto|exact A1].
    + split; [exact A1|]. repeat split; auto.
    + split; [exact A1|]. repeat split; auto.
  - (* ERename *)
    destruct (removed_both L f d img HA) as (B1 & B2 & B3 & B4 & B5 & B6 & B7).
    unfold Agree. cbn [apply_ev forget]. unfold set_bac at 1 3.
    cbn [d_segs d_index d_overflow d_imeta d_dbmeta d_lock d_bac].
    split; [exact B1|]. split; [exact B2|]. split; [exact B3|]. split; [exact B4|]. split; [exact B5|].
    split; [exact B6|]. rewrite B7. reflexivity.
  - (* ERemove *)
    apply removed_both. exact HA.
  - (* ESync *)
    exact HA.
Qed.

(* the event is lost *)
Lemma agree_drop L (d img : disk) e f :
  Agree L d img -> data_file e = Some f -> Agree (fadd f L) (apply_ev flat_ops d e) img.
Proof.
  intros HA Hf. pose proof HA as (A1 & A2 & A3 & A4 & A5 & A6 & A7).
  assert (Hw : forall g, fadd f L g = false -> L g = false) by (intros g; apply fadd_false).
  assert (HW : Agree (fadd f L) d img).
  { split; [apply weaken_fadd; exact A1|]. repeat split; auto. }
  destruct e as [f0|f0|id seq off r|i|id seq m|i|sd|f0 n|f0 g|f0|f0]; try discriminate Hf;
    cbn [data_file] in Hf; inversion Hf; subst f; clear Hf.
  - (* EHeader *)
    destruct f0 as [id seq|id seq| | | | | |b]; try exact HW.
    unfold Agree; dproj. split; [|repeat split; auto].
    apply (core_left L id seq hdr_on); [intros s; repeat split|exact A1].
  - (* EAppend *)
    unfold Agree; dproj. split; [|repeat split; auto].
    apply (core_left L id seq (append_seg off r)); [intros s; repeat split|exact A1].
  - (* EIndex *)
    unfold Agree; dproj. split; [apply weaken_fadd; exact A1|].
    split; [rewrite fadd_same; discriminate|]. repeat split; auto.
  - (* EGobSeg *)
    unfold Agree; dproj. split; [|repeat split; auto].
    apply (meta_left L id seq (set_fmeta (GOk m))); [intros s; repeat split|exact A1].
  - unfold Agree; dproj. split; [apply weaken_fadd; exact A1|].
    split; [auto|]. split; [auto|]. split; [rewrite fadd_same; discriminate|]. repeat split; auto.
  - unfold Agree; dproj. split; [apply weaken_fadd; exact A1|].
    split; [auto|]. split; [auto|]. split; [auto|]. split; [rewrite fadd_same; discriminate|]. repeat split; auto.
  - (* ETrunc *)
    destruct f0 as [id seq|id seq| | | | | |b]; try exact HW; unfold Agree; dproj.
    + split; [|repeat split; auto].
      apply (core_left L id seq (trunc_seg n)); [apply core_fun_trunc|exact A1].
    + split; [|repeat split; auto].
      apply (meta_left L id seq (set_fmeta GPartial)); [intros s; repeat split|exact A1].
    + split; [apply weaken_fadd; exact A1|].
      split; [auto|]. split; [auto|]. split; [rewrite fadd_same; discriminate|]. repeat split; auto.
    + split; [apply weaken_fadd; exact A1|].
      split; [auto|]. split; [auto|]. split; [auto|]. split; [rewrite fadd_same; discriminate|]. repeat split; auto.
Qed.

(* the write is cut *)
Lemma agree_tear L (d img : disk) id seq off r c :
  Agree L d img ->
  Agree (fadd (FSeg id seq) L) (apply_ev flat_ops d (EAppend id seq off r)) (torn img id seq r c).
Proof.
  intros HA. pose proof HA as (A1 & A2 & A3 & A4 & A5 & A6 & A7).
  assert (Hw : forall g, fadd (FSeg id seq) L g = false -> L g = false) by (intros g; apply fadd_false).
  unfold Agree, torn; dproj. split; [|repeat split; auto].
  apply (upd_right (fadd (FSeg id seq) L) _ id seq).
  - apply (core_left L id seq (append_seg off r)); [intros s; repeat split|exact A1].
  - intros f f' (B1 & B2 & B3 & B4) Hs. destruct (is_seg_true _ _ _ Hs) as [Ei Eq].
    split; [exact B1|]. split; [exact B2|]. split; [|exact B4].
    rewrite Ei, Eq, fadd_same. discriminate.
  - auto.
Qed.

Theorem pl_agree L img es L' img' :
  pl L img es L' img' -> forall d, Agree L d img -> Agree L' (run_evs es d) img'.
Proof.
  intros H. induction H as [L d0|L d0 e es L1 d1 H1 H2 H3 IH|L d0 e f es L1 d1 H1 H3 IH|L d0 id seq off r c es L1 d1 H1 H2 H2' H3 IH];
    intros d HA; cbn [fold_left].
  - exact HA.
  - apply IH. apply agree_keep; assumption.
  - apply IH. apply (agree_drop L d d0 e f HA H1).
  - apply IH. apply agree_tear. exact HA.
Qed.

(* ================================================================================================ *)
(* 3. The sync discipline of a history, and what it buys:                                            *)
(*    a power failure is no worse than a process crash at the time of the first lost write           *)

(* the segment file an event writes data to *)
Definition seg_data (e : fsev) : option (N * N) :=
  match e with
  | EHeader (FSeg i q) | ETrunc (FSeg i q) _ => Some (i, q)
  | EAppend i q _ _ => Some (i, q)
  | _ => None
  end.

(* events that change neither a segment file proper, nor the lock file, nor the *.bac names *)
Definition quiet (e : fsev) : bool := negb (touches_log e) && negb (touches_lock e) && negb (touches_bac e).

Definition pair_eqb (a b : N * N) : bool := (fst a =? fst b) && (snd a =? snd b).
Lemma pair_eqb_eq a b : pair_eqb a b = true <-> a = b.
Proof.
  destruct a as [a1 a2], b as [b1 b2]. unfold pair_eqb. cbn [fst snd]. rewrite andb_true_iff, !N.eqb_eq.
  split; [intros [-> ->]; reflexivity|intros E; inversion E; auto].
Qed.
Lemma pair_eqb_refl a : pair_eqb a a = true.
Proof. apply pair_eqb_eq. reflexivity. Qed.

(* The automaton.  State: the one segment file that may hold data that has not been flushed.
   - data may be written to a segment file only if no OTHER segment file is unflushed;
   - Sync of the unflushed segment file clears the state;
   - an event that is not quiet (creation / removal of a segment file, of the lock file, renames,
     *.bac files) is allowed only when no segment file is unflushed. *)
Definition dur_step (u : option (N * N)) (e : fsev) : option (option (N * N)) :=
  match seg_data e with
  | Some x => match u with
              | None => Some (Some x)
              | Some y => if pair_eqb x y then Some (Some x) else None
              end
  | None =>
    match e with
    | ESync (FSeg i q) => Some (match u with
                                | Some y => if pair_eqb (i, q) y then None else u
                                | None => None
                                end)
    | _ => if quiet e then Some u else match u with None => Some None | Some _ => None end
    end
  end.

Fixpoint dur (u : option (N * N)) (es : list fsev) : option (option (N * N)) :=
  match es with
  | [] => Some u
  | e :: es' => match dur_step u e with Some u' => dur u' es' | None => None end
  end.

Definition Durable (es : list fsev) : Prop := dur None es <> None.

Lemma dur_app es1 : forall u es2,
  dur u (es1 ++ es2) = match dur u es1 with Some u1 => dur u1 es2 | None => None end.
Proof.
  induction es1 as [|e es1 IH]; intros u es2; [reflexivity|]. cbn [app dur].
  destruct (dur_step u e) as [u1|]; [apply IH|reflexivity].
Qed.

Lemma dur_prefix es1 es2 u : dur u (es1 ++ es2) <> None -> dur u es1 <> None.
Proof. rewrite dur_app. destruct (dur u es1); [discriminate|auto]. Qed.

Lemma seg_data_file e x : seg_data e = Some x <-> data_file e = Some (FSeg (fst x) (snd x)).
Proof.
  destruct x as [i q]. cbn [fst snd].
  destruct e as [f|f|id seq off r|j|id seq m|j|sd|f n|f g|f|f]; cbn [seg_data data_file];
    try (split; discriminate); try (destruct f; split; intros E; inversion E; reflexivity).
  split; intros E; inversion E; reflexivity.
Qed.

Lemma seg_data_none_file e i q : seg_data e = None -> data_file e <> Some (FSeg i q).
Proof.
  intros H E. assert (E' : seg_data e = Some (i, q)) by (apply seg_data_file; exact E). congruence.
Qed.

(* data written to a file that is not a segment file is quiet *)
Lemma data_nonseg_quiet e f : data_file e = Some f -> seg_data e = None -> quiet e = true.
Proof.
  destruct e as [f0|f0|id seq off r|j|id seq m|j|sd|f0 n|f0 g|f0|f0]; cbn [seg_data data_file]; intros H1 H2;
    try discriminate; try reflexivity; destruct f0; try discriminate; reflexivity.
Qed.

Lemma quiet_forget e L i q : quiet e = true -> forget e L (FSeg i q) = L (FSeg i q).
Proof.
  destruct e as [f|f|id seq off r|j|id seq m|j|sd|f n|f g|f|f]; cbn [forget]; try reflexivity.
  - unfold quiet. cbn [touches_bac]. rewrite andb_false_r. discriminate.
  - destruct f; try (intros _; apply fdel_other; discriminate). discriminate.
Qed.

Definition seg_clean (L : fset) : Prop := forall i q, L (FSeg i q) = false.

(* a file that has lost a write is the one the automaton knows as unflushed *)
Lemma pl_dur L img es L' img' :
  pl L img es L' img' -> forall u u',
  dur u es = Some u' -> (forall i q, L (FSeg i q) = true -> u = Some (i, q)) ->
  forall i q, L' (FSeg i q) = true -> u' = Some (i, q).
Proof.
  intros H. induction H as [L d0|L d0 e es L1 d1 H1 H2 H3 IH|L d0 e f es L1 d1 H1 H3 IH|L d0 id seq off r c es L1 d1 H1 H2 H2' H3 IH];
    intros u u' Hd HL; cbn [dur] in Hd.
  - inversion Hd; subst. exact HL.
  - destruct (dur_step u e) as [u1|] eqn:Es; [|discriminate]. apply (IH u1 u' Hd).
    intros i q Hl. pose proof (HL i q (forget_le _ _ _ Hl)) as Eu. subst u.
    unfold dur_step in Es. destruct (seg_data e) as [x|] eqn:Esd.
    + destruct (pair_eqb x (i, q)) eqn:Ex; [|discriminate]. apply pair_eqb_eq in Ex. subst x.
      apply seg_data_file in Esd. cbn [fst snd] in Esd.
      pose proof (forget_le _ _ _ Hl) as Hl'. rewrite (H1 _ Esd) in Hl'. discriminate.
    + destruct e as [f|f|id seq off r|j|id seq m|j|sd|f n|f g|f|f];
        try (destruct (quiet _); inversion Es; reflexivity).
      destruct f as [i' q'| | | | | | |]; try (cbn [quiet touches_log touches_lock touches_bac negb andb] in Es; inversion Es; reflexivity).
      destruct (pair_eqb (i', q') (i, q)) eqn:Ex; [|inversion Es; reflexivity].
      apply pair_eqb_eq in Ex. inversion Ex; subst i' q'.
      cbn [forget] in Hl. rewrite (H2 _ eq_refl) in Hl. discriminate.
  - destruct (dur_step u e) as [u1|] eqn:Es; [|discriminate]. apply (IH u1 u' Hd).
    intros i q Hl. unfold dur_step in Es. destruct (seg_data e) as [x|] eqn:Esd.
    + pose proof Esd as Esd'. apply seg_data_file in Esd'. rewrite H1 in Esd'. inversion Esd'; subst f.
      apply fadd_true in Hl. destruct Hl as [E|Hl].
      * inversion E. destruct x as [x1 x2]. cbn [fst snd] in *. subst i q.
        destruct u as [y|]; [|inversion Es; reflexivity].
        destruct (pair_eqb (x1, x2) y); inversion Es; reflexivity.
      * pose proof (HL i q Hl) as Eu. subst u. destruct (pair_eqb x (i, q)) eqn:Ex; [|discriminate].
        apply pair_eqb_eq in Ex. subst x. inversion Es; reflexivity.
    + rewrite (data_nonseg_quiet e f H1 Esd) in Es.
      assert (Hnf : f <> FSeg i q) by (intros E; subst f; exact (seg_data_none_file e i q Esd H1)).
      rewrite fadd_other in Hl by (intros E; apply Hnf; symmetry; exact E).
      pose proof (HL i q Hl) as Eu. subst u.
      destruct e as [f0|f0|id seq off r|j|id seq m|j|sd|f0 n|f0 g|f0|f0]; try discriminate H1; try (inversion Es; reflexivity).
  - cbn [dur_step seg_data] in Hd.
    destruct (match u with None => Some (Some (id, seq)) | Some y => if pair_eqb (id, seq) y then Some (Some (id, seq)) else None end)
      as [u1|] eqn:Es; [|discriminate].
    apply (IH u1 u' Hd). intros i q Hl. apply fadd_true in Hl. destruct Hl as [E|Hl].
    + inversion E; subst i q. destruct u as [y|]; [|inversion Es; reflexivity].
      destruct (pair_eqb (id, seq) y); inversion Es; reflexivity.
    + pose proof (HL i q Hl) as Eu. subst u. destruct (pair_eqb (id, seq) (i, q)) eqn:Ex; [|discriminate].
      apply pair_eqb_eq in Ex. inversion Ex; subst. rewrite H1 in Hl. discriminate.
Qed.

(* same segment files proper, same lock, same *.bac names: all that a recovery looks at *)
Definition Same (d img : disk) : Prop := same_log d img /\ d_lock img = d_lock d /\ d_bac img = d_bac d.

Lemma Same_refl d : Same d d.
Proof. split; [apply same_log_refl|split; reflexivity]. Qed.
Lemma Same_trans a b c : Same a b -> Same b c -> Same a c.
Proof.
  intros (A1 & A2 & A3) (B1 & B2 & B3). split; [eapply same_log_trans; eassumption|]. split; congruence.
Qed.

Lemma quiet_same (d : disk) e : quiet e = true -> Same d (apply_ev flat_ops d e).
Proof.
  unfold quiet. intros H. apply andb_true_iff in H. destruct H as [H H3]. apply andb_true_iff in H.
  destruct H as [H1 H2]. apply negb_true_iff in H1, H2, H3.
  split; [apply apply_ev_same_log; exact H1|]. split; [apply apply_ev_d_lock; exact H2|apply apply_ev_d_bac; exact H3].
Qed.

Lemma Agree_Same L (d img : disk) : seg_clean L -> Agree L d img -> Same d img.
Proof.
  intros HL (A1 & _ & _ & _ & _ & A6 & A7). split; [|split; assumption].
  unfold same_log. induction A1 as [|f f' l l' (_ & _ & C & _) _ IH]; [reflexivity|].
  cbn [map]. rewrite IH, (C (HL _ _)). reflexivity.
Qed.

Lemma Same_Good (d img : disk) : Same d img -> Good d -> Good img.
Proof. intros (A & B & C). apply Good_same_log; assumption. Qed.

Lemma Same_cont (d img : disk) : Same d img -> olog img = olog d /\ abs img = abs d.
Proof. intros (A & _). split; [apply same_log_olog; exact A|apply same_log_abs; exact A]. Qed.

Lemma core_fun_map_core id seq g (l l' : list dseg) :
  core_fun g -> map seg_core l = map seg_core l' ->
  map seg_core (map (fun s => if is_seg id seq s then g s else s) l) =
  map seg_core (map (fun s => if is_seg id seq s then g s else s) l').
Proof.
  intros (G1 & G2). revert l'. induction l as [|f l IH]; intros l' E; destruct l' as [|f' l']; try discriminate E; [reflexivity|].
  cbn [map] in *. pose proof (f_equal (@tl _) E) as E2. pose proof (f_equal (hd (seg_core f)) E) as E1.
  cbn [tl hd] in E1, E2. rewrite (IH _ E2). f_equal.
  assert (Es : is_seg id seq f = is_seg id seq f').
  { apply seg_core_inv in E1. destruct E1 as (a & b & _). unfold is_seg. rewrite a, b. reflexivity. }
  rewrite Es. destruct (is_seg id seq f'); [|exact E1]. symmetry. apply G2. symmetry. exact E1.
Qed.

Lemma Same_torn (d img : disk) id seq r c : Same d img -> Same (torn d id seq r c) (torn img id seq r c).
Proof.
  intros (A & B & C). split; [|split; assumption].
  unfold same_log, torn. rewrite !d_segs_upd_seg. apply core_fun_map_core; [apply core_fun_torn|exact A].
Qed.

(* once a segment file has lost a write, nothing a recovery looks at changes any more *)
Lemma frozen L img es L' img' :
  pl L img es L' img' -> forall x, L (FSeg (fst x) (snd x)) = true -> dur (Some x) es <> None ->
  Same img img' /\ L' (FSeg (fst x) (snd x)) = true.
Proof.
  intros H. induction H as [L d0|L d0 e es L1 d1 H1 H2 H3 IH|L d0 e f es L1 d1 H1 H3 IH|L d0 id seq off r c es L1 d1 H1 H2 H2' H3 IH];
    intros x HL Hd; cbn [dur] in Hd.
  - split; [apply Same_refl|exact HL].
  - destruct (dur_step (Some x) e) as [u1|] eqn:Es; [|congruence].
    unfold dur_step in Es. destruct (seg_data e) as [y|] eqn:Esd.
    + destruct (pair_eqb y x) eqn:Ex; [|discriminate]. apply pair_eqb_eq in Ex. subst y.
      apply seg_data_file in Esd. rewrite (H1 _ Esd) in HL. discriminate.
    + assert (Hq : quiet e = true -> (forall i q, e <> ESync (FSeg i q)) -> Same d0 d1 /\ L1 (FSeg (fst x) (snd x)) = true).
      { intros Hq Hns. rewrite Hq in Es.
        assert (Eu : u1 = Some x).
        { destruct e as [f|f|id seq off r|j|id seq m|j|sd|f n|f g|f|f]; try (inversion Es; reflexivity).
          destruct f; try (inversion Es; reflexivity). exfalso. eapply Hns. reflexivity. }
        subst u1. destruct (IH x) as [S1 S2]; [rewrite quiet_forget by exact Hq; exact HL|exact Hd|].
        split; [eapply Same_trans; [apply quiet_same; exact Hq|exact S1]|exact S2]. }
      destruct (quiet e) eqn:Eq.
      * destruct e as [f|f|id seq off r|j|id seq m|j|sd|f n|f g|f|f]; try (apply Hq; [reflexivity|discriminate]).
        destruct f as [i q| | | | | | |]; try (apply Hq; [reflexivity|discriminate]).
        destruct (pair_eqb (i, q) x) eqn:Ex.
        -- apply pair_eqb_eq in Ex. subst x. cbn [fst snd] in HL. rewrite (H2 _ eq_refl) in HL. discriminate.
        -- inversion Es; subst u1. apply (IH x); [exact HL|exact Hd].
      * destruct e as [f|f|id seq off r|j|id seq m|j|sd|f n|f g|f|f]; try discriminate Es; discriminate Eq.
  - destruct (dur_step (Some x) e) as [u1|] eqn:Es; [|congruence].
    assert (Eu : u1 = Some x).
    { unfold dur_step in Es. destruct (seg_data e) as [y|] eqn:Esd.
      - destruct (pair_eqb y x) eqn:Ex; [|discriminate]. apply pair_eqb_eq in Ex. subst y. inversion Es; reflexivity.
      - rewrite (data_nonseg_quiet e f H1 Esd) in Es.
        destruct e as [f0|f0|id seq off r|j|id seq m|j|sd|f0 n|f0 g|f0|f0]; try discriminate H1; inversion Es; reflexivity. }
    subst u1. apply (IH x); [apply fadd_mono; exact HL|exact Hd].
  - cbn [dur_step seg_data] in Hd. destruct (pair_eqb (id, seq) x) eqn:Ex; [|congruence].
    apply pair_eqb_eq in Ex. subst x. cbn [fst snd] in HL. congruence.
Qed.

(* THE REDUCTION.  Under the sync discipline, a power-loss image of a history is either complete on
   every segment file, or it is (up to the content of index / metadata files) a process-crash image
   of the same history: the crash taken at the first write to a segment file that was lost. *)
Theorem pl_reduce L img es L' img' :
  pl L img es L' img' -> forall d u, seg_clean L -> Agree L d img -> dur u es <> None ->
  (seg_clean L' /\ Agree L' (run_evs es d) img') \/
  (exists cimg x, crash_image d es cimg /\ Same cimg img' /\ L' (FSeg (fst x) (snd x)) = true).
Proof.
  intros H. induction H as [L d0|L d0 e es L1 d1 H1 H2 H3 IH|L d0 e f es L1 d1 H1 H3 IH|L d0 id seq off r c es L1 d1 H1 H2 H2' H3 IH];
    intros d u HL HA Hd; cbn [dur fold_left] in *.
  - left. split; assumption.
  - destruct (dur_step u e) as [u1|] eqn:Es; [|congruence].
    destruct (IH (apply_ev flat_ops d e) u1) as [Hl|(cimg & x & C1 & C2 & C3)].
    + intros i q. destruct (forget e L (FSeg i q)) eqn:E; [|reflexivity]. apply forget_le in E. rewrite HL in E. discriminate.
    + apply agree_keep; assumption.
    + exact Hd.
    + left. exact Hl.
    + right. exists cimg, x. split; [apply ci_step; exact C1|split; assumption].
  - destruct (dur_step u e) as [u1|] eqn:Es; [|congruence].
    unfold dur_step in Es. destruct (seg_data e) as [x|] eqn:Esd.
    + (* the first lost write to a segment file *)
      assert (Eu : u1 = Some x) by (destruct u as [y|]; [destruct (pair_eqb x y)|]; inversion Es; reflexivity).
      subst u1. pose proof Esd as Esd'. apply seg_data_file in Esd'. rewrite H1 in Esd'. inversion Esd'; subst f.
      destruct (frozen _ _ _ _ _ H3 x (fadd_same _ _) Hd) as [S1 S2].
      right. exists d, x. split; [apply ci_here|]. split; [|exact S2].
      eapply Same_trans; [apply (Agree_Same L); eassumption|exact S1].
    + rewrite (data_nonseg_quiet e f H1 Esd) in Es.
      assert (Eu : u1 = u).
      { destruct e as [f0|f0|id seq off r|j|id seq m|j|sd|f0 n|f0 g|f0|f0]; try discriminate H1; inversion Es; reflexivity. }
      subst u1.
      destruct (IH (apply_ev flat_ops d e) u) as [Hl|(cimg & x & C1 & C2 & C3)].
      * intros i q. rewrite fadd_other; [apply HL|]. intros E. exact (seg_data_none_file e i q Esd (eq_trans H1 (f_equal Some (eq_sym E)))).
      * apply (agree_drop L d d0 e f HA H1).
      * exact Hd.
      * left. exact Hl.
      * right. exists cimg, x. split; [apply ci_step; exact C1|split; assumption].
  - cbn [dur_step seg_data] in Hd.
    assert (Hd' : dur (Some (id, seq)) es <> None).
    { destruct u as [y|]; [destruct (pair_eqb (id, seq) y)|]; congruence. }
    destruct (frozen _ _ _ _ _ H3 (id, seq) (fadd_same _ _) Hd') as [S1 S2].
    right. exists (torn d id seq r c), (id, seq). split; [apply ci_torn; assumption|]. split; [|exact S2].
    eapply Same_trans; [apply Same_torn; apply (Agree_Same L); eassumption|exact S1].
Qed.

(* in both cases: a crash image of the history *)
Corollary pl_is_crash_image es (d img : disk) L' :
  Durable es -> pl fnone d es L' img -> exists cimg, crash_image d es cimg /\ Same cimg img.
Proof.
  intros Hd Hp. destruct (pl_reduce _ _ _ _ _ Hp d None (fun _ _ => eq_refl) (Agree_refl _ _) Hd) as [[HL HA]|(cimg & x & C1 & C2 & _)].
  - exists (run_evs es d). split; [apply crash_image_full|apply (Agree_Same L'); assumption].
  - exists cimg. split; assumption.
Qed.

(* ================================================================================================ *)
(* 4. The operations of the database keep the discipline                                             *)

(* the invariant that links the automaton to the in-memory state: the segment file that may be
   unflushed is the current segment, and it still accepts writes (it has not been sealed) *)
Definition DurM (u : option (N * N)) (m : mem) : Prop :=
  forall x, u = Some x ->
  exists g, cur_seg m = Some g /\ sm_full (g_meta g) = false /\ x = (g_id g, g_seq g).

Lemma DurM_None m : DurM None m.
Proof. intros x E. discriminate E. Qed.

Lemma find_mseg_map (G : mseg -> mseg) id l :
  (forall g, g_id (G g) = g_id g) -> find_mseg id (map G l) = option_map G (find_mseg id l).
Proof.
  intros HG. unfold find_mseg. induction l as [|g l IH]; [reflexivity|]. cbn [map find].
  rewrite HG. destruct (g_id g =? id); [reflexivity|exact IH].
Qed.

Lemma cur_seg_map (G : mseg -> mseg) (m m' : mem) :
  (forall g, g_id (G g) = g_id g /\ g_seq (G g) = g_seq g) ->
  m_segs m' = map G (m_segs m) -> m_cur m' = m_cur m -> m_cur_removed m' = m_cur_removed m ->
  cur_seg m' = option_map G (cur_seg m).
Proof.
  intros HG E1 E2 E3. unfold cur_seg. rewrite E1, E2, E3. destruct (m_cur_removed m); [reflexivity|].
  rewrite find_mseg_map by (intros g; apply HG). destruct (find_mseg (fst (m_cur m)) (m_segs m)) as [g|]; [|reflexivity].
  cbn [option_map]. rewrite (proj2 (HG g)). destruct (g_seq g =? snd (m_cur m)); reflexivity.
Qed.

Lemma cur_seg_find (m : mem) g :
  cur_seg m = Some g -> find_mseg (g_id g) (m_segs m) = Some g /\ m_cur_removed m = false.
Proof.
  unfold cur_seg. destruct (m_cur_removed m); [discriminate|].
  destruct (find_mseg (fst (m_cur m)) (m_segs m)) as [g0|] eqn:Ef; [|discriminate].
  destruct (g_seq g0 =? snd (m_cur m)); [|discriminate]. intros E. inversion E; subst g0.
  destruct (find_mseg_In _ _ _ Ef) as [_ Hid]. rewrite Hid. split; [exact Ef|reflexivity].
Qed.

Lemma DurM_map (G : mseg -> mseg) u (m m' : mem) :
  (forall g, g_id (G g) = g_id g /\ g_seq (G g) = g_seq g) ->
  m_segs m' = map G (m_segs m) -> m_cur m' = m_cur m -> m_cur_removed m' = m_cur_removed m ->
  (forall g, cur_seg m = Some g -> sm_full (g_meta g) = false -> sm_full (g_meta (G g)) = false) ->
  DurM u m -> DurM u m'.
Proof.
  intros HG E1 E2 E3 Hnf HD x Ex. destruct (HD x Ex) as (g & Ec & Hf & Hx).
  exists (G g). rewrite (cur_seg_map G m m' HG E1 E2 E3), Ec. split; [reflexivity|].
  split; [apply Hnf; assumption|]. destruct (HG g) as [a b]. rewrite a, b. exact Hx.
Qed.

Lemma DurM_cur u (m : mem) g : DurM u m -> cur_seg m = Some g ->
  u = None \/ (u = Some (g_id g, g_seq g) /\ sm_full (g_meta g) = false).
Proof.
  intros HD Ec. destruct u as [x|]; [|left; reflexivity]. right.
  destruct (HD x eq_refl) as (g' & Ec' & Hf & Hx). rewrite Ec in Ec'. inversion Ec'; subst g'.
  split; [rewrite Hx; reflexivity|exact Hf].
Qed.

Lemma DurM_nocur u (m : mem) : DurM u m -> cur_seg m = None -> u = None.
Proof.
  intros HD Ec. destruct u as [x|]; [|reflexivity]. destruct (HD x eq_refl) as (g' & Ec' & _). congruence.
Qed.

(* ---- small runs of the automaton ---- *)
Lemma dur_sync_cur u i q : u = None \/ u = Some (i, q) -> dur u [ESync (FSeg i q)] = Some None.
Proof.
  intros [->| ->]; cbn [dur dur_step seg_data]; [reflexivity|]. rewrite pair_eqb_refl. reflexivity.
Qed.

Lemma dur_data u e x : seg_data e = Some x -> u = None \/ u = Some x -> dur_step u e = Some (Some x).
Proof.
  intros E [->| ->]; unfold dur_step; rewrite E; [reflexivity|]. rewrite pair_eqb_refl. reflexivity.
Qed.

Lemma dur_snoc u es e u1 u2 : dur u es = Some u1 -> dur_step u1 e = Some u2 -> dur u (es ++ [e]) = Some u2.
Proof. intros H1 H2. rewrite dur_app, H1. cbn [dur]. rewrite H2. reflexivity. Qed.

Lemma dur_cat u es1 es2 u1 u2 : dur u es1 = Some u1 -> dur u1 es2 = Some u2 -> dur u (es1 ++ es2) = Some u2.
Proof. intros H1 H2. rewrite dur_app, H1. exact H2. Qed.

(* ---- sealSegment ---- *)
Lemma seal_dur u id (s : st) (m : mem) s0 m0 :
  DurM u m -> seal flat_ops id s m = (s0, m0) ->
  exists tr u0, s_trace s0 = s_trace s ++ tr /\ dur u tr = Some u0 /\ DurM u0 m0 /\
    (forall g, cur_seg m = Some g -> g_id g = id -> u0 = None).
Proof.
  intros HD. unfold seal. destruct (find_mseg id (m_segs m)) as [g|] eqn:Ef.
  - destruct (sm_full (g_meta g)) eqn:Efull; intros E; inversion E; subst s0 m0; clear E.
    + exists [], u. rewrite app_nil_r. split; [reflexivity|]. split; [reflexivity|]. split; [exact HD|].
      intros g' Ec Hid. destruct (cur_seg_find _ _ Ec) as [Ef' _]. rewrite Hid, Ef in Ef'. inversion Ef'; subst g'.
      destruct (DurM_cur _ _ _ HD Ec) as [->|[_ Hnf]]; [reflexivity|congruence].
    + set (G := fun g0 : mseg => if g_id g0 =? id then set_gmeta g0 (set_full (g_meta g0)) else g0).
      assert (HG : forall g0, g_id (G g0) = g_id g0 /\ g_seq (G g0) = g_seq g0).
      { intros g0. unfold G. destruct (g_id g0 =? id); split; reflexivity. }
      exists [ESync (FSeg (g_id g) (g_seq g))].
      exists (match u with Some y => if pair_eqb (g_id g, g_seq g) y then None else u | None => None end).
      split; [apply s_trace_emit|]. split; [reflexivity|]. split.
      * intros x Ex. destruct u as [y|]; [|discriminate].
        destruct (pair_eqb (g_id g, g_seq g) y) eqn:Ep; [discriminate|]. inversion Ex; subst y.
        destruct (HD x eq_refl) as (gc & Ec & Hnf & Hx).
        assert (Hne : g_id gc <> id).
        { intros Hid. destruct (cur_seg_find _ _ Ec) as [Ef' _]. rewrite Hid, Ef in Ef'. inversion Ef'; subst gc.
          rewrite Hx, pair_eqb_refl in Ep. discriminate. }
        exists gc. split; [|split; assumption].
        match goal with |- cur_seg ?mm = _ => rewrite (cur_seg_map G m mm HG eq_refl eq_refl eq_refl) end.
        rewrite Ec. cbn [option_map]. unfold G.
        destruct (N.eqb_spec (g_id gc) id); [contradiction|reflexivity].
      * intros g' Ec Hid. destruct (cur_seg_find _ _ Ec) as [Ef' _]. rewrite Hid, Ef in Ef'. inversion Ef'; subst g'.
        destruct (DurM_cur _ _ _ HD Ec) as [->|[-> _]]; [reflexivity|]. rewrite pair_eqb_refl. reflexivity.
  - intros E; inversion E; subst s0 m0; clear E.
    exists [], u. rewrite app_nil_r. split; [reflexivity|]. split; [reflexivity|]. split; [exact HD|].
    intros g' Ec Hid. destruct (cur_seg_find _ _ Ec) as [Ef' _]. rewrite Hid, Ef in Ef'. discriminate.
Qed.

(* pickForCompaction: the fold of seals *)
Lemma seal_all_dur picked : forall u (s : st) (m : mem) s1 m1,
  DurM u m ->
  fold_left (fun sm g => seal flat_ops (g_id g) (fst sm) (snd sm)) picked (s, m) = (s1, m1) ->
  exists tr u1, s_trace s1 = s_trace s ++ tr /\ dur u tr = Some u1 /\ DurM u1 m1.
Proof.
  induction picked as [|g picked IH]; intros u s m s1 m1 HD E.
  - cbn [fold_left] in E. inversion E; subst. exists [], u. rewrite app_nil_r. repeat split; auto.
  - cbn [fold_left fst snd] in E. destruct (seal flat_ops (g_id g) s m) as [s0 m0] eqn:E0.
    destruct (seal_dur u (g_id g) s m s0 m0 HD E0) as (tr0 & u0 & T0 & D0 & HD0 & _).
    destruct (IH u0 s0 m0 s1 m1 HD0 E) as (tr1 & u1 & T1 & D1 & HD1).
    exists (tr0 ++ tr1), u1. split; [rewrite T1, T0, app_assoc; reflexivity|].
    split; [apply (dur_cat _ _ _ _ _ D0 D1)|exact HD1].
Qed.

(* ---- datalog.sync ---- *)
Lemma do_sync_dur u (s : st) (m : mem) :
  DurM u m -> exists tr, s_trace (do_sync flat_ops s m) = s_trace s ++ tr /\ dur u tr = Some None /\
                         s_disk (do_sync flat_ops s m) = s_disk s /\ s_mem (do_sync flat_ops s m) = s_mem s.
Proof.
  intros HD. unfold do_sync. destruct (cur_seg m) as [g|] eqn:Ec.
  - exists [ESync (FSeg (g_id g) (g_seq g))]. split; [apply s_trace_emit|]. split; [|split; reflexivity].
    apply dur_sync_cur. destruct (DurM_cur _ _ _ HD Ec) as [->|[-> _]]; auto.
  - exists []. rewrite app_nil_r. split; [reflexivity|]. rewrite (DurM_nocur _ _ HD Ec). repeat split.
Qed.

(* ---- datalog.writeRecord ---- *)
Lemma wr_dur P r u (s : st) (m : mem) s' m' id off :
  InvLog m (s_disk s) -> room m -> DurM u m ->
  write_record flat_ops P r s m = Some (s', m', id, off) ->
  exists tr g', s_trace s' = s_trace s ++ tr /\ dur u tr = Some (Some (g_id g', g_seq g')) /\
    cur_seg m' = Some g' /\ sm_full (g_meta g') = false.
Proof.
  intros HI Hroom HD. rewrite write_record_eq.
  (* the prelude *)
  assert (Hpre : exists s1 m1 g1 pre u1,
            wr_prelude P r s m = (s1, m1) /\ cur_seg m1 = Some g1 /\ sm_full (g_meta g1) = false /\
            s_trace s1 = s_trace s ++ pre /\ dur u pre = Some u1 /\ (u1 = None \/ u1 = Some (g_id g1, g_seq g1))).
  { assert (Hswap : forall (s0 : st) (m0 : mem) tr0, InvLog m0 (s_disk s0) -> room m0 -> s_trace s0 = s_trace s ++ tr0 ->
              dur u tr0 = Some None ->
              exists s1 m1 g1 pre u1,
                swap_segment flat_ops s0 m0 = (s1, m1) /\ cur_seg m1 = Some g1 /\ sm_full (g_meta g1) = false /\
                s_trace s1 = s_trace s ++ pre /\ dur u pre = Some u1 /\ (u1 = None \/ u1 = Some (g_id g1, g_seq g1))).
    { intros s0 m0 tr0 HI0 Hroom0 T0 D0.
      destruct (swap_spec s0 m0 HI0 Hroom0) as (s1 & m1 & g1 & pre1 & E1 & _ & _ & Ec1 & Hnf1 & _ & _ & _ & _ & _ & T1 & _ & Hp1).
      exists s1, m1, g1, (tr0 ++ pre1).
      exists (match pre1 with [] => None | _ => Some (g_id g1, g_seq g1) end).
      split; [exact E1|]. split; [exact Ec1|]. split; [exact Hnf1|].
      split; [rewrite T1, T0, app_assoc; reflexivity|]. split.
      - apply (dur_cat _ _ _ _ _ D0). destruct Hp1 as [->| ->]; [reflexivity|].
        reflexivity.
      - destruct Hp1 as [->| ->]; [left|right]; reflexivity. }
    unfold wr_prelude. destruct (cur_seg m) as [g|] eqn:Ec.
    - destruct (sm_full (g_meta g) || (p_maxseg P <? g_size g + rsize r)) eqn:En.
      + destruct (cur_seg_Some _ _ Ec) as (_ & Hg & _).
        assert (Hinc : ids_increasing (m_segs m)) by apply HI.
        destruct (seal_spec s m g Hinc Hg) as (s0 & m0 & pre0 & E0 & Hsim & _ & _ & Ed0 & _ & _ & _).
        rewrite E0.
        destruct (seal_dur u (g_id g) s m s0 m0 HD E0) as (tr0 & u0 & T0 & D0 & _ & Hu0).
        rewrite (Hu0 g Ec eq_refl) in D0.
        apply (Hswap s0 m0 tr0); [rewrite Ed0; eapply mem_sim_InvLog; eassumption|eapply mem_sim_room; eassumption|exact T0|exact D0].
      + apply orb_false_iff in En. destruct En as [Hnf _].
        exists s, m, g, [], u. rewrite app_nil_r. split; [reflexivity|]. split; [exact Ec|]. split; [exact Hnf|].
        split; [reflexivity|]. split; [reflexivity|].
        destruct (DurM_cur _ _ _ HD Ec) as [->|[-> _]]; auto.
    - apply (Hswap s m []); [exact HI|exact Hroom|rewrite app_nil_r; reflexivity|].
      rewrite (DurM_nocur _ _ HD Ec). reflexivity. }
  destruct Hpre as (s1 & m1 & g1 & pre & u1 & E1 & Ec1 & Hnf1 & T1 & D1 & Hu1). rewrite E1.
  unfold wr_tail. rewrite Ec1. destruct (find_dseg (g_id g1) (s_disk s1)) as [f|]; [|discriminate].
  destruct (negb ((f_seq f =? g_seq g1) && (flen f =? g_size g1))); [discriminate|].
  intros E. inversion E; subst s' m' id off; clear E.
  set (G := fun x : mseg => if g_id x =? g_id g1
                 then set_gmeta (set_gsize x (g_size g1 + rsize r)) (count_rec r (g_meta x)) else x).
  assert (HG : forall g0, g_id (G g0) = g_id g0 /\ g_seq (G g0) = g_seq g0).
  { intros g0. unfold G. destruct (g_id g0 =? g_id g1); split; reflexivity. }
  exists (pre ++ [EAppend (g_id g1) (g_seq g1) (g_size g1) r]), (G g1).
  split; [rewrite s_trace_emit, T1, app_assoc; reflexivity|].
  destruct (HG g1) as [a b]. rewrite a, b.
  split; [apply (dur_snoc _ _ _ _ _ D1); apply dur_data; [reflexivity|exact Hu1]|].
  split.
  - match goal with |- cur_seg ?mm = _ => rewrite (cur_seg_map G m1 mm HG eq_refl eq_refl eq_refl) end.
    rewrite Ec1. reflexivity.
  - unfold G. rewrite N.eqb_refl. cbn [g_meta set_gmeta]. rewrite count_rec_full. exact Hnf1.
Qed.

Lemma DurM_cur_eq u (m m' : mem) : cur_seg m' = cur_seg m -> DurM u m -> DurM u m'.
Proof. intros E HD x Ex. rewrite E. apply HD. exact Ex. Qed.

Lemma DurM_upd u (m : mem) id (F : mseg -> mseg) :
  (forall g, g_id (F g) = g_id g /\ g_seq (F g) = g_seq g /\ sm_full (g_meta (F g)) = sm_full (g_meta g)) ->
  DurM u m -> DurM u (set_msegs m (upd_mseg id F (m_segs m))).
Proof.
  intros HF. apply (DurM_map (fun g => if g_id g =? id then F g else g)); try reflexivity.
  - intros g. destruct (g_id g =? id); [|split; reflexivity]. destruct (HF g) as (a & b & _). split; assumption.
  - intros g _ Hnf. destruct (g_id g =? id); [|exact Hnf]. destruct (HF g) as (_ & _ & c). congruence.
Qed.

Lemma DurM_track_del u sl (m : mem) : DurM u m -> DurM u (track_del sl m).
Proof. unfold track_del. apply DurM_upd. intros g. repeat split. Qed.

Lemma DurM_add_delbytes u id n (m : mem) : DurM u m -> DurM u (add_delbytes id n m).
Proof. unfold add_delbytes. apply DurM_upd. intros g. repeat split. Qed.

Lemma dur_step_index u i : dur_step u (EIndex i) = Some u.
Proof. reflexivity. Qed.

Lemma finish_dur P u (s : st) (m : mem) :
  DurM u m ->
  exists s' tr u', finish flat_ops P s m = (s', OOk) /\ s_mem s' = Some m /\ s_trace s' = s_trace s ++ tr /\
    dur u tr = Some u' /\ DurM u' m /\ (p_sync P = true -> u' = None).
Proof.
  intros HD. unfold finish. destruct (p_sync P).
  - destruct (do_sync_dur u s m HD) as (tr & T & D & _).
    eexists _, tr, None. split; [reflexivity|]. split; [reflexivity|]. split; [exact T|].
    split; [exact D|]. split; [apply DurM_None|reflexivity].
  - eexists _, [], u. split; [reflexivity|]. split; [reflexivity|]. cbn [with_mem s_trace]. rewrite app_nil_r.
    split; [reflexivity|]. split; [reflexivity|]. split; [exact HD|discriminate].
Qed.

(* what each operation guarantees *)
Definition op_dur (P : params) (u : option (N * N)) (s s' : st) (synced : Prop) : Prop :=
  exists tr u' m', s_trace s' = s_trace s ++ tr /\ dur u tr = Some u' /\ s_mem s' = Some m' /\ DurM u' m' /\
                   (synced -> u' = None).

Lemma op_dur_same P u (s : st) (m : mem) : s_mem s = Some m -> DurM u m -> op_dur P u s s False.
Proof.
  intros Em HD. exists [], u, m. rewrite app_nil_r. repeat split; auto. intros [].
Qed.

Theorem put_dur P u (s s' : st) (m : mem) k v o :
  Inv P s -> s_mem s = Some m -> room m -> DurM u m ->
  db_put flat_ops P k v s = (s', o) -> op_dur P u s s' (o = OOk /\ p_sync P = true).
Proof.
  intros HI Em Hroom HD. unfold db_put. rewrite Em.
  assert (Hsame : forall o', (s, o') = (s', o) -> o' <> OOk -> op_dur P u s s' (o = OOk /\ p_sync P = true)).
  { intros o' E Ho. inversion E; subst s' o. exists [], u, m. rewrite app_nil_r. repeat split; auto.
    intros [H _]. exfalso. exact (Ho H). }
  destruct (max_key_len <? nlen k); [intros E; apply (Hsame _ E); discriminate|].
  destruct (max_val_len <? nlen v); [intros E; apply (Hsame _ E); discriminate|].
  destruct (write_record flat_ops P (mkput k v) s m) as [[[[s1 m1] id] off]|] eqn:Ew;
    [|intros E; apply (Hsame _ E); discriminate].
  destruct (wr_dur P _ u s m s1 m1 id off (Inv_InvLog P s m Em HI) Hroom HD Ew) as (tr1 & g1 & T1 & D1 & Ec1 & Hnf1).
  destruct (ix_put flat_ops (p_grow P) (m_idx m1) _ (matchf (s_disk s1) k)) as [i2 old].
  set (m2 := match old with Some o0 => track_del o0 m1 | None => m1 end).
  assert (HD1 : DurM (Some (g_id g1, g_seq g1)) m1).
  { intros x Ex. inversion Ex; subst x. exists g1. repeat split; assumption. }
  assert (HD2 : DurM (Some (g_id g1, g_seq g1)) (set_idx m2 i2)).
  { apply (DurM_cur_eq _ m2); [reflexivity|]. unfold m2. destruct old; [apply DurM_track_del|]; exact HD1. }
  destruct (finish_dur P _ (emit flat_ops (EIndex i2) s1) (set_idx m2 i2) HD2) as (sf & trf & uf & Ef & Emf & Tf & Df & HDf & Hsf).
  rewrite Ef. intros E. inversion E; subst s' o.
  exists (tr1 ++ [EIndex i2] ++ trf), uf, (set_idx m2 i2).
  split; [rewrite Tf, s_trace_emit, T1, <- !app_assoc; reflexivity|].
  split; [apply (dur_cat _ _ _ _ _ D1); cbn [app dur]; rewrite dur_step_index; exact Df|].
  split; [exact Emf|]. split; [exact HDf|]. intros [_ H]. apply Hsf. exact H.
Qed.

Theorem delete_dur P u (s s' : st) (m : mem) k o :
  Inv P s -> s_mem s = Some m -> room m -> DurM u m ->
  db_delete flat_ops P k s = (s', o) -> op_dur P u s s' (o = OOk /\ p_sync P = true).
Proof.
  intros HI Em Hroom HD. unfold db_delete. rewrite Em.
  destruct (ix_del flat_ops (m_idx m) _ (matchf (s_disk s) k)) as [i1 old].
  destruct old as [o0|].
  - pose proof (Inv_InvLog P s m Em HI) as HL.
    destruct (write_record flat_ops P (mkdel k) s (track_del o0 m)) as [[[[s1 m1] id] off]|] eqn:Ew.
    + destruct (wr_dur P _ u s (track_del o0 m) s1 m1 id off (track_del_InvLog _ _ _ HL) (track_del_room _ _ Hroom)
                  (DurM_track_del _ _ _ HD) Ew) as (tr1 & g1 & T1 & D1 & Ec1 & Hnf1).
      set (m2 := add_delbytes id (u32 (rsize (mkdel k))) m1).
      assert (HD1 : DurM (Some (g_id g1, g_seq g1)) m1).
      { intros x Ex. inversion Ex; subst x. exists g1. repeat split; assumption. }
      assert (HD2 : DurM (Some (g_id g1, g_seq g1)) (set_idx m2 i1)).
      { apply (DurM_cur_eq _ m2); [reflexivity|]. apply DurM_add_delbytes. exact HD1. }
      destruct (finish_dur P _ (emit flat_ops (EIndex i1) s1) (set_idx m2 i1) HD2) as (sf & trf & uf & Ef & Emf & Tf & Df & HDf & Hsf).
      rewrite Ef. intros E. inversion E; subst s' o.
      exists (tr1 ++ [EIndex i1] ++ trf), uf, (set_idx m2 i1).
      split; [rewrite Tf, s_trace_emit, T1, <- !app_assoc; reflexivity|].
      split; [apply (dur_cat _ _ _ _ _ D1); cbn [app dur]; rewrite dur_step_index; exact Df|].
      split; [exact Emf|]. split; [exact HDf|]. intros [_ H]. apply Hsf. exact H.
    + intros E. inversion E; subst s' o. exists [], u, m. rewrite app_nil_r. repeat split; auto.
      intros [H _]. discriminate H.
  - destruct (finish_dur P u s m HD) as (sf & trf & uf & Ef & Emf & Tf & Df & HDf & Hsf).
    rewrite Ef. intros E. inversion E; subst s' o. exists trf, uf, m.
    split; [exact Tf|]. split; [exact Df|]. split; [exact Emf|]. split; [exact HDf|]. intros [_ H]. apply Hsf. exact H.
Qed.

Theorem sync_dur P u (s s' : st) (m : mem) o :
  s_mem s = Some m -> DurM u m -> db_sync flat_ops s = (s', o) -> op_dur P u s s' True.
Proof.
  intros Em HD. unfold db_sync. rewrite Em. intros E. inversion E; subst s' o.
  destruct (do_sync_dur u s m HD) as (tr & T & D & _ & Em').
  exists tr, None, m. split; [exact T|]. split; [exact D|]. split; [congruence|]. split; [apply DurM_None|reflexivity].
Qed.

Theorem pick_dur P u (s s' : st) (m : mem) c :
  s_mem s = Some m -> DurM u m -> compact_pick flat_ops P s = Some (s', c) -> op_dur P u s s' False.
Proof.
  intros Em HD. unfold compact_pick. rewrite Em.
  destruct (fold_left (fun sm g => seal flat_ops (g_id g) (fst sm) (snd sm)) (pick P m) (s, m)) as [s1 m1] eqn:Ef.
  intros E. inversion E; subst s' c.
  destruct (seal_all_dur _ u s m s1 m1 HD Ef) as (tr & u1 & T & D & HD1).
  exists tr, u1, m1. split; [exact T|]. split; [exact D|]. split; [reflexivity|]. split; [exact HD1|intros []].
Qed.

Lemma remove_segment_dur u id seq (s : st) (m : mem) :
  DurM u m ->
  exists tr, s_trace (remove_segment flat_ops id seq s m) = s_trace s ++ tr /\ dur u tr = Some None.
Proof.
  intros HD. unfold remove_segment.
  destruct (do_sync_dur u s m HD) as (tr & T & D & _).
  set (s1 := do_sync flat_ops s m) in *.
  destruct (exists_file (s_disk s1) (FSegMeta id seq)).
  - exists (tr ++ [ERemove (FSegMeta id seq); ERemove (FSeg id seq)]).
    split; [cbn [with_mem s_trace]; rewrite !s_trace_emit, T, <- !app_assoc; reflexivity|].
    apply (dur_cat _ _ _ _ _ D). reflexivity.
  - exists (tr ++ [ERemove (FSeg id seq)]).
    split; [cbn [with_mem s_trace]; rewrite !s_trace_emit, T, <- !app_assoc; reflexivity|].
    apply (dur_cat _ _ _ _ _ D). reflexivity.
Qed.

Theorem cstep_dur P u (s : st) (c : cursor) (m : mem) s' c' :
  Inv P s -> CInv s c -> s_mem s = Some m -> room m -> DurM u m ->
  compact_step flat_ops P s c = CMore s' c' -> op_dur P u s s' False.
Proof.
  intros HI HC Em Hroom HD E. unfold compact_step in E. rewrite Em in E.
  pose proof (Inv_InvLog P s m Em HI) as HL.
  destruct (c_src c) as [[[id seq] off]|] eqn:Esrc.
  2:{ destruct (c_todo c) as [|[id seq] todo] eqn:Etodo; [discriminate|].
      assert (Es : s' = with_mem (set_msegs m (upd_mseg id (fun g => set_gmeta g (set_full (g_meta g))) (m_segs m))) s) by congruence.
      rewrite Es. eexists [], u, _. rewrite app_nil_r. split; [reflexivity|]. split; [reflexivity|].
      split; [reflexivity|]. split; [|intros []].
      destruct HC as (m0 & Em0 & C1 & _). assert (m0 = m) by congruence. subst m0.
      destruct (C1 (id, seq)) as (gs & Hgs & Hid & _ & Hfull).
      { unfold crem. rewrite Esrc, Etodo. left. reflexivity. }
      cbn [fst] in Hid.
      apply (DurM_map (fun g => if g_id g =? id then set_gmeta g (set_full (g_meta g)) else g) u m); try reflexivity; [| |exact HD].
      - intros g. destruct (g_id g =? id); split; reflexivity.
      - intros g Ec Hnf. destruct (N.eqb_spec (g_id g) id) as [Eid|_]; [|exact Hnf]. exfalso.
        destruct (cur_seg_Some _ _ Ec) as (_ & Hg & _).
        assert (g = gs) by (apply (ids_increasing_unique (m_segs m)); [apply HL|exact Hg|exact Hgs|congruence]).
        subst g. congruence. }
  destruct (find_dseg id (s_disk s)) as [f|] eqn:Ef; [|discriminate].
  destruct (rec_at off (seg_entries f)) as [r|] eqn:Er.
  - destruct (rdel r); [assert (Es : s' = s) by congruence; rewrite Es; apply (op_dur_same P u s m Em HD)|].
    cbn [ix_repoint flat_ops] in E.
    destruct (fl_repoint (m_idx m) (p_hash P (m_seed m) (rk r)) id (u32 off) id (u32 off));
      [|assert (Es : s' = s) by congruence; rewrite Es; apply (op_dur_same P u s m Em HD)].
    destruct (write_record flat_ops P r s m) as [[[[s1 m1] nid] noff]|] eqn:Ew; [|discriminate].
    destruct (wr_dur P r u s m s1 m1 nid noff HL Hroom HD Ew) as (tr1 & g1 & T1 & D1 & Ec1 & Hnf1).
    destruct (fl_repoint (m_idx m1) (p_hash P (m_seed m) (rk r)) id (u32 off) nid noff) as [i2|]; [|discriminate].
    assert (Es : s' = with_mem (set_idx m1 i2) (emit flat_ops (EIndex i2) s1)) by congruence.
    rewrite Es. exists (tr1 ++ [EIndex i2]), (Some (g_id g1, g_seq g1)), (set_idx m1 i2).
    split; [cbn [with_mem s_trace]; rewrite s_trace_emit, T1, app_assoc; reflexivity|].
    split; [apply (dur_snoc _ _ _ _ _ D1); apply dur_step_index|]. split; [reflexivity|]. split; [|intros []].
    intros x Ex. inversion Ex; subst x. exists g1. split; [exact Ec1|]. split; [exact Hnf1|reflexivity].
  - destruct (negb ((flen f =? off) && (f_seq f =? seq))); [discriminate|].
    assert (Es : s' = remove_segment flat_ops id seq s m) by congruence. rewrite Es.
    destruct (remove_segment_dur u id seq s m HD) as (tr & T & D).
    unfold remove_segment in *. eexists tr, None, _. split; [exact T|]. split; [exact D|].
    split; [reflexivity|]. split; [apply DurM_None|intros []].
Qed.

(* ================================================================================================ *)
(* 5. Histories: writer operations and compaction micro-steps, interleaved in any way                *)

Inductive xop := XOp (o : op) | XPick | XStep.
Definition cfg := (st * option cursor)%type.

Inductive xstep (P : params) : cfg -> xop -> cfg -> Prop :=
| xs_op s c o : op_pre o s -> xstep P (s, c) (XOp o) (run_op P o s, c)
| xs_pick s s' c : MetaOK s -> compact_pick flat_ops P (clear_trace s) = Some (s', c) ->
    xstep P (s, None) XPick (s', Some c)
| xs_step s c s' c' : (exists m, s_mem s = Some m /\ room m) ->
    compact_step flat_ops P (clear_trace s) c = CMore s' c' -> xstep P (s, Some c) XStep (s', Some c')
| xs_done s c : compact_step flat_ops P (clear_trace s) c = CDone -> xstep P (s, Some c) XStep (clear_trace s, None).

Definition XOpen (P : params) (cf : cfg) : Prop :=
  Open P (fst cf) /\ match snd cf with Some c => CInv (fst cf) c | None => True end.

Definition xspec (o : xop) (c : cmap) : cmap := match o with XOp o => spec_op o c | _ => c end.
Definition xspec_hist (h : list xop) (c : cmap) : cmap := fold_left (fun c o => xspec o c) h c.

Lemma xspec_ceq o a b : ceq a b -> ceq (xspec o a) (xspec o b).
Proof. destruct o; [apply spec_op_ceq|auto|auto]. Qed.
Lemma xspec_hist_ceq h : forall a b, ceq a b -> ceq (xspec_hist h a) (xspec_hist h b).
Proof.
  induction h as [|o h IH]; intros a b H; [exact H|]. unfold xspec_hist. cbn [fold_left].
  apply IH. apply xspec_ceq. exact H.
Qed.

Lemma run_syncs es : forall d : disk, Forall is_sync es -> run_evs es d = d.
Proof.
  induction es as [|e es IH]; intros d H; [reflexivity|]. inversion H as [|? ? (i & q & ->) H']; subst.
  cbn [fold_left apply_ev]. apply IH. exact H'.
Qed.

Lemma CInv_mem (s : st) c : CInv s c -> s_mem s <> None.
Proof. intros (m & Em & _). congruence. Qed.

(* every step keeps the invariants and meets its specification; its final disk is the fold of its events *)
Lemma xstep_ok P cf o cf' :
  params_ok P -> XOpen P cf -> xstep P cf o cf' ->
  XOpen P cf' /\ ceq (cont (s_disk (fst cf'))) (xspec o (cont (s_disk (fst cf)))) /\
  s_disk (fst cf') = run_evs (s_trace (fst cf')) (s_disk (fst cf)).
Proof.
  intros HP [HO HC] Hs. destruct Hs as [s c o Hpre|s s' c HM E|s c s' c' Hroom E|s c E]; unfold XOpen; cbn [fst snd] in *.
  - destruct (op_ok P o s HP HO Hpre) as [HO' Hc']. destruct HO as (HI & Hm & Hb).
    split; [split; [exact HO'|]|split; [exact Hc'|]].
    + destruct c as [cc|]; [|exact Logic.I].
      destruct o as [k v|k|]; cbn [run_op op_pre] in *.
      * destruct Hpre as (Hroom & Hbk & Hbv & Hk & Hv).
        apply (put_preserves_CInv P (clear_trace s) cc k v HP (Inv_clear P s HI) Hroom Hbk Hbv Hk Hv HC).
      * destruct Hpre as (Hroom & Hbk).
        apply (delete_preserves_CInv P (clear_trace s) cc k HP (Inv_clear P s HI) Hroom Hbk HC).
      * apply (sync_preserves_CInv P (clear_trace s) cc (Inv_clear P s HI) Hm HC).
    + destruct o as [k v|k|]; cbn [run_op op_pre] in *.
      * destruct Hpre as (Hroom & Hbk & Hbv & Hk & Hv).
        destruct (put_ok_ex P (clear_trace s) k v HP (Inv_clear P s HI) Hroom Hbk Hbv Hk Hv)
          as (s' & E & _ & _ & _ & id & seq & off & pre & i2 & post & Et & _ & Hpost & _ & _ & Ed).
        rewrite E. cbn [fst]. cbn [clear_trace s_trace s_disk] in Et, Ed. rewrite app_nil_l in Et.
        rewrite Et, Ed, (app_assoc pre), (fold_left_app _ _ post).
        destruct Hpost as [->|(i & q & ->)]; reflexivity.
      * destruct Hpre as (Hroom & Hbk).
        destruct (delete_ok_ex P (clear_trace s) k HP (Inv_clear P s HI) Hroom Hbk) as (s' & E & _ & _ & _ & _ & Hcases).
        rewrite E. cbn [fst].
        destruct Hcases as [(_ & Ed & Et)|(_ & _ & id & seq & off & pre & i1 & post & Et & _ & Hpost & _ & _ & Ed)].
        -- cbn [clear_trace s_disk s_trace] in Ed, Et. rewrite Ed.
           destruct Et as [->|(i & q & ->)]; reflexivity.
        -- cbn [clear_trace s_trace s_disk] in Et, Ed. rewrite app_nil_l in Et.
           rewrite Et, Ed, (app_assoc pre), (fold_left_app _ _ post).
           destruct Hpost as [->|(i & q & ->)]; reflexivity.
      * destruct (sync_trace s Hm) as [Ed [->|(i & q & ->)]]; rewrite Ed; reflexivity.
  - destruct HO as (HI & Hm & Hb).
    destruct (compact_pick_ok P (clear_trace s) (Inv_clear P s HI) HM Hm) as (s1 & c1 & E1 & HI1 & HC1 & Ed1 & _ & _ & (es & Et & Hes) & _).
    rewrite E in E1. inversion E1; subst s1 c1. cbn [clear_trace s_disk s_trace app] in Ed1, Et.
    split; [split; [split; [exact HI1|split; [apply (CInv_mem s' c HC1)|rewrite Ed1; exact Hb]]|exact HC1]|].
    split; [rewrite Ed1; apply ceq_refl|]. rewrite Et, Ed1, (run_syncs es _ Hes). reflexivity.
  - destruct HO as (HI & Hm & Hb).
    assert (HC' : CInv (clear_trace s) c) by exact HC.
    pose proof (compact_step_ok_ex P (clear_trace s) c (Inv_clear P s HI) HC' Hroom) as Hpost.
    rewrite E in Hpost. destruct Hpost as (HI' & HC1 & Hm' & Habs & _ & _ & _ & Hbac').
    cbn [clear_trace s_disk] in Habs, Hbac'.
    split; [split; [split; [exact HI'|split; [exact Hm'|unfold bac_ok; rewrite Hbac'; exact Hb]]|exact HC1]|].
    split; [exact Habs|].
    destruct (compact_step_shape P (clear_trace s) c s' c' (Inv_clear P s HI) Hroom E)
      as [(T & D)|[(r & nid & sq & noff & pre & i2 & _ & _ & T & D)|(es & id & seq & _ & T & D)]];
      cbn [clear_trace s_trace s_disk] in T, D; try rewrite app_nil_l in T; rewrite T, D; reflexivity.
  - split; [split; [|exact Logic.I]|split; [apply ceq_refl|reflexivity]].
    destruct HO as (HI & Hm & Hb). split; [apply Inv_clear; exact HI|split; assumption].
Qed.

(* process-crash images of one step (C03 for every kind of step) *)
Lemma xstep_crash P cf o cf' img :
  params_ok P -> XOpen P cf -> xstep P cf o cf' ->
  crash_image (s_disk (fst cf)) (s_trace (fst cf')) img ->
  Good img /\ (ceq (cont img) (cont (s_disk (fst cf))) \/ ceq (cont img) (cont (s_disk (fst cf')))).
Proof.
  intros HP HX Hs Himg. destruct (xstep_ok P cf o cf' HP HX Hs) as (_ & Hspec & _). destruct HX as [HO HC].
  destruct Hs as [s c o Hpre|s s' c HM E|s c s' c' Hroom E|s c E]; cbn [fst snd xspec] in *.
  - destruct (op_crash P o s img HP HO Hpre Himg) as [Hg [Hc|Hc]]; (split; [exact Hg|]); [left; exact Hc|right].
    eapply ceq_trans; [exact Hc|apply ceq_sym; exact Hspec].
  - destruct HO as (HI & Hm & Hb). destruct (crash_compact_pick P s s' c HI Hm Hb E) as (_ & _ & H).
    destruct (H img Himg) as (_ & G1 & G2 & G3 & Hc). split; [split; [exact G1|split; assumption]|left; exact Hc].
  - destruct HO as (HI & Hm & Hb).
    destruct (crash_compact_step P s c s' c' HI HC Hroom Hb E img Himg) as (G1 & G2 & G3 & Hc).
    split; [split; [exact G1|split; assumption]|left; exact Hc].
  - cbn [clear_trace s_trace] in Himg. inversion Himg; subst. destruct HO as (HI & Hm & Hb).
    split; [apply (Inv_Good P s HI Hm Hb)|left; apply ceq_refl].
Qed.

(* the points at which everything written so far is durable *)
Definition sync_point (P : params) (o : xop) : Prop :=
  match o with XOp OpSync => True | XOp _ => p_sync P = true | _ => False end.

Definition DurS (u : option (N * N)) (s : st) : Prop := exists m, s_mem s = Some m /\ DurM u m.

Lemma xstep_dur P cf o cf' u :
  params_ok P -> XOpen P cf -> xstep P cf o cf' -> DurS u (fst cf) ->
  exists u', dur u (s_trace (fst cf')) = Some u' /\ DurS u' (fst cf') /\ (sync_point P o -> u' = None).
Proof.
  intros HP [HO HC] Hs (m & Em & HD). destruct HO as (HI & Hm & Hb).
  assert (Hfin : forall s' synced, op_dur P u (clear_trace (fst cf)) s' synced ->
            exists u', dur u (s_trace s') = Some u' /\ DurS u' s' /\ (synced -> u' = None)).
  { intros s' synced (tr & u' & m' & T & D & Em' & HD' & Hsy). cbn [clear_trace s_trace app] in T.
    exists u'. rewrite T. split; [exact D|]. split; [exists m'; split; assumption|exact Hsy]. }
  destruct Hs as [s c o Hpre|s s' c HM E|s c s' c' Hroom E|s c E]; cbn [fst snd] in *.
  - destruct o as [k v|k|]; cbn [run_op op_pre sync_point] in *.
    + destruct Hpre as ((m0 & Em0 & Hroom) & Hbk & Hbv & Hk & Hv). assert (m0 = m) by congruence. subst m0.
      pose proof (put_ok P (clear_trace s) k v HP (Inv_clear P s HI) (ex_intro _ m (conj Em Hroom)) Hbk Hbv Hk Hv) as Hp.
      destruct (db_put flat_ops P k v (clear_trace s)) as [s' o'] eqn:E. destruct Hp as (Ho & _). cbn [fst].
      destruct (Hfin s' _ (put_dur P u (clear_trace s) s' m k v o' (Inv_clear P s HI) Em Hroom HD E)) as (u' & A & B & C).
      exists u'. split; [exact A|]. split; [exact B|]. intros Hsy. apply C. split; assumption.
    + destruct Hpre as ((m0 & Em0 & Hroom) & Hbk). assert (m0 = m) by congruence. subst m0.
      pose proof (delete_ok P (clear_trace s) k HP (Inv_clear P s HI) (ex_intro _ m (conj Em Hroom)) Hbk) as Hp.
      destruct (db_delete flat_ops P k (clear_trace s)) as [s' o'] eqn:E. destruct Hp as (Ho & _). cbn [fst].
      destruct (Hfin s' _ (delete_dur P u (clear_trace s) s' m k o' (Inv_clear P s HI) Em Hroom HD E)) as (u' & A & B & C).
      exists u'. split; [exact A|]. split; [exact B|]. intros Hsy. apply C. split; assumption.
    + destruct (db_sync flat_ops (clear_trace s)) as [s' o'] eqn:E. cbn [fst].
      destruct (Hfin s' _ (sync_dur P u (clear_trace s) s' m o' Em HD E)) as (u' & A & B & C).
      exists u'. split; [exact A|]. split; [exact B|]. intros _. apply C. exact Logic.I.
  - destruct (Hfin s' _ (pick_dur P u (clear_trace s) s' m c Em HD E)) as (u' & A & B & _).
    exists u'. split; [exact A|]. split; [exact B|intros []].
  - destruct Hroom as (m0 & Em0 & Hroom). assert (m0 = m) by congruence. subst m0.
    assert (HC' : CInv (clear_trace s) c) by exact HC.
    destruct (Hfin s' _ (cstep_dur P u (clear_trace s) c m s' c' (Inv_clear P s HI) HC' Em Hroom HD E)) as (u' & A & B & _).
    exists u'. split; [exact A|]. split; [exact B|intros []].
  - exists u. split; [reflexivity|]. split; [exists m; split; assumption|intros []].
Qed.

(* a history: the configurations after each step, and all the events *)
Inductive xrun (P : params) : cfg -> list xop -> list cfg -> list fsev -> cfg -> Prop :=
| xr_nil cf : xrun P cf [] [] [] cf
| xr_cons cf o cf1 os cfs tr cf' : xstep P cf o cf1 -> xrun P cf1 os cfs tr cf' ->
    xrun P cf (o :: os) (cf1 :: cfs) (s_trace (fst cf1) ++ tr) cf'.

Lemma xrun_ok P cf os cfs tr cf' :
  params_ok P -> xrun P cf os cfs tr cf' -> XOpen P cf ->
  XOpen P cf' /\ s_disk (fst cf') = run_evs tr (s_disk (fst cf)) /\
  ceq (cont (s_disk (fst cf'))) (xspec_hist os (cont (s_disk (fst cf)))) /\ length cfs = length os.
Proof.
  intros HP H. induction H as [cf|cf o cf1 os cfs tr cf' Hs H IH]; intros HX.
  - split; [exact HX|]. split; [reflexivity|]. split; [apply ceq_refl|reflexivity].
  - destruct (xstep_ok P cf o cf1 HP HX Hs) as (HX1 & Hc1 & Ed1). destruct (IH HX1) as (HX' & Ed' & Hc' & Hlen).
    split; [exact HX'|]. split; [rewrite Ed', Ed1, fold_left_app; reflexivity|]. split; [|cbn [length]; congruence].
    eapply ceq_trans; [exact Hc'|]. unfold xspec_hist at 2. cbn [fold_left]. apply xspec_hist_ceq. exact Hc1.
Qed.

Lemma xrun_dur P cf os cfs tr cf' :
  params_ok P -> xrun P cf os cfs tr cf' -> XOpen P cf -> forall u, DurS u (fst cf) ->
  exists u', dur u tr = Some u' /\ DurS u' (fst cf').
Proof.
  intros HP H. induction H as [cf|cf o cf1 os cfs tr cf' Hs H IH]; intros HX u HD.
  - exists u. split; [reflexivity|exact HD].
  - destruct (xstep_ok P cf o cf1 HP HX Hs) as (HX1 & _).
    destruct (xstep_dur P cf o cf1 u HP HX Hs HD) as (u1 & D1 & HD1 & _).
    destruct (IH HX1 u1 HD1) as (u' & D' & HD'). exists u'. split; [apply (dur_cat _ _ _ _ _ D1 D')|exact HD'].
Qed.

(* process-crash images of a history: the contents after some prefix of the steps *)
Lemma xrun_crash P cf os cfs tr cf' :
  params_ok P -> xrun P cf os cfs tr cf' -> XOpen P cf ->
  forall img, crash_image (s_disk (fst cf)) tr img ->
  Good img /\ exists j, (j <= length os)%nat /\ ceq (cont img) (xspec_hist (firstn j os) (cont (s_disk (fst cf)))).
Proof.
  intros HP H. induction H as [cf|cf o cf1 os cfs tr cf' Hs H IH]; intros HX img Himg.
  - inversion Himg; subst. destruct HX as [(HI & Hm & Hb) _].
    split; [apply (Inv_Good P _ HI Hm Hb)|]. exists O. split; [apply Nat.le_refl|apply ceq_refl].
  - destruct (xstep_ok P cf o cf1 HP HX Hs) as (HX1 & Hc1 & Ed1).
    destruct (crash_image_split _ _ _ _ Himg) as [Hl|Hr].
    + destruct (xstep_crash P cf o cf1 img HP HX Hs Hl) as [Hg [Hc|Hc]]; (split; [exact Hg|]).
      * exists O. split; [apply Nat.le_0_l|exact Hc].
      * exists 1%nat. split; [cbn [length]; lia|]. cbn [firstn]. unfold xspec_hist. cbn [fold_left].
        eapply ceq_trans; [exact Hc|exact Hc1].
    + rewrite <- Ed1 in Hr. destruct (IH HX1 img Hr) as [Hg (j & Hj & Hc)]. split; [exact Hg|].
      exists (S j). split; [cbn [length]; lia|]. cbn [firstn]. unfold xspec_hist. cbn [fold_left].
      eapply ceq_trans; [exact Hc|]. apply xspec_hist_ceq. exact Hc1.
Qed.

(* ================================================================================================ *)
(* 6. C06                                                                                            *)

(* Power fails at any point of a history that started in a state with nothing pending on any segment
   file: the image is recoverable and holds the contents after some prefix of the steps. *)
Theorem C06_image P cf os cfs tr cf' u L img es1 es2 L' img' :
  params_ok P -> XOpen P cf -> xrun P cf os cfs tr cf' -> DurS u (fst cf) ->
  seg_clean L -> Agree L (s_disk (fst cf)) img ->
  tr = es1 ++ es2 -> pl L img es1 L' img' ->
  Good img' /\ exists j, (j <= length os)%nat /\
                         ceq (cont img') (xspec_hist (firstn j os) (cont (s_disk (fst cf)))).
Proof.
  intros HP HX Hr HD HL HA Etr Hpl.
  destruct (xrun_dur P cf os cfs tr cf' HP Hr HX u HD) as (u' & Hdur & _).
  assert (Hd1 : dur u es1 <> None) by (apply (dur_prefix es1 es2); rewrite <- Etr, Hdur; discriminate).
  assert (Hc : exists cimg, crash_image (s_disk (fst cf)) tr cimg /\ Same cimg img').
  { destruct (pl_reduce _ _ _ _ _ Hpl (s_disk (fst cf)) u HL HA Hd1) as [[HL' HA']|(cimg & x & C1 & C2 & _)].
    - exists (run_evs es1 (s_disk (fst cf))). split; [|apply (Agree_Same L'); assumption].
      rewrite Etr. apply crash_image_app_l. apply crash_image_full.
    - exists cimg. split; [rewrite Etr; apply crash_image_app_l; exact C1|exact C2]. }
  destruct Hc as (cimg & Hci & Hsame).
  destruct (xrun_crash P cf os cfs tr cf' HP Hr HX cimg Hci) as [Hg (j & Hj & Hc)].
  split; [apply (Same_Good cimg); assumption|]. exists j. split; [exact Hj|].
  intros k. unfold cont. rewrite (proj2 (Same_cont _ _ Hsame)). apply Hc.
Qed.

(* the same, without the conclusion about contents: the image is a process-crash image *)
Lemma C06_crash_image P cf os cfs tr cf' u L img es1 es2 L' img' :
  params_ok P -> XOpen P cf -> xrun P cf os cfs tr cf' -> DurS u (fst cf) ->
  seg_clean L -> Agree L (s_disk (fst cf)) img ->
  tr = es1 ++ es2 -> pl L img es1 L' img' ->
  exists cimg, crash_image (s_disk (fst cf)) tr cimg /\ Same cimg img'.
Proof.
  intros HP HX Hr HD HL HA Etr Hpl.
  destruct (xrun_dur P cf os cfs tr cf' HP Hr HX u HD) as (u' & Hdur & _).
  assert (Hd1 : dur u es1 <> None) by (apply (dur_prefix es1 es2); rewrite <- Etr, Hdur; discriminate).
  destruct (pl_reduce _ _ _ _ _ Hpl (s_disk (fst cf)) u HL HA Hd1) as [[HL' HA']|(cimg & x & C1 & C2 & _)].
  - exists (run_evs es1 (s_disk (fst cf))). split; [|apply (Agree_Same L'); assumption].
    rewrite Etr. apply crash_image_app_l. apply crash_image_full.
  - exists cimg. split; [rewrite Etr; apply crash_image_app_l; exact C1|exact C2].
Qed.

(* a history that ends with a sync point leaves nothing pending on any segment file *)
Lemma sync_point_clean P cf0 os0 cfs0 tr0 cfa osync cf1 es L1 img1 :
  params_ok P -> XOpen P cf0 -> xrun P cf0 os0 cfs0 tr0 cfa -> xstep P cfa osync cf1 -> sync_point P osync ->
  es = tr0 ++ s_trace (fst cf1) ->
  pl fnone (s_disk (fst cf0)) es L1 img1 ->
  XOpen P cf1 /\ dur None es = Some None /\ seg_clean L1 /\ Agree L1 (s_disk (fst cf1)) img1.
Proof.
  intros HP HX0 Hr0 Hs Hsp Ees Hpl.
  destruct (xrun_ok P _ _ _ _ _ HP Hr0 HX0) as (HXa & Eda & _).
  destruct (xstep_ok P _ _ _ HP HXa Hs) as (HX1 & _ & Ed1).
  assert (HD0 : DurS None (fst cf0)).
  { destruct HX0 as [(_ & Hm & _) _]. destruct (s_mem (fst cf0)) as [m|] eqn:Em; [|congruence].
    exists m. split; [exact Em|apply DurM_None]. }
  destruct (xrun_dur P _ _ _ _ _ HP Hr0 HX0 None HD0) as (ua & Da & HDa).
  destruct (xstep_dur P _ _ _ ua HP HXa Hs HDa) as (u1 & D1 & _ & Hu1). rewrite (Hu1 Hsp) in D1.
  assert (Hdur : dur None es = Some None) by (rewrite Ees; apply (dur_cat _ _ _ _ _ Da D1)).
  split; [exact HX1|]. split; [exact Hdur|].
  assert (Hcl : seg_clean L1).
  { intros i q. destruct (L1 (FSeg i q)) eqn:E; [|reflexivity].
    assert (Hx : None = Some (i, q)); [|discriminate Hx].
    apply (pl_dur _ _ _ _ _ Hpl None None Hdur); [intros i' q' H'; discriminate H'|exact E]. }
  split; [exact Hcl|].
  assert (Edisk : s_disk (fst cf1) = run_evs es (s_disk (fst cf0))) by (rewrite Ees, fold_left_app, <- Eda; exact Ed1).
  rewrite Edisk. apply (pl_agree _ _ _ _ _ Hpl). apply Agree_refl.
Qed.

(* C06.  A history from a state with a durable disk; a Sync (or, with p_sync, any Put / Delete) completes
   with contents A0 := cont (s_disk (fst cf1)); any further steps [os] (writers and compaction micro-steps
   in any interleaving); the power fails after any prefix [es1] of their events.  Whatever the file
   system kept (any admissible image), recovery succeeds and yields the contents after some prefix of
   [os] applied to A0: nothing that was synced is lost, later operations are kept in order. *)
Theorem C06_synced_writes_survive P seed cf0 os0 cfs0 tr0 cfa osync cf1 os cfs tr cf' es1 es2 L' img' :
  params_ok P -> XOpen P cf0 ->
  xrun P cf0 os0 cfs0 tr0 cfa -> xstep P cfa osync cf1 -> sync_point P osync ->
  xrun P cf1 os cfs tr cf' -> tr = es1 ++ es2 ->
  pl fnone (s_disk (fst cf0)) (tr0 ++ s_trace (fst cf1) ++ es1) L' img' ->
  exists s2, db_open flat_ops P seed (closed img') = (s2, OOpened true) /\ Inv P s2 /\ s_mem s2 <> None /\
    exists j, (j <= length os)%nat /\
      ceq (cont (s_disk s2)) (xspec_hist (firstn j os) (cont (s_disk (fst cf1)))).
Proof.
  intros HP HX0 Hr0 Hs Hsp Hr Etr Hpl. rewrite app_assoc in Hpl.
  destruct (pl_app_inv _ _ _ _ _ _ Hpl) as (L1 & img1 & Hpl1 & Hpl2).
  destruct (sync_point_clean P _ _ _ _ _ _ _ _ L1 img1 HP HX0 Hr0 Hs Hsp eq_refl Hpl1) as (HX1 & _ & Hcl & HA).
  assert (HD1 : DurS None (fst cf1)).
  { destruct HX1 as [(_ & Hm & _) _]. destruct (s_mem (fst cf1)) as [m|] eqn:Em; [|congruence].
    exists m. split; [exact Em|apply DurM_None]. }
  destruct (C06_image P cf1 os cfs tr cf' None L1 img1 es1 es2 L' img' HP HX1 Hr HD1 Hcl HA Etr Hpl2)
    as ((G1 & G2 & G3) & j & Hj & Hc).
  destruct (crash_then_recover P seed img' HP G1 G2 G3) as (s2 & E2 & HI2 & Hm2 & _ & Ha2).
  exists s2. split; [exact E2|]. split; [exact HI2|]. split; [exact Hm2|]. exists j. split; [exact Hj|].
  intros k. unfold cont at 1. rewrite Ha2. apply Hc.
Qed.

(* per key: the value at the sync point, or the value after one of the later operations *)
Corollary C06_per_key P seed cf0 os0 cfs0 tr0 cfa osync cf1 os cfs tr cf' es1 es2 L' img' :
  params_ok P -> XOpen P cf0 ->
  xrun P cf0 os0 cfs0 tr0 cfa -> xstep P cfa osync cf1 -> sync_point P osync ->
  xrun P cf1 os cfs tr cf' -> tr = es1 ++ es2 ->
  pl fnone (s_disk (fst cf0)) (tr0 ++ s_trace (fst cf1) ++ es1) L' img' ->
  exists s2, db_open flat_ops P seed (closed img') = (s2, OOpened true) /\ Inv P s2 /\
    forall k, exists j, (j <= length os)%nat /\
      sget (abs (s_disk s2)) k = xspec_hist (firstn j os) (cont (s_disk (fst cf1))) k.
Proof.
  intros HP HX0 Hr0 Hs Hsp Hr Etr Hpl.
  destruct (C06_synced_writes_survive P seed _ _ _ _ _ _ _ _ _ _ _ _ _ _ _ HP HX0 Hr0 Hs Hsp Hr Etr Hpl)
    as (s2 & E2 & HI2 & _ & j & Hj & Hc).
  exists s2. split; [exact E2|]. split; [exact HI2|]. intros k. exists j. split; [exact Hj|apply Hc].
Qed.

(* ---- histories of writer operations only (Put / Delete / Sync, with rollover) ---- *)
Fixpoint htrace (P : params) (h : list op) (s : st) : list fsev :=
  match h with
  | [] => []
  | o :: h' => s_trace (run_op P o s) ++ htrace P h' (run_op P o s)
  end.

Lemma history_xrun P s h s' :
  history P s h s' -> exists cfs, xrun P (s, None) (map XOp h) cfs (htrace P h s) (s', None).
Proof.
  intros H. induction H as [s|s o h s' Hpre H (cfs & IH)].
  - exists []. apply xr_nil.
  - exists ((run_op P o s, None) :: cfs). cbn [map htrace].
    apply (xr_cons P (s, None) (XOp o) (run_op P o s, None)); [apply xs_op; exact Hpre|exact IH].
Qed.

Lemma xspec_hist_map h c : xspec_hist (map XOp h) c = spec_hist h c.
Proof. revert c. induction h as [|o h IH]; intros c; [reflexivity|]. apply IH. Qed.

Theorem C06_no_compaction P seed s0 h0 sa o h s' es1 es2 L' img' :
  params_ok P -> Open P s0 ->
  history P s0 h0 sa -> op_pre o sa -> (o = OpSync \/ p_sync P = true) ->
  history P (run_op P o sa) h s' -> htrace P h (run_op P o sa) = es1 ++ es2 ->
  pl fnone (s_disk s0) (htrace P h0 s0 ++ s_trace (run_op P o sa) ++ es1) L' img' ->
  exists s2, db_open flat_ops P seed (closed img') = (s2, OOpened true) /\ Inv P s2 /\ s_mem s2 <> None /\
    exists j, (j <= length h)%nat /\
      ceq (cont (s_disk s2)) (spec_hist (firstn j h) (cont (s_disk (run_op P o sa)))).
Proof.
  intros HP HO H0 Hpre Hsy H Etr Hpl.
  destruct (history_xrun P _ _ _ H0) as (cfs0 & R0). destruct (history_xrun P _ _ _ H) as (cfs & R).
  assert (Hsp : sync_point P (XOp o)) by (destruct Hsy as [->|E]; [exact Logic.I|destruct o; try exact E; exact Logic.I]).
  destruct (C06_synced_writes_survive P seed (s0, None) _ _ _ (sa, None) (XOp o) (run_op P o sa, None) _ _ _ _ es1 es2 L' img'
              HP (conj HO Logic.I) R0 (xs_op P sa None o Hpre) Hsp R Etr Hpl) as (s2 & E2 & HI2 & Hm2 & j & Hj & Hc).
  exists s2. split; [exact E2|]. split; [exact HI2|]. split; [exact Hm2|]. exists j. rewrite map_length in Hj.
  split; [exact Hj|]. cbn [fst] in Hc. rewrite firstn_map, xspec_hist_map in Hc. exact Hc.
Qed.

(* ---- the log itself, for histories of writer operations: the image's log contains the log as of the
        sync point and is a prefix of the current log ---- *)
Lemma op_crash_olog P o (s : st) img :
  params_ok P -> Open P s -> op_pre o s ->
  crash_image (s_disk s) (s_trace (run_op P o s)) img ->
  Good img /\ (olog img = olog (s_disk s) \/ olog img = olog (s_disk (run_op P o s))) /\
  exists l, olog (s_disk (run_op P o s)) = olog (s_disk s) ++ l.
Proof.
  intros HP (HI & Hm & Hb) Hpre Himg. pose proof (Inv_Good P s HI Hm Hb) as Hg.
  destruct o as [k v|k|]; cbn [run_op op_pre] in *.
  - destruct Hpre as (Hroom & Hbk & Hbv & Hk & Hv).
    destruct (put_ok_ex P (clear_trace s) k v HP (Inv_clear P s HI) Hroom Hbk Hbv Hk Hv)
      as (s' & E & HI' & Hm' & _ & id & seq & off & pre & i2 & post & Et & Hshape & Hpost & _ & Eo & Ed).
    rewrite E in *. cbn [fst] in *. cbn [clear_trace s_trace s_disk app] in Et, Ed, Eo. rewrite Et in Himg.
    assert (Hok' : DiskOK (s_disk s')).
    { destruct (s_mem s') as [m'|] eqn:Em'; [|congruence]. apply (Inv_open P s' m' Em' HI'). }
    destruct (write_crash (s_disk s) (s_disk s') (mkput k v) id seq off pre i2 post img Hg Hshape Hpost Ed Hok'
                (Inv_tails_nil P s' HI' Hm') (rec_fits_mkput k v Hbk Hbv Hk Hv) Himg) as (G & Ho).
    split; [exact G|]. split; [exact Ho|]. eexists. exact Eo.
  - destruct Hpre as (Hroom & Hbk).
    destruct (delete_ok_ex P (clear_trace s) k HP (Inv_clear P s HI) Hroom Hbk)
      as (s' & E & HI' & Hm' & _ & _ & Hcases).
    rewrite E in *. cbn [fst] in *.
    destruct Hcases as [(_ & Ed & Etr)|(_ & Hk & id & seq & off & pre & i1 & post & Et & Hshape & Hpost & _ & Eo & Ed)].
    + cbn [clear_trace s_trace s_disk app] in Etr, Ed.
      assert (Ei : img = s_disk s) by (apply (sync_images (s_disk s) (s_trace s') img); assumption).
      subst img. split; [exact Hg|]. split; [left; reflexivity|]. exists []. rewrite Ed, app_nil_r. reflexivity.
    + cbn [clear_trace s_trace s_disk app] in Et, Ed, Eo. rewrite Et in Himg.
      assert (Hok' : DiskOK (s_disk s')).
      { destruct (s_mem s') as [m'|] eqn:Em'; [|congruence]. apply (Inv_open P s' m' Em' HI'). }
      destruct (write_crash (s_disk s) (s_disk s') (mkdel k) id seq off pre i1 post img Hg Hshape Hpost Ed Hok'
                  (Inv_tails_nil P s' HI' Hm') (rec_fits_mkdel k Hbk Hk) Himg) as (G & Ho).
      split; [exact G|]. split; [exact Ho|]. eexists. exact Eo.
  - destruct (sync_trace s Hm) as [Ed Et].
    assert (Ei : img = s_disk s) by (apply (sync_images (s_disk s) _ img Et Himg)).
    subst img. split; [exact Hg|]. split; [left; reflexivity|]. exists []. rewrite Ed, app_nil_r. reflexivity.
Qed.

Lemma history_crash_olog P s h s' :
  params_ok P -> history P s h s' -> Open P s ->
  (exists l, olog (s_disk s') = olog (s_disk s) ++ l) /\
  forall img, crash_image (s_disk s) (htrace P h s) img ->
  Good img /\ exists l1 l2, olog img = olog (s_disk s) ++ l1 /\ olog (s_disk s') = olog img ++ l2.
Proof.
  intros HP H. induction H as [s|s o h s' Hpre H IH]; intros HO.
  - split; [exists []; rewrite app_nil_r; reflexivity|]. intros img Himg. cbn [htrace] in Himg. inversion Himg; subst.
    destruct HO as (HI & Hm & Hb). split; [apply (Inv_Good P s HI Hm Hb)|].
    exists [], []. rewrite !app_nil_r. split; reflexivity.
  - destruct (op_ok P o s HP HO Hpre) as [HO1 _]. destruct (IH HO1) as [(lr & Elr) IHc].
    destruct (op_crash_olog P o s _ HP HO Hpre (op_final_image P o s HP HO Hpre)) as (_ & _ & l & El).
    split; [exists (l ++ lr); rewrite Elr, El, app_assoc; reflexivity|].
    intros img Himg. cbn [htrace] in Himg. destruct (crash_image_split _ _ _ _ Himg) as [Hl|Hr].
    + destruct (op_crash_olog P o s img HP HO Hpre Hl) as (Hg & [Ho|Ho] & _); (split; [exact Hg|]).
      * exists [], (l ++ lr). rewrite Ho, app_nil_r, Elr, El, app_assoc. split; reflexivity.
      * exists l, lr. rewrite Ho. split; [exact El|exact Elr].
    + destruct (xstep_ok P (s, None) (XOp o) (run_op P o s, None) HP (conj HO Logic.I) (xs_op P s None o Hpre)) as (_ & _ & Ed).
      cbn [fst] in Ed. rewrite <- Ed in Hr. destruct (IHc img Hr) as (Hg & l1 & l2 & E1 & E2).
      split; [exact Hg|]. exists (l ++ l1), l2. split; [rewrite E1, El, app_assoc; reflexivity|exact E2].
Qed.

Theorem C06_image_is_log_prefix P s0 h0 sa o h s' es1 es2 L' img' :
  params_ok P -> Open P s0 ->
  history P s0 h0 sa -> op_pre o sa -> (o = OpSync \/ p_sync P = true) ->
  history P (run_op P o sa) h s' -> htrace P h (run_op P o sa) = es1 ++ es2 ->
  pl fnone (s_disk s0) (htrace P h0 s0 ++ s_trace (run_op P o sa) ++ es1) L' img' ->
  DiskOK img' /\ bac_ok img' /\ d_lock img' = true /\
  exists l1 l2, olog img' = olog (s_disk (run_op P o sa)) ++ l1 /\ olog (s_disk s') = olog img' ++ l2.
Proof.
  intros HP HO H0 Hpre Hsy H Etr Hpl.
  destruct (history_xrun P _ _ _ H0) as (cfs0 & R0). destruct (history_xrun P _ _ _ H) as (cfs & R).
  assert (Hsp : sync_point P (XOp o)) by (destruct Hsy as [->|E]; [exact Logic.I|destruct o; try exact E; exact Logic.I]).
  rewrite app_assoc in Hpl. destruct (pl_app_inv _ _ _ _ _ _ Hpl) as (L1 & img1 & Hpl1 & Hpl2).
  destruct (sync_point_clean P (s0, None) _ _ _ (sa, None) (XOp o) (run_op P o sa, None) _ L1 img1 HP (conj HO Logic.I) R0
              (xs_op P sa None o Hpre) Hsp eq_refl Hpl1) as (HX1 & _ & Hcl & HA).
  assert (HD1 : DurS None (run_op P o sa)).
  { destruct HX1 as [(_ & Hm & _) _]. cbn [fst] in Hm. destruct (s_mem (run_op P o sa)) as [m|] eqn:Em; [|congruence].
    exists m. split; [exact Em|apply DurM_None]. }
  destruct (C06_crash_image P (run_op P o sa, None) _ _ _ _ None L1 img1 es1 es2 L' img' HP HX1 R HD1 Hcl HA Etr Hpl2)
    as (cimg & Hci & Hsame).
  destruct (history_crash_olog P _ _ _ HP H (proj1 HX1)) as [_ Hc]. cbn [fst] in Hci.
  destruct (Hc cimg Hci) as (Hg & l1 & l2 & E1 & E2).
  destruct (Same_Good _ _ Hsame Hg) as (G1 & G2 & G3). split; [exact G1|]. split; [exact G2|]. split; [exact G3|].
  exists l1, l2. rewrite (proj1 (Same_cont _ _ Hsame)). split; assumption.
Qed.

(* ================================================================================================ *)
(* 7. C09: a cleanly closed database is a durable checkpoint                                         *)

(* [clr f es b]: scanning [es], is file [f] free of unflushed data at the end?  ([b]: at the start) *)
Definition fname_opt_eqb (o : option fname) (f : fname) : bool :=
  match o with Some g => fname_eqb g f | None => false end.

Fixpoint clr (f : fname) (es : list fsev) (b : bool) : bool :=
  match es with
  | [] => b
  | e :: es' => clr f es' (if fname_opt_eqb (sync_file e) f then true
                           else if fname_opt_eqb (data_file e) f then false else b)
  end.

Lemma clr_app f es1 : forall es2 b, clr f (es1 ++ es2) b = clr f es2 (clr f es1 b).
Proof. induction es1 as [|e es1 IH]; intros es2 b; [reflexivity|]. cbn [app clr]. apply IH. Qed.

Lemma clr_mono f es : clr f es false = true -> forall b, clr f es b = true.
Proof.
  induction es as [|e es IH]; cbn [clr]; intros H b; [discriminate|].
  destruct (fname_opt_eqb (sync_file e) f); [exact H|].
  destruct (fname_opt_eqb (data_file e) f); [exact H|]. apply IH. exact H.
Qed.

Lemma fname_opt_eqb_true o f : fname_opt_eqb o f = true <-> o = Some f.
Proof.
  destruct o as [g|]; cbn [fname_opt_eqb]; [|split; discriminate].
  rewrite rc_fname_eqb_spec. split; [intros ->; reflexivity|intros E; inversion E; reflexivity].
Qed.

(* a file that the scan finds flushed has lost nothing *)
Lemma pl_clr L img es L' img' :
  pl L img es L' img' -> forall f b, (b = true -> L f = false) -> clr f es b = true -> L' f = false.
Proof.
  intros H. induction H as [L d0|L d0 e es L1 d1 H1 H2 H3 IH|L d0 e g es L1 d1 H1 H3 IH|L d0 id seq off r c es L1 d1 H1 H2 H2' H3 IH];
    intros f b Hb Hc; cbn [clr] in Hc.
  - apply Hb. exact Hc.
  - refine (IH f _ _ Hc). intros Hb'.
    assert (Hl : L f = false).
    { destruct (fname_opt_eqb (sync_file e) f) eqn:Es; [apply fname_opt_eqb_true in Es; apply H2; exact Es|].
      destruct (fname_opt_eqb (data_file e) f) eqn:Ed; [discriminate|]. apply Hb. exact Hb'. }
    destruct (forget e L f) eqn:E; [|reflexivity]. apply forget_le in E. congruence.
  - refine (IH f _ _ Hc). intros Hb'.
    assert (Es : fname_opt_eqb (sync_file e) f = false) by (destruct e; try reflexivity; discriminate H1).
    rewrite Es in Hb'. destruct (fname_opt_eqb (data_file e) f) eqn:Ed; [discriminate|].
    rewrite fadd_other; [apply Hb; exact Hb'|]. intros E. subst g.
    rewrite H1 in Ed. cbn [fname_opt_eqb] in Ed. rewrite rc_fname_eqb_refl in Ed. discriminate.
  - cbn [sync_file data_file fname_opt_eqb] in Hc. refine (IH f _ _ Hc). intros Hb'.
    destruct (fname_eqb (FSeg id seq) f) eqn:Ed; [discriminate|].
    rewrite fadd_other; [apply Hb; exact Hb'|]. intros E. subst f. rewrite rc_fname_eqb_refl in Ed. discriminate.
Qed.

(* pieces of code every write of which is flushed before the piece ends, and that flush [F] *)
Definition tidy (es : list fsev) : Prop := forall f, clr f es true = true.
Definition cl_run (F : fname -> Prop) (s s' : st) : Prop :=
  exists es, s_trace s' = s_trace s ++ es /\ s_disk s' = run_evs es (s_disk s) /\ s_mem s' = s_mem s /\
             tidy es /\ forall f, F f -> clr f es false = true.

Lemma cl_run_refl (s : st) : cl_run (fun _ => False) s s.
Proof. exists []. rewrite app_nil_r. repeat split. intros f []. Qed.

Lemma cl_run_trans F1 F2 (a b c : st) :
  cl_run F1 a b -> cl_run F2 b c -> cl_run (fun f => F1 f \/ F2 f) a c.
Proof.
  intros (e1 & T1 & D1 & M1 & Y1 & C1) (e2 & T2 & D2 & M2 & Y2 & C2). exists (e1 ++ e2).
  split; [rewrite T2, T1, app_assoc; reflexivity|]. split; [rewrite D2, D1, fold_left_app; reflexivity|].
  split; [congruence|]. split.
  - intros f. rewrite clr_app, Y1. apply Y2.
  - intros f [H|H]; rewrite clr_app; [rewrite (C1 f H); apply Y2|apply clr_mono; apply C2; exact H].
Qed.

Lemma cl_run_weaken (F F' : fname -> Prop) (a b : st) : (forall f, F' f -> F f) -> cl_run F a b -> cl_run F' a b.
Proof. intros H (es & T & D & M & Y & C). exists es. repeat split; auto. Qed.

Lemma cl_run_sync f (s : st) : cl_run (eq f) s (emit flat_ops (ESync f) s).
Proof.
  exists [ESync f]. split; [reflexivity|]. split; [reflexivity|]. split; [reflexivity|]. split.
  - intros g. cbn [clr sync_file data_file fname_opt_eqb]. destruct (fname_eqb f g); reflexivity.
  - intros g <-. cbn [clr sync_file fname_opt_eqb]. rewrite rc_fname_eqb_refl. reflexivity.
Qed.

Lemma cl_run_gob f body (s : st) :
  data_file body = Some f -> sync_file body = None -> cl_run (eq f) s (gob_write flat_ops f body s).
Proof.
  intros Hb Hs. unfold gob_write.
  set (e0 := if exists_file (s_disk s) f then @ETrunc flat f 0 else @ECreate flat f).
  assert (E0 : (if exists_file (s_disk s) f then emit flat_ops (ETrunc f 0) s else emit flat_ops (ECreate f) s)
               = emit flat_ops e0 s) by (unfold e0; destruct (exists_file (s_disk s) f); reflexivity).
  rewrite E0. exists [e0; EHeader f; body; ESync f].
  split; [rewrite s_trace_emits, s_trace_emit, <- app_assoc; reflexivity|].
  split; [rewrite s_disk_emits, s_disk_emit; reflexivity|]. split; [rewrite s_mem_emits; reflexivity|].
  assert (Hlast : forall g b, clr g [ESync f] b = if fname_eqb f g then true else b).
  { intros g b. cbn [clr sync_file data_file fname_opt_eqb]. destruct (fname_eqb f g); reflexivity. }
  assert (Hne : forall g b, fname_eqb f g = false -> clr g [e0; EHeader f; body] b = b).
  { intros g b Hg. cbn [clr]. rewrite Hb, Hs.
    assert (A : fname_opt_eqb (sync_file e0) g = false) by (unfold e0; destruct (exists_file (s_disk s) f); reflexivity).
    assert (B : fname_opt_eqb (data_file e0) g = false).
    { unfold e0; destruct (exists_file (s_disk s) f); cbn [data_file fname_opt_eqb]; [exact Hg|reflexivity]. }
    rewrite A, B. cbn [sync_file data_file fname_opt_eqb]. rewrite Hg. reflexivity. }
  split.
  - intros g. change [e0; EHeader f; body; ESync f] with ([e0; EHeader f; body] ++ [ESync f]).
    rewrite clr_app, Hlast. destruct (fname_eqb f g) eqn:Hg; [reflexivity|apply Hne; exact Hg].
  - intros g <-. change [e0; EHeader f; body; ESync f] with ([e0; EHeader f; body] ++ [ESync f]).
    rewrite clr_app, Hlast, rc_fname_eqb_refl. reflexivity.
Qed.

Lemma cl_run_remove f (s : st) : cl_run (fun _ => False) s (emit flat_ops (ERemove f) s).
Proof. exists [ERemove f]. repeat split. intros g []. Qed.

(* the files Close flushes *)
Definition CloseF (G : list mseg) (f : fname) : Prop :=
  f = FDbMeta \/ f = FIndexMeta \/ f = FMain \/ f = FOverflow \/
  exists g, In g G /\ (f = FSeg (g_id g) (g_seq g) \/ f = FSegMeta (g_id g) (g_seq g)).

Lemma cl_run_close_segs G : forall s : st,
  cl_run (fun f => exists g, In g G /\ (f = FSeg (g_id g) (g_seq g) \/ f = FSegMeta (g_id g) (g_seq g)))
    s (fold_left (fun s g =>
            gob_write flat_ops (FSegMeta (g_id g) (g_seq g)) (EGobSeg (g_id g) (g_seq g) (g_meta g))
                      (emit flat_ops (ESync (FSeg (g_id g) (g_seq g))) s)) G s).
Proof.
  induction G as [|g G IH]; intros s.
  - cbn [fold_left]. eapply cl_run_weaken; [|apply cl_run_refl]. intros f (g & [] & _).
  - cbn [fold_left].
    pose proof (cl_run_sync (FSeg (g_id g) (g_seq g)) s) as R1.
    pose proof (cl_run_gob (FSegMeta (g_id g) (g_seq g)) (EGobSeg (g_id g) (g_seq g) (g_meta g))
                  (emit flat_ops (ESync (FSeg (g_id g) (g_seq g))) s) eq_refl eq_refl) as R2.
    eapply cl_run_weaken; [|exact (cl_run_trans _ _ _ _ _ (cl_run_trans _ _ _ _ _ R1 R2) (IH _))].
    intros f (g0 & [<-|Hg0] & Hf).
    + left. destruct Hf as [->| ->]; [left|right]; reflexivity.
    + right. exists g0. split; assumption.
Qed.

Lemma close_cl_run (s : st) m : s_mem s = Some m ->
  exists es, s_trace (fst (db_close flat_ops s)) = s_trace s ++ es /\
             s_disk (fst (db_close flat_ops s)) = run_evs es (s_disk s) /\
             forall f, CloseF (m_segs m) f -> clr f es false = true.
Proof.
  intros Em. unfold db_close. rewrite Em. cbn [fst s_trace s_disk].
  set (s1 := gob_write flat_ops FDbMeta (EGobDb (m_seed m)) s).
  set (s2 := fold_left _ (m_segs m) s1).
  set (s3 := gob_write flat_ops FIndexMeta (EGobIndex (m_idx m)) s2).
  assert (R1 : cl_run (eq FDbMeta) s s1) by (apply cl_run_gob; reflexivity).
  assert (R2 : cl_run _ s1 s2) by apply cl_run_close_segs.
  assert (R3 : cl_run (eq FIndexMeta) s2 s3) by (apply cl_run_gob; reflexivity).
  pose proof (cl_run_sync FMain s3) as R4.
  pose proof (cl_run_sync FOverflow (emit flat_ops (ESync FMain) s3)) as R5.
  pose proof (cl_run_remove FLock (emit flat_ops (ESync FOverflow) (emit flat_ops (ESync FMain) s3))) as R6.
  pose proof (cl_run_trans _ _ _ _ _ (cl_run_trans _ _ _ _ _ (cl_run_trans _ _ _ _ _ (cl_run_trans _ _ _ _ _ (cl_run_trans _ _ _ _ _ R1 R2) R3) R4) R5) R6) as R.
  destruct R as (es & T & D & _ & _ & C). exists es. split; [exact T|]. split; [exact D|].
  intros f Hf. apply C. unfold CloseF in Hf.
  destruct Hf as [->|[->|[->|[->|Hg]]]]; tauto.
Qed.

(* ---- the model's list of orphaned side files is never read by a clean Open ---- *)
Definition osim (l : list (N * N)) (s : st) : st :=
  {| s_mem := s_mem s; s_disk := set_orphans (s_disk s) l; s_trace := s_trace s |}.

Definition orph_free (e : fsev) : bool :=
  match e with
  | ERemove (FSeg _ _) | ERemove (FSegMeta _ _) | ERename _ _ => false
  | _ => true
  end.

Lemma apply_ev_orph l (d : disk) e :
  orph_free e = true -> apply_ev flat_ops (set_orphans d l) e = set_orphans (apply_ev flat_ops d e) l.
Proof.
  destruct e as [f|f|id seq off r|i|id seq m|i|sd|f n|f g|f|f]; cbn [orph_free]; intros H;
    try discriminate H; try reflexivity; destruct f; try discriminate H; reflexivity.
Qed.

Lemma emit_orph l e (s : st) : orph_free e = true -> emit flat_ops e (osim l s) = osim l (emit flat_ops e s).
Proof. intros H. unfold emit, osim. cbn [s_mem s_disk s_trace]. rewrite (apply_ev_orph l _ e H). reflexivity. Qed.

Lemma emits_orph l es : forall s : st, forallb orph_free es = true ->
  emits flat_ops es (osim l s) = osim l (emits flat_ops es s).
Proof.
  induction es as [|e es IH]; intros s H; [reflexivity|]. cbn [forallb] in H. apply andb_true_iff in H.
  destruct H as [H1 H2]. rewrite !rc_emits_cons, (emit_orph l e s H1). apply IH. exact H2.
Qed.

Lemma open_index_orph l (s : st) :
  open_index flat_ops (osim l s) =
  match open_index flat_ops s with Some (s2, i) => Some (osim l s2, i) | None => None end.
Proof.
  unfold open_index. change (d_index (s_disk (osim l s))) with (d_index (s_disk s)).
  destruct (d_index (s_disk s)) as [i0|] eqn:Ei.
  - change (d_overflow (s_disk (osim l s))) with (d_overflow (s_disk s)).
    destruct (d_overflow (s_disk s)) eqn:Eo.
    + change (d_index (s_disk (osim l s))) with (d_index (s_disk s)).
      change (d_imeta (s_disk (osim l s))) with (d_imeta (s_disk s)). rewrite Ei.
      destruct (d_imeta (s_disk s)); reflexivity.
    + rewrite (emits_orph l) by reflexivity.
      set (s2 := emits flat_ops [ECreate FOverflow; EHeader FOverflow] s).
      change (d_index (s_disk (osim l s2))) with (d_index (s_disk s2)).
      change (d_imeta (s_disk (osim l s2))) with (d_imeta (s_disk s2)).
      destruct (d_index (s_disk s2)); [|reflexivity]. destruct (d_imeta (s_disk s2)); reflexivity.
  - rewrite (emits_orph l) by reflexivity.
    set (s1 := emits flat_ops [ECreate FMain; EHeader FMain] s).
    change (d_overflow (s_disk (osim l s1))) with (d_overflow (s_disk s1)).
    destruct (d_overflow (s_disk s1)).
    + rewrite (emits_orph l) by reflexivity. reflexivity.
    + rewrite !(emits_orph l) by reflexivity. reflexivity.
Qed.

Lemma open_segments_orph l (s : st) :
  open_segments flat_ops (osim l s) = (osim l (fst (open_segments flat_ops s)), snd (open_segments flat_ops s)).
Proof.
  unfold open_segments. change (d_segs (s_disk (osim l s))) with (d_segs (s_disk s)).
  generalize (sort_segs (d_segs (s_disk s))) as L. generalize (@nil mseg) as acc. revert s.
  intros s acc L. revert s acc. induction L as [|f L IH]; intros s acc; [reflexivity|].
  cbn [fold_left]. destruct (f_hdr f).
  - change (find_dseg (f_id f) (s_disk (osim l s))) with (find_dseg (f_id f) (s_disk s)). apply IH.
  - rewrite (emit_orph l) by reflexivity.
    change (find_dseg (f_id f) (s_disk (osim l (emit flat_ops (EHeader (FSeg (f_id f) (f_seq f))) s))))
      with (find_dseg (f_id f) (s_disk (emit flat_ops (EHeader (FSeg (f_id f) (f_seq f))) s))). apply IH.
Qed.

Lemma swap_orph l (s : st) (m : mem) :
  swap_segment flat_ops (osim l s) m = (osim l (fst (swap_segment flat_ops s m)), snd (swap_segment flat_ops s m)).
Proof.
  unfold swap_segment. destruct (find (fun g => negb (sm_full (g_meta g))) (m_segs m)); [reflexivity|].
  rewrite (emits_orph l) by reflexivity. reflexivity.
Qed.

Lemma db_open_orph P seed l (d : disk) :
  d_lock d = false ->
  db_open flat_ops P seed (closed (set_orphans d l)) =
  (osim l (fst (db_open flat_ops P seed (closed d))), snd (db_open flat_ops P seed (closed d))).
Proof.
  intros Hl. unfold db_open. cbn [closed s_mem s_disk]. change (d_lock (set_orphans d l)) with (d_lock d). rewrite Hl.
  change (closed (set_orphans d l)) with (osim l (closed d)).
  rewrite (emit_orph l) by reflexivity. rewrite open_index_orph.
  destruct (open_index flat_ops (emit flat_ops (ECreate FLock) (closed d))) as [[s2 i]|]; [|reflexivity].
  rewrite open_segments_orph. destruct (open_segments flat_ops s2) as [s3 segs]. cbn [fst snd].
  rewrite swap_orph.
  destruct (swap_segment flat_ops s3 _) as [s4 m1]. cbn [fst snd].
  change (d_dbmeta (s_disk (osim l s4))) with (d_dbmeta (s_disk s4)).
  destruct (if ix_count flat_ops i =? 0 then Some seed else match d_dbmeta (s_disk s4) with GOk sd => Some sd | _ => None end);
    reflexivity.
Qed.

Lemma Inv_osim P l (s : st) : Inv P s -> Inv P (osim l s).
Proof. intros HI. exact HI. Qed.

Lemma dseg_eq (f f' : dseg) : seg_core f' = seg_core f -> f_meta f' = f_meta f -> f' = f.
Proof.
  destruct f as [a b c d e g], f' as [a' b' c' d' e' g']. unfold seg_core. cbn [f_id f_seq f_hdr f_recs f_tail f_meta].
  intros E1 E2. inversion E1; subst. reflexivity.
Qed.

Lemma agree_segs_eq (L : fset) l l' :
  Forall2 (seg_agree L) l l' ->
  (forall f, In f l -> L (FSeg (f_id f) (f_seq f)) = false /\ L (FSegMeta (f_id f) (f_seq f)) = false) ->
  l' = l.
Proof.
  intros H. induction H as [|f f' l l' (_ & _ & C & D) _ IH]; intros HL; [reflexivity|].
  destruct (HL f (or_introl eq_refl)) as [H1 H2].
  rewrite (dseg_eq f f' (C H1) (D H2)), IH; [reflexivity|]. intros x Hx. apply HL. right. exact Hx.
Qed.

Lemma disk_eq_orph (d img : disk) :
  d_segs img = d_segs d -> d_index img = d_index d -> d_overflow img = d_overflow d ->
  d_imeta img = d_imeta d -> d_dbmeta img = d_dbmeta d -> d_lock img = d_lock d -> d_bac img = d_bac d ->
  img = set_orphans d (d_orphans img).
Proof.
  destruct d as [a1 a2 a3 a4 a5 a6 a7 a8], img as [b1 b2 b3 b4 b5 b6 b7 b8].
  cbn [d_segs d_orphans d_index d_overflow d_imeta d_dbmeta d_lock d_bac set_orphans].
  intros -> -> -> -> -> -> ->. reflexivity.
Qed.

(* C09, first part.  After a complete Close, EVERY admissible power-loss image of the whole history is
   the closed disk itself: all segment files, their side files, the index files and both metadata
   files are flushed before the lock file is removed.  (The model's bookkeeping list of orphaned side
   files, which nothing reads, is left out of the comparison.) *)
Theorem C09_closed_is_durable P cf0 os cfs tr (s : st) c (m : mem) s1 o L' img' :
  params_ok P -> XOpen P cf0 -> xrun P cf0 os cfs tr (s, c) -> s_mem s = Some m ->
  db_close flat_ops (clear_trace s) = (s1, o) ->
  pl fnone (s_disk (fst cf0)) (tr ++ s_trace s1) L' img' ->
  img' = set_orphans (s_disk s1) (d_orphans img') /\
  d_segs img' = d_segs (s_disk s1) /\ d_index img' = d_index (s_disk s1) /\ d_overflow img' = d_overflow (s_disk s1) /\
  d_imeta img' = d_imeta (s_disk s1) /\ d_dbmeta img' = d_dbmeta (s_disk s1) /\ d_lock img' = false /\
  d_bac img' = d_bac (s_disk s1).
Proof.
  intros HP HX0 Hr Em Ec Hpl.
  destruct (xrun_ok P _ _ _ _ _ HP Hr HX0) as ([(HI & _ & _) _] & Ed & _). cbn [fst] in HI, Ed.
  destruct (close_cl_run (clear_trace s) m Em) as (es & T & D & Hcov). rewrite Ec in T, D. cbn [fst clear_trace s_trace s_disk app] in T, D.
  rewrite T in Hpl.
  assert (HA : Agree L' (s_disk s1) img').
  { rewrite D, Ed, <- fold_left_app. apply (pl_agree _ _ _ _ _ Hpl). apply Agree_refl. }
  destruct (pl_app_inv _ _ _ _ _ _ Hpl) as (L1 & img1 & _ & Hpl2).
  assert (HL : forall f, CloseF (m_segs m) f -> L' f = false).
  { intros f Hf. apply (pl_clr _ _ _ _ _ Hpl2 f false); [discriminate|apply Hcov; exact Hf]. }
  destruct (close_reopen_master P 0 (clear_trace s) m (Inv_clear P s HI) Em)
    as (s1' & _ & _ & Ec' & _ & _ & _ & _ & _ & _ & _ & _ & _ & _ & Hsegs & _).
  rewrite Ec in Ec'. inversion Ec'; subst s1' o.
  destruct (rc_close_char (clear_trace s) m Em) as (s1' & Ec'' & _ & _ & _ & _ & _ & _ & _ & El & _).
  rewrite Ec in Ec''. inversion Ec''; subst s1'.
  destruct HA as (A1 & A2 & A3 & A4 & A5 & A6 & A7).
  assert (B1 : d_segs img' = d_segs (s_disk s1)).
  { apply (agree_segs_eq L' _ _ A1). intros f Hf. destruct (Hsegs f Hf) as (g & Hg & E1 & E2 & _).
    rewrite E1, E2. split; apply HL; unfold CloseF; do 4 right; exists g; split; auto. }
  assert (B2 : d_index img' = d_index (s_disk s1)) by (apply A2; apply HL; unfold CloseF; tauto).
  assert (B4 : d_imeta img' = d_imeta (s_disk s1)) by (apply A4; apply HL; unfold CloseF; tauto).
  assert (B5 : d_dbmeta img' = d_dbmeta (s_disk s1)) by (apply A5; apply HL; unfold CloseF; tauto).
  split; [apply disk_eq_orph; assumption|]. repeat (split; [assumption|]). split; [congruence|assumption].
Qed.

(* ... hence the next Open is a clean one and finds exactly the closed contents *)
Theorem C09_reopen P seed' cf0 os cfs tr (s : st) c (m : mem) s1 o L' img' :
  params_ok P -> XOpen P cf0 -> xrun P cf0 os cfs tr (s, c) -> s_mem s = Some m ->
  db_close flat_ops (clear_trace s) = (s1, o) ->
  pl fnone (s_disk (fst cf0)) (tr ++ s_trace s1) L' img' ->
  exists s2, db_open flat_ops P seed' (closed img') = (s2, OOpened false) /\ Inv P s2 /\
    ceq (cont (s_disk s2)) (cont (s_disk s)) /\
    exists m2, s_mem s2 = Some m2 /\ m_idx m2 = m_idx m /\ (forall g, In g (m_segs m) -> In g (m_segs m2)).
Proof.
  intros HP HX0 Hr Em Ec Hpl.
  destruct (C09_closed_is_durable P _ _ _ _ _ _ _ _ _ _ _ HP HX0 Hr Em Ec Hpl) as (Eimg & _ & _ & _ & _ & _ & _ & _).
  destruct (xrun_ok P _ _ _ _ _ HP Hr HX0) as ([(HI & _ & _) _] & _). cbn [fst] in HI.
  pose proof (close_reopen_ok_nometa P seed' (clear_trace s) m HP (Inv_clear P s HI) Em) as H.
  pose proof (close_ok P (clear_trace s) m (Inv_clear P s HI) Em) as Hc.
  rewrite Ec in H, Hc. destruct Hc as (_ & Hm1 & _ & _ & Hl1 & _).
  assert (E : clear_trace s1 = closed (s_disk s1)) by (unfold clear_trace, closed; rewrite Hm1; reflexivity).
  rewrite E in H. rewrite Eimg, (db_open_orph P seed' _ _ Hl1).
  destruct (db_open flat_ops P seed' (closed (s_disk s1))) as [s2 o2]. cbn [fst snd].
  destruct H as (-> & HI2 & Ha2 & m2 & Em2 & Hidx & Hsegs & _).
  exists (osim (d_orphans img') s2). split; [reflexivity|]. split; [apply Inv_osim; exact HI2|].
  split; [exact Ha2|]. exists m2. split; [exact Em2|]. split; assumption.
Qed.

(* ---- C09, second part: the power fails during the next (clean) Open ---- *)
Lemma clean_open_trace P seed (d : disk) i j :
  DiskOK d -> bac_ok d -> d_lock d = false -> d_index d = Some i -> d_overflow d = true -> d_imeta d = GOk j ->
  (forall f, In f (d_segs d) -> f_hdr f = true) ->
  exists pre, s_trace (fst (db_open flat_ops P seed (closed d))) = ECreate FLock :: pre /\
              safe_run (apply_ev flat_ops d (ECreate FLock)) pre /\
              (pre = [] \/ exists a b, pre = [ECreate (FSeg a b); EHeader (FSeg a b)]).
Proof.
  intros Hok Hbac Hlock Hi Hov Him Hhdr.
  unfold db_open. change (s_mem (closed d)) with (@None mem). cbv iota.
  change (d_lock (s_disk (closed d))) with (d_lock d). rewrite Hlock. cbv iota.
  set (s0 := emit flat_ops (ECreate FLock) (closed d)).
  assert (Hd0 : s_disk s0 = apply_ev flat_ops d (ECreate FLock)) by reflexivity.
  assert (Hg0 : Good (s_disk s0)).
  { rewrite Hd0. split; [exact Hok|]. split; [exact Hbac|reflexivity]. }
  rewrite (rc_open_index_existing s0 i j Hi Hov Him).
  destruct (rc_open_segments_spec s0 (proj1 (proj2 Hok))) as (s3 & segs & E3 & _ & _ & _ & Es3 & Hsegs & Hincs).
  assert (Es30 : fold_left rc_hdr_step (sort_segs (d_segs (s_disk s0))) s0 = s0).
  { apply rc_hdr_fold_all_hdr. intros f Hf. apply Hhdr. apply (Permutation_in _ (rc_sort_segs_perm _)). exact Hf. }
  rewrite Es30 in Es3. subst s3. rewrite E3.
  match goal with |- context [swap_segment flat_ops s0 ?m] => set (m0 := m) end.
  assert (Hmag : rc_magree (m_segs m0) (s_disk s0)).
  { cbn [m0 m_segs]. split.
    - intros g Hg. apply Hsegs in Hg. destruct Hg as (f & Hf & ->). exists f. split; [exact Hf|].
      cbn [rc_mkseg g_id g_seq g_size]. split; [reflexivity|]. split; [reflexivity|]. apply rc_flen_hdr. apply Hhdr. exact Hf.
    - intros f Hf. exists (rc_mkseg f). split; [apply Hsegs; exists f; split; [exact Hf|reflexivity]|]. split; reflexivity. }
  assert (S4 : srun s0 (fst (swap_segment flat_ops s0 m0))).
  { apply srun_swap; [exact Hg0|exact Hmag|exact Hincs|]. intros g Hin. apply (rc_fold_max_ge segs 0). exact Hin. }
  assert (Hshape : exists pre, s_trace (fst (swap_segment flat_ops s0 m0)) = ECreate FLock :: pre /\
                    s_disk (fst (swap_segment flat_ops s0 m0)) = run_evs pre (s_disk s0) /\
                    (pre = [] \/ exists a b, pre = [ECreate (FSeg a b); EHeader (FSeg a b)])).
  { unfold swap_segment. destruct (find (fun g => negb (sm_full (g_meta g))) (m_segs m0)).
    - exists []. split; [reflexivity|]. split; [reflexivity|left; reflexivity].
    - eexists. split; [cbn [fst]; rewrite s_trace_emits; reflexivity|]. split; [cbn [fst]; rewrite s_disk_emits; reflexivity|].
      right. eexists _, _. reflexivity. }
  destruct Hshape as (pre & T4 & D4 & Hpre). destruct S4 as (es & T4' & _ & Hsafe).
  assert (Ees : es = pre).
  { rewrite T4 in T4'. change (s_trace s0) with [@ECreate flat FLock] in T4'. cbn [app] in T4'. inversion T4'. reflexivity. }
  subst es. exists pre. split; [|split; [rewrite <- Hd0; exact Hsafe|exact Hpre]].
  destruct (swap_segment flat_ops s0 m0) as [s4 m1]. cbn [fst] in T4.
  destruct (if ix_count flat_ops i =? 0 then Some seed else match d_dbmeta (s_disk s4) with GOk sd => Some sd | _ => None end);
    cbn [fst with_mem s_trace]; exact T4.
Qed.

Theorem C09_power_loss_during_reopen P seed' seed'' cf0 os cfs tr (s : st) c (m : mem) s1 o L' img' es1 es2 L'' img'' :
  params_ok P -> XOpen P cf0 -> xrun P cf0 os cfs tr (s, c) -> s_mem s = Some m ->
  db_close flat_ops (clear_trace s) = (s1, o) ->
  pl fnone (s_disk (fst cf0)) (tr ++ s_trace s1) L' img' ->
  (* the next Open, on what the first power failure (if any) left, is interrupted by a power failure *)
  s_trace (fst (db_open flat_ops P seed' (closed img'))) = es1 ++ es2 ->
  pl fnone img' es1 L'' img'' ->
  exists s3 b, db_open flat_ops P seed'' (closed img'') = (s3, OOpened b) /\ Inv P s3 /\ s_mem s3 <> None /\
    ceq (cont (s_disk s3)) (cont (s_disk s)).
Proof.
  intros HP HX0 Hr Em Ec Hpl Etr Hpl2.
  destruct (C09_closed_is_durable P _ _ _ _ _ _ _ _ _ _ _ HP HX0 Hr Em Ec Hpl) as (Eimg & B1 & B2 & B3 & B4 & B5 & B6 & B7).
  destruct (xrun_ok P _ _ _ _ _ HP Hr HX0) as ([(HI & _ & Hb) _] & _). cbn [fst] in HI, Hb.
  pose proof (close_ok P (clear_trace s) m (Inv_clear P s HI) Em) as Hc. rewrite Ec in Hc.
  destruct Hc as (_ & _ & Hok1 & Hlog1 & Hl1 & Hi1 & Hov1 & Him1 & _).
  destruct (rc_close_char (clear_trace s) m Em) as (s1' & Ec' & _ & Es1 & _ & _ & _ & _ & _ & _ & Eb1 & _).
  rewrite Ec in Ec'. inversion Ec'; subst s1'. cbn [clear_trace s_disk] in Es1, Eb1, Hlog1.
  assert (Hsl : same_log (s_disk s1) img') by (apply same_log_segs; exact B1).
  assert (Hok' : DiskOK img') by (apply (same_log_DiskOK _ _ Hsl Hok1)).
  assert (Hbac' : bac_ok img') by (unfold bac_ok; rewrite B7, Eb1; exact Hb).
  assert (Habs' : ceq (cont img') (cont (s_disk s))).
  { intros k. unfold cont, abs. rewrite (same_log_olog _ _ Hsl), Hlog1. reflexivity. }
  assert (Hhdr : forall f, In f (d_segs img') -> f_hdr f = true).
  { intros f Hf. rewrite B1, Es1 in Hf. apply in_map_iff in Hf. destruct Hf as (f0 & <- & Hf0).
    pose proof (rc_wmetas_core (m_segs m) f0) as Ecore. apply seg_core_inv in Ecore. destruct Ecore as (_ & _ & Eh & _).
    rewrite Eh. unfold Inv in HI. rewrite Em in HI. destruct HI as (Hd & [HA HB] & _).
    destruct (HB f0 Hf0) as (g & Hg & E1 & E2). destruct (HA g Hg) as (f' & Hf' & F1 & F2 & F3 & _).
    assert (f' = f0) by (apply (NoDup_map_inj f_id (d_segs (s_disk s))); [apply Hd|exact Hf'|exact Hf0|congruence]).
    subst f'. exact F3. }
  destruct es1 as [|e es1].
  - (* nothing was issued yet: the directory is still the cleanly closed one *)
    inversion Hpl2; subst.
    destruct (C09_reopen P seed'' _ _ _ _ _ _ _ _ _ _ _ HP HX0 Hr Em Ec Hpl) as (s3 & E3 & HI3 & Hc3 & m3 & Em3 & _).
    exists s3, false. split; [exact E3|]. split; [exact HI3|]. split; [congruence|exact Hc3].
  - destruct (clean_open_trace P seed' img' (m_idx m) (m_idx m) Hok' Hbac' B6 (eq_trans B2 Hi1) (eq_trans B3 Hov1) (eq_trans B4 Him1) Hhdr)
      as (pre & T & Hsafe & Hpre).
    rewrite T in Etr. cbn [app] in Etr. injection Etr as Ee Epre. subst e.
    set (d1 := apply_ev flat_ops img' (ECreate FLock)) in *.
    assert (Hg1 : Good d1) by (split; [exact Hok'|split; [exact Hbac'|reflexivity]]).
    assert (Hpl3 : pl fnone d1 es1 L'' img'').
    { inversion Hpl2 as [|L0 d0 e0 es0 L0' img0 K1 K2 K3|L0 d0 e0 f0 es0 L0' img0 K1 K3|]; subst; [exact K3|discriminate K1]. }
    assert (Hd : dur None es1 <> None).
    { apply (dur_prefix es1 es2). rewrite <- Epre. destruct Hpre as [->|(a & b & ->)]; discriminate. }
    destruct (pl_reduce _ _ _ _ _ Hpl3 d1 None (fun _ _ => eq_refl) (Agree_refl _ _) Hd) as [[HL HA]|(cimg & x & C1 & C2 & _)].
    + assert (Hci : crash_image d1 pre (run_evs es1 d1)) by (rewrite Epre; apply crash_image_app_l; apply crash_image_full).
      destruct (safe_run_images pre d1 _ Hsafe Hg1 Hci) as (Hg & Ho).
      pose proof (Agree_Same L'' _ _ HL HA) as Hsame. destruct (Same_Good _ _ Hsame Hg) as (G1 & G2 & G3).
      destruct (crash_then_recover P seed'' img'' HP G1 G2 G3) as (s3 & E3 & HI3 & Hm3 & _ & Ha3).
      exists s3, true. split; [exact E3|]. split; [exact HI3|]. split; [exact Hm3|].
      intros k. unfold cont at 1. rewrite Ha3, (proj2 (Same_cont _ _ Hsame)), (olog_abs _ _ Ho). apply Habs'.
    + assert (Hci : crash_image d1 pre cimg) by (rewrite Epre; apply crash_image_app_l; exact C1).
      destruct (safe_run_images pre d1 _ Hsafe Hg1 Hci) as (Hg & Ho).
      destruct (Same_Good _ _ C2 Hg) as (G1 & G2 & G3).
      destruct (crash_then_recover P seed'' img'' HP G1 G2 G3) as (s3 & E3 & HI3 & Hm3 & _ & Ha3).
      exists s3, true. split; [exact E3|]. split; [exact HI3|]. split; [exact Hm3|].
      intros k. unfold cont at 1. rewrite Ha3, (proj2 (Same_cont _ _ C2)), (olog_abs _ _ Ho). apply Habs'.
Qed.

(* ================================================================================================ *)
(* 8. Sensitivity: the two flushes the theorems rest on are necessary (vm_compute)                   *)

(* (a) sealSegment without the Sync *)
Definition seal_nosync (id : N) (s : st) (m : mem) : st * mem :=
  match find_mseg id (m_segs m) with
  | Some g => if sm_full (g_meta g) then (s, m)
              else (s, set_msegs m (upd_mseg id (fun g => set_gmeta g (set_full (g_meta g))) (m_segs m)))
  | None => (s, m)
  end.

Definition write_record_nosync (P : params) (r : rec) (s : st) (m : mem) : option (st * mem * N * N) :=
  let need_swap := match cur_seg m with
                   | None => true
                   | Some g => sm_full (g_meta g) || (p_maxseg P <? g_size g + rsize r)
                   end in
  let '(s1, m1) :=
    if need_swap
    then let '(s0, m0) := match cur_seg m with Some g => seal_nosync (g_id g) s m | None => (s, m) end in
         swap_segment flat_ops s0 m0
    else (s, m) in
  wr_tail r s1 m1.

(* db_put with the log writer as a parameter *)
Definition db_put_with (wr : params -> rec -> st -> mem -> option (st * mem * N * N))
  (P : params) (k : key) (v : val) (s : st) : st * out :=
  match s_mem s with
  | None => (s, OErr EClosed)
  | Some m =>
    if max_key_len <? nlen k then (s, OErr EKeyTooLarge)
    else if max_val_len <? nlen v then (s, OErr EValueTooLarge)
    else
      let h := p_hash P (m_seed m) k in
      match wr P (mkput k v) s m with
      | None => (s, OBroken 1)
      | Some (s1, m1, id, off) =>
        let sl := {| sl_h := h; sl_seg := id; sl_ks := u16 (nlen k); sl_vs := u32 (nlen v); sl_off := off |} in
        let '(i2, old) := ix_put flat_ops (p_grow P) (m_idx m1) sl (matchf (s_disk s1) k) in
        let m2 := match old with Some o => track_del o m1 | None => m1 end in
        let s2 := emit flat_ops (EIndex i2) s1 in
        finish flat_ops P s2 (set_idx m2 i2)
      end
  end.

Lemma db_put_with_real P k v (s : st) : db_put_with (write_record flat_ops) P k v s = db_put flat_ops P k v s.
Proof. reflexivity. Qed.

(* every segment is eligible for compaction; a segment holds one small record *)
Definition pl_P : params :=
  {| p_maxseg := 530; p_minseg := 0; p_frag := fun _ _ => true; p_sync := false;
     p_grow := fun _ _ => false; p_hash := fun _ _ => 0 |}.

(* a freshly created database; its disk is the durable starting point of the histories below *)
Definition pl_q0 : st := Eval vm_compute in clear_trace (fst (db_open flat_ops pl_P 7 (closed disk0))).

(* Put [1]:=[2] ; Put [3]:=[4] (does not fit: rollover) ; Sync.  The trace is never cleared, so the
   final state carries the whole history. *)
Definition run_a (wr : params -> rec -> st -> mem -> option (st * mem * N * N)) : st :=
  let q1 := fst (db_put_with wr pl_P [1] [2] pl_q0) in
  let q2 := fst (db_put_with wr pl_P [3] [4] q1) in
  fst (db_sync flat_ops q2).

Definition lose_first : list plc := [Drop; Keep; Keep; Keep; Keep; Keep; Keep].
Definition lose_first_real : list plc := [Drop; Keep; Keep; Keep; Keep; Keep; Keep; Keep].

Definition img_of (r : option (fset * disk)) : disk := match r with Some (_, img) => img | None => disk0 end.
Definition is_some {A} (r : option A) : bool := match r with Some _ => true | None => false end.

Theorem seal_without_sync_refuted :
  let es := s_trace (run_a write_record_nosync) in
  let res := pl_exec lose_first fnone (s_disk pl_q0) es in
  (* the rollover does not flush the sealed segment, ... *)
  es = [EAppend 0 1 512 (mkput [1] [2]); EIndex [{| sl_h := 0; sl_seg := 0; sl_ks := 1; sl_vs := 1; sl_off := 512 |}];
        ECreate (FSeg 1 2); EHeader (FSeg 1 2); EAppend 1 2 512 (mkput [3] [4]);
        EIndex [{| sl_h := 0; sl_seg := 0; sl_ks := 1; sl_vs := 1; sl_off := 512 |};
                {| sl_h := 0; sl_seg := 1; sl_ks := 1; sl_vs := 1; sl_off := 512 |}];
        ESync (FSeg 1 2)] /\
  (* ... the history violates the discipline, ... *)
  dur None es = None /\
  (* ... Sync completed with both keys present, ... *)
  abs (s_disk (run_a write_record_nosync)) = [([3], [4]); ([1], [2])] /\
  (* ... and this image (the first append never reached the disk) is admissible and has lost key [1] *)
  is_some res = true /\ (exists L, pl fnone (s_disk pl_q0) es L (img_of res)) /\
  sget (abs (img_of res)) [1] = None /\ sget (abs (img_of res)) [3] = Some [4] /\
  (* with the real sealSegment the history keeps the discipline and the same loss is NOT admissible *)
  dur None (s_trace (run_a (write_record flat_ops))) = Some None /\
  pl_exec lose_first_real fnone (s_disk pl_q0) (s_trace (run_a (write_record flat_ops))) = None.
Proof.
  cbv zeta. split; [vm_compute; reflexivity|]. split; [vm_compute; reflexivity|]. split; [vm_compute; reflexivity|].
  split; [vm_compute; reflexivity|]. split.
  - destruct (pl_exec lose_first fnone (s_disk pl_q0) (s_trace (run_a write_record_nosync))) as [[L img]|] eqn:E.
    + exists L. apply (pl_exec_sound lose_first). exact E.
    + exfalso. assert (H : is_some (pl_exec lose_first fnone (s_disk pl_q0) (s_trace (run_a write_record_nosync))) = true)
        by (vm_compute; reflexivity). rewrite E in H. discriminate H.
  - split; [vm_compute; reflexivity|]. split; [vm_compute; reflexivity|]. split; vm_compute; reflexivity.
Qed.

(* (b) removeSegment without the Sync of the current segment *)
Definition remove_segment_nosync (id seq : N) (s : st) (m : mem) : st :=
  let m1 := set_msegs m (filter (fun g => negb (g_id g =? id)) (m_segs m)) in
  let m2 := if (fst (m_cur m) =? id) && (snd (m_cur m) =? seq) then set_cur m1 (m_cur m) true else m1 in
  let s2 := if exists_file (s_disk s) (FSegMeta id seq) then emit flat_ops (ERemove (FSegMeta id seq)) s else s in
  with_mem m2 (emit flat_ops (ERemove (FSeg id seq)) s2).

(* the history (a) with the real writer, then Compact: pick (both segments), and the three micro-steps
   of the first segment: start, promotion of its live record, removal *)
Definition run_b (rm : N -> N -> st -> mem -> st) : st :=
  let q3 := run_a (write_record flat_ops) in
  match compact_pick flat_ops pl_P q3 with
  | None => q3
  | Some (q4, c) => compact_run_with rm pl_P 3 q4 c
  end.

Definition lose_copy : list plc :=
  [Keep; Keep; Keep; Keep; Keep; Keep; Keep; Keep; Keep; Keep; Keep; Drop; Keep; Keep].
Definition lose_copy_real : list plc :=
  [Keep; Keep; Keep; Keep; Keep; Keep; Keep; Keep; Keep; Keep; Keep; Drop; Keep; Keep; Keep].

Theorem remove_before_sync_refuted :
  let es := s_trace (run_b remove_segment_nosync) in
  let res := pl_exec lose_copy fnone (s_disk pl_q0) es in
  (* the events after the completed Sync: seal of the picked current segment, a new segment, the copy
     of the live record of segment 0, the index, and the removal of segment 0 with nothing in between *)
  skipn 8 es = [ESync (FSeg 1 2); ECreate (FSeg 2 3); EHeader (FSeg 2 3); EAppend 2 3 512 (mkput [1] [2]);
                EIndex [{| sl_h := 0; sl_seg := 2; sl_ks := 1; sl_vs := 1; sl_off := 512 |};
                        {| sl_h := 0; sl_seg := 1; sl_ks := 1; sl_vs := 1; sl_off := 512 |}];
                ERemove (FSeg 0 1)] /\
  dur None es = None /\
  (* key [1] was synced long before the compaction started *)
  sget (abs (s_disk (run_a (write_record flat_ops)))) [1] = Some [2] /\
  dur None (s_trace (run_a (write_record flat_ops))) = Some None /\
  (* the image in which the copy never reached the disk is admissible; the record is gone *)
  is_some res = true /\ (exists L, pl fnone (s_disk pl_q0) es L (img_of res)) /\
  sget (abs (img_of res)) [1] = None /\ sget (abs (img_of res)) [3] = Some [4] /\
  (* with the real removeSegment: discipline kept, the loss is not admissible *)
  dur None (s_trace (run_b (remove_segment flat_ops))) = Some None /\
  pl_exec lose_copy_real fnone (s_disk pl_q0) (s_trace (run_b (remove_segment flat_ops))) = None.
Proof.
  cbv zeta. split; [vm_compute; reflexivity|]. split; [vm_compute; reflexivity|]. split; [vm_compute; reflexivity|].
  split; [vm_compute; reflexivity|]. split; [vm_compute; reflexivity|]. split.
  - destruct (pl_exec lose_copy fnone (s_disk pl_q0) (s_trace (run_b remove_segment_nosync))) as [[L img]|] eqn:E.
    + exists L. apply (pl_exec_sound lose_copy). exact E.
    + exfalso. assert (H : is_some (pl_exec lose_copy fnone (s_disk pl_q0) (s_trace (run_b remove_segment_nosync))) = true)
        by (vm_compute; reflexivity). rewrite E in H. discriminate H.
  - split; [vm_compute; reflexivity|]. split; [vm_compute; reflexivity|]. split; vm_compute; reflexivity.
Qed.

(* ================================================================================================ *)
(* 9. Non-vacuity: a concrete history with a rollover and a Sync, and admissible images              *)

(* segments of 540 bytes: the first Put fills segment 0, the second rolls over, the third fits *)
Definition px_P2 : params :=
  {| p_maxseg := 540; p_minseg := 0; p_frag := fun _ _ => true; p_sync := false;
     p_grow := fun _ _ => false; p_hash := fun _ _ => 0 |}.
Definition px_v1 : val := [2; 2; 2; 2; 2; 2; 2; 2; 2; 2; 2; 2; 2; 2; 2].
Lemma pl_params_ok : params_ok px_P2. Proof. reflexivity. Qed.

Lemma pl_inv0 P : Inv P pl_q0.
Proof.
  unfold Inv, pl_q0. cbn [s_mem s_disk].
  split; [|split; [|split; [|split; [|split; [|split; [|split; [reflexivity|split; reflexivity]]]]]]].
  - unfold DiskOK. cbn [d_segs map f_id f_seq]. split; [|split].
    + constructor; [|constructor]. unfold dseg_ok. cbn [f_recs f_tail f_hdr].
      split; [constructor|]. split; [apply tail_stuck_nil|]. split; [constructor|].
      split; [discriminate|reflexivity].
    + constructor; [intros []|constructor].
    + constructor; [intros []|constructor].
  - split.
    + intros g [<-|[]]. eexists. split; [left; reflexivity|]. repeat split.
    + intros f [<-|[]]. eexists. split; [left; reflexivity|]. repeat split.
  - split; [intros g' []|exact Logic.I].
  - split.
    + intros g [<-|[]]. cbn [g_seq m_maxseq]. lia.
    + intros g g' [<-|[]] [<-|[]] _. cbn [g_seq]. lia.
  - intros _. eexists. split; [left; reflexivity|]. split; reflexivity.
  - unfold index_agrees. cbn [m_idx map find option_map]. split; [constructor|]. split; [constructor|].
    intros k. reflexivity.
Qed.

Lemma pl_open0 P : Open P pl_q0.
Proof. split; [apply pl_inv0|]. split; [discriminate|constructor]. Qed.

Lemma pl_put_pre k v (s : st) :
  match s_mem s with Some m => room_b m | None => false end = true ->
  forallb (fun b => b <? 256) k = true -> forallb (fun b => b <? 256) v = true ->
  (nlen k <=? max_key_len) = true -> (nlen v <=? max_val_len) = true -> op_pre (OpPut k v) s.
Proof.
  intros H1 H2 H3 H4 H5. split; [apply ex_room; exact H1|]. split; [apply ex_bytes; exact H2|].
  split; [apply ex_bytes; exact H3|]. split; apply N.leb_le; assumption.
Qed.

Definition px_h0 : list op := [OpPut [1] px_v1; OpPut [3] [4]].     (* the second Put rolls over *)
Definition px_h : list op := [OpPut [5] [6]].                       (* after the Sync *)
Definition px_sA : st := Eval vm_compute in run_op px_P2 (OpPut [1] px_v1) pl_q0.
Definition px_sa : st := Eval vm_compute in run_op px_P2 (OpPut [3] [4]) px_sA.
Definition px_s1 : st := Eval vm_compute in run_op px_P2 OpSync px_sa.
Definition px_s' : st := Eval vm_compute in run_op px_P2 (OpPut [5] [6]) px_s1.
Lemma px_EA : run_op px_P2 (OpPut [1] px_v1) pl_q0 = px_sA. Proof. vm_compute. reflexivity. Qed.
Lemma px_Ea : run_op px_P2 (OpPut [3] [4]) px_sA = px_sa. Proof. vm_compute. reflexivity. Qed.
Lemma px_E1 : run_op px_P2 OpSync px_sa = px_s1. Proof. vm_compute. reflexivity. Qed.
Lemma px_E' : run_op px_P2 (OpPut [5] [6]) px_s1 = px_s'. Proof. vm_compute. reflexivity. Qed.

Lemma px_hist0 : history px_P2 pl_q0 px_h0 px_sa.
Proof.
  apply h_cons; [apply pl_put_pre; vm_compute; reflexivity|]. rewrite px_EA.
  apply h_cons; [apply pl_put_pre; vm_compute; reflexivity|]. rewrite px_Ea. apply h_nil.
Qed.

Lemma px_hist : history px_P2 (run_op px_P2 OpSync px_sa) px_h px_s'.
Proof. rewrite px_E1. apply h_cons; [apply pl_put_pre; vm_compute; reflexivity|]. rewrite px_E'. apply h_nil. Qed.

Definition px_events : list fsev :=
  htrace px_P2 px_h0 pl_q0 ++ s_trace (run_op px_P2 OpSync px_sa) ++ htrace px_P2 px_h (run_op px_P2 OpSync px_sa).

(* image A: the append after the Sync is lost, although the index write that followed it was kept;
   image B: the append is cut after 5 of its 12 bytes *)
Definition px_lostA : list plc := [Keep; Keep; Keep; Keep; Keep; Keep; Keep; Keep; Drop; Keep].
Definition px_lostB : list plc := [Keep; Keep; Keep; Keep; Keep; Keep; Keep; Keep; Tear 5; Drop].

Lemma px_image (cs : list plc) :
  is_some (pl_exec cs fnone (s_disk pl_q0) px_events) = true ->
  exists L, pl fnone (s_disk pl_q0) px_events L (img_of (pl_exec cs fnone (s_disk pl_q0) px_events)).
Proof.
  intros H. destruct (pl_exec cs fnone (s_disk pl_q0) px_events) as [[L img]|] eqn:E; [|discriminate H].
  exists L. apply (pl_exec_sound cs). exact E.
Qed.

Example C06_nonvacuous :
  (* the history: two Puts with a rollover (the sealed segment is flushed), Sync, one more Put *)
  px_events =
    [EAppend 0 1 512 (mkput [1] px_v1); EIndex [{| sl_h := 0; sl_seg := 0; sl_ks := 1; sl_vs := 15; sl_off := 512 |}];
     ESync (FSeg 0 1); ECreate (FSeg 1 2); EHeader (FSeg 1 2); EAppend 1 2 512 (mkput [3] [4]);
     EIndex [{| sl_h := 0; sl_seg := 0; sl_ks := 1; sl_vs := 15; sl_off := 512 |};
             {| sl_h := 0; sl_seg := 1; sl_ks := 1; sl_vs := 1; sl_off := 512 |}];
     ESync (FSeg 1 2);
     EAppend 1 2 524 (mkput [5] [6]);
     EIndex [{| sl_h := 0; sl_seg := 0; sl_ks := 1; sl_vs := 15; sl_off := 512 |};
             {| sl_h := 0; sl_seg := 1; sl_ks := 1; sl_vs := 1; sl_off := 512 |};
             {| sl_h := 0; sl_seg := 1; sl_ks := 1; sl_vs := 1; sl_off := 524 |}]] /\
  Durable px_events /\
  (* both images are admissible *)
  (exists L, pl fnone (s_disk pl_q0) px_events L (img_of (pl_exec px_lostA fnone (s_disk pl_q0) px_events))) /\
  (exists L, pl fnone (s_disk pl_q0) px_events L (img_of (pl_exec px_lostB fnone (s_disk pl_q0) px_events))) /\
  (* they hold exactly the contents as of the Sync; the later Put is lost; image B has a torn tail *)
  abs (s_disk px_s1) = [([3], [4]); ([1], px_v1)] /\ abs (s_disk px_s') = [([5], [6]); ([3], [4]); ([1], px_v1)] /\
  abs (img_of (pl_exec px_lostA fnone (s_disk pl_q0) px_events)) = [([3], [4]); ([1], px_v1)] /\
  abs (img_of (pl_exec px_lostB fnone (s_disk pl_q0) px_events)) = [([3], [4]); ([1], px_v1)] /\
  map (fun f => nlen (f_tail f)) (d_segs (img_of (pl_exec px_lostB fnone (s_disk pl_q0) px_events))) = [0; 5] /\
  (* whereas losing the append BEFORE the Sync is not admissible *)
  pl_exec [Keep; Keep; Keep; Keep; Keep; Drop; Keep; Keep; Keep; Keep] fnone (s_disk pl_q0) px_events = None.
Proof.
  split; [vm_compute; reflexivity|]. split; [vm_compute; discriminate|].
  split; [apply px_image; vm_compute; reflexivity|]. split; [apply px_image; vm_compute; reflexivity|].
  split; [vm_compute; reflexivity|]. split; [vm_compute; reflexivity|]. split; [vm_compute; reflexivity|].
  split; [vm_compute; reflexivity|]. split; vm_compute; reflexivity.
Qed.

(* the hypotheses of C06_no_compaction / C06_image_is_log_prefix hold for this history and these images *)
Example C06_nonvacuous_recover :
  forall cs, is_some (pl_exec cs fnone (s_disk pl_q0) px_events) = true ->
  let img := img_of (pl_exec cs fnone (s_disk pl_q0) px_events) in
  (exists s2, db_open flat_ops px_P2 9 (closed img) = (s2, OOpened true) /\ Inv px_P2 s2 /\ s_mem s2 <> None /\
     exists j, (j <= 1)%nat /\ ceq (cont (s_disk s2)) (spec_hist (firstn j px_h) (cont (s_disk (run_op px_P2 OpSync px_sa))))) /\
  DiskOK img /\ bac_ok img /\ d_lock img = true /\
  exists l1 l2, olog img = olog (s_disk (run_op px_P2 OpSync px_sa)) ++ l1 /\ olog (s_disk px_s') = olog img ++ l2.
Proof.
  intros cs Hcs img. destruct (px_image cs Hcs) as (L & Hpl). fold img in Hpl.
  assert (Hpre : op_pre OpSync px_sa) by exact Logic.I.
  assert (Etr : htrace px_P2 px_h (run_op px_P2 OpSync px_sa) = htrace px_P2 px_h (run_op px_P2 OpSync px_sa) ++ []) by (rewrite app_nil_r; reflexivity).
  split.
  - apply (C06_no_compaction px_P2 9 pl_q0 px_h0 px_sa OpSync px_h px_s' (htrace px_P2 px_h (run_op px_P2 OpSync px_sa)) [] L img pl_params_ok (pl_open0 px_P2) px_hist0 Hpre
             (or_introl eq_refl) px_hist Etr Hpl).
  - apply (C06_image_is_log_prefix px_P2 pl_q0 px_h0 px_sa OpSync px_h px_s' (htrace px_P2 px_h (run_op px_P2 OpSync px_sa)) [] L img pl_params_ok (pl_open0 px_P2) px_hist0 Hpre
             (or_introl eq_refl) px_hist Etr Hpl).
Qed.

(* ---- a concrete history WITH compaction (parameters pl_P: every Put rolls over, every segment is
        eligible): Put, Put, Sync; then pick, start of segment 0, promotion of its live record into a new
        segment, removal of segment 0.  The power fails after the promotion. ---- *)
Definition cy1 : st := Eval vm_compute in run_op pl_P (OpPut [1] [2]) pl_q0.
Definition cy2 : st := Eval vm_compute in run_op pl_P (OpPut [3] [4]) cy1.
Definition cy3 : st := Eval vm_compute in run_op pl_P OpSync cy2.
Definition cy4 : st := Eval vm_compute in match compact_pick flat_ops pl_P (clear_trace cy3) with Some (s, _) => s | None => cy3 end.
Definition cc4 : cursor := Eval vm_compute in
  match compact_pick flat_ops pl_P (clear_trace cy3) with Some (_, c) => c
  | None => {| c_todo := []; c_src := None; c_segs := 0; c_recs := 0; c_bytes := 0 |} end.
Definition cstep_st (s : st) (c : cursor) : st := match compact_step flat_ops pl_P (clear_trace s) c with CMore s' _ => s' | _ => s end.
Definition cstep_cu (s : st) (c : cursor) : cursor := match compact_step flat_ops pl_P (clear_trace s) c with CMore _ c' => c' | _ => c end.
Definition cy5 : st := Eval vm_compute in cstep_st cy4 cc4.
Definition cc5 : cursor := Eval vm_compute in cstep_cu cy4 cc4.
Definition cy6 : st := Eval vm_compute in cstep_st cy5 cc5.
Definition cc6 : cursor := Eval vm_compute in cstep_cu cy5 cc5.
Definition cy7 : st := Eval vm_compute in cstep_st cy6 cc6.
Definition cc7 : cursor := Eval vm_compute in cstep_cu cy6 cc6.

Lemma cy_E1 : run_op pl_P (OpPut [1] [2]) pl_q0 = cy1. Proof. vm_compute. reflexivity. Qed.
Lemma cy_E2 : run_op pl_P (OpPut [3] [4]) cy1 = cy2. Proof. vm_compute. reflexivity. Qed.
Lemma cy_E3 : run_op pl_P OpSync cy2 = cy3. Proof. vm_compute. reflexivity. Qed.
Lemma cy_E4 : compact_pick flat_ops pl_P (clear_trace cy3) = Some (cy4, cc4). Proof. vm_compute. reflexivity. Qed.
Lemma cy_E5 : compact_step flat_ops pl_P (clear_trace cy4) cc4 = CMore cy5 cc5. Proof. vm_compute. reflexivity. Qed.
Lemma cy_E6 : compact_step flat_ops pl_P (clear_trace cy5) cc5 = CMore cy6 cc6. Proof. vm_compute. reflexivity. Qed.
Lemma cy_E7 : compact_step flat_ops pl_P (clear_trace cy6) cc6 = CMore cy7 cc7. Proof. vm_compute. reflexivity. Qed.

Lemma cy_MetaOK3 : MetaOK cy3.
Proof.
  unfold MetaOK, cy3. cbn [s_mem s_disk m_segs].
  intros g f [<-|[<-|[]]] E; vm_compute in E; inversion E; subst f; reflexivity.
Qed.

Lemma cy_run0 : xrun pl_P (pl_q0, None) [XOp (OpPut [1] [2]); XOp (OpPut [3] [4])] [(cy1, None); (cy2, None)]
                     (s_trace cy1 ++ s_trace cy2 ++ []) (cy2, None).
Proof.
  apply (xr_cons pl_P (pl_q0, None) _ (cy1, None)).
  { rewrite <- cy_E1. apply xs_op. apply pl_put_pre; vm_compute; reflexivity. }
  apply (xr_cons pl_P (cy1, None) _ (cy2, None)).
  { rewrite <- cy_E2. apply xs_op. apply pl_put_pre; vm_compute; reflexivity. }
  apply xr_nil.
Qed.

Lemma cy_sync : xstep pl_P (cy2, None) (XOp OpSync) (cy3, None).
Proof. rewrite <- cy_E3. apply xs_op. exact Logic.I. Qed.

Definition cy_os : list xop := [XPick; XStep; XStep; XStep].
Definition cy_tr : list fsev := s_trace cy4 ++ s_trace cy5 ++ s_trace cy6 ++ s_trace cy7 ++ [].

Lemma cy_run : xrun pl_P (cy3, None) cy_os [(cy4, Some cc4); (cy5, Some cc5); (cy6, Some cc6); (cy7, Some cc7)]
                    cy_tr (cy7, Some cc7).
Proof.
  apply (xr_cons pl_P (cy3, None) XPick (cy4, Some cc4)); [apply xs_pick; [exact cy_MetaOK3|exact cy_E4]|].
  apply (xr_cons pl_P (cy4, Some cc4) XStep (cy5, Some cc5)); [apply xs_step; [apply ex_room; vm_compute; reflexivity|exact cy_E5]|].
  apply (xr_cons pl_P (cy5, Some cc5) XStep (cy6, Some cc6)); [apply xs_step; [apply ex_room; vm_compute; reflexivity|exact cy_E6]|].
  apply (xr_cons pl_P (cy6, Some cc6) XStep (cy7, Some cc7)); [apply xs_step; [apply ex_room; vm_compute; reflexivity|exact cy_E7]|].
  apply xr_nil.
Qed.

(* the events up to and including the promotion (5 of the 7 events of the compaction) *)
Definition cy_events : list fsev := (s_trace cy1 ++ s_trace cy2 ++ []) ++ s_trace cy3 ++ firstn 5 cy_tr.
Definition cy_lost : list plc := [Keep; Keep; Keep; Keep; Keep; Keep; Keep; Keep; Keep; Keep; Keep; Drop; Drop].

Example C06_nonvacuous_compaction :
  cy_tr = [ESync (FSeg 1 2); ECreate (FSeg 2 3); EHeader (FSeg 2 3); EAppend 2 3 512 (mkput [1] [2]);
           EIndex [{| sl_h := 0; sl_seg := 2; sl_ks := 1; sl_vs := 1; sl_off := 512 |};
                   {| sl_h := 0; sl_seg := 1; sl_ks := 1; sl_vs := 1; sl_off := 512 |}];
           ESync (FSeg 2 3); ERemove (FSeg 0 1)] /\
  Durable ((s_trace cy1 ++ s_trace cy2 ++ []) ++ s_trace cy3 ++ cy_tr) /\
  let img := img_of (pl_exec cy_lost fnone (s_disk pl_q0) cy_events) in
  (* the copy of the live record did not reach the new segment: admissible as long as the removal of
     the source (which is preceded by the Sync of the new segment) has not been issued *)
  (exists L, pl fnone (s_disk pl_q0) cy_events L img) /\
  map (fun f => (f_id f, length (f_recs f))) (d_segs img) = [(0, 1%nat); (1, 1%nat); (2, 0%nat)] /\
  (* the theorem applies: recovery yields the contents as of the Sync (compaction is invisible) *)
  exists s2, db_open flat_ops pl_P 9 (closed img) = (s2, OOpened true) /\ Inv pl_P s2 /\ s_mem s2 <> None /\
    exists j, (j <= 4)%nat /\ ceq (cont (s_disk s2)) (xspec_hist (firstn j cy_os) (cont (s_disk cy3))).
Proof.
  split; [vm_compute; reflexivity|]. split; [vm_compute; discriminate|]. cbv zeta.
  assert (Hpl : exists L, pl fnone (s_disk pl_q0) cy_events L (img_of (pl_exec cy_lost fnone (s_disk pl_q0) cy_events))).
  { destruct (pl_exec cy_lost fnone (s_disk pl_q0) cy_events) as [[L img]|] eqn:E.
    - exists L. apply (pl_exec_sound cy_lost). exact E.
    - exfalso. assert (H : is_some (pl_exec cy_lost fnone (s_disk pl_q0) cy_events) = true) by (vm_compute; reflexivity).
      rewrite E in H. discriminate H. }
  split; [exact Hpl|]. split; [vm_compute; reflexivity|]. destruct Hpl as (L & Hpl).
  apply (C06_synced_writes_survive pl_P 9 (pl_q0, None) _ _ _ (cy2, None) (XOp OpSync) (cy3, None) cy_os _ cy_tr (cy7, Some cc7)
           (firstn 5 cy_tr) (skipn 5 cy_tr) L _ eq_refl (conj (pl_open0 pl_P) Logic.I) cy_run0 cy_sync Logic.I cy_run
           (eq_sym (firstn_skipn 5 cy_tr)) Hpl).
Qed.

(* ================================================================================================ *)
Print Assumptions pl_exec_sound.
Print Assumptions pl_ok_image.
Print Assumptions pl_agree.
Print Assumptions pl_dur.
Print Assumptions frozen.
Print Assumptions pl_reduce.
Print Assumptions pl_is_crash_image.
Print Assumptions seal_dur.
Print Assumptions wr_dur.
Print Assumptions put_dur.
Print Assumptions delete_dur.
Print Assumptions sync_dur.
Print Assumptions pick_dur.
Print Assumptions cstep_dur.
Print Assumptions xstep_dur.
Print Assumptions xrun_dur.
Print Assumptions xrun_crash.
Print Assumptions C06_image.
Print Assumptions C06_synced_writes_survive.
Print Assumptions C06_per_key.
Print Assumptions C06_no_compaction.
Print Assumptions C06_image_is_log_prefix.
Print Assumptions db_open_orph.
Print Assumptions C09_closed_is_durable.
Print Assumptions C09_reopen.
Print Assumptions C09_power_loss_during_reopen.
Print Assumptions seal_without_sync_refuted.
Print Assumptions remove_before_sync_refuted.
Print Assumptions C06_nonvacuous.
Print Assumptions C06_nonvacuous_recover.
Print Assumptions C06_nonvacuous_compaction.
