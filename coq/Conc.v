(* Conc.v -- the generic concurrency argument behind "no data race ... or deadlock under concurrent
   use" (C10): it turns the syntactic facts that ShapeCheck.v decides on the regenerated lock
   structure (gen/Shape.v) into statements about ALL schedules of ANY number of threads.

   MODEL.  A thread is the token list it still has to run (one entry of [shape_table]) together with
   the multiset of (lock, mode) it holds; a configuration is a list of threads; [step c i] lets
   thread [i] execute its next token.
     Acq l Ex    enabled iff no OTHER thread holds l in any mode and the thread itself does not
                 hold l (Go: a second Lock() of the same goroutine blocks forever)
     Acq l Sh    enabled iff no OTHER thread holds l in mode Ex, and the thread itself does not hold
                 l in mode Ex (Go: RLock() under one's own Lock() blocks forever)
     TryAcq l    always enabled: takes l (mode Ex) when it is free, otherwise the thread gives up
                 its whole remaining program -- Go's  if !mu.TryLock() { return errBusy }
     Rel l       always enabled, drops one hold of l (the most recent one)
     Call, Field, Yield, Go, Loop, EndLoop   always enabled, no effect on the locks
   A thread whose next token is [Call c held] / [Field f held] is "at" that access: it may be
   executing it at any time until it takes the step.  Two threads that are at conflicting accesses in
   the same configuration are the model's notion of a data race.

   TRUSTED (not proved here, no theorem about Go):
     - sync.RWMutex / sync.Mutex behave like the locks of this model (mutual exclusion of writers
       against everybody, readers against writers; TryLock never blocks).  Go's RWMutex additionally
       makes new readers wait behind a *pending* writer; [deadlock_free_writer_preference] shows
       that the deadlock argument is insensitive to that.
     - gen/Shape.v is what tools/gotrans extracts from the Go sources (source order, loop bodies
       once, branches one after the other); the [held] annotations are the translator's own
       book-keeping -- [honest] re-derives them from the Acq/Rel history, so they are checked, not
       trusted.
     - callees run inside the region of their caller (the only callee that takes a lock itself,
       db.compact inside DB.Compact, is inlined explicitly below: [prog_Compact_full]; so are
       Sync and Compact inside the background worker: [prog_worker]).

   LOOPS AND BRANCHES.  The translator walks a loop body once.  Section 11 shows that repeating or
   skipping a lock-neutral segment preserves all checks ([wf_repeat], [unrolls_wf]), section 12
   that every loop of the programs below is lock-neutral ([pogreb_loops_neutral]); the pogreb
   theorems are stated for all such unrollings.  An early return is linearised as if execution
   went on: this breaks [balanced] for exactly one function, DB_Compact, whose two executions are
   recovered in section 12.

   WHAT IS PROVED (all closed under the global context, see the end of the file):
     generic    mutual_exclusion_invariant, conflict_free, no_simultaneous_conflict,
                deadlock_free, waits_only_upwards, try_only_empty_handed, progress,
                every_maximal_run_finishes, deadlock_free_writer_preference, wf_repeat, unrolls_wf
     instances  shape_table_ok_except_Compact, pogreb_programs_ok, pogreb_programs_honest_guarded,
                pogreb_loops_neutral, pogreb_deadlock_free, pogreb_race_free,
                close_waits_before_locking
     examples   section 14 (concrete schedules; a blocked configuration; what goes wrong when the
                discipline is broken) *)
From Coq Require Import List Bool Arith Lia String.
From Pogreb Require Import gen.Shape ShapeCheck.
Import ListNotations.
Open Scope string_scope.
Open Scope list_scope.

(* ------------------------------------------------------------------------------------------- *)
(** * 1. The model *)

Definition hset := list (lk * mode).
Definition thread : Type := (list tok * hset)%type.
Definition conf := list thread.

(* drop the most recent hold of [l] *)
Fixpoint rm (l : lk) (h : hset) : hset :=
  match h with
  | [] => []
  | p :: h' => if lk_eqb (fst p) l then h' else p :: rm l h'
  end.

(* does some thread other than number [i] satisfy [f]? *)
Fixpoint any_other (f : thread -> bool) (i : nat) (c : conf) {struct c} : bool :=
  match c with
  | [] => false
  | t :: c' => match i with
               | 0 => existsb f c'
               | S i' => f t || any_other f i' c'
               end
  end.

Definition oth_any (c : conf) (i : nat) (l : lk) : bool := any_other (fun t => holds l (snd t)) i c.
Definition oth_ex (c : conf) (i : nat) (l : lk) : bool := any_other (fun t => holds_ex l (snd t)) i c.

(* one thread's move; what the other threads hold enters only through [oany] / [oex] *)
Definition tstep (oany oex : lk -> bool) (t : thread) : option thread :=
  match fst t with
  | [] => None
  | Acq l Ex :: p' => if oany l || holds l (snd t) then None else Some (p', (l, Ex) :: snd t)
  | Acq l Sh :: p' => if oex l || holds_ex l (snd t) then None else Some (p', (l, Sh) :: snd t)
  | TryAcq l :: p' => if oany l || holds l (snd t) then Some ([], snd t) else Some (p', (l, Ex) :: snd t)
  | Rel l :: p' => Some (p', rm l (snd t))
  | _ :: p' => Some (p', snd t)
  end.

Fixpoint upd (c : conf) (i : nat) (t : thread) : conf :=
  match c with
  | [] => []
  | x :: c' => match i with 0 => t :: c' | S i' => x :: upd c' i' t end
  end.

Definition step (c : conf) (i : nat) : option conf :=
  match nth_error c i with
  | None => None
  | Some t =>
      match tstep (oth_any c i) (oth_ex c i) t with
      | None => None
      | Some t' => Some (upd c i t')
      end
  end.

Fixpoint run (c : conf) (sch : list nat) : option conf :=
  match sch with
  | [] => Some c
  | i :: sch' => match step c i with Some c' => run c' sch' | None => None end
  end.

Inductive reachable (c0 : conf) : conf -> Prop :=
| reach_refl : reachable c0 c0
| reach_step : forall c i c', reachable c0 c -> step c i = Some c' -> reachable c0 c'.

Definition initial (c : conf) : Prop := forall t, In t c -> snd t = [].
Definition all_done (c : conf) : Prop := forall t, In t c -> fst t = [].

(* ------------------------------------------------------------------------------------------- *)
(** * 2. Well-formedness of programs, as boolean functions *)

(* [order_ok] is ShapeCheck's; its Rel case uses this function (anonymous there) *)
Definition rm_lk (x : lk) : list lk -> list lk :=
  fix rm (hs : list lk) : list lk :=
    match hs with [] => [] | h :: hs' => if lk_eqb h x then hs' else h :: rm hs' end.

(* every prefix releases only what it holds, TryAcq is only used while holding nothing (so that
   giving up leaves nothing locked), nothing is held at the end *)
Fixpoint balanced_from (h : hset) (p : list tok) : bool :=
  match p with
  | [] => match h with [] => true | _ => false end
  | Acq x m :: p' => balanced_from ((x, m) :: h) p'
  | TryAcq x :: p' => match h with [] => balanced_from [(x, Ex)] p' | _ => false end
  | Rel x :: p' => holds x h && balanced_from (rm x h) p'
  | _ :: p' => balanced_from h p'
  end.
Definition balanced (p : list tok) : bool := balanced_from [] p.

(* the [held] annotation of every access is exactly what the Acq/Rel history says (the translator
   lists the holds in acquisition order, the model keeps the most recent first) *)
Definition mode_eqb (a b : mode) : bool :=
  match a, b with Sh, Sh | Ex, Ex => true | _, _ => false end.
Fixpoint held_eqb (a b : hset) : bool :=
  match a, b with
  | [], [] => true
  | x :: a', y :: b' => lk_eqb (fst x) (fst y) && mode_eqb (snd x) (snd y) && held_eqb a' b'
  | _, _ => false
  end.
Fixpoint honest_from (h : hset) (p : list tok) : bool :=
  match p with
  | [] => true
  | Acq x m :: p' => honest_from ((x, m) :: h) p'
  | TryAcq x :: p' => honest_from ((x, Ex) :: h) p'
  | Rel x :: p' => honest_from (rm x h) p'
  | Call _ a :: p' => held_eqb a (rev h) && honest_from h p'
  | Field _ a :: p' => held_eqb a (rev h) && honest_from h p'
  | _ :: p' => honest_from h p'
  end.
Definition honest (p : list tok) : bool := honest_from [] p.

(* per-thread invariants *)
Definition twf (t : thread) : Prop :=
  order_ok (map fst (snd t)) (fst t) = true /\ balanced_from (snd t) (fst t) = true.
Definition thonest (t : thread) : Prop := honest_from (snd t) (fst t) = true.
Definition tguarded (t : thread) : Prop := forallb tok_guarded (fst t) = true.

(* ------------------------------------------------------------------------------------------- *)
(** * 3. Basic facts *)

Lemma lk_eqb_eq : forall a b, lk_eqb a b = true <-> a = b.
Proof. intros a b; destruct a, b; simpl; split; intro H; try reflexivity; discriminate. Qed.

Lemma lk_eqb_refl : forall a, lk_eqb a a = true.
Proof. destruct a; reflexivity. Qed.

Lemma rank_le_2 : forall l, rank l <= 2.
Proof. destruct l; simpl; lia. Qed.

Lemma holds_cons : forall l x m h, holds l ((x, m) :: h) = lk_eqb x l || holds l h.
Proof. reflexivity. Qed.

Lemma holds_ex_cons_sh : forall l x h, holds_ex l ((x, Sh) :: h) = holds_ex l h.
Proof. intros; unfold holds_ex; simpl. rewrite andb_false_r. reflexivity. Qed.

Lemma holds_ex_cons_ex : forall l x h, holds_ex l ((x, Ex) :: h) = lk_eqb x l || holds_ex l h.
Proof. intros; unfold holds_ex; simpl. rewrite andb_true_r. reflexivity. Qed.

Lemma holds_ex_holds : forall l h, holds_ex l h = true -> holds l h = true.
Proof.
  intros l h; induction h as [|p h IH]; simpl; intro H; [discriminate|].
  apply orb_true_iff in H. apply orb_true_iff. destruct H as [H|H].
  - left. apply andb_true_iff in H. tauto.
  - right. apply IH, H.
Qed.

Lemma holds_rm : forall l x h, holds l (rm x h) = true -> holds l h = true.
Proof.
  intros l x h; induction h as [|p h IH]; simpl; intro H; [discriminate|].
  apply orb_true_iff. destruct (lk_eqb (fst p) x) eqn:E.
  - right; exact H.
  - simpl in H. apply orb_true_iff in H. destruct H as [H|H]; [left; exact H|right; apply IH, H].
Qed.

Lemma holds_ex_rm : forall l x h, holds_ex l (rm x h) = true -> holds_ex l h = true.
Proof.
  intros l x h; induction h as [|p h IH]; simpl; intro H; [discriminate|].
  apply orb_true_iff. destruct (lk_eqb (fst p) x) eqn:E.
  - right; exact H.
  - simpl in H. apply orb_true_iff in H. destruct H as [H|H]; [left; exact H|right; apply IH, H].
Qed.

Lemma holds_in : forall l h, holds l h = true -> In l (map fst h).
Proof.
  intros l h; induction h as [|p h IH]; simpl; intro H; [discriminate|].
  apply orb_true_iff in H. destruct H as [H|H].
  - left. apply lk_eqb_eq, H.
  - right. apply IH, H.
Qed.

Lemma existsb_rev : forall (A : Type) (f : A -> bool) (l : list A), existsb f (rev l) = existsb f l.
Proof.
  intros A f l; induction l as [|x l IH]; simpl; [reflexivity|].
  rewrite existsb_app, IH. simpl. rewrite orb_false_r. apply orb_comm.
Qed.

Lemma holds_rev : forall l h, holds l (rev h) = holds l h.
Proof. intros; apply existsb_rev. Qed.
Lemma holds_ex_rev : forall l h, holds_ex l (rev h) = holds_ex l h.
Proof. intros; apply existsb_rev. Qed.

Lemma mode_eqb_eq : forall a b, mode_eqb a b = true -> a = b.
Proof. destruct a, b; simpl; intro H; try reflexivity; discriminate. Qed.

Lemma held_eqb_eq : forall a b, held_eqb a b = true -> a = b.
Proof.
  induction a as [|x a IH]; destruct b as [|y b]; simpl; intro H; try reflexivity; try discriminate.
  apply andb_true_iff in H. destruct H as [H1 H2]. apply andb_true_iff in H1. destruct H1 as [H0 H1].
  apply lk_eqb_eq in H0. apply mode_eqb_eq in H1. destruct x, y; simpl in *. subst. f_equal. apply IH, H2.
Qed.

(* [any_other] *)
Lemma any_other_true : forall f c i, any_other f i c = true ->
  exists j t, j <> i /\ nth_error c j = Some t /\ f t = true.
Proof.
  intros f c; induction c as [|x c IH]; intros i H; simpl in H; [discriminate|].
  destruct i as [|i].
  - apply existsb_exists in H. destruct H as [t [Hin Hf]].
    apply In_nth_error in Hin. destruct Hin as [n Hn].
    exists (S n), t. split; [discriminate|]. split; [exact Hn|exact Hf].
  - apply orb_true_iff in H. destruct H as [H|H].
    + exists 0, x. split; [discriminate|]. split; [reflexivity|exact H].
    + destruct (IH i H) as [j [t [Hj [Hn Hf]]]].
      exists (S j), t. split; [intro E; apply Hj; injection E; auto|]. split; [exact Hn|exact Hf].
Qed.

Lemma any_other_false : forall f c i, any_other f i c = false ->
  forall j t, j <> i -> nth_error c j = Some t -> f t = false.
Proof.
  intros f c; induction c as [|x c IH]; intros i H j t Hj Hn.
  - destruct j; discriminate.
  - simpl in H. destruct i as [|i].
    + destruct j as [|j]; [contradiction|]. simpl in Hn.
      destruct (f t) eqn:E; [|reflexivity].
      assert (X : existsb f c = true) by (apply existsb_exists; exists t; split; [eapply nth_error_In; eauto|exact E]).
      congruence.
    + apply orb_false_iff in H. destruct H as [H1 H2].
      destruct j as [|j]; simpl in Hn.
      * injection Hn as <-. exact H1.
      * apply (IH i H2 j t); [intro E; apply Hj; f_equal; exact E|exact Hn].
Qed.

(* [upd] *)
Lemma nth_error_upd_eq : forall c i t t0, nth_error c i = Some t0 -> nth_error (upd c i t) i = Some t.
Proof.
  induction c as [|x c IH]; intros i t t0 H; destruct i; simpl in *; try discriminate; [reflexivity|].
  eapply IH, H.
Qed.

Lemma nth_error_upd_neq : forall c i j t, i <> j -> nth_error (upd c i t) j = nth_error c j.
Proof.
  induction c as [|x c IH]; intros i j t H; simpl; [reflexivity|].
  destruct i, j; simpl; try reflexivity; [contradiction|]. apply IH. intro E; apply H; f_equal; exact E.
Qed.

Lemma upd_length : forall c i t, List.length (upd c i t) = List.length c.
Proof. induction c as [|x c IH]; intros i t; simpl; [reflexivity|]. destruct i; simpl; [reflexivity|]. f_equal. apply IH. Qed.

Lemma step_inv : forall c i c', step c i = Some c' ->
  exists t t', nth_error c i = Some t /\ tstep (oth_any c i) (oth_ex c i) t = Some t' /\ c' = upd c i t'.
Proof.
  unfold step; intros c i c' H.
  destruct (nth_error c i) as [t|] eqn:E; [|discriminate].
  destruct (tstep (oth_any c i) (oth_ex c i) t) as [t'|] eqn:T; [|discriminate].
  injection H as <-. exists t, t'. auto.
Qed.

Lemma step_length : forall c i c', step c i = Some c' -> List.length c' = List.length c.
Proof. intros c i c' H. apply step_inv in H. destruct H as [t [t' [_ [_ ->]]]]. apply upd_length. Qed.

(* ------------------------------------------------------------------------------------------- *)
(** * 4. Case analysis of one thread's move *)

Definition is_lockop (t : tok) : bool :=
  match t with Acq _ _ | TryAcq _ | Rel _ => true | _ => false end.
Definition is_acq (t : tok) : bool := match t with Acq _ _ => true | _ => false end.

Inductive tstep_case (oany oex : lk -> bool) (p : list tok) (h : hset) (t' : thread) : Prop :=
| ts_acq_ex : forall l p', p = Acq l Ex :: p' -> t' = (p', (l, Ex) :: h) ->
    oany l = false -> holds l h = false -> tstep_case oany oex p h t'
| ts_acq_sh : forall l p', p = Acq l Sh :: p' -> t' = (p', (l, Sh) :: h) ->
    oex l = false -> holds_ex l h = false -> tstep_case oany oex p h t'
| ts_try_ok : forall l p', p = TryAcq l :: p' -> t' = (p', (l, Ex) :: h) ->
    oany l = false -> holds l h = false -> tstep_case oany oex p h t'
| ts_try_busy : forall l p', p = TryAcq l :: p' -> t' = ([], h) -> tstep_case oany oex p h t'
| ts_rel : forall l p', p = Rel l :: p' -> t' = (p', rm l h) -> tstep_case oany oex p h t'
| ts_other : forall tk p', p = tk :: p' -> t' = (p', h) -> is_lockop tk = false ->
    tstep_case oany oex p h t'.

Lemma tstep_cases : forall oany oex p h t',
  tstep oany oex (p, h) = Some t' -> tstep_case oany oex p h t'.
Proof.
  intros oany oex p h t' H. unfold tstep in H; simpl in H.
  destruct p as [|tk p']; [discriminate|].
  destruct tk as [l m|l|l|c a|f a|y| | |].
  - destruct m.
    + destruct (oex l || holds_ex l h) eqn:E; [discriminate|].
      apply orb_false_iff in E. destruct E as [E1 E2]. injection H as <-.
      eapply ts_acq_sh; eauto.
    + destruct (oany l || holds l h) eqn:E; [discriminate|].
      apply orb_false_iff in E. destruct E as [E1 E2]. injection H as <-.
      eapply ts_acq_ex; eauto.
  - destruct (oany l || holds l h) eqn:E; injection H as <-.
    + eapply ts_try_busy; eauto.
    + apply orb_false_iff in E. destruct E as [E1 E2]. eapply ts_try_ok; eauto.
  - injection H as <-. eapply ts_rel; eauto.
  - injection H as <-. eapply ts_other; eauto.
  - injection H as <-. eapply ts_other; eauto.
  - injection H as <-. eapply ts_other; eauto.
  - injection H as <-. eapply ts_other; eauto.
  - injection H as <-. eapply ts_other; eauto.
  - injection H as <-. eapply ts_other; eauto.
Qed.

(* every token except a blocking Acq can always be executed *)
Lemma tstep_nonacq : forall oany oex tk p h,
  (forall l m, tk <> Acq l m) -> exists t', tstep oany oex (tk :: p, h) = Some t'.
Proof.
  intros oany oex tk p h H. unfold tstep; simpl.
  destruct tk as [l m|l|l|c a|f a|y| | |]; try (eexists; reflexivity).
  - exfalso. eapply H; reflexivity.
  - destruct (oany l || holds l h); eexists; reflexivity.
Qed.

(* every move shortens the program of the thread *)
Lemma tstep_shrinks : forall oany oex t t',
  tstep oany oex t = Some t' -> List.length (fst t') < List.length (fst t).
Proof.
  intros oany oex [p h] t' H. apply tstep_cases in H.
  destruct H as [l p' -> ->|l p' -> ->|l p' -> ->|l p' -> ->|l p' -> ->|tk p' -> ->]; simpl; lia.
Qed.

(* ------------------------------------------------------------------------------------------- *)
(** * 5. Mutual exclusion: an invariant of ALL programs *)

Definition ME (c : conf) : Prop :=
  forall i j ti tj l, i <> j -> nth_error c i = Some ti -> nth_error c j = Some tj ->
    holds_ex l (snd ti) = true -> holds l (snd tj) = false.

Definition free_any (c : conf) (k : nat) (l : lk) : Prop :=
  forall j tj, j <> k -> nth_error c j = Some tj -> holds l (snd tj) = false.
Definition free_ex (c : conf) (k : nat) (l : lk) : Prop :=
  forall j tj, j <> k -> nth_error c j = Some tj -> holds_ex l (snd tj) = false.

Lemma oth_any_free : forall c k l, oth_any c k l = false -> free_any c k l.
Proof. intros c k l H j tj Hj Hn. exact (any_other_false _ _ _ H j tj Hj Hn). Qed.

Lemma oth_ex_free : forall c k l, oth_ex c k l = false -> free_ex c k l.
Proof. intros c k l H j tj Hj Hn. exact (any_other_false _ _ _ H j tj Hj Hn). Qed.

Lemma free_any_ex : forall c k l, free_any c k l -> free_ex c k l.
Proof.
  intros c k l H j tj Hj Hn. destruct (holds_ex l (snd tj)) eqn:E; [|reflexivity].
  apply holds_ex_holds in E. rewrite (H j tj Hj Hn) in E. discriminate.
Qed.

Lemma ME_upd : forall c k t p' h',
  ME c -> nth_error c k = Some t ->
  (forall l, holds_ex l h' = true -> holds_ex l (snd t) = true \/ free_any c k l) ->
  (forall l, holds l h' = true -> holds l (snd t) = true \/ free_ex c k l) ->
  ME (upd c k (p', h')).
Proof.
  intros c k t p' h' HME Hk HA HB i j ti tj l Hij Hi Hj Hex.
  destruct (Nat.eq_dec i k) as [->|Hik].
  - rewrite (nth_error_upd_eq _ _ _ _ Hk) in Hi. injection Hi as <-. simpl in Hex.
    rewrite nth_error_upd_neq in Hj by auto.
    destruct (HA l Hex) as [H|H].
    + exact (HME k j t tj l Hij Hk Hj H).
    + apply (H j tj); auto.
  - rewrite nth_error_upd_neq in Hi by auto.
    destruct (Nat.eq_dec j k) as [->|Hjk].
    + rewrite (nth_error_upd_eq _ _ _ _ Hk) in Hj. injection Hj as <-. simpl.
      destruct (holds l h') eqn:E; [|reflexivity]. destruct (HB l E) as [H|H].
      * rewrite (HME i k ti t l Hik Hi Hk Hex) in H. discriminate.
      * rewrite (H i ti Hik Hi) in Hex. discriminate.
    + rewrite nth_error_upd_neq in Hj by auto. exact (HME i j ti tj l Hij Hi Hj Hex).
Qed.

Lemma step_ME : forall c k c', ME c -> step c k = Some c' -> ME c'.
Proof.
  intros c k c' HME H. apply step_inv in H. destruct H as [[p h] [t' [Hk [T ->]]]].
  apply tstep_cases in T.
  destruct T as [l p' -> -> E1 E2|l p' -> -> E1 E2|l p' -> -> E1 E2|l p' -> ->|l p' -> ->|tk p' -> -> E].
  - (* Acq Ex *)
    eapply ME_upd; eauto; cbn [snd]; intros l0 H.
    + rewrite holds_ex_cons_ex in H. apply orb_true_iff in H. destruct H as [H|H]; [|left; exact H].
      apply lk_eqb_eq in H. subst l0. right. apply oth_any_free, E1.
    + rewrite holds_cons in H. apply orb_true_iff in H. destruct H as [H|H]; [|left; exact H].
      apply lk_eqb_eq in H. subst l0. right. apply free_any_ex, oth_any_free, E1.
  - (* Acq Sh *)
    eapply ME_upd; eauto; cbn [snd]; intros l0 H.
    + rewrite holds_ex_cons_sh in H. left; exact H.
    + rewrite holds_cons in H. apply orb_true_iff in H. destruct H as [H|H]; [|left; exact H].
      apply lk_eqb_eq in H. subst l0. right. apply oth_ex_free, E1.
  - (* TryAcq, free *)
    eapply ME_upd; eauto; cbn [snd]; intros l0 H.
    + rewrite holds_ex_cons_ex in H. apply orb_true_iff in H. destruct H as [H|H]; [|left; exact H].
      apply lk_eqb_eq in H. subst l0. right. apply oth_any_free, E1.
    + rewrite holds_cons in H. apply orb_true_iff in H. destruct H as [H|H]; [|left; exact H].
      apply lk_eqb_eq in H. subst l0. right. apply free_any_ex, oth_any_free, E1.
  - (* TryAcq, busy *)
    eapply ME_upd; eauto; cbn [snd]; intros l0 H; left; exact H.
  - (* Rel *)
    eapply ME_upd; eauto; cbn [snd]; intros l0 H; left.
    + eapply holds_ex_rm, H.
    + eapply holds_rm, H.
  - eapply ME_upd; eauto; cbn [snd]; intros l0 H; left; exact H.
Qed.

Lemma initial_ME : forall c, initial c -> ME c.
Proof.
  intros c Hi i j ti tj l _ Hn _ Hex.
  rewrite (Hi ti (nth_error_In _ _ Hn)) in Hex. discriminate.
Qed.

Lemma reachable_ME : forall c0 c, initial c0 -> reachable c0 c -> ME c.
Proof.
  intros c0 c Hi R. induction R as [|c i c' R IH S]; [apply initial_ME, Hi|].
  eapply step_ME; eauto.
Qed.

Definition holds_sh (l : lk) (held : hset) : bool :=
  existsb (fun p => lk_eqb (fst p) l && match snd p with Sh => true | Ex => false end) held.

Lemma holds_sh_holds : forall l h, holds_sh l h = true -> holds l h = true.
Proof.
  intros l h; induction h as [|p h IH]; simpl; intro H; [discriminate|].
  apply orb_true_iff in H. apply orb_true_iff. destruct H as [H|H].
  - left. apply andb_true_iff in H. tauto.
  - right. apply IH, H.
Qed.

(* for every lock: at most one exclusive holder, and never a shared holder next to an exclusive
   one -- for arbitrary programs, any number of threads, all schedules *)
Theorem mutual_exclusion_invariant : forall c0 c, initial c0 -> reachable c0 c ->
  forall l i j ti tj, i <> j -> nth_error c i = Some ti -> nth_error c j = Some tj ->
    (holds_ex l (snd ti) = true -> holds_ex l (snd tj) = true -> False) /\
    (holds_ex l (snd ti) = true -> holds_sh l (snd tj) = true -> False).
Proof.
  intros c0 c Hi R l i j ti tj Hij Hni Hnj.
  pose proof (reachable_ME _ _ Hi R i j ti tj l Hij Hni Hnj) as H.
  split; intros H1 H2.
  - apply holds_ex_holds in H2. rewrite (H H1) in H2. discriminate.
  - apply holds_sh_holds in H2. rewrite (H H1) in H2. discriminate.
Qed.

(* ------------------------------------------------------------------------------------------- *)
(** * 6. Per-thread invariants are carried along every run *)

Lemma reachable_thread : forall (P : thread -> Prop),
  (forall oany oex t t', tstep oany oex t = Some t' -> P t -> P t') ->
  forall c0 c, reachable c0 c -> forall i t0, nth_error c0 i = Some t0 -> P t0 ->
  exists t, nth_error c i = Some t /\ P t.
Proof.
  intros P HP c0 c R. induction R as [|c k c' R IH S]; intros i t0 Hn H0.
  - exists t0; auto.
  - destruct (IH i t0 Hn H0) as [t [Ht Pt]].
    apply step_inv in S. destruct S as [tk [tk' [Hk [T ->]]]].
    destruct (Nat.eq_dec k i) as [->|Hki].
    + exists tk'. split; [eapply nth_error_upd_eq; eauto|].
      rewrite Hk in Ht. injection Ht as ->. eapply HP; eauto.
    + exists t. split; [rewrite nth_error_upd_neq by auto; exact Ht|exact Pt].
Qed.

Lemma Forall_upd : forall (P : thread -> Prop) c i t, Forall P c -> P t -> Forall P (upd c i t).
Proof.
  intros P c; induction c as [|x c IH]; intros i t HF Ht; simpl; [constructor|].
  inversion HF as [|x' c' Hx Hc]; subst. destruct i; constructor; auto.
Qed.

Lemma Forall_nth : forall (P : thread -> Prop) c i t, Forall P c -> nth_error c i = Some t -> P t.
Proof. intros P c i t HF Hn. rewrite Forall_forall in HF. apply HF. eapply nth_error_In; eauto. Qed.

Lemma step_Forall : forall (P : thread -> Prop),
  (forall oany oex t t', tstep oany oex t = Some t' -> P t -> P t') ->
  forall c i c', Forall P c -> step c i = Some c' -> Forall P c'.
Proof.
  intros P HP c i c' HF S. apply step_inv in S. destruct S as [t [t' [Hk [T ->]]]].
  apply Forall_upd; [exact HF|]. eapply HP; eauto. eapply Forall_nth; eauto.
Qed.

Lemma reachable_Forall : forall (P : thread -> Prop),
  (forall oany oex t t', tstep oany oex t = Some t' -> P t -> P t') ->
  forall c0 c, Forall P c0 -> reachable c0 c -> Forall P c.
Proof.
  intros P HP c0 c HF R. induction R as [|c k c' R IH S]; [exact HF|].
  eapply step_Forall; eauto.
Qed.

(* unfolding equations (so that proofs never have to [simpl] the anonymous fixpoint of order_ok) *)
Lemma order_ok_acq : forall hs x m p,
  order_ok hs (Acq x m :: p) = forallb (fun h => Nat.ltb (rank h) (rank x)) hs && order_ok (x :: hs) p.
Proof. reflexivity. Qed.
Lemma order_ok_try : forall hs x p, order_ok hs (TryAcq x :: p) = order_ok (x :: hs) p.
Proof. reflexivity. Qed.
Lemma order_ok_rel : forall hs x p, order_ok hs (Rel x :: p) = order_ok (rm_lk x hs) p.
Proof. reflexivity. Qed.
Lemma order_ok_other : forall hs tk p, is_lockop tk = false -> order_ok hs (tk :: p) = order_ok hs p.
Proof. intros hs tk p H; destruct tk; try discriminate; reflexivity. Qed.
Lemma balanced_other : forall h tk p, is_lockop tk = false -> balanced_from h (tk :: p) = balanced_from h p.
Proof. intros h tk p H; destruct tk; try discriminate; reflexivity. Qed.
Lemma honest_other : forall h tk p, is_lockop tk = false ->
  honest_from h (tk :: p) = true -> honest_from h p = true.
Proof.
  intros h tk p H; destruct tk; try discriminate; simpl; intro E; try exact E;
    apply andb_true_iff in E; tauto.
Qed.

Lemma map_fst_rm : forall l h, map fst (rm l h) = rm_lk l (map fst h).
Proof.
  intros l h; induction h as [|p h IH]; simpl; [reflexivity|].
  destruct (lk_eqb (fst p) l); [reflexivity|]. simpl. f_equal. exact IH.
Qed.

Lemma balanced_nil : forall h, balanced_from h [] = true -> h = [].
Proof. intros h H; destruct h; [reflexivity|discriminate]. Qed.

Lemma tstep_twf : forall oany oex t t', tstep oany oex t = Some t' -> twf t -> twf t'.
Proof.
  intros oany oex [p h] t' T [HO HB]. simpl in HO, HB. apply tstep_cases in T.
  destruct T as [l p' -> -> E1 E2|l p' -> -> E1 E2|l p' -> -> E1 E2|l p' -> ->|l p' -> ->|tk p' -> -> E];
    unfold twf; cbn [fst snd].
  - rewrite order_ok_acq in HO. apply andb_true_iff in HO. destruct HO as [_ HO]. split; [exact HO|exact HB].
  - rewrite order_ok_acq in HO. apply andb_true_iff in HO. destruct HO as [_ HO]. split; [exact HO|exact HB].
  - rewrite order_ok_try in HO. split; [exact HO|].
    simpl in HB. destruct h; [exact HB|discriminate].
  - simpl in HB. destruct h; [|discriminate]. split; reflexivity.
  - rewrite order_ok_rel in HO. simpl in HB. apply andb_true_iff in HB. destruct HB as [_ HB].
    split; [rewrite map_fst_rm; exact HO|exact HB].
  - rewrite order_ok_other in HO by exact E. rewrite balanced_other in HB by exact E. split; assumption.
Qed.

Lemma tstep_thonest : forall oany oex t t', tstep oany oex t = Some t' -> thonest t -> thonest t'.
Proof.
  intros oany oex [p h] t' T H. unfold thonest in *. simpl in H. apply tstep_cases in T.
  destruct T as [l p' -> -> E1 E2|l p' -> -> E1 E2|l p' -> -> E1 E2|l p' -> ->|l p' -> ->|tk p' -> -> E];
    cbn [fst snd]; try exact H; try reflexivity.
  eapply honest_other; eauto.
Qed.

Lemma tstep_tguarded : forall oany oex t t', tstep oany oex t = Some t' -> tguarded t -> tguarded t'.
Proof.
  intros oany oex [p h] t' T H. unfold tguarded in *. simpl in H. apply tstep_cases in T.
  destruct T as [l p' -> -> E1 E2|l p' -> -> E1 E2|l p' -> -> E1 E2|l p' -> ->|l p' -> ->|tk p' -> -> E];
    cbn [fst snd]; try reflexivity; simpl in H; try exact H.
  apply andb_true_iff in H. tauto.
Qed.

(* ------------------------------------------------------------------------------------------- *)
(** * 7. Conflict freedom *)

(* the annotation of the access a thread is at *)
Definition next_held (t : thread) : option hset :=
  match fst t with
  | Call _ a :: _ => Some a
  | Field _ a :: _ => Some a
  | _ => None
  end.

Lemma thonest_next : forall t a, thonest t -> next_held t = Some a -> a = rev (snd t).
Proof.
  intros [p h] a H N. unfold thonest, next_held in *. simpl in *.
  destruct p as [|tk p]; [discriminate|].
  destruct tk; try discriminate; injection N as ->; simpl in H;
    apply andb_true_iff in H; destruct H as [H _]; apply held_eqb_eq, H.
Qed.

(* If thread [i] started with an honest program (whatever the other threads run) and is at an
   access annotated [held]:  Mu held exclusively => nobody else holds Mu;  Mu held in any mode =>
   nobody else holds it exclusively. *)
Theorem conflict_free : forall c0 c i p0 ti held,
  initial c0 -> reachable c0 c ->
  nth_error c0 i = Some (p0, []) -> honest p0 = true ->
  nth_error c i = Some ti -> next_held ti = Some held ->
  (holds_ex Mu held = true ->
     forall j tj, j <> i -> nth_error c j = Some tj -> holds Mu (snd tj) = false) /\
  (holds Mu held = true ->
     forall j tj, j <> i -> nth_error c j = Some tj -> holds_ex Mu (snd tj) = false).
Proof.
  intros c0 c i p0 ti held Hi R H0 Hh Hn Hnext.
  pose proof (reachable_ME _ _ Hi R) as HME.
  destruct (reachable_thread thonest tstep_thonest c0 c R i (p0, []) H0 Hh) as [t [Ht Hth]].
  rewrite Hn in Ht. injection Ht as <-.
  pose proof (thonest_next _ _ Hth Hnext) as ->.
  split; intros H j tj Hj Hnj.
  - rewrite holds_ex_rev in H. exact (HME i j ti tj Mu (not_eq_sym Hj) Hn Hnj H).
  - rewrite holds_rev in H. destruct (holds_ex Mu (snd tj)) eqn:E; [|reflexivity].
    rewrite (HME j i tj ti Mu Hj Hnj Hn E) in H. discriminate.
Qed.

(* the accesses of ShapeCheck's classification *)
Definition writer_tok (t : tok) : bool :=
  match t with Call c _ => mem_str c writer_calls | _ => false end.
Definition reader_tok (t : tok) : bool :=
  match t with
  | Call c _ => negb (mem_str c writer_calls) && mem_str c reader_calls
  | Field f _ => mem_str f guarded_fields
  | _ => false
  end.

Lemma guarded_writer : forall tk, tok_guarded tk = true -> writer_tok tk = true ->
  exists a, (forall p h, next_held (tk :: p, h) = Some a) /\ holds_ex Mu a = true.
Proof.
  intros tk G W. destruct tk as [l m|l|l|c a|f a|y| | |]; try discriminate.
  unfold writer_tok in W. unfold tok_guarded in G. rewrite W in G.
  exists a. split; [reflexivity|exact G].
Qed.

Lemma guarded_access : forall tk, tok_guarded tk = true -> (writer_tok tk || reader_tok tk) = true ->
  exists a, (forall p h, next_held (tk :: p, h) = Some a) /\ holds Mu a = true.
Proof.
  intros tk G W. destruct tk as [l m|l|l|c a|f a|y| | |]; try discriminate.
  - unfold writer_tok, reader_tok in W. unfold tok_guarded in G.
    exists a. split; [reflexivity|].
    destruct (mem_str c writer_calls) eqn:Ew; [apply holds_ex_holds, G|].
    rewrite orb_false_l, andb_true_l in W. rewrite W in G. exact G.
  - unfold writer_tok, reader_tok in W. unfold tok_guarded in G.
    rewrite orb_false_l in W. rewrite W in G. exists a. split; [reflexivity|exact G].
Qed.

(* Two different threads with honest programs are never at a writer access and at any (writer or
   reader) access of the shared state at the same time, provided both accesses are guarded the way
   ShapeCheck.tok_guarded demands. *)
Corollary no_simultaneous_conflict : forall c0 c i j pi pj ti tj ri rj hi hj,
  initial c0 -> reachable c0 c -> i <> j ->
  nth_error c0 i = Some (pi, []) -> honest pi = true ->
  nth_error c0 j = Some (pj, []) -> honest pj = true ->
  nth_error c i = Some (ti :: ri, hi) -> nth_error c j = Some (tj :: rj, hj) ->
  tok_guarded ti = true -> tok_guarded tj = true ->
  writer_tok ti = true -> (writer_tok tj || reader_tok tj) = true ->
  False.
Proof.
  intros c0 c i j pi pj ti tj ri rj hi hj Hi R Hij H0i Hhi H0j Hhj Hni Hnj Gi Gj Wi Aj.
  destruct (guarded_writer ti Gi Wi) as [ai [Nai Hai]].
  destruct (guarded_access tj Gj Aj) as [aj [Naj Haj]].
  destruct (conflict_free c0 c i pi _ ai Hi R H0i Hhi Hni (Nai ri hi)) as [C1 _].
  pose proof (C1 Hai j _ (not_eq_sym Hij) Hnj) as Hfree. simpl in Hfree.
  (* but thread j really holds Mu *)
  destruct (reachable_thread thonest tstep_thonest c0 c R j (pj, []) H0j Hhj) as [t [Ht Hth]].
  rewrite Hnj in Ht. injection Ht as <-.
  pose proof (thonest_next _ _ Hth (Naj rj hj)) as E. simpl in E. subst aj.
  rewrite holds_rev in Haj. congruence.
Qed.

(* ------------------------------------------------------------------------------------------- *)
(** * 8. Deadlock freedom *)

Lemma order_acq_rank : forall hs x m p y,
  order_ok hs (Acq x m :: p) = true -> In y hs -> rank y < rank x.
Proof.
  intros hs x m p y H Hin. rewrite order_ok_acq in H. apply andb_true_iff in H. destruct H as [H _].
  rewrite forallb_forall in H. apply Nat.ltb_lt. apply H, Hin.
Qed.

Lemma order_acq_not_held : forall h x m p, order_ok (map fst h) (Acq x m :: p) = true -> holds x h = false.
Proof.
  intros h x m p H. destruct (holds x h) eqn:E; [|reflexivity].
  apply holds_in in E. pose proof (order_acq_rank _ _ _ _ _ H E). lia.
Qed.

(* a thread that cannot execute its Acq: some OTHER thread holds that lock *)
Lemma blocked_holder : forall (c : conf) i l m p h,
  nth_error c i = Some (Acq l m :: p, h) -> twf (Acq l m :: p, h) -> step c i = None ->
  exists j tj, j <> i /\ nth_error c j = Some tj /\ holds l (snd tj) = true.
Proof.
  intros c i l m p h Hn [HO _] S. cbn [fst snd] in HO. unfold step in S. rewrite Hn in S.
  pose proof (order_acq_not_held _ _ _ _ HO) as Hself.
  unfold tstep in S; simpl in S. destruct m.
  - destruct (oth_ex c i l || holds_ex l h) eqn:E; [|discriminate].
    apply orb_true_iff in E. destruct E as [E|E].
    + apply any_other_true in E. destruct E as [j [tj [Hj [Hnj Hf]]]].
      exists j, tj. split; [exact Hj|]. split; [exact Hnj|apply holds_ex_holds, Hf].
    + apply holds_ex_holds in E. congruence.
  - destruct (oth_any c i l || holds l h) eqn:E; [|discriminate].
    apply orb_true_iff in E. destruct E as [E|E]; [|congruence].
    apply any_other_true in E. destruct E as [j [tj [Hj [Hnj Hf]]]].
    exists j, tj. auto.
Qed.

Lemma nonacq_can_step : forall (c : conf) i tk p h,
  nth_error c i = Some (tk :: p, h) -> (forall l m, tk <> Acq l m) -> exists c', step c i = Some c'.
Proof.
  intros c i tk p h Hn Hna.
  destruct (tstep_nonacq (oth_any c i) (oth_ex c i) tk p h Hna) as [t' T].
  exists (upd c i t'). unfold step. rewrite Hn, T. reflexivity.
Qed.

(* the classic argument, by induction on the distance of the awaited lock's rank from the top: a
   blocked thread waits for a lock whose holder can only wait for a lock of strictly higher rank *)
Lemma waits_for_chain : forall c, Forall twf c ->
  forall n i l m p h, nth_error c i = Some (Acq l m :: p, h) -> 3 <= rank l + n ->
  exists j c', step c j = Some c'.
Proof.
  intros c HF n; induction n as [|n IH]; intros i l m p h Hn Hr.
  - pose proof (rank_le_2 l). lia.
  - destruct (step c i) as [c'|] eqn:S; [exists i, c'; exact S|].
    pose proof (Forall_nth _ _ _ _ HF Hn) as Hwf.
    destruct (blocked_holder _ _ _ _ _ _ Hn Hwf S) as [j [[pj hj] [Hj [Hnj Hh]]]]. simpl in Hh.
    pose proof (Forall_nth _ _ _ _ HF Hnj) as [HOj HBj]. simpl in HOj, HBj.
    destruct pj as [|tk pj].
    + apply balanced_nil in HBj. subst hj. discriminate.
    + destruct (is_acq tk) eqn:Ek.
      * destruct tk as [l' m'|l'|l'|c0 a|f a|y| | |]; try discriminate.
        apply (IH j l' m' pj hj Hnj).
        pose proof (order_acq_rank _ _ _ _ _ HOj (holds_in _ _ Hh)). lia.
      * assert (Hna : forall l' m', tk <> Acq l' m') by (intros l' m' ->; discriminate).
        destruct (nonacq_can_step c j tk pj hj Hnj Hna) as [c' S'].
        exists j, c'. exact S'.
Qed.

(* the invariant form: any configuration all of whose threads are well-formed w.r.t. what they hold *)
Lemma wf_can_step : forall c, Forall twf c ->
  (exists t, In t c /\ fst t <> []) -> exists i c', step c i = Some c'.
Proof.
  intros c HF [[p h] [Hin Hne]]. simpl in Hne.
  apply In_nth_error in Hin. destruct Hin as [i Hn].
  destruct p as [|tk p]; [contradiction|].
  destruct (is_acq tk) eqn:Ek.
  - destruct tk as [l m|l|l|c0 a|f a|y| | |]; try discriminate.
    apply (waits_for_chain c HF 3 i l m p h Hn). lia.
  - assert (Hna : forall l m, tk <> Acq l m) by (intros l m ->; discriminate).
    destruct (nonacq_can_step c i tk p h Hn Hna) as [c' S'].
    exists i, c'. exact S'.
Qed.

Definition wf_program (p : list tok) : bool := order_ok [] p && balanced p.

Lemma initial_twf : forall c, initial c -> (forall t, In t c -> wf_program (fst t) = true) -> Forall twf c.
Proof.
  intros c Hi Hp. apply Forall_forall. intros [p h] Hin.
  pose proof (Hi _ Hin) as E. simpl in E. subst h.
  pose proof (Hp _ Hin) as W. unfold wf_program in W. simpl in W. apply andb_true_iff in W.
  unfold twf; simpl. exact W.
Qed.

Theorem deadlock_free : forall c0 c,
  initial c0 -> (forall t, In t c0 -> order_ok [] (fst t) = true /\ balanced (fst t) = true) ->
  reachable c0 c ->
  (exists t, In t c /\ fst t <> []) ->
  exists i c', step c i = Some c'.
Proof.
  intros c0 c Hi Hp R Hne. apply wf_can_step; [|exact Hne].
  apply (reachable_Forall twf tstep_twf c0 c); [|exact R].
  apply initial_twf; [exact Hi|]. intros t Hin. unfold wf_program. apply andb_true_iff. apply Hp, Hin.
Qed.

(* what [order_ok] and [balanced] mean for a running thread: it only ever waits for a lock of
   strictly higher rank than everything it holds, and it tries (TryLock) only empty-handed, so
   that giving up leaves nothing locked *)
Theorem waits_only_upwards : forall c0 c i l m p h,
  initial c0 -> (forall t, In t c0 -> order_ok [] (fst t) = true /\ balanced (fst t) = true) ->
  reachable c0 c -> nth_error c i = Some (Acq l m :: p, h) ->
  forall l', holds l' h = true -> rank l' < rank l.
Proof.
  intros c0 c i l m p h Hi Hp R Hn l' Hh.
  assert (HF : Forall twf c).
  { apply (reachable_Forall twf tstep_twf c0 c); [|exact R].
    apply initial_twf; [exact Hi|]. intros t Hin. unfold wf_program. apply andb_true_iff. apply Hp, Hin. }
  destruct (Forall_nth _ _ _ _ HF Hn) as [HO _]. cbn [fst snd] in HO.
  exact (order_acq_rank _ _ _ _ _ HO (holds_in _ _ Hh)).
Qed.

Theorem try_only_empty_handed : forall c0 c i l p h,
  initial c0 -> (forall t, In t c0 -> order_ok [] (fst t) = true /\ balanced (fst t) = true) ->
  reachable c0 c -> nth_error c i = Some (TryAcq l :: p, h) -> h = [].
Proof.
  intros c0 c i l p h Hi Hp R Hn.
  assert (HF : Forall twf c).
  { apply (reachable_Forall twf tstep_twf c0 c); [|exact R].
    apply initial_twf; [exact Hi|]. intros t Hin. unfold wf_program. apply andb_true_iff. apply Hp, Hin. }
  destruct (Forall_nth _ _ _ _ HF Hn) as [_ HB]. cbn [fst snd] in HB. simpl in HB.
  destruct h; [reflexivity|discriminate].
Qed.

(* ------------------------------------------------------------------------------------------- *)
(** * 9. Progress: every run is finite, and a run that cannot be extended has finished *)

Definition size (c : conf) : nat := list_sum (map (fun t => List.length (fst t)) c).

Lemma size_upd : forall c i t t', nth_error c i = Some t ->
  size (upd c i t') + List.length (fst t) = size c + List.length (fst t').
Proof.
  unfold size. induction c as [|x c IH]; intros i t t' Hn; destruct i; simpl in *; try discriminate.
  - injection Hn as ->. lia.
  - pose proof (IH i t t' Hn). lia.
Qed.

Lemma step_size : forall c i c', step c i = Some c' -> size c' < size c.
Proof.
  intros c i c' S. apply step_inv in S. destruct S as [t [t' [Hn [T ->]]]].
  pose proof (size_upd c i t t' Hn). pose proof (tstep_shrinks _ _ _ _ T). lia.
Qed.

Lemma run_bounded : forall sch c c', run c sch = Some c' -> List.length sch + size c' <= size c.
Proof.
  induction sch as [|i sch IH]; intros c c' H; simpl in H.
  - injection H as ->. simpl. lia.
  - destruct (step c i) as [c1|] eqn:S; [|discriminate].
    pose proof (step_size _ _ _ S). pose proof (IH _ _ H). simpl. lia.
Qed.

Lemma run_reachable : forall sch c0 c c', reachable c0 c -> run c sch = Some c' -> reachable c0 c'.
Proof.
  induction sch as [|i sch IH]; intros c0 c c' R H; simpl in H.
  - injection H as <-. exact R.
  - destruct (step c i) as [c1|] eqn:S; [|discriminate].
    eapply IH; [|exact H]. eapply reach_step; eauto.
Qed.

Lemma done_or_not : forall c : conf, all_done c \/ exists t, In t c /\ fst t <> [].
Proof.
  induction c as [|[p h] c IH].
  - left. intros t [].
  - destruct p as [|tk p].
    + destruct IH as [IH|[t [Hin Hne]]].
      * left. intros t [<-|Hin]; [reflexivity|apply IH, Hin].
      * right. exists t. split; [right; exact Hin|exact Hne].
    + right. exists (tk :: p, h). split; [left; reflexivity|discriminate].
Qed.

Lemma wf_progress : forall n c, size c <= n -> Forall twf c ->
  exists sch c', run c sch = Some c' /\ all_done c'.
Proof.
  induction n as [|n IH]; intros c Hs HF.
  - destruct (done_or_not c) as [D|Hne]; [exists [], c; split; [reflexivity|exact D]|].
    destruct (wf_can_step c HF Hne) as [i [c1 S]]. pose proof (step_size _ _ _ S). lia.
  - destruct (done_or_not c) as [D|Hne]; [exists [], c; split; [reflexivity|exact D]|].
    destruct (wf_can_step c HF Hne) as [i [c1 S]]. pose proof (step_size _ _ _ S) as Hlt.
    assert (HF1 : Forall twf c1) by (eapply step_Forall; eauto using tstep_twf).
    destruct (IH c1 ltac:(lia) HF1) as [sch [c' [Hr Hd]]].
    exists (i :: sch), c'. split; [simpl; rewrite S; exact Hr|exact Hd].
Qed.

Definition wf_conf (c0 : conf) : Prop :=
  initial c0 /\ forall t, In t c0 -> order_ok [] (fst t) = true /\ balanced (fst t) = true.

Lemma wf_conf_reachable : forall c0 c, wf_conf c0 -> reachable c0 c -> Forall twf c.
Proof.
  intros c0 c [Hi Hp] R. apply (reachable_Forall twf tstep_twf c0 c); [|exact R].
  apply initial_twf; [exact Hi|]. intros t Hin. unfold wf_program. apply andb_true_iff. apply Hp, Hin.
Qed.

(* from every reachable configuration the system can be driven to completion ... *)
Theorem progress : forall c0 c, wf_conf c0 -> reachable c0 c ->
  exists sch c', run c sch = Some c' /\ all_done c'.
Proof.
  intros c0 c W R. apply (wf_progress (size c) c (le_n _)). eapply wf_conf_reachable; eauto.
Qed.

(* ... and it is not a matter of choosing the schedule well: no run is longer than the total
   program text, and whenever no thread can move any more, all threads have finished.  Hence
   under every schedule that keeps stepping enabled threads (in particular every fair one) every
   thread finishes. *)
Theorem every_maximal_run_finishes : forall c0 sch c, wf_conf c0 ->
  run c0 sch = Some c ->
  List.length sch <= size c0 /\ ((forall i, step c i = None) -> all_done c).
Proof.
  intros c0 sch c W Hr. split.
  - pose proof (run_bounded _ _ _ Hr). lia.
  - intros Hstuck. destruct (done_or_not c) as [D|Hne]; [exact D|].
    assert (R : reachable c0 c) by (eapply run_reachable; [apply reach_refl|exact Hr]).
    destruct W as [Hi Hp].
    destruct (deadlock_free c0 c Hi Hp R Hne) as [i [c' S]]. rewrite Hstuck in S. discriminate.
Qed.

(* ------------------------------------------------------------------------------------------- *)
(** * 10. Writer preference does not matter

   Go's RWMutex blocks a new reader as soon as a writer has *announced* itself.  [step_wp] is the
   most pessimistic reading of that: a thread may not take l shared while ANY other thread stands at
   [Acq l Ex], whether it has announced itself yet or not.  Real executions lie between the two
   semantics: they enable at least what [step_wp] enables, at most what [step] enables, with the
   same effect.  So every configuration they reach is reachable for [step], and there some thread
   is enabled even for [step_wp]. *)

Definition wants_sh (t : thread) : option lk :=
  match fst t with Acq l Sh :: _ => Some l | _ => None end.
Definition wants_ex (l : lk) (t : thread) : bool :=
  match fst t with Acq l' Ex :: _ => lk_eqb l' l | _ => false end.
Definition pending_writer (c : conf) (i : nat) (l : lk) : bool := any_other (wants_ex l) i c.

Definition step_wp (c : conf) (i : nat) : option conf :=
  match nth_error c i with
  | None => None
  | Some t =>
      match wants_sh t with
      | Some l => if pending_writer c i l then None else step c i
      | None => step c i
      end
  end.

Lemma step_wp_step : forall c i c', step_wp c i = Some c' -> step c i = Some c'.
Proof.
  unfold step_wp; intros c i c' H. destruct (nth_error c i) as [t|]; [|discriminate].
  destruct (wants_sh t) as [l|]; [|exact H]. destruct (pending_writer c i l); [discriminate|exact H].
Qed.

Lemma step_wp_not_sh : forall (c : conf) i tk p h, nth_error c i = Some (tk :: p, h) ->
  (forall l, tk <> Acq l Sh) -> step_wp c i = step c i.
Proof.
  intros c i tk p h Hn Hne. unfold step_wp. rewrite Hn. unfold wants_sh; simpl.
  destruct tk as [l m|l|l|c0 a|f a|y| | |]; try reflexivity.
  destruct m; [|reflexivity]. exfalso. eapply Hne; reflexivity.
Qed.

Section WriterPreference.
  Variable c : conf.
  Hypothesis HF : Forall twf c.

  Definition waiter_ok (n : nat) : Prop :=
    forall i l m p h, nth_error c i = Some (Acq l m :: p, h) -> 3 <= rank l + n ->
    exists j c', step_wp c j = Some c'.

  (* a thread that holds l and whose own waiting is covered by [waiter_ok n] *)
  Lemma holder_moves : forall n, waiter_ok n ->
    forall j tj l, nth_error c j = Some tj -> holds l (snd tj) = true -> 3 <= rank l + S n ->
    exists k c', step_wp c k = Some c'.
  Proof.
    intros n HW j [pj hj] l Hnj Hh Hr. simpl in Hh.
    pose proof (Forall_nth _ _ _ _ HF Hnj) as [HOj HBj]. simpl in HOj, HBj.
    destruct pj as [|tk pj].
    - apply balanced_nil in HBj. subst hj. discriminate.
    - destruct (is_acq tk) eqn:Ek.
      + destruct tk as [l' m'|l'|l'|c0 a|f a|y| | |]; try discriminate.
        apply (HW j l' m' pj hj Hnj).
        pose proof (order_acq_rank _ _ _ _ _ HOj (holds_in _ _ Hh)). lia.
      + assert (Hna : forall l' m', tk <> Acq l' m') by (intros l' m' ->; discriminate).
        destruct (nonacq_can_step c j tk pj hj Hnj Hna) as [c' S'].
        exists j, c'. rewrite (step_wp_not_sh c j tk pj hj Hnj); [exact S'|]. intros l0; apply Hna.
  Qed.

  Lemma waiter_ok_all : forall n, waiter_ok n.
  Proof.
    induction n as [|n IH]; intros i l m p h Hn Hr.
    - pose proof (rank_le_2 l). lia.
    - pose proof (Forall_nth _ _ _ _ HF Hn) as Hwf.
      destruct (step c i) as [c'|] eqn:S.
      + (* enabled for [step]; only a pending writer can hold it back *)
        destruct (step_wp c i) as [c''|] eqn:SW; [exists i, c''; exact SW|].
        unfold step_wp in SW. rewrite Hn in SW. unfold wants_sh in SW; simpl in SW.
        destruct m; [|congruence].
        destruct (pending_writer c i l) eqn:PW; [|congruence].
        apply any_other_true in PW. destruct PW as [w [[pw hw] [Hw [Hnw Hwant]]]].
        unfold wants_ex in Hwant; simpl in Hwant.
        destruct pw as [|tw pw]; [discriminate|].
        destruct tw as [lw mw|lw|lw|c0 a|f a|y| | |]; try discriminate.
        destruct mw; [discriminate|]. apply lk_eqb_eq in Hwant. subst lw.
        (* the writer itself: enabled, or blocked by a holder of l *)
        destruct (step c w) as [cw|] eqn:Sw.
        * exists w, cw. rewrite (step_wp_not_sh c w _ _ _ Hnw); [exact Sw|]. intros l0; discriminate.
        * pose proof (Forall_nth _ _ _ _ HF Hnw) as Hwfw.
          destruct (blocked_holder _ _ _ _ _ _ Hnw Hwfw Sw) as [j [tj [Hj [Hnj Hh]]]].
          exact (holder_moves n IH j tj l Hnj Hh Hr).
      + destruct (blocked_holder _ _ _ _ _ _ Hn Hwf S) as [j [tj [Hj [Hnj Hh]]]].
        exact (holder_moves n IH j tj l Hnj Hh Hr).
  Qed.

  Lemma wf_can_step_wp : (exists t, In t c /\ fst t <> []) -> exists i c', step_wp c i = Some c'.
  Proof.
    intros [[p h] [Hin Hne]]. simpl in Hne.
    apply In_nth_error in Hin. destruct Hin as [i Hn].
    destruct p as [|tk p]; [contradiction|].
    destruct (is_acq tk) eqn:Ek.
    - destruct tk as [l m|l|l|c0 a|f a|y| | |]; try discriminate.
      apply (waiter_ok_all 3 i l m p h Hn). lia.
    - assert (Hna : forall l m, tk <> Acq l m) by (intros l m ->; discriminate).
      destruct (nonacq_can_step c i tk p h Hn Hna) as [c' S'].
      exists i, c'. rewrite (step_wp_not_sh c i tk p h Hn); [exact S'|]. intros l0; apply Hna.
  Qed.
End WriterPreference.

Theorem deadlock_free_writer_preference : forall c0 c, wf_conf c0 -> reachable c0 c ->
  (exists t, In t c /\ fst t <> []) ->
  exists i c', step_wp c i = Some c' /\ step c i = Some c'.
Proof.
  intros c0 c W R Hne.
  destruct (wf_can_step_wp c (wf_conf_reachable _ _ W R) Hne) as [i [c' S]].
  exists i, c'. split; [exact S|apply step_wp_step, S].
Qed.

(* ------------------------------------------------------------------------------------------- *)
(** * 11. Loops and skipped branches

   The translator walks a loop body once.  A run of the code executes it any number of times, or
   not at all.  Well-formedness survives that whenever the segment is lock-neutral -- what is held
   after it is what was held before it -- so all theorems above apply to the unrolled programs. *)

(* what is held after running [p] to its end (every TryAcq successful) *)
Fixpoint after (h : hset) (p : list tok) : hset :=
  match p with
  | [] => h
  | Acq x m :: p' => after ((x, m) :: h) p'
  | TryAcq x :: p' => after ((x, Ex) :: h) p'
  | Rel x :: p' => after (rm x h) p'
  | _ :: p' => after h p'
  end.

(* [balanced_from] without the requirement that nothing is held at the end *)
Fixpoint balanced_pre (h : hset) (p : list tok) : bool :=
  match p with
  | [] => true
  | Acq x m :: p' => balanced_pre ((x, m) :: h) p'
  | TryAcq x :: p' => match h with [] => balanced_pre [(x, Ex)] p' | _ => false end
  | Rel x :: p' => holds x h && balanced_pre (rm x h) p'
  | _ :: p' => balanced_pre h p'
  end.

Lemma after_app : forall p q h, after h (p ++ q) = after (after h p) q.
Proof.
  induction p as [|tk p IH]; intros q h; [reflexivity|].
  destruct tk; simpl; apply IH.
Qed.

Lemma order_ok_app : forall p q h,
  order_ok (map fst h) (p ++ q) = order_ok (map fst h) p && order_ok (map fst (after h p)) q.
Proof.
  induction p as [|tk p IH]; intros q h; [reflexivity|].
  rewrite <- app_comm_cons.
  destruct tk as [l m|l|l|c a|f a|y| | |];
    try (rewrite !order_ok_other by reflexivity; exact (IH q h)).
  - rewrite !order_ok_acq. rewrite <- andb_assoc. f_equal. exact (IH q ((l, m) :: h)).
  - rewrite !order_ok_try. exact (IH q ((l, Ex) :: h)).
  - rewrite !order_ok_rel. rewrite <- map_fst_rm. exact (IH q (rm l h)).
Qed.

Lemma balanced_app : forall p q h,
  balanced_from h (p ++ q) = balanced_pre h p && balanced_from (after h p) q.
Proof.
  induction p as [|tk p IH]; intros q h; [reflexivity|].
  destruct tk as [l m|l|l|c a|f a|y| | |]; simpl; try apply IH.
  - destruct h; [apply IH|reflexivity].
  - rewrite <- andb_assoc. f_equal. apply IH.
Qed.

Lemma balanced_pre_app : forall p q h,
  balanced_pre h (p ++ q) = balanced_pre h p && balanced_pre (after h p) q.
Proof.
  induction p as [|tk p IH]; intros q h; [reflexivity|].
  destruct tk as [l m|l|l|c a|f a|y| | |]; simpl; try apply IH.
  - destruct h; [apply IH|reflexivity].
  - rewrite <- andb_assoc. f_equal. apply IH.
Qed.

Lemma honest_app : forall p q h,
  honest_from h (p ++ q) = honest_from h p && honest_from (after h p) q.
Proof.
  induction p as [|tk p IH]; intros q h; [reflexivity|].
  destruct tk as [l m|l|l|c a|f a|y| | |]; simpl; try apply IH;
    rewrite <- andb_assoc; f_equal; apply IH.
Qed.

(* all four checks, from a given set of holds *)
Definition wf_from (h : hset) (p : list tok) : bool :=
  order_ok (map fst h) p && balanced_from h p && honest_from h p && forallb tok_guarded p.
(* ... for a segment in the middle *)
Definition seg_ok (h : hset) (p : list tok) : bool :=
  order_ok (map fst h) p && balanced_pre h p && honest_from h p && forallb tok_guarded p.

Lemma wf_from_app : forall h p q, wf_from h (p ++ q) = true <-> seg_ok h p = true /\ wf_from (after h p) q = true.
Proof.
  intros h p q. unfold wf_from, seg_ok.
  rewrite order_ok_app, balanced_app, honest_app, forallb_app.
  rewrite !andb_true_iff. tauto.
Qed.

Lemma seg_ok_app : forall h p q, seg_ok h (p ++ q) = true <-> seg_ok h p = true /\ seg_ok (after h p) q = true.
Proof.
  intros h p q. unfold seg_ok.
  rewrite order_ok_app, balanced_pre_app, honest_app, forallb_app.
  rewrite !andb_true_iff. tauto.
Qed.

Definition times (n : nat) (body : list tok) : list tok := List.concat (repeat body n).

Lemma seg_ok_times : forall h body n, after h body = h -> seg_ok h body = true ->
  seg_ok h (times n body) = true /\ after h (times n body) = h.
Proof.
  intros h body n Hn Hb. induction n as [|n [IH1 IH2]]; [split; reflexivity|].
  unfold times in *. simpl. split.
  - apply seg_ok_app. rewrite Hn. auto.
  - rewrite after_app, Hn. exact IH2.
Qed.

(* a lock-neutral segment may be executed any number of times (also zero) *)
Theorem wf_repeat : forall h pre body post n,
  after (after h pre) body = after h pre ->
  wf_from h (pre ++ body ++ post) = true -> wf_from h (pre ++ times n body ++ post) = true.
Proof.
  intros h pre body post n Hn H.
  apply wf_from_app in H. destruct H as [Hpre H]. apply wf_from_app in H. destruct H as [Hb Hpost].
  rewrite Hn in Hpost.
  destruct (seg_ok_times _ _ n Hn Hb) as [Hbn Han].
  apply wf_from_app. split; [exact Hpre|]. apply wf_from_app. split; [exact Hbn|].
  rewrite Han. exact Hpost.
Qed.

(* the programs obtained from [p] by repeating / skipping lock-neutral segments, in any nesting *)
Inductive unrolls (p : list tok) : list tok -> Prop :=
| unroll_refl : unrolls p p
| unroll_rep : forall pre body post n,
    unrolls p (pre ++ body ++ post) -> after (after [] pre) body = after [] pre ->
    unrolls p (pre ++ times n body ++ post).

Theorem unrolls_wf : forall p q, unrolls p q -> wf_from [] p = true -> wf_from [] q = true.
Proof.
  intros p q U H. induction U as [|pre body post n U IH Hn]; [exact H|].
  apply wf_repeat; [exact Hn|exact IH].
Qed.

(* every Loop ... EndLoop segment of a list, as (before, segment, after) *)
Fixpoint match_end (depth : nat) (p : list tok) : option (list tok * list tok) :=
  match p with
  | [] => None
  | EndLoop :: p' =>
      match depth with
      | 0 => Some ([EndLoop], p')
      | S d => match match_end d p' with Some (b, r) => Some (EndLoop :: b, r) | None => None end
      end
  | Loop :: p' => match match_end (S depth) p' with Some (b, r) => Some (Loop :: b, r) | None => None end
  | t :: p' => match match_end depth p' with Some (b, r) => Some (t :: b, r) | None => None end
  end.
Fixpoint loop_segments (pre p : list tok) : list (list tok * list tok * list tok) :=
  match p with
  | [] => []
  | Loop :: p' =>
      match match_end 0 p' with Some (b, r) => [(pre, Loop :: b, r)] | None => [] end ++
      loop_segments (pre ++ [Loop]) p'
  | t :: p' => loop_segments (pre ++ [t]) p'
  end.
Definition count_loops (p : list tok) : nat :=
  List.length (filter (fun t => match t with Loop => true | _ => false end) p).
(* every Loop has its EndLoop, and every loop is lock-neutral *)
Definition loops_neutral (p : list tok) : bool :=
  Nat.eqb (List.length (loop_segments [] p)) (count_loops p) &&
  forallb (fun s => match s with (pre, b, _) => held_eqb (after [] (pre ++ b)) (after [] pre) end)
          (loop_segments [] p).

(* ------------------------------------------------------------------------------------------- *)
(** * 12. The regenerated shapes

   Every entry of [shape_table] is well-formed as it stands, except DB_Compact: *)

Definition checks (p : list tok) : bool := order_ok [] p && balanced p && honest p.

Theorem shape_table_ok_except_Compact :
  forallb (fun e => checks (snd e)) (filter (fun e => negb (String.eqb (fst e) "DB_Compact")) shape_table) = true.
Proof. vm_compute. reflexivity. Qed.

Theorem DB_Compact_linearisation_not_balanced : balanced (lookup "DB_Compact") = false.
Proof. vm_compute. reflexivity. Qed.

(* Why: the translator walks the branches of an [if] one after the other.  DB.Compact contains
       for _, seg := range segments {
         if err := db.datalog.sealSegment(seg); err != nil { db.mu.Unlock(); return cr, err }
       }
       db.mu.Unlock()
   which is linearised to  ... Call sealSegment; Rel Mu; EndLoop; Rel Mu ...: the first [Rel Mu]
   belongs to the error return, the second to the normal path, and no execution performs both.
   (ShapeCheck.order_ok and the [held] annotations tolerate this: releasing a lock that is not held
   is a no-op for them.)  The two executions are recovered from the regenerated list here: the
   normal path drops the early-return release; the error path stops after it and runs the deferred
   maintenanceMu.Unlock().  All three have the same sequence of lock operations. *)

Fixpoint remove_first_rel (x : lk) (p : list tok) : list tok :=
  match p with
  | [] => []
  | Rel y :: p' => if lk_eqb y x then p' else Rel y :: remove_first_rel x p'
  | t :: p' => t :: remove_first_rel x p'
  end.
Fixpoint upto_first_rel (x : lk) (p : list tok) : list tok :=
  match p with
  | [] => []
  | Rel y :: p' => if lk_eqb y x then [Rel y] else Rel y :: upto_first_rel x p'
  | t :: p' => t :: upto_first_rel x p'
  end.

Definition prog_Compact_main : list tok := remove_first_rel Mu (lookup "DB_Compact").
Definition prog_Compact_sealerr : list tok := upto_first_rel Mu (lookup "DB_Compact") ++ [Rel MaintMu].

Example prog_Compact_main_is :
  prog_Compact_main =
  [TryAcq MaintMu; Acq Mu Ex;
   Call "db.pickForCompaction" [(MaintMu, Ex); (Mu, Ex)];
   Loop; Call "db.datalog.sealSegment" [(MaintMu, Ex); (Mu, Ex)]; EndLoop;
   Rel Mu; Yield "compact.picked";
   Loop; Call "db.compact" [(MaintMu, Ex)]; EndLoop;
   Rel MaintMu].
Proof. vm_compute. reflexivity. Qed.

Example prog_Compact_sealerr_is :
  prog_Compact_sealerr =
  [TryAcq MaintMu; Acq Mu Ex;
   Call "db.pickForCompaction" [(MaintMu, Ex); (Mu, Ex)];
   Loop; Call "db.datalog.sealSegment" [(MaintMu, Ex); (Mu, Ex)];
   Rel Mu; Rel MaintMu].
Proof. vm_compute. reflexivity. Qed.

Definition lockops (p : list tok) : list tok := filter is_lockop p.
Example Compact_paths_same_lockops :
  lockops prog_Compact_main = [TryAcq MaintMu; Acq Mu Ex; Rel Mu; Rel MaintMu] /\
  lockops prog_Compact_sealerr = lockops prog_Compact_main.
Proof. vm_compute. split; reflexivity. Qed.

(* db.compact is the one callee that takes a lock itself (db.mu, once per record, while its caller
   holds maintenanceMu): inline it where it is called; the annotations of the inlined body are
   extended by what the caller holds at the call *)
Definition add_held (h : hset) (t : tok) : tok :=
  match t with
  | Call c a => Call c (h ++ a)
  | Field f a => Field f (h ++ a)
  | t => t
  end.
Fixpoint inline (c : string) (body : list tok) (p : list tok) : list tok :=
  match p with
  | [] => []
  | Call c' a :: p' =>
      if String.eqb c c' then Call c' a :: map (add_held a) body ++ inline c body p'
      else Call c' a :: inline c body p'
  | t :: p' => t :: inline c body p'
  end.

Definition prog_Compact_full : list tok := inline "db.compact" (lookup "DB_compact") prog_Compact_main.

(* the background goroutine: Sync and Compact in a loop, holding nothing in between *)
Definition prog_worker : list tok :=
  inline "db.Sync" (lookup "DB_Sync")
    (inline "db.Compact" prog_Compact_full (lookup "DB_startBackgroundWorker")).

Example prog_Compact_full_lockops :
  lockops prog_Compact_full =
  [TryAcq MaintMu; Acq Mu Ex; Rel Mu;
   Acq Mu Ex; Rel Mu; Acq Mu Ex; Rel Mu; Acq Mu Ex; Rel Mu;   (* db.compact *)
   Rel MaintMu] /\
  lockops prog_worker = Acq Mu Ex :: Rel Mu :: lockops prog_Compact_full.
Proof. vm_compute. split; reflexivity. Qed.

(* what a thread may run: any public method (DB_Compact: either path, or with db.compact inlined;
   DB_compact on its own is covered as well), or the background worker *)
Definition pogreb_programs : list (string * list tok) :=
  map (fun n => (n, lookup n)) (filter (fun n => negb (String.eqb n "DB_Compact")) api) ++
  [("DB_Compact (normal path)", prog_Compact_main);
   ("DB_Compact (sealSegment failed)", prog_Compact_sealerr);
   ("DB_Compact (db.compact inlined)", prog_Compact_full);
   ("background worker", prog_worker)].

Theorem pogreb_programs_ok :
  forallb (fun e => order_ok [] (snd e) && balanced (snd e)) pogreb_programs = true.
Proof. vm_compute. reflexivity. Qed.

Theorem pogreb_programs_honest_guarded :
  forallb (fun e => honest (snd e) && forallb tok_guarded (snd e)) pogreb_programs = true.
Proof. vm_compute. reflexivity. Qed.

Example pogreb_programs_names :
  map fst pogreb_programs =
  ["DB_Get"; "DB_GetAppend"; "DB_Has"; "DB_Put"; "DB_Delete"; "DB_Sync"; "DB_Count"; "DB_Close";
   "DB_compact"; "DB_Backup"; "ItemIterator_Next";
   "DB_Compact (normal path)"; "DB_Compact (sealSegment failed)"; "DB_Compact (db.compact inlined)";
   "background worker"] /\
  forallb (fun e => negb (match snd e with [] => true | _ => false end)) pogreb_programs = true.
Proof. vm_compute. split; reflexivity. Qed.

(* every loop of these programs is closed and lock-neutral, so [unrolls] covers any number of
   iterations of any of them.  (The error path of DB_Compact leaves its loop by [return]; the
   iterations before the failing one are repetitions of the lock-neutral sealSegment call.) *)
Theorem pogreb_loops_neutral :
  forallb (fun e => loops_neutral (snd e))
          (filter (fun e => negb (String.eqb (fst e) "DB_Compact (sealSegment failed)")) pogreb_programs) = true.
Proof. vm_compute. reflexivity. Qed.

Example compact_record_loop_unrolls : forall n,
  exists pre body post,
    loop_segments [] (lookup "DB_compact") = [(pre, body, post)] /\
    lookup "DB_compact" = pre ++ body ++ post /\
    unrolls (lookup "DB_compact") (pre ++ times n body ++ post).
Proof.
  intros n. eexists; eexists; eexists. split; [vm_compute; reflexivity|]. split; [vm_compute; reflexivity|].
  apply unroll_rep; [apply unroll_refl|vm_compute; reflexivity].
Qed.

(* an initial configuration of the system: every thread holds nothing and runs one of the programs
   above, its lock-neutral segments (loops) repeated or skipped at will.  A failing TryLock inside
   the worker's loop is the unrolling that skips that Compact; at top level it ends the thread. *)
Definition runs_pogreb (c0 : conf) : Prop :=
  forall t, In t c0 -> snd t = [] /\ exists p, In p (map snd pogreb_programs) /\ unrolls p (fst t).

Lemma pogreb_program_props : forall p, In p (map snd pogreb_programs) -> wf_from [] p = true.
Proof.
  intros p Hin. apply in_map_iff in Hin. destruct Hin as [e [<- Hin]].
  pose proof pogreb_programs_ok as H1. pose proof pogreb_programs_honest_guarded as H2.
  rewrite forallb_forall in H1, H2. specialize (H1 e Hin). specialize (H2 e Hin).
  apply andb_true_iff in H1. apply andb_true_iff in H2. destruct H1 as [H1 H1']. destruct H2 as [H2 H2'].
  unfold wf_from. cbn [map]. unfold balanced in H1'. unfold honest in H2.
  rewrite H1, H1', H2, H2'. reflexivity.
Qed.

Lemma runs_pogreb_props : forall c0 t, runs_pogreb c0 -> In t c0 ->
  snd t = [] /\ order_ok [] (fst t) = true /\ balanced (fst t) = true /\
  honest (fst t) = true /\ forallb tok_guarded (fst t) = true.
Proof.
  intros c0 t H Hin. destruct (H t Hin) as [E [p [Hp U]]]. split; [exact E|].
  pose proof (unrolls_wf _ _ U (pogreb_program_props _ Hp)) as W.
  unfold wf_from in W. cbn [map] in W. rewrite !andb_true_iff in W. unfold balanced, honest. tauto.
Qed.

Lemma runs_pogreb_wf : forall c0, runs_pogreb c0 -> wf_conf c0.
Proof.
  intros c0 H. split.
  - intros t Hin. destruct (runs_pogreb_props c0 t H Hin) as [E _]. exact E.
  - intros t Hin. pose proof (runs_pogreb_props c0 t H Hin). tauto.
Qed.

(* any number of threads, each running any of the public methods (or the worker), all schedules:
   as long as somebody has something left to do, somebody can move -- also under writer
   preference -- and when nobody can move, everybody has returned *)
Theorem pogreb_deadlock_free : forall c0 c, runs_pogreb c0 -> reachable c0 c ->
  ((exists t, In t c /\ fst t <> []) ->
     exists i c', step c i = Some c' /\ step_wp c i = Some c') /\
  ((forall i, step c i = None) -> all_done c) /\
  (exists sch c', run c sch = Some c' /\ all_done c').
Proof.
  intros c0 c H R. pose proof (runs_pogreb_wf _ H) as W. split; [|split].
  - intros Hne. destruct (deadlock_free_writer_preference c0 c W R Hne) as [i [c' [S1 S2]]].
    exists i, c'. auto.
  - intros Hstuck. destruct (done_or_not c) as [D|Hne]; [exact D|].
    destruct W as [Hi Hp]. destruct (deadlock_free c0 c Hi Hp R Hne) as [i [c' S]].
    rewrite Hstuck in S. discriminate.
  - eapply progress; eauto.
Qed.

(* the invariant form of the conflict argument *)
Lemma conflict_core : forall (c : conf) i j ti tj ri rj hi hj,
  ME c -> i <> j ->
  nth_error c i = Some (ti :: ri, hi) -> nth_error c j = Some (tj :: rj, hj) ->
  thonest (ti :: ri, hi) -> thonest (tj :: rj, hj) ->
  tok_guarded ti = true -> tok_guarded tj = true ->
  writer_tok ti = true -> (writer_tok tj || reader_tok tj) = true ->
  False.
Proof.
  intros c i j ti tj ri rj hi hj HME Hij Hni Hnj Hhi Hhj Gi Gj Wi Aj.
  destruct (guarded_writer ti Gi Wi) as [ai [Nai Hai]].
  destruct (guarded_access tj Gj Aj) as [aj [Naj Haj]].
  pose proof (thonest_next _ _ Hhi (Nai ri hi)) as Ei. cbn [snd] in Ei. subst ai.
  pose proof (thonest_next _ _ Hhj (Naj rj hj)) as Ej. cbn [snd] in Ej. subst aj.
  rewrite holds_ex_rev in Hai. rewrite holds_rev in Haj.
  pose proof (HME i j _ _ Mu Hij Hni Hnj Hai) as Hfree. cbn [snd] in Hfree. congruence.
Qed.

(* no two threads are ever at a writer access and at another access of the shared index / log
   state at the same time *)
Theorem pogreb_race_free : forall c0 c i j ti tj ri rj hi hj,
  runs_pogreb c0 -> reachable c0 c -> i <> j ->
  nth_error c i = Some (ti :: ri, hi) -> nth_error c j = Some (tj :: rj, hj) ->
  writer_tok ti = true -> (writer_tok tj || reader_tok tj) = true ->
  False.
Proof.
  intros c0 c i j ti tj ri rj hi hj H R Hij Hni Hnj Wi Aj.
  assert (Hi : initial c0) by (intros t Hin; destruct (H t Hin) as [E _]; exact E).
  assert (F0 : Forall (fun t => thonest t /\ tguarded t) c0).
  { apply Forall_forall. intros [p h] Hin.
    pose proof (runs_pogreb_props c0 _ H Hin) as [Eh Hp]. cbn [fst snd] in Eh, Hp. subst h.
    unfold thonest, tguarded, honest in *; cbn [fst snd]. tauto. }
  assert (F : Forall (fun t => thonest t /\ tguarded t) c).
  { apply (reachable_Forall _) with (c0 := c0); [|exact F0|exact R].
    intros oany oex t t' T [A B]. split; [eapply tstep_thonest|eapply tstep_tguarded]; eauto. }
  destruct (Forall_nth _ _ _ _ F Hni) as [Hhi Gi]. destruct (Forall_nth _ _ _ _ F Hnj) as [Hhj Gj].
  unfold tguarded in Gi, Gj. cbn [fst] in Gi, Gj. simpl in Gi, Gj.
  apply andb_true_iff in Gi. apply andb_true_iff in Gj.
  eapply (conflict_core c i j ti tj); eauto using reachable_ME; tauto.
Qed.

(* ------------------------------------------------------------------------------------------- *)
(** * 13. Close waits for the worker before it locks *)

Definition wait_call (c : string) : bool :=
  String.eqb c "db.cancelBgWorker" || String.eqb c "db.closeWg.Wait".
(* every call that waits for the worker is annotated "holds nothing" *)
Definition waits_unlocked (t : tok) : bool :=
  match t with
  | Call c a => if wait_call c then match a with [] => true | _ => false end else true
  | _ => true
  end.

Lemma tstep_forallb : forall (f : tok -> bool) oany oex t t',
  tstep oany oex t = Some t' -> forallb f (fst t) = true -> forallb f (fst t') = true.
Proof.
  intros f oany oex [p h] t' T H. simpl in H. apply tstep_cases in T.
  destruct T as [l p' -> -> E1 E2|l p' -> -> E1 E2|l p' -> -> E1 E2|l p' -> ->|l p' -> ->|tk p' -> -> E];
    cbn [fst snd]; try reflexivity; simpl in H; apply andb_true_iff in H; tauto.
Qed.

(* a thread with an honest program, whatever the others do: while it is at a call that waits for
   the worker and is annotated "holds nothing", it really holds nothing -- it cannot be the reason
   why the worker (which takes db.mu and maintenanceMu inside Sync / Compact) does not get there *)
Theorem waits_hold_nothing : forall c0 c i p0 cl a r h,
  initial c0 -> reachable c0 c ->
  nth_error c0 i = Some (p0, []) -> honest p0 = true -> forallb waits_unlocked p0 = true ->
  nth_error c i = Some (Call cl a :: r, h) -> wait_call cl = true ->
  h = [].
Proof.
  intros c0 c i p0 cl a r h Hi R H0 Hh Hw Hn Hcl.
  destruct (reachable_thread (fun t => thonest t /\ forallb waits_unlocked (fst t) = true)) with
    (c0 := c0) (c := c) (i := i) (t0 := (p0, @nil (lk * mode))) as [t [Ht [Hth Hwt]]]; auto.
  - intros oany oex t t' T [A B]. split; [eapply tstep_thonest|eapply tstep_forallb]; eauto.
  - rewrite Hn in Ht. injection Ht as <-.
    pose proof (thonest_next _ a Hth eq_refl) as E. cbn [snd] in E.
    cbn [fst] in Hwt. simpl in Hwt. apply andb_true_iff in Hwt. destruct Hwt as [Hwt _].
    rewrite Hcl in Hwt. destruct a; [|discriminate].
    destruct h as [|x h]; [reflexivity|]. simpl in E. symmetry in E. apply app_eq_nil in E.
    destruct E as [_ E]. discriminate.
Qed.

Lemma close_prefix_inv : forall p : list tok,
  match p with
  | Call "db.cancelBgWorker" [] :: Call "db.closeWg.Wait" [] :: Acq Mu Ex :: _ => true
  | _ => false
  end = true ->
  exists rest, p = Call "db.cancelBgWorker" [] :: Call "db.closeWg.Wait" [] :: Acq Mu Ex :: rest.
Proof.
  intros p H.
  repeat match type of H with
         | context [match ?x with _ => _ end] => is_var x; destruct x; try discriminate H
         end.
  eexists; reflexivity.
Qed.

(* From ShapeCheck.shape_close_order: DB.Close cancels the worker and waits for it first, then takes
   db.mu; these are its only waiting calls; and in every reachable configuration of any system in
   which thread i runs DB.Close, while it is at one of them it holds no lock. *)
Theorem close_waits_before_locking :
  (exists rest,
     lookup "DB_Close" =
       Call "db.cancelBgWorker" [] :: Call "db.closeWg.Wait" [] :: Acq Mu Ex :: rest /\
     forallb (fun t => match t with Call c _ => negb (wait_call c) | _ => true end) rest = true) /\
  (forall c0 c i cl a r h,
     initial c0 -> reachable c0 c ->
     nth_error c0 i = Some (lookup "DB_Close", []) ->
     nth_error c i = Some (Call cl a :: r, h) -> wait_call cl = true ->
     h = []).
Proof.
  split.
  - pose proof shape_close_order as H. unfold close_order_ok in H.
    apply andb_true_iff in H. destruct H as [_ H].
    destruct (close_prefix_inv (lookup "DB_Close") H) as [rest E]. exists rest. split; [exact E|].
    assert (Er : rest = skipn 3 (lookup "DB_Close")) by (rewrite E; reflexivity).
    rewrite Er. vm_compute. reflexivity.
  - intros c0 c i cl a r h Hi R H0 Hn Hcl.
    apply (waits_hold_nothing c0 c i (lookup "DB_Close") cl a r h); auto; vm_compute; reflexivity.
Qed.

(* ------------------------------------------------------------------------------------------- *)
(** * 14. Non-vacuity *)

Definition ex_conf : conf := [(lookup "DB_Put", []); (lookup "DB_Delete", []); (lookup "DB_Get", [])].

(* Put has taken db.mu; Delete and Get stand at their Lock / RLock and are blocked; Put can move *)
Example ex_blocked :
  exists c, run ex_conf [0; 0; 1; 2] = Some c /\
    nth_error c 0 = Some ([Call "db.datalog.put" [(Mu, Ex)]; Call "db.put" [(Mu, Ex)];
                           Call "db.sync" [(Mu, Ex)]; Rel Mu], [(Mu, Ex)]) /\
    option_map fst (nth_error c 1) = Some (skipn 1 (lookup "DB_Delete")) /\
    option_map fst (nth_error c 2) = Some (skipn 1 (lookup "DB_Get")) /\
    step c 1 = None /\ step c 2 = None /\ step c 0 <> None.
Proof. eexists. split; [vm_compute; reflexivity|]. vm_compute. repeat split; try reflexivity. discriminate. Qed.

(* a complete schedule of the three; every program becomes [] and nothing stays locked *)
Example ex_all_finish :
  run ex_conf [0; 0; 1; 2; 0; 0; 0; 0; 1; 1; 1; 1; 2; 2; 2; 2; 2] = Some [([], []); ([], []); ([], [])].
Proof. vm_compute. reflexivity. Qed.

(* another interleaving: the reader first, the writers wait for it *)
Example ex_reader_first :
  exists c, run ex_conf [2; 2; 0; 1] = Some c /\ step c 0 = None /\ step c 1 = None /\
    run c [2; 2; 2; 2; 1; 1; 1; 1; 0; 0; 0; 0; 0] = Some [([], []); ([], []); ([], [])].
Proof. eexists. split; [vm_compute; reflexivity|]. vm_compute. repeat split; reflexivity. Qed.

(* readers share: two Gets and an iterator hold db.mu at the same time *)
Example ex_readers_share :
  exists c, run [(lookup "DB_Get", []); (lookup "DB_Has", []); (lookup "ItemIterator_Next", [])]
                [0; 0; 1; 1; 2; 2] = Some c /\
    map snd c = [[(Mu, Sh)]; [(Mu, Sh)]; [(Mu, Sh); (ItMu, Ex)]].
Proof. eexists. split; vm_compute; reflexivity. Qed.

(* TryLock: the second Compact finds maintenanceMu taken and returns at once; Backup blocks on it *)
Example ex_trylock :
  exists c, run [(prog_Compact_full, []); (prog_Compact_full, []); (lookup "DB_Backup", [])] [0; 1] = Some c /\
    nth_error c 1 = Some ([], []) /\ step c 2 = None /\
    exists sch, run c sch = Some [([], []); ([], []); ([], [])].
Proof.
  eexists. split; [vm_compute; reflexivity|]. split; [vm_compute; reflexivity|].
  split; [vm_compute; reflexivity|].
  exists (repeat 0 (List.length prog_Compact_full - 1) ++ repeat 2 (List.length (lookup "DB_Backup"))).
  vm_compute. reflexivity.
Qed.

(* the theorems apply to these configurations *)
Example ex_conf_runs_pogreb : runs_pogreb ex_conf.
Proof.
  intros t Hin. split.
  - destruct Hin as [<-|[<-|[<-|[]]]]; reflexivity.
  - exists (fst t). split; [|apply unroll_refl].
    destruct Hin as [<-|[<-|[<-|[]]]]; vm_compute; tauto.
Qed.

(* the conflict the invariant excludes does occur once the discipline is broken: a Put that
   forgot to lock stands at its write while Get reads *)
Example ex_unlocked_writer_races :
  exists c, run [([Call "db.put" [(Mu, Ex)]], []); (lookup "DB_Get", [])] [1; 1] = Some c /\
    exists ti ri hi tj rj hj,
      nth_error c 0 = Some (ti :: ri, hi) /\ nth_error c 1 = Some (tj :: rj, hj) /\
      writer_tok ti = true /\ reader_tok tj = true /\ honest (ti :: ri) = false.
Proof.
  eexists. split; [vm_compute; reflexivity|].
  do 6 eexists. split; [vm_compute; reflexivity|]. split; [vm_compute; reflexivity|].
  vm_compute. repeat split; reflexivity.
Qed.

(* and a lock-order inversion deadlocks: order_ok rejects the program, and the run gets stuck *)
Example ex_inverted_order_deadlocks :
  let bad := [Acq Mu Ex; Acq MaintMu Ex; Rel MaintMu; Rel Mu] in
  order_ok [] bad = false /\ balanced bad = true /\
  exists c, run [(bad, []); (lookup "DB_Backup", [])] [0; 1] = Some c /\
    step c 0 = None /\ step c 1 = None.
Proof. vm_compute. split; [reflexivity|]. split; [reflexivity|]. eexists. repeat split; reflexivity. Qed.

Print Assumptions mutual_exclusion_invariant.
Print Assumptions conflict_free.
Print Assumptions no_simultaneous_conflict.
Print Assumptions deadlock_free.
Print Assumptions waits_only_upwards.
Print Assumptions try_only_empty_handed.
Print Assumptions progress.
Print Assumptions every_maximal_run_finishes.
Print Assumptions deadlock_free_writer_preference.
Print Assumptions unrolls_wf.
Print Assumptions pogreb_programs_ok.
Print Assumptions pogreb_deadlock_free.
Print Assumptions pogreb_race_free.
Print Assumptions close_waits_before_locking.
