(* DBInv.v -- abstraction function and invariants of the database model instantiated with the flat
   reference index (layer "LLog").  Definitions only (plus an executable checker of the invariant
   that the correspondence harness evaluates on the states it reaches); proofs are in DBProofs*.v.

   The abstraction [abs] is a function of the DISK alone: it is what a recovery would rebuild from
   the segment files.  Hence "the contents survive a crash" is a statement about how each
   file-system event changes [abs], and "reads return the contents" is the invariant that the
   index agrees with [abs]. *)
From Pogreb Require Import Base BaseLemmas Crc Bytes Record RecordProofs Flat Spec DB.

Section Inv.
Variable P : params.

Notation disk := (@disk flat).
Notation st := (@st flat).
Notation mem := (@mem flat).

(* ---- the ordered log ------------------------------------------------------------------------ *)
Fixpoint insert_dseg_seq (f : dseg) (l : list dseg) : list dseg :=
  match l with
  | [] => [f]
  | x :: l' => if f_seq f <? f_seq x then f :: l else x :: insert_dseg_seq f l'
  end.
Definition dby_seq (l : list dseg) : list dseg := fold_left (fun acc f => insert_dseg_seq f acc) l [].

(* (segment id, offset, record), oldest record first: the order in which recovery replays *)
Definition entry := (N * N * rec)%type.
Definition dseg_entries (f : dseg) : list entry :=
  map (fun p => (f_id f, fst p, snd p)) (seg_entries f).
Definition olog (d : disk) : list entry := concat (map dseg_entries (dby_seq (d_segs d))).

(* ---- the abstraction: contents as a plain map ------------------------------------------------ *)
Definition apply_rec (m : smap) (e : entry) : smap :=
  let r := snd e in if rdel r then sdel m (rk r) else sput m (rk r) (rv r).
Definition abs (d : disk) : smap := fold_left apply_rec (olog d) [].

(* where the live record of a key is: what the index must point to *)
Definition upd_ptr (m : key -> option (N * N)) (e : entry) : key -> option (N * N) :=
  fun k => if key_eqb k (rk (snd e))
           then (if rdel (snd e) then None else Some (fst (fst e), snd (fst e)))
           else m k.
Definition ptr_of (d : disk) : key -> option (N * N) := fold_left upd_ptr (olog d) (fun _ => None).

(* ---- well-formed disks ------------------------------------------------------------------------ *)
Definition rec_max : N := rec_overhead + max_key_len + max_val_len.

Definition rec_fits (r : rec) : Prop :=
  Forall byte (rk r) /\ Forall byte (rv r) /\ nlen (rk r) <= max_key_len /\ nlen (rv r) <= max_val_len.

(* a tail that the reader rejects at once: nothing of it is ever replayed *)
Definition tail_stuck (t : bytes) : Prop := fst (fst (parse_tail t)) = [] /\ snd (fst (parse_tail t)) = 0.

Definition dseg_ok (f : dseg) : Prop :=
  Forall rec_fits (f_recs f) /\ tail_stuck (f_tail f) /\ Forall byte (f_tail f) /\
  (f_hdr f = false -> f_recs f = [] /\ f_tail f = []) /\
  header_size + recs_len (f_recs f) < 4294967296.

Definition DiskOK (d : disk) : Prop :=
  Forall dseg_ok (d_segs d) /\ NoDup (map f_id (d_segs d)) /\ NoDup (map f_seq (d_segs d)).

Definition params_ok : Prop := p_maxseg P < 4294967296.

(* ---- the invariant of an open database --------------------------------------------------------- *)
Definition slot_ok (d : disk) (seed : N) (sl : slot) : Prop :=
  exists f r, find_dseg (sl_seg sl) d = Some f /\ rec_at (sl_off sl) (seg_entries f) = Some r /\
              rdel r = false /\ sl_ks sl = nlen (rk r) /\ sl_vs sl = nlen (rv r) /\
              sl_h sl = p_hash P seed (rk r).

Definition slot_key (d : disk) (sl : slot) : key :=
  match read_kv d sl with Some (k, _) => k | None => [] end.

Definition mem_disk_agree (m : mem) (d : disk) : Prop :=
  (forall g, In g (m_segs m) ->
     exists f, In f (d_segs d) /\ f_id f = g_id g /\ f_seq f = g_seq g /\ f_hdr f = true /\
               f_tail f = [] /\ flen f = g_size g) /\
  (forall f, In f (d_segs d) -> exists g, In g (m_segs m) /\ g_id g = f_id f /\ g_seq g = f_seq f).

Fixpoint ids_increasing (l : list mseg) : Prop :=
  match l with
  | [] => True
  | g :: l' => (forall g', In g' l' -> g_id g < g_id g') /\ ids_increasing l'
  end.

Definition seq_order (m : mem) : Prop :=
  (forall g, In g (m_segs m) -> g_seq g <= m_maxseq m) /\
  (* a segment that still accepts writes is the newest one *)
  (forall g g', In g (m_segs m) -> In g' (m_segs m) -> sm_full (g_meta g) = false -> g_seq g' <= g_seq g).

Definition cur_ok (m : mem) : Prop :=
  m_cur_removed m = false ->
  exists g, In g (m_segs m) /\ g_id g = fst (m_cur m) /\ g_seq g = snd (m_cur m).

(* Offsets are stored in 32 bits.  The code checks the configured segment size only for the segment
   that is current when a write starts, so no bound on segment sizes is inductive (each unclean
   restart may add one record beyond the limit).  The theorems therefore carry the run-time side
   condition that no segment is within one maximal record of 4 GiB. *)
Definition room (m : mem) : Prop :=
  forall g, In g (m_segs m) -> g_size g + rec_max < 4294967296.
Definition room_b (m : mem) : bool :=
  forallb (fun g => g_size g + rec_max <? 4294967296) (m_segs m).

Definition index_agrees (m : mem) (d : disk) : Prop :=
  Forall (slot_ok d (m_seed m)) (m_idx m) /\
  NoDup (map (slot_key d) (m_idx m)) /\
  (forall k, ptr_of d k =
             option_map (fun sl => (sl_seg sl, sl_off sl))
                        (find (fun sl => key_eqb k (slot_key d sl)) (m_idx m))).

Definition Inv (s : st) : Prop :=
  match s_mem s with
  | None => DiskOK (s_disk s)
  | Some m =>
      DiskOK (s_disk s) /\ mem_disk_agree m (s_disk s) /\ ids_increasing (m_segs m) /\
      seq_order m /\ cur_ok m /\ index_agrees m (s_disk s) /\
      d_lock (s_disk s) = true /\ d_index (s_disk s) = Some (m_idx m) /\ d_overflow (s_disk s) = true
  end.

(* ---- executable check of the invariant (a TEST run by the correspondence harness on the states
        it reaches, so that a wrong invariant is noticed before anybody tries to prove it) ---------- *)
Definition forallb2 {A} (p : A -> A -> bool) (l : list A) : bool :=
  forallb (fun x => forallb (p x) l) l.

Fixpoint nodupb {A} (eqb : A -> A -> bool) (l : list A) : bool :=
  match l with [] => true | x :: l' => negb (existsb (eqb x) l') && nodupb eqb l' end.

Definition rec_fits_b (r : rec) : bool :=
  forallb (fun b => b <? 256) (rk r) && forallb (fun b => b <? 256) (rv r) &&
  (nlen (rk r) <=? max_key_len) && (nlen (rv r) <=? max_val_len).

Definition tail_stuck_b (t : bytes) : bool :=
  match parse_tail t with (rs, n, _) => match rs with [] => n =? 0 | _ => false end end.

Definition dseg_ok_b (f : dseg) : bool :=
  forallb rec_fits_b (f_recs f) && tail_stuck_b (f_tail f) && forallb (fun b => b <? 256) (f_tail f) &&
  (f_hdr f || (match f_recs f, f_tail f with [], [] => true | _, _ => false end)) &&
  (header_size + recs_len (f_recs f) <? 4294967296).

Definition disk_ok_b (d : disk) : bool :=
  forallb dseg_ok_b (d_segs d) && nodupb N.eqb (map f_id (d_segs d)) && nodupb N.eqb (map f_seq (d_segs d)).

Definition slot_ok_b (d : disk) (seed : N) (sl : slot) : bool :=
  match find_dseg (sl_seg sl) d with
  | None => false
  | Some f => match rec_at (sl_off sl) (seg_entries f) with
              | None => false
              | Some r => negb (rdel r) && (sl_ks sl =? nlen (rk r)) && (sl_vs sl =? nlen (rv r)) &&
                          (sl_h sl =? p_hash P seed (rk r))
              end
  end.

Definition ptr_eqb (a b : option (N * N)) : bool :=
  match a, b with
  | None, None => true
  | Some (x, y), Some (x', y') => (x =? x') && (y =? y')
  | _, _ => false
  end.

Definition inv_b (s : st) : bool :=
  match s_mem s with
  | None => disk_ok_b (s_disk s)
  | Some m =>
    let d := s_disk s in
    disk_ok_b d &&
    forallb (fun g => existsb (fun f => (f_id f =? g_id g) && (f_seq f =? g_seq g) && f_hdr f &&
                                        (match f_tail f with [] => true | _ => false end) &&
                                        (flen f =? g_size g)) (d_segs d)) (m_segs m) &&
    forallb (fun f => existsb (fun g => (g_id g =? f_id f) && (g_seq g =? f_seq f)) (m_segs m)) (d_segs d) &&
    (fix inc (l : list mseg) : bool :=
       match l with [] => true | g :: l' => forallb (fun g' => g_id g <? g_id g') l' && inc l' end) (m_segs m) &&
    forallb (fun g => g_seq g <=? m_maxseq m) (m_segs m) &&
    forallb2 (fun g g' => sm_full (g_meta g) || (g_seq g' <=? g_seq g)) (m_segs m) &&
    (m_cur_removed m || existsb (fun g => (g_id g =? fst (m_cur m)) && (g_seq g =? snd (m_cur m))) (m_segs m)) &&
    forallb (slot_ok_b d (m_seed m)) (m_idx m) &&
    nodupb key_eqb (map (slot_key d) (m_idx m)) &&
    (* index_agrees on every key that occurs in the log or in the index *)
    forallb (fun k => ptr_eqb (ptr_of d k)
                        (option_map (fun sl => (sl_seg sl, sl_off sl))
                                    (find (fun sl => key_eqb k (slot_key d sl)) (m_idx m))))
            (map (fun e => rk (snd e)) (olog d) ++ map (slot_key d) (m_idx m)) &&
    d_lock d && (match d_index d with Some _ => true | None => false end) && d_overflow d
  end.

(* the contents of an open database read through the index (what Get returns), for comparison *)
Definition abs_sorted_keys (d : disk) : list key := map fst (abs d).

End Inv.
