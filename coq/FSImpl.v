(* FSImpl.v -- executable models of the three fs.File implementations of pogreb
   (fs/mem.go, fs/os.go, fs/os_mmap.go + fs/os_mmap_unix.go) and of the `file` wrapper of
   file.go, and the proof that for every sequence of the calls the database makes all three
   behave like one abstract (POSIX-like) file.  Property C17.

   TRUSTED (not proved, these are the definitions of the kernel model below):
     - pwrite/pread/write/read/lseek/ftruncate/fstat semantics of a regular file
       (zero fill of holes, no short transfers except at end of file);
     - the behaviour of Go's os.File methods on top of them (ReadAt loops over pread until the
       buffer is full or pread returns 0 = io.EOF; zero-length ReadAt/WriteAt return (0,nil)
       without a system call, even on a closed file; Read returns io.EOF only for a 0-byte
       transfer into a non-empty buffer);
     - COHERENCE OF THE MAPPING: a MAP_SHARED, PROT_READ mapping of the file shows, at every
       moment, the current bytes of the kernel file (also bytes written later with pwrite and
       also after ftruncate), for offsets below the current end of file.  Touching a mapped
       byte beyond the end of the file is modelled as [RFault] (SIGBUS; in reality
       page-granular), slicing beyond the mapped length as [RPanic] (Go slice bounds panic);
     - mmap/munmap/close/fsync do not fail (ENOMEM, EIO, ... are out of scope).
   Aliasing of the slices returned by Slice (mem: into buf; mmap: into the mapping) is out of
   scope here: a result is the list of bytes at the moment of the call. *)
From Coq Require Import ZArith Lia ZifyN ZifyNat ZifyBool.
From Pogreb Require Import Base BaseLemmas.
Open Scope N_scope.

(* ================================================================== *)
(** * 1. The byte algebra shared by all models *)

Definition zeros (n : N) : bytes := N.iter n (cons 0) [].

(* bytes [off, off+n) that exist *)
Definition read_at (d : bytes) (off n : N) : bytes := ntake n (ndrop off d).

(* pwrite: holes are zero filled *)
Definition write_at (d : bytes) (off : N) (p : bytes) : bytes :=
  ntake off d ++ zeros (off - nlen d) ++ p ++ ndrop (off + nlen p) d.

(* ftruncate: cut, or grow with zeros *)
Definition truncate (d : bytes) (sz : N) : bytes := ntake sz d ++ zeros (sz - nlen d).

Lemma zeros_repeat n : zeros n = repeat 0 (N.to_nat n).
Proof.
  unfold zeros. rewrite N2Nat.inj_iter.
  induction (N.to_nat n) as [|k IH]; [reflexivity|].
  change (Nat.iter (S k) (cons 0) []) with (0 :: Nat.iter k (cons 0) []).
  cbn [repeat]. rewrite IH. reflexivity.
Qed.

Lemma zeros_0 : zeros 0 = [].
Proof. reflexivity. Qed.

Lemma nlen_zeros n : nlen (zeros n) = n.
Proof. rewrite zeros_repeat, nlen_length, repeat_length. lia. Qed.

Lemma zeros_add a b : zeros (a + b) = zeros a ++ zeros b.
Proof. rewrite !zeros_repeat, N2Nat.inj_add. apply repeat_app. Qed.

Lemma ntake_zeros_add a b : ntake a (zeros (a + b)) = zeros a.
Proof.
  rewrite zeros_add. rewrite <- (nlen_zeros a) at 1. apply ntake_app_exact.
Qed.

Lemma nlen_read_at d off n : nlen (read_at d off n) = N.min n (nlen d - off).
Proof. unfold read_at. rewrite nlen_ntake, nlen_ndrop. reflexivity. Qed.

Lemma read_at_0 d off : read_at d off 0 = [].
Proof. reflexivity. Qed.

Lemma read_at_beyond d off n : nlen d <= off -> read_at d off n = [].
Proof. intros H. unfold read_at. rewrite ndrop_all by exact H. apply ntake_nil. Qed.

Lemma nlen_write_at d off p : nlen (write_at d off p) = N.max (nlen d) (off + nlen p).
Proof.
  unfold write_at. rewrite !nlen_app, nlen_ntake, nlen_zeros, nlen_ndrop. lia.
Qed.

Lemma nlen_truncate d sz : nlen (truncate d sz) = sz.
Proof. unfold truncate. rewrite nlen_app, nlen_ntake, nlen_zeros. lia. Qed.

Lemma write_at_end d p : write_at d (nlen d) p = d ++ p.
Proof.
  unfold write_at. rewrite ntake_nlen, N.sub_diag, zeros_0.
  rewrite ndrop_all by lia. cbn [app]. rewrite app_nil_r. reflexivity.
Qed.

Lemma write_at_gap d off p :
  nlen d <= off -> write_at d off p = d ++ zeros (off - nlen d) ++ p.
Proof.
  intros H. unfold write_at. rewrite ntake_all by exact H.
  rewrite ndrop_all by lia. rewrite app_nil_r. reflexivity.
Qed.

Lemma truncate_grow d sz : nlen d <= sz -> truncate d sz = d ++ zeros (sz - nlen d).
Proof. intros H. unfold truncate. rewrite ntake_all by exact H. reflexivity. Qed.

Lemma truncate_shrink d sz : sz <= nlen d -> truncate d sz = ntake sz d.
Proof.
  intros H. unfold truncate. replace (sz - nlen d) with 0 by lia.
  rewrite zeros_0. apply app_nil_r.
Qed.

(* what is left after a short read: nothing *)
Lemma read_at_after_short d off n m :
  nlen (read_at d off n) < n -> read_at d (off + nlen (read_at d off n)) m = [].
Proof.
  intros H. apply read_at_beyond. rewrite nlen_read_at in *. lia.
Qed.

(* ================================================================== *)
(** * 2. Calls, results, the abstract file *)

Inductive call :=
| CWriteAt (p : bytes) (off : N)
| CWrite (p : bytes)
| CReadAt (n off : N)
| CRead (n : N)
| CSeekStart (off : N)
| CTruncate (size : N)
| CSlice (s e : N)
| CStatSize
| CSync
| CClose.

(* [RBytes b eof]: the call returned the bytes [b] (count = nlen b) and the error was io.EOF
   iff [eof].  [RPanic]: Go run-time panic (slice bounds out of range).  [RFault]: access to a
   mapped page beyond the end of the file (SIGBUS).  The last two are never produced by the
   abstract file. *)
Inductive res :=
| RInt (n : N)
| RBytes (b : bytes) (eof : bool)
| RUnit
| RErrClosed
| RErrEOF
| RPanic
| RFault.

Record afile := { a_data : bytes; a_pos : N; a_open : bool }.

Definition step_abs (a : afile) (c : call) : afile * res :=
  if negb (a_open a) then (a, RErrClosed) else
  let d := a_data a in
  match c with
  | CWriteAt p off =>
      ({| a_data := write_at d off p; a_pos := a_pos a; a_open := true |}, RInt (nlen p))
  | CWrite p =>
      ({| a_data := write_at d (a_pos a) p; a_pos := a_pos a + nlen p; a_open := true |},
       RInt (nlen p))
  | CReadAt n off =>
      let b := read_at d off n in (a, RBytes b (nlen b <? n))
  | CRead n =>
      let b := read_at d (a_pos a) n in
      ({| a_data := d; a_pos := a_pos a + nlen b; a_open := true |}, RBytes b (nlen b <? n))
  | CSeekStart off => ({| a_data := d; a_pos := off; a_open := true |}, RInt off)
  | CTruncate sz =>
      ({| a_data := truncate d sz; a_pos := a_pos a; a_open := true |}, RUnit)
  | CSlice s e =>
      if nlen d <? e then (a, RErrEOF) else (a, RBytes (read_at d s (e - s)) false)
  | CStatSize => (a, RInt (nlen d))
  | CSync => (a, RUnit)
  | CClose => ({| a_data := d; a_pos := a_pos a; a_open := false |}, RUnit)
  end.

Definition abs_open (d0 : bytes) : afile := {| a_data := d0; a_pos := 0; a_open := true |}.

(* The observation: the only canonicalisation is that the io.EOF flag of a read that returned
   at least one byte is not observed (difference D-a below: fs.Mem returns (k,nil) for a short
   ReadAt where os.File.ReadAt returns (k,io.EOF); os.File.Read returns (k,nil)).  A read that
   returns no byte keeps its flag: (0,io.EOF) is distinguished from (0,nil). *)
Definition obs (r : res) : res :=
  match r with
  | RBytes b eof => RBytes b (eof && (nlen b =? 0))
  | _ => r
  end.

(* Calls on which the three implementations agree.  Every excluded case is a real difference
   of the Go code, exhibited in section 11 (the Examples named diff_...):
   - zero-length WriteAt/Write/ReadAt/Read (os.File shortcuts them, fs.Mem does not; a
     zero-length write beyond the end grows a fs.Mem file and makes osMMapFile.size stale);
   - Slice with start > end (panics everywhere, at different points);
   - a zero-length Slice unless the file is open, non-empty and end <= size (os: always
     succeeds, even closed; mmap: ErrClosed on an open EMPTY file because it is not mapped);
   - Slice of a closed file with end > size (mmap checks the size first: io.EOF instead of
     ErrClosed).
   The database never makes these calls: records are >= 10 bytes, buckets and headers 512
   bytes, every file starts with a 512-byte header, the only zero-length Slice is readKey of
   an empty key inside an existing record. *)
Definition wf_callb (a : afile) (c : call) : bool :=
  match c with
  | CWriteAt p _ => negb (nlen p =? 0)
  | CWrite p => negb (nlen p =? 0)
  | CReadAt n _ => 0 <? n
  | CRead n => 0 <? n
  | CSlice s e =>
      ((s <? e) && (a_open a || (e <=? nlen (a_data a))))
      || ((s =? e) && a_open a && (e <=? nlen (a_data a)) && (0 <? nlen (a_data a)))
  | _ => true
  end.
Definition well_formed_call (a : afile) (c : call) : Prop := wf_callb a c = true.

Fixpoint run {S : Type} (step : S -> call -> S * res) (s : S) (cs : list call)
  : S * list res :=
  match cs with
  | [] => (s, [])
  | c :: cs' =>
      let (s1, r) := step s c in
      let (s2, rs) := run step s1 cs' in (s2, r :: rs)
  end.

(* all calls of the sequence are well formed in the state in which they are made *)
Fixpoint seq_wf (a : afile) (cs : list call) : bool :=
  match cs with
  | [] => true
  | c :: cs' => wf_callb a c && seq_wf (fst (step_abs a c)) cs'
  end.

(* ================================================================== *)
(** * 3. fs.Mem: memFile + seekableMemFile (fs/mem.go) *)

(* [m_buf] is the slice f.buf up to its length.  The capacity tail that survives
   `f.buf = f.buf[:size]` is not modelled: the only way to make it visible again is
   `append(f.buf, make([]byte, diff)...)`, which overwrites it with zeros. *)
Record memFile := { m_buf : bytes; m_size : N; m_refs : N }.
Record smemFile := { sm_file : memFile; sm_off : N }.

Definition mem_truncate (f : memFile) (sz : N) : memFile :=
  if m_size f <? sz
  then {| m_buf := m_buf f ++ zeros (sz - m_size f); m_size := sz; m_refs := m_refs f |}
  else {| m_buf := ntake sz (m_buf f); m_size := sz; m_refs := m_refs f |}.

Definition mem_ReadAt (f : memFile) (n off : N) : res :=
  if m_refs f =? 0 then RErrClosed
  else if m_size f <=? off then RBytes [] true                      (* 0, io.EOF *)
  else if m_size f - off <? n
       then RBytes (ntake (m_size f - off) (ndrop off (m_buf f))) false  (* size-off, nil *)
       else RBytes (ntake n (ndrop off (m_buf f))) false.            (* n, nil *)

Definition mem_WriteAt (f : memFile) (p : bytes) (off : N) : memFile * res :=
  if m_refs f =? 0 then (f, RErrClosed) else
  let n := nlen p in
  let f1 := if m_size f <? off + n then mem_truncate f (off + n) else f in
  (* copy(f.buf[off:off+n], p) *)
  ({| m_buf := ntake off (m_buf f1) ++ p ++ ndrop (off + n) (m_buf f1);
      m_size := m_size f1; m_refs := m_refs f1 |}, RInt n).

Definition mem_Truncate (f : memFile) (sz : N) : memFile * res :=
  if m_refs f =? 0 then (f, RErrClosed) else (mem_truncate f sz, RUnit).

Definition mem_Slice (f : memFile) (s e : N) : res :=
  if m_refs f =? 0 then RErrClosed
  else if m_size f <? e then RErrEOF
  else if e <? s then RPanic                                         (* buf[s:e], s > e *)
  else RBytes (ntake (e - s) (ndrop s (m_buf f))) false.

Definition mem_Close (f : memFile) : memFile * res :=
  if m_refs f =? 0 then (f, RErrClosed)
  else ({| m_buf := m_buf f; m_size := m_size f; m_refs := m_refs f - 1 |}, RUnit).

Definition step_mem (f : smemFile) (c : call) : smemFile * res :=
  let mf := sm_file f in
  match c with
  | CWriteAt p off =>
      let (mf1, r) := mem_WriteAt mf p off in ({| sm_file := mf1; sm_off := sm_off f |}, r)
  | CWrite p =>
      let (mf1, r) := mem_WriteAt mf p (sm_off f) in
      match r with
      | RInt n => ({| sm_file := mf1; sm_off := sm_off f + n |}, r)
      | _ => ({| sm_file := mf1; sm_off := sm_off f |}, r)
      end
  | CReadAt n off => (f, mem_ReadAt mf n off)
  | CRead n =>
      let r := mem_ReadAt mf n (sm_off f) in
      match r with
      | RBytes b false => ({| sm_file := mf; sm_off := sm_off f + nlen b |}, r)
      | _ => (f, r)                                                  (* err != nil *)
      end
  | CSeekStart off =>
      if m_refs mf =? 0 then (f, RErrClosed)
      else ({| sm_file := mf; sm_off := off |}, RInt off)
  | CTruncate sz =>
      let (mf1, r) := mem_Truncate mf sz in ({| sm_file := mf1; sm_off := sm_off f |}, r)
  | CSlice s e => (f, mem_Slice mf s e)
  | CStatSize => if m_refs mf =? 0 then (f, RErrClosed) else (f, RInt (m_size mf))
  | CSync => if m_refs mf =? 0 then (f, RErrClosed) else (f, RUnit)
  | CClose =>
      let (mf1, r) := mem_Close mf in ({| sm_file := mf1; sm_off := sm_off f |}, r)
  end.

(* memFS.OpenFile of an existing file nobody else holds (refs 0 -> 1), or of a new one *)
Definition mem_open (d0 : bytes) : smemFile :=
  {| sm_file := {| m_buf := d0; m_size := nlen d0; m_refs := 1 |}; sm_off := 0 |}.

(* ================================================================== *)
(** * 4. The kernel file and os.File; fs.OS: osFile (fs/os.go) *)

Record kfile := { k_data : bytes; k_off : N; k_open : bool }.

(* os.File.WriteAt: `for len(b) > 0 { pwrite }` -- no system call for an empty buffer *)
Definition osf_WriteAt (k : kfile) (p : bytes) (off : N) : kfile * res :=
  if nlen p =? 0 then (k, RInt 0)
  else if negb (k_open k) then (k, RErrClosed)
  else ({| k_data := write_at (k_data k) off p; k_off := k_off k; k_open := true |},
        RInt (nlen p)).

(* os.File.Write: write(2) at the descriptor offset *)
Definition osf_Write (k : kfile) (p : bytes) : kfile * res :=
  if negb (k_open k) then (k, RErrClosed)
  else if nlen p =? 0 then (k, RInt 0)
  else ({| k_data := write_at (k_data k) (k_off k) p; k_off := k_off k + nlen p;
           k_open := true |}, RInt (nlen p)).

(* os.File.ReadAt: loops over pread; a short result comes with io.EOF *)
Definition osf_ReadAt (k : kfile) (n off : N) : res :=
  if n =? 0 then RBytes [] false
  else if negb (k_open k) then RErrClosed
  else let b := read_at (k_data k) off n in RBytes b (nlen b <? n).

(* os.File.Read: one read(2); io.EOF iff 0 bytes for a non-empty buffer *)
Definition osf_Read (k : kfile) (n : N) : kfile * res :=
  if negb (k_open k) then (k, RErrClosed)
  else let b := read_at (k_data k) (k_off k) n in
       ({| k_data := k_data k; k_off := k_off k + nlen b; k_open := true |},
        RBytes b ((nlen b =? 0) && (0 <? n))).

Definition osf_Seek (k : kfile) (off : N) : kfile * res :=
  if negb (k_open k) then (k, RErrClosed)
  else ({| k_data := k_data k; k_off := off; k_open := true |}, RInt off).

Definition osf_Truncate (k : kfile) (sz : N) : kfile * res :=
  if negb (k_open k) then (k, RErrClosed)
  else ({| k_data := truncate (k_data k) sz; k_off := k_off k; k_open := true |}, RUnit).

Definition osf_Stat (k : kfile) : res :=
  if negb (k_open k) then RErrClosed else RInt (nlen (k_data k)).

Definition osf_Sync (k : kfile) : res :=
  if negb (k_open k) then RErrClosed else RUnit.

Definition osf_Close (k : kfile) : kfile * res :=
  if negb (k_open k) then (k, RErrClosed)
  else ({| k_data := k_data k; k_off := k_off k; k_open := false |}, RUnit).

(* osFile.Slice: buf := make([]byte, end-start); _, err := f.ReadAt(buf, start) *)
Definition os_Slice (k : kfile) (s e : N) : res :=
  if e <? s then RPanic                                  (* make: negative length *)
  else match osf_ReadAt k (e - s) s with
       | RBytes b false => RBytes b false
       | RBytes _ true => RErrEOF
       | r => r
       end.

Definition step_os (k : kfile) (c : call) : kfile * res :=
  match c with
  | CWriteAt p off => osf_WriteAt k p off
  | CWrite p => osf_Write k p
  | CReadAt n off => (k, osf_ReadAt k n off)
  | CRead n => osf_Read k n
  | CSeekStart off => osf_Seek k off
  | CTruncate sz => osf_Truncate k sz
  | CSlice s e => (k, os_Slice k s e)
  | CStatSize => (k, osf_Stat k)
  | CSync => (k, osf_Sync k)
  | CClose => osf_Close k
  end.

Definition os_open (d0 : bytes) : kfile := {| k_data := d0; k_off := 0; k_open := true |}.

(* ================================================================== *)
(** * 5. fs.OSMMap: osMMapFile (fs/os_mmap.go, fs/os_mmap_unix.go) *)

Record mmapFile := {
  mm_k : kfile;          (* *os.File *)
  mm_size : N;           (* size: the wrapper's own idea of the file size *)
  mm_msize : N;          (* mmapSize *)
  mm_mapped : bool;      (* data != nil *)
  mm_off : N             (* offset *)
}.

Section WithImm.
Variable imm : N.                       (* initialMmapSize = 1024 << 20 *)
Hypothesis imm_pos : 0 < imm.

Definition mm_munmap (f : mmapFile) : mmapFile :=
  if mm_mapped f
  then {| mm_k := mm_k f; mm_size := mm_size f; mm_msize := 0; mm_mapped := false;
          mm_off := mm_off f |}
  else f.

(* f.mmap(fileSize, mappingSize) followed by f.mmapSize = len(f.data) *)
Definition mm_mmap (f : mmapFile) (msz : N) : mmapFile :=
  {| mm_k := mm_k f; mm_size := mm_size f; mm_msize := msz; mm_mapped := true;
     mm_off := mm_off f |}.

(* exactly the code: doubling happens ONCE, whatever f.size is *)
Definition mm_mremap (f : mmapFile) : mmapFile :=
  let m := mm_msize f in
  if mm_size f <=? m then f
  else if m =? 0 then mm_mmap f (if imm <? mm_size f then mm_size f else imm)
  else mm_mmap (mm_munmap f) (m * 2).

Definition mm_with (f : mmapFile) (k : kfile) (sz off : N) : mmapFile :=
  {| mm_k := k; mm_size := sz; mm_msize := mm_msize f; mm_mapped := mm_mapped f;
     mm_off := off |}.

Definition mm_WriteAt (f : mmapFile) (p : bytes) (off : N) : mmapFile * res :=
  let (k1, r) := osf_WriteAt (mm_k f) p off in
  match r with
  | RInt n =>
      let woff := off + n in
      let sz := if mm_size f <? woff then woff else mm_size f in
      (mm_mremap (mm_with f k1 sz (mm_off f)), RInt n)
  | _ => (mm_with f k1 (mm_size f) (mm_off f), r)
  end.

Definition mm_Write (f : mmapFile) (p : bytes) : mmapFile * res :=
  let (k1, r) := osf_Write (mm_k f) p in
  match r with
  | RInt n =>
      let o := mm_off f + n in
      let sz := if mm_size f <? o then o else mm_size f in
      (mm_mremap (mm_with f k1 sz o), RInt n)
  | _ => (mm_with f k1 (mm_size f) (mm_off f), r)
  end.

(* off, err := f.File.Seek(...); f.offset = off   (off = 0 when err != nil) *)
Definition mm_Seek (f : mmapFile) (off : N) : mmapFile * res :=
  let (k1, r) := osf_Seek (mm_k f) off in
  match r with
  | RInt o => (mm_with f k1 (mm_size f) o, r)
  | _ => (mm_with f k1 (mm_size f) 0, r)
  end.

Definition mm_Read (f : mmapFile) (n : N) : mmapFile * res :=
  let (k1, r) := osf_Read (mm_k f) n in
  match r with
  | RBytes b _ => (mm_with f k1 (mm_size f) (mm_off f + nlen b), r)
  | _ => (mm_with f k1 (mm_size f) (mm_off f), r)
  end.

Definition mm_Truncate (f : mmapFile) (sz : N) : mmapFile * res :=
  let (k1, r) := osf_Truncate (mm_k f) sz in
  match r with
  | RUnit => (mm_mremap (mm_with f k1 sz (mm_off f)), RUnit)
  | _ => (mm_with f k1 (mm_size f) (mm_off f), r)
  end.

Definition mm_Slice (f : mmapFile) (s e : N) : res :=
  if mm_size f <? e then RErrEOF
  else if negb (mm_mapped f) then RErrClosed
  else if e <? s then RPanic                         (* data[s:e], s > e *)
  else if mm_msize f <? e then RPanic                (* data[s:e], e > cap(data) *)
  else if nlen (k_data (mm_k f)) <? e then RFault    (* mapped, but beyond end of file *)
  else RBytes (read_at (k_data (mm_k f)) s (e - s)) false.   (* coherence: TRUSTED *)

Definition mm_Close (f : mmapFile) : mmapFile * res :=
  let f1 := mm_munmap f in
  let (k1, r) := osf_Close (mm_k f1) in
  (mm_with f1 k1 (mm_size f1) (mm_off f1), r).

Definition step_mmap (f : mmapFile) (c : call) : mmapFile * res :=
  match c with
  | CWriteAt p off => mm_WriteAt f p off
  | CWrite p => mm_Write f p
  | CReadAt n off => (f, osf_ReadAt (mm_k f) n off)     (* not overridden *)
  | CRead n => mm_Read f n
  | CSeekStart off => mm_Seek f off
  | CTruncate sz => mm_Truncate f sz
  | CSlice s e => (f, mm_Slice f s e)
  | CStatSize => (f, osf_Stat (mm_k f))                 (* not overridden: fstat *)
  | CSync => (f, osf_Sync (mm_k f))
  | CClose => mm_Close f
  end.

(* osMMapFS.OpenFile: size: stat.Size(), then mremap() *)
Definition mmap_open (d0 : bytes) : mmapFile :=
  mm_mremap {| mm_k := os_open d0; mm_size := nlen d0; mm_msize := 0; mm_mapped := false;
               mm_off := 0 |}.

End WithImm.

(* ================================================================== *)
(** * 6. Simulation: fs.Mem *)

Definition R_mem (f : smemFile) (a : afile) : Prop :=
  m_buf (sm_file f) = a_data a /\
  m_size (sm_file f) = nlen (a_data a) /\
  sm_off f = a_pos a /\
  m_refs (sm_file f) = (if a_open a then 1 else 0).

Lemma mem_truncate_spec d r sz :
  mem_truncate {| m_buf := d; m_size := nlen d; m_refs := r |} sz
  = {| m_buf := truncate d sz; m_size := sz; m_refs := r |}.
Proof.
  unfold mem_truncate. cbn [m_buf m_size m_refs].
  destruct (nlen d <? sz) eqn:E.
  - rewrite truncate_grow by lia. reflexivity.
  - rewrite truncate_shrink by lia. reflexivity.
Qed.

(* the two-phase algorithm of memFile.WriteAt (grow with truncate, then copy) is pwrite *)
Lemma mem_overwrite_spec d off p :
  let b1 := if nlen d <? off + nlen p then truncate d (off + nlen p) else d in
  ntake off b1 ++ p ++ ndrop (off + nlen p) b1 = write_at d off p.
Proof.
  cbv zeta. destruct (nlen d <? off + nlen p) eqn:E.
  - rewrite truncate_grow by lia.
    rewrite (ndrop_all (off + nlen p)) by (rewrite nlen_app, nlen_zeros; lia).
    destruct (off <=? nlen d) eqn:E2.
    + rewrite ntake_app_le by lia. unfold write_at.
      replace (off - nlen d) with 0 by lia.
      rewrite zeros_0, (ndrop_all (off + nlen p) d) by lia. reflexivity.
    + rewrite ntake_app_ge by lia.
      replace (off + nlen p - nlen d) with ((off - nlen d) + nlen p) by lia.
      rewrite ntake_zeros_add, write_at_gap by lia.
      rewrite app_nil_r, <- app_assoc. reflexivity.
  - unfold write_at. replace (off - nlen d) with 0 by lia. reflexivity.
Qed.

Lemma mem_WriteAt_spec d p off :
  mem_WriteAt {| m_buf := d; m_size := nlen d; m_refs := 1 |} p off
  = ({| m_buf := write_at d off p; m_size := nlen (write_at d off p); m_refs := 1 |},
     RInt (nlen p)).
Proof.
  unfold mem_WriteAt. cbn [m_buf m_size m_refs].
  change (1 =? 0) with false. cbv iota.
  pose proof (mem_overwrite_spec d off p) as H. cbv zeta in H.
  destruct (nlen d <? off + nlen p) eqn:E.
  - rewrite mem_truncate_spec. cbn [m_buf m_size m_refs]. rewrite H.
    f_equal. f_equal. rewrite nlen_write_at. lia.
  - cbn [m_buf m_size m_refs]. rewrite H.
    f_equal. f_equal. rewrite nlen_write_at. lia.
Qed.

Lemma mem_ReadAt_exact d n off :
  mem_ReadAt {| m_buf := d; m_size := nlen d; m_refs := 1 |} n off
  = if nlen d <=? off then RBytes [] true else RBytes (read_at d off n) false.
Proof.
  unfold mem_ReadAt. cbn [m_buf m_size m_refs].
  change (1 =? 0) with false. cbv iota.
  destruct (nlen d <=? off) eqn:E1; [reflexivity|].
  destruct (nlen d - off <? n) eqn:E2; [|reflexivity].
  unfold read_at.
  rewrite (ntake_all (nlen d - off)) by (rewrite nlen_ndrop; lia).
  rewrite (ntake_all n) by (rewrite nlen_ndrop; lia).
  reflexivity.
Qed.

Lemma mem_ReadAt_spec d n off :
  0 < n ->
  obs (mem_ReadAt {| m_buf := d; m_size := nlen d; m_refs := 1 |} n off)
  = obs (RBytes (read_at d off n) (nlen (read_at d off n) <? n)).
Proof.
  intros Hn. rewrite mem_ReadAt_exact.
  destruct (nlen d <=? off) eqn:E1.
  - rewrite read_at_beyond by lia. cbn [obs nlen]. f_equal. lia.
  - cbn [obs]. f_equal. rewrite nlen_read_at. lia.
Qed.

Theorem mem_step_fs f a c :
  R_mem f a -> well_formed_call a c ->
  R_mem (fst (step_mem f c)) (fst (step_abs a c)) /\
  obs (snd (step_mem f c)) = obs (snd (step_abs a c)).
Proof.
  destruct f as [[buf size refs] off]. destruct a as [d pos o].
  unfold R_mem, well_formed_call. cbn [m_buf m_size m_refs sm_file sm_off a_data a_pos a_open].
  intros (-> & -> & -> & ->) Hwf.
  destruct o.
  - (* open *)
    destruct c as [p o1|p|n o1|n|o1|sz|s e| | |];
      unfold step_mem, step_abs;
      cbn [m_buf m_size m_refs sm_file sm_off a_data a_pos a_open negb wf_callb] in *.
    + rewrite mem_WriteAt_spec. cbn [fst snd m_buf m_size m_refs sm_file sm_off a_data a_pos a_open].
      auto.
    + rewrite mem_WriteAt_spec. cbn [fst snd m_buf m_size m_refs sm_file sm_off a_data a_pos a_open].
      auto.
    + cbn [fst snd m_buf m_size m_refs sm_file sm_off a_data a_pos a_open].
      split; [auto|]. apply mem_ReadAt_spec. lia.
    + rewrite mem_ReadAt_exact. cbv zeta.
      destruct (nlen d <=? pos) eqn:E1;
        cbn [fst snd m_buf m_size m_refs sm_file sm_off a_data a_pos a_open obs].
      * rewrite read_at_beyond by lia. cbn [nlen]. rewrite N.add_0_r.
        split; [auto|]. f_equal. lia.
      * split; [auto|]. f_equal. rewrite nlen_read_at. lia.
    + change (1 =? 0) with false. cbv iota.
      cbn [fst snd m_buf m_size m_refs sm_file sm_off a_data a_pos a_open]. auto.
    + unfold mem_Truncate. cbn [m_refs]. change (1 =? 0) with false. cbv iota.
      rewrite mem_truncate_spec.
      cbn [fst snd m_buf m_size m_refs sm_file sm_off a_data a_pos a_open].
      rewrite nlen_truncate. auto.
    + unfold mem_Slice. cbn [m_buf m_size m_refs]. change (1 =? 0) with false. cbv iota.
      destruct (nlen d <? e) eqn:E1;
        cbn [fst snd m_buf m_size m_refs sm_file sm_off a_data a_pos a_open]; [auto|].
      destruct (e <? s) eqn:E2; [exfalso; lia|]. auto.
    + change (1 =? 0) with false. cbv iota.
      cbn [fst snd m_buf m_size m_refs sm_file sm_off a_data a_pos a_open]. auto.
    + change (1 =? 0) with false. cbv iota.
      cbn [fst snd m_buf m_size m_refs sm_file sm_off a_data a_pos a_open]. auto.
    + unfold mem_Close. cbn [m_buf m_size m_refs]. change (1 =? 0) with false. cbv iota.
      cbn [fst snd m_buf m_size m_refs sm_file sm_off a_data a_pos a_open]. auto.
  - (* closed: refs = 0, every method returns os.ErrClosed and changes nothing *)
    destruct c as [p o1|p|n o1|n|o1|sz|s e| | |];
      unfold step_mem, step_abs, mem_WriteAt, mem_ReadAt, mem_Truncate, mem_Slice, mem_Close;
      cbn [m_buf m_size m_refs sm_file sm_off a_data a_pos a_open negb];
      change (0 =? 0) with true; cbv iota;
      cbn [fst snd m_buf m_size m_refs sm_file sm_off a_data a_pos a_open]; auto.
Qed.


(* ================================================================== *)
(** * 7. Simulation: fs.OS *)

Definition R_os (k : kfile) (a : afile) : Prop :=
  k_data k = a_data a /\ k_off k = a_pos a /\ k_open k = a_open a.

Lemma slice_short_iff d s e :
  s < e -> (nlen (read_at d s (e - s)) <? e - s) = (nlen d <? e).
Proof. intros H. rewrite nlen_read_at. lia. Qed.

Lemma os_Slice_spec d off o s e :
  wf_callb {| a_data := d; a_pos := off; a_open := o |} (CSlice s e) = true ->
  os_Slice {| k_data := d; k_off := off; k_open := o |} s e
  = snd (step_abs {| a_data := d; a_pos := off; a_open := o |} (CSlice s e)).
Proof.
  cbn [wf_callb a_open a_data]. intros Hwf.
  unfold os_Slice, osf_ReadAt, step_abs. cbn [k_data k_off k_open a_data a_pos a_open].
  destruct (e <? s) eqn:E0; [exfalso; lia|].
  destruct (e - s =? 0) eqn:E1.
  - (* zero-length: open, inside a non-empty file *)
    destruct o; [|exfalso; lia]. cbn [negb].
    assert (nlen d <? e = false) as -> by lia. cbn [snd].
    replace (e - s) with 0 by lia. reflexivity.
  - destruct o; cbn [negb snd]; [|reflexivity].
    rewrite slice_short_iff by lia.
    destruct (nlen d <? e); reflexivity.
Qed.

Theorem os_step_fs k a c :
  R_os k a -> well_formed_call a c ->
  R_os (fst (step_os k c)) (fst (step_abs a c)) /\
  obs (snd (step_os k c)) = obs (snd (step_abs a c)).
Proof.
  destruct k as [kd ko kopen]. destruct a as [d pos o].
  unfold R_os, well_formed_call. cbn [k_data k_off k_open a_data a_pos a_open].
  intros (-> & -> & ->) Hwf.
  destruct c as [p o1|p|n o1|n|o1|sz|s e| | |].
  7:{ (* Slice *)
    unfold step_os. cbn [fst snd]. rewrite os_Slice_spec by exact Hwf.
    split; [|reflexivity].
    unfold step_abs. cbn [a_data a_pos a_open].
    destruct (negb o); [cbn [fst a_data a_pos a_open]; auto|].
    destruct (nlen d <? e); cbn [fst a_data a_pos a_open]; auto. }
  all: unfold step_os, step_abs, osf_WriteAt, osf_Write, osf_ReadAt, osf_Read, osf_Seek,
         osf_Truncate, osf_Stat, osf_Sync, osf_Close;
       cbn [k_data k_off k_open a_data a_pos a_open wf_callb] in *.
  - assert (nlen p =? 0 = false) as -> by lia.
    destruct o; cbn [negb fst snd k_data k_off k_open a_data a_pos a_open]; auto.
  - assert (nlen p =? 0 = false) as -> by lia.
    destruct o; cbn [negb fst snd k_data k_off k_open a_data a_pos a_open]; auto.
  - assert (n =? 0 = false) as -> by lia.
    destruct o; cbn [negb fst snd k_data k_off k_open a_data a_pos a_open]; auto.
  - destruct o; cbn [negb fst snd k_data k_off k_open a_data a_pos a_open obs]; [|auto].
    split; [auto|]. f_equal. lia.
  - destruct o; cbn [negb fst snd k_data k_off k_open a_data a_pos a_open]; auto.
  - destruct o; cbn [negb fst snd k_data k_off k_open a_data a_pos a_open]; auto.
  - destruct o; cbn [negb fst snd k_data k_off k_open a_data a_pos a_open]; auto.
  - destruct o; cbn [negb fst snd k_data k_off k_open a_data a_pos a_open]; auto.
  - destruct o; cbn [negb fst snd k_data k_off k_open a_data a_pos a_open]; auto.
Qed.

(* ================================================================== *)
(** * 8. Simulation: fs.OSMMap *)

(* The side condition.  [m] is the current mmapSize; the call must not grow the file beyond
   twice the current mapping (nothing is required while nothing is mapped: the first mapping
   is max(initialMmapSize, size)). *)
Definition grow_okb (m : N) (a : afile) (c : call) : bool :=
  (m =? 0) || (nlen (a_data (fst (step_abs a c))) <=? 2 * m).

Section MMapProofs.
Variable imm : N.
Hypothesis imm_pos : 0 < imm.

(* mmapSize after a call, computed from the abstract file [a'] reached by the call and the
   previous mmapSize [m] (ghost copy of mremap / munmap-at-Close) *)
Definition next_msize (m : N) (a' : afile) : N :=
  if a_open a' then
    let sz := nlen (a_data a') in
    if sz <=? m then m
    else if m =? 0 then (if imm <? sz then sz else imm)
    else m * 2
  else 0.

Definition R_mmap (f : mmapFile) (a : afile) : Prop :=
  k_data (mm_k f) = a_data a /\
  k_off (mm_k f) = a_pos a /\
  k_open (mm_k f) = a_open a /\
  mm_size f = nlen (a_data a) /\                       (* size = kernel length *)
  (a_open a = true -> mm_off f = a_pos a) /\
  (a_open a = true -> mm_size f <= mm_msize f) /\      (* the mapping covers the file *)
  (mm_mapped f = false -> mm_msize f = 0) /\
  (mm_msize f = 0 \/ imm <= mm_msize f) /\
  (a_open a = false -> mm_mapped f = false).

Ltac mm_simpl :=
  cbn [mm_k mm_size mm_msize mm_mapped mm_off k_data k_off k_open a_data a_pos a_open].
Ltac mm_R :=
  unfold R_mmap; mm_simpl;
  repeat (split; [auto; intros; try discriminate; lia|]);
  try (intros; discriminate); auto.

Ltac split_AC :=
  match goal with
  | |- ?A /\ _ /\ ?C =>
      cut (A /\ C); [intros [HA HC]; split; [exact HA|split; [reflexivity|exact HC]]|]
  end.

Lemma mm_mremap_R f0 d pos :
  k_data (mm_k f0) = d -> k_off (mm_k f0) = pos -> k_open (mm_k f0) = true ->
  mm_size f0 = nlen d -> mm_off f0 = pos ->
  (mm_mapped f0 = false -> mm_msize f0 = 0) ->
  (mm_msize f0 = 0 \/ imm <= mm_msize f0) ->
  (mm_msize f0 =? 0) || (mm_size f0 <=? 2 * mm_msize f0) = true ->
  R_mmap (mm_mremap imm f0) {| a_data := d; a_pos := pos; a_open := true |} /\
  mm_msize (mm_mremap imm f0)
  = next_msize (mm_msize f0) {| a_data := d; a_pos := pos; a_open := true |}.
Proof.
  destruct f0 as [k size msize mapped moff]. mm_simpl.
  intros Hd Hoff Hopen Hsize Hmoff Hmap Hmi Hgrow.
  unfold R_mmap, next_msize, mm_mremap, mm_mmap, mm_munmap. mm_simpl.
  rewrite <- Hsize.
  destruct (size <=? msize) eqn:E1;
    [|destruct (msize =? 0) eqn:E2; [destruct (imm <? size) eqn:E3|destruct mapped]];
    mm_simpl;
    (split; [|reflexivity]);
    (split; [exact Hd|]); (split; [exact Hoff|]); (split; [exact Hopen|]);
    (split; [reflexivity|]); (split; [intros _; exact Hmoff|]);
    (split; [intros _; lia|]); (split; [try exact Hmap; intros; try discriminate; lia|]);
    (split; [lia|]);
    intros; discriminate.
Qed.

Lemma next_msize_same m d pos :
  nlen d <= m -> next_msize m {| a_data := d; a_pos := pos; a_open := true |} = m.
Proof.
  intros H. unfold next_msize. mm_simpl.
  destruct (nlen d <=? m) eqn:E; [reflexivity|lia].
Qed.

Theorem mmap_step_fs f a c :
  R_mmap f a -> well_formed_call a c -> grow_okb (mm_msize f) a c = true ->
  R_mmap (fst (step_mmap imm f c)) (fst (step_abs a c)) /\
  obs (snd (step_mmap imm f c)) = obs (snd (step_abs a c)) /\
  mm_msize (fst (step_mmap imm f c)) = next_msize (mm_msize f) (fst (step_abs a c)).
Proof.
  destruct f as [[kd ko kopen] size msize mapped moff]. destruct a as [d pos o].
  unfold R_mmap at 1, well_formed_call, grow_okb. mm_simpl.
  intros (-> & -> & -> & -> & Hmoff & Hcover & Hmap & Hmi & Hclosed) Hwf Hgrow.
  destruct o.
  - (* open *)
    specialize (Hmoff eq_refl). specialize (Hcover eq_refl). subst moff. clear Hclosed.
    destruct c as [p o1|p|n o1|n|o1|sz|s e| | |];
      unfold step_mmap, step_abs in *;
      cbn [a_data a_pos a_open negb wf_callb fst] in *.
    + (* WriteAt *)
      unfold mm_WriteAt, osf_WriteAt. mm_simpl. cbn [negb].
      assert (nlen p =? 0 = false) as -> by lia. cbn [fst snd].
      rewrite nlen_write_at in Hgrow.
      split_AC.
      apply mm_mremap_R; unfold mm_with; mm_simpl; auto.
      * rewrite nlen_write_at. destruct (nlen d <? o1 + nlen p) eqn:E; lia.
      * destruct (nlen d <? o1 + nlen p) eqn:E; lia.
    + (* Write *)
      unfold mm_Write, osf_Write. mm_simpl. cbn [negb].
      assert (nlen p =? 0 = false) as -> by lia. cbn [fst snd].
      rewrite nlen_write_at in Hgrow.
      split_AC.
      apply mm_mremap_R; unfold mm_with; mm_simpl; auto.
      * rewrite nlen_write_at. destruct (nlen d <? pos + nlen p) eqn:E; lia.
      * destruct (nlen d <? pos + nlen p) eqn:E; lia.
    + (* ReadAt *)
      unfold osf_ReadAt. mm_simpl. cbn [negb fst snd].
      assert (n =? 0 = false) as -> by lia.
      rewrite next_msize_same by lia.
      split; [|split; reflexivity]. mm_R.
    + (* Read *)
      unfold mm_Read, osf_Read, mm_with. mm_simpl. cbn [negb fst snd]. mm_simpl.
      rewrite next_msize_same by lia.
      split; [|split; [|reflexivity]].
      * mm_R.
      * cbn [obs]. f_equal. lia.
    + (* Seek *)
      unfold mm_Seek, osf_Seek, mm_with. mm_simpl. cbn [negb fst snd]. mm_simpl.
      rewrite next_msize_same by lia.
      split; [|split; reflexivity]. mm_R.
    + (* Truncate *)
      unfold mm_Truncate, osf_Truncate. mm_simpl. cbn [negb fst snd].
      rewrite nlen_truncate in Hgrow.
      split_AC.
      apply mm_mremap_R; unfold mm_with; mm_simpl; auto.
      rewrite nlen_truncate. reflexivity.
    + (* Slice: inside the mapping and inside the file *)
      unfold mm_Slice. mm_simpl.
      assert (Hsame : fst (if nlen d <? e
                           then ({| a_data := d; a_pos := pos; a_open := true |}, RErrEOF)
                           else ({| a_data := d; a_pos := pos; a_open := true |},
                                 RBytes (read_at d s (e - s)) false))
                      = {| a_data := d; a_pos := pos; a_open := true |})
        by (destruct (nlen d <? e); reflexivity).
      rewrite Hsame. cbn [fst snd].
      rewrite next_msize_same by lia.
      split; [|split; [|reflexivity]].
      * mm_R.
      * destruct (nlen d <? e) eqn:E1; cbn [snd]; [reflexivity|].
        destruct mapped; cbn [negb].
        -- destruct (e <? s) eqn:E2; [exfalso; lia|].
           destruct (msize <? e) eqn:E3; [exfalso; lia|]. reflexivity.
        -- exfalso. specialize (Hmap eq_refl). lia.
    + (* Stat *)
      unfold osf_Stat. mm_simpl. cbn [negb fst snd].
      rewrite next_msize_same by lia.
      split; [|split; reflexivity]. mm_R.
    + (* Sync *)
      unfold osf_Sync. mm_simpl. cbn [negb fst snd].
      rewrite next_msize_same by lia.
      split; [|split; reflexivity]. mm_R.
    + (* Close *)
      unfold mm_Close, mm_munmap, osf_Close, mm_with, next_msize. mm_simpl.
      destruct mapped; [|specialize (Hmap eq_refl); subst msize];
        mm_simpl; cbn [negb fst snd]; mm_simpl;
        (split; [|split; reflexivity]); mm_R.
  - (* closed *)
    specialize (Hclosed eq_refl). subst mapped. specialize (Hmap eq_refl). subst msize.
    clear Hmoff Hcover Hgrow Hmi.
    destruct c as [p o1|p|n o1|n|o1|sz|s e| | |];
      unfold step_mmap, step_abs, mm_WriteAt, mm_Write, mm_Read, mm_Seek, mm_Truncate,
        mm_Slice, mm_Close, mm_munmap, mm_with, next_msize,
        osf_WriteAt, osf_Write, osf_ReadAt, osf_Read, osf_Seek,
        osf_Truncate, osf_Stat, osf_Sync, osf_Close;
      cbn [mm_k mm_size mm_msize mm_mapped mm_off k_data k_off k_open
           a_data a_pos a_open negb wf_callb fst snd] in *.
    + assert (nlen p =? 0 = false) as -> by lia. cbn [fst snd]. mm_simpl.
      split; [|split; reflexivity]. mm_R.
    + split; [|split; reflexivity]. mm_R.
    + assert (n =? 0 = false) as -> by lia. split; [|split; reflexivity]. mm_R.
    + split; [|split; reflexivity]. mm_R.
    + split; [|split; reflexivity]. mm_R.
    + split; [|split; reflexivity]. mm_R.
    + (* Slice of a closed file: end <= size, so the nil-data test is reached *)
      assert (nlen d <? e = false) as -> by lia. cbn [fst snd].
      split; [|split; reflexivity]. mm_R.
    + split; [|split; reflexivity]. mm_R.
    + split; [|split; reflexivity]. mm_R.
    + split; [|split; reflexivity]. mm_R.
Qed.

End MMapProofs.

(* the statements in the form "let (conc', r) := ... in ..." *)
Corollary mem_step f a c :
  R_mem f a -> well_formed_call a c ->
  let (f', r) := step_mem f c in let (a', r') := step_abs a c in
  R_mem f' a' /\ obs r = obs r'.
Proof.
  intros HR Hwf. pose proof (mem_step_fs f a c HR Hwf) as H.
  destruct (step_mem f c) as [f' r]. destruct (step_abs a c) as [a' r']. exact H.
Qed.

Corollary os_step k a c :
  R_os k a -> well_formed_call a c ->
  let (k', r) := step_os k c in let (a', r') := step_abs a c in
  R_os k' a' /\ obs r = obs r'.
Proof.
  intros HR Hwf. pose proof (os_step_fs k a c HR Hwf) as H.
  destruct (step_os k c) as [k' r]. destruct (step_abs a c) as [a' r']. exact H.
Qed.

Corollary mmap_step imm (Himm : 0 < imm) f a c :
  R_mmap imm f a -> well_formed_call a c -> grow_okb (mm_msize f) a c = true ->
  let (f', r) := step_mmap imm f c in let (a', r') := step_abs a c in
  R_mmap imm f' a' /\ obs r = obs r'.
Proof.
  intros HR Hwf Hg. pose proof (mmap_step_fs imm Himm f a c HR Hwf Hg) as H.
  destruct (step_mmap imm f c) as [f' r]. destruct (step_abs a c) as [a' r'].
  cbn [fst snd] in H. tauto.
Qed.

(* ================================================================== *)
(** * 9. Call sequences *)

Lemma run_cons {S} (step : S -> call -> S * res) s c cs :
  run step s (c :: cs)
  = (fst (run step (fst (step s c)) cs), snd (step s c) :: snd (run step (fst (step s c)) cs)).
Proof.
  cbn [run]. destruct (step s c) as [s1 r]. cbn [fst snd].
  destruct (run step s1 cs) as [s2 rs]. reflexivity.
Qed.

Lemma run_app {S} (step : S -> call -> S * res) cs1 : forall s cs2,
  fst (run step s (cs1 ++ cs2)) = fst (run step (fst (run step s cs1)) cs2).
Proof.
  induction cs1 as [|c cs1 IH]; intros s cs2; [reflexivity|].
  cbn [app]. rewrite !run_cons. cbn [fst]. apply IH.
Qed.

(* generic lifting of a one-step simulation that needs only well-formedness *)
Lemma run_sim {S} (step : S -> call -> S * res) (R : S -> afile -> Prop)
  (Hstep : forall s a c, R s a -> well_formed_call a c ->
     R (fst (step s c)) (fst (step_abs a c)) /\
     obs (snd (step s c)) = obs (snd (step_abs a c))) :
  forall cs s a, R s a -> seq_wf a cs = true ->
    R (fst (run step s cs)) (fst (run step_abs a cs)) /\
    map obs (snd (run step s cs)) = map obs (snd (run step_abs a cs)).
Proof.
  induction cs as [|c cs IH]; intros s a HR Hwf.
  - cbn [run fst snd map]. auto.
  - cbn [seq_wf] in Hwf. apply andb_prop in Hwf. destruct Hwf as [Hc Hcs].
    destruct (Hstep s a c HR Hc) as [HR1 Hobs].
    destruct (IH _ _ HR1 Hcs) as [HR2 Hobs2].
    rewrite !run_cons. cbn [fst snd map]. split; [exact HR2|].
    rewrite Hobs, Hobs2. reflexivity.
Qed.

Section Sequences.
Variable imm : N.
Hypothesis imm_pos : 0 < imm.

(* PRECISE side condition for the mapped file, as a boolean function of the call sequence
   (and of the state in which it starts): every call is well formed and no single call grows
   the file beyond twice the mapping size current at that moment. *)
Fixpoint seq_ok (m : N) (a : afile) (cs : list call) : bool :=
  match cs with
  | [] => true
  | c :: cs' =>
      wf_callb a c && grow_okb m a c &&
      seq_ok (next_msize imm m (fst (step_abs a c))) (fst (step_abs a c)) cs'
  end.

(* SUFFICIENT side condition that does not mention the mapping: no single call grows the
   file by more than initialMmapSize.  For the database: every growth is one record
   (<= 512 MiB + 64 KiB + 10), one bucket (512) or one header (512), all < 1 GiB. *)
Definition small_growb (a : afile) (c : call) : bool :=
  nlen (a_data (fst (step_abs a c))) <=? nlen (a_data a) + imm.

Fixpoint seq_small (a : afile) (cs : list call) : bool :=
  match cs with
  | [] => true
  | c :: cs' => wf_callb a c && small_growb a c && seq_small (fst (step_abs a c)) cs'
  end.

Definition init_msize (d0 : bytes) : N := next_msize imm 0 (abs_open d0).
Definition calls_ok (d0 : bytes) (cs : list call) : bool :=
  seq_ok (init_msize d0) (abs_open d0) cs.
Definition calls_small (d0 : bytes) (cs : list call) : bool := seq_small (abs_open d0) cs.

Lemma seq_ok_wf cs : forall m a, seq_ok m a cs = true -> seq_wf a cs = true.
Proof.
  induction cs as [|c cs IH]; intros m a H; [reflexivity|].
  cbn [seq_ok seq_wf] in *.
  apply andb_prop in H. destruct H as [H H2]. apply andb_prop in H. destruct H as [H0 H1].
  rewrite H0. cbn [andb]. eapply IH. exact H2.
Qed.

Lemma seq_ok_app cs1 : forall m a cs2,
  seq_ok m a (cs1 ++ cs2) = true -> seq_ok m a cs1 = true.
Proof.
  induction cs1 as [|c cs1 IH]; intros m a cs2 H; [reflexivity|].
  cbn [app seq_ok] in *.
  apply andb_prop in H. destruct H as [H H2]. rewrite H. cbn [andb]. eapply IH. exact H2.
Qed.

(* ghost invariant used to derive the precise condition from the sufficient one *)
Definition ghost_inv (m : N) (a : afile) : Prop :=
  (a_open a = false -> m = 0) /\ (m = 0 \/ imm <= m) /\
  (a_open a = true -> nlen (a_data a) <= m).

Lemma step_abs_closed a c : a_open a = false -> step_abs a c = (a, RErrClosed).
Proof. intros H. unfold step_abs. rewrite H. reflexivity. Qed.

Lemma ghost_step m a c :
  ghost_inv m a -> small_growb a c = true ->
  grow_okb m a c = true /\ ghost_inv (next_msize imm m (fst (step_abs a c))) (fst (step_abs a c)).
Proof.
  intros (Hc & Hm & Ho) Hs. unfold small_growb, grow_okb in *.
  assert (Hg : (m =? 0) || (nlen (a_data (fst (step_abs a c))) <=? 2 * m) = true).
  { destruct (a_open a) eqn:Eo.
    - specialize (Ho eq_refl). lia.
    - specialize (Hc eq_refl). lia. }
  split; [exact Hg|].
  unfold ghost_inv, next_msize.
  destruct (a_open (fst (step_abs a c))) eqn:Eo'.
  - set (sz := nlen (a_data (fst (step_abs a c)))) in *.
    cbv zeta.
    destruct (sz <=? m) eqn:E1; [|destruct (m =? 0) eqn:E2; [destruct (imm <? sz) eqn:E3|]];
      (split; [intros; discriminate|]); (split; [lia|]); intros _; lia.
  - split; [reflexivity|]. split; [left; reflexivity|]. intros; discriminate.
Qed.

Lemma seq_small_ok cs : forall m a,
  ghost_inv m a -> seq_small a cs = true -> seq_ok m a cs = true.
Proof.
  induction cs as [|c cs IH]; intros m a HG H; [reflexivity|].
  cbn [seq_small seq_ok] in *.
  apply andb_prop in H. destruct H as [H H2]. apply andb_prop in H. destruct H as [H0 H1].
  destruct (ghost_step m a c HG H1) as [Hg HG'].
  rewrite H0, Hg. cbn [andb]. apply IH; assumption.
Qed.

Lemma ghost_inv_init d0 : ghost_inv (init_msize d0) (abs_open d0).
Proof.
  unfold ghost_inv, init_msize, next_msize, abs_open. cbn [a_open a_data].
  change (nlen d0 <=? 0) with (nlen d0 <=? 0).
  destruct (nlen d0 <=? 0) eqn:E1; [|change (0 =? 0) with true; cbv iota;
                                      destruct (imm <? nlen d0) eqn:E3];
    (split; [intros; discriminate|]); (split; [lia|]); intros _; lia.
Qed.

Theorem calls_small_ok d0 cs : calls_small d0 cs = true -> calls_ok d0 cs = true.
Proof. apply seq_small_ok. apply ghost_inv_init. Qed.

(* lifting of the mmap simulation *)
Lemma run_sim_mmap cs : forall f a,
  R_mmap imm f a -> seq_ok (mm_msize f) a cs = true ->
  R_mmap imm (fst (run (step_mmap imm) f cs)) (fst (run step_abs a cs)) /\
  map obs (snd (run (step_mmap imm) f cs)) = map obs (snd (run step_abs a cs)).
Proof.
  induction cs as [|c cs IH]; intros f a HR H.
  - cbn [run fst snd map]. auto.
  - cbn [seq_ok] in H.
    apply andb_prop in H. destruct H as [H H2]. apply andb_prop in H. destruct H as [H0 H1].
    destruct (mmap_step_fs imm imm_pos f a c HR H0 H1) as (HR1 & Hobs & Hm).
    rewrite <- Hm in H2.
    destruct (IH _ _ HR1 H2) as [HR2 Hobs2].
    rewrite !run_cons. cbn [fst snd map]. split; [exact HR2|].
    rewrite Hobs, Hobs2. reflexivity.
Qed.

(* initial states: OpenFile of a file with contents d0 *)
Lemma R_mem_open d0 : R_mem (mem_open d0) (abs_open d0).
Proof. unfold R_mem, mem_open, abs_open. cbn. auto. Qed.

Lemma R_os_open d0 : R_os (os_open d0) (abs_open d0).
Proof. unfold R_os, os_open, abs_open. cbn. auto. Qed.

Lemma R_mmap_open d0 :
  R_mmap imm (mmap_open imm d0) (abs_open d0) /\ mm_msize (mmap_open imm d0) = init_msize d0.
Proof.
  unfold mmap_open, abs_open, init_msize.
  apply (mm_mremap_R imm imm_pos); cbn [mm_k mm_size mm_msize mm_mapped mm_off os_open
                                         k_data k_off k_open]; auto.
Qed.

(* observed results and final contents *)
Definition run_abs d0 cs := map obs (snd (run step_abs (abs_open d0) cs)).
Definition run_mem d0 cs := map obs (snd (run step_mem (mem_open d0) cs)).
Definition run_os d0 cs := map obs (snd (run step_os (os_open d0) cs)).
Definition run_mmap d0 cs := map obs (snd (run (step_mmap imm) (mmap_open imm d0) cs)).

Definition final_abs d0 cs := a_data (fst (run step_abs (abs_open d0) cs)).
Definition final_mem d0 cs := m_buf (sm_file (fst (run step_mem (mem_open d0) cs))).
Definition final_os d0 cs := k_data (fst (run step_os (os_open d0) cs)).
Definition final_mmap d0 cs :=
  k_data (mm_k (fst (run (step_mmap imm) (mmap_open imm d0) cs))).

Theorem mem_refines_abs d0 cs :
  seq_wf (abs_open d0) cs = true ->
  run_mem d0 cs = run_abs d0 cs /\ final_mem d0 cs = final_abs d0 cs.
Proof.
  intros H.
  destruct (run_sim step_mem R_mem mem_step_fs cs _ _ (R_mem_open d0) H) as [HR Ho].
  split; [exact Ho|]. destruct HR as (Hd & _). exact Hd.
Qed.

Theorem os_refines_abs d0 cs :
  seq_wf (abs_open d0) cs = true ->
  run_os d0 cs = run_abs d0 cs /\ final_os d0 cs = final_abs d0 cs.
Proof.
  intros H.
  destruct (run_sim step_os R_os os_step_fs cs _ _ (R_os_open d0) H) as [HR Ho].
  split; [exact Ho|]. destruct HR as (Hd & _). exact Hd.
Qed.

Theorem mmap_refines_abs d0 cs :
  calls_ok d0 cs = true ->
  run_mmap d0 cs = run_abs d0 cs /\ final_mmap d0 cs = final_abs d0 cs /\
  R_mmap imm (fst (run (step_mmap imm) (mmap_open imm d0) cs))
             (fst (run step_abs (abs_open d0) cs)).
Proof.
  intros H. destruct (R_mmap_open d0) as [HR0 Hm0].
  unfold calls_ok in H. rewrite <- Hm0 in H.
  destruct (run_sim_mmap cs _ _ HR0 H) as [HR Ho].
  split; [exact Ho|]. split; [|exact HR]. destruct HR as (Hd & _). exact Hd.
Qed.

(** ** C17 *)
Theorem C17_fs_equivalent d0 cs :
  calls_ok d0 cs = true ->
  run_mem d0 cs = run_os d0 cs /\ run_os d0 cs = run_mmap d0 cs /\
  run_mmap d0 cs = run_abs d0 cs /\
  final_mem d0 cs = final_os d0 cs /\ final_os d0 cs = final_mmap d0 cs /\
  final_mmap d0 cs = final_abs d0 cs.
Proof.
  intros H. pose proof (seq_ok_wf _ _ _ H) as Hwf.
  destruct (mem_refines_abs d0 cs Hwf) as [M1 M2].
  destruct (os_refines_abs d0 cs Hwf) as [O1 O2].
  destruct (mmap_refines_abs d0 cs H) as (P1 & P2 & _).
  rewrite M1, O1, P1, M2, O2, P2. auto 7.
Qed.

Corollary C17_fs_equivalent_small d0 cs :
  calls_small d0 cs = true ->
  run_mem d0 cs = run_os d0 cs /\ run_os d0 cs = run_mmap d0 cs /\
  final_mem d0 cs = final_os d0 cs /\ final_os d0 cs = final_mmap d0 cs.
Proof.
  intros H. destruct (C17_fs_equivalent d0 cs (calls_small_ok d0 cs H)) as (A & B & _ & C & D & _).
  auto.
Qed.

Lemma abs_never_panics a c : snd (step_abs a c) <> RPanic /\ snd (step_abs a c) <> RFault.
Proof.
  unfold step_abs. destruct (negb (a_open a)); [cbn [snd]; split; discriminate|].
  destruct c; cbn [snd]; try (split; discriminate).
  destruct (nlen (a_data a) <? e); cbn [snd]; split; discriminate.
Qed.

Lemma run_abs_never_panics cs : forall a,
  ~ In RPanic (snd (run step_abs a cs)) /\ ~ In RFault (snd (run step_abs a cs)).
Proof.
  induction cs as [|c cs IH]; intros a.
  - cbn [run snd In]. tauto.
  - rewrite run_cons. cbn [snd In].
    destruct (abs_never_panics a c) as [H1 H2].
    destruct (IH (fst (step_abs a c))) as [H3 H4].
    split; intros [H|H]; auto.
Qed.

Lemma obs_panic r : obs r = RPanic -> r = RPanic.
Proof. destruct r; cbn [obs]; intros H; try discriminate; reflexivity. Qed.
Lemma obs_fault r : obs r = RFault -> r = RFault.
Proof. destruct r; cbn [obs]; intros H; try discriminate; reflexivity. Qed.

Theorem C17_mmap_never_panics d0 cs :
  calls_ok d0 cs = true ->
  ~ In RPanic (snd (run (step_mmap imm) (mmap_open imm d0) cs)) /\
  ~ In RFault (snd (run (step_mmap imm) (mmap_open imm d0) cs)).
Proof.
  intros H. destruct (mmap_refines_abs d0 cs H) as (P1 & _).
  unfold run_mmap, run_abs in P1.
  destruct (run_abs_never_panics cs (abs_open d0)) as [A1 A2].
  split; intros Hin.
  - apply (in_map obs) in Hin. rewrite P1 in Hin. change (obs RPanic) with RPanic in Hin.
    apply in_map_iff in Hin. destruct Hin as (r & Hr & Hin).
    apply obs_panic in Hr. subst r. exact (A1 Hin).
  - apply (in_map obs) in Hin. rewrite P1 in Hin. change (obs RFault) with RFault in Hin.
    apply in_map_iff in Hin. destruct Hin as (r & Hr & Hin).
    apply obs_fault in Hr. subst r. exact (A2 Hin).
Qed.

(* the invariant, in every state reached along an admissible sequence *)
Theorem C17_mmap_invariant d0 cs1 cs2 :
  calls_ok d0 (cs1 ++ cs2) = true ->
  let f := fst (run (step_mmap imm) (mmap_open imm d0) cs1) in
  (mm_mapped f = true -> mm_size f <= mm_msize f) /\
  mm_size f = nlen (k_data (mm_k f)) /\
  (k_open (mm_k f) = true -> 0 < mm_size f -> mm_mapped f = true).
Proof.
  intros H. apply seq_ok_app in H.
  destruct (mmap_refines_abs d0 cs1 H) as (_ & _ & HR).
  cbv zeta. destruct HR as (Hd & _ & Ho & Hs & _ & Hcov & Hmap & _ & Hcl).
  rewrite Hd, Ho. split; [|split; [exact Hs|]].
  - intros Hm. destruct (a_open (fst (run step_abs (abs_open d0) cs1))) eqn:E.
    + apply Hcov. reflexivity.
    + rewrite (Hcl eq_refl) in Hm. discriminate.
  - intros Hopen Hpos. specialize (Hcov Hopen).
    destruct (mm_mapped (fst (run (step_mmap imm) (mmap_open imm d0) cs1))) eqn:E;
      [reflexivity|]. specialize (Hmap eq_refl). lia.
Qed.

End Sequences.

(* ================================================================== *)
(** * 10. FINDING: one doubling is not always enough (mmapSize < size is reachable) *)

(* osMMapFile.mremap doubles the mapping ONCE.  If a single WriteAt/Write/Truncate takes the
   file beyond twice the current mapping, mremap returns with mmapSize < size; Slice only
   checks `end > f.size`, so a Slice of the tail does data[start:end] with end > len(data):
   a run-time panic (slice bounds out of range), where fs.Mem and fs.OS return the bytes.
   Shown here with initialMmapSize = 4; with the real 1 GiB it needs one call that grows a
   file from <= 1 GiB (or from <= mmapSize) to more than twice the mapping, e.g. Truncate or
   a sparse WriteAt -- the database itself never does that (see [small_growb]). *)
Definition gap_calls : list call :=
  [CWriteAt [1;2;3;4] 0; CWriteAt [1;2;3;4;5;6;7;8;9;10;11;12;13] 0; CSlice 0 13].

Theorem mmap_gap_refuted :
  exists (imm : N) (cs : list call),
    0 < imm /\ seq_wf (abs_open []) cs = true /\
    In RPanic (snd (run (step_mmap imm) (mmap_open imm []) cs)) /\
    snd (run step_os (os_open []) cs) = snd (run step_mem (mem_open []) cs) /\
    ~ In RPanic (snd (run step_os (os_open []) cs)) /\
    calls_ok imm [] cs = false.
Proof.
  exists 4, gap_calls. split; [reflexivity|]. split; [vm_compute; reflexivity|].
  split; [vm_compute; tauto|]. split; [vm_compute; reflexivity|].
  split; [|vm_compute; reflexivity].
  vm_compute. intros [H|[H|[H|[]]]]; discriminate.
Qed.

(* the state after the second call: mapped, size 13, mmapSize 8 *)
Example mmap_gap_state :
  let f := fst (run (step_mmap 4) (mmap_open 4 []) [CWriteAt [1;2;3;4] 0;
                 CWriteAt [1;2;3;4;5;6;7;8;9;10;11;12;13] 0]) in
  (mm_mapped f, mm_size f, mm_msize f) = (true, 13, 8).
Proof. vm_compute. reflexivity. Qed.

(* the same through file.extend-like Truncate calls *)
Example mmap_gap_truncate :
  snd (run (step_mmap 4) (mmap_open 4 []) [CTruncate 4; CTruncate 13; CSlice 12 13])
  = [RUnit; RUnit; RPanic]
  /\ snd (run step_os (os_open []) [CTruncate 4; CTruncate 13; CSlice 12 13])
  = [RUnit; RUnit; RBytes [0] false].
Proof. vm_compute. auto. Qed.

(* the gap heals at the next growing call (mremap doubles again) *)
Example mmap_gap_heals :
  snd (run (step_mmap 4) (mmap_open 4 []) [CTruncate 4; CTruncate 13; CTruncate 14; CSlice 12 13])
  = [RUnit; RUnit; RUnit; RBytes [0] false].
Proof. vm_compute. reflexivity. Qed.

(* ================================================================== *)
(** * 11. The differences excluded by [well_formed_call] / hidden by [obs] are real *)

(* D-a (hidden by obs): short ReadAt -- fs.Mem: (k, nil); os.File: (k, io.EOF) *)
Lemma readat_short_differs d n off :
  0 < nlen (read_at d off n) < n ->
  mem_ReadAt {| m_buf := d; m_size := nlen d; m_refs := 1 |} n off
  = RBytes (read_at d off n) false /\
  osf_ReadAt {| k_data := d; k_off := 0; k_open := true |} n off
  = RBytes (read_at d off n) true.
Proof.
  intros H. rewrite mem_ReadAt_exact. unfold osf_ReadAt. cbn [k_data k_open negb].
  rewrite nlen_read_at in H.
  assert (nlen d <=? off = false) as -> by lia.
  assert (n =? 0 = false) as -> by lia.
  split; [reflexivity|]. f_equal. rewrite nlen_read_at. lia.
Qed.

Example diff_readat_short :
  snd (step_mem (mem_open [1;2;3]) (CReadAt 4 1)) = RBytes [2;3] false /\
  snd (step_os (os_open [1;2;3]) (CReadAt 4 1)) = RBytes [2;3] true /\
  snd (step_mmap 8 (mmap_open 8 [1;2;3]) (CReadAt 4 1)) = RBytes [2;3] true.
Proof. vm_compute. auto. Qed.

(* D-b: zero-length ReadAt / Read at or beyond the end: fs.Mem io.EOF, os.File nil *)
Example diff_readat_zero :
  snd (step_mem (mem_open [1]) (CReadAt 0 1)) = RBytes [] true /\
  snd (step_os (os_open [1]) (CReadAt 0 1)) = RBytes [] false.
Proof. vm_compute. auto. Qed.
Example diff_read_zero :
  snd (step_mem (mem_open []) (CRead 0)) = RBytes [] true /\
  snd (step_os (os_open []) (CRead 0)) = RBytes [] false.
Proof. vm_compute. auto. Qed.

(* D-c: zero-length WriteAt beyond the end: fs.Mem grows the file, the kernel file does not
   change, and osMMapFile.size becomes larger than the file: the next Slice touches mapped
   memory beyond the end of the file *)
Example diff_writeat_empty_beyond :
  final_mem [1] [CWriteAt [] 5] = [1;0;0;0;0] /\
  final_os [1] [CWriteAt [] 5] = [1] /\
  final_mmap 8 [1] [CWriteAt [] 5] = [1] /\
  mm_size (fst (run (step_mmap 8) (mmap_open 8 [1]) [CWriteAt [] 5])) = 5 /\
  snd (run (step_mmap 8) (mmap_open 8 [1]) [CWriteAt [] 5; CSlice 0 5]) = [RInt 0; RFault].
Proof. vm_compute. auto 6. Qed.

(* D-d: zero-length WriteAt on a closed file: os.File returns (0, nil) *)
Example diff_writeat_empty_closed :
  snd (run step_mem (mem_open [1]) [CClose; CWriteAt [] 0]) = [RUnit; RErrClosed] /\
  snd (run step_os (os_open [1]) [CClose; CWriteAt [] 0]) = [RUnit; RInt 0].
Proof. vm_compute. auto. Qed.

(* D-e: zero-length Slice: osFile always succeeds (even closed, even beyond the end);
   osMMapFile returns ErrClosed on an OPEN empty file (nothing is mapped) *)
Example diff_slice_zero_closed :
  snd (run step_mem (mem_open [1]) [CClose; CSlice 0 0]) = [RUnit; RErrClosed] /\
  snd (run step_os (os_open [1]) [CClose; CSlice 0 0]) = [RUnit; RBytes [] false].
Proof. vm_compute. auto. Qed.
Example diff_slice_zero_beyond :
  snd (step_mem (mem_open [1]) (CSlice 7 7)) = RErrEOF /\
  snd (step_os (os_open [1]) (CSlice 7 7)) = RBytes [] false.
Proof. vm_compute. auto. Qed.
Example diff_slice_zero_empty_mmap :
  snd (step_mem (mem_open []) (CSlice 0 0)) = RBytes [] false /\
  snd (step_os (os_open []) (CSlice 0 0)) = RBytes [] false /\
  snd (step_mmap 8 (mmap_open 8 []) (CSlice 0 0)) = RErrClosed.
Proof. vm_compute. auto. Qed.

(* D-f: Slice beyond the size of a closed file: osMMapFile tests the size first *)
Example diff_slice_closed_eof :
  snd (run step_mem (mem_open [1]) [CClose; CSlice 0 5]) = [RUnit; RErrClosed] /\
  snd (run step_os (os_open [1]) [CClose; CSlice 0 5]) = [RUnit; RErrClosed] /\
  snd (run (step_mmap 8) (mmap_open 8 [1]) [CClose; CSlice 0 5]) = [RUnit; RErrEOF].
Proof. vm_compute. auto. Qed.

(* D-g (outside the one-handle model): memFile.refs is shared by all handles of a file, so
   with two handles open, Close of one does not close it: it still reads. *)
Example diff_mem_two_handles :
  snd (run step_mem {| sm_file := {| m_buf := [1]; m_size := 1; m_refs := 2 |}; sm_off := 0 |}
         [CClose; CRead 1]) = [RUnit; RBytes [1] false].
Proof. vm_compute. reflexivity. Qed.

(* ================================================================== *)
(** * 12. Non-vacuity: growth past the mapping, shrink, slice at the end, read to EOF *)

Definition demo_calls : list call :=
  [CWrite [1;2;3];                 (* first mapping: 4 *)
   CWriteAt [4;5;6;7;8] 3;         (* size 8 > 4: remap to 8 *)
   CSlice 5 8;                     (* slice at the end *)
   CWriteAt [9] 8;                 (* size 9 > 8: remap to 16 *)
   CSlice 0 9;
   CSlice 8 10;                    (* beyond the end: io.EOF *)
   CTruncate 2;                    (* shrink *)
   CStatSize;
   CSlice 1 3;                     (* io.EOF after the shrink *)
   CSeekStart 0;
   CRead 5;                        (* short read *)
   CRead 5;                        (* 0, io.EOF *)
   CReadAt 4 1;                    (* short ReadAt: flag differs, hidden by obs *)
   CTruncate 6;                    (* grow with zeros *)
   CSlice 0 6;
   CWriteAt [7;7] 8;               (* sparse write: zero gap *)
   CSlice 4 10;
   CSlice 3 3;                     (* zero-length slice inside the file (empty key) *)
   CSync; CClose; CStatSize; CSlice 0 2; CClose].

Example demo_ok : calls_ok 4 [] demo_calls = true.
Proof. vm_compute. reflexivity. Qed.

Example demo_results :
  run_mem [] demo_calls
  = [RInt 3; RInt 5; RBytes [6;7;8] false; RInt 1; RBytes [1;2;3;4;5;6;7;8;9] false;
     RErrEOF; RUnit; RInt 2; RErrEOF; RInt 0; RBytes [1;2] false; RBytes [] true;
     RBytes [2] false; RUnit; RBytes [1;2;0;0;0;0] false; RInt 2;
     RBytes [0;0;0;0;7;7] false; RBytes [] false; RUnit; RUnit; RErrClosed; RErrClosed;
     RErrClosed]
  /\ run_os [] demo_calls = run_mem [] demo_calls
  /\ run_mmap 4 [] demo_calls = run_mem [] demo_calls
  /\ final_mem [] demo_calls = [1;2;0;0;0;0;0;0;7;7]
  /\ final_os [] demo_calls = [1;2;0;0;0;0;0;0;7;7]
  /\ final_mmap 4 [] demo_calls = [1;2;0;0;0;0;0;0;7;7].
Proof. vm_compute. auto 7. Qed.

(* the mapping really was re-established twice: 4 -> 8 -> 16 *)
Example demo_remaps :
  map (fun k => mm_msize (fst (run (step_mmap 4) (mmap_open 4 []) (firstn k demo_calls))))
      [0; 1; 2; 4; 7; 20]%nat
  = [0; 4; 8; 16; 16; 0].
Proof. vm_compute. reflexivity. Qed.

(* an existing file larger than initialMmapSize is mapped whole *)
Example demo_open_large :
  mm_msize (mmap_open 4 [1;2;3;4;5;6]) = 6 /\
  snd (step_mmap 4 (mmap_open 4 [1;2;3;4;5;6]) (CSlice 4 6)) = RBytes [5;6] false.
Proof. vm_compute. auto. Qed.

(* ================================================================== *)
(** * 13. The [file] wrapper of file.go *)

Record wfile (St : Type) := { w_f : St; w_size : N }.
Arguments w_f {St}. Arguments w_size {St}.

(* func (f *file) append(data []byte) (int64, error) *)
Definition w_append {St} (step : St -> call -> St * res) (w : wfile St) (data : bytes)
  : wfile St * option N :=
  let off := w_size w in
  let (f1, r) := step (w_f w) (CWriteAt data off) in
  match r with
  | RInt _ => ({| w_f := f1; w_size := off + nlen data |}, Some off)
  | _ => ({| w_f := f1; w_size := off |}, None)
  end.

(* func (f *file) extend(size uint32) (int64, error) *)
Definition w_extend {St} (step : St -> call -> St * res) (w : wfile St) (n : N)
  : wfile St * option N :=
  let off := w_size w in
  let (f1, r) := step (w_f w) (CTruncate (off + n)) in
  match r with
  | RUnit => ({| w_f := f1; w_size := off + n |}, Some off)
  | _ => ({| w_f := f1; w_size := off |}, None)
  end.

(* I2: if size is the length of the file, append returns the old size, the file becomes
   old ++ data and size is the length again. *)
Theorem file_wrapper_append a data :
  a_open a = true ->
  let (w1, r) := w_append step_abs {| w_f := a; w_size := nlen (a_data a) |} data in
  r = Some (nlen (a_data a)) /\
  a_data (w_f w1) = a_data a ++ data /\
  w_size w1 = nlen (a_data (w_f w1)) /\
  a_pos (w_f w1) = a_pos a /\ a_open (w_f w1) = true.
Proof.
  intros Ho. unfold w_append, step_abs. cbn [w_f w_size]. rewrite Ho. cbn [negb].
  cbn [w_f w_size a_data a_pos a_open]. rewrite write_at_end, nlen_app. auto.
Qed.

(* a stale size LARGER than the file (D2: size kept after the file was cut underneath the
   wrapper): the record lands at the stale offset, after a gap of zeros; the returned
   offset is the stale size; afterwards size is the length again. *)
Theorem file_wrapper_stale_gap a sz data :
  a_open a = true -> nlen (a_data a) <= sz ->
  let (w1, r) := w_append step_abs {| w_f := a; w_size := sz |} data in
  r = Some sz /\
  a_data (w_f w1) = a_data a ++ zeros (sz - nlen (a_data a)) ++ data /\
  w_size w1 = nlen (a_data (w_f w1)).
Proof.
  intros Ho Hsz. unfold w_append, step_abs. cbn [w_f w_size]. rewrite Ho. cbn [negb].
  cbn [w_f w_size a_data a_pos a_open]. rewrite write_at_gap by exact Hsz.
  rewrite !nlen_app, nlen_zeros. split; [reflexivity|]. split; [reflexivity|]. lia.
Qed.

(* a stale size SMALLER than the file: append overwrites the tail in place *)
Lemma file_wrapper_stale_overwrite a sz data :
  a_open a = true -> sz + nlen data <= nlen (a_data a) ->
  let (w1, r) := w_append step_abs {| w_f := a; w_size := sz |} data in
  r = Some sz /\
  a_data (w_f w1) = ntake sz (a_data a) ++ data ++ ndrop (sz + nlen data) (a_data a) /\
  nlen (a_data (w_f w1)) = nlen (a_data a).
Proof.
  intros Ho Hsz. unfold w_append, step_abs. cbn [w_f w_size]. rewrite Ho. cbn [negb].
  cbn [w_f w_size a_data a_pos a_open]. split; [reflexivity|].
  rewrite nlen_write_at. split; [|lia].
  unfold write_at. replace (sz - nlen (a_data a)) with 0 by lia. reflexivity.
Qed.

Theorem file_wrapper_extend a n :
  a_open a = true ->
  let (w1, r) := w_extend step_abs {| w_f := a; w_size := nlen (a_data a) |} n in
  r = Some (nlen (a_data a)) /\
  a_data (w_f w1) = a_data a ++ zeros n /\
  w_size w1 = nlen (a_data (w_f w1)).
Proof.
  intros Ho. unfold w_extend, step_abs. cbn [w_f w_size]. rewrite Ho. cbn [negb].
  cbn [w_f w_size a_data a_pos a_open]. rewrite truncate_grow by lia.
  replace (nlen (a_data a) + n - nlen (a_data a)) with n by lia.
  rewrite nlen_app, nlen_zeros. auto.
Qed.

Lemma obs_int r n : obs r = RInt n -> r = RInt n.
Proof. destruct r; cbn [obs]; intros H; try discriminate; exact H. Qed.
Lemma obs_unit r : obs r = RUnit -> r = RUnit.
Proof. destruct r; cbn [obs]; intros H; try discriminate; exact H. Qed.

(* the same through any implementation that simulates the abstract file ([ok] is the extra
   side condition of the implementation: True for Mem and OS, grow_okb for OSMMap) *)
Section WrapperConcrete.
Context {St : Type} (step : St -> call -> St * res) (R : St -> afile -> Prop)
        (ok : St -> afile -> call -> Prop).
Hypothesis Hstep : forall s a c, R s a -> well_formed_call a c -> ok s a c ->
  R (fst (step s c)) (fst (step_abs a c)) /\
  obs (snd (step s c)) = obs (snd (step_abs a c)).

Lemma file_wrapper_append_conc s a data :
  R s a -> a_open a = true -> data <> [] ->
  ok s a (CWriteAt data (nlen (a_data a))) ->
  let (w1, r) := w_append step {| w_f := s; w_size := nlen (a_data a) |} data in
  r = Some (nlen (a_data a)) /\
  w_size w1 = nlen (a_data a ++ data) /\
  R (w_f w1) {| a_data := a_data a ++ data; a_pos := a_pos a; a_open := true |}.
Proof.
  intros HR Ho Hne Hok.
  assert (Hwf : well_formed_call a (CWriteAt data (nlen (a_data a)))).
  { unfold well_formed_call. cbn [wf_callb].
    destruct data as [|x l]; [congruence|]. rewrite nlen_cons. lia. }
  destruct (Hstep s a _ HR Hwf Hok) as [HR1 Hobs].
  unfold step_abs in HR1, Hobs. rewrite Ho in HR1, Hobs. cbn [negb fst snd] in HR1, Hobs.
  rewrite write_at_end in HR1. cbn [obs] in Hobs. apply obs_int in Hobs.
  unfold w_append. cbn [w_f w_size].
  destruct (step s (CWriteAt data (nlen (a_data a)))) as [s1 r1].
  cbn [fst snd] in HR1, Hobs. subst r1. cbn [w_f w_size].
  rewrite nlen_app. auto.
Qed.

Lemma file_wrapper_extend_conc s a n :
  R s a -> a_open a = true ->
  ok s a (CTruncate (nlen (a_data a) + n)) ->
  let (w1, r) := w_extend step {| w_f := s; w_size := nlen (a_data a) |} n in
  r = Some (nlen (a_data a)) /\
  w_size w1 = nlen (a_data a ++ zeros n) /\
  R (w_f w1) {| a_data := a_data a ++ zeros n; a_pos := a_pos a; a_open := true |}.
Proof.
  intros HR Ho Hok.
  assert (Hwf : well_formed_call a (CTruncate (nlen (a_data a) + n))) by reflexivity.
  destruct (Hstep s a _ HR Hwf Hok) as [HR1 Hobs].
  unfold step_abs in HR1, Hobs. rewrite Ho in HR1, Hobs. cbn [negb fst snd] in HR1, Hobs.
  rewrite truncate_grow in HR1 by lia.
  replace (nlen (a_data a) + n - nlen (a_data a)) with n in HR1 by lia.
  cbn [obs] in Hobs. apply obs_unit in Hobs.
  unfold w_extend. cbn [w_f w_size].
  destruct (step s (CTruncate (nlen (a_data a) + n))) as [s1 r1].
  cbn [fst snd] in HR1, Hobs. subst r1. cbn [w_f w_size].
  rewrite nlen_app, nlen_zeros. auto.
Qed.
End WrapperConcrete.

Definition file_wrapper_append_mem :=
  file_wrapper_append_conc step_mem R_mem (fun _ _ _ => True)
    (fun s a c HR Hwf _ => mem_step_fs s a c HR Hwf).
Definition file_wrapper_append_os :=
  file_wrapper_append_conc step_os R_os (fun _ _ _ => True)
    (fun s a c HR Hwf _ => os_step_fs s a c HR Hwf).
Definition file_wrapper_append_mmap imm (Himm : 0 < imm) :=
  file_wrapper_append_conc (step_mmap imm) (R_mmap imm)
    (fun f a c => grow_okb (mm_msize f) a c = true)
    (fun s a c HR Hwf Hok =>
       let H := mmap_step_fs imm Himm s a c HR Hwf Hok in conj (proj1 H) (proj1 (proj2 H))).
Definition file_wrapper_extend_mem :=
  file_wrapper_extend_conc step_mem R_mem (fun _ _ _ => True)
    (fun s a c HR Hwf _ => mem_step_fs s a c HR Hwf).
Definition file_wrapper_extend_os :=
  file_wrapper_extend_conc step_os R_os (fun _ _ _ => True)
    (fun s a c HR Hwf _ => os_step_fs s a c HR Hwf).
Definition file_wrapper_extend_mmap imm (Himm : 0 < imm) :=
  file_wrapper_extend_conc (step_mmap imm) (R_mmap imm)
    (fun f a c => grow_okb (mm_msize f) a c = true)
    (fun s a c HR Hwf Hok =>
       let H := mmap_step_fs imm Himm s a c HR Hwf Hok in conj (proj1 H) (proj1 (proj2 H))).

Example wrapper_demo :
  let w0 := {| w_f := mmap_open 4 [9;9]; w_size := 2 |} in
  let (w1, r1) := w_append (step_mmap 4) w0 [1;2;3] in
  let (w2, r2) := w_extend (step_mmap 4) w1 2 in
  (r1, r2, w_size w2, k_data (mm_k (w_f w2)), mm_msize (w_f w2))
  = (Some 2, Some 5, 7, [9;9;1;2;3;0;0], 8).
Proof. vm_compute. reflexivity. Qed.

Example wrapper_stale_demo :   (* file cut to 1 byte under a wrapper that still says 3 *)
  let w0 := {| w_f := os_open [9]; w_size := 3 |} in
  let (w1, r1) := w_append step_os w0 [1;2] in
  (r1, w_size w1, k_data (w_f w1)) = (Some 3, 5, [9;0;0;1;2]).
Proof. vm_compute. reflexivity. Qed.

(* ================================================================== *)
(** * 14. The call patterns of the database do not see the io.EOF flag of a short read *)

(* io.ReadFull(r, buf) = io.ReadAtLeast(r, buf, len(buf)):
     for n < min && err == nil { nn, err = r.Read(buf[n:]); n += nn }
     if n >= min { err = nil } else if n > 0 && err == EOF { err = ErrUnexpectedEOF }
   [read_full_cur]: r is the file itself (file.readHeader; bufio.Reader in the segment
   iterator fills its buffer with the same Read calls).  [read_full_at]: r is a reader that
   turns Read into ReadAt at an advancing offset (io.SectionReader). *)
Inductive rf_out := RFFull | RFEOF | RFUnexpectedEOF | RFErr (r : res) | RFFuel.

Fixpoint read_full_at {St} (step : St -> call -> St * res) (fuel : nat) (s : St)
  (off need : N) (acc : bytes) : St * (bytes * rf_out) :=
  match fuel with
  | O => (s, (acc, RFFuel))
  | Datatypes.S fuel' =>
      if need <=? nlen acc then (s, (acc, RFFull)) else
      let (s1, r) := step s (CReadAt (need - nlen acc) (off + nlen acc)) in
      match r with
      | RBytes b eof =>
          let acc' := acc ++ b in
          if eof then
            (s1, (acc', if need <=? nlen acc' then RFFull
                        else if nlen acc' =? 0 then RFEOF else RFUnexpectedEOF))
          else read_full_at step fuel' s1 off need acc'
      | _ => (s1, (acc, RFErr r))
      end
  end.

Fixpoint read_full_cur {St} (step : St -> call -> St * res) (fuel : nat) (s : St)
  (need : N) (acc : bytes) : St * (bytes * rf_out) :=
  match fuel with
  | O => (s, (acc, RFFuel))
  | Datatypes.S fuel' =>
      if need <=? nlen acc then (s, (acc, RFFull)) else
      let (s1, r) := step s (CRead (need - nlen acc)) in
      match r with
      | RBytes b eof =>
          let acc' := acc ++ b in
          if eof then
            (s1, (acc', if need <=? nlen acc' then RFFull
                        else if nlen acc' =? 0 then RFEOF else RFUnexpectedEOF))
          else read_full_cur step fuel' s1 need acc'
      | _ => (s1, (acc, RFErr r))
      end
  end.

Definition read_full_spec (d : bytes) (off need : N) : bytes * rf_out :=
  let b := read_at d off need in
  (b, if need <=? nlen b then RFFull else if nlen b =? 0 then RFEOF else RFUnexpectedEOF).

Lemma obs_bytes_inv r b x :
  obs r = RBytes b x -> exists e, r = RBytes b e /\ e && (nlen b =? 0) = x.
Proof.
  destruct r; cbn [obs]; intros H; try discriminate.
  injection H as -> <-. eexists. split; reflexivity.
Qed.

Definition is_read (c : call) : bool :=
  match c with CReadAt _ _ | CRead _ => true | _ => false end.

Section ReadFull.
Context {St : Type} (step : St -> call -> St * res) (R : St -> afile -> Prop).
Hypothesis Hrd : forall s a c, R s a -> is_read c = true -> well_formed_call a c ->
  R (fst (step s c)) (fst (step_abs a c)) /\
  obs (snd (step s c)) = obs (snd (step_abs a c)).

(* Whatever the implementation does with the flag of a short read (obs-equal to the abstract
   file), two iterations decide the loop and the outcome is the specified one. *)
Theorem read_full_at_spec fuel s d pos off need :
  R s {| a_data := d; a_pos := pos; a_open := true |} ->
  let (s', out) := read_full_at step (2 + fuel) s off need [] in
  R s' {| a_data := d; a_pos := pos; a_open := true |} /\ out = read_full_spec d off need.
Proof.
  intros HR. set (a := {| a_data := d; a_pos := pos; a_open := true |}) in *.
  cbn [Nat.add read_full_at nlen]. unfold read_full_spec. cbv zeta.
  destruct (need <=? 0) eqn:E0.
  { assert (need = 0) as -> by lia. split; [exact HR|]. reflexivity. }
  rewrite N.sub_0_r, N.add_0_r.
  assert (Hwf1 : well_formed_call a (CReadAt need off)) by (unfold well_formed_call; cbn [wf_callb]; lia).
  destruct (Hrd s a (CReadAt need off) HR eq_refl Hwf1) as [HR1 Ho1].
  destruct (step s (CReadAt need off)) as [s1 r1]. cbn [fst snd] in HR1, Ho1.
  unfold step_abs in HR1, Ho1. cbn [a a_open a_data negb fst snd obs] in HR1, Ho1.
  fold a in HR1.
  set (b := read_at d off need) in *.
  apply obs_bytes_inv in Ho1. destruct Ho1 as (e1 & -> & He1).
  cbn [app].
  destruct e1.
  { split; [exact HR1|reflexivity]. }
  destruct (need <=? nlen b) eqn:E1.
  { split; [exact HR1|reflexivity]. }
  assert (Hshort : nlen b < need) by lia.
  assert (Hwf2 : well_formed_call a (CReadAt (need - nlen b) (off + nlen b)))
    by (unfold well_formed_call; cbn [wf_callb]; lia).
  destruct (Hrd s1 a (CReadAt (need - nlen b) (off + nlen b)) HR1 eq_refl Hwf2) as [HR2 Ho2].
  destruct (step s1 (CReadAt (need - nlen b) (off + nlen b))) as [s2 r2].
  cbn [fst snd] in HR2, Ho2.
  unfold step_abs in HR2, Ho2. cbn [a a_open a_data negb fst snd obs] in HR2, Ho2.
  fold a in HR2.
  unfold b in Ho2. rewrite !read_at_after_short in Ho2 by exact Hshort. fold b in Ho2.
  apply obs_bytes_inv in Ho2. destruct Ho2 as (e2 & -> & He2).
  cbn [nlen] in He2.
  assert (e2 = true) as -> by (destruct e2; [reflexivity|exfalso; lia]).
  rewrite app_nil_r. rewrite E1.
  split; [exact HR2|reflexivity].
Qed.

Theorem read_full_cur_spec fuel s d pos need :
  R s {| a_data := d; a_pos := pos; a_open := true |} ->
  let (s', out) := read_full_cur step (2 + fuel) s need [] in
  R s' {| a_data := d; a_pos := pos + nlen (read_at d pos need); a_open := true |} /\
  out = read_full_spec d pos need.
Proof.
  intros HR. set (a := {| a_data := d; a_pos := pos; a_open := true |}) in *.
  cbn [Nat.add read_full_cur nlen]. unfold read_full_spec. cbv zeta.
  destruct (need <=? 0) eqn:E0.
  { assert (need = 0) as -> by lia. rewrite read_at_0. cbn [nlen]. rewrite N.add_0_r.
    split; [exact HR|]. reflexivity. }
  rewrite N.sub_0_r.
  assert (Hwf1 : well_formed_call a (CRead need)) by (unfold well_formed_call; cbn [wf_callb]; lia).
  destruct (Hrd s a (CRead need) HR eq_refl Hwf1) as [HR1 Ho1].
  destruct (step s (CRead need)) as [s1 r1]. cbn [fst snd] in HR1, Ho1.
  unfold step_abs in HR1, Ho1. cbn [a a_open a_data a_pos negb fst snd obs] in HR1, Ho1.
  set (b := read_at d pos need) in *.
  set (a1 := {| a_data := d; a_pos := pos + nlen b; a_open := true |}) in *.
  apply obs_bytes_inv in Ho1. destruct Ho1 as (e1 & -> & He1).
  cbn [app].
  destruct e1.
  { split; [exact HR1|reflexivity]. }
  destruct (need <=? nlen b) eqn:E1.
  { split; [exact HR1|reflexivity]. }
  assert (Hshort : nlen b < need) by lia.
  assert (Hwf2 : well_formed_call a1 (CRead (need - nlen b)))
    by (unfold well_formed_call; cbn [wf_callb]; lia).
  destruct (Hrd s1 a1 (CRead (need - nlen b)) HR1 eq_refl Hwf2) as [HR2 Ho2].
  destruct (step s1 (CRead (need - nlen b))) as [s2 r2].
  cbn [fst snd] in HR2, Ho2.
  unfold step_abs in HR2, Ho2. cbn [a1 a_open a_data a_pos negb fst snd obs] in HR2, Ho2.
  unfold b in HR2, Ho2. rewrite !read_at_after_short in HR2, Ho2 by exact Hshort.
  fold b in HR2, Ho2.
  cbn [nlen] in HR2. rewrite N.add_0_r in HR2.
  apply obs_bytes_inv in Ho2. destruct Ho2 as (e2 & -> & He2).
  cbn [nlen] in He2.
  assert (e2 = true) as -> by (destruct e2; [reflexivity|exfalso; lia]).
  rewrite app_nil_r. rewrite E1.
  split; [exact HR2|reflexivity].
Qed.
End ReadFull.

(* reads never need the growth condition *)
Lemma grow_ok_read imm f a c :
  R_mmap imm f a -> is_read c = true -> grow_okb (mm_msize f) a c = true.
Proof.
  intros (_ & _ & _ & Hs & _ & Hcov & Hmap & _ & Hcl) Hc. unfold grow_okb.
  destruct (a_open a) eqn:Eo.
  - specialize (Hcov eq_refl).
    assert (Hd : a_data (fst (step_abs a c)) = a_data a).
    { unfold step_abs. rewrite Eo. cbn [negb].
      destruct c; try discriminate; reflexivity. }
    rewrite Hd. lia.
  - rewrite (Hmap (Hcl eq_refl)). reflexivity.
Qed.

Definition read_full_at_mem := read_full_at_spec step_mem R_mem
  (fun s a c HR _ Hwf => mem_step_fs s a c HR Hwf).
Definition read_full_at_os := read_full_at_spec step_os R_os
  (fun s a c HR _ Hwf => os_step_fs s a c HR Hwf).
Definition read_full_at_mmap imm (Himm : 0 < imm) :=
  read_full_at_spec (step_mmap imm) (R_mmap imm)
    (fun s a c HR Hc Hwf =>
       let H := mmap_step_fs imm Himm s a c HR Hwf (grow_ok_read imm s a c HR Hc) in
       conj (proj1 H) (proj1 (proj2 H))).
Definition read_full_cur_mem := read_full_cur_spec step_mem R_mem
  (fun s a c HR _ Hwf => mem_step_fs s a c HR Hwf).
Definition read_full_cur_os := read_full_cur_spec step_os R_os
  (fun s a c HR _ Hwf => os_step_fs s a c HR Hwf).
Definition read_full_cur_mmap imm (Himm : 0 < imm) :=
  read_full_cur_spec (step_mmap imm) (R_mmap imm)
    (fun s a c HR Hc Hwf =>
       let H := mmap_step_fs imm Himm s a c HR Hwf (grow_ok_read imm s a c HR Hc) in
       conj (proj1 H) (proj1 (proj2 H))).

(* ReadFull over ReadAt of a 3-byte file, 5 bytes wanted from offset 1: fs.Mem needs two
   calls ((2,nil) then (0,EOF)), os.File one ((2,EOF)); same outcome *)
Example read_full_demo :
  snd (read_full_at step_mem 2 (mem_open [1;2;3]) 1 5 []) = ([2;3], RFUnexpectedEOF) /\
  snd (read_full_at step_os 1 (os_open [1;2;3]) 1 5 []) = ([2;3], RFUnexpectedEOF) /\
  snd (read_full_at step_mem 1 (mem_open [1;2;3]) 1 5 []) = ([2;3], RFFuel) /\
  snd (read_full_cur (step_mmap 4) 2 (mmap_open 4 [1;2;3]) 3 []) = ([1;2;3], RFFull) /\
  snd (read_full_cur step_mem 2 (mem_open []) 3 []) = ([], RFEOF).
Proof. vm_compute. auto 6. Qed.

(* ================================================================== *)
(** * 14b. The growth steps of the database satisfy the sufficient condition *)

(* initialMmapSize = 1024 << 20; the largest record is 512 MiB + 64 KiB + 10 bytes
   (MaxValueLength + MaxKeyLength + 6-byte sizes + 4-byte CRC); buckets and headers are 512 *)
Definition initialMmapSize : N := 1073741824.
Definition maxRecordSize : N := 536936458.

Lemma db_append_small a p off :
  a_open a = true -> off <= nlen (a_data a) -> nlen p <= maxRecordSize ->
  small_growb initialMmapSize a (CWriteAt p off) = true.
Proof.
  intros Ho Hoff Hp. unfold small_growb, step_abs. rewrite Ho.
  cbn [negb fst a_data]. rewrite nlen_write_at.
  unfold initialMmapSize, maxRecordSize in *. lia.
Qed.

Lemma db_extend_small a n :
  a_open a = true -> n <= 512 ->
  small_growb initialMmapSize a (CTruncate (nlen (a_data a) + n)) = true.
Proof.
  intros Ho Hn. unfold small_growb, step_abs. rewrite Ho.
  cbn [negb fst a_data]. rewrite nlen_truncate.
  unfold initialMmapSize. lia.
Qed.

(* a stale wrapper size (D2) adds the stale gap to the growth of one append: still fine as
   long as gap + record <= initialMmapSize *)
Lemma db_stale_append_small a p sz :
  a_open a = true -> sz + nlen p <= nlen (a_data a) + initialMmapSize ->
  small_growb initialMmapSize a (CWriteAt p sz) = true.
Proof.
  intros Ho H. unfold small_growb, step_abs. rewrite Ho.
  cbn [negb fst a_data]. rewrite nlen_write_at. lia.
Qed.

(* ================================================================== *)
(** * 15. Assumptions *)
Print Assumptions C17_fs_equivalent.
Print Assumptions C17_fs_equivalent_small.
Print Assumptions C17_mmap_never_panics.
Print Assumptions C17_mmap_invariant.
Print Assumptions mmap_gap_refuted.
Print Assumptions file_wrapper_append.
Print Assumptions file_wrapper_stale_gap.
Print Assumptions file_wrapper_append_mmap.
Print Assumptions read_full_at_mmap.
Print Assumptions read_full_cur_mem.
