(* DBProofsRecovery.v -- recovery, clean close and clean reopen of the database model (DB.v) instantiated
   with the flat reference index:  open_recover_ok, recover_idempotent, close_ok, close_reopen_ok,
   reopen_close_same_log, and the executable refutation sealed_empty_refuted of the PINNED behaviour of
   openSegment (defect D12: the side file of an empty segment was ignored).

   Extra hypothesis of the recovery theorems: [bac_ok d] -- the model's [d_bac] holds names of the form
   [FBac _] only (a typing condition of the model; preserved by every event the model issues:
   [apply_ev_bac_ok]).  Without it removeRecoveryBackupFiles would emit ERemove FMain / ERemove FLock.
   No axioms; auxiliary names are prefixed rc_ (rf_ for the refutation scenario). *)
From Coq Require Import ZArith Lia ZifyN ZifyNat ZifyBool Permutation Sorted.
From Pogreb Require Import Base BaseLemmas Crc Bytes Record RecordProofs Flat Spec DB DBInv DBLemmas DBMeta.
Ltac Zify.zify_post_hook ::= Z.div_mod_to_equations.

Local Notation disk := (@DB.disk flat).
Local Notation st := (@DB.st flat).
Local Notation mem := (@DB.mem flat).
Local Notation fsev := (@DB.fsev flat).

(* ================================================================================================ *)
(* A. one-line unfolding lemmas                                                                      *)
Lemma rc_emits_nil (s : st) : emits flat_ops [] s = s. Proof. reflexivity. Qed.
Lemma rc_emits_cons e es (s : st) : emits flat_ops (e :: es) s = emits flat_ops es (emit flat_ops e s).
Proof. reflexivity. Qed.
Lemma rc_disk_with_mem m (s : st) : s_disk (with_mem m s) = s_disk s. Proof. reflexivity. Qed.
Lemma rc_mem_with_mem m (s : st) : s_mem (with_mem m s) = Some m. Proof. reflexivity. Qed.
Lemma rc_trace_with_mem m (s : st) : s_trace (with_mem m s) = s_trace s. Proof. reflexivity. Qed.
Lemma rc_disk_clear (s : st) : s_disk (clear_trace s) = s_disk s. Proof. reflexivity. Qed.
Lemma rc_mem_clear (s : st) : s_mem (clear_trace s) = s_mem s. Proof. reflexivity. Qed.

(* ---- traces: the events added by a piece of code do not contain the removal of the lock ---- *)
Definition rc_text (s s' : st) : Prop :=
  exists es, s_trace s' = s_trace s ++ es /\ ~ In (ERemove FLock) es.

Lemma rc_text_refl s : rc_text s s.
Proof. exists []. rewrite app_nil_r. split; [reflexivity|intros []]. Qed.
Lemma rc_text_trans a b c : rc_text a b -> rc_text b c -> rc_text a c.
Proof.
  intros (e1 & E1 & N1) (e2 & E2 & N2). exists (e1 ++ e2). rewrite E2, E1, app_assoc. split; [reflexivity|].
  intros H. apply in_app_or in H. tauto.
Qed.
Lemma rc_text_emit e (s : st) : e <> ERemove FLock -> rc_text s (emit flat_ops e s).
Proof. intros H. exists [e]. split; [reflexivity|]. intros [E|[]]. congruence. Qed.
Lemma rc_text_eq (s s' : st) : s_trace s' = s_trace s -> rc_text s s'.
Proof. intros E. exists []. rewrite app_nil_r. split; [exact E|intros []]. Qed.

(* ================================================================================================ *)
(* B. Close                                                                                          *)
Definition rc_wmeta (g : mseg) (f : dseg) : dseg :=
  if is_seg (g_id g) (g_seq g) f then set_fmeta (GOk (g_meta g)) f else f.
Definition rc_wmetas (G : list mseg) (f : dseg) : dseg := fold_left (fun f g => rc_wmeta g f) G f.

Definition rc_close_seg_step_def (s : st) (g : mseg) : st :=
  gob_write flat_ops (FSegMeta (g_id g) (g_seq g)) (EGobSeg (g_id g) (g_seq g) (g_meta g))
            (emit flat_ops (ESync (FSeg (g_id g) (g_seq g))) s).

Lemma rc_wmeta_core g f : seg_core (rc_wmeta g f) = seg_core f.
Proof. unfold rc_wmeta. destruct (is_seg _ _ f); reflexivity. Qed.
Lemma rc_wmetas_core G : forall f, seg_core (rc_wmetas G f) = seg_core f.
Proof.
  induction G as [|g G IH]; intros f; [reflexivity|].
  unfold rc_wmetas. cbn [fold_left]. fold (rc_wmetas G (rc_wmeta g f)). rewrite IH. apply rc_wmeta_core.
Qed.

Lemma rc_wmetas_miss G : forall f, (forall x, In x G -> g_id x <> f_id f) -> rc_wmetas G f = f.
Proof.
  induction G as [|g G IH]; intros f H; [reflexivity|].
  unfold rc_wmetas. cbn [fold_left]. fold (rc_wmetas G (rc_wmeta g f)).
  assert (E : rc_wmeta g f = f).
  { unfold rc_wmeta, is_seg. destruct (N.eqb_spec (f_id f) (g_id g)) as [E|_]; [|reflexivity].
    exfalso. apply (H g (or_introl eq_refl)). congruence. }
  rewrite E. apply IH. intros x Hx. apply H. right. exact Hx.
Qed.

Lemma rc_wmetas_hit G : forall f g,
  NoDup (map g_id G) -> In g G -> f_id f = g_id g -> f_seq f = g_seq g ->
  rc_wmetas G f = set_fmeta (GOk (g_meta g)) f.
Proof.
  induction G as [|x G IH]; intros f g Hnd HIn Hid Hseq; [destruct HIn|].
  cbn [map] in Hnd. inversion Hnd as [|? ? Hx Hnd']; subst.
  unfold rc_wmetas. cbn [fold_left]. fold (rc_wmetas G (rc_wmeta x f)).
  destruct HIn as [->|HIn].
  - assert (E : rc_wmeta g f = set_fmeta (GOk (g_meta g)) f).
    { unfold rc_wmeta, is_seg. rewrite Hid, Hseq, !N.eqb_refl. reflexivity. }
    rewrite E. apply rc_wmetas_miss. intros y Hy. cbn [set_fmeta f_id]. rewrite Hid.
    intros E'. apply Hx. rewrite <- E'. apply in_map. exact Hy.
  - assert (E : rc_wmeta x f = f).
    { unfold rc_wmeta, is_seg. destruct (N.eqb_spec (f_id f) (g_id x)) as [E|_]; [|reflexivity].
      exfalso. apply Hx. rewrite <- E, Hid. apply in_map. exact HIn. }
    rewrite E. apply IH; assumption.
Qed.

Lemma rc_gob_dbmeta sd (s : st) :
  let s' := gob_write flat_ops FDbMeta (EGobDb sd) s in
  s_disk s' = set_dbmeta (s_disk s) (GOk sd) /\ s_mem s' = s_mem s /\ rc_text s s'.
Proof.
  unfold gob_write. destruct (exists_file (s_disk s) FDbMeta).
  - repeat split. eexists. split; [cbn [emits fold_left emit s_trace]; rewrite <- !app_assoc; reflexivity|].
    cbn [app In]. intros H. repeat (destruct H as [H|H]; [discriminate|]). exact H.
  - repeat split. eexists. split; [cbn [emits fold_left emit s_trace]; rewrite <- !app_assoc; reflexivity|].
    cbn [app In]. intros H. repeat (destruct H as [H|H]; [discriminate|]). exact H.
Qed.

Lemma rc_gob_imeta i (s : st) :
  let s' := gob_write flat_ops FIndexMeta (EGobIndex i) s in
  s_disk s' = set_imeta (s_disk s) (GOk i) /\ s_mem s' = s_mem s /\ rc_text s s'.
Proof.
  unfold gob_write. destruct (exists_file (s_disk s) FIndexMeta).
  - repeat split. eexists. split; [cbn [emits fold_left emit s_trace]; rewrite <- !app_assoc; reflexivity|].
    cbn [app In]. intros H. repeat (destruct H as [H|H]; [discriminate|]). exact H.
  - repeat split. eexists. split; [cbn [emits fold_left emit s_trace]; rewrite <- !app_assoc; reflexivity|].
    cbn [app In]. intros H. repeat (destruct H as [H|H]; [discriminate|]). exact H.
Qed.

Lemma rc_close_seg_step (s : st) g :
  let s' := rc_close_seg_step_def s g in
  d_segs (s_disk s') = map (rc_wmeta g) (d_segs (s_disk s)) /\ same_rest (s_disk s) (s_disk s') /\
  s_mem s' = s_mem s /\ rc_text s s'.
Proof.
  unfold rc_close_seg_step_def, gob_write.
  set (s0 := emit flat_ops (ESync (FSeg (g_id g) (g_seq g))) s).
  assert (Hd : forall s1 : st,
     d_segs (s_disk s1) = map (fun f => if is_seg (g_id g) (g_seq g) f then set_fmeta GPartial f else f) (d_segs (s_disk s)) ->
     d_segs (s_disk (emits flat_ops [EHeader (FSegMeta (g_id g) (g_seq g)); EGobSeg (g_id g) (g_seq g) (g_meta g);
                                     ESync (FSegMeta (g_id g) (g_seq g))] s1)) = map (rc_wmeta g) (d_segs (s_disk s))).
  { intros s1 E. cbn [emits fold_left emit s_disk apply_ev]. rewrite d_segs_upd_seg, E, map_map.
    apply map_ext. intros f. unfold rc_wmeta. destruct (is_seg (g_id g) (g_seq g) f) eqn:Ef.
    - change (is_seg (g_id g) (g_seq g) (set_fmeta GPartial f)) with (is_seg (g_id g) (g_seq g) f).
      rewrite Ef. reflexivity.
    - rewrite Ef. reflexivity. }
  destruct (exists_file (s_disk s0) (FSegMeta (g_id g) (g_seq g))).
  - split; [apply Hd; reflexivity|]. split; [repeat split|]. split; [reflexivity|].
    eexists. split; [cbn [emits fold_left emit s_trace s0]; rewrite <- !app_assoc; reflexivity|].
    cbn [app In]. intros H. repeat (destruct H as [H|H]; [discriminate|]). exact H.
  - split; [apply Hd; reflexivity|]. split; [repeat split|]. split; [reflexivity|].
    eexists. split; [cbn [emits fold_left emit s_trace s0]; rewrite <- !app_assoc; reflexivity|].
    cbn [app In]. intros H. repeat (destruct H as [H|H]; [discriminate|]). exact H.
Qed.

Lemma rc_close_seg_fold G : forall s : st,
  let s' := fold_left rc_close_seg_step_def G s in
  d_segs (s_disk s') = map (rc_wmetas G) (d_segs (s_disk s)) /\ same_rest (s_disk s) (s_disk s') /\
  s_mem s' = s_mem s /\ rc_text s s'.
Proof.
  induction G as [|g G IH]; intros s.
  - cbn [fold_left]. split; [symmetry; apply map_id|]. split; [apply same_rest_refl|]. split; [reflexivity|apply rc_text_refl].
  - cbn [fold_left]. destruct (rc_close_seg_step s g) as (A1 & A2 & A3 & A4).
    destruct (IH (rc_close_seg_step_def s g)) as (B1 & B2 & B3 & B4). cbv zeta in *.
    split; [|split; [|split]].
    + rewrite B1, A1, map_map. apply map_ext. intros f. reflexivity.
    + eapply same_rest_trans; eassumption.
    + congruence.
    + eapply rc_text_trans; eassumption.
Qed.

Lemma rc_ids_increasing_NoDup (l : list mseg) : ids_increasing l -> NoDup (map g_id l).
Proof.
  induction l as [|g l IH]; intros H; [constructor|].
  destruct H as [H1 H2]. cbn [map]. constructor; [|apply IH; exact H2].
  intros HIn. apply in_map_iff in HIn. destruct HIn as (x & E & Hx). specialize (H1 x Hx). lia.
Qed.

Lemma rc_close_char (s : st) m : s_mem s = Some m ->
  exists s', db_close flat_ops s = (s', OOk) /\ s_mem s' = None /\
    d_segs (s_disk s') = map (rc_wmetas (m_segs m)) (d_segs (s_disk s)) /\
    d_orphans (s_disk s') = d_orphans (s_disk s) /\ d_index (s_disk s') = d_index (s_disk s) /\
    d_overflow (s_disk s') = d_overflow (s_disk s) /\ d_imeta (s_disk s') = GOk (m_idx m) /\
    d_dbmeta (s_disk s') = GOk (m_seed m) /\ d_lock (s_disk s') = false /\ d_bac (s_disk s') = d_bac (s_disk s) /\
    exists es, s_trace s' = s_trace s ++ es ++ [ERemove FLock] /\ ~ In (ERemove FLock) es.
Proof.
  intros Hm. unfold db_close. rewrite Hm.
  set (s1 := gob_write flat_ops FDbMeta (EGobDb (m_seed m)) s).
  destruct (rc_gob_dbmeta (m_seed m) s) as (A1 & A2 & A3). fold s1 in A1, A2, A3.
  change (fold_left _ (m_segs m) s1) with (fold_left rc_close_seg_step_def (m_segs m) s1).
  set (s2 := fold_left rc_close_seg_step_def (m_segs m) s1).
  destruct (rc_close_seg_fold (m_segs m) s1) as (B1 & B2 & B3 & B4). fold s2 in B1, B2, B3, B4.
  set (s3 := gob_write flat_ops FIndexMeta (EGobIndex (m_idx m)) s2).
  destruct (rc_gob_imeta (m_idx m) s2) as (C1 & C2 & C3). fold s3 in C1, C2, C3.
  eexists. split; [reflexivity|]. cbn [s_mem s_disk s_trace].
  destruct B2 as (R1 & R2 & R3 & R4 & R5 & R6 & R7).
  cbn [emits fold_left emit s_disk s_trace apply_ev file_removed].
  rewrite C1. cbn [set_lock set_imeta d_segs d_orphans d_index d_overflow d_imeta d_dbmeta d_lock d_bac].
  rewrite B1, R1, R2, R3, R5, R7, A1. cbn [set_dbmeta d_segs d_orphans d_index d_overflow d_imeta d_dbmeta d_lock d_bac].
  repeat (split; [reflexivity|]).
  destruct (rc_text_trans _ _ _ A3 (rc_text_trans _ _ _ B4 C3)) as (es & E & Hn).
  exists (es ++ [ESync FMain; ESync FOverflow]). split.
  - rewrite E, <- !app_assoc. reflexivity.
  - intros H. apply in_app_or in H. destruct H as [H|H]; [exact (Hn H)|].
    cbn [In] in H. repeat (destruct H as [H|H]; [discriminate|]). exact H.
Qed.

Section CloseOk.
Variable P : params.

Theorem close_ok (s : st) m : Inv P s -> s_mem s = Some m ->
  let '(s', o) := db_close flat_ops s in
  o = OOk /\ s_mem s' = None /\ DiskOK (s_disk s') /\ olog (s_disk s') = olog (s_disk s) /\
  d_lock (s_disk s') = false /\ d_index (s_disk s') = Some (m_idx m) /\ d_overflow (s_disk s') = true /\
  d_imeta (s_disk s') = GOk (m_idx m) /\ d_dbmeta (s_disk s') = GOk (m_seed m) /\
  (forall g, In g (m_segs m) -> exists f, In f (d_segs (s_disk s')) /\ f_id f = g_id g /\ f_seq f = g_seq g /\ f_meta f = GOk (g_meta g)) /\
  exists es, s_trace s' = s_trace s ++ es ++ [ERemove FLock] /\ ~ In (ERemove FLock) es.
Proof.
  intros HI Hm. unfold Inv in HI. rewrite Hm in HI.
  destruct HI as (Hok & Hmda & Hinc & Hseq & Hcur & Hidx & Hlock & Hdi & Hov).
  destruct (rc_close_char s m Hm) as (s' & E & Em & Es & Eo & Ei & Eov & Eim & Edb & El & Eb & Htr).
  rewrite E.
  assert (Hsl : same_log (s_disk s) (s_disk s')).
  { unfold same_log. rewrite Es, map_map. apply map_ext. intros f. symmetry. apply rc_wmetas_core. }
  split; [reflexivity|]. split; [exact Em|]. split; [eapply same_log_DiskOK; eassumption|].
  split; [apply same_log_olog; exact Hsl|]. split; [exact El|]. split; [congruence|]. split; [congruence|].
  split; [exact Eim|]. split; [exact Edb|]. split; [|exact Htr].
  intros g Hg. destruct (proj1 Hmda g Hg) as (f & Hf & F1 & F2 & _).
  exists (rc_wmetas (m_segs m) f). split; [rewrite Es; apply in_map; exact Hf|].
  rewrite (rc_wmetas_hit (m_segs m) f g (rc_ids_increasing_NoDup _ Hinc) Hg F1 F2).
  cbn [set_fmeta f_id f_seq f_meta]. auto.
Qed.
End CloseOk.

(* ================================================================================================ *)
(* C. The part of the disk recovery's replay depends on: ids, sequence ids and complete records       *)
Definition rc_rcore (f : dseg) : N * N * list rec := (f_id f, f_seq f, f_recs f).
Definition rc_rsim (d d' : disk) : Prop := map rc_rcore (d_segs d) = map rc_rcore (d_segs d').
Definition rc_rnorm (f : dseg) : dseg :=
  {| f_id := f_id f; f_seq := f_seq f; f_hdr := true; f_recs := f_recs f; f_tail := []; f_meta := GAbsent |}.

Lemma rc_rsim_refl d : rc_rsim d d. Proof. reflexivity. Qed.
Lemma rc_rsim_sym d d' : rc_rsim d d' -> rc_rsim d' d. Proof. unfold rc_rsim. congruence. Qed.
Lemma rc_rsim_trans a b c : rc_rsim a b -> rc_rsim b c -> rc_rsim a c. Proof. unfold rc_rsim. congruence. Qed.
Lemma rc_rsim_segs (d d' : disk) : d_segs d' = d_segs d -> rc_rsim d d'.
Proof. unfold rc_rsim. intros ->. reflexivity. Qed.
Lemma rc_same_log_rsim d d' : same_log d d' -> rc_rsim d d'.
Proof.
  unfold same_log, rc_rsim. intros H.
  transitivity (map (fun t : N * N * bool * list rec * bytes =>
                       let '(i, q, _, rs, _) := t in (i, q, rs)) (map seg_core (d_segs d))).
  - rewrite map_map. apply map_ext. intros f. reflexivity.
  - rewrite H, map_map. apply map_ext. intros f. reflexivity.
Qed.

Lemma rc_rsim_norm d d' : rc_rsim d d' -> map rc_rnorm (d_segs d) = map rc_rnorm (d_segs d').
Proof.
  intros H.
  assert (E : forall l, map rc_rnorm l =
            map (fun t : N * N * list rec => let '(i, q, rs) := t in
                   {| f_id := i; f_seq := q; f_hdr := true; f_recs := rs; f_tail := []; f_meta := GAbsent |})
                (map rc_rcore l)).
  { intros l. rewrite map_map. apply map_ext. intros f. reflexivity. }
  rewrite !E. unfold rc_rsim in H. rewrite H. reflexivity.
Qed.

Lemma rc_olog_of_rnorm l : olog_of (map rc_rnorm l) = olog_of l.
Proof. apply olog_of_map; intros x; reflexivity. Qed.

Lemma rc_rsim_olog d d' : rc_rsim d d' -> olog d' = olog d.
Proof.
  intros H. rewrite !olog_eq, <- (rc_olog_of_rnorm (d_segs d')), <- (rc_olog_of_rnorm (d_segs d)).
  rewrite (rc_rsim_norm _ _ H). reflexivity.
Qed.
Lemma rc_rsim_abs d d' : rc_rsim d d' -> abs d' = abs d.
Proof. intros H. unfold abs. rewrite (rc_rsim_olog _ _ H). reflexivity. Qed.
Lemma rc_rsim_ptr_of d d' : rc_rsim d d' -> ptr_of d' = ptr_of d.
Proof. intros H. unfold ptr_of. rewrite (rc_rsim_olog _ _ H). reflexivity. Qed.

Lemma rc_rsim_rec_of d d' id off : rc_rsim d d' -> rec_of d' id off = rec_of d id off.
Proof.
  intros H. unfold rec_of, find_dseg.
  assert (E : forall l : list dseg,
            match find (fun s => f_id s =? id) l with None => None | Some f => rec_at off (seg_entries f) end =
            match find (fun s => f_id s =? id) (map rc_rnorm l) with None => None | Some f => rec_at off (seg_entries f) end).
  { intros l. rewrite (find_map_id rc_rnorm) by reflexivity.
    destruct (find _ l); reflexivity. }
  rewrite (E (d_segs d')), (E (d_segs d)), (rc_rsim_norm _ _ H). reflexivity.
Qed.
Lemma rc_rsim_read_kv d d' sl : rc_rsim d d' -> read_kv d' sl = read_kv d sl.
Proof. intros H. rewrite !read_kv_rec_of, (rc_rsim_rec_of _ _ _ _ H). reflexivity. Qed.
Lemma rc_rsim_matchf d d' k sl : rc_rsim d d' -> matchf d' k sl = matchf d k sl.
Proof. intros H. unfold matchf. rewrite (rc_rsim_read_kv _ _ _ H). reflexivity. Qed.
Lemma rc_rsim_slot_key d d' sl : rc_rsim d d' -> slot_key d' sl = slot_key d sl.
Proof. intros H. unfold slot_key. rewrite (rc_rsim_read_kv _ _ _ H). reflexivity. Qed.
Lemma rc_rsim_slot_ok P d d' seed sl : rc_rsim d d' -> slot_ok P d seed sl -> slot_ok P d' seed sl.
Proof.
  intros H. rewrite !slot_ok_rec_of. intros (r & E & Hr). exists r.
  rewrite (rc_rsim_rec_of _ _ _ _ H). split; assumption.
Qed.

Lemma rc_find_ext {A} (p q : A -> bool) l : (forall x, p x = q x) -> find p l = find q l.
Proof. intros H. induction l as [|x l IH]; [reflexivity|]. cbn [find]. rewrite H, IH. reflexivity. Qed.

Lemma rc_rsim_index_agrees P (m : mem) d d' : rc_rsim d d' -> index_agrees P m d -> index_agrees P m d'.
Proof.
  intros H (A & B & C). unfold index_agrees.
  assert (Ek : map (slot_key d') (m_idx m) = map (slot_key d) (m_idx m)).
  { apply map_ext. intros sl. apply rc_rsim_slot_key. exact H. }
  split; [|split].
  - apply Forall_forall. intros sl Hsl. apply (rc_rsim_slot_ok P d d'); [exact H|].
    exact (proj1 (Forall_forall _ _) A sl Hsl).
  - rewrite Ek. exact B.
  - intros k. rewrite (rc_rsim_ptr_of _ _ H), C. f_equal. apply rc_find_ext. intros sl.
    rewrite (rc_rsim_slot_key _ _ sl H). reflexivity.
Qed.

Lemma rc_upd_seg_rsim id seq g (d : disk) : (forall s, rc_rcore (g s) = rc_rcore s) -> rc_rsim d (upd_seg id seq g d).
Proof.
  intros Hg. unfold rc_rsim. rewrite d_segs_upd_seg, map_map. apply map_ext.
  intros s. destruct (is_seg id seq s); [symmetry; apply Hg|reflexivity].
Qed.

(* ================================================================================================ *)
(* D. The flat index: replace / remove against a key function                                         *)
Section FlatKey.
Variable kf : slot -> key.
Notation fk k := (fun s => key_eqb k (kf s)).

Lemma rc_find_key_none k (l : flat) : ~ In k (map kf l) -> find (fk k) l = None.
Proof.
  induction l as [|s l IH]; intros H; [reflexivity|]. cbn [find].
  destruct (key_eqb k (kf s)) eqn:E.
  - apply key_eqb_eq in E. exfalso. apply H. left. congruence.
  - apply IH. intros H'. apply H. right. exact H'.
Qed.

Lemma rc_fl_replace_spec k hit new : forall l : flat,
  (forall s, In s l -> hit s = key_eqb k (kf s)) -> kf new = k -> NoDup (map kf l) ->
  match fl_replace hit new l with
  | Some (l', o) =>
      In o l /\ kf o = k /\ (forall s, In s l' -> s = new \/ In s l) /\ NoDup (map kf l') /\
      (forall k2, find (fk k2) l' = if key_eqb k2 k then Some new else find (fk k2) l)
  | None => forall s, In s l -> kf s <> k
  end.
Proof.
  induction l as [|s l IH]; intros Hhit Hnew Hnd; [intros s []|].
  cbn [fl_replace]. cbn [map] in Hnd. inversion Hnd as [|? ? Hs Hnd']; subst.
  rewrite (Hhit s (or_introl eq_refl)). destruct (key_eqb (kf new) (kf s)) eqn:E.
  - apply key_eqb_eq in E. split; [left; reflexivity|]. split; [congruence|].
    split; [intros x [Hx|Hx]; [left; congruence|right; right; exact Hx]|].
    split; [cbn [map]; rewrite E; constructor; assumption|].
    intros k2. cbn [find]. rewrite <- E. destruct (key_eqb k2 (kf new)); reflexivity.
  - assert (Hne : kf s <> kf new) by (apply key_eqb_neq in E; congruence).
    specialize (IH (fun x Hx => Hhit x (or_intror Hx)) eq_refl Hnd').
    destruct (fl_replace hit new l) as [[l' o]|].
    + destruct IH as (A1 & A2 & A3 & A4 & A5).
      split; [right; exact A1|]. split; [exact A2|].
      split; [intros x [Hx|Hx]; [right; left; exact Hx|destruct (A3 x Hx); [left|right; right]; assumption]|].
      split.
      * cbn [map]. constructor; [|exact A4]. intros HIn. apply in_map_iff in HIn.
        destruct HIn as (x & Ex & Hx). destruct (A3 x Hx) as [->|Hx']; [congruence|].
        apply Hs. rewrite <- Ex. apply in_map. exact Hx'.
      * intros k2. cbn [find]. destruct (key_eqb k2 (kf s)) eqn:E2.
        -- apply key_eqb_eq in E2. destruct (key_eqb k2 (kf new)) eqn:E3; [|reflexivity].
           apply key_eqb_eq in E3. congruence.
        -- apply A5.
    + intros x [->|Hx]; [exact Hne|apply IH; exact Hx].
Qed.

Lemma rc_fl_remove_spec k hit : forall l : flat,
  (forall s, In s l -> hit s = key_eqb k (kf s)) -> NoDup (map kf l) ->
  match fl_remove hit l with
  | Some (l', o) =>
      In o l /\ kf o = k /\ (forall s, In s l' -> In s l) /\ NoDup (map kf l') /\
      (forall k2, find (fk k2) l' = if key_eqb k2 k then None else find (fk k2) l)
  | None => forall s, In s l -> kf s <> k
  end.
Proof.
  induction l as [|s l IH]; intros Hhit Hnd; [intros s []|].
  cbn [fl_remove]. cbn [map] in Hnd. inversion Hnd as [|? ? Hs Hnd']; subst.
  rewrite (Hhit s (or_introl eq_refl)). destruct (key_eqb k (kf s)) eqn:E.
  - apply key_eqb_eq in E. split; [left; reflexivity|]. split; [congruence|].
    split; [intros x Hx; right; exact Hx|]. split; [exact Hnd'|].
    intros k2. cbn [find]. destruct (key_eqb k2 k) eqn:E2.
    + apply key_eqb_eq in E2. apply rc_find_key_none. congruence.
    + rewrite <- E, E2. reflexivity.
  - assert (Hne : kf s <> k) by (apply key_eqb_neq in E; congruence).
    specialize (IH (fun x Hx => Hhit x (or_intror Hx)) Hnd').
    destruct (fl_remove hit l) as [[l' o]|].
    + destruct IH as (A1 & A2 & A3 & A4 & A5).
      split; [right; exact A1|]. split; [exact A2|].
      split; [intros x [Hx|Hx]; [left; exact Hx|right; apply A3; exact Hx]|].
      split.
      * cbn [map]. constructor; [|exact A4]. intros HIn. apply in_map_iff in HIn.
        destruct HIn as (x & Ex & Hx). apply Hs. rewrite <- Ex. apply in_map. apply A3. exact Hx.
      * intros k2. cbn [find]. destruct (key_eqb k2 (kf s)) eqn:E2.
        -- apply key_eqb_eq in E2. destruct (key_eqb k2 k) eqn:E3; [|reflexivity].
           apply key_eqb_eq in E3. congruence.
        -- apply A5.
    + intros x [->|Hx]; [exact Hne|apply IH; exact Hx].
Qed.

Lemma rc_find_key_app k (a b : flat) :
  find (fk k) (a ++ b) = match find (fk k) a with Some s => Some s | None => find (fk k) b end.
Proof. induction a as [|s a IH]; [reflexivity|]. cbn [app find]. destruct (key_eqb k (kf s)); [reflexivity|exact IH]. Qed.

Lemma rc_NoDup_snoc {A} (l : list A) x : NoDup l -> ~ In x l -> NoDup (l ++ [x]).
Proof.
  intros H Hx. apply (Permutation_NoDup (l := x :: l)); [apply Permutation_cons_append|].
  constructor; assumption.
Qed.

Lemma rc_fl_put_spec (grow : N -> N -> bool) k m new (l : flat) :
  (forall s, In s l -> fl_hit (sl_h new) m s = key_eqb k (kf s)) -> kf new = k -> NoDup (map kf l) ->
  (forall s, In s (fst (fl_put grow l new m)) -> s = new \/ In s l) /\
  NoDup (map kf (fst (fl_put grow l new m))) /\
  (forall k2, find (fk k2) (fst (fl_put grow l new m)) = if key_eqb k2 k then Some new else find (fk k2) l) /\
  (forall x, snd (fl_put grow l new m) = Some x -> In x l).
Proof.
  intros Hhit Hnew Hnd. unfold fl_put.
  pose proof (rc_fl_replace_spec k (fl_hit (sl_h new) m) new l Hhit Hnew Hnd) as S.
  destruct (fl_replace (fl_hit (sl_h new) m) new l) as [[l1 o1]|]; cbn [fst snd].
  - destruct S as (A1 & A2 & A3 & A4 & A5).
    split; [exact A3|]. split; [exact A4|]. split; [exact A5|]. intros x Hx. inversion Hx; subst. exact A1.
  - split; [|split; [|split]].
    + intros s Hs. apply in_app_or in Hs. destruct Hs as [Hs|[Hs|[]]]; [right; exact Hs|left; congruence].
    + rewrite map_app. cbn [map]. apply rc_NoDup_snoc; [exact Hnd|].
      intros HIn. apply in_map_iff in HIn. destruct HIn as (x & Ex & Hx). apply (S x Hx). congruence.
    + intros k2. rewrite rc_find_key_app. cbn [find]. rewrite Hnew. destruct (key_eqb k2 k) eqn:E2.
      * apply key_eqb_eq in E2. rewrite rc_find_key_none; [reflexivity|].
        intros HIn. apply in_map_iff in HIn. destruct HIn as (x & Ex & Hx). apply (S x Hx). congruence.
      * destruct (find (fk k2) l); reflexivity.
    + intros x Hx. discriminate.
Qed.

Lemma rc_fl_del_spec k h m (l : flat) :
  (forall s, In s l -> fl_hit h m s = key_eqb k (kf s)) -> NoDup (map kf l) ->
  (forall s, In s (fst (fl_del l h m)) -> In s l) /\
  NoDup (map kf (fst (fl_del l h m))) /\
  (forall k2, find (fk k2) (fst (fl_del l h m)) = if key_eqb k2 k then None else find (fk k2) l) /\
  (forall x, snd (fl_del l h m) = Some x -> In x l).
Proof.
  intros Hhit Hnd. unfold fl_del.
  pose proof (rc_fl_remove_spec k (fl_hit h m) l Hhit Hnd) as S.
  destruct (fl_remove (fl_hit h m) l) as [[l1 o1]|]; cbn [fst snd].
  - destruct S as (A1 & A2 & A3 & A4 & A5).
    split; [exact A3|]. split; [exact A4|]. split; [exact A5|]. intros x Hx. inversion Hx; subst. exact A1.
  - split; [auto|]. split; [exact Hnd|]. split; [|intros x Hx; discriminate].
    intros k2. destruct (key_eqb k2 k) eqn:E2; [|reflexivity].
    apply key_eqb_eq in E2. apply rc_find_key_none.
    intros HIn. apply in_map_iff in HIn. destruct HIn as (x & Ex & Hx). apply (S x Hx). congruence.
Qed.
End FlatKey.

(* ================================================================================================ *)
(* E. replay_rec implements upd_ptr                                                                   *)
Section Replay.
Variable P : params.

Lemma rc_slot_ok_key (d : disk) seed sl : slot_ok P d seed sl ->
  exists r, rec_of d (sl_seg sl) (sl_off sl) = Some r /\ rdel r = false /\ sl_ks sl = nlen (rk r) /\
            sl_h sl = p_hash P seed (rk r) /\
            read_kv d sl = Some (rk r, ntake (sl_vs sl) (ndrop (sl_ks sl) (rk r ++ rv r))) /\
            slot_key d sl = rk r.
Proof.
  intros H. apply slot_ok_rec_of in H. destruct H as (r & E & Hd & Hks & Hvs & Hh).
  exists r. repeat (split; [assumption|]).
  assert (Er : read_kv d sl = Some (rk r, ntake (sl_vs sl) (ndrop (sl_ks sl) (rk r ++ rv r)))).
  { rewrite read_kv_rec_of, E. cbn [option_map]. rewrite Hks at 1. rewrite ntake_app_exact. reflexivity. }
  split; [exact Er|]. unfold slot_key. rewrite Er. reflexivity.
Qed.

Lemma rc_hit_slot_ok (d : disk) seed k sl :
  slot_ok P d seed sl -> nlen k <= max_key_len ->
  fl_hit (p_hash P seed k) (matchf d k) sl = key_eqb k (slot_key d sl).
Proof.
  intros H Hk. destruct (rc_slot_ok_key d seed sl H) as (r & _ & _ & Hks & Hh & Er & Ek).
  unfold fl_hit, matchf. rewrite Er, Ek. destruct (key_eqb k (rk r)) eqn:E.
  - apply key_eqb_eq in E. subst k. rewrite Hh, Hks, N.eqb_refl.
    rewrite u16_small by (rewrite max_key_len_eq in Hk; lia). rewrite N.eqb_refl. reflexivity.
  - rewrite !andb_false_r. reflexivity.
Qed.

Definition rc_pfold (l : list entry) : key -> option (N * N) := fold_left upd_ptr l (fun _ => None).

Definition rc_IdxInv (d : disk) (seed : N) (l : list entry) (i : flat) : Prop :=
  Forall (slot_ok P d seed) i /\ NoDup (map (slot_key d) i) /\
  forall k, rc_pfold l k = option_map (fun sl => (sl_seg sl, sl_off sl))
                                   (find (fun sl => key_eqb k (slot_key d sl)) i).

Definition rc_replay_idx (d' : disk) (seed : N) (e : entry) (i : flat) : flat :=
  let r := snd e in
  let h := p_hash P seed (rk r) in
  if rdel r then fst (fl_del i h (matchf d' (rk r)))
  else fst (fl_put (p_grow P) i
             {| sl_h := h; sl_seg := fst (fst e); sl_ks := u16 (nlen (rk r)); sl_vs := u32 (nlen (rv r));
                sl_off := u32 (snd (fst e)) |} (matchf d' (rk r))).

Definition rc_entry_ok (d : disk) (e : entry) : Prop :=
  rec_of d (fst (fst e)) (snd (fst e)) = Some (snd e) /\ rec_fits (snd e) /\ snd (fst e) < 4294967296.

Lemma rc_IdxInv_nil d seed : rc_IdxInv d seed [] [].
Proof. split; [constructor|]. split; [constructor|]. intros k. reflexivity. Qed.

Lemma rc_pfold_snoc l e k :
  rc_pfold (l ++ [e]) k = if key_eqb k (rk (snd e))
                       then (if rdel (snd e) then None else Some (fst (fst e), snd (fst e)))
                       else rc_pfold l k.
Proof. unfold rc_pfold. rewrite fold_left_app. reflexivity. Qed.

Lemma rc_IdxInv_step d d' seed l i e :
  rc_IdxInv d seed l i -> rc_rsim d d' -> rc_entry_ok d e -> rc_IdxInv d seed (l ++ [e]) (rc_replay_idx d' seed e i).
Proof.
  intros (HF & Hnd & Hp) Hsim (Hrec & Hfit & Hoff).
  destruct e as [[id off] r]. cbn [fst snd] in *.
  destruct Hfit as (_ & _ & Hkl & Hvl).
  assert (Hhit : forall s, In s i ->
            fl_hit (p_hash P seed (rk r)) (matchf d' (rk r)) s = key_eqb (rk r) (slot_key d s)).
  { intros s Hs. rewrite <- (rc_hit_slot_ok d seed (rk r) s); [|exact (proj1 (Forall_forall _ _) HF s Hs)|exact Hkl].
    unfold fl_hit. rewrite (rc_rsim_matchf _ _ _ _ Hsim). reflexivity. }
  unfold rc_replay_idx. cbn [fst snd]. destruct (rdel r) eqn:Hdel.
  - destruct (rc_fl_del_spec (slot_key d) (rk r) (p_hash P seed (rk r)) (matchf d' (rk r)) i Hhit Hnd)
      as (A1 & A2 & A3 & _).
    split; [|split].
    + apply Forall_forall. intros s Hs. exact (proj1 (Forall_forall _ _) HF s (A1 s Hs)).
    + exact A2.
    + intros k. rewrite rc_pfold_snoc, A3. cbn [fst snd]. rewrite Hdel.
      destruct (key_eqb k (rk r)); [reflexivity|apply Hp].
  - set (new := {| sl_h := p_hash P seed (rk r); sl_seg := id; sl_ks := u16 (nlen (rk r));
                   sl_vs := u32 (nlen (rv r)); sl_off := u32 off |}).
    assert (Hoff' : u32 off = off) by (apply u32_small; exact Hoff).
    assert (Hnew : slot_ok P d seed new).
    { apply slot_ok_rec_of. exists r. cbn [new sl_seg sl_off sl_ks sl_vs sl_h]. rewrite Hoff'.
      split; [exact Hrec|]. split; [exact Hdel|].
      split; [apply u16_small; rewrite max_key_len_eq in Hkl; lia|].
      split; [apply u32_small; rewrite max_val_len_eq in Hvl; lia|reflexivity]. }
    assert (Hkey : slot_key d new = rk r).
    { destruct (rc_slot_ok_key d seed new Hnew) as (r' & E' & _ & _ & _ & _ & Ek).
      cbn [new sl_seg sl_off] in E'. rewrite Hoff', Hrec in E'. inversion E'; subst. exact Ek. }
    destruct (rc_fl_put_spec (slot_key d) (p_grow P) (rk r) (matchf d' (rk r)) new i Hhit Hkey Hnd)
      as (A1 & A2 & A3 & _).
    split; [|split].
    + apply Forall_forall. intros s Hs. destruct (A1 s Hs) as [->|Hs']; [exact Hnew|].
      exact (proj1 (Forall_forall _ _) HF s Hs').
    + exact A2.
    + intros k. rewrite rc_pfold_snoc, A3. cbn [fst snd]. rewrite Hdel.
      destruct (key_eqb k (rk r)); [|apply Hp].
      cbn [option_map new sl_seg sl_off]. rewrite Hoff'. reflexivity.
Qed.

(* ---- what replay_rec does to the memory ---- *)
Definition rc_msig (g : mseg) : N * N * N * bool := (g_id g, g_seq g, g_size g, sm_full (g_meta g)).

Lemma rc_msig_upd_mseg id F l : (forall g, rc_msig (F g) = rc_msig g) -> map rc_msig (upd_mseg id F l) = map rc_msig l.
Proof.
  intros HF. unfold upd_mseg. rewrite map_map. apply map_ext. intros g.
  destruct (g_id g =? id); [apply HF|reflexivity].
Qed.

Lemma rc_msig_track_del sl (m : mem) : map rc_msig (m_segs (track_del sl m)) = map rc_msig (m_segs m).
Proof. unfold track_del. cbn [set_msegs m_segs]. apply rc_msig_upd_mseg. intros g. reflexivity. Qed.

Lemma rc_replay_rec_frame (d : disk) id off r (m : mem) :
  let m' := replay_rec flat_ops P d id off r m in
  m_idx m' = rc_replay_idx d (m_seed m) (id, off, r) (m_idx m) /\
  map rc_msig (m_segs m') = map rc_msig (m_segs m) /\
  m_cur m' = m_cur m /\ m_cur_removed m' = m_cur_removed m /\ m_maxseq m' = m_maxseq m /\
  m_seed m' = m_seed m.
Proof.
  unfold replay_rec, rc_replay_idx. cbn [fst snd ix_del ix_put flat_ops]. destruct (rdel r).
  - destruct (fl_del (m_idx m) (p_hash P (m_seed m) (rk r)) (matchf d (rk r))) as [i1 old]. cbn [fst].
    destruct old as [o|]; cbn [set_msegs set_idx m_idx m_segs m_cur m_cur_removed m_maxseq m_seed track_del].
    + split; [reflexivity|]. split; [|repeat split].
      rewrite rc_msig_upd_mseg by (intros g; reflexivity). apply rc_msig_upd_mseg. intros g. reflexivity.
    + split; [reflexivity|]. split; [|repeat split].
      apply rc_msig_upd_mseg. intros g. reflexivity.
  - match goal with |- context [fl_put ?a ?b ?c ?e] => destruct (fl_put a b c e) as [i1 old] end. cbn [fst].
    destruct old as [o|]; cbn [set_msegs set_idx m_idx m_segs m_cur m_cur_removed m_maxseq m_seed track_del].
    + split; [reflexivity|]. split; [|repeat split].
      rewrite rc_msig_upd_mseg by (intros g; reflexivity). apply rc_msig_upd_mseg. intros g. reflexivity.
    + split; [reflexivity|]. split; [|repeat split].
      apply rc_msig_upd_mseg. intros g. reflexivity.
Qed.

(* ---- the replayed index depends on the disk only through the records it can read ---- *)
Lemma rc_fl_replace_ext (h1 h2 : slot -> bool) new (l : flat) :
  (forall s, h1 s = h2 s) -> fl_replace h1 new l = fl_replace h2 new l.
Proof.
  intros H. induction l as [|s l IH]; [reflexivity|]. cbn [fl_replace]. rewrite H, IH. reflexivity.
Qed.
Lemma rc_fl_remove_ext (h1 h2 : slot -> bool) (l : flat) :
  (forall s, h1 s = h2 s) -> fl_remove h1 l = fl_remove h2 l.
Proof.
  intros H. induction l as [|s l IH]; [reflexivity|]. cbn [fl_remove]. rewrite H, IH. reflexivity.
Qed.

Lemma rc_matchf_rec_of_ext (d d' : disk) k sl :
  (forall i off, rec_of d' i off = rec_of d i off) -> matchf d' k sl = matchf d k sl.
Proof. intros H. unfold matchf. rewrite !read_kv_rec_of, H. reflexivity. Qed.

Lemma rc_replay_idx_ext (d d' : disk) seed e i :
  (forall i off, rec_of d' i off = rec_of d i off) -> rc_replay_idx d' seed e i = rc_replay_idx d seed e i.
Proof.
  intros H. unfold rc_replay_idx. destruct (rdel (snd e)).
  - unfold fl_del. rewrite (rc_fl_remove_ext _ (fl_hit (p_hash P seed (rk (snd e))) (matchf d (rk (snd e))))); [reflexivity|].
    intros s. unfold fl_hit. rewrite (rc_matchf_rec_of_ext d d' _ _ H). reflexivity.
  - unfold fl_put. cbn [sl_h].
    rewrite (rc_fl_replace_ext _ (fl_hit (p_hash P seed (rk (snd e))) (matchf d (rk (snd e))))); [reflexivity|].
    intros s. unfold fl_hit. rewrite (rc_matchf_rec_of_ext d d' _ _ H). reflexivity.
Qed.

(* the index a recovery of disk [d] builds *)
Definition rc_ridx (d : disk) (seed : N) (l : list entry) (i : flat) : flat :=
  fold_left (fun i e => rc_replay_idx d seed e i) l i.

Lemma rc_ridx_ext (d d' : disk) seed l : forall i,
  (forall i off, rec_of d' i off = rec_of d i off) -> rc_ridx d' seed l i = rc_ridx d seed l i.
Proof.
  induction l as [|e l IH]; intros i H; [reflexivity|].
  unfold rc_ridx. cbn [fold_left]. rewrite (rc_replay_idx_ext d d' seed e i H). apply IH. exact H.
Qed.

Lemma rc_ridx_app d seed l1 l2 i : rc_ridx d seed (l1 ++ l2) i = rc_ridx d seed l2 (rc_ridx d seed l1 i).
Proof. unfold rc_ridx. apply fold_left_app. Qed.

End Replay.

(* ================================================================================================ *)
(* F. generic list facts                                                                              *)
Lemma rc_fold_map_pointwise {A B} (h : B -> A -> A) (R : list B) : forall l : list A,
  fold_left (fun l b => map (h b) l) R l = map (fun a => fold_left (fun a b => h b a) R a) l.
Proof.
  induction R as [|b R IH]; intros l; cbn [fold_left].
  - symmetry. apply map_id.
  - rewrite IH, map_map. reflexivity.
Qed.

Lemma rc_fold_inv {A S} (step : S -> A -> S) (Q : S -> Prop) (good : A -> Prop) (L : list A) :
  (forall s f, good f -> Q s -> Q (step s f)) -> Forall good L -> forall s, Q s -> Q (fold_left step L s).
Proof.
  intros Hstep HL. induction HL as [|f L Hf HL IH]; intros s Hs; [exact Hs|].
  cbn [fold_left]. apply IH. apply Hstep; assumption.
Qed.

Lemma rc_fold_established {A S} (step : S -> A -> S) (Q : S -> Prop) (good : A -> Prop) f0 (L : list A) :
  (forall s, Q (step s f0)) -> (forall s f, good f -> Q s -> Q (step s f)) -> Forall good L -> In f0 L ->
  forall s, Q (fold_left step L s).
Proof.
  intros H0 Hstep HL. induction HL as [|f L Hf HL IH]; intros HIn s; [destruct HIn|].
  cbn [fold_left]. destruct HIn as [->|HIn].
  - apply (rc_fold_inv step Q good); [exact Hstep|exact HL|apply H0].
  - apply IH. exact HIn.
Qed.

Lemma rc_disk_fold_emit {A} (ev : A -> fsev) (L : list A) : forall s : st,
  s_disk (fold_left (fun s x => emit flat_ops (ev x) s) L s) =
  fold_left (fun d x => apply_ev flat_ops d (ev x)) L (s_disk s) /\
  s_mem (fold_left (fun s x => emit flat_ops (ev x) s) L s) = s_mem s.
Proof.
  induction L as [|x L IH]; intros s; [split; reflexivity|].
  cbn [fold_left]. destruct (IH (emit flat_ops (ev x) s)) as [A1 A2]. rewrite A1, A2. split; reflexivity.
Qed.

(* ---- file names ---- *)
Lemma rc_fname_eqb_spec a : forall b, fname_eqb a b = true <-> a = b.
Proof.
  induction a as [i s|i s| | | | | |a IH]; intros b; destruct b as [j t|j t| | | | | |b]; cbn [fname_eqb];
    try (split; [discriminate|congruence]); try (split; reflexivity).
  - rewrite andb_true_iff, !N.eqb_eq. split; [intros [-> ->]; reflexivity|intros E; inversion E; auto].
  - rewrite andb_true_iff, !N.eqb_eq. split; [intros [-> ->]; reflexivity|intros E; inversion E; auto].
  - rewrite IH. split; [congruence|intros E; inversion E; reflexivity].
Qed.
Lemma rc_fname_eqb_refl a : fname_eqb a a = true.
Proof. apply rc_fname_eqb_spec. reflexivity. Qed.

Lemma rc_remove_name_In f l x : In x (remove_name f l) -> In x l.
Proof.
  induction l as [|g l IH]; [intros []|]. cbn [remove_name]. destruct (fname_eqb f g).
  - intros H. right. exact H.
  - intros [H|H]; [left; exact H|right; apply IH; exact H].
Qed.

Lemma rc_remove_name_perm f l : In f l -> Permutation l (f :: remove_name f l).
Proof.
  induction l as [|g l IH]; [intros []|]. cbn [remove_name]. intros HIn.
  destruct (fname_eqb f g) eqn:E.
  - apply rc_fname_eqb_spec in E. subst g. reflexivity.
  - destruct HIn as [->|HIn]; [rewrite rc_fname_eqb_refl in E; discriminate|].
    rewrite (IH HIn) at 1. apply perm_swap.
Qed.

Lemma rc_remove_all_perm L : forall B, Permutation L B -> fold_left (fun b f => remove_name f b) L B = [].
Proof.
  induction L as [|f L IH]; intros B Hp.
  - apply Permutation_nil in Hp. subst B. reflexivity.
  - cbn [fold_left]. apply IH.
    assert (HIn : In f B) by (apply (Permutation_in _ Hp); left; reflexivity).
    apply (Permutation_cons_inv (a := f)). rewrite Hp. apply rc_remove_name_perm. exact HIn.
Qed.

Lemma rc_insert_name_perm f l : Permutation (insert_name f l) (f :: l).
Proof.
  induction l as [|g l IH]; [reflexivity|]. cbn [insert_name].
  destruct (lex_ltb (name_str f) (name_str g)); [reflexivity|]. rewrite IH. apply perm_swap.
Qed.
Lemma rc_sort_names_perm l : Permutation (sort_names l) l.
Proof.
  induction l as [|f l IH]; [reflexivity|]. unfold sort_names. cbn [fold_right].
  fold (sort_names l). rewrite rc_insert_name_perm, IH. reflexivity.
Qed.

Lemma rc_insert_dseg_perm f l : Permutation (insert_dseg f l) (f :: l).
Proof.
  induction l as [|g l IH]; [reflexivity|]. cbn [insert_dseg].
  destruct (lex_ltb _ _); [reflexivity|]. rewrite IH. apply perm_swap.
Qed.
Lemma rc_sort_segs_perm l : Permutation (sort_segs l) l.
Proof.
  induction l as [|f l IH]; [reflexivity|]. unfold sort_segs. cbn [fold_right].
  fold (sort_segs l). rewrite rc_insert_dseg_perm, IH. reflexivity.
Qed.

(* ---- by_seq (in-memory segments by sequence id) ---- *)
Local Notation mins_fold := (fold_left (fun acc g => insert_by_seq g acc)).

Lemma rc_insert_by_seq_perm g l : Permutation (insert_by_seq g l) (g :: l).
Proof.
  induction l as [|x l IH]; [reflexivity|]. cbn [insert_by_seq].
  destruct (g_seq g <? g_seq x); [reflexivity|]. rewrite IH. apply perm_swap.
Qed.
Lemma rc_mins_fold_perm l : forall acc, Permutation (mins_fold l acc) (acc ++ l).
Proof.
  induction l as [|x l IH]; intros acc; cbn [fold_left].
  - rewrite app_nil_r. reflexivity.
  - rewrite IH, rc_insert_by_seq_perm. cbn [app]. apply Permutation_middle.
Qed.
Lemma rc_by_seq_perm l : Permutation (by_seq l) l.
Proof. unfold by_seq. rewrite rc_mins_fold_perm. reflexivity. Qed.
Lemma rc_by_seq_In l g : In g (by_seq l) <-> In g l.
Proof. split; apply Permutation_in; [|symmetry]; apply rc_by_seq_perm. Qed.

Lemma rc_insert_by_seq_sorted g l :
  StronglySorted (fun a b => g_seq a <= g_seq b) l ->
  StronglySorted (fun a b => g_seq a <= g_seq b) (insert_by_seq g l).
Proof.
  induction l as [|x l IH]; intros Hs.
  - cbn [insert_by_seq]. constructor; constructor.
  - cbn [insert_by_seq]. inversion Hs as [|? ? Hs' Hx]; subst.
    destruct (N.ltb_spec (g_seq g) (g_seq x)) as [Hlt|Hge].
    + constructor; [exact Hs|]. constructor; [lia|].
      apply Forall_forall. intros y Hy. pose proof (proj1 (Forall_forall _ _) Hx y Hy) as Hxy. cbn beta in Hxy. lia.
    + constructor; [apply IH; exact Hs'|].
      apply Forall_forall. intros y Hy.
      apply (Permutation_in _ (rc_insert_by_seq_perm g l)) in Hy. destruct Hy as [<-|Hy]; [exact Hge|].
      exact (proj1 (Forall_forall _ _) Hx y Hy).
Qed.
Lemma rc_mins_fold_sorted l : forall acc,
  StronglySorted (fun a b => g_seq a <= g_seq b) acc ->
  StronglySorted (fun a b => g_seq a <= g_seq b) (mins_fold l acc).
Proof.
  induction l as [|x l IH]; intros acc Hs; [exact Hs|].
  cbn [fold_left]. apply IH. apply rc_insert_by_seq_sorted. exact Hs.
Qed.
Lemma rc_by_seq_sorted l : StronglySorted (fun a b => g_seq a <= g_seq b) (by_seq l).
Proof. apply rc_mins_fold_sorted. constructor. Qed.

(* ---- sorted lists of (id, sequence id) pairs ---- *)
Definition rc_pair_lt (a b : N * N) : Prop := snd a < snd b.

Lemma rc_sorted_pairs_unique (l1 : list (N * N)) : forall l2,
  StronglySorted rc_pair_lt l1 -> StronglySorted rc_pair_lt l2 -> (forall x, In x l1 <-> In x l2) -> l1 = l2.
Proof.
  induction l1 as [|x l1 IH]; intros l2 H1 H2 Hin.
  - destruct l2 as [|y l2]; [reflexivity|]. exfalso. apply (proj2 (Hin y)). left. reflexivity.
  - destruct l2 as [|y l2]; [exfalso; apply (proj1 (Hin x)); left; reflexivity|].
    inversion H1 as [|? ? H1' Hx]; subst. inversion H2 as [|? ? H2' Hy]; subst.
    assert (E : x = y).
    { assert (Hxin : In x (y :: l2)) by (apply Hin; left; reflexivity).
      assert (Hyin : In y (x :: l1)) by (apply Hin; left; reflexivity).
      destruct Hxin as [->|Hxin]; [reflexivity|]. destruct Hyin as [->|Hyin]; [reflexivity|].
      pose proof (proj1 (Forall_forall _ _) Hy x Hxin) as Q1. pose proof (proj1 (Forall_forall _ _) Hx y Hyin) as Q2.
      unfold rc_pair_lt in Q1, Q2. lia. }
    subst y. f_equal. apply IH; try assumption. intros z. split; intros Hz.
    + assert (Hz' : In z (x :: l2)) by (apply Hin; right; exact Hz).
      destruct Hz' as [<-|Hz']; [|exact Hz']. pose proof (proj1 (Forall_forall _ _) Hx x Hz) as Q1. unfold rc_pair_lt in Q1. lia.
    + assert (Hz' : In z (x :: l1)) by (apply Hin; right; exact Hz).
      destruct Hz' as [<-|Hz']; [|exact Hz']. pose proof (proj1 (Forall_forall _ _) Hy x Hz) as Q1. unfold rc_pair_lt in Q1. lia.
Qed.

Lemma rc_sorted_map_pairs {A} (key : A -> N) (pr : A -> N * N) (l : list A) :
  (forall a, snd (pr a) = key a) -> NoDup (map key l) ->
  StronglySorted (fun a b => key a <= key b) l -> StronglySorted rc_pair_lt (map pr l).
Proof.
  intros Hk. induction l as [|x l IH]; intros Hnd Hs; [constructor|].
  cbn [map] in *. inversion Hnd as [|? ? Hx Hnd']; subst. inversion Hs as [|? ? Hs' Hle]; subst.
  constructor; [apply IH; assumption|]. apply Forall_forall. intros p Hp.
  apply in_map_iff in Hp. destruct Hp as (y & <- & Hy). unfold rc_pair_lt. rewrite !Hk.
  pose proof (proj1 (Forall_forall _ _) Hle y Hy) as Hl. cbn beta in Hl.
  assert (key x <> key y); [|lia]. intros E. apply Hx. rewrite E. apply in_map. exact Hy.
Qed.

Lemma rc_NoDup_map_inj_on {A B} (h : A -> B) (l : list A) :
  NoDup l -> (forall a b, In a l -> In b l -> h a = h b -> a = b) -> NoDup (map h l).
Proof.
  induction l as [|x l IH]; intros Hnd Hinj; [constructor|].
  inversion Hnd as [|? ? Hx Hnd']; subst. cbn [map]. constructor.
  - intros HIn. apply in_map_iff in HIn. destruct HIn as (y & E & Hy).
    assert (y = x) by (apply Hinj; [right; exact Hy|left; reflexivity|exact E]). subst y. exact (Hx Hy).
  - apply IH; [exact Hnd'|]. intros a b Ha Hb. apply Hinj; right; assumption.
Qed.

(* ================================================================================================ *)
(* G. *.bac files: the model's d_bac holds names of the form FBac _ only                              *)
Definition is_bac (f : fname) : Prop := match f with FBac _ => True | _ => False end.
Definition bac_ok (d : disk) : Prop := Forall is_bac (d_bac d).
(* the only renames the model issues are  name -> name.bac *)
Definition ev_bac_ok (e : fsev) : Prop := match e with ERename _ g => is_bac g | _ => True end.

Lemma rc_Forall_remove_name (Q : fname -> Prop) f l : Forall Q l -> Forall Q (remove_name f l).
Proof.
  intros H. apply Forall_forall. intros x Hx. apply rc_remove_name_In in Hx.
  exact (proj1 (Forall_forall _ _) H x Hx).
Qed.

Lemma rc_file_removed_bac_ok f (d : disk) : bac_ok d -> bac_ok (file_removed f d).
Proof.
  unfold bac_ok. intros H. destruct f; cbn [file_removed set_orphans set_segs upd_seg set_index set_overflow
    set_imeta set_dbmeta set_lock set_bac d_bac]; try exact H.
  apply rc_Forall_remove_name. exact H.
Qed.

Theorem apply_ev_bac_ok (d : disk) e : bac_ok d -> ev_bac_ok e -> bac_ok (apply_ev flat_ops d e).
Proof.
  intros H He. destruct e as [f|f|id seq off r|i|id seq m|i|sd|f n|f g|f|f]; cbn [apply_ev]; try exact H.
  - destruct f; try exact H. unfold bac_ok. cbn [set_bac d_bac]. apply Forall_app. split; [exact H|].
    constructor; [exact Logic.I|constructor].
  - destruct f; exact H.
  - destruct f; exact H.
  - unfold bac_ok. cbn [set_bac d_bac]. apply Forall_app. split.
    + apply rc_Forall_remove_name. apply rc_file_removed_bac_ok. exact H.
    + constructor; [exact He|constructor].
  - apply rc_file_removed_bac_ok. exact H.
Qed.

(* ---- removeRecoveryBackupFiles ---- *)
Lemma rc_remove_bac_step_frame (d : disk) f : is_bac f ->
  let d' := apply_ev flat_ops d (ERemove f) in
  d_segs d' = d_segs d /\ d_index d' = d_index d /\ d_overflow d' = d_overflow d /\ d_lock d' = d_lock d /\
  d_bac d' = remove_name f (d_bac d).
Proof. destruct f; intros H; try destruct H. repeat split. Qed.

Lemma rc_remove_bac_fold L : forall d : disk, Forall is_bac L ->
  let d' := fold_left (fun d f => apply_ev flat_ops d (ERemove f)) L d in
  d_segs d' = d_segs d /\ d_index d' = d_index d /\ d_overflow d' = d_overflow d /\ d_lock d' = d_lock d /\
  d_bac d' = fold_left (fun b f => remove_name f b) L (d_bac d).
Proof.
  induction L as [|f L IH]; intros d HL; [repeat split|].
  inversion HL as [|? ? Hf HL']; subst. cbn [fold_left].
  destruct (rc_remove_bac_step_frame d f Hf) as (A1 & A2 & A3 & A4 & A5).
  destruct (IH (apply_ev flat_ops d (ERemove f)) HL') as (B1 & B2 & B3 & B4 & B5). cbv zeta in *.
  rewrite B1, B2, B3, B4, B5, A1, A2, A3, A4, A5. repeat split.
Qed.

Lemma rc_remove_bac_spec (s : st) : bac_ok (s_disk s) ->
  let s' := remove_bac flat_ops s in
  d_segs (s_disk s') = d_segs (s_disk s) /\ d_index (s_disk s') = d_index (s_disk s) /\
  d_overflow (s_disk s') = d_overflow (s_disk s) /\ d_lock (s_disk s') = d_lock (s_disk s) /\
  d_bac (s_disk s') = [] /\ s_mem s' = s_mem s.
Proof.
  intros Hb. unfold remove_bac.
  destruct (rc_disk_fold_emit (fun f => ERemove f) (sort_names (d_bac (s_disk s))) s) as [E1 E2].
  cbv zeta. rewrite E1, E2.
  assert (HL : Forall is_bac (sort_names (d_bac (s_disk s)))).
  { apply Forall_forall. intros x Hx. apply (Permutation_in _ (rc_sort_names_perm _)) in Hx.
    exact (proj1 (Forall_forall _ _) Hb x Hx). }
  destruct (rc_remove_bac_fold _ (s_disk s) HL) as (A1 & A2 & A3 & A4 & A5). cbv zeta in *.
  rewrite A1, A2, A3, A4, A5. repeat split. apply rc_remove_all_perm. apply rc_sort_names_perm.
Qed.

(* ---- backupNonsegmentFiles ---- *)
Definition rc_bstep (d : disk) (f : fname) : disk := apply_ev flat_ops d (ERename f (FBac f)).
Definition rc_bgood (f : fname) : Prop := is_segfile f = false /\ f <> FLock.
Definition rc_Qseg (id seq : N) (d : disk) : Prop :=
  forall f, In f (d_segs d) -> is_seg id seq f = true -> f_meta f = GAbsent.

Lemma rc_bstep_same_log d f : rc_bgood f -> same_log d (rc_bstep d f).
Proof. intros [H _]. apply apply_ev_same_log. destruct f; try reflexivity. discriminate. Qed.
Lemma rc_bstep_lock d f : rc_bgood f -> d_lock (rc_bstep d f) = d_lock d.
Proof. intros [_ H]. destruct f; try reflexivity. congruence. Qed.
Lemma rc_bstep_bac d f : bac_ok d -> bac_ok (rc_bstep d f).
Proof. intros H. apply apply_ev_bac_ok; [exact H|exact Logic.I]. Qed.
Lemma rc_bstep_index_none d f : d_index d = None -> d_index (rc_bstep d f) = None.
Proof. intros H. destruct f; try exact H. reflexivity. Qed.
Lemma rc_bstep_index_main d : d_index (rc_bstep d FMain) = None.
Proof. reflexivity. Qed.

Lemma rc_d_segs_bstep d f :
  d_segs (rc_bstep d f) =
  match f with
  | FSegMeta id seq => map (fun s => if is_seg id seq s then set_fmeta GAbsent s else s) (d_segs d)
  | FSeg id seq => filter (fun s => negb (is_seg id seq s)) (d_segs d)
  | _ => d_segs d
  end.
Proof. destruct f; reflexivity. Qed.

Lemma rc_bstep_Qseg_est id seq d : rc_Qseg id seq (rc_bstep d (FSegMeta id seq)).
Proof.
  intros f Hf Hs. rewrite rc_d_segs_bstep in Hf. apply in_map_iff in Hf. destruct Hf as (x & E & Hx).
  destruct (is_seg id seq x) eqn:Ex; subst f; [reflexivity|congruence].
Qed.
Lemma rc_bstep_Qseg_pres id seq d f : rc_bgood f -> rc_Qseg id seq d -> rc_Qseg id seq (rc_bstep d f).
Proof.
  intros [Hg _] HQ x Hx Hs. rewrite rc_d_segs_bstep in Hx. destruct f; try (apply HQ; assumption); [discriminate|].
  apply in_map_iff in Hx. destruct Hx as (y & E & Hy). destruct (is_seg id0 seq0 y); subst x; [reflexivity|].
  apply HQ; assumption.
Qed.

Lemma rc_dir_segmeta (d : disk) f :
  In f (d_segs d) -> gob_present (f_meta f) = true -> In (FSegMeta (f_id f) (f_seq f)) (dir d).
Proof.
  intros Hf Hp. unfold dir. apply in_or_app. left. unfold seg_names. apply in_concat.
  exists [FSeg (f_id f) (f_seq f); FSegMeta (f_id f) (f_seq f)]. split; [|right; left; reflexivity].
  apply in_map_iff. exists f. rewrite Hp. split; [reflexivity|exact Hf].
Qed.
Lemma rc_dir_main (d : disk) i : d_index d = Some i -> In FMain (dir d).
Proof.
  intros E. unfold dir. rewrite E. apply in_or_app. right. apply in_or_app. right. left. reflexivity.
Qed.

Lemma rc_backup_spec (s : st) :
  DiskOK (s_disk s) -> bac_ok (s_disk s) ->
  let s' := backup_nonseg flat_ops s in
  same_log (s_disk s) (s_disk s') /\ d_lock (s_disk s') = d_lock (s_disk s) /\ bac_ok (s_disk s') /\
  d_index (s_disk s') = None /\ (forall f, In f (d_segs (s_disk s')) -> f_meta f = GAbsent) /\
  s_mem s' = s_mem s.
Proof.
  intros Hok Hb. unfold backup_nonseg.
  set (nsl := fun f => negb (is_segfile f || fname_eqb f FLock)).
  set (L := sort_names (filter nsl (dir (s_disk s)))).
  destruct (rc_disk_fold_emit (fun f => ERename f (FBac f)) L s) as [E1 E2]. cbv zeta. rewrite E1, E2.
  change (fold_left _ L (s_disk s)) with (fold_left rc_bstep L (s_disk s)).
  set (d := s_disk s) in *.
  assert (HinL : forall f, In f (dir d) -> nsl f = true -> In f L).
  { intros f Hf Hn. apply (Permutation_in _ (Permutation_sym (rc_sort_names_perm _))). apply filter_In. auto. }
  assert (HL : Forall rc_bgood L).
  { apply Forall_forall. intros f Hf. apply (Permutation_in _ (rc_sort_names_perm _)) in Hf.
    apply filter_In in Hf. destruct Hf as [_ Hn]. unfold nsl in Hn. apply negb_true_iff, orb_false_iff in Hn.
    destruct Hn as [H1 H2]. split; [exact H1|]. intros ->. discriminate. }
  assert (Hsl : same_log d (fold_left rc_bstep L d)).
  { apply (rc_fold_inv rc_bstep (same_log d) rc_bgood L); [|exact HL|apply same_log_refl].
    intros x f Hf Hx. eapply same_log_trans; [exact Hx|apply rc_bstep_same_log; exact Hf]. }
  split; [exact Hsl|]. split.
  { apply (rc_fold_inv rc_bstep (fun x => d_lock x = d_lock d) rc_bgood L); [|exact HL|reflexivity].
    intros x f Hf Hx. rewrite rc_bstep_lock; assumption. }
  split.
  { apply (rc_fold_inv rc_bstep bac_ok rc_bgood L); [|exact HL|exact Hb]. intros x f _ Hx. apply rc_bstep_bac. exact Hx. }
  split.
  { destruct (d_index d) as [i|] eqn:Ei.
    - apply (rc_fold_established rc_bstep (fun x => d_index x = None) rc_bgood FMain L); [apply rc_bstep_index_main| |exact HL|].
      + intros x f _ Hx. apply rc_bstep_index_none. exact Hx.
      + apply HinL; [eapply rc_dir_main; exact Ei|reflexivity].
    - apply (rc_fold_inv rc_bstep (fun x => d_index x = None) rc_bgood L); [|exact HL|exact Ei].
      intros x f _ Hx. apply rc_bstep_index_none. exact Hx. }
  split; [|reflexivity].
  intros f1 Hf1. destruct (same_log_In _ _ f1 (same_log_sym _ _ Hsl) Hf1) as (f & Hf & Ec).
  apply seg_core_inv in Ec. destruct Ec as (Eid & Eseq & _).
  assert (HQ : rc_Qseg (f_id f) (f_seq f) (fold_left rc_bstep L d)).
  { destruct (gob_present (f_meta f)) eqn:Hp.
    - apply (rc_fold_established rc_bstep (rc_Qseg (f_id f) (f_seq f)) rc_bgood (FSegMeta (f_id f) (f_seq f)) L);
        [apply rc_bstep_Qseg_est| |exact HL|].
      + intros x g Hg Hx. apply rc_bstep_Qseg_pres; assumption.
      + apply HinL; [apply rc_dir_segmeta; assumption|reflexivity].
    - apply (rc_fold_inv rc_bstep (rc_Qseg (f_id f) (f_seq f)) rc_bgood L); [|exact HL|].
      + intros x g Hg Hx. apply rc_bstep_Qseg_pres; assumption.
      + intros x Hx Hs. unfold is_seg in Hs. apply andb_true_iff in Hs. destruct Hs as [Hs _].
        apply N.eqb_eq in Hs. assert (x = f).
        { apply (NoDup_map_inj f_id (d_segs d)); [apply Hok|assumption|assumption|exact Hs]. }
        subst x. destruct (f_meta f); [reflexivity|discriminate|discriminate]. }
  apply HQ; [exact Hf1|]. unfold is_seg. rewrite Eid, Eseq, !N.eqb_refl. reflexivity.
Qed.

(* ---- openIndex after the index files were moved away ---- *)
Lemma rc_open_index_fresh (s : st) : d_index (s_disk s) = None ->
  exists s', open_index flat_ops s = Some (s', []) /\
    d_segs (s_disk s') = d_segs (s_disk s) /\ d_lock (s_disk s') = d_lock (s_disk s) /\
    d_bac (s_disk s') = d_bac (s_disk s) /\ d_index (s_disk s') = Some [] /\ d_overflow (s_disk s') = true /\
    s_mem s' = s_mem s.
Proof.
  intros E. unfold open_index. rewrite E.
  destruct (d_overflow (s_disk (emits flat_ops [ECreate FMain; EHeader FMain] s))) eqn:Eo.
  - eexists. split; [reflexivity|]. cbn [emits fold_left emit s_disk s_mem apply_ev] in *.
    repeat split. exact Eo.
  - eexists. split; [reflexivity|]. repeat split.
Qed.

(* ================================================================================================ *)
(* H. openDatalog: open_segments                                                                      *)
Definition rc_hlen (f : dseg) : N := header_size + recs_len (f_recs f) + nlen (f_tail f).
Definition rc_mkseg (f : dseg) : mseg :=
  {| g_id := f_id f; g_seq := f_seq f; g_size := rc_hlen f;
     g_meta := match f_meta f with GOk m => m | _ => smeta0 end |}.
Definition rc_hon (f : dseg) : dseg :=
  {| f_id := f_id f; f_seq := f_seq f; f_hdr := true; f_recs := f_recs f; f_tail := f_tail f; f_meta := f_meta f |}.
Definition rc_hdr_step (s : st) (f : dseg) : st :=
  if f_hdr f then s else emit flat_ops (EHeader (FSeg (f_id f) (f_seq f))) s.
Definition rc_hstep (x f : dseg) : dseg := if is_seg (f_id x) (f_seq x) f && negb (f_hdr x) then rc_hon f else f.
Definition rc_hons (L : list dseg) (f : dseg) : dseg := fold_left (fun f x => rc_hstep x f) L f.

Definition rc_ostep (acc : st * list mseg) (f : dseg) : st * list mseg :=
  let '(s, l) := acc in
  let s1 := if f_hdr f then s else emit flat_ops (EHeader (FSeg (f_id f) (f_seq f))) s in
  let size := match find_dseg (f_id f) (s_disk s1) with Some f' => flen f' | None => 0 end in
  let meta := match f_meta f with GOk m => m | _ => smeta0 end in
  (s1, insert_mseg {| g_id := f_id f; g_seq := f_seq f; g_size := size; g_meta := meta |} l).

Lemma rc_open_segments_eq (s : st) :
  open_segments flat_ops s = fold_left rc_ostep (sort_segs (d_segs (s_disk s))) (s, []).
Proof. reflexivity. Qed.

Lemma rc_flen_hdr f : f_hdr f = true -> flen f = rc_hlen f.
Proof. intros H. unfold flen, rc_hlen. rewrite H. reflexivity. Qed.

Lemma rc_ostep_eq (s : st) l f :
  NoDup (map f_id (d_segs (s_disk s))) -> In f (d_segs (s_disk s)) ->
  rc_ostep (s, l) f = (rc_hdr_step s f, insert_mseg (rc_mkseg f) l).
Proof.
  intros Hnd Hf. unfold rc_ostep, rc_hdr_step, rc_mkseg.
  destruct (f_hdr f) eqn:Hh.
  - rewrite (find_dseg_unique _ f Hnd Hf), (rc_flen_hdr f Hh). reflexivity.
  - change (s_disk (emit flat_ops (EHeader (FSeg (f_id f) (f_seq f))) s))
      with (upd_seg (f_id f) (f_seq f) rc_hon (s_disk s)).
    rewrite (find_dseg_upd_seg_same (f_id f) (f_seq f) rc_hon (s_disk s) f);
      [|reflexivity|apply find_dseg_unique; assumption|reflexivity].
    reflexivity.
Qed.

Lemma rc_hdr_step_disk (s : st) x :
  d_segs (s_disk (rc_hdr_step s x)) = map (rc_hstep x) (d_segs (s_disk s)) /\
  same_rest (s_disk s) (s_disk (rc_hdr_step s x)) /\ s_mem (rc_hdr_step s x) = s_mem s.
Proof.
  unfold rc_hdr_step, rc_hstep. destruct (f_hdr x).
  - split; [|split; [apply same_rest_refl|reflexivity]].
    rewrite <- (map_id (d_segs (s_disk s))) at 1. apply map_ext. intros f. rewrite andb_false_r. reflexivity.
  - split; [|split; [repeat split|reflexivity]].
    change (s_disk (emit flat_ops (EHeader (FSeg (f_id x) (f_seq x))) s))
      with (upd_seg (f_id x) (f_seq x) rc_hon (s_disk s)).
    rewrite d_segs_upd_seg. apply map_ext. intros f. rewrite andb_true_r. reflexivity.
Qed.

Lemma rc_hdr_fold_disk L : forall s : st,
  d_segs (s_disk (fold_left rc_hdr_step L s)) = map (rc_hons L) (d_segs (s_disk s)) /\
  same_rest (s_disk s) (s_disk (fold_left rc_hdr_step L s)) /\ s_mem (fold_left rc_hdr_step L s) = s_mem s.
Proof.
  induction L as [|x L IH]; intros s.
  - cbn [fold_left]. split; [symmetry; apply map_id|]. split; [apply same_rest_refl|reflexivity].
  - cbn [fold_left]. destruct (rc_hdr_step_disk s x) as (A1 & A2 & A3).
    destruct (IH (rc_hdr_step s x)) as (B1 & B2 & B3).
    split; [|split; [eapply same_rest_trans; eassumption|congruence]].
    rewrite B1, A1, map_map. apply map_ext. intros f. reflexivity.
Qed.

Lemma rc_hstep_fields x f :
  f_id (rc_hstep x f) = f_id f /\ f_seq (rc_hstep x f) = f_seq f /\ f_recs (rc_hstep x f) = f_recs f /\
  f_tail (rc_hstep x f) = f_tail f /\ f_meta (rc_hstep x f) = f_meta f /\ (f_hdr f = true -> f_hdr (rc_hstep x f) = true).
Proof. unfold rc_hstep. destruct (_ && _); repeat split; auto. Qed.

Lemma rc_hons_fields L : forall f,
  f_id (rc_hons L f) = f_id f /\ f_seq (rc_hons L f) = f_seq f /\ f_recs (rc_hons L f) = f_recs f /\
  f_tail (rc_hons L f) = f_tail f /\ f_meta (rc_hons L f) = f_meta f /\ (f_hdr f = true -> f_hdr (rc_hons L f) = true).
Proof.
  induction L as [|x L IH]; intros f; [repeat split; auto|].
  unfold rc_hons. cbn [fold_left]. fold (rc_hons L (rc_hstep x f)).
  destruct (IH (rc_hstep x f)) as (A1 & A2 & A3 & A4 & A5 & A6).
  destruct (rc_hstep_fields x f) as (B1 & B2 & B3 & B4 & B5 & B6).
  repeat split; try congruence. auto.
Qed.

Lemma rc_hons_hdr_cov L : forall f,
  (exists x, In x L /\ is_seg (f_id x) (f_seq x) f = true /\ (f_hdr x = true -> f_hdr f = true)) ->
  f_hdr (rc_hons L f) = true.
Proof.
  induction L as [|y L IH]; intros f (x & Hx & Hs & Hh); [destruct Hx|].
  unfold rc_hons. cbn [fold_left]. fold (rc_hons L (rc_hstep y f)).
  destruct Hx as [->|Hx].
  - apply rc_hons_fields. unfold rc_hstep. rewrite Hs. destruct (f_hdr x); [apply Hh; reflexivity|reflexivity].
  - apply IH. exists x. split; [exact Hx|].
    destruct (rc_hstep_fields y f) as (B1 & B2 & _ & _ & _ & B6).
    split; [unfold is_seg in *; rewrite B1, B2; exact Hs|]. intros H. apply B6, Hh, H.
Qed.

Lemma rc_hdr_fold_all_hdr L (s : st) : (forall f, In f L -> f_hdr f = true) -> fold_left rc_hdr_step L s = s.
Proof.
  revert s. induction L as [|x L IH]; intros s H; [reflexivity|].
  cbn [fold_left]. unfold rc_hdr_step at 2. rewrite (H x (or_introl eq_refl)). apply IH.
  intros f Hf. apply H. right. exact Hf.
Qed.

Lemma rc_ostep_fold L : forall (s : st) l,
  NoDup (map f_id (d_segs (s_disk s))) -> (forall x, In x L -> In x (d_segs (s_disk s))) -> NoDup (map f_id L) ->
  fold_left rc_ostep L (s, l) = (fold_left rc_hdr_step L s, fold_left (fun l f => insert_mseg (rc_mkseg f) l) L l).
Proof.
  induction L as [|f L IH]; intros s l Hnd Hin HndL; [reflexivity|].
  cbn [fold_left]. rewrite (rc_ostep_eq s l f Hnd (Hin f (or_introl eq_refl))).
  cbn [map] in HndL. inversion HndL as [|? ? HfL HndL']; subst.
  destruct (rc_hdr_step_disk s f) as (A1 & _ & _).
  apply IH; [| |exact HndL'].
  - rewrite A1, map_map. erewrite map_ext; [exact Hnd|]. intros x. apply rc_hstep_fields.
  - intros x Hx. rewrite A1. apply in_map_iff. exists x. split; [|apply Hin; right; exact Hx].
    unfold rc_hstep, is_seg. destruct (N.eqb_spec (f_id x) (f_id f)) as [E|_]; [|reflexivity].
    exfalso. apply HfL. rewrite <- E. apply in_map. exact Hx.
Qed.

Lemma rc_mkseg_fold_In L : forall l g,
  In g (fold_left (fun l f => insert_mseg (rc_mkseg f) l) L l) <-> In g l \/ exists f, In f L /\ g = rc_mkseg f.
Proof.
  induction L as [|f L IH]; intros l g; cbn [fold_left].
  - split; [auto|]. intros [H|(f & [] & _)]. exact H.
  - rewrite IH, insert_mseg_In. split.
    + intros [[->|H]|(x & Hx & E)]; [right; exists f; split; [left|]; reflexivity|left; exact H|].
      right. exists x. split; [right; exact Hx|exact E].
    + intros [H|(x & [->|Hx] & E)]; [left; right; exact H|left; left; exact E|].
      right. exists x. split; assumption.
Qed.

Lemma rc_mkseg_fold_inc L : forall l,
  ids_increasing l -> NoDup (map f_id L) -> (forall g f, In g l -> In f L -> g_id g <> f_id f) ->
  ids_increasing (fold_left (fun l f => insert_mseg (rc_mkseg f) l) L l).
Proof.
  induction L as [|f L IH]; intros l Hinc Hnd Hdis; [exact Hinc|].
  cbn [fold_left]. cbn [map] in Hnd. inversion Hnd as [|? ? HfL Hnd']; subst. apply IH; [|exact Hnd'|].
  - apply insert_mseg_increasing; [exact Hinc|]. intros x Hx. apply (Hdis x f Hx). left. reflexivity.
  - intros g x Hg Hx. apply insert_mseg_In in Hg. destruct Hg as [->|Hg].
    + cbn [rc_mkseg g_id]. intros E. apply HfL. rewrite E. apply in_map. exact Hx.
    + apply Hdis; [exact Hg|right; exact Hx].
Qed.

Lemma rc_open_segments_spec (s : st) :
  NoDup (map f_id (d_segs (s_disk s))) ->
  exists s' segs, open_segments flat_ops s = (s', segs) /\
    d_segs (s_disk s') = map (rc_hons (sort_segs (d_segs (s_disk s)))) (d_segs (s_disk s)) /\
    same_rest (s_disk s) (s_disk s') /\ s_mem s' = s_mem s /\
    s' = fold_left rc_hdr_step (sort_segs (d_segs (s_disk s))) s /\
    (forall g, In g segs <-> exists f, In f (d_segs (s_disk s)) /\ g = rc_mkseg f) /\
    ids_increasing segs.
Proof.
  intros Hnd. set (L := sort_segs (d_segs (s_disk s))).
  assert (HL : forall x, In x L <-> In x (d_segs (s_disk s))).
  { intros x. split; apply Permutation_in; [|symmetry]; apply rc_sort_segs_perm. }
  assert (HndL : NoDup (map f_id L)).
  { apply (Permutation_NoDup (l := map f_id (d_segs (s_disk s)))); [|exact Hnd].
    apply Permutation_map. symmetry. apply rc_sort_segs_perm. }
  rewrite rc_open_segments_eq. fold L. rewrite (rc_ostep_fold L s [] Hnd (fun x Hx => proj1 (HL x) Hx) HndL).
  eexists. eexists. split; [reflexivity|].
  destruct (rc_hdr_fold_disk L s) as (A1 & A2 & A3).
  split; [exact A1|]. split; [exact A2|]. split; [exact A3|]. split; [reflexivity|]. split.
  - intros g. rewrite rc_mkseg_fold_In. split.
    + intros [[]|(f & Hf & E)]. exists f. split; [apply HL; exact Hf|exact E].
    + intros (f & Hf & E). right. exists f. split; [apply HL; exact Hf|exact E].
  - apply rc_mkseg_fold_inc; [exact Logic.I|exact HndL|intros g f []].
Qed.

(* ================================================================================================ *)
(* I. recovery of one segment                                                                         *)
Definition rc_clean (f : dseg) : dseg :=
  {| f_id := f_id f; f_seq := f_seq f; f_hdr := true; f_recs := f_recs f; f_tail := []; f_meta := f_meta f |}.
Definition rc_cstep (id seq : N) (f : dseg) : dseg := if is_seg id seq f then rc_clean f else f.

(* memory and disk agree on ids, sequence ids and sizes (mem_disk_agree without "rc_clean") *)
Definition rc_magree (l : list mseg) (d : disk) : Prop :=
  (forall g, In g l -> exists f, In f (d_segs d) /\ f_id f = g_id g /\ f_seq f = g_seq g /\ flen f = g_size g) /\
  (forall f, In f (d_segs d) -> exists g, In g l /\ g_id g = f_id f /\ g_seq g = f_seq f).

Lemma rc_tail_stuck_parse t : tail_stuck t ->
  exists why, parse_tail t = ([], 0, why) /\ (why = SEnd -> t = []).
Proof.
  unfold tail_stuck. rewrite parse_tail_step, decode_next_eq. destruct t as [|x t].
  - intros _. exists SEnd. split; reflexivity.
  - destruct (decode_body (x :: t)) as [| | |r len rest] eqn:E.
    + exfalso. unfold decode_body in E.
      destruct (nlen (x :: t) <? 6); [discriminate|]. destruct (nlen (x :: t) <? hsize (x :: t)); [discriminate|].
      destruct (negb _); discriminate.
    + intros _. exists SShort. split; [reflexivity|discriminate].
    + intros _. exists SCorrupt. split; [reflexivity|discriminate].
    + destruct (parse_tail rest) as [[rs n] why]. cbn [fst snd]. intros [H _]. discriminate.
Qed.

Lemma rc_tail_stuck_nil : tail_stuck [].
Proof. unfold tail_stuck. rewrite empty_tail. split; reflexivity. Qed.

Lemma rc_reframe_nil id seq (s : st) : reframe id seq [] 0 s = s.
Proof.
  destruct s as [m d t]. unfold reframe. cbn [s_mem s_disk s_trace]. f_equal.
  destruct d as [segs orph ix ov im dm lk bac]. unfold upd_seg.
  cbn [d_segs d_orphans d_index d_overflow d_imeta d_dbmeta d_lock d_bac]. f_equal.
  rewrite <- (map_id segs) at 2. apply map_ext. intros f. destruct (is_seg id seq f); [|reflexivity].
  destruct f as [i q h rs tl mt]. cbn [f_id f_seq f_hdr f_recs f_tail f_meta]. rewrite app_nil_r. reflexivity.
Qed.

Lemma rc_trunc_recs_all rs : forall o n, o + recs_len rs <= n -> trunc_recs o n rs = (rs, o + recs_len rs).
Proof.
  induction rs as [|r rs IH]; intros o n H.
  - cbn [trunc_recs]. rewrite recs_len_nil, N.add_0_r. reflexivity.
  - cbn [trunc_recs]. rewrite recs_len_cons in *.
    assert (E : (o + rsize r <=? n) = true) by (apply N.leb_le; lia). rewrite E.
    rewrite (IH (o + rsize r) n) by lia. rewrite N.add_assoc. reflexivity.
Qed.

Lemma rc_trunc_seg_all f : f_hdr f = true -> trunc_seg (header_size + recs_len (f_recs f) + 0) f = rc_clean f.
Proof.
  intros H. unfold trunc_seg. rewrite H. cbn [negb].
  rewrite (rc_trunc_recs_all (f_recs f) header_size) by lia.
  rewrite skipn_all. unfold file_bytes_from. cbn [map concat app].
  replace (header_size + recs_len (f_recs f) + 0 - (header_size + recs_len (f_recs f))) with 0 by lia.
  reflexivity.
Qed.

Lemma rc_clean_id f : f_hdr f = true -> f_tail f = [] -> rc_clean f = f.
Proof. destruct f as [i q h rs tl mt]. cbn [f_hdr f_tail]. intros -> ->. reflexivity. Qed.

Lemma rc_flen_clean' f : flen (rc_clean f) = header_size + recs_len (f_recs f) + 0.
Proof. reflexivity. Qed.

Lemma rc_is_seg_unique (d : disk) id seq f x :
  NoDup (map f_id (d_segs d)) -> find_dseg id d = Some f -> In x (d_segs d) -> is_seg id seq x = true -> x = f.
Proof.
  intros Hnd Hf Hx Hs. apply find_dseg_In in Hf. destruct Hf as [Hf Eid].
  unfold is_seg in Hs. apply andb_true_iff in Hs. destruct Hs as [Hs _]. apply N.eqb_eq in Hs.
  apply (NoDup_map_inj f_id (d_segs d)); try assumption. congruence.
Qed.

Lemma rc_magree_cstep (l l' : list mseg) (d d1 : disk) id seq f :
  rc_magree l d -> NoDup (map f_id (d_segs d)) -> find_dseg id d = Some f -> f_seq f = seq ->
  d_segs d1 = map (rc_cstep id seq) (d_segs d) ->
  (forall g', In g' l' -> exists g, In g l /\ g_id g' = g_id g /\ g_seq g' = g_seq g /\
                           g_size g' = if g_id g =? id then flen (rc_clean f) else g_size g) ->
  (forall g, In g l -> exists g', In g' l' /\ g_id g' = g_id g /\ g_seq g' = g_seq g) ->
  rc_magree l' d1.
Proof.
  intros [M1 M2] Hnd Hf Hseq Ed H1 H2. pose proof (find_dseg_In _ _ _ Hf) as [HfIn Eid]. split.
  - intros g' Hg'. destruct (H1 g' Hg') as (g & Hg & A1 & A2 & A3).
    destruct (M1 g Hg) as (x & Hx & B1 & B2 & B3).
    exists (rc_cstep id seq x). split; [rewrite Ed; apply in_map; exact Hx|].
    destruct (N.eqb_spec (g_id g) id) as [E|Hne].
    + assert (x = f) by (apply (NoDup_map_inj f_id (d_segs d)); try assumption; congruence). subst x.
      unfold rc_cstep, is_seg. rewrite Eid, Hseq, !N.eqb_refl. cbn [andb rc_clean f_id f_seq].
      repeat split; congruence.
    + unfold rc_cstep, is_seg. destruct (N.eqb_spec (f_id x) id) as [E|_]; [congruence|]. cbn [andb].
      repeat split; congruence.
  - intros f1 Hf1. rewrite Ed in Hf1. apply in_map_iff in Hf1. destruct Hf1 as (x & <- & Hx).
    destruct (M2 x Hx) as (g & Hg & B1 & B2). destruct (H2 g Hg) as (g' & Hg' & C1 & C2).
    exists g'. split; [exact Hg'|]. unfold rc_cstep. destruct (is_seg id seq x); cbn [rc_clean f_id f_seq]; split; congruence.
Qed.

Definition rc_msig0 (g : mseg) : N * N * bool := (g_id g, g_seq g, sm_full (g_meta g)).

Lemma rc_msig_msig0 l l' : map rc_msig l = map rc_msig l' -> map rc_msig0 l = map rc_msig0 l'.
Proof.
  intros H. transitivity (map (fun t : N * N * N * bool => let '(i, q, _, b) := t in (i, q, b)) (map rc_msig l)).
  - rewrite map_map. apply map_ext. intros g. reflexivity.
  - rewrite H, map_map. apply map_ext. intros g. reflexivity.
Qed.

(* ---- the DeleteRecords counter (MetaOK) ---- *)
Definition rc_dsig (g : mseg) : N * N := (g_id g, sm_delrec (g_meta g)).
Definition rc_dstep (b : bool) (c : N) : N := if b then u32 (c + 1) else c.
Definition rc_csum (c : N) (es : list (N * rec)) : N := fold_left (fun c e => rc_dstep (rdel (snd e)) c) es c.
Definition rc_hdel (id : N) (es : list (N * rec)) (t : N * N) : N * N :=
  if fst t =? id then (fst t, rc_csum (snd t) es) else t.

Lemma rc_dsig_upd_mseg id F (c' : N -> N) l :
  (forall g, rc_dsig (F g) = (g_id g, c' (sm_delrec (g_meta g)))) ->
  map rc_dsig (upd_mseg id F l) = map (fun t => if fst t =? id then (fst t, c' (snd t)) else t) (map rc_dsig l).
Proof.
  intros HF. unfold upd_mseg. rewrite !map_map. apply map_ext. intros g. cbn [rc_dsig fst snd].
  destruct (g_id g =? id); [apply HF|reflexivity].
Qed.

Lemma rc_dsig_upd_mseg_same id F l : (forall g, rc_dsig (F g) = rc_dsig g) -> map rc_dsig (upd_mseg id F l) = map rc_dsig l.
Proof.
  intros HF. unfold upd_mseg. rewrite map_map. apply map_ext. intros g. destruct (g_id g =? id); [apply HF|reflexivity].
Qed.

Lemma rc_dsig_track_del sl (m : mem) : map rc_dsig (m_segs (track_del sl m)) = map rc_dsig (m_segs m).
Proof. unfold track_del. cbn [set_msegs m_segs]. apply rc_dsig_upd_mseg_same. intros g. reflexivity. Qed.

Lemma rc_dsig_map_In (h : N * N -> N * N) l l' g' :
  map rc_dsig l' = map h (map rc_dsig l) -> In g' l' -> exists g, In g l /\ rc_dsig g' = h (rc_dsig g).
Proof.
  intros E Hg'. apply (in_map rc_dsig) in Hg'. rewrite E, map_map in Hg'. apply in_map_iff in Hg'.
  destruct Hg' as (g & Eg & Hg). exists g. split; [exact Hg|symmetry; exact Eg].
Qed.

Lemma rc_csum_count es : forall c,
  c + nlen (filter (fun e : N * rec => rdel (snd e)) es) < 4294967296 ->
  rc_csum c es = c + nlen (filter (fun e : N * rec => rdel (snd e)) es).
Proof.
  induction es as [|e es IH]; intros c H.
  - cbn [rc_csum fold_left filter nlen]. lia.
  - unfold rc_csum. cbn [fold_left filter] in *. fold (rc_csum (rc_dstep (rdel (snd e)) c) es).
    unfold rc_dstep. destruct (rdel (snd e)).
    + rewrite nlen_cons in *. rewrite u32_small by lia. rewrite IH by lia. lia.
    + apply IH. exact H.
Qed.

Lemma rc_ndel_entries f :
  nlen (filter (fun e : N * rec => rdel (snd e)) (seg_entries f)) = nlen (filter rdel (f_recs f)).
Proof.
  unfold seg_entries. generalize header_size as o. induction (f_recs f) as [|r rs IH]; intros o; [reflexivity|].
  rewrite with_offsets_cons. cbn [filter snd]. destruct (rdel r); [rewrite !nlen_cons, IH; reflexivity|apply IH].
Qed.

Lemma rc_ndel_bound rs : 10 * nlen (filter rdel rs) <= recs_len rs.
Proof.
  induction rs as [|r rs IH]; [cbn [filter nlen]; rewrite recs_len_nil; lia|].
  rewrite recs_len_cons. cbn [filter]. pose proof (rsize_ge r). destruct (rdel r); [rewrite nlen_cons|]; lia.
Qed.

Section RecSeg.
Variable P : params.

Lemma rc_recover_segment_spec id seq (s : st) (m : mem) f :
  NoDup (map f_id (d_segs (s_disk s))) -> find_dseg id (s_disk s) = Some f -> f_seq f = seq ->
  f_hdr f = true -> tail_stuck (f_tail f) -> rc_magree (m_segs m) (s_disk s) ->
  exists s1 m1,
    recover_segment flat_ops P id seq s m =
      (s1, fold_left (fun m e => replay_rec flat_ops P (s_disk s1) id (fst e) (snd e) m) (seg_entries f) m1) /\
    d_segs (s_disk s1) = map (rc_cstep id seq) (d_segs (s_disk s)) /\ same_rest (s_disk s) (s_disk s1) /\
    s_mem s1 = s_mem s /\
    m_idx m1 = m_idx m /\ m_seed m1 = m_seed m /\ m_cur m1 = m_cur m /\ m_cur_removed m1 = m_cur_removed m /\
    m_maxseq m1 = m_maxseq m /\ map rc_msig0 (m_segs m1) = map rc_msig0 (m_segs m) /\
    rc_magree (m_segs m1) (s_disk s1) /\ map rc_dsig (m_segs m1) = map rc_dsig (m_segs m).
Proof.
  intros Hnd Hf Hseq Hh Hst Hag.
  destruct (rc_tail_stuck_parse _ Hst) as (why & Ep & Hend).
  unfold recover_segment. rewrite Hf, Ep. cbv beta iota zeta. rewrite rc_reframe_nil, app_nil_r.
  fold (seg_entries f).
  assert (Hsend : why = SEnd -> d_segs (s_disk s) = map (rc_cstep id seq) (d_segs (s_disk s))).
  { intros Hw. rewrite <- (map_id (d_segs (s_disk s))) at 1. apply map_ext_in. intros x Hx.
    unfold rc_cstep. destruct (is_seg id seq x) eqn:Ex; [|reflexivity].
    rewrite (rc_is_seg_unique _ _ _ _ _ Hnd Hf Hx Ex). symmetry. apply rc_clean_id; [exact Hh|apply Hend; exact Hw]. }
  assert (Htr : d_segs (s_disk (emit flat_ops (ETrunc (FSeg id seq) (header_size + recs_len (f_recs f) + 0)) s)) =
                map (rc_cstep id seq) (d_segs (s_disk s))).
  { change (s_disk (emit flat_ops (ETrunc (FSeg id seq) (header_size + recs_len (f_recs f) + 0)) s))
      with (upd_seg id seq (trunc_seg (header_size + recs_len (f_recs f) + 0)) (s_disk s)).
    rewrite d_segs_upd_seg. apply map_ext_in. intros x Hx. unfold rc_cstep.
    destruct (is_seg id seq x) eqn:Ex; [|reflexivity].
    rewrite (rc_is_seg_unique _ _ _ _ _ Hnd Hf Hx Ex). apply rc_trunc_seg_all. exact Hh. }
  assert (Hag_end : why = SEnd -> forall d1 : disk, d_segs d1 = map (rc_cstep id seq) (d_segs (s_disk s)) ->
                    rc_magree (m_segs m) d1).
  { intros Hw d1 Ed. apply (rc_magree_cstep (m_segs m) (m_segs m) (s_disk s) d1 id seq f Hag Hnd Hf Hseq Ed).
    - intros g Hg. exists g. split; [exact Hg|]. split; [reflexivity|]. split; [reflexivity|].
      destruct (N.eqb_spec (g_id g) id) as [E|_]; [|reflexivity].
      destruct (proj1 Hag g Hg) as (x & Hx & B1 & B2 & B3).
      pose proof (find_dseg_In _ _ _ Hf) as [HfIn Eid].
      assert (x = f) by (apply (NoDup_map_inj f_id (d_segs (s_disk s))); try assumption; congruence). subst x.
      rewrite <- B3. rewrite (rc_clean_id f Hh (Hend Hw)). reflexivity.
    - intros g Hg. exists g. auto. }
  assert (Hag_tr : forall d1 : disk, d_segs d1 = map (rc_cstep id seq) (d_segs (s_disk s)) ->
     rc_magree (upd_mseg id (fun g => set_gsize g (header_size + recs_len (f_recs f) + 0)) (m_segs m)) d1).
  { intros d1 Ed. apply (rc_magree_cstep (m_segs m) _ (s_disk s) d1 id seq f Hag Hnd Hf Hseq Ed).
    - intros g' Hg'. apply In_upd_mseg in Hg'. destruct Hg' as (g & Hg & ->). exists g. split; [exact Hg|].
      destruct (g_id g =? id); cbn [set_gsize g_id g_seq g_size]; auto.
    - intros g Hg. exists (if g_id g =? id then set_gsize g (header_size + recs_len (f_recs f) + 0) else g).
      split; [apply In_upd_mseg; exists g; auto|]. destruct (g_id g =? id); auto. }
  assert (Hsig : map rc_msig0 (upd_mseg id (fun g => set_gsize g (header_size + recs_len (f_recs f) + 0)) (m_segs m)) =
                 map rc_msig0 (m_segs m)).
  { unfold upd_mseg. rewrite map_map. apply map_ext. intros g. destruct (g_id g =? id); reflexivity. }
  assert (Hdsig : map rc_dsig (upd_mseg id (fun g => set_gsize g (header_size + recs_len (f_recs f) + 0)) (m_segs m)) =
                  map rc_dsig (m_segs m)).
  { apply rc_dsig_upd_mseg_same. intros g. reflexivity. }
  destruct why.
  - exists s, m. split; [reflexivity|]. split; [apply Hsend; reflexivity|]. split; [apply same_rest_refl|].
    repeat (split; [reflexivity|]). split; [|reflexivity]. apply Hag_end; [reflexivity|]. apply Hsend. reflexivity.
  - eexists. eexists. split; [reflexivity|]. split; [exact Htr|]. split; [repeat split|].
    repeat (split; [reflexivity|]). split; [exact Hsig|]. split; [apply Hag_tr; exact Htr|exact Hdsig].
  - eexists. eexists. split; [reflexivity|]. split; [exact Htr|]. split; [repeat split|].
    repeat (split; [reflexivity|]). split; [exact Hsig|]. split; [apply Hag_tr; exact Htr|exact Hdsig].
  - eexists. eexists. split; [reflexivity|]. split; [exact Htr|]. split; [repeat split|].
    repeat (split; [reflexivity|]). split; [exact Hsig|]. split; [apply Hag_tr; exact Htr|exact Hdsig].
Qed.

End RecSeg.

(* ================================================================================================ *)
(* J. the recovery loop                                                                               *)
Lemma rc_rsim_find (d d' : disk) id f : rc_rsim d d' -> find_dseg id d = Some f ->
  exists f', find_dseg id d' = Some f' /\ rc_rcore f' = rc_rcore f.
Proof.
  unfold rc_rsim, find_dseg. generalize (d_segs d') as l'. generalize (d_segs d) as l.
  induction l as [|x l IH]; intros l' H Hf; [discriminate|].
  destruct l' as [|y l']; [discriminate|]. cbn [map] in H.
  pose proof (f_equal (@hd _ (rc_rcore x)) H) as Exy. pose proof (f_equal (@tl _) H) as Ht. cbn [hd tl] in Exy, Ht.
  cbn [find] in *.
  assert (Eid : f_id y = f_id x) by (unfold rc_rcore in Exy; congruence). rewrite Eid.
  destruct (f_id x =? id).
  - inversion Hf; subst. exists y. split; [reflexivity|symmetry; exact Exy].
  - apply IH; assumption.
Qed.

Lemma rc_rsim_ids (d d' : disk) : rc_rsim d d' -> map f_id (d_segs d') = map f_id (d_segs d).
Proof.
  intros H. transitivity (map (fun t : N * N * list rec => fst (fst t)) (map rc_rcore (d_segs d'))).
  - rewrite map_map. reflexivity.
  - rewrite <- H, map_map. reflexivity.
Qed.
Lemma rc_rsim_seqs (d d' : disk) : rc_rsim d d' -> map f_seq (d_segs d') = map f_seq (d_segs d).
Proof.
  intros H. transitivity (map (fun t : N * N * list rec => snd (fst t)) (map rc_rcore (d_segs d'))).
  - rewrite map_map. reflexivity.
  - rewrite <- H, map_map. reflexivity.
Qed.

Lemma rc_magree_msig l l' (d : disk) : map rc_msig l = map rc_msig l' -> rc_magree l d -> rc_magree l' d.
Proof.
  intros E [M1 M2]. split.
  - intros g' Hg'. apply (in_map rc_msig) in Hg'. rewrite <- E in Hg'. apply in_map_iff in Hg'.
    destruct Hg' as (g & Eg & Hg). destruct (M1 g Hg) as (f & Hf & A1 & A2 & A3).
    unfold rc_msig in Eg. exists f. repeat split; congruence.
  - intros f Hf. destruct (M2 f Hf) as (g & Hg & A1 & A2).
    apply (in_map rc_msig) in Hg. rewrite E in Hg. apply in_map_iff in Hg.
    destruct Hg as (g' & Eg & Hg'). unfold rc_msig in Eg. exists g'. repeat split; congruence.
Qed.

Lemma rc_fold_left_map {A B C} (h : A -> B) (step : C -> B -> C) (l : list A) : forall c,
  fold_left step (map h l) c = fold_left (fun c a => step c (h a)) l c.
Proof. induction l as [|a l IH]; intros c; [reflexivity|]. cbn [map fold_left]. apply IH. Qed.

Definition rc_cleans (Lp : list (N * N)) (f : dseg) : dseg := fold_left (fun f p => rc_cstep (fst p) (snd p) f) Lp f.

Lemma rc_cstep_fields id seq f :
  f_id (rc_cstep id seq f) = f_id f /\ f_seq (rc_cstep id seq f) = f_seq f /\ f_recs (rc_cstep id seq f) = f_recs f /\
  f_meta (rc_cstep id seq f) = f_meta f /\ (f_hdr f = true -> f_hdr (rc_cstep id seq f) = true) /\
  (f_tail (rc_cstep id seq f) = [] \/ f_tail (rc_cstep id seq f) = f_tail f) /\
  (f_tail f = [] -> f_tail (rc_cstep id seq f) = []).
Proof. unfold rc_cstep. destruct (is_seg id seq f); cbn [rc_clean f_id f_seq f_recs f_meta f_hdr f_tail]; repeat split; auto. Qed.

Lemma rc_cleans_fields Lp : forall f,
  f_id (rc_cleans Lp f) = f_id f /\ f_seq (rc_cleans Lp f) = f_seq f /\ f_recs (rc_cleans Lp f) = f_recs f /\
  f_meta (rc_cleans Lp f) = f_meta f /\ (f_hdr f = true -> f_hdr (rc_cleans Lp f) = true) /\
  (f_tail f = [] -> f_tail (rc_cleans Lp f) = []).
Proof.
  induction Lp as [|p Lp IH]; intros f; [repeat split; auto|].
  unfold rc_cleans. cbn [fold_left]. fold (rc_cleans Lp (rc_cstep (fst p) (snd p) f)).
  destruct (IH (rc_cstep (fst p) (snd p) f)) as (A1 & A2 & A3 & A4 & A5 & A6).
  destruct (rc_cstep_fields (fst p) (snd p) f) as (B1 & B2 & B3 & B4 & B5 & _ & B7).
  repeat split; try congruence; auto.
Qed.

Lemma rc_cleans_hit Lp : forall f, In (f_id f, f_seq f) Lp -> f_tail (rc_cleans Lp f) = [].
Proof.
  induction Lp as [|p Lp IH]; intros f Hin; [destruct Hin|].
  unfold rc_cleans. cbn [fold_left]. fold (rc_cleans Lp (rc_cstep (fst p) (snd p) f)).
  destruct (rc_cstep_fields (fst p) (snd p) f) as (B1 & B2 & _).
  destruct Hin as [->|Hin].
  - apply rc_cleans_fields. cbn [fst snd]. unfold rc_cstep, is_seg. rewrite !N.eqb_refl. reflexivity.
  - apply IH. rewrite B1, B2. exact Hin.
Qed.

Section Loop.
Variable P : params.

Lemma rc_replay_seg_fold (d4 d1 : disk) seed id (es : list (N * rec)) : forall l (m : mem),
  rc_IdxInv P d4 seed l (m_idx m) -> m_seed m = seed -> rc_rsim d4 d1 ->
  (forall e, In e es -> rc_entry_ok d4 (id, fst e, snd e)) ->
  let m' := fold_left (fun m e => replay_rec flat_ops P d1 id (fst e) (snd e) m) es m in
  rc_IdxInv P d4 seed (l ++ map (fun p => (id, fst p, snd p)) es) (m_idx m') /\
  map rc_msig (m_segs m') = map rc_msig (m_segs m) /\ m_cur m' = m_cur m /\ m_cur_removed m' = m_cur_removed m /\
  m_maxseq m' = m_maxseq m /\ m_seed m' = seed /\
  m_idx m' = rc_ridx P d4 seed (map (fun p => (id, fst p, snd p)) es) (m_idx m).
Proof.
  induction es as [|e es IH]; intros l m HI Hseed Hsim Hok.
  - cbn [fold_left map]. rewrite app_nil_r. split; [exact HI|]. repeat split; auto.
  - cbn [fold_left map].
    destruct (rc_replay_rec_frame P d1 id (fst e) (snd e) m) as (A1 & A2 & A3 & A4 & A5 & A6). cbv zeta in *.
    set (m1 := replay_rec flat_ops P d1 id (fst e) (snd e) m) in *.
    assert (HI1 : rc_IdxInv P d4 seed (l ++ [(id, fst e, snd e)]) (m_idx m1)).
    { rewrite A1, Hseed. apply rc_IdxInv_step; [exact HI|exact Hsim|]. apply Hok. left. reflexivity. }
    destruct (IH (l ++ [(id, fst e, snd e)]) m1 HI1 (eq_trans A6 Hseed) Hsim
                 (fun x Hx => Hok x (or_intror Hx))) as (B1 & B2 & B3 & B4 & B5 & B6 & B7).
    cbv zeta in *. rewrite <- app_assoc in B1. cbn [app] in B1.
    split; [exact B1|]. repeat split; try congruence.
    rewrite B7. unfold rc_ridx. cbn [fold_left]. f_equal. rewrite A1, Hseed.
    apply rc_replay_idx_ext. intros i off. apply rc_rsim_rec_of. exact Hsim.
Qed.

Lemma rc_replay_rec_dsig (d : disk) id off r (m : mem) :
  map rc_dsig (m_segs (replay_rec flat_ops P d id off r m)) = map (rc_hdel id [(off, r)]) (map rc_dsig (m_segs m)).
Proof.
  unfold replay_rec. cbn [ix_del ix_put flat_ops]. destruct (rdel r) eqn:Hdel.
  - destruct (fl_del (m_idx m) (p_hash P (m_seed m) (rk r)) (matchf d (rk r))) as [i1 old].
    assert (E : forall l, map rc_dsig (upd_mseg id
        (fun g => set_gmeta g
          {| sm_full := sm_full (g_meta g); sm_put := sm_put (g_meta g);
             sm_delrec := u32 (sm_delrec (g_meta g) + 1); sm_delkeys := sm_delkeys (g_meta g);
             sm_delbytes := u32 (sm_delbytes (g_meta g) + u32 (rsize r)) |}) l) =
        map (rc_hdel id [(off, r)]) (map rc_dsig l)).
    { intros l. rewrite (rc_dsig_upd_mseg id _ (fun c => u32 (c + 1))) by (intros g; reflexivity).
      apply map_ext. intros t. unfold rc_hdel, rc_csum, rc_dstep. cbn [fold_left snd]. rewrite Hdel. reflexivity. }
    destruct old as [o|]; cbn [set_msegs set_idx m_segs]; rewrite E; [rewrite rc_dsig_track_del|]; reflexivity.
  - match goal with |- context [fl_put ?a ?b ?c ?e] => destruct (fl_put a b c e) as [i1 old] end.
    assert (E : forall l, map rc_dsig (upd_mseg id
        (fun g => set_gmeta g
          {| sm_full := sm_full (g_meta g); sm_put := u32 (sm_put (g_meta g) + 1);
             sm_delrec := sm_delrec (g_meta g); sm_delkeys := sm_delkeys (g_meta g);
             sm_delbytes := sm_delbytes (g_meta g) |}) l) =
        map (rc_hdel id [(off, r)]) (map rc_dsig l)).
    { intros l. rewrite (rc_dsig_upd_mseg id _ (fun c => c)) by (intros g; reflexivity).
      apply map_ext. intros t. unfold rc_hdel, rc_csum, rc_dstep. cbn [fold_left snd]. rewrite Hdel. reflexivity. }
    destruct old as [o|]; cbn [set_msegs set_idx m_segs]; rewrite E; [rewrite rc_dsig_track_del|]; reflexivity.
Qed.

Lemma rc_replay_seg_dsig (d1 : disk) id (es : list (N * rec)) : forall m : mem,
  map rc_dsig (m_segs (fold_left (fun m e => replay_rec flat_ops P d1 id (fst e) (snd e) m) es m)) =
  map (rc_hdel id es) (map rc_dsig (m_segs m)).
Proof.
  induction es as [|e es IH]; intros m.
  - cbn [fold_left]. rewrite <- (map_id (map rc_dsig (m_segs m))) at 1. apply map_ext. intros t.
    unfold rc_hdel, rc_csum. cbn [fold_left]. destruct (fst t =? id); [destruct t|]; reflexivity.
  - cbn [fold_left]. rewrite IH, rc_replay_rec_dsig, map_map. apply map_ext. intros t.
    unfold rc_hdel. destruct (fst t =? id) eqn:E; cbn [fst snd]; rewrite E; [|reflexivity].
    destruct e as [off r]. reflexivity.
Qed.

Definition rc_rstep (sm : st * mem) (p : N * N) : st * mem :=
  recover_segment flat_ops P (fst p) (snd p) (fst sm) (snd sm).

Definition rc_seg_pre (f : dseg) : Prop := f_hdr f = true /\ tail_stuck (f_tail f).

Lemma rc_entries_ok (d4 : disk) f0 : DiskOK d4 -> In f0 (d_segs d4) ->
  forall e, In e (seg_entries f0) -> rc_entry_ok d4 (f_id f0, fst e, snd e).
Proof.
  intros (Hok & Hnd & _) Hf0 [off r] He. cbn [fst snd]. unfold rc_entry_ok. cbn [fst snd].
  pose proof (proj1 (Forall_forall _ _) Hok f0 Hf0) as (Hfit & _ & _ & _ & Hlen).
  split; [|split].
  - unfold rec_of. rewrite (find_dseg_unique d4 f0 Hnd Hf0). apply rec_at_with_offsets. exact He.
  - apply seg_entries_In_rec in He. exact (proj1 (Forall_forall _ _) Hfit r He).
  - apply seg_entries_range in He. pose proof (rsize_pos r). lia.
Qed.

Lemma rc_recover_loop (d4 : disk) seed (D : list dseg) : DiskOK d4 -> (forall f0, In f0 D -> In f0 (d_segs d4)) ->
  forall (s : st) (m : mem) lpre,
  rc_rsim d4 (s_disk s) -> Forall rc_seg_pre (d_segs (s_disk s)) -> rc_magree (m_segs m) (s_disk s) ->
  rc_IdxInv P d4 seed lpre (m_idx m) -> m_seed m = seed ->
  exists s' m', fold_left rc_rstep (map (fun f => (f_id f, f_seq f)) D) (s, m) = (s', m') /\
    rc_rsim d4 (s_disk s') /\
    d_segs (s_disk s') = map (rc_cleans (map (fun f => (f_id f, f_seq f)) D)) (d_segs (s_disk s)) /\
    same_rest (s_disk s) (s_disk s') /\ s_mem s' = s_mem s /\ rc_magree (m_segs m') (s_disk s') /\
    rc_IdxInv P d4 seed (lpre ++ concat (map dseg_entries D)) (m_idx m') /\ m_seed m' = seed /\
    m_cur m' = m_cur m /\ m_cur_removed m' = m_cur_removed m /\ m_maxseq m' = m_maxseq m /\
    map rc_msig0 (m_segs m') = map rc_msig0 (m_segs m) /\
    m_idx m' = rc_ridx P d4 seed (concat (map dseg_entries D)) (m_idx m) /\
    (* the DeleteRecords counters: rebuilt for the segments replayed, untouched otherwise *)
    (NoDup (map f_id D) ->
     (forall g f0, In g (m_segs m) -> In f0 D -> g_id g = f_id f0 -> sm_delrec (g_meta g) = 0) ->
     forall g', In g' (m_segs m') ->
       (exists f0, In f0 D /\ g_id g' = f_id f0 /\ sm_delrec (g_meta g') = nlen (filter rdel (f_recs f0))) \/
       ((forall f0, In f0 D -> g_id g' <> f_id f0) /\
        exists g, In g (m_segs m) /\ g_id g = g_id g' /\ sm_delrec (g_meta g) = sm_delrec (g_meta g'))).
Proof.
  intros Hok. induction D as [|f0 D IH]; intros HD s m lpre Hsim Hpre Hag HI Hseed.
  - exists s, m. cbn [map fold_left concat]. rewrite app_nil_r.
    split; [reflexivity|]. split; [exact Hsim|]. split; [symmetry; apply map_id|].
    split; [apply same_rest_refl|]. split; [reflexivity|]. split; [exact Hag|]. split; [exact HI|].
    split; [exact Hseed|]. repeat (split; [reflexivity|]).
    intros _ _ g' Hg'. right. split; [intros f0 []|]. exists g'. auto.
  - cbn [map fold_left]. unfold rc_rstep at 2. cbn [fst snd].
    assert (Hf0 : In f0 (d_segs d4)) by (apply HD; left; reflexivity).
    destruct Hok as (Hdok & Hnd4 & Hnq4).
    assert (Hnd : NoDup (map f_id (d_segs (s_disk s)))) by (rewrite (rc_rsim_ids _ _ Hsim); exact Hnd4).
    destruct (rc_rsim_find d4 (s_disk s) (f_id f0) f0 Hsim (find_dseg_unique d4 f0 Hnd4 Hf0)) as (f & Hf & Ec).
    assert (Efs : f_seq f = f_seq f0) by (unfold rc_rcore in Ec; congruence).
    assert (Efr : f_recs f = f_recs f0) by (unfold rc_rcore in Ec; congruence).
    pose proof (find_dseg_In _ _ _ Hf) as [HfIn _].
    pose proof (proj1 (Forall_forall _ _) Hpre f HfIn) as [Hh Hst].
    destruct (rc_recover_segment_spec P (f_id f0) (f_seq f0) s m f Hnd Hf Efs Hh Hst Hag)
      as (s1 & m1 & Er & Ed & Erest & Emem & A1 & A2 & A3 & A4 & A5 & A6 & A7 & A8).
    rewrite Er.
    assert (Hsim1 : rc_rsim (s_disk s) (s_disk s1)).
    { unfold rc_rsim. rewrite Ed, map_map. apply map_ext. intros x.
      destruct (rc_cstep_fields (f_id f0) (f_seq f0) x) as (B1 & B2 & B3 & _). unfold rc_rcore. congruence. }
    assert (Hsim41 : rc_rsim d4 (s_disk s1)) by (eapply rc_rsim_trans; eassumption).
    assert (Ese : seg_entries f = seg_entries f0) by (unfold seg_entries; rewrite Efr; reflexivity).
    rewrite Ese.
    assert (HI1 : rc_IdxInv P d4 seed lpre (m_idx m1)) by (rewrite A1; exact HI).
    destruct (rc_replay_seg_fold d4 (s_disk s1) seed (f_id f0) (seg_entries f0) lpre m1 HI1 (eq_trans A2 Hseed)
                Hsim41 (rc_entries_ok d4 f0 (conj Hdok (conj Hnd4 Hnq4)) Hf0))
      as (C1 & C2 & C3 & C4 & C5 & C6 & C7). cbv zeta in *.
    set (m2 := fold_left (fun m e => replay_rec flat_ops P (s_disk s1) (f_id f0) (fst e) (snd e) m)
                         (seg_entries f0) m1) in *.
    assert (Hpre1 : Forall rc_seg_pre (d_segs (s_disk s1))).
    { rewrite Ed. apply Forall_forall. intros y Hy. apply in_map_iff in Hy. destruct Hy as (x & <- & Hx).
      pose proof (proj1 (Forall_forall _ _) Hpre x Hx) as [Hxh Hxt].
      destruct (rc_cstep_fields (f_id f0) (f_seq f0) x) as (_ & _ & _ & _ & B5 & B6 & _).
      split; [apply B5; exact Hxh|]. destruct B6 as [-> | ->]; [apply rc_tail_stuck_nil|exact Hxt]. }
    assert (Hag1 : rc_magree (m_segs m2) (s_disk s1)) by (apply (rc_magree_msig (m_segs m1)); [symmetry; exact C2|exact A7]).
    destruct (IH (fun x Hx => HD x (or_intror Hx)) s1 m2 (lpre ++ dseg_entries f0) Hsim41 Hpre1 Hag1 C1 C6)
      as (s' & m' & E' & R1 & R2 & R3 & R4 & R5 & R6 & R7 & R8 & R9 & R10 & R11 & R12 & R13).
    exists s', m'. split; [exact E'|]. split; [exact R1|]. split.
    { rewrite R2, Ed, map_map. apply map_ext. intros x. reflexivity. }
    split; [eapply same_rest_trans; eassumption|]. split; [congruence|]. split; [exact R5|]. split.
    { cbn [map concat]. rewrite app_assoc. exact R6. }
    split; [exact R7|]. split; [congruence|]. split; [congruence|]. split; [congruence|].
    split; [rewrite R11, (rc_msig_msig0 _ _ C2); exact A6|].
    split; [cbn [map concat]; rewrite rc_ridx_app, R12, C7, A1; reflexivity|].
    (* counters *)
    intros HndD Hzero g' Hg'. cbn [map] in HndD. inversion HndD as [|? ? Hf0D HndD']; subst.
    assert (Edsig : map rc_dsig (m_segs m2) = map (rc_hdel (f_id f0) (seg_entries f0)) (map rc_dsig (m_segs m))).
    { unfold m2. rewrite rc_replay_seg_dsig, A8. reflexivity. }
    assert (Hfrom : forall g2, In g2 (m_segs m2) -> exists g, In g (m_segs m) /\ g_id g2 = g_id g /\
              sm_delrec (g_meta g2) = if g_id g =? f_id f0 then rc_csum (sm_delrec (g_meta g)) (seg_entries f0)
                                       else sm_delrec (g_meta g)).
    { intros g2 Hg2. destruct (rc_dsig_map_In _ _ _ g2 Edsig Hg2) as (g & Hg & Eg). exists g. split; [exact Hg|].
      unfold rc_hdel, rc_dsig in Eg. cbn [fst snd] in Eg. destruct (g_id g =? f_id f0); inversion Eg; auto. }
    assert (Hcnt : rc_csum 0 (seg_entries f0) = nlen (filter rdel (f_recs f0))).
    { pose proof (proj1 (Forall_forall _ _) Hdok f0 Hf0) as (_ & _ & _ & _ & Hlen).
      pose proof (rc_ndel_bound (f_recs f0)) as Hb. rewrite <- (rc_ndel_entries f0) in *.
      rewrite rc_csum_count; lia. }
    assert (Hzero2 : forall g2 f, In g2 (m_segs m2) -> In f D -> g_id g2 = f_id f -> sm_delrec (g_meta g2) = 0).
    { intros g2 fx Hg2 Hfx Eid. destruct (Hfrom g2 Hg2) as (g & Hg & E1 & E2).
      destruct (N.eqb_spec (g_id g) (f_id f0)) as [E|Hne].
      - exfalso. apply Hf0D. rewrite <- E, <- E1, Eid. apply in_map. exact Hfx.
      - rewrite E2. apply (Hzero g fx Hg (or_intror Hfx)). congruence. }
    destruct (R13 HndD' Hzero2 g' Hg') as [(fx & Hfx & B1 & B2)|(Hno & g2 & Hg2 & B1 & B2)].
    + left. exists fx. split; [right; exact Hfx|auto].
    + destruct (Hfrom g2 Hg2) as (g & Hg & E1 & E2).
      destruct (N.eqb_spec (g_id g) (f_id f0)) as [E|Hne].
      * left. exists f0. split; [left; reflexivity|]. split; [congruence|].
        rewrite <- B2, E2, (Hzero g f0 Hg (or_introl eq_refl) E). exact Hcnt.
      * right. split.
        -- intros fx [<-|Hfx]; [congruence|apply Hno; exact Hfx].
        -- exists g. split; [exact Hg|]. split; congruence.
Qed.

End Loop.

(* ================================================================================================ *)
(* K. recover(): order of the segments, sealing, the final state                                      *)
Definition rc_gpair (g : mseg) : N * N := (g_id g, g_seq g).
Definition rc_fpair (f : dseg) : N * N := (f_id f, f_seq f).

Lemma rc_magree_seq_inj (l : list mseg) (d : disk) a b :
  ids_increasing l -> rc_magree l d -> NoDup (map f_seq (d_segs d)) ->
  In a l -> In b l -> g_seq a = g_seq b -> a = b.
Proof.
  intros Hinc [M1 _] Hnq Ha Hb E.
  destruct (M1 a Ha) as (fa & Hfa & A1 & A2 & _). destruct (M1 b Hb) as (fb & Hfb & B1 & B2 & _).
  assert (fa = fb) by (apply (NoDup_map_inj f_seq (d_segs d)); try assumption; congruence). subst fb.
  apply (ids_increasing_unique l); try assumption. congruence.
Qed.

Lemma rc_order_pairs (l : list mseg) (d : disk) :
  ids_increasing l -> rc_magree l d -> NoDup (map f_seq (d_segs d)) ->
  map rc_gpair (by_seq l) = map rc_fpair (dby_seq (d_segs d)).
Proof.
  intros Hinc Hag Hnq. apply rc_sorted_pairs_unique.
  - apply (rc_sorted_map_pairs g_seq rc_gpair); [reflexivity| |apply rc_by_seq_sorted].
    apply (Permutation_NoDup (l := map g_seq l)); [apply Permutation_map; symmetry; apply rc_by_seq_perm|].
    apply rc_NoDup_map_inj_on.
    + apply (NoDup_map_inv g_id). apply ids_increasing_NoDup. exact Hinc.
    + intros a b Ha Hb E. eapply rc_magree_seq_inj; eassumption.
  - apply (rc_sorted_map_pairs f_seq rc_fpair); [reflexivity| |apply dby_seq_sorted].
    apply (Permutation_NoDup (l := map f_seq (d_segs d))); [apply Permutation_map; symmetry; apply dby_seq_perm|exact Hnq].
  - intros p. rewrite !in_map_iff. split.
    + intros (g & <- & Hg). apply (proj1 (rc_by_seq_In _ _)) in Hg. destruct (proj1 Hag g Hg) as (f & Hf & A1 & A2 & _).
      exists f. split; [unfold rc_fpair, rc_gpair; congruence|apply (proj2 (dby_seq_In _ _)); exact Hf].
    + intros (f & <- & Hf). apply (proj1 (dby_seq_In _ _)) in Hf. destruct (proj2 Hag f Hf) as (g & Hg & A1 & A2).
      exists g. split; [unfold rc_fpair, rc_gpair; congruence|apply (proj2 (rc_by_seq_In _ _)); exact Hg].
Qed.

Definition rc_fullg (g : mseg) : mseg := set_gmeta g (set_full (g_meta g)).
Definition rc_sealstep (g0 g : mseg) : mseg := if g_id g =? g_id g0 then rc_fullg g else g.
Definition rc_sealf (R : list mseg) (g : mseg) : mseg := fold_left (fun g g0 => rc_sealstep g0 g) R g.

Lemma rc_seal_fold_spec R : forall m : mem,
  let m' := fold_left (fun (m : mem) g => set_msegs m (upd_mseg (g_id g) rc_fullg (m_segs m))) R m in
  m_segs m' = map (rc_sealf R) (m_segs m) /\ m_cur m' = m_cur m /\ m_cur_removed m' = m_cur_removed m /\
  m_maxseq m' = m_maxseq m /\ m_idx m' = m_idx m /\ m_seed m' = m_seed m.
Proof.
  induction R as [|g0 R IH]; intros m.
  - cbn [fold_left]. split; [symmetry; apply map_id|repeat split].
  - cbn [fold_left]. destruct (IH (set_msegs m (upd_mseg (g_id g0) rc_fullg (m_segs m)))) as (A1 & A2 & A3 & A4 & A5 & A6).
    cbv zeta in *. rewrite A1, A2, A3, A4, A5, A6. cbn [set_msegs m_segs m_cur m_cur_removed m_maxseq m_idx m_seed].
    split; [|repeat split]. unfold upd_mseg. rewrite map_map. apply map_ext. intros g. reflexivity.
Qed.

Lemma rc_seal_all_spec order (m : mem) :
  let m' := seal_all_but_last order m in
  m_segs m' = map (rc_sealf (removelast order)) (m_segs m) /\ m_cur m' = m_cur m /\
  m_cur_removed m' = m_cur_removed m /\ m_maxseq m' = m_maxseq m /\ m_idx m' = m_idx m /\ m_seed m' = m_seed m.
Proof. apply (rc_seal_fold_spec (removelast order) m). Qed.

Lemma rc_sealstep_fields g0 g :
  g_id (rc_sealstep g0 g) = g_id g /\ g_seq (rc_sealstep g0 g) = g_seq g /\ g_size (rc_sealstep g0 g) = g_size g /\
  sm_full (g_meta (rc_sealstep g0 g)) = (g_id g =? g_id g0) || sm_full (g_meta g).
Proof. unfold rc_sealstep. destruct (g_id g =? g_id g0); repeat split. Qed.

Lemma rc_sealf_fields R : forall g,
  g_id (rc_sealf R g) = g_id g /\ g_seq (rc_sealf R g) = g_seq g /\ g_size (rc_sealf R g) = g_size g /\
  sm_full (g_meta (rc_sealf R g)) = sm_full (g_meta g) || existsb (fun g0 => g_id g =? g_id g0) R.
Proof.
  induction R as [|g0 R IH]; intros g.
  - cbn [existsb]. rewrite orb_false_r. repeat split.
  - unfold rc_sealf. cbn [fold_left]. fold (rc_sealf R (rc_sealstep g0 g)).
    destruct (IH (rc_sealstep g0 g)) as (A1 & A2 & A3 & A4). destruct (rc_sealstep_fields g0 g) as (B1 & B2 & B3 & B4).
    repeat split; try congruence. rewrite A4, B4, B1. cbn [existsb].
    destruct (g_id g =? g_id g0), (sm_full (g_meta g)), (existsb (fun g1 => g_id g =? g_id g1) R); reflexivity.
Qed.

Lemma rc_sorted_app_last {A} (R : A -> A -> Prop) (l : list A) a :
  StronglySorted R (l ++ [a]) -> forall x, In x l -> R x a.
Proof.
  induction l as [|y l IH]; intros H x Hx; [destruct Hx|].
  cbn [app] in H. inversion H as [|? ? H' Hy]; subst. destruct Hx as [->|Hx].
  - apply (proj1 (Forall_forall _ _) Hy). apply in_or_app. right. left. reflexivity.
  - apply IH; assumption.
Qed.

Lemma rc_ids_increasing_ids (l l' : list mseg) : map g_id l = map g_id l' -> ids_increasing l -> ids_increasing l'.
Proof.
  revert l'. induction l as [|g l IH]; intros l' E H; destruct l' as [|g' l']; try discriminate; [exact Logic.I|].
  cbn [map] in E. injection E as E1 E2. destruct H as [H1 H2]. split; [|apply IH; assumption].
  intros x Hx. apply (in_map g_id) in Hx. rewrite <- E2 in Hx. apply in_map_iff in Hx.
  destruct Hx as (y & Ey & Hy). specialize (H1 y Hy). lia.
Qed.

Lemma rc_msig0_ids l l' : map rc_msig0 l = map rc_msig0 l' -> map g_id l = map g_id l'.
Proof.
  intros H. transitivity (map (fun t : N * N * bool => fst (fst t)) (map rc_msig0 l)).
  - rewrite map_map. reflexivity.
  - rewrite H, map_map. reflexivity.
Qed.

Lemma rc_msig0_In l l' g : map rc_msig0 l = map rc_msig0 l' -> In g l ->
  exists g', In g' l' /\ g_id g' = g_id g /\ g_seq g' = g_seq g /\ sm_full (g_meta g') = sm_full (g_meta g).
Proof.
  intros E Hg. apply (in_map rc_msig0) in Hg. rewrite E in Hg. apply in_map_iff in Hg.
  destruct Hg as (g' & Eg & Hg'). unfold rc_msig0 in Eg. exists g'. repeat split; congruence.
Qed.

Lemma rc_sealf_delrec R : forall g, sm_delrec (g_meta (rc_sealf R g)) = sm_delrec (g_meta g).
Proof.
  induction R as [|g0 R IH]; intros g; [reflexivity|].
  unfold rc_sealf. cbn [fold_left]. fold (rc_sealf R (rc_sealstep g0 g)). rewrite IH.
  unfold rc_sealstep. destruct (g_id g =? g_id g0); reflexivity.
Qed.

Section Recover.
Variable P : params.

Lemma rc_recover_spec (s : st) (m : mem) :
  DiskOK (s_disk s) -> Forall rc_seg_pre (d_segs (s_disk s)) -> rc_magree (m_segs m) (s_disk s) ->
  ids_increasing (m_segs m) -> m_idx m = [] -> (forall g, In g (m_segs m) -> sm_full (g_meta g) = false) ->
  (forall g, In g (m_segs m) -> g_seq g <= m_maxseq m) -> cur_ok m ->
  bac_ok (s_disk s) -> d_lock (s_disk s) = true -> d_overflow (s_disk s) = true ->
  m_segs m <> [] -> (forall g, In g (m_segs m) -> sm_delrec (g_meta g) = 0) ->
  exists s' m', recover flat_ops P s m = (s', m') /\ Inv P (with_mem m' s') /\
    olog (s_disk s') = olog (s_disk s) /\ d_bac (s_disk s') = [] /\ m_seed m' = m_seed m /\
    s_mem s' = s_mem s /\
    (forall i off, rec_of (s_disk s') i off = rec_of (s_disk s) i off) /\
    m_idx m' = rc_ridx P (s_disk s') (m_seed m) (olog (s_disk s')) [] /\
    (* D13: the newest segment is the current one and accepts writes *)
    m_cur_removed m' = false /\
    (exists g, In g (m_segs m') /\ (g_id g, g_seq g) = m_cur m' /\ sm_full (g_meta g) = false /\
               forall g', In g' (m_segs m') -> g_seq g' <= g_seq g) /\
    MetaOK (with_mem m' s').
Proof.
  intros Hok Hpre Hag Hinc Hidx Hnf Hmax Hcur Hbac Hlock Hov Hne0 Hzero.
  set (d4 := s_disk s) in *. pose proof Hok as (Hdok & Hnd4 & Hnq4).
  unfold recover.
  set (order := by_seq (m_segs m)).
  assert (Efold : fold_left (fun sm g => recover_segment flat_ops P (g_id g) (g_seq g) (fst sm) (snd sm)) order (s, m) =
                  fold_left (rc_rstep P) (map rc_fpair (dby_seq (d_segs d4))) (s, m)).
  { rewrite <- (rc_order_pairs (m_segs m) d4 Hinc Hag Hnq4). fold order. rewrite rc_fold_left_map. reflexivity. }
  rewrite Efold.
  assert (HI0 : rc_IdxInv P d4 (m_seed m) [] (m_idx m)) by (rewrite Hidx; apply rc_IdxInv_nil).
  destruct (rc_recover_loop P d4 (m_seed m) (dby_seq (d_segs d4)) Hok (fun f Hf => proj1 (dby_seq_In _ _) Hf)
              s m [] (rc_rsim_refl d4) Hpre Hag HI0 eq_refl)
    as (s1 & m1 & E1 & R1 & R2 & R3 & R4 & R5 & R6 & R7 & R8 & R9 & R10 & R11 & R12 & R13).
  change (map (fun f => (f_id f, f_seq f)) (dby_seq (d_segs d4))) with (map rc_fpair (dby_seq (d_segs d4))) in *.
  rewrite E1. cbn [app] in R6. change (concat (map dseg_entries (dby_seq (d_segs d4)))) with (olog d4) in R6.
  destruct (rc_seal_all_spec order m1) as (S1 & S2 & S3 & S4 & S5 & S6). cbv zeta in *.
  set (m2 := seal_all_but_last order m1) in *.
  (* the newest segment stays writable: swapSegment picks it and emits nothing *)
  assert (Hswap : exists gc, In gc (m_segs m2) /\ sm_full (g_meta gc) = false /\
                    swap_segment flat_ops s1 m2 = (s1, set_cur m2 (g_id gc, g_seq gc) false)).
  { assert (Hex : exists gl, In gl (m_segs m2) /\ sm_full (g_meta gl) = false).
    { assert (Hneo : order <> []).
      { intros E. apply Hne0. apply Permutation_nil. rewrite <- E. apply rc_by_seq_perm. }
      destruct (exists_last Hneo) as (R' & g0 & Eo).
      assert (ER : removelast order = R') by (rewrite Eo; apply removelast_last).
      assert (Hg0 : In g0 (m_segs m)).
      { apply (proj1 (rc_by_seq_In _ _)). change (In g0 order). rewrite Eo. apply in_or_app. right. left. reflexivity. }
      destruct (rc_msig0_In _ _ g0 (eq_sym R11) Hg0) as (g1 & Hg1 & C1 & C2 & C3).
      exists (rc_sealf (removelast order) g1). split; [rewrite S1; apply in_map; exact Hg1|].
      destruct (rc_sealf_fields (removelast order) g1) as (_ & _ & _ & F4). rewrite F4, C3, (Hnf g0 Hg0). cbn [orb].
      rewrite ER.
      destruct (existsb (fun x => g_id g1 =? g_id x) R') eqn:Ex; [|reflexivity].
      exfalso. apply existsb_exists in Ex. destruct Ex as (x & Hx & Ex). apply N.eqb_eq in Ex.
      assert (Hndo : NoDup (map g_id order)).
      { apply (Permutation_NoDup (l := map g_id (m_segs m))); [apply Permutation_map; symmetry; apply rc_by_seq_perm|].
        apply ids_increasing_NoDup. exact Hinc. }
      rewrite Eo, map_app in Hndo. cbn [map] in Hndo. apply NoDup_remove_2 in Hndo. apply Hndo.
      rewrite app_nil_r. rewrite <- C1, Ex. apply in_map. exact Hx. }
    destruct Hex as (gl & Hgl & Hglf). unfold swap_segment.
    destruct (find (fun g => negb (sm_full (g_meta g))) (m_segs m2)) as [gc|] eqn:Ef.
    - apply find_some in Ef. destruct Ef as [Hgc Hn]. apply negb_true_iff in Hn. exists gc. auto.
    - exfalso. pose proof (find_none _ _ Ef gl Hgl) as Hn. cbn beta in Hn. rewrite Hglf in Hn. discriminate. }
  destruct Hswap as (gc & Hgc & Hgcf & Eswap). rewrite Eswap.
  set (m3 := set_cur m2 (g_id gc, g_seq gc) false).
  set (s2 := emit flat_ops (EIndex (m_idx m2)) s1).
  destruct R3 as (Q1 & Q2 & Q3 & Q4 & Q5 & Q6 & Q7).
  assert (Hbac2 : bac_ok (s_disk s2)) by (unfold bac_ok; cbn [s2 emit s_disk apply_ev set_index d_bac]; rewrite Q7; exact Hbac).
  destruct (rc_remove_bac_spec s2 Hbac2) as (B1 & B2 & B3 & B4 & B5 & B6). cbv zeta in *.
  set (s3 := remove_bac flat_ops s2) in *.
  exists s3, m3. split; [reflexivity|].
  assert (Esegs : d_segs (s_disk s3) = d_segs (s_disk s1)) by (rewrite B1; reflexivity).
  assert (Hsim3 : rc_rsim d4 (s_disk s3)) by (eapply rc_rsim_trans; [exact R1|apply rc_rsim_segs; exact Esegs]).
  (* every segment of the final disk is the cleaned version of a segment of d4 *)
  assert (Hclean : forall f, In f (d_segs (s_disk s3)) ->
            exists x, In x (d_segs d4) /\ f = rc_cleans (map rc_fpair (dby_seq (d_segs d4))) x /\ f_hdr f = true /\ f_tail f = []).
  { intros f Hf. rewrite Esegs, R2 in Hf. apply in_map_iff in Hf. destruct Hf as (x & <- & Hx).
    exists x. split; [exact Hx|]. split; [reflexivity|].
    pose proof (proj1 (Forall_forall _ _) Hpre x Hx) as [Hxh _]. split; [apply rc_cleans_fields; exact Hxh|].
    apply rc_cleans_hit. apply in_map_iff. exists x. split; [reflexivity|apply (proj2 (dby_seq_In _ _)); exact Hx]. }
  assert (Hdok3 : DiskOK (s_disk s3)).
  { split; [|split; [rewrite (rc_rsim_ids _ _ Hsim3); exact Hnd4|rewrite (rc_rsim_seqs _ _ Hsim3); exact Hnq4]].
    apply Forall_forall. intros f Hf. destruct (Hclean f Hf) as (x & Hx & Ef & Hfh & Hft).
    pose proof (proj1 (Forall_forall _ _) Hdok x Hx) as (D1 & D2 & D3 & D4 & D5).
    assert (Er : f_recs f = f_recs x) by (rewrite Ef; apply rc_cleans_fields).
    unfold dseg_ok. rewrite Hft, Er. split; [exact D1|]. split; [apply rc_tail_stuck_nil|]. split; [constructor|].
    split; [rewrite Hfh; discriminate|exact D5]. }
  (* the in-memory segments *)
  assert (Hseg2 : forall g, In g (m_segs m2) -> exists g1, In g1 (m_segs m1) /\ g = rc_sealf (removelast order) g1).
  { intros g Hg. rewrite S1 in Hg. apply in_map_iff in Hg. destruct Hg as (g1 & <- & Hg1). exists g1. auto. }
  assert (Hmda : mem_disk_agree m2 (s_disk s3)).
  { split.
    - intros g Hg. destruct (Hseg2 g Hg) as (g1 & Hg1 & ->).
      destruct (rc_sealf_fields (removelast order) g1) as (F1 & F2 & F3 & _).
      destruct (proj1 R5 g1 Hg1) as (f & Hf & A1 & A2 & A3). rewrite <- Esegs in Hf.
      destruct (Hclean f Hf) as (_ & _ & _ & Hfh & Hft).
      exists f. repeat split; try assumption; congruence.
    - intros f Hf. rewrite Esegs in Hf. destruct (proj2 R5 f Hf) as (g1 & Hg1 & A1 & A2).
      destruct (rc_sealf_fields (removelast order) g1) as (F1 & F2 & _).
      exists (rc_sealf (removelast order) g1). split; [rewrite S1; apply in_map; exact Hg1|]. split; congruence. }
  assert (Hinc2 : ids_increasing (m_segs m2)).
  { rewrite S1. apply ids_increasing_map; [intros g; apply rc_sealf_fields|].
    apply (rc_ids_increasing_ids (m_segs m)); [symmetry; apply rc_msig0_ids; exact R11|exact Hinc]. }
  assert (Hseqo : seq_order m2).
  { split.
    - intros g Hg. destruct (Hseg2 g Hg) as (g1 & Hg1 & ->).
      destruct (rc_sealf_fields (removelast order) g1) as (_ & F2 & _).
      destruct (rc_msig0_In _ _ g1 R11 Hg1) as (g0 & Hg0 & _ & A2 & _). rewrite S4, R10, F2, <- A2. apply Hmax. exact Hg0.
    - intros g g' Hg Hg' Hfull. destruct (Hseg2 g Hg) as (g1 & Hg1 & ->). destruct (Hseg2 g' Hg') as (g1' & Hg1' & ->).
      destruct (rc_sealf_fields (removelast order) g1) as (F1 & F2 & _ & F4).
      destruct (rc_sealf_fields (removelast order) g1') as (_ & F2' & _).
      rewrite F4 in Hfull. apply orb_false_iff in Hfull. destruct Hfull as [_ Hnot].
      destruct (rc_msig0_In _ _ g1 R11 Hg1) as (g0 & Hg0 & A1 & A2 & _).
      destruct (rc_msig0_In _ _ g1' R11 Hg1') as (g0' & Hg0' & A1' & A2' & _).
      apply (proj2 (rc_by_seq_In _ _)) in Hg0. apply (proj2 (rc_by_seq_In _ _)) in Hg0'. fold order in Hg0, Hg0'.
      assert (Hne : order <> []) by (intros E; rewrite E in Hg0; destruct Hg0).
      pose proof (app_removelast_last g0 Hne) as Eo.
      pose proof (rc_by_seq_sorted (m_segs m)) as Hsorted. fold order in Hsorted. rewrite Eo in Hsorted.
      assert (Hlast : g0 = last order g0).
      { rewrite Eo in Hg0. apply in_app_or in Hg0. destruct Hg0 as [Hin|[E|[]]]; [|symmetry; exact E].
        exfalso. assert (Hex : existsb (fun x => g_id g1 =? g_id x) (removelast order) = true).
        { apply existsb_exists. exists g0. split; [exact Hin|]. apply N.eqb_eq. congruence. }
        congruence. }
      rewrite F2, F2', <- A2, <- A2'.
      rewrite Eo in Hg0'. apply in_app_or in Hg0'. destruct Hg0' as [Hin|[E|[]]].
      + rewrite Hlast. apply (rc_sorted_app_last _ _ _ Hsorted). exact Hin.
      + rewrite Hlast, <- E. lia. }
  assert (Hcur2 : cur_ok m3).
  { intros _. exists gc. split; [exact Hgc|]. split; reflexivity. }
  assert (Hia : index_agrees P m2 (s_disk s3)).
  { apply (rc_rsim_index_agrees P m2 d4 (s_disk s3) Hsim3). unfold index_agrees. rewrite S5, S6, R7. exact R6. }
  split.
  { unfold Inv. cbn [with_mem s_mem s_disk].
    split; [exact Hdok3|]. split; [exact Hmda|]. split; [exact Hinc2|]. split; [exact Hseqo|].
    split; [exact Hcur2|]. split; [exact Hia|].
    split; [rewrite B4; cbn [s2 emit s_disk apply_ev set_index d_lock]; rewrite Q6; exact Hlock|].
    split; [rewrite B2; reflexivity|].
    rewrite B3. cbn [s2 emit s_disk apply_ev set_index d_overflow]. rewrite Q3. exact Hov. }
  split; [apply rc_rsim_olog; exact Hsim3|]. split; [exact B5|].
  split; [change (m_seed m3) with (m_seed m2); rewrite S6; exact R7|].
  split; [rewrite B6; cbn [s2 emit s_mem]; exact R4|].
  split; [intros i off; apply rc_rsim_rec_of; exact Hsim3|].
  split.
  { change (m_idx m3) with (m_idx m2). rewrite S5, R12, Hidx, (rc_rsim_olog _ _ Hsim3).
    change (concat (map dseg_entries (dby_seq (d_segs d4)))) with (olog d4).
    symmetry. apply rc_ridx_ext. intros i off. apply rc_rsim_rec_of. exact Hsim3. }
  split; [reflexivity|]. split.
  { exists gc. split; [exact Hgc|]. split; [reflexivity|]. split; [exact Hgcf|].
    intros g' Hg'. apply (proj2 Hseqo); assumption. }
  unfold MetaOK. cbn [with_mem s_mem s_disk]. intros g f Hg Hfind.
  destruct (Hseg2 g Hg) as (g1 & Hg1 & ->). rewrite rc_sealf_delrec.
  destruct (rc_sealf_fields (removelast order) g1) as (F1 & _). rewrite F1 in Hfind.
  assert (HndD : NoDup (map f_id (dby_seq (d_segs d4)))).
  { apply (Permutation_NoDup (l := map f_id (d_segs d4))); [apply Permutation_map; symmetry; apply dby_seq_perm|exact Hnd4]. }
  destruct (R13 HndD (fun g0 f0 Hg0 _ _ => Hzero g0 Hg0) g1 Hg1) as [(f0 & Hf0 & B7 & B8)|(Hno & g0 & Hg0 & B7 & _)].
  - apply (proj1 (dby_seq_In _ _)) in Hf0.
    destruct (rc_rsim_find d4 (s_disk s3) (f_id f0) f0 Hsim3 (find_dseg_unique d4 f0 Hnd4 Hf0)) as (f' & Hf' & Ec).
    rewrite B7, Hf' in Hfind. inversion Hfind; subst f'. rewrite B8. unfold rc_rcore in Ec. congruence.
  - exfalso. destruct (proj1 Hag g0 Hg0) as (fx & Hfx & A1 & _).
    apply (Hno fx); [apply (proj2 (dby_seq_In _ _)); exact Hfx|congruence].
Qed.

End Recover.

(* ================================================================================================ *)
(* L. swapSegment at open                                                                             *)
Definition rc_newf (id seq : N) : dseg :=
  {| f_id := id; f_seq := seq; f_hdr := true; f_recs := []; f_tail := []; f_meta := GAbsent |}.
Definition rc_newg (id seq : N) : mseg := {| g_id := id; g_seq := seq; g_size := header_size; g_meta := smeta0 |}.

Lemma rc_fold_max_ge (l : list mseg) : forall n,
  n <= fold_left (fun n g => N.max n (g_seq g)) l n /\
  forall g, In g l -> g_seq g <= fold_left (fun n g => N.max n (g_seq g)) l n.
Proof.
  induction l as [|x l IH]; intros n; cbn [fold_left]; [split; [lia|intros g []]|].
  destruct (IH (N.max n (g_seq x))) as [A1 A2]. split; [lia|].
  intros g [->|Hg]; [lia|apply A2; exact Hg].
Qed.

Lemma rc_swap_spec (s : st) (m : mem) :
  rc_magree (m_segs m) (s_disk s) -> ids_increasing (m_segs m) ->
  exists s' m', swap_segment flat_ops s m = (s', m') /\
    ((exists g, In g (m_segs m) /\ sm_full (g_meta g) = false /\ s' = s /\ m' = set_cur m (g_id g, g_seq g) false)
     \/ ((forall g, In g (m_segs m) -> sm_full (g_meta g) = true) /\
         let id := lowest_free 0 (m_segs m) in let seq := m_maxseq m + 1 in
         m' = set_cur (set_maxseq (set_msegs m (insert_mseg (rc_newg id seq) (m_segs m))) seq) (id, seq) false /\
         d_segs (s_disk s') = d_segs (s_disk s) ++ [rc_newf id seq] /\ same_rest (s_disk s) (s_disk s') /\
         s_mem s' = s_mem s /\ (forall g, In g (m_segs m) -> g_id g <> id))).
Proof.
  intros Hag Hinc. unfold swap_segment.
  destruct (find (fun g => negb (sm_full (g_meta g))) (m_segs m)) as [g|] eqn:Ef.
  - apply find_some in Ef. destruct Ef as [Hg Hn]. apply negb_true_iff in Hn.
    eexists. eexists. split; [reflexivity|]. left. exists g. auto.
  - eexists. eexists. split; [reflexivity|]. right.
    assert (Hfull : forall g, In g (m_segs m) -> sm_full (g_meta g) = true).
    { intros g Hg. pose proof (find_none _ _ Ef g Hg) as Hn. cbn beta in Hn. apply negb_false_iff in Hn. exact Hn. }
    split; [exact Hfull|]. cbv zeta.
    assert (Hfresh : forall g, In g (m_segs m) -> g_id g <> lowest_free 0 (m_segs m)).
    { intros g Hg. apply lowest_free_fresh; assumption. }
    split; [reflexivity|]. split; [|split; [repeat split|split; [reflexivity|exact Hfresh]]].
    cbn [emits fold_left emit s_disk apply_ev set_segs upd_seg d_segs]. rewrite map_app. cbn [map].
    f_equal.
    + rewrite <- (map_id (d_segs (s_disk s))) at 2. apply map_ext_in. intros f Hf.
      destruct (proj2 Hag f Hf) as (g & Hg & A1 & A2). unfold is_seg.
      destruct (N.eqb_spec (f_id f) (lowest_free 0 (m_segs m))) as [E|_]; [|reflexivity].
      exfalso. apply (Hfresh g Hg). congruence.
    + unfold is_seg. cbn [f_id f_seq]. rewrite !N.eqb_refl. reflexivity.
Qed.

Lemma rc_find_app {A} (p : A -> bool) (a b : list A) :
  find p (a ++ b) = match find p a with Some x => Some x | None => find p b end.
Proof. induction a as [|x a IH]; [reflexivity|]. cbn [app find]. destruct (p x); [reflexivity|exact IH]. Qed.

Lemma rc_dseg_ok_newf id seq : dseg_ok (rc_newf id seq).
Proof.
  unfold dseg_ok, rc_newf. cbn [f_recs f_tail f_hdr]. split; [constructor|]. split; [apply rc_tail_stuck_nil|].
  split; [constructor|]. split; [discriminate|]. rewrite recs_len_nil, header_size_eq. lia.
Qed.

(* consequences of creating a new empty segment *)
Lemma rc_create_spec (d d' : disk) (l : list mseg) maxseq id seq :
  DiskOK d -> rc_magree l d -> ids_increasing l -> (forall g, In g l -> g_seq g <= maxseq) -> seq = maxseq + 1 ->
  (forall g, In g l -> g_id g <> id) -> d_segs d' = d_segs d ++ [rc_newf id seq] ->
  DiskOK d' /\ rc_magree (insert_mseg (rc_newg id seq) l) d' /\ ids_increasing (insert_mseg (rc_newg id seq) l) /\
  olog d' = olog d /\ (forall i off, rec_of d' i off = rec_of d i off).
Proof.
  intros (Hdok & Hnd & Hnq) Hag Hinc Hmax Hseq Hfresh Ed.
  assert (Hidf : forall f, In f (d_segs d) -> f_id f <> id /\ f_seq f <> seq).
  { intros f Hf. destruct (proj2 Hag f Hf) as (g & Hg & A1 & A2). split.
    - rewrite <- A1. apply Hfresh. exact Hg.
    - pose proof (Hmax g Hg). lia. }
  split; [|split; [|split; [|split]]].
  - split; [|split].
    + rewrite Ed. apply Forall_app. split; [exact Hdok|]. constructor; [apply rc_dseg_ok_newf|constructor].
    + rewrite Ed, map_app. cbn [map rc_newf f_id]. apply rc_NoDup_snoc; [exact Hnd|].
      intros HIn. apply in_map_iff in HIn. destruct HIn as (f & E & Hf). exact (proj1 (Hidf f Hf) E).
    + rewrite Ed, map_app. cbn [map rc_newf f_seq]. apply rc_NoDup_snoc; [exact Hnq|].
      intros HIn. apply in_map_iff in HIn. destruct HIn as (f & E & Hf). exact (proj2 (Hidf f Hf) E).
  - split.
    + intros g Hg. apply insert_mseg_In in Hg. destruct Hg as [->|Hg].
      * exists (rc_newf id seq). split; [rewrite Ed; apply in_or_app; right; left; reflexivity|].
        unfold flen, rc_newf, rc_newg. cbn [f_id f_seq f_hdr f_recs f_tail g_id g_seq g_size nlen].
        rewrite recs_len_nil. repeat split.
      * destruct (proj1 Hag g Hg) as (f & Hf & A). exists f. split; [rewrite Ed; apply in_or_app; left; exact Hf|exact A].
    + intros f Hf. rewrite Ed in Hf. apply in_app_or in Hf. destruct Hf as [Hf|[<-|[]]].
      * destruct (proj2 Hag f Hf) as (g & Hg & A). exists g. split; [apply insert_mseg_In; right; exact Hg|exact A].
      * exists (rc_newg id seq). split; [apply insert_mseg_In; left; reflexivity|split; reflexivity].
  - apply insert_mseg_increasing; [exact Hinc|]. intros x Hx. cbn [rc_newg g_id]. apply Hfresh. exact Hx.
  - rewrite !olog_eq, Ed. apply olog_of_snoc_empty. reflexivity.
  - intros i off. unfold rec_of, find_dseg. rewrite Ed, rc_find_app.
    destruct (find (fun s => f_id s =? i) (d_segs d)) as [f|]; [reflexivity|].
    cbn [find rc_newf f_id]. destruct (id =? i); reflexivity.
Qed.

(* ================================================================================================ *)
(* M. the recovering open                                                                             *)
Lemma rc_open_segments_recovery (s2 : st) :
  DiskOK (s_disk s2) -> (forall f, In f (d_segs (s_disk s2)) -> f_meta f = GAbsent) ->
  exists s3 segs, open_segments flat_ops s2 = (s3, segs) /\
    DiskOK (s_disk s3) /\ Forall rc_seg_pre (d_segs (s_disk s3)) /\ rc_magree segs (s_disk s3) /\
    ids_increasing segs /\ (forall g, In g segs -> g_meta g = smeta0) /\
    rc_rsim (s_disk s2) (s_disk s3) /\ same_rest (s_disk s2) (s_disk s3) /\ s_mem s3 = s_mem s2.
Proof.
  intros (Hdok & Hnd & Hnq) Hmeta.
  destruct (rc_open_segments_spec s2 Hnd) as (s3 & segs & E & Ed & Erest & Emem & _ & Hsegs & Hinc).
  set (L := sort_segs (d_segs (s_disk s2))) in *.
  assert (HL : forall x, In x L <-> In x (d_segs (s_disk s2))).
  { intros x. split; apply Permutation_in; [|symmetry]; apply rc_sort_segs_perm. }
  exists s3, segs. split; [exact E|].
  assert (Hsim : rc_rsim (s_disk s2) (s_disk s3)).
  { unfold rc_rsim. rewrite Ed, map_map. apply map_ext. intros f.
    destruct (rc_hons_fields L f) as (A1 & A2 & A3 & _). unfold rc_rcore. congruence. }
  assert (Hh : forall f, In f (d_segs (s_disk s2)) -> f_hdr (rc_hons L f) = true).
  { intros f Hf. apply rc_hons_hdr_cov. exists f. split; [apply HL; exact Hf|].
    split; [unfold is_seg; rewrite !N.eqb_refl; reflexivity|auto]. }
  split.
  { split; [|split; [rewrite (rc_rsim_ids _ _ Hsim); exact Hnd|rewrite (rc_rsim_seqs _ _ Hsim); exact Hnq]].
    rewrite Ed. apply Forall_forall. intros y Hy. apply in_map_iff in Hy. destruct Hy as (f & <- & Hf).
    pose proof (proj1 (Forall_forall _ _) Hdok f Hf) as (D1 & D2 & D3 & D4 & D5).
    destruct (rc_hons_fields L f) as (_ & _ & A3 & A4 & _). unfold dseg_ok. rewrite A3, A4, (Hh f Hf).
    split; [exact D1|]. split; [exact D2|]. split; [exact D3|]. split; [discriminate|exact D5]. }
  split.
  { rewrite Ed. apply Forall_forall. intros y Hy. apply in_map_iff in Hy. destruct Hy as (f & <- & Hf).
    pose proof (proj1 (Forall_forall _ _) Hdok f Hf) as (_ & D2 & _).
    destruct (rc_hons_fields L f) as (_ & _ & _ & A4 & _). split; [apply Hh; exact Hf|rewrite A4; exact D2]. }
  split.
  { split.
    - intros g Hg. apply Hsegs in Hg. destruct Hg as (f & Hf & ->). exists (rc_hons L f).
      split; [rewrite Ed; apply in_map; exact Hf|].
      destruct (rc_hons_fields L f) as (A1 & A2 & A3 & A4 & _).
      rewrite (rc_flen_hdr _ (Hh f Hf)). unfold rc_hlen, rc_mkseg. cbn [g_id g_seq g_size]. rewrite A3, A4. auto.
    - intros y Hy. rewrite Ed in Hy. apply in_map_iff in Hy. destruct Hy as (f & <- & Hf).
      exists (rc_mkseg f). split; [apply Hsegs; exists f; auto|].
      destruct (rc_hons_fields L f) as (A1 & A2 & _). cbn [rc_mkseg g_id g_seq]. auto. }
  split; [exact Hinc|]. split.
  { intros g Hg. apply Hsegs in Hg. destruct Hg as (f & Hf & ->). cbn [rc_mkseg g_meta]. rewrite (Hmeta f Hf). reflexivity. }
  split; [exact Hsim|]. split; [exact Erest|exact Emem].
Qed.

Section OpenRecover.
Variable P : params.

Lemma open_recover_gen seed (s0 : st) :
  s_mem s0 = None -> DiskOK (s_disk s0) -> bac_ok (s_disk s0) -> d_lock (s_disk s0) = true ->
  let '(s', o) := db_open flat_ops P seed s0 in
  o = OOpened true /\ Inv P s' /\ s_mem s' <> None /\
  (forall k, sget (abs (s_disk s')) k = sget (abs (s_disk s0)) k) /\
  d_bac (s_disk s') = [] /\
  olog (s_disk s') = olog (s_disk s0) /\
  (exists m', s_mem s' = Some m' /\ m_seed m' = seed /\
              (* the index is the canonical replay of the log of the recovered disk *)
              m_idx m' = rc_ridx P (s_disk s') seed (olog (s_disk s')) [] /\
              (* D13: the current segment after a recovery is the newest one and accepts writes *)
              m_cur_removed m' = false /\
              (exists g, In g (m_segs m') /\ (g_id g, g_seq g) = m_cur m' /\ sm_full (g_meta g) = false /\
                         forall g', In g' (m_segs m') -> g_seq g' <= g_seq g)) /\
  (forall i off, rec_of (s_disk s') i off = rec_of (s_disk s0) i off) /\
  MetaOK s'.
Proof.
  intros Hmem0 Hok Hbac Hlock. set (d := s_disk s0) in *.
  unfold db_open. rewrite Hmem0. fold d.
  rewrite Hlock. cbv beta iota.
  destruct (rc_backup_spec s0 Hok Hbac) as (A1 & A2 & A3 & A4 & A5 & A6). cbv zeta in A1, A2, A3, A4, A5, A6. fold d in A1, A2.
  set (s1 := backup_nonseg flat_ops s0) in *.
  destruct (rc_open_index_fresh s1 A4) as (s2 & E2 & B1 & B2 & B3 & B4 & B5 & B6). rewrite E2.
  assert (Hsl2 : same_log d (s_disk s2)).
  { eapply same_log_trans; [exact A1|]. apply same_log_segs. exact B1. }
  assert (Hok2 : DiskOK (s_disk s2)) by (eapply same_log_DiskOK; eassumption).
  assert (Hmeta2 : forall f, In f (d_segs (s_disk s2)) -> f_meta f = GAbsent) by (rewrite B1; exact A5).
  destruct (rc_open_segments_recovery s2 Hok2 Hmeta2) as (s3 & segs & E3 & C1 & C2 & C3 & C4 & C5 & C6 & C7 & C8).
  rewrite E3.
  set (maxseq := fold_left (fun n g => N.max n (g_seq g)) segs 0).
  set (m0 := {| m_segs := segs; m_cur := (0, 0); m_cur_removed := true; m_maxseq := maxseq;
                m_idx := (@nil slot : flat); m_seed := seed |}).
  cbv zeta.
  destruct (rc_swap_spec s3 m0 C3 C4) as (s4 & m1 & E4 & Hcase). fold m0. rewrite E4.
  change (ix_count flat_ops [] =? 0) with true. cbv beta iota.
  destruct C7 as (Q1 & Q2 & Q3 & Q4 & Q5 & Q6 & Q7).
  assert (Hmaxseq : forall g, In g segs -> g_seq g <= maxseq) by (apply (rc_fold_max_ge segs 0)).
  (* the preconditions of recover, in both cases of swapSegment *)
  assert (Hpre : (forall g, In g (m_segs m1) -> g_meta g = smeta0) /\ DiskOK (s_disk s4) /\ Forall rc_seg_pre (d_segs (s_disk s4)) /\ rc_magree (m_segs m1) (s_disk s4) /\
                 ids_increasing (m_segs m1) /\ m_idx m1 = [] /\
                 (forall g, In g (m_segs m1) -> sm_full (g_meta g) = false) /\
                 (forall g, In g (m_segs m1) -> g_seq g <= m_maxseq m1) /\
                 (exists g, In g (m_segs m1) /\ g_id g = fst (m_cur m1) /\ g_seq g = snd (m_cur m1)) /\
                 m_cur_removed m1 = false /\
                 d_bac (s_disk s4) = d_bac (s_disk s3) /\ d_lock (s_disk s4) = d_lock (s_disk s3) /\
                 d_overflow (s_disk s4) = d_overflow (s_disk s3) /\ olog (s_disk s4) = olog (s_disk s3) /\
                 s_mem s4 = s_mem s3 /\
                 (forall i off, rec_of (s_disk s4) i off = rec_of (s_disk s3) i off)).
  { destruct Hcase as [(g & Hg & Hnf & -> & ->)|(Hfull & Em1 & Ed4 & Erest4 & Emem4 & Hfresh)].
    - cbn [set_cur m_segs m_cur m_cur_removed m_maxseq m_idx m0 fst snd].
      split; [exact C5|].
      split; [exact C1|]. split; [exact C2|]. split; [exact C3|]. split; [exact C4|]. split; [reflexivity|].
      split; [intros x Hx; rewrite (C5 x Hx); reflexivity|]. split; [exact Hmaxseq|].
      split; [exists g; auto|]. repeat split.
    - cbv zeta in Em1, Ed4, Hfresh. cbn [m0 m_segs m_maxseq] in Em1, Ed4, Hfresh.
      destruct (rc_create_spec (s_disk s3) (s_disk s4) segs maxseq (lowest_free 0 segs) (maxseq + 1)
                  C1 C3 C4 Hmaxseq eq_refl Hfresh Ed4) as (K1 & K2 & K3 & K4 & K5).
      rewrite Em1. cbn [set_cur set_maxseq set_msegs m_segs m_cur m_cur_removed m_maxseq m_idx m0 fst snd].
      split; [intros x Hx; apply insert_mseg_In in Hx; destruct Hx as [->|Hx]; [reflexivity|exact (C5 x Hx)]|].
      split; [exact K1|]. split.
      { rewrite Ed4. apply Forall_app. split; [exact C2|]. constructor; [|constructor].
        split; [reflexivity|apply rc_tail_stuck_nil]. }
      split; [exact K2|]. split; [exact K3|]. split; [reflexivity|]. split.
      { intros x Hx. apply insert_mseg_In in Hx. destruct Hx as [->|Hx]; [reflexivity|rewrite (C5 x Hx); reflexivity]. }
      split.
      { intros x Hx. apply insert_mseg_In in Hx. destruct Hx as [->|Hx]; [cbn [rc_newg g_seq]; lia|].
        pose proof (Hmaxseq x Hx). lia. }
      split; [exists (rc_newg (lowest_free 0 segs) (maxseq + 1)); split; [apply insert_mseg_In; left; reflexivity|split; reflexivity]|].
      destruct Erest4 as (R1 & R2 & R3 & R4 & R5 & R6 & R7). repeat split; try assumption. }
  destruct Hpre as (P0 & P1 & P2 & P3 & P4 & P5 & P6 & P7 & P8 & P9 & P10 & P11 & P12 & P13 & P14 & P15).
  set (m2 := {| m_segs := m_segs m1; m_cur := m_cur m1; m_cur_removed := m_cur_removed m1;
                m_maxseq := m_maxseq m1; m_idx := m_idx m1; m_seed := seed |}).
  assert (Hcur2 : cur_ok m2) by (intros _; exact P8).
  assert (Hbac4 : bac_ok (s_disk s4)) by (unfold bac_ok; rewrite P10, Q7, B3; exact A3).
  assert (Hlock4 : d_lock (s_disk s4) = true) by (rewrite P11, Q6, B2, A2; exact Hlock).
  assert (Hov4 : d_overflow (s_disk s4) = true) by (rewrite P12, Q3; exact B5).
  assert (Hne2 : m_segs m2 <> []) by (destruct P8 as (gx & Hgx & _); intros E; cbn [m2 m_segs] in E; rewrite E in Hgx; destruct Hgx).
  assert (Hz2 : forall g, In g (m_segs m2) -> sm_delrec (g_meta g) = 0) by (intros g Hg; rewrite (P0 g Hg); reflexivity).
  destruct (rc_recover_spec P s4 m2 P1 P2 P3 P4 P5 P6 P7 Hcur2 Hbac4 Hlock4 Hov4 Hne2 Hz2)
    as (s5 & m3 & E5 & HI & Holog & Hb5 & Hseed & Hmem5 & Hrec5 & Hridx & Hrm & Hcurg & Hmeta).
  rewrite E5.
  assert (Hlog : olog (s_disk s5) = olog d).
  { rewrite Holog, P13, (rc_rsim_olog _ _ C6). apply same_log_olog. exact Hsl2. }
  split; [reflexivity|]. split; [exact HI|]. split; [discriminate|].
  split; [intros k; unfold abs; cbn [with_mem s_disk]; rewrite Hlog; reflexivity|].
  split; [exact Hb5|]. split; [exact Hlog|].
  split; [exists m3; split; [reflexivity|]; split; [exact Hseed|]; split; [exact Hridx|]; split; [exact Hrm|exact Hcurg]|].
  split; [|exact Hmeta].
  intros i off. cbn [with_mem s_disk]. rewrite Hrec5, P15, (rc_rsim_rec_of _ _ _ _ C6). apply same_log_rec_of. exact Hsl2.
Qed.

Theorem open_recover_ok seed (d : disk) :
  params_ok P -> DiskOK d -> bac_ok d -> d_lock d = true ->
  let '(s', o) := db_open flat_ops P seed {| s_mem := None; s_disk := d; s_trace := [] |} in
  o = OOpened true /\ Inv P s' /\ s_mem s' <> None /\
  (forall k, sget (abs (s_disk s')) k = sget (abs d) k) /\
  d_bac (s_disk s') = [] /\
  (* more: the log itself is unchanged, the seed is the fresh one, the index is the canonical replay *)
  olog (s_disk s') = olog d /\
  (exists m', s_mem s' = Some m' /\ m_seed m' = seed /\
              m_idx m' = rc_ridx P (s_disk s') seed (olog (s_disk s')) [] /\
              (* D13: the current segment after a recovery is the newest one and accepts writes *)
              m_cur_removed m' = false /\
              (exists g, In g (m_segs m') /\ (g_id g, g_seq g) = m_cur m' /\ sm_full (g_meta g) = false /\
                         forall g', In g' (m_segs m') -> g_seq g' <= g_seq g)) /\
  (forall i off, rec_of (s_disk s') i off = rec_of d i off) /\
  (* recovery rebuilds the DeleteRecords counters *)
  MetaOK s'.
Proof.
  intros _ Hok Hbac Hlock.
  apply (open_recover_gen seed {| s_mem := None; s_disk := d; s_trace := [] |}); [reflexivity|exact Hok|exact Hbac|exact Hlock].
Qed.

(* crash right after a completed recovery, recover again *)
Theorem recover_idempotent seed seed2 (d : disk) :
  params_ok P -> DiskOK d -> bac_ok d -> d_lock d = true ->
  let '(s1, _) := db_open flat_ops P seed {| s_mem := None; s_disk := d; s_trace := [] |} in
  let '(s2, o2) := db_open flat_ops P seed2 {| s_mem := None; s_disk := s_disk s1; s_trace := s_trace s1 |} in
  o2 = OOpened true /\ Inv P s2 /\ s_mem s2 <> None /\
  (forall k, sget (abs (s_disk s2)) k = sget (abs (s_disk s1)) k) /\
  (forall k, sget (abs (s_disk s2)) k = sget (abs d) k) /\
  olog (s_disk s2) = olog (s_disk s1) /\ d_bac (s_disk s2) = [] /\
  (* with the same hash seed the rebuilt index is the same list of slots *)
  (seed2 = seed -> exists m1 m2, s_mem s1 = Some m1 /\ s_mem s2 = Some m2 /\ m_idx m2 = m_idx m1).
Proof.
  intros Hp Hok Hbac Hlock. pose proof (open_recover_ok seed d Hp Hok Hbac Hlock) as H1.
  destruct (db_open flat_ops P seed {| s_mem := None; s_disk := d; s_trace := [] |}) as [s1 o1].
  destruct H1 as (_ & HI1 & Hm1 & Habs1 & Hb1 & Hlog1 & (m1 & Em1 & Hseed1 & Hidx1 & _) & _).
  unfold Inv in HI1. rewrite Em1 in HI1. destruct HI1 as (Hok1 & _ & _ & _ & _ & _ & Hlock1 & _).
  assert (Hbac1 : bac_ok (s_disk s1)) by (unfold bac_ok; rewrite Hb1; constructor).
  pose proof (open_recover_gen seed2 {| s_mem := None; s_disk := s_disk s1; s_trace := s_trace s1 |}
                eq_refl Hok1 Hbac1 Hlock1) as H2.
  destruct (db_open flat_ops P seed2 {| s_mem := None; s_disk := s_disk s1; s_trace := s_trace s1 |}) as [s2 o2].
  cbn [s_disk] in H2. destruct H2 as (Ho2 & HI2 & Hm2 & Habs2 & Hb2 & Hlog2 & (m2 & Em2 & Hseed2 & Hidx2 & _) & Hrec2 & _).
  split; [exact Ho2|]. split; [exact HI2|]. split; [exact Hm2|]. split; [exact Habs2|].
  split; [intros k; rewrite Habs2; apply Habs1|]. split; [exact Hlog2|]. split; [exact Hb2|].
  intros ->. exists m1, m2. split; [exact Em1|]. split; [exact Em2|].
  rewrite Hidx2, Hidx1, Hlog2. apply rc_ridx_ext. exact Hrec2.
Qed.

End OpenRecover.

(* ================================================================================================ *)
(* N. rc_clean reopen                                                                                    *)
Lemma rc_open_index_existing (s : st) i j :
  d_index (s_disk s) = Some i -> d_overflow (s_disk s) = true -> d_imeta (s_disk s) = GOk j ->
  open_index flat_ops s = Some (s, i).
Proof. intros E1 E2 E3. unfold open_index. rewrite E1, E2, E1, E3. reflexivity. Qed.

Lemma rc_index_agrees_transfer P (m m' : mem) (d d' : disk) :
  (forall i off, rec_of d' i off = rec_of d i off) -> olog d' = olog d ->
  m_idx m' = m_idx m -> (m_seed m' = m_seed m \/ m_idx m = []) ->
  index_agrees P m d -> index_agrees P m' d'.
Proof.
  intros Hrec Hlog Eidx Hseed (A & B & C). unfold index_agrees. rewrite Eidx.
  assert (Hkv : forall sl, read_kv d' sl = read_kv d sl) by (intros sl; rewrite !read_kv_rec_of, Hrec; reflexivity).
  assert (Hkey : forall sl, slot_key d' sl = slot_key d sl) by (intros sl; unfold slot_key; rewrite Hkv; reflexivity).
  split; [|split].
  - destruct Hseed as [Es|En]; [|rewrite En; constructor].
    rewrite Es. apply Forall_forall. intros sl Hsl. pose proof (proj1 (Forall_forall _ _) A sl Hsl) as H.
    apply slot_ok_rec_of in H. apply slot_ok_rec_of. rewrite Hrec. exact H.
  - erewrite map_ext; [exact B|]. exact Hkey.
  - intros k. unfold ptr_of. rewrite Hlog. fold (ptr_of d). rewrite C. f_equal. apply rc_find_ext.
    intros sl. rewrite Hkey. reflexivity.
Qed.

Section Reopen.
Variable P : params.

Lemma close_reopen_master seed' (s : st) (m : mem) :
  Inv P s -> s_mem s = Some m ->
  exists s1 s2 m2,
    db_close flat_ops s = (s1, OOk) /\ db_open flat_ops P seed' (clear_trace s1) = (s2, OOpened false) /\
    Inv P s2 /\ s_mem s2 = Some m2 /\ olog (s_disk s2) = olog (s_disk s) /\ olog (s_disk s1) = olog (s_disk s) /\
    m_idx m2 = m_idx m /\ (forall g, In g (m_segs m) -> In g (m_segs m2)) /\
    m_seed m2 = (if ix_count flat_ops (m_idx m) =? 0 then seed' else m_seed m) /\
    d_index (s_disk s1) = Some (m_idx m) /\ d_imeta (s_disk s1) = GOk (m_idx m) /\
    (forall f1, In f1 (d_segs (s_disk s1)) ->
       exists g, In g (m_segs m) /\ f_id f1 = g_id g /\ f_seq f1 = g_seq g /\ f_meta f1 = GOk (g_meta g)) /\
    d_bac (s_disk s2) = d_bac (s_disk s) /\
    (MetaOK s -> MetaOK s2).
Proof.
  intros HI Hm. pose proof HI as HI'. unfold Inv in HI'. rewrite Hm in HI'.
  destruct HI' as (Hok & Hmda & Hinc & Hseq & Hcur & Hidx & Hlock & Hdi & Hov).
  destruct (rc_close_char s m Hm) as (s1 & E1 & Em1 & Es1 & Eo1 & Ei1 & Eov1 & Eim1 & Edb1 & El1 & Eb1 & _).
  exists s1. set (d := s_disk s) in *. set (d1 := s_disk s1) in *.
  pose proof Hok as (Hdok & Hnd & Hnq).
  assert (Hndg : NoDup (map g_id (m_segs m))) by (apply ids_increasing_NoDup; exact Hinc).
  (* every segment file of d has its in-memory segment *)
  assert (Hfg : forall f, In f (d_segs d) -> exists g, In g (m_segs m) /\ g_id g = f_id f /\ g_seq g = f_seq f /\
                  f_hdr f = true /\ f_tail f = [] /\ flen f = g_size g).
  { intros f Hf. destruct (proj2 Hmda f Hf) as (g & Hg & A1 & A2). exists g. split; [exact Hg|].
    destruct (proj1 Hmda g Hg) as (f' & Hf' & B1 & B2 & B3 & B4 & B5).
    assert (f' = f) by (apply (NoDup_map_inj f_id (d_segs d)); try assumption; congruence). subst f'. auto. }
  assert (Hsl1 : same_log d d1).
  { unfold same_log. rewrite Es1, map_map. apply map_ext. intros f. symmetry. apply rc_wmetas_core. }
  assert (Hw : forall f g, In f (d_segs d) -> In g (m_segs m) -> g_id g = f_id f -> g_seq g = f_seq f ->
               rc_wmetas (m_segs m) f = set_fmeta (GOk (g_meta g)) f).
  { intros f g Hf Hg A1 A2. apply rc_wmetas_hit; auto. }
  (* the lock file *)
  set (s0 := emit flat_ops (ECreate FLock) (clear_trace s1)).
  assert (Hd0 : d_segs (s_disk s0) = d_segs d1 /\ d_index (s_disk s0) = Some (m_idx m) /\
                d_overflow (s_disk s0) = true /\ d_imeta (s_disk s0) = GOk (m_idx m) /\
                d_dbmeta (s_disk s0) = GOk (m_seed m) /\ d_lock (s_disk s0) = true /\ d_bac (s_disk s0) = d_bac d).
  { unfold s0. cbn [emit s_disk clear_trace apply_ev set_lock d_segs d_index d_overflow d_imeta d_dbmeta d_lock d_bac].
    fold d1. rewrite Ei1, Eov1, Eim1, Edb1, Eb1. repeat split; assumption. }
  destruct Hd0 as (D1 & D2 & D3 & D4 & D5 & D6 & D7).
  assert (Hsl0 : same_log d (s_disk s0)) by (eapply same_log_trans; [exact Hsl1|apply same_log_segs; exact D1]).
  assert (Hok0 : DiskOK (s_disk s0)) by (eapply same_log_DiskOK; eassumption).
  assert (Hhdr0 : forall f, In f (d_segs (s_disk s0)) -> f_hdr f = true).
  { intros f Hf. destruct (same_log_In _ _ f (same_log_sym _ _ Hsl0) Hf) as (f0 & Hf0 & Ec).
    apply seg_core_inv in Ec. destruct Ec as (_ & _ & Eh & _). destruct (Hfg f0 Hf0) as (_ & _ & _ & _ & Hh & _). congruence. }
  destruct (rc_open_segments_spec s0 (proj1 (proj2 Hok0))) as (s3 & segs & E3 & _ & _ & _ & Es3 & Hsegs & Hincs).
  assert (Es30 : fold_left rc_hdr_step (sort_segs (d_segs (s_disk s0))) s0 = s0).
  { apply rc_hdr_fold_all_hdr. intros f Hf. apply Hhdr0.
    apply (Permutation_in _ (rc_sort_segs_perm _)). exact Hf. }
  rewrite Es30 in Es3. subst s3. clear Es30.
  (* the segments read back are the segments of the closed handle *)
  assert (Hsegs_eq : forall g, In g segs <-> In g (m_segs m)).
  { assert (Hmk : forall f0 g0, In f0 (d_segs d) -> In g0 (m_segs m) -> g_id g0 = f_id f0 -> g_seq g0 = f_seq f0 ->
                 f_hdr f0 = true -> flen f0 = g_size g0 -> rc_mkseg (rc_wmetas (m_segs m) f0) = g0).
    { intros f0 g0 Hf0 Hg0 A1 A2 A3 A4. rewrite (Hw f0 g0 Hf0 Hg0 A1 A2).
      unfold rc_mkseg, rc_hlen. cbn [set_fmeta f_id f_seq f_recs f_tail f_meta]. rewrite (rc_flen_hdr f0 A3) in A4.
      unfold rc_hlen in A4. destruct g0 as [gi gq gs gm]. cbn [g_id g_seq g_size g_meta] in *. congruence. }
    intros g. rewrite Hsegs, D1. fold d1. rewrite Es1. split.
    - intros (f & Hf & ->). apply in_map_iff in Hf. destruct Hf as (f0 & <- & Hf0).
      destruct (Hfg f0 Hf0) as (g0 & Hg0 & A1 & A2 & A3 & _ & A5).
      rewrite (Hmk f0 g0 Hf0 Hg0 A1 A2 A3 A5). exact Hg0.
    - intros Hg. destruct (proj1 Hmda g Hg) as (f0 & Hf0 & A1 & A2 & A3 & _ & A5).
      exists (rc_wmetas (m_segs m) f0). split; [apply in_map; exact Hf0|]. symmetry. apply Hmk; auto. }
  assert (Hag0 : rc_magree segs (s_disk s0)).
  { split.
    - intros g Hg. apply Hsegs_eq in Hg. destruct (proj1 Hmda g Hg) as (f0 & Hf0 & A1 & A2 & _ & _ & A5).
      destruct (same_log_In _ _ f0 Hsl0 Hf0) as (f & Hf & Ec). apply seg_core_inv in Ec.
      destruct Ec as (C1 & C2 & _ & _ & _ & C6 & _). exists f. repeat split; congruence.
    - intros f Hf. destruct (same_log_In _ _ f (same_log_sym _ _ Hsl0) Hf) as (f0 & Hf0 & Ec).
      apply seg_core_inv in Ec. destruct Ec as (C1 & C2 & _). destruct (Hfg f0 Hf0) as (g & Hg & A1 & A2 & _).
      exists g. split; [apply Hsegs_eq; exact Hg|]. split; congruence. }
  set (maxseq := fold_left (fun n g => N.max n (g_seq g)) segs 0).
  set (m0 := {| m_segs := segs; m_cur := (0, 0); m_cur_removed := true; m_maxseq := maxseq;
                m_idx := m_idx m; m_seed := seed' |}).
  destruct (rc_swap_spec s0 m0 Hag0 Hincs) as (s4 & m1 & E4 & Hcase).
  assert (Hmaxseq : forall g, In g segs -> g_seq g <= maxseq) by (apply (rc_fold_max_ge segs 0)).
  set (sd := if ix_count flat_ops (m_idx m) =? 0 then seed' else m_seed m).
  set (m2 := {| m_segs := m_segs m1; m_cur := m_cur m1; m_cur_removed := m_cur_removed m1;
                m_maxseq := m_maxseq m1; m_idx := m_idx m1; m_seed := sd |}).
  exists (with_mem m2 s4), m2.
  assert (HfindA : forall g f, In g segs -> find_dseg (g_id g) (s_disk s0) = Some f ->
            exists f0, In g (m_segs m) /\ find_dseg (g_id g) d = Some f0 /\ f_recs f = f_recs f0).
  { intros g f Hg Hfind.
    destruct (rc_rsim_find (s_disk s0) d (g_id g) f (rc_rsim_sym _ _ (rc_same_log_rsim _ _ Hsl0)) Hfind) as (f0 & Hf0 & Ec).
    exists f0. split; [apply Hsegs_eq; exact Hg|]. split; [exact Hf0|]. unfold rc_rcore in Ec. congruence. }
  (* facts about the state after swapSegment, in both cases *)
  assert (Hpost : (forall g f, In g (m_segs m1) -> find_dseg (g_id g) (s_disk s4) = Some f ->
                     (exists f0, In g (m_segs m) /\ find_dseg (g_id g) d = Some f0 /\ f_recs f = f_recs f0) \/
                     (g_meta g = smeta0 /\ f_recs f = [])) /\
                  DiskOK (s_disk s4) /\ mem_disk_agree m2 (s_disk s4) /\ ids_increasing (m_segs m1) /\
                  seq_order m2 /\ cur_ok m2 /\ m_idx m1 = m_idx m /\
                  (forall i off, rec_of (s_disk s4) i off = rec_of d i off) /\ olog (s_disk s4) = olog d /\
                  d_lock (s_disk s4) = true /\ d_index (s_disk s4) = Some (m_idx m) /\ d_overflow (s_disk s4) = true /\
                  d_dbmeta (s_disk s4) = GOk (m_seed m) /\ d_bac (s_disk s4) = d_bac d /\
                  (forall g, In g (m_segs m) -> In g (m_segs m1))).
  { destruct Hcase as [(g & Hg & Hnf & -> & ->)|(Hfull & Em1' & Ed4 & Erest4 & Emem4 & Hfresh)].
    - cbn [set_cur m_segs m_cur m_cur_removed m_maxseq m_idx m0 fst snd].
      split; [intros x f Hx Hfind; left; apply (HfindA x f Hx Hfind)|].
      split; [exact Hok0|]. split.
      { unfold m2. split; cbn [m_segs set_cur m0].
        - intros x Hx. apply Hsegs_eq in Hx. destruct (proj1 Hmda x Hx) as (f0 & Hf0 & A1 & A2 & A3 & A4 & A5).
          destruct (same_log_In _ _ f0 Hsl0 Hf0) as (f & Hf & Ec). apply seg_core_inv in Ec.
          destruct Ec as (C1 & C2 & C3 & _ & C5 & C6 & _). exists f. repeat split; congruence.
        - intros f Hf. destruct (proj2 Hag0 f Hf) as (x & Hx & A). exists x. auto. }
      split; [exact Hincs|]. split.
      { unfold m2, seq_order. cbn [m_segs m_maxseq set_cur m0]. split; [exact Hmaxseq|].
        intros x x' Hx Hx' Hn. apply Hsegs_eq in Hx. apply Hsegs_eq in Hx'. apply (proj2 Hseq); assumption. }
      split.
      { unfold m2, cur_ok. cbn [m_segs m_cur m_cur_removed set_cur m0 fst snd]. intros _. exists g. auto. }
      split; [reflexivity|]. split.
      { intros i off. apply same_log_rec_of. exact Hsl0. }
      split; [apply same_log_olog; exact Hsl0|]. repeat (split; [assumption|]).
      intros x Hx. apply Hsegs_eq. exact Hx.
    - cbv zeta in Em1', Ed4, Hfresh. cbn [m0 m_segs m_maxseq] in Em1', Ed4, Hfresh, Hfull.
      destruct (rc_create_spec (s_disk s0) (s_disk s4) segs maxseq (lowest_free 0 segs) (maxseq + 1)
                  Hok0 Hag0 Hincs Hmaxseq eq_refl Hfresh Ed4) as (K1 & K2 & K3 & K4 & K5).
      destruct Erest4 as (R1 & R2 & R3 & R4 & R5 & R6 & R7).
      rewrite Em1'. cbn [set_cur set_maxseq set_msegs m_segs m_cur m_cur_removed m_maxseq m_idx m0 fst snd].
      split.
      { intros x f Hx Hfind. unfold find_dseg in Hfind. rewrite Ed4, rc_find_app in Hfind.
        fold (find_dseg (g_id x) (s_disk s0)) in Hfind.
        apply insert_mseg_In in Hx. destruct Hx as [->|Hx].
        - right. split; [reflexivity|].
          destruct (find_dseg (g_id (rc_newg (lowest_free 0 segs) (maxseq + 1))) (s_disk s0)) as [fx|] eqn:Ex.
          + exfalso. apply find_dseg_In in Ex. destruct Ex as [Hfx Eid]. cbn [rc_newg g_id] in Eid.
            destruct (proj2 Hag0 fx Hfx) as (gx & Hgx & A1 & _). apply (Hfresh gx Hgx). congruence.
          + cbn [find rc_newf f_id] in Hfind. rewrite N.eqb_refl in Hfind. inversion Hfind. reflexivity.
        - left. destruct (find_dseg (g_id x) (s_disk s0)) as [fx|] eqn:Ex.
          + inversion Hfind; subst fx. apply (HfindA x f Hx Ex).
          + exfalso. destruct (proj1 Hag0 x Hx) as (fx & Hfx & A1 & _).
            apply (proj1 (find_dseg_None _ _) Ex fx Hfx). exact A1. }
      split; [exact K1|]. split.
      { unfold m2. rewrite Em1'. split; cbn [m_segs set_cur set_maxseq set_msegs m0].
        - intros x Hx. apply insert_mseg_In in Hx. destruct Hx as [->|Hx].
          + exists (rc_newf (lowest_free 0 segs) (maxseq + 1)).
            split; [rewrite Ed4; apply in_or_app; right; left; reflexivity|].
            unfold flen, rc_newf, rc_newg. cbn [f_id f_seq f_hdr f_recs f_tail g_id g_seq g_size nlen].
            rewrite recs_len_nil. repeat split.
          + apply Hsegs_eq in Hx. destruct (proj1 Hmda x Hx) as (f0 & Hf0 & A1 & A2 & A3 & A4 & A5).
            destruct (same_log_In _ _ f0 Hsl0 Hf0) as (f & Hf & Ec). apply seg_core_inv in Ec.
            destruct Ec as (C1 & C2 & C3 & _ & C5 & C6 & _). exists f.
            split; [rewrite Ed4; apply in_or_app; left; exact Hf|]. repeat split; congruence.
        - intros f Hf. destruct (proj2 K2 f Hf) as (x & Hx & A). exists x. auto. }
      split; [exact K3|]. split.
      { unfold m2, seq_order. rewrite Em1'. cbn [m_segs m_maxseq set_cur set_maxseq set_msegs m0]. split.
        - intros x Hx. apply insert_mseg_In in Hx. destruct Hx as [->|Hx]; [cbn [rc_newg g_seq]; lia|].
          pose proof (Hmaxseq x Hx). lia.
        - intros x x' Hx Hx' Hn. apply insert_mseg_In in Hx. destruct Hx as [->|Hx]; [|rewrite (Hfull x Hx) in Hn; discriminate].
          apply insert_mseg_In in Hx'. destruct Hx' as [->|Hx']; [lia|]. pose proof (Hmaxseq x' Hx'). cbn [rc_newg g_seq]. lia. }
      split.
      { unfold m2, cur_ok. rewrite Em1'. cbn [m_segs m_cur m_cur_removed set_cur set_maxseq set_msegs m0 fst snd].
        intros _. exists (rc_newg (lowest_free 0 segs) (maxseq + 1)).
        split; [apply insert_mseg_In; left; reflexivity|split; reflexivity]. }
      split; [reflexivity|]. split.
      { intros i off. rewrite K5. apply same_log_rec_of. exact Hsl0. }
      split; [rewrite K4; apply same_log_olog; exact Hsl0|].
      rewrite R6, R2, R3, R5, R7. repeat (split; [assumption|]).
      intros x Hx. apply insert_mseg_In. right. apply Hsegs_eq. exact Hx. }
  destruct Hpost as (T0 & T1 & T2 & T3 & T4 & T5 & T6 & T7 & T8 & T9 & T10 & T11 & T12 & T13 & T14).
  split; [exact E1|]. split.
  { unfold db_open. rewrite rc_mem_clear, Em1. rewrite rc_disk_clear. fold d1. rewrite El1. cbv beta iota.
    fold s0. rewrite (rc_open_index_existing s0 (m_idx m) (m_idx m) D2 D3 D4), E3. cbv zeta. fold maxseq. fold m0.
    rewrite E4.
    destruct (ix_count flat_ops (m_idx m) =? 0) eqn:Ec.
    - unfold m2, sd. try rewrite Ec. reflexivity.
    - rewrite T12. unfold m2, sd. try rewrite Ec. reflexivity. }
  split.
  { unfold Inv. cbn [with_mem s_mem s_disk]. split; [exact T1|]. split; [exact T2|].
    split; [exact T3|]. split; [exact T4|]. split; [exact T5|]. split.
    - apply (rc_index_agrees_transfer P m m2 d (s_disk s4) T7 T8); [exact T6| |exact Hidx].
      unfold m2, sd. cbn [m_seed]. destruct (ix_count flat_ops (m_idx m) =? 0) eqn:Ec; [right|left; reflexivity].
      cbn [ix_count flat_ops] in Ec. apply N.eqb_eq in Ec. apply nlen_nil_iff. exact Ec.
    - split; [exact T9|]. split; [|exact T11]. unfold m2. cbn [m_idx]. rewrite T6. exact T10. }
  split; [reflexivity|]. split; [exact T8|]. split; [apply same_log_olog; exact Hsl1|].
  split; [exact T6|]. split; [exact T14|]. split; [reflexivity|]. split; [fold d1; congruence|].
  split; [exact Eim1|]. split; [|split; [exact T13|]].
  { intros f1 Hf1. fold d1 in Hf1. rewrite Es1 in Hf1. apply in_map_iff in Hf1. destruct Hf1 as (f0 & <- & Hf0).
    destruct (Hfg f0 Hf0) as (g & Hg & A1 & A2 & _). exists g. split; [exact Hg|].
    rewrite (Hw f0 g Hf0 Hg A1 A2). cbn [set_fmeta f_id f_seq f_meta]. auto. }
  intros HM. unfold MetaOK in HM. rewrite Hm in HM. unfold MetaOK. cbn [with_mem s_mem s_disk].
  intros g f Hg Hfind. destruct (T0 g f Hg Hfind) as [(f0 & Hgm & Hf0 & Er)|(Emt & Er)].
  - rewrite Er. exact (HM g f0 Hgm Hf0).
  - rewrite Emt, Er. reflexivity.
Qed.

End Reopen.

Section ReopenTheorems.
Variable P : params.

Theorem close_reopen_ok seed' (s : st) (m : mem) :
  params_ok P -> Inv P s -> s_mem s = Some m -> MetaOK s ->
  let '(s1, _) := db_close flat_ops s in
  let '(s2, o) := db_open flat_ops P seed' (clear_trace s1) in
  o = OOpened false /\ Inv P s2 /\
  (forall k, sget (abs (s_disk s2)) k = sget (abs (s_disk s)) k) /\
  (exists m2, s_mem s2 = Some m2 /\ m_idx m2 = m_idx m /\
             (forall g, In g (m_segs m) -> In g (m_segs m2)) /\
             m_seed m2 = (if ix_count flat_ops (m_idx m) =? 0 then seed' else m_seed m)) /\
  (* the side files are read back exactly; a segment created by swapSegment has counter 0, no records *)
  MetaOK s2.
Proof.
  intros _ HI Hm HM.
  destruct (close_reopen_master P seed' s m HI Hm)
    as (s1 & s2 & m2 & E1 & E2 & HI2 & Hm2 & Hlog2 & _ & Hidx & Hsegs & Hseed & _ & _ & _ & _ & HM2).
  rewrite E1, E2. split; [reflexivity|]. split; [exact HI2|].
  split; [intros k; unfold abs; rewrite Hlog2; reflexivity|].
  split; [exists m2; auto|]. apply HM2. exact HM.
Qed.

(* the same without the metadata invariant (statement as before D13/MetaOK) *)
Theorem close_reopen_ok_nometa seed' (s : st) (m : mem) :
  params_ok P -> Inv P s -> s_mem s = Some m ->
  let '(s1, _) := db_close flat_ops s in
  let '(s2, o) := db_open flat_ops P seed' (clear_trace s1) in
  o = OOpened false /\ Inv P s2 /\
  (forall k, sget (abs (s_disk s2)) k = sget (abs (s_disk s)) k) /\
  exists m2, s_mem s2 = Some m2 /\ m_idx m2 = m_idx m /\
             (forall g, In g (m_segs m) -> In g (m_segs m2)) /\
             m_seed m2 = (if ix_count flat_ops (m_idx m) =? 0 then seed' else m_seed m).
Proof.
  intros _ HI Hm.
  destruct (close_reopen_master P seed' s m HI Hm)
    as (s1 & s2 & m2 & E1 & E2 & HI2 & Hm2 & Hlog2 & _ & Hidx & Hsegs & Hseed & _).
  rewrite E1, E2. split; [reflexivity|]. split; [exact HI2|].
  split; [intros k; unfold abs; rewrite Hlog2; reflexivity|].
  exists m2. auto.
Qed.

(* Open followed by Close without writes changes nothing that matters *)
Theorem reopen_close_same_log seed' (s : st) (m : mem) :
  params_ok P -> Inv P s -> s_mem s = Some m ->
  let '(s1, _) := db_close flat_ops s in
  let '(s2, _) := db_open flat_ops P seed' (clear_trace s1) in
  let '(s3, o3) := db_close flat_ops s2 in
  o3 = OOk /\ DiskOK (s_disk s3) /\ d_lock (s_disk s3) = false /\
  olog (s_disk s3) = olog (s_disk s1) /\ d_index (s_disk s3) = d_index (s_disk s1) /\
  d_imeta (s_disk s3) = d_imeta (s_disk s1) /\
  (forall f1, In f1 (d_segs (s_disk s1)) ->
     exists f3, In f3 (d_segs (s_disk s3)) /\ f_id f3 = f_id f1 /\ f_seq f3 = f_seq f1 /\ f_meta f3 = f_meta f1).
Proof.
  intros _ HI Hm.
  destruct (close_reopen_master P seed' s m HI Hm)
    as (s1 & s2 & m2 & E1 & E2 & HI2 & Hm2 & Hlog2 & Hlog1 & Hidx & Hsegs & Hseed & Hdi1 & Him1 & Hf1 & _).
  rewrite E1, E2. pose proof (close_ok P s2 m2 HI2 Hm2) as Hc.
  destruct (db_close flat_ops s2) as [s3 o3].
  destruct Hc as (Ho & _ & Hok3 & Hlog3 & Hl3 & Hdi3 & _ & Him3 & _ & Hmeta3 & _).
  split; [exact Ho|]. split; [exact Hok3|]. split; [exact Hl3|].
  split; [congruence|]. split; [congruence|]. split; [congruence|].
  intros f1 Hin. destruct (Hf1 f1 Hin) as (g & Hg & A1 & A2 & A3).
  destruct (Hmeta3 g (Hsegs g Hg)) as (f3 & Hf3 & B1 & B2 & B3).
  exists f3. split; [exact Hf3|]. repeat split; congruence.
Qed.

(* ---- d_bac holds FBac names only: preserved by Close and by both kinds of Open ---- *)
Theorem close_bac_ok (s : st) m : s_mem s = Some m -> bac_ok (s_disk s) ->
  bac_ok (s_disk (fst (db_close flat_ops s))).
Proof.
  intros Hm Hb. destruct (rc_close_char s m Hm) as (s' & E & _ & _ & _ & _ & _ & _ & _ & _ & Eb & _).
  rewrite E. cbn [fst]. unfold bac_ok. rewrite Eb. exact Hb.
Qed.

Theorem close_reopen_bac seed' (s : st) (m : mem) :
  Inv P s -> s_mem s = Some m ->
  let '(s1, _) := db_close flat_ops s in
  let '(s2, _) := db_open flat_ops P seed' (clear_trace s1) in
  d_bac (s_disk s2) = d_bac (s_disk s).
Proof.
  intros HI Hm.
  destruct (close_reopen_master P seed' s m HI Hm) as (s1 & s2 & m2 & E1 & E2 & H).
  rewrite E1, E2. apply H.
Qed.

End ReopenTheorems.

(* ================================================================================================ *)
(* O. Refutation of the PINNED behaviour of openSegment (defect D12).
      The pinned code skipped the side file of a segment whose size is header_size, so a segment that
      was sealed while empty came back writable after a rc_clean reopen, although a segment with a larger
      sequence id held records.  [open_segments_pinned] / [db_open_pinned] are the old model.          *)
Definition open_segments_pinned (s : st) : st * list mseg :=
  fold_left (fun (acc : st * list mseg) (f : dseg) =>
    let '(s, l) := acc in
    let s1 := if f_hdr f then s else emit flat_ops (EHeader (FSeg (f_id f) (f_seq f))) s in
    let size := match find_dseg (f_id f) (s_disk s1) with Some f' => flen f' | None => 0 end in
    let meta := if size =? header_size then smeta0
                else match f_meta f with GOk m => m | _ => smeta0 end in
    (s1, insert_mseg {| g_id := f_id f; g_seq := f_seq f; g_size := size; g_meta := meta |} l))
  (sort_segs (d_segs (s_disk s))) (s, []).

Definition db_open_pinned (P : params) (seed : N) (s : st) : st * out :=
  match s_mem s with
  | Some _ => (s, OErr ELocked)
  | None =>
    let existing := d_lock (s_disk s) in
    let s0 := if existing then s else emit flat_ops (ECreate FLock) s in
    let s1 := if existing then backup_nonseg flat_ops s0 else s0 in
    match open_index flat_ops s1 with
    | None => (s1, OErr EOpenFailed)
    | Some (s2, i) =>
      let '(s3, segs) := open_segments_pinned s2 in
      let maxseq := fold_left (fun n g => N.max n (g_seq g)) segs 0 in
      let m0 := {| m_segs := segs; m_cur := (0, 0); m_cur_removed := true; m_maxseq := maxseq;
                   m_idx := i; m_seed := seed |} in
      let '(s4, m1) := swap_segment flat_ops s3 m0 in
      let seed_ok :=
        if ix_count flat_ops i =? 0 then Some seed
        else match d_dbmeta (s_disk s4) with GOk sd => Some sd | _ => None end in
      match seed_ok with
      | None => (s4, OErr EOpenFailed)
      | Some sd =>
        let m2 := {| m_segs := m_segs m1; m_cur := m_cur m1; m_cur_removed := m_cur_removed m1;
                     m_maxseq := m_maxseq m1; m_idx := m_idx m1; m_seed := sd |} in
        if existing
        then let '(s5, m3) := recover flat_ops P s4 m2 in (with_mem m3 s5, OOpened true)
        else (with_mem m2 s4, OOpened false)
      end
    end
  end.

Definition rc_seq_order_b (m : mem) : bool :=
  forallb (fun g => g_seq g <=? m_maxseq m) (m_segs m) &&
  forallb2 (fun g g' => sm_full (g_meta g) || (g_seq g' <=? g_seq g)) (m_segs m).

Lemma rc_seq_order_b_complete (m : mem) : seq_order m -> rc_seq_order_b m = true.
Proof.
  intros [H1 H2]. unfold rc_seq_order_b, forallb2. apply andb_true_iff. split.
  - apply forallb_forall. intros g Hg. apply N.leb_le. apply H1. exact Hg.
  - apply forallb_forall. intros g Hg. apply forallb_forall. intros g' Hg'.
    destruct (sm_full (g_meta g)) eqn:E; [reflexivity|]. apply N.leb_le. apply H2; assumption.
Qed.

(* the scenario: maxSegmentSize = 1024 (as in the test-suite of the repository) *)
Definition rf_P : params :=
  {| p_maxseg := 1024; p_minseg := 1024; p_frag := fun _ _ => false; p_sync := false;
     p_grow := fun _ _ => false; p_hash := fun _ _ => 0 |}.
Definition rf_key : key := [107].
Definition rf_big : val := repeat 65 600%nat.
Definition rf_new : val := [110; 101; 119].

Definition rf_s0 : st := {| s_mem := None; s_disk := disk0; s_trace := [] |}.
Definition rf_s1 : st := fst (db_open flat_ops rf_P 7 rf_s0).               (* fresh database: 00000-1 *)
Definition rf_s2 : st := fst (db_put flat_ops rf_P rf_key rf_big rf_s1).    (* seals the EMPTY 00000-1, writes to 00001-2 *)
Definition rf_s3 : st := clear_trace (fst (db_close flat_ops rf_s2)).
Definition rf_s4 : st := fst (db_open_pinned rf_P 9 rf_s3).                 (* rc_clean reopen, pinned code *)
Definition rf_s5 : st := fst (db_put flat_ops rf_P rf_key rf_new rf_s4).    (* lands in 00000-1 (sequence id 1) *)
Definition rf_crash (s : st) : st := {| s_mem := None; s_disk := s_disk s; s_trace := [] |}.
Definition rf_s6 : st := fst (db_open_pinned rf_P 11 (rf_crash rf_s5)).     (* recovery *)
(* the same run with the corrected open *)
Definition rf_t4 : st := fst (db_open flat_ops rf_P 9 rf_s3).
Definition rf_t5 : st := fst (db_put flat_ops rf_P rf_key rf_new rf_t4).
Definition rf_t6 : st := fst (db_open flat_ops rf_P 11 (rf_crash rf_t5)).

Theorem sealed_empty_refuted :
  (* the state before Close satisfies the (tested) invariant; the first segment is sealed and empty *)
  inv_b rf_P rf_s2 = true /\
  (exists m, s_mem rf_s2 = Some m /\
     map (fun g => (g_id g, g_seq g, g_size g, sm_full (g_meta g))) (m_segs m) = [(0, 1, 512, true); (1, 2, 1123, false)]) /\
  (* after Close and the pinned rc_clean Open the invariant is broken: seq_order fails *)
  ~ Inv rf_P rf_s4 /\ inv_b rf_P rf_s4 = false /\
  (* consequence: an acknowledged Put is lost by the next crash recovery *)
  db_get flat_ops rf_P rf_key rf_s5 = OVal (Some rf_new) /\
  db_get flat_ops rf_P rf_key rf_s6 = OVal (Some rf_big) /\
  (* with the corrected open_segments the same run is fine *)
  inv_b rf_P rf_t4 = true /\ db_get flat_ops rf_P rf_key rf_t6 = OVal (Some rf_new).
Proof.
  split; [vm_compute; reflexivity|]. split; [eexists; split; vm_compute; reflexivity|].
  split.
  { unfold Inv. destruct (s_mem rf_s4) as [m4|] eqn:E; [|vm_compute in E; discriminate].
    intros (_ & _ & _ & Hs & _). apply rc_seq_order_b_complete in Hs.
    assert (Hb : match s_mem rf_s4 with Some m => rc_seq_order_b m | None => true end = false) by (vm_compute; reflexivity).
    rewrite E in Hb. congruence. }
  split; [vm_compute; reflexivity|]. split; [vm_compute; reflexivity|]. split; [vm_compute; reflexivity|].
  split; vm_compute; reflexivity.
Qed.

(* ================================================================================================ *)
Print Assumptions close_ok.
Print Assumptions open_recover_ok.
Print Assumptions recover_idempotent.
Print Assumptions close_reopen_ok.
Print Assumptions close_reopen_ok_nometa.
Print Assumptions reopen_close_same_log.
Print Assumptions apply_ev_bac_ok.
Print Assumptions sealed_empty_refuted.
