(* Spec.v -- the specification: a plain finite map from keys to values. *)
From Pogreb Require Import Base.

Definition smap := list (key * val).

Fixpoint sget (m : smap) (k : key) : option val :=
  match m with
  | [] => None
  | (k', v) :: m' => if key_eqb k k' then Some v else sget m' k
  end.

Fixpoint sdel (m : smap) (k : key) : smap :=
  match m with
  | [] => []
  | (k', v) :: m' => if key_eqb k k' then sdel m' k else (k', v) :: sdel m' k
  end.

Definition sput (m : smap) (k : key) (v : val) : smap := (k, v) :: sdel m k.

Definition shas (m : smap) (k : key) : bool := match sget m k with Some _ => true | None => false end.
Definition scount (m : smap) : N := nlen m.
