
(** val negb : bool -> bool **)

let negb = function
| true -> false
| false -> true

type nat =
| O
| S of nat

(** val option_map : ('a1 -> 'a2) -> 'a1 option -> 'a2 option **)

let option_map f = function
| Some a -> Some (f a)
| None -> None

(** val fst : ('a1 * 'a2) -> 'a1 **)

let fst = function
| (x, _) -> x

(** val snd : ('a1 * 'a2) -> 'a2 **)

let snd = function
| (_, y) -> y

(** val length : 'a1 list -> nat **)

let rec length = function
| [] -> O
| _ :: l' -> S (length l')

(** val app : 'a1 list -> 'a1 list -> 'a1 list **)

let rec app l m =
  match l with
  | [] -> m
  | a :: l1 -> a :: (app l1 m)

type comparison =
| Eq
| Lt
| Gt

module Coq__1 = struct
 (** val add : nat -> nat -> nat **)
 let rec add n0 m =
   match n0 with
   | O -> m
   | S p -> S (add p m)
end
include Coq__1

(** val mul : nat -> nat -> nat **)

let rec mul n0 m =
  match n0 with
  | O -> O
  | S p -> add m (mul p m)

(** val sub : nat -> nat -> nat **)

let rec sub n0 m =
  match n0 with
  | O -> n0
  | S k -> (match m with
            | O -> n0
            | S l -> sub k l)

type positive =
| XI of positive
| XO of positive
| XH

type n =
| N0
| Npos of positive

module Nat =
 struct
  (** val leb : nat -> nat -> bool **)

  let rec leb n0 m =
    match n0 with
    | O -> true
    | S n' -> (match m with
               | O -> false
               | S m' -> leb n' m')

  (** val ltb : nat -> nat -> bool **)

  let ltb n0 m =
    leb (S n0) m
 end

module Pos =
 struct
  type mask =
  | IsNul
  | IsPos of positive
  | IsNeg
 end

module Coq_Pos =
 struct
  (** val succ : positive -> positive **)

  let rec succ = function
  | XI p -> XO (succ p)
  | XO p -> XI p
  | XH -> XO XH

  (** val add : positive -> positive -> positive **)

  let rec add x y =
    match x with
    | XI p ->
      (match y with
       | XI q -> XO (add_carry p q)
       | XO q -> XI (add p q)
       | XH -> XO (succ p))
    | XO p ->
      (match y with
       | XI q -> XI (add p q)
       | XO q -> XO (add p q)
       | XH -> XI p)
    | XH -> (match y with
             | XI q -> XO (succ q)
             | XO q -> XI q
             | XH -> XO XH)

  (** val add_carry : positive -> positive -> positive **)

  and add_carry x y =
    match x with
    | XI p ->
      (match y with
       | XI q -> XI (add_carry p q)
       | XO q -> XO (add_carry p q)
       | XH -> XI (succ p))
    | XO p ->
      (match y with
       | XI q -> XO (add_carry p q)
       | XO q -> XI (add p q)
       | XH -> XO (succ p))
    | XH ->
      (match y with
       | XI q -> XI (succ q)
       | XO q -> XO (succ q)
       | XH -> XI XH)

  (** val pred_double : positive -> positive **)

  let rec pred_double = function
  | XI p -> XI (XO p)
  | XO p -> XI (pred_double p)
  | XH -> XH

  (** val pred : positive -> positive **)

  let pred = function
  | XI p -> XO p
  | XO p -> pred_double p
  | XH -> XH

  (** val pred_N : positive -> n **)

  let pred_N = function
  | XI p -> Npos (XO p)
  | XO p -> Npos (pred_double p)
  | XH -> N0

  type mask = Pos.mask =
  | IsNul
  | IsPos of positive
  | IsNeg

  (** val succ_double_mask : mask -> mask **)

  let succ_double_mask = function
  | IsNul -> IsPos XH
  | IsPos p -> IsPos (XI p)
  | IsNeg -> IsNeg

  (** val double_mask : mask -> mask **)

  let double_mask = function
  | IsPos p -> IsPos (XO p)
  | x0 -> x0

  (** val double_pred_mask : positive -> mask **)

  let double_pred_mask = function
  | XI p -> IsPos (XO (XO p))
  | XO p -> IsPos (XO (pred_double p))
  | XH -> IsNul

  (** val sub_mask : positive -> positive -> mask **)

  let rec sub_mask x y =
    match x with
    | XI p ->
      (match y with
       | XI q -> double_mask (sub_mask p q)
       | XO q -> succ_double_mask (sub_mask p q)
       | XH -> IsPos (XO p))
    | XO p ->
      (match y with
       | XI q -> succ_double_mask (sub_mask_carry p q)
       | XO q -> double_mask (sub_mask p q)
       | XH -> IsPos (pred_double p))
    | XH -> (match y with
             | XH -> IsNul
             | _ -> IsNeg)

  (** val sub_mask_carry : positive -> positive -> mask **)

  and sub_mask_carry x y =
    match x with
    | XI p ->
      (match y with
       | XI q -> succ_double_mask (sub_mask_carry p q)
       | XO q -> double_mask (sub_mask p q)
       | XH -> IsPos (pred_double p))
    | XO p ->
      (match y with
       | XI q -> double_mask (sub_mask_carry p q)
       | XO q -> succ_double_mask (sub_mask_carry p q)
       | XH -> double_pred_mask p)
    | XH -> IsNeg

  (** val mul : positive -> positive -> positive **)

  let rec mul x y =
    match x with
    | XI p -> add y (XO (mul p y))
    | XO p -> XO (mul p y)
    | XH -> y

  (** val iter : ('a1 -> 'a1) -> 'a1 -> positive -> 'a1 **)

  let rec iter f x = function
  | XI n' -> f (iter f (iter f x n') n')
  | XO n' -> iter f (iter f x n') n'
  | XH -> f x

  (** val pow : positive -> positive -> positive **)

  let pow x =
    iter (mul x) XH

  (** val compare_cont : comparison -> positive -> positive -> comparison **)

  let rec compare_cont r x y =
    match x with
    | XI p ->
      (match y with
       | XI q -> compare_cont r p q
       | XO q -> compare_cont Gt p q
       | XH -> Gt)
    | XO p ->
      (match y with
       | XI q -> compare_cont Lt p q
       | XO q -> compare_cont r p q
       | XH -> Gt)
    | XH -> (match y with
             | XH -> r
             | _ -> Lt)

  (** val compare : positive -> positive -> comparison **)

  let compare =
    compare_cont Eq

  (** val eqb : positive -> positive -> bool **)

  let rec eqb p q =
    match p with
    | XI p0 -> (match q with
                | XI q0 -> eqb p0 q0
                | _ -> false)
    | XO p0 -> (match q with
                | XO q0 -> eqb p0 q0
                | _ -> false)
    | XH -> (match q with
             | XH -> true
             | _ -> false)

  (** val coq_Nsucc_double : n -> n **)

  let coq_Nsucc_double = function
  | N0 -> Npos XH
  | Npos p -> Npos (XI p)

  (** val coq_Ndouble : n -> n **)

  let coq_Ndouble = function
  | N0 -> N0
  | Npos p -> Npos (XO p)

  (** val coq_lor : positive -> positive -> positive **)

  let rec coq_lor p q =
    match p with
    | XI p0 ->
      (match q with
       | XI q0 -> XI (coq_lor p0 q0)
       | XO q0 -> XI (coq_lor p0 q0)
       | XH -> p)
    | XO p0 ->
      (match q with
       | XI q0 -> XI (coq_lor p0 q0)
       | XO q0 -> XO (coq_lor p0 q0)
       | XH -> XI p0)
    | XH -> (match q with
             | XO q0 -> XI q0
             | _ -> q)

  (** val coq_land : positive -> positive -> n **)

  let rec coq_land p q =
    match p with
    | XI p0 ->
      (match q with
       | XI q0 -> coq_Nsucc_double (coq_land p0 q0)
       | XO q0 -> coq_Ndouble (coq_land p0 q0)
       | XH -> Npos XH)
    | XO p0 ->
      (match q with
       | XI q0 -> coq_Ndouble (coq_land p0 q0)
       | XO q0 -> coq_Ndouble (coq_land p0 q0)
       | XH -> N0)
    | XH -> (match q with
             | XO _ -> N0
             | _ -> Npos XH)

  (** val coq_lxor : positive -> positive -> n **)

  let rec coq_lxor p q =
    match p with
    | XI p0 ->
      (match q with
       | XI q0 -> coq_Ndouble (coq_lxor p0 q0)
       | XO q0 -> coq_Nsucc_double (coq_lxor p0 q0)
       | XH -> Npos (XO p0))
    | XO p0 ->
      (match q with
       | XI q0 -> coq_Nsucc_double (coq_lxor p0 q0)
       | XO q0 -> coq_Ndouble (coq_lxor p0 q0)
       | XH -> Npos (XI p0))
    | XH ->
      (match q with
       | XI q0 -> Npos (XO q0)
       | XO q0 -> Npos (XI q0)
       | XH -> N0)

  (** val shiftl : positive -> n -> positive **)

  let shiftl p = function
  | N0 -> p
  | Npos n1 -> iter (fun x -> XO x) p n1

  (** val iter_op : ('a1 -> 'a1 -> 'a1) -> positive -> 'a1 -> 'a1 **)

  let rec iter_op op p a =
    match p with
    | XI p0 -> op a (iter_op op p0 (op a a))
    | XO p0 -> iter_op op p0 (op a a)
    | XH -> a

  (** val to_nat : positive -> nat **)

  let to_nat x =
    iter_op Coq__1.add x (S O)

  (** val eq_dec : positive -> positive -> bool **)

  let rec eq_dec p x0 =
    match p with
    | XI p0 -> (match x0 with
                | XI p1 -> eq_dec p0 p1
                | _ -> false)
    | XO p0 -> (match x0 with
                | XO p1 -> eq_dec p0 p1
                | _ -> false)
    | XH -> (match x0 with
             | XH -> true
             | _ -> false)
 end

module N =
 struct
  (** val succ_double : n -> n **)

  let succ_double = function
  | N0 -> Npos XH
  | Npos p -> Npos (XI p)

  (** val double : n -> n **)

  let double = function
  | N0 -> N0
  | Npos p -> Npos (XO p)

  (** val succ : n -> n **)

  let succ = function
  | N0 -> Npos XH
  | Npos p -> Npos (Coq_Pos.succ p)

  (** val pred : n -> n **)

  let pred = function
  | N0 -> N0
  | Npos p -> Coq_Pos.pred_N p

  (** val add : n -> n -> n **)

  let add n0 m =
    match n0 with
    | N0 -> m
    | Npos p -> (match m with
                 | N0 -> n0
                 | Npos q -> Npos (Coq_Pos.add p q))

  (** val sub : n -> n -> n **)

  let sub n0 m =
    match n0 with
    | N0 -> N0
    | Npos n' ->
      (match m with
       | N0 -> n0
       | Npos m' ->
         (match Coq_Pos.sub_mask n' m' with
          | Coq_Pos.IsPos p -> Npos p
          | _ -> N0))

  (** val mul : n -> n -> n **)

  let mul n0 m =
    match n0 with
    | N0 -> N0
    | Npos p -> (match m with
                 | N0 -> N0
                 | Npos q -> Npos (Coq_Pos.mul p q))

  (** val compare : n -> n -> comparison **)

  let compare n0 m =
    match n0 with
    | N0 -> (match m with
             | N0 -> Eq
             | Npos _ -> Lt)
    | Npos n' -> (match m with
                  | N0 -> Gt
                  | Npos m' -> Coq_Pos.compare n' m')

  (** val eqb : n -> n -> bool **)

  let eqb n0 m =
    match n0 with
    | N0 -> (match m with
             | N0 -> true
             | Npos _ -> false)
    | Npos p -> (match m with
                 | N0 -> false
                 | Npos q -> Coq_Pos.eqb p q)

  (** val leb : n -> n -> bool **)

  let leb x y =
    match compare x y with
    | Gt -> false
    | _ -> true

  (** val ltb : n -> n -> bool **)

  let ltb x y =
    match compare x y with
    | Lt -> true
    | _ -> false

  (** val max : n -> n -> n **)

  let max n0 n' =
    match compare n0 n' with
    | Gt -> n0
    | _ -> n'

  (** val div2 : n -> n **)

  let div2 = function
  | N0 -> N0
  | Npos p0 -> (match p0 with
                | XI p -> Npos p
                | XO p -> Npos p
                | XH -> N0)

  (** val even : n -> bool **)

  let even = function
  | N0 -> true
  | Npos p -> (match p with
               | XO _ -> true
               | _ -> false)

  (** val odd : n -> bool **)

  let odd n0 =
    negb (even n0)

  (** val pow : n -> n -> n **)

  let pow n0 = function
  | N0 -> Npos XH
  | Npos p0 -> (match n0 with
                | N0 -> N0
                | Npos q -> Npos (Coq_Pos.pow q p0))

  (** val pos_div_eucl : positive -> n -> n * n **)

  let rec pos_div_eucl a b =
    match a with
    | XI a' ->
      let (q, r) = pos_div_eucl a' b in
      let r' = succ_double r in
      if leb b r' then ((succ_double q), (sub r' b)) else ((double q), r')
    | XO a' ->
      let (q, r) = pos_div_eucl a' b in
      let r' = double r in
      if leb b r' then ((succ_double q), (sub r' b)) else ((double q), r')
    | XH ->
      (match b with
       | N0 -> (N0, (Npos XH))
       | Npos p -> (match p with
                    | XH -> ((Npos XH), N0)
                    | _ -> (N0, (Npos XH))))

  (** val div_eucl : n -> n -> n * n **)

  let div_eucl a b =
    match a with
    | N0 -> (N0, N0)
    | Npos na -> (match b with
                  | N0 -> (N0, a)
                  | Npos _ -> pos_div_eucl na b)

  (** val div : n -> n -> n **)

  let div a b =
    fst (div_eucl a b)

  (** val modulo : n -> n -> n **)

  let modulo a b =
    snd (div_eucl a b)

  (** val coq_lor : n -> n -> n **)

  let coq_lor n0 m =
    match n0 with
    | N0 -> m
    | Npos p -> (match m with
                 | N0 -> n0
                 | Npos q -> Npos (Coq_Pos.coq_lor p q))

  (** val coq_land : n -> n -> n **)

  let coq_land n0 m =
    match n0 with
    | N0 -> N0
    | Npos p -> (match m with
                 | N0 -> N0
                 | Npos q -> Coq_Pos.coq_land p q)

  (** val coq_lxor : n -> n -> n **)

  let coq_lxor n0 m =
    match n0 with
    | N0 -> m
    | Npos p -> (match m with
                 | N0 -> n0
                 | Npos q -> Coq_Pos.coq_lxor p q)

  (** val shiftl : n -> n -> n **)

  let shiftl a n0 =
    match a with
    | N0 -> N0
    | Npos a0 -> Npos (Coq_Pos.shiftl a0 n0)

  (** val shiftr : n -> n -> n **)

  let shiftr a = function
  | N0 -> a
  | Npos p -> Coq_Pos.iter div2 a p

  (** val to_nat : n -> nat **)

  let to_nat = function
  | N0 -> O
  | Npos p -> Coq_Pos.to_nat p

  (** val eq_dec : n -> n -> bool **)

  let eq_dec n0 m =
    match n0 with
    | N0 -> (match m with
             | N0 -> true
             | Npos _ -> false)
    | Npos p -> (match m with
                 | N0 -> false
                 | Npos p0 -> Coq_Pos.eq_dec p p0)

  (** val ones : n -> n **)

  let ones n0 =
    pred (shiftl (Npos XH) n0)
 end

(** val nth : nat -> 'a1 list -> 'a1 -> 'a1 **)

let rec nth n0 l default =
  match n0 with
  | O -> (match l with
          | [] -> default
          | x :: _ -> x)
  | S m -> (match l with
            | [] -> default
            | _ :: t -> nth m t default)

(** val removelast : 'a1 list -> 'a1 list **)

let rec removelast = function
| [] -> []
| a :: l0 -> (match l0 with
              | [] -> []
              | _ :: _ -> a :: (removelast l0))

(** val rev : 'a1 list -> 'a1 list **)

let rec rev = function
| [] -> []
| x :: l' -> app (rev l') (x :: [])

(** val concat : 'a1 list list -> 'a1 list **)

let rec concat = function
| [] -> []
| x :: l0 -> app x (concat l0)

(** val list_eq_dec : ('a1 -> 'a1 -> bool) -> 'a1 list -> 'a1 list -> bool **)

let rec list_eq_dec eq_dec0 l l' =
  match l with
  | [] -> (match l' with
           | [] -> true
           | _ :: _ -> false)
  | y :: l0 ->
    (match l' with
     | [] -> false
     | a :: l1 -> if eq_dec0 y a then list_eq_dec eq_dec0 l0 l1 else false)

(** val map : ('a1 -> 'a2) -> 'a1 list -> 'a2 list **)

let rec map f = function
| [] -> []
| a :: t -> (f a) :: (map f t)

(** val fold_left : ('a1 -> 'a2 -> 'a1) -> 'a2 list -> 'a1 -> 'a1 **)

let rec fold_left f l a0 =
  match l with
  | [] -> a0
  | b :: t -> fold_left f t (f a0 b)

(** val fold_right : ('a2 -> 'a1 -> 'a1) -> 'a1 -> 'a2 list -> 'a1 **)

let rec fold_right f a0 = function
| [] -> a0
| b :: t -> f b (fold_right f a0 t)

(** val existsb : ('a1 -> bool) -> 'a1 list -> bool **)

let rec existsb f = function
| [] -> false
| a :: l0 -> (||) (f a) (existsb f l0)

(** val forallb : ('a1 -> bool) -> 'a1 list -> bool **)

let rec forallb f = function
| [] -> true
| a :: l0 -> (&&) (f a) (forallb f l0)

(** val filter : ('a1 -> bool) -> 'a1 list -> 'a1 list **)

let rec filter f = function
| [] -> []
| x :: l0 -> if f x then x :: (filter f l0) else filter f l0

(** val find : ('a1 -> bool) -> 'a1 list -> 'a1 option **)

let rec find f = function
| [] -> None
| x :: tl -> if f x then Some x else find f tl

(** val skipn : nat -> 'a1 list -> 'a1 list **)

let rec skipn n0 l =
  match n0 with
  | O -> l
  | S n1 -> (match l with
             | [] -> []
             | _ :: l0 -> skipn n1 l0)

(** val repeat : 'a1 -> nat -> 'a1 list **)

let rec repeat x = function
| O -> []
| S k -> x :: (repeat x k)

type bytes = n list

type key = bytes

type val0 = bytes

(** val nlen : 'a1 list -> n **)

let rec nlen = function
| [] -> N0
| _ :: l' -> N.succ (nlen l')

(** val ntake_pos : positive -> 'a1 list -> 'a1 list **)

let rec ntake_pos p = function
| [] -> []
| x :: l' -> x :: (match p with
                   | XH -> []
                   | _ -> ntake_pos (Coq_Pos.pred p) l')

(** val ntake : n -> 'a1 list -> 'a1 list **)

let ntake n0 l =
  match n0 with
  | N0 -> []
  | Npos p -> ntake_pos p l

(** val ndrop_pos : positive -> 'a1 list -> 'a1 list **)

let rec ndrop_pos p = function
| [] -> []
| _ :: l' -> (match p with
              | XH -> l'
              | _ -> ndrop_pos (Coq_Pos.pred p) l')

(** val ndrop : n -> 'a1 list -> 'a1 list **)

let ndrop n0 l =
  match n0 with
  | N0 -> l
  | Npos p -> ndrop_pos p l

(** val bytes_eqb : bytes -> bytes -> bool **)

let bytes_eqb a b =
  if list_eq_dec N.eq_dec a b then true else false

(** val key_eqb : bytes -> bytes -> bool **)

let key_eqb =
  bytes_eqb

(** val u16 : n -> n **)

let u16 x =
  N.modulo x (Npos (XO (XO (XO (XO (XO (XO (XO (XO (XO (XO (XO (XO (XO (XO
    (XO (XO XH)))))))))))))))))

(** val u32 : n -> n **)

let u32 x =
  N.modulo x (Npos (XO (XO (XO (XO (XO (XO (XO (XO (XO (XO (XO (XO (XO (XO
    (XO (XO (XO (XO (XO (XO (XO (XO (XO (XO (XO (XO (XO (XO (XO (XO (XO (XO
    XH)))))))))))))))))))))))))))))))))

type rec0 = { rk : key; rv : val0; rdel : bool }

(** val mkput : key -> val0 -> rec0 **)

let mkput k v =
  { rk = k; rv = v; rdel = false }

(** val mkdel : key -> rec0 **)

let mkdel k =
  { rk = k; rv = []; rdel = true }

type slot = { sl_h : n; sl_seg : n; sl_ks : n; sl_vs : n; sl_off : n }

type 'i idx_ops = { ix_empty : 'i;
                    ix_get : ('i -> n -> (slot -> bool) -> slot option);
                    ix_put : ((n -> n -> bool) -> 'i -> slot -> (slot ->
                             bool) -> 'i * slot option);
                    ix_del : ('i -> n -> (slot -> bool) -> 'i * slot option);
                    ix_repoint : ('i -> n -> n -> n -> n -> n -> 'i option);
                    ix_count : ('i -> n); ix_nbuckets : ('i -> n);
                    ix_bucket : ('i -> n -> slot list) }

(** val poly : n **)

let poly =
  Npos (XO (XO (XO (XO (XO (XI (XO (XO (XI (XI (XO (XO (XO (XO (XO (XI (XO
    (XO (XO (XI (XI (XI (XO (XI (XI (XO (XI (XI (XO (XI (XI
    XH)))))))))))))))))))))))))))))))

(** val mask32 : n **)

let mask32 =
  Npos (XI (XI (XI (XI (XI (XI (XI (XI (XI (XI (XI (XI (XI (XI (XI (XI (XI
    (XI (XI (XI (XI (XI (XI (XI (XI (XI (XI (XI (XI (XI (XI
    XH)))))))))))))))))))))))))))))))

(** val step : n -> n **)

let step s =
  if N.odd s
  then N.coq_lxor (N.shiftr s (Npos XH)) poly
  else N.shiftr s (Npos XH)

(** val iter0 : nat -> (n -> n) -> n -> n **)

let rec iter0 n0 f s =
  match n0 with
  | O -> s
  | S n1 -> iter0 n1 f (f s)

(** val upd : n -> n -> n **)

let upd s b =
  iter0 (S (S (S (S (S (S (S (S O)))))))) step (N.coq_lxor s b)

(** val crc_state : n list -> n -> n **)

let crc_state bs s =
  fold_left upd bs s

(** val crc32 : n list -> n **)

let crc32 bs =
  N.coq_lxor (crc_state bs mask32) mask32

(** val le : nat -> n -> bytes **)

let rec le n0 x =
  match n0 with
  | O -> []
  | S n' ->
    (N.modulo x (Npos (XO (XO (XO (XO (XO (XO (XO (XO XH)))))))))) :: 
      (le n' (N.div x (Npos (XO (XO (XO (XO (XO (XO (XO (XO XH)))))))))))

(** val unle : bytes -> n **)

let rec unle = function
| [] -> N0
| b :: bs' ->
  N.add b (N.mul (Npos (XO (XO (XO (XO (XO (XO (XO (XO XH))))))))) (unle bs'))

(** val header_size : n **)

let header_size =
  Npos (XO (XO (XO (XO (XO (XO (XO (XO (XO XH)))))))))

(** val format_version : n **)

let format_version =
  Npos (XO XH)

(** val signature : bytes **)

let signature =
  (Npos (XO (XO (XO (XO (XI (XI XH))))))) :: ((Npos (XI (XI (XI (XI (XO (XI
    XH))))))) :: ((Npos (XI (XI (XI (XO (XO (XI XH))))))) :: ((Npos (XO (XI
    (XO (XO (XI (XI XH))))))) :: ((Npos (XI (XO (XI (XO (XO (XI
    XH))))))) :: ((Npos (XO (XI (XO (XO (XO (XI XH))))))) :: ((Npos (XO (XI
    (XI XH)))) :: ((Npos (XI (XO (XI (XI (XI (XI (XI XH)))))))) :: [])))))))

(** val delbit : n **)

let delbit =
  Npos (XO (XO (XO (XO (XO (XO (XO (XO (XO (XO (XO (XO (XO (XO (XO (XO (XO
    (XO (XO (XO (XO (XO (XO (XO (XO (XO (XO (XO (XO (XO (XO
    XH)))))))))))))))))))))))))))))))

(** val rec_overhead : n **)

let rec_overhead =
  Npos (XO (XI (XO XH)))

(** val max_key_len : n **)

let max_key_len =
  Npos (XI (XI (XI (XI (XI (XI (XI (XI (XI (XI (XI (XI (XI (XI (XI
    XH)))))))))))))))

(** val max_val_len : n **)

let max_val_len =
  Npos (XO (XO (XO (XO (XO (XO (XO (XO (XO (XO (XO (XO (XO (XO (XO (XO (XO
    (XO (XO (XO (XO (XO (XO (XO (XO (XO (XO (XO (XO
    XH)))))))))))))))))))))))))))))

(** val zeros : nat -> bytes **)

let rec zeros = function
| O -> []
| S n' -> N0 :: (zeros n')

(** val header_bytes : bytes **)

let header_bytes =
  app signature
    (app (le (S (S (S (S O)))) format_version)
      (zeros (S (S (S (S (S (S (S (S (S (S (S (S (S (S (S (S (S (S (S (S (S
        (S (S (S (S (S (S (S (S (S (S (S (S (S (S (S (S (S (S (S (S (S (S (S
        (S (S (S (S (S (S (S (S (S (S (S (S (S (S (S (S (S (S (S (S (S (S (S
        (S (S (S (S (S (S (S (S (S (S (S (S (S (S (S (S (S (S (S (S (S (S (S
        (S (S (S (S (S (S (S (S (S (S (S (S (S (S (S (S (S (S (S (S (S (S (S
        (S (S (S (S (S (S (S (S (S (S (S (S (S (S (S (S (S (S (S (S (S (S (S
        (S (S (S (S (S (S (S (S (S (S (S (S (S (S (S (S (S (S (S (S (S (S (S
        (S (S (S (S (S (S (S (S (S (S (S (S (S (S (S (S (S (S (S (S (S (S (S
        (S (S (S (S (S (S (S (S (S (S (S (S (S (S (S (S (S (S (S (S (S (S (S
        (S (S (S (S (S (S (S (S (S (S (S (S (S (S (S (S (S (S (S (S (S (S (S
        (S (S (S (S (S (S (S (S (S (S (S (S (S (S (S (S (S (S (S (S (S (S (S
        (S (S (S (S (S (S (S (S (S (S (S (S (S (S (S (S (S (S (S (S (S (S (S
        (S (S (S (S (S (S (S (S (S (S (S (S (S (S (S (S (S (S (S (S (S (S (S
        (S (S (S (S (S (S (S (S (S (S (S (S (S (S (S (S (S (S (S (S (S (S (S
        (S (S (S (S (S (S (S (S (S (S (S (S (S (S (S (S (S (S (S (S (S (S (S
        (S (S (S (S (S (S (S (S (S (S (S (S (S (S (S (S (S (S (S (S (S (S (S
        (S (S (S (S (S (S (S (S (S (S (S (S (S (S (S (S (S (S (S (S (S (S (S
        (S (S (S (S (S (S (S (S (S (S (S (S (S (S (S (S (S (S (S (S (S (S (S
        (S (S (S (S (S (S (S (S (S (S (S (S (S (S (S (S (S (S (S (S (S (S (S
        (S (S (S (S (S (S (S (S (S (S (S (S (S (S (S (S (S (S (S (S (S (S (S
        (S (S (S (S (S (S (S (S (S (S (S (S (S (S (S (S (S (S (S (S (S (S (S
        (S (S (S (S (S (S (S (S (S (S (S (S (S (S (S (S (S (S (S
        O))))))))))))))))))))))))))))))))))))))))))))))))))))))))))))))))))))))))))))))))))))))))))))))))))))))))))))))))))))))))))))))))))))))))))))))))))))))))))))))))))))))))))))))))))))))))))))))))))))))))))))))))))))))))))))))))))))))))))))))))))))))))))))))))))))))))))))))))))))))))))))))))))))))))))))))))))))))))))))))))))))))))))))))))))))))))))))))))))))))))))))))))))))))))))))))))))))))))))))))))))))))))))))))))))))))))))))))))))))))))))))))))))))))))))))))))))))))))))))))))))))))))))))))))))))))

(** val header_ok : bytes -> bool **)

let header_ok bs =
  bytes_eqb (ntake (Npos (XO (XO (XO XH)))) bs) signature

(** val rsize : rec0 -> n **)

let rsize r =
  N.add (N.add rec_overhead (nlen r.rk)) (nlen r.rv)

(** val vfield : rec0 -> n **)

let vfield r =
  N.coq_lor (u32 (nlen r.rv)) (if r.rdel then delbit else N0)

(** val enc_body : rec0 -> bytes **)

let enc_body r =
  app (le (S (S O)) (u16 (nlen r.rk)))
    (app (le (S (S (S (S O)))) (vfield r)) (app r.rk r.rv))

(** val encode_rec : rec0 -> bytes **)

let encode_rec r =
  app (enc_body r) (le (S (S (S (S O)))) (crc32 (enc_body r)))

type dres =
| DDone
| DShort
| DCorrupt
| DOk of rec0 * n * bytes

(** val decode_next : bytes -> dres **)

let decode_next bs = match bs with
| [] -> DDone
| _ :: _ ->
  if N.ltb (nlen bs) (Npos (XO (XI XH)))
  then DShort
  else let ks = unle (ntake (Npos (XO XH)) bs) in
       let w = unle (ntake (Npos (XO (XO XH))) (ndrop (Npos (XO XH)) bs)) in
       let isdel = N.leb delbit w in
       let vs = N.modulo w delbit in
       let size = N.add (N.add rec_overhead ks) vs in
       if N.ltb (nlen bs) size
       then DShort
       else let body = ntake (N.sub size (Npos (XO (XO XH)))) bs in
            let sum =
              unle
                (ntake (Npos (XO (XO XH)))
                  (ndrop (N.sub size (Npos (XO (XO XH)))) bs))
            in
            if negb (N.eqb sum (crc32 body))
            then DCorrupt
            else DOk ({ rk = (ntake ks (ndrop (Npos (XO (XI XH))) bs)); rv =
                   (ntake vs (ndrop (N.add (Npos (XO (XI XH))) ks) bs));
                   rdel = isdel }, size, (ndrop size bs))

type stop =
| SEnd
| SShort
| SCorrupt
| SFuel

(** val parse_fuel : nat -> bytes -> (rec0 list * n) * stop **)

let rec parse_fuel fuel bs =
  match fuel with
  | O -> (([], N0), SFuel)
  | S f ->
    (match decode_next bs with
     | DDone -> (([], N0), SEnd)
     | DShort -> (([], N0), SShort)
     | DCorrupt -> (([], N0), SCorrupt)
     | DOk (r, len, rest) ->
       let (p, why) = parse_fuel f rest in
       let (rs, n0) = p in (((r :: rs), (N.add len n0)), why))

(** val parse_tail : bytes -> (rec0 list * n) * stop **)

let parse_tail bs =
  parse_fuel (S (length bs)) bs

(** val parse_file : bytes -> ((rec0 list * n) * stop) option **)

let parse_file bs =
  if N.eqb (nlen bs) N0
  then Some (([], N0), SEnd)
  else if N.ltb (nlen bs) header_size
       then None
       else if negb (header_ok bs)
            then None
            else Some (parse_tail (ndrop header_size bs))

(** val decode_alloc : bytes -> n **)

let decode_alloc bs = match bs with
| [] -> N0
| _ :: _ ->
  if N.ltb (nlen bs) (Npos (XO (XI XH)))
  then N0
  else let ks = unle (ntake (Npos (XO XH)) bs) in
       let vs =
         N.modulo
           (unle (ntake (Npos (XO (XO XH))) (ndrop (Npos (XO XH)) bs))) delbit
       in
       let size = N.add (N.add rec_overhead ks) vs in
       if N.ltb (nlen bs) size then N0 else size

(** val parse_alloc : nat -> bytes -> n **)

let rec parse_alloc fuel bs =
  match fuel with
  | O -> N0
  | S f ->
    N.add (decode_alloc bs)
      (match decode_next bs with
       | DOk (_, _, rest) -> parse_alloc f rest
       | _ -> N0)

type flat = slot list

(** val fl_hit : n -> (slot -> bool) -> slot -> bool **)

let fl_hit h m s =
  (&&) (N.eqb s.sl_h h) (m s)

(** val fl_get : flat -> n -> (slot -> bool) -> slot option **)

let fl_get l h m =
  find (fl_hit h m) l

(** val fl_replace :
    (slot -> bool) -> slot -> flat -> (flat * slot) option **)

let rec fl_replace hit0 new0 = function
| [] -> None
| s :: l' ->
  if hit0 s
  then Some ((new0 :: l'), s)
  else (match fl_replace hit0 new0 l' with
        | Some p -> let (l'', o) = p in Some ((s :: l''), o)
        | None -> None)

(** val fl_put :
    (n -> n -> bool) -> flat -> slot -> (slot -> bool) -> flat * slot option **)

let fl_put _ l sl m =
  match fl_replace (fl_hit sl.sl_h m) sl l with
  | Some p -> let (l', o) = p in (l', (Some o))
  | None -> ((app l (sl :: [])), None)

(** val fl_remove : (slot -> bool) -> flat -> (flat * slot) option **)

let rec fl_remove hit0 = function
| [] -> None
| s :: l' ->
  if hit0 s
  then Some (l', s)
  else (match fl_remove hit0 l' with
        | Some p -> let (l'', o) = p in Some ((s :: l''), o)
        | None -> None)

(** val fl_del : flat -> n -> (slot -> bool) -> flat * slot option **)

let fl_del l h m =
  match fl_remove (fl_hit h m) l with
  | Some p -> let (l', o) = p in (l', (Some o))
  | None -> (l, None)

(** val fl_points : n -> n -> n -> slot -> bool **)

let fl_points h seg off s =
  (&&) ((&&) (N.eqb s.sl_h h) (N.eqb s.sl_off off)) (N.eqb s.sl_seg seg)

(** val repointed : slot -> n -> n -> slot **)

let repointed s nseg noff =
  { sl_h = s.sl_h; sl_seg = nseg; sl_ks = s.sl_ks; sl_vs = s.sl_vs; sl_off =
    noff }

(** val fl_repoint : flat -> n -> n -> n -> n -> n -> flat option **)

let rec fl_repoint l h seg off nseg noff =
  match l with
  | [] -> None
  | s :: l' ->
    if fl_points h seg off s
    then Some ((repointed s nseg noff) :: l')
    else option_map (fun x -> s :: x) (fl_repoint l' h seg off nseg noff)

(** val flat_ops : flat idx_ops **)

let flat_ops =
  { ix_empty = []; ix_get = fl_get; ix_put = fl_put; ix_del = fl_del;
    ix_repoint = fl_repoint; ix_count = nlen; ix_nbuckets = (fun _ -> Npos
    XH); ix_bucket = (fun l n0 -> if N.eqb n0 N0 then l else []) }

(** val lupd : nat -> 'a1 -> 'a1 list -> 'a1 list **)

let rec lupd n0 x = function
| [] -> []
| y :: l' -> (match n0 with
              | O -> x :: l'
              | S n' -> y :: (lupd n' x l'))

(** val bucket_index : n -> n -> n -> n **)

let bucket_index level split h =
  let b = N.coq_land h (N.ones level) in
  if N.ltb b split then N.coq_land h (N.ones (N.add level (Npos XH))) else b

(** val advance : n -> n -> n * n **)

let advance level split =
  if N.eqb (N.add split (Npos XH)) (N.pow (Npos (XO XH)) level)
  then ((N.add level (Npos XH)), N0)
  else (level, (N.add split (Npos XH)))

(** val cap : nat **)

let cap =
  S (S (S (S (S (S (S (S (S (S (S (S (S (S (S (S (S (S (S (S (S (S (S (S (S
    (S (S (S (S (S (S O))))))))))))))))))))))))))))))

type bucket = slot list

type chain = bucket list

(** val hit : n -> (slot -> bool) -> slot -> bool **)

let hit h m s =
  (&&) (N.eqb s.sl_h h) (m s)

(** val rp_hit : n -> n -> n -> slot -> bool **)

let rp_hit h seg off s =
  (&&) ((&&) (N.eqb s.sl_h h) (N.eqb s.sl_off off)) (N.eqb s.sl_seg seg)

(** val rp_new : n -> n -> slot -> slot **)

let rp_new nseg noff s =
  { sl_h = s.sl_h; sl_seg = nseg; sl_ks = s.sl_ks; sl_vs = s.sl_vs; sl_off =
    noff }

(** val chain_find : (slot -> bool) -> chain -> slot option **)

let rec chain_find f = function
| [] -> None
| b :: c' -> (match find f b with
              | Some s -> Some s
              | None -> chain_find f c')

(** val bucket_subst :
    (slot -> bool) -> (slot -> slot list) -> bucket -> (bucket * slot) option **)

let rec bucket_subst f g = function
| [] -> None
| s :: b' ->
  if f s
  then Some ((app (g s) b'), s)
  else (match bucket_subst f g b' with
        | Some p -> let (b'', o) = p in Some ((s :: b''), o)
        | None -> None)

(** val chain_subst :
    (slot -> bool) -> (slot -> slot list) -> chain -> (chain * slot) option **)

let rec chain_subst f g = function
| [] -> None
| b :: c' ->
  (match bucket_subst f g b with
   | Some p -> let (b', o) = p in Some ((b' :: c'), o)
   | None ->
     (match chain_subst f g c' with
      | Some p -> let (c'', o) = p in Some ((b :: c''), o)
      | None -> None))

(** val insert_free : slot -> chain -> chain **)

let rec insert_free new0 = function
| [] -> (new0 :: []) :: []
| b :: c' ->
  if Nat.ltb (length b) cap
  then (app b (new0 :: [])) :: c'
  else b :: (insert_free new0 c')

(** val chain_put : (slot -> bool) -> slot -> chain -> chain * slot option **)

let chain_put f new0 c =
  match chain_subst f (fun _ -> new0 :: []) c with
  | Some p -> let (c', o) = p in (c', (Some o))
  | None -> ((insert_free new0 c), None)

(** val sw_insert : slot -> chain -> chain **)

let rec sw_insert s = function
| [] -> (s :: []) :: []
| b :: c' ->
  (match c' with
   | [] ->
     if Nat.ltb (length b) cap
     then (app b (s :: [])) :: []
     else b :: ((s :: []) :: [])
   | _ :: _ -> b :: (sw_insert s c'))

(** val split_step :
    n -> n -> n -> (chain * chain) -> slot -> chain * chain **)

let split_step lv sp ub st0 s =
  if N.eqb (bucket_index lv sp s.sl_h) ub
  then ((sw_insert s (fst st0)), (snd st0))
  else ((fst st0), (sw_insert s (snd st0)))

type pindex = { px_level : n; px_split : n; px_nkeys : n;
                px_chains : chain list }

(** val px_level : pindex -> n **)

let px_level p =
  p.px_level

(** val px_split : pindex -> n **)

let px_split p =
  p.px_split

(** val px_nkeys : pindex -> n **)

let px_nkeys p =
  p.px_nkeys

(** val px_chains : pindex -> chain list **)

let px_chains p =
  p.px_chains

(** val px_empty : pindex **)

let px_empty =
  { px_level = N0; px_split = N0; px_nkeys = N0; px_chains =
    (([] :: []) :: []) }

(** val px_bidx : pindex -> n -> n **)

let px_bidx p h =
  bucket_index p.px_level p.px_split h

(** val px_chain : pindex -> n -> chain **)

let px_chain p n0 =
  nth (N.to_nat n0) p.px_chains []

(** val px_set : pindex -> n -> chain -> n -> pindex **)

let px_set p n0 c nk =
  { px_level = p.px_level; px_split = p.px_split; px_nkeys = nk; px_chains =
    (lupd (N.to_nat n0) c p.px_chains) }

(** val px_count : pindex -> n **)

let px_count p =
  p.px_nkeys

(** val px_nbuckets : pindex -> n **)

let px_nbuckets p =
  nlen p.px_chains

(** val px_bucket : pindex -> n -> slot list **)

let px_bucket p n0 =
  concat (nth (N.to_nat n0) p.px_chains [])

(** val px_get : pindex -> n -> (slot -> bool) -> slot option **)

let px_get p h m =
  chain_find (hit h m) (px_chain p (px_bidx p h))

(** val px_dosplit : pindex -> pindex **)

let px_dosplit p =
  let ub = p.px_split in
  let adv = advance p.px_level p.px_split in
  let st0 =
    fold_left (split_step (fst adv) (snd adv) ub) (concat (px_chain p ub))
      (([] :: []), ([] :: []))
  in
  { px_level = (fst adv); px_split = (snd adv); px_nkeys = p.px_nkeys;
  px_chains =
  (app (lupd (N.to_nat ub) (fst st0) p.px_chains) ((snd st0) :: [])) }

(** val px_put_core :
    pindex -> slot -> (slot -> bool) -> pindex * slot option **)

let px_put_core p sl m =
  let b = px_bidx p sl.sl_h in
  let r = chain_put (hit sl.sl_h m) sl (px_chain p b) in
  (match snd r with
   | Some o -> ((px_set p b (fst r) p.px_nkeys), (Some o))
   | None -> ((px_set p b (fst r) (N.add p.px_nkeys (Npos XH))), None))

(** val px_put_with :
    (pindex -> slot -> (slot -> bool) -> pindex * slot option) -> (n -> n ->
    bool) -> pindex -> slot -> (slot -> bool) -> pindex * slot option **)

let px_put_with core grow p sl m =
  let r = core p sl m in
  (match snd r with
   | Some o -> ((fst r), (Some o))
   | None ->
     ((if grow (fst r).px_nkeys (nlen (fst r).px_chains)
       then px_dosplit (fst r)
       else fst r), None))

(** val px_put :
    (n -> n -> bool) -> pindex -> slot -> (slot -> bool) -> pindex * slot
    option **)

let px_put =
  px_put_with px_put_core

(** val px_del : pindex -> n -> (slot -> bool) -> pindex * slot option **)

let px_del p h m =
  let b = px_bidx p h in
  (match chain_subst (hit h m) (fun _ -> []) (px_chain p b) with
   | Some p0 ->
     let (c', o) = p0 in
     ((px_set p b c' (N.sub p.px_nkeys (Npos XH))), (Some o))
   | None -> (p, None))

(** val px_repoint : pindex -> n -> n -> n -> n -> n -> pindex option **)

let px_repoint p h seg off nseg noff =
  let b = px_bidx p h in
  (match chain_subst (rp_hit h seg off) (fun s -> (rp_new nseg noff s) :: [])
           (px_chain p b) with
   | Some p0 -> let (c', _) = p0 in Some (px_set p b c' p.px_nkeys)
   | None -> None)

(** val chain_ops : pindex idx_ops **)

let chain_ops =
  { ix_empty = px_empty; ix_get = px_get; ix_put = px_put; ix_del = px_del;
    ix_repoint = px_repoint; ix_count = px_count; ix_nbuckets = px_nbuckets;
    ix_bucket = px_bucket }

type smap = (key * val0) list

(** val sget : smap -> key -> val0 option **)

let rec sget m k =
  match m with
  | [] -> None
  | p :: m' -> let (k', v) = p in if key_eqb k k' then Some v else sget m' k

(** val sdel : smap -> key -> smap **)

let rec sdel m k =
  match m with
  | [] -> []
  | p :: m' ->
    let (k', v) = p in
    if key_eqb k k' then sdel m' k else (k', v) :: (sdel m' k)

(** val sput : smap -> key -> val0 -> smap **)

let sput m k v =
  (k, v) :: (sdel m k)

(** val scount : smap -> n **)

let scount =
  nlen

type params = { p_maxseg : n; p_minseg : n; p_frag : (n -> n -> bool);
                p_sync : bool; p_grow : (n -> n -> bool);
                p_hash : (n -> key -> n) }

type fname =
| FSeg of n * n
| FSegMeta of n * n
| FMain
| FOverflow
| FIndexMeta
| FDbMeta
| FLock
| FBac of fname

(** val fname_eqb : fname -> fname -> bool **)

let rec fname_eqb a b =
  match a with
  | FSeg (i, s) ->
    (match b with
     | FSeg (j, t) -> (&&) (N.eqb i j) (N.eqb s t)
     | _ -> false)
  | FSegMeta (i, s) ->
    (match b with
     | FSegMeta (j, t) -> (&&) (N.eqb i j) (N.eqb s t)
     | _ -> false)
  | FMain -> (match b with
              | FMain -> true
              | _ -> false)
  | FOverflow -> (match b with
                  | FOverflow -> true
                  | _ -> false)
  | FIndexMeta -> (match b with
                   | FIndexMeta -> true
                   | _ -> false)
  | FDbMeta -> (match b with
                | FDbMeta -> true
                | _ -> false)
  | FLock -> (match b with
              | FLock -> true
              | _ -> false)
  | FBac f -> (match b with
               | FBac g -> fname_eqb f g
               | _ -> false)

(** val digits_fuel : nat -> n -> bytes -> bytes **)

let rec digits_fuel fuel n0 acc =
  match fuel with
  | O -> acc
  | S f ->
    let acc' =
      (N.add (Npos (XO (XO (XO (XO (XI XH))))))
        (N.modulo n0 (Npos (XO (XI (XO XH)))))) :: acc
    in
    if N.eqb (N.div n0 (Npos (XO (XI (XO XH))))) N0
    then acc'
    else digits_fuel f (N.div n0 (Npos (XO (XI (XO XH))))) acc'

(** val decimal : n -> bytes **)

let decimal n0 =
  digits_fuel (S (S (S (S (S (S (S (S (S (S (S (S (S (S (S (S (S (S (S (S
    O)))))))))))))))))))) n0 []

(** val pad5 : bytes -> bytes **)

let pad5 l =
  app
    (repeat (Npos (XO (XO (XO (XO (XI XH))))))
      (sub (S (S (S (S (S O))))) (length l))) l

(** val ext_psg : bytes **)

let ext_psg =
  (Npos (XO (XI (XI (XI (XO XH)))))) :: ((Npos (XO (XO (XO (XO (XI (XI
    XH))))))) :: ((Npos (XI (XI (XO (XO (XI (XI XH))))))) :: ((Npos (XI (XI
    (XI (XO (XO (XI XH))))))) :: [])))

(** val ext_pmt : bytes **)

let ext_pmt =
  (Npos (XO (XI (XI (XI (XO XH)))))) :: ((Npos (XO (XO (XO (XO (XI (XI
    XH))))))) :: ((Npos (XI (XO (XI (XI (XO (XI XH))))))) :: ((Npos (XO (XO
    (XI (XO (XI (XI XH))))))) :: [])))

(** val ext_pix : bytes **)

let ext_pix =
  (Npos (XO (XI (XI (XI (XO XH)))))) :: ((Npos (XO (XO (XO (XO (XI (XI
    XH))))))) :: ((Npos (XI (XO (XO (XI (XO (XI XH))))))) :: ((Npos (XO (XO
    (XO (XI (XI (XI XH))))))) :: [])))

(** val ext_bac : bytes **)

let ext_bac =
  (Npos (XO (XI (XI (XI (XO XH)))))) :: ((Npos (XO (XI (XO (XO (XO (XI
    XH))))))) :: ((Npos (XI (XO (XO (XO (XO (XI XH))))))) :: ((Npos (XI (XI
    (XO (XO (XO (XI XH))))))) :: [])))

(** val name_str : fname -> bytes **)

let rec name_str = function
| FSeg (i, s) ->
  app (pad5 (decimal i))
    (app ((Npos (XI (XO (XI (XI (XO XH)))))) :: []) (app (decimal s) ext_psg))
| FSegMeta (i, s) ->
  app (pad5 (decimal i))
    (app ((Npos (XI (XO (XI (XI (XO XH)))))) :: [])
      (app (decimal s) (app ext_psg ext_pmt)))
| FMain ->
  app ((Npos (XI (XO (XI (XI (XO (XI XH))))))) :: ((Npos (XI (XO (XO (XO (XO
    (XI XH))))))) :: ((Npos (XI (XO (XO (XI (XO (XI XH))))))) :: ((Npos (XO
    (XI (XI (XI (XO (XI XH))))))) :: [])))) ext_pix
| FOverflow ->
  app ((Npos (XI (XI (XI (XI (XO (XI XH))))))) :: ((Npos (XO (XI (XI (XO (XI
    (XI XH))))))) :: ((Npos (XI (XO (XI (XO (XO (XI XH))))))) :: ((Npos (XO
    (XI (XO (XO (XI (XI XH))))))) :: ((Npos (XO (XI (XI (XO (XO (XI
    XH))))))) :: ((Npos (XO (XO (XI (XI (XO (XI XH))))))) :: ((Npos (XI (XI
    (XI (XI (XO (XI XH))))))) :: ((Npos (XI (XI (XI (XO (XI (XI
    XH))))))) :: [])))))))) ext_pix
| FIndexMeta ->
  app ((Npos (XI (XO (XO (XI (XO (XI XH))))))) :: ((Npos (XO (XI (XI (XI (XO
    (XI XH))))))) :: ((Npos (XO (XO (XI (XO (XO (XI XH))))))) :: ((Npos (XI
    (XO (XI (XO (XO (XI XH))))))) :: ((Npos (XO (XO (XO (XI (XI (XI
    XH))))))) :: []))))) ext_pmt
| FDbMeta ->
  app ((Npos (XO (XO (XI (XO (XO (XI XH))))))) :: ((Npos (XO (XI (XO (XO (XO
    (XI XH))))))) :: [])) ext_pmt
| FLock ->
  (Npos (XO (XO (XI (XI (XO (XI XH))))))) :: ((Npos (XI (XI (XI (XI (XO (XI
    XH))))))) :: ((Npos (XI (XI (XO (XO (XO (XI XH))))))) :: ((Npos (XI (XI
    (XO (XI (XO (XI XH))))))) :: [])))
| FBac g -> app (name_str g) ext_bac

(** val lex_ltb : bytes -> bytes -> bool **)

let rec lex_ltb a b =
  match a with
  | [] -> (match b with
           | [] -> false
           | _ :: _ -> true)
  | x :: a' ->
    (match b with
     | [] -> false
     | y :: b' ->
       if N.ltb x y then true else if N.ltb y x then false else lex_ltb a' b')

(** val insert_name : fname -> fname list -> fname list **)

let rec insert_name f l = match l with
| [] -> f :: []
| g :: l' ->
  if lex_ltb (name_str f) (name_str g)
  then f :: l
  else g :: (insert_name f l')

(** val sort_names : fname list -> fname list **)

let sort_names l =
  fold_right insert_name [] l

type smeta = { sm_full : bool; sm_put : n; sm_delrec : n; sm_delkeys : 
               n; sm_delbytes : n }

(** val smeta0 : smeta **)

let smeta0 =
  { sm_full = false; sm_put = N0; sm_delrec = N0; sm_delkeys = N0;
    sm_delbytes = N0 }

type 'a gob =
| GAbsent
| GPartial
| GOk of 'a

(** val gob_present : 'a1 gob -> bool **)

let gob_present = function
| GAbsent -> false
| _ -> true

type dseg = { f_id : n; f_seq : n; f_hdr : bool; f_recs : rec0 list;
              f_tail : bytes; f_meta : smeta gob }

type 'i disk = { d_segs : dseg list; d_orphans : (n * n) list;
                 d_index : 'i option; d_overflow : bool; d_imeta : 'i gob;
                 d_dbmeta : n gob; d_lock : bool; d_bac : fname list }

(** val disk0 : 'a1 disk **)

let disk0 =
  { d_segs = []; d_orphans = []; d_index = None; d_overflow = false;
    d_imeta = GAbsent; d_dbmeta = GAbsent; d_lock = false; d_bac = [] }

type 'i fsev =
| ECreate of fname
| EHeader of fname
| EAppend of n * n * n * rec0
| EIndex of 'i
| EGobSeg of n * n * smeta
| EGobIndex of 'i
| EGobDb of n
| ETrunc of fname * n
| ERename of fname * fname
| ERemove of fname
| ESync of fname

(** val seg_names : 'a1 disk -> fname list **)

let seg_names d =
  concat
    (map (fun s -> (FSeg (s.f_id,
      s.f_seq)) :: (if gob_present s.f_meta
                    then (FSegMeta (s.f_id, s.f_seq)) :: []
                    else [])) d.d_segs)

(** val dir : 'a1 disk -> fname list **)

let dir d =
  app (seg_names d)
    (app (map (fun p -> FSegMeta ((fst p), (snd p))) d.d_orphans)
      (app (match d.d_index with
            | Some _ -> FMain :: []
            | None -> [])
        (app (if d.d_overflow then FOverflow :: [] else [])
          (app (if gob_present d.d_imeta then FIndexMeta :: [] else [])
            (app (if gob_present d.d_dbmeta then FDbMeta :: [] else [])
              (app (if d.d_lock then FLock :: [] else []) d.d_bac))))))

(** val exists_file : 'a1 disk -> fname -> bool **)

let exists_file d f =
  existsb (fname_eqb f) (dir d)

(** val is_seg : n -> n -> dseg -> bool **)

let is_seg id seq s =
  (&&) (N.eqb s.f_id id) (N.eqb s.f_seq seq)

(** val upd_seg : n -> n -> (dseg -> dseg) -> 'a1 disk -> 'a1 disk **)

let upd_seg id seq g d =
  { d_segs = (map (fun s -> if is_seg id seq s then g s else s) d.d_segs);
    d_orphans = d.d_orphans; d_index = d.d_index; d_overflow = d.d_overflow;
    d_imeta = d.d_imeta; d_dbmeta = d.d_dbmeta; d_lock = d.d_lock; d_bac =
    d.d_bac }

(** val set_segs : 'a1 disk -> dseg list -> 'a1 disk **)

let set_segs d l =
  { d_segs = l; d_orphans = d.d_orphans; d_index = d.d_index; d_overflow =
    d.d_overflow; d_imeta = d.d_imeta; d_dbmeta = d.d_dbmeta; d_lock =
    d.d_lock; d_bac = d.d_bac }

(** val set_orphans : 'a1 disk -> (n * n) list -> 'a1 disk **)

let set_orphans d l =
  { d_segs = d.d_segs; d_orphans = l; d_index = d.d_index; d_overflow =
    d.d_overflow; d_imeta = d.d_imeta; d_dbmeta = d.d_dbmeta; d_lock =
    d.d_lock; d_bac = d.d_bac }

(** val set_index : 'a1 disk -> 'a1 option -> 'a1 disk **)

let set_index d i =
  { d_segs = d.d_segs; d_orphans = d.d_orphans; d_index = i; d_overflow =
    d.d_overflow; d_imeta = d.d_imeta; d_dbmeta = d.d_dbmeta; d_lock =
    d.d_lock; d_bac = d.d_bac }

(** val set_overflow : 'a1 disk -> bool -> 'a1 disk **)

let set_overflow d b =
  { d_segs = d.d_segs; d_orphans = d.d_orphans; d_index = d.d_index;
    d_overflow = b; d_imeta = d.d_imeta; d_dbmeta = d.d_dbmeta; d_lock =
    d.d_lock; d_bac = d.d_bac }

(** val set_imeta : 'a1 disk -> 'a1 gob -> 'a1 disk **)

let set_imeta d g =
  { d_segs = d.d_segs; d_orphans = d.d_orphans; d_index = d.d_index;
    d_overflow = d.d_overflow; d_imeta = g; d_dbmeta = d.d_dbmeta; d_lock =
    d.d_lock; d_bac = d.d_bac }

(** val set_dbmeta : 'a1 disk -> n gob -> 'a1 disk **)

let set_dbmeta d g =
  { d_segs = d.d_segs; d_orphans = d.d_orphans; d_index = d.d_index;
    d_overflow = d.d_overflow; d_imeta = d.d_imeta; d_dbmeta = g; d_lock =
    d.d_lock; d_bac = d.d_bac }

(** val set_lock : 'a1 disk -> bool -> 'a1 disk **)

let set_lock d b =
  { d_segs = d.d_segs; d_orphans = d.d_orphans; d_index = d.d_index;
    d_overflow = d.d_overflow; d_imeta = d.d_imeta; d_dbmeta = d.d_dbmeta;
    d_lock = b; d_bac = d.d_bac }

(** val set_bac : 'a1 disk -> fname list -> 'a1 disk **)

let set_bac d l =
  { d_segs = d.d_segs; d_orphans = d.d_orphans; d_index = d.d_index;
    d_overflow = d.d_overflow; d_imeta = d.d_imeta; d_dbmeta = d.d_dbmeta;
    d_lock = d.d_lock; d_bac = l }

(** val set_fmeta : smeta gob -> dseg -> dseg **)

let set_fmeta g s =
  { f_id = s.f_id; f_seq = s.f_seq; f_hdr = s.f_hdr; f_recs = s.f_recs;
    f_tail = s.f_tail; f_meta = g }

(** val recs_len : rec0 list -> n **)

let recs_len rs =
  fold_right (fun r n0 -> N.add (rsize r) n0) N0 rs

(** val flen : dseg -> n **)

let flen s =
  if s.f_hdr
  then N.add (N.add header_size (recs_len s.f_recs)) (nlen s.f_tail)
  else N0

(** val with_offsets : n -> rec0 list -> (n * rec0) list **)

let rec with_offsets off = function
| [] -> []
| r :: rs' -> (off, r) :: (with_offsets (N.add off (rsize r)) rs')

(** val seg_entries : dseg -> (n * rec0) list **)

let seg_entries s =
  with_offsets header_size s.f_recs

(** val trunc_recs : n -> n -> rec0 list -> rec0 list * n **)

let rec trunc_recs off n0 = function
| [] -> ([], off)
| r :: rs' ->
  if N.leb (N.add off (rsize r)) n0
  then let (l, e) = trunc_recs (N.add off (rsize r)) n0 rs' in ((r :: l), e)
  else ([], off)

(** val file_bytes_from : rec0 list -> bytes -> bytes **)

let file_bytes_from rs tail =
  app (concat (map encode_rec rs)) tail

(** val trunc_seg : n -> dseg -> dseg **)

let trunc_seg n0 s =
  if negb s.f_hdr
  then s
  else let (keep, e) = trunc_recs header_size n0 s.f_recs in
       let rest = file_bytes_from (skipn (length keep) s.f_recs) s.f_tail in
       { f_id = s.f_id; f_seq = s.f_seq; f_hdr = true; f_recs = keep;
       f_tail = (ntake (N.sub n0 e) rest); f_meta = s.f_meta }

(** val append_seg : n -> rec0 -> dseg -> dseg **)

let append_seg _ r s =
  { f_id = s.f_id; f_seq = s.f_seq; f_hdr = s.f_hdr; f_recs =
    (app s.f_recs (r :: [])); f_tail = s.f_tail; f_meta = s.f_meta }

(** val remove_name : fname -> fname list -> fname list **)

let rec remove_name f = function
| [] -> []
| g :: l' -> if fname_eqb f g then l' else g :: (remove_name f l')

(** val file_removed : fname -> 'a1 disk -> 'a1 disk **)

let file_removed f d =
  match f with
  | FSeg (id, seq) ->
    let gone = filter (is_seg id seq) d.d_segs in
    let orph =
      concat
        (map (fun s ->
          if gob_present s.f_meta then (s.f_id, s.f_seq) :: [] else []) gone)
    in
    set_orphans
      (set_segs d (filter (fun s -> negb (is_seg id seq s)) d.d_segs))
      (app d.d_orphans orph)
  | FSegMeta (id, seq) ->
    set_orphans (upd_seg id seq (set_fmeta GAbsent) d)
      (filter (fun p -> negb ((&&) (N.eqb (fst p) id) (N.eqb (snd p) seq)))
        d.d_orphans)
  | FMain -> set_index d None
  | FOverflow -> set_overflow d false
  | FIndexMeta -> set_imeta d GAbsent
  | FDbMeta -> set_dbmeta d GAbsent
  | FLock -> set_lock d false
  | FBac _ -> set_bac d (remove_name f d.d_bac)

(** val apply_ev : 'a1 idx_ops -> 'a1 disk -> 'a1 fsev -> 'a1 disk **)

let apply_ev ops d = function
| ECreate f0 ->
  (match f0 with
   | FSeg (id, seq) ->
     set_segs d
       (app d.d_segs ({ f_id = id; f_seq = seq; f_hdr = false; f_recs = [];
         f_tail = []; f_meta = GAbsent } :: []))
   | FSegMeta (id, seq) -> upd_seg id seq (set_fmeta GPartial) d
   | FMain -> set_index d (Some ops.ix_empty)
   | FOverflow -> set_overflow d true
   | FIndexMeta -> set_imeta d GPartial
   | FDbMeta -> set_dbmeta d GPartial
   | FLock -> set_lock d true
   | FBac f -> set_bac d (app d.d_bac ((FBac f) :: [])))
| EHeader f ->
  (match f with
   | FSeg (id, seq) ->
     upd_seg id seq (fun s -> { f_id = s.f_id; f_seq = s.f_seq; f_hdr = true;
       f_recs = s.f_recs; f_tail = s.f_tail; f_meta = s.f_meta }) d
   | _ -> d)
| EAppend (id, seq, off, r) -> upd_seg id seq (append_seg off r) d
| EIndex i -> set_index d (Some i)
| EGobSeg (id, seq, m) -> upd_seg id seq (set_fmeta (GOk m)) d
| EGobIndex i -> set_imeta d (GOk i)
| EGobDb s -> set_dbmeta d (GOk s)
| ETrunc (f, n0) ->
  (match f with
   | FSeg (id, seq) -> upd_seg id seq (trunc_seg n0) d
   | FSegMeta (id, seq) -> upd_seg id seq (set_fmeta GPartial) d
   | FIndexMeta -> set_imeta d GPartial
   | FDbMeta -> set_dbmeta d GPartial
   | _ -> d)
| ERename (f, g) ->
  set_bac (file_removed f d)
    (app (remove_name g (file_removed f d).d_bac) (g :: []))
| ERemove f -> file_removed f d
| ESync _ -> d

type mseg = { g_id : n; g_seq : n; g_size : n; g_meta : smeta }

type 'i mem = { m_segs : mseg list; m_cur : (n * n); m_cur_removed : 
                bool; m_maxseq : n; m_idx : 'i; m_seed : n }

type 'i st = { s_mem : 'i mem option; s_disk : 'i disk; s_trace : 'i fsev list }

(** val emit : 'a1 idx_ops -> 'a1 fsev -> 'a1 st -> 'a1 st **)

let emit ops e s =
  { s_mem = s.s_mem; s_disk = (apply_ev ops s.s_disk e); s_trace =
    (app s.s_trace (e :: [])) }

(** val emits : 'a1 idx_ops -> 'a1 fsev list -> 'a1 st -> 'a1 st **)

let emits ops es s =
  fold_left (fun s0 e -> emit ops e s0) es s

(** val with_mem : 'a1 mem -> 'a1 st -> 'a1 st **)

let with_mem m s =
  { s_mem = (Some m); s_disk = s.s_disk; s_trace = s.s_trace }

(** val clear_trace : 'a1 st -> 'a1 st **)

let clear_trace s =
  { s_mem = s.s_mem; s_disk = s.s_disk; s_trace = [] }

(** val set_msegs : 'a1 mem -> mseg list -> 'a1 mem **)

let set_msegs m l =
  { m_segs = l; m_cur = m.m_cur; m_cur_removed = m.m_cur_removed; m_maxseq =
    m.m_maxseq; m_idx = m.m_idx; m_seed = m.m_seed }

(** val set_idx : 'a1 mem -> 'a1 -> 'a1 mem **)

let set_idx m i =
  { m_segs = m.m_segs; m_cur = m.m_cur; m_cur_removed = m.m_cur_removed;
    m_maxseq = m.m_maxseq; m_idx = i; m_seed = m.m_seed }

(** val set_cur : 'a1 mem -> (n * n) -> bool -> 'a1 mem **)

let set_cur m c removed =
  { m_segs = m.m_segs; m_cur = c; m_cur_removed = removed; m_maxseq =
    m.m_maxseq; m_idx = m.m_idx; m_seed = m.m_seed }

(** val set_maxseq : 'a1 mem -> n -> 'a1 mem **)

let set_maxseq m n0 =
  { m_segs = m.m_segs; m_cur = m.m_cur; m_cur_removed = m.m_cur_removed;
    m_maxseq = n0; m_idx = m.m_idx; m_seed = m.m_seed }

(** val set_gmeta : mseg -> smeta -> mseg **)

let set_gmeta g m =
  { g_id = g.g_id; g_seq = g.g_seq; g_size = g.g_size; g_meta = m }

(** val set_gsize : mseg -> n -> mseg **)

let set_gsize g n0 =
  { g_id = g.g_id; g_seq = g.g_seq; g_size = n0; g_meta = g.g_meta }

(** val set_full : smeta -> smeta **)

let set_full m =
  { sm_full = true; sm_put = m.sm_put; sm_delrec = m.sm_delrec; sm_delkeys =
    m.sm_delkeys; sm_delbytes = m.sm_delbytes }

(** val find_mseg : n -> mseg list -> mseg option **)

let find_mseg id l =
  find (fun g -> N.eqb g.g_id id) l

(** val upd_mseg : n -> (mseg -> mseg) -> mseg list -> mseg list **)

let upd_mseg id f l =
  map (fun g -> if N.eqb g.g_id id then f g else g) l

(** val insert_mseg : mseg -> mseg list -> mseg list **)

let rec insert_mseg g l = match l with
| [] -> g :: []
| x :: l' -> if N.ltb g.g_id x.g_id then g :: l else x :: (insert_mseg g l')

(** val find_dseg : n -> 'a1 disk -> dseg option **)

let find_dseg id d =
  find (fun s -> N.eqb s.f_id id) d.d_segs

type err =
| EKeyTooLarge
| EValueTooLarge
| EClosed
| ELocked
| EOpenFailed

type out =
| OOk
| OErr of err
| OVal of val0 option
| OBool of bool
| ONum of n
| OItems of (key * val0) list
| OCompact of n * n * n
| OOpened of bool
| OBroken of n

(** val rec_at : n -> (n * rec0) list -> rec0 option **)

let rec rec_at off = function
| [] -> None
| p :: es' -> let (o, r) = p in if N.eqb o off then Some r else rec_at off es'

(** val read_kv : 'a1 disk -> slot -> (key * val0) option **)

let read_kv d sl =
  match find_dseg sl.sl_seg d with
  | Some s ->
    (match rec_at sl.sl_off (seg_entries s) with
     | Some r ->
       let kv = app r.rk r.rv in
       Some ((ntake sl.sl_ks kv), (ntake sl.sl_vs (ndrop sl.sl_ks kv)))
     | None -> None)
  | None -> None

(** val matchf : 'a1 disk -> key -> slot -> bool **)

let matchf d k sl =
  (&&) (N.eqb (u16 (nlen k)) sl.sl_ks)
    (match read_kv d sl with
     | Some p -> let (k', _) = p in key_eqb k k'
     | None -> false)

(** val track_del : slot -> 'a1 mem -> 'a1 mem **)

let track_del sl m =
  set_msegs m
    (upd_mseg sl.sl_seg (fun g ->
      set_gmeta g { sm_full = g.g_meta.sm_full; sm_put = g.g_meta.sm_put;
        sm_delrec = g.g_meta.sm_delrec; sm_delkeys =
        (u32 (N.add g.g_meta.sm_delkeys (Npos XH))); sm_delbytes =
        (u32
          (N.add g.g_meta.sm_delbytes
            (u32 (N.add rec_overhead (u32 (N.add sl.sl_ks sl.sl_vs)))))) })
      m.m_segs)

(** val cur_seg : 'a1 mem -> mseg option **)

let cur_seg m =
  if m.m_cur_removed
  then None
  else (match find_mseg (fst m.m_cur) m.m_segs with
        | Some g -> if N.eqb g.g_seq (snd m.m_cur) then Some g else None
        | None -> None)

(** val seal : 'a1 idx_ops -> n -> 'a1 st -> 'a1 mem -> 'a1 st * 'a1 mem **)

let seal ops id s m =
  match find_mseg id m.m_segs with
  | Some g ->
    if g.g_meta.sm_full
    then (s, m)
    else ((emit ops (ESync (FSeg (g.g_id, g.g_seq))) s),
           (set_msegs m
             (upd_mseg id (fun g0 -> set_gmeta g0 (set_full g0.g_meta))
               m.m_segs)))
  | None -> (s, m)

(** val lowest_free : n -> mseg list -> n **)

let rec lowest_free n0 = function
| [] -> n0
| g :: l' ->
  if N.eqb g.g_id n0 then lowest_free (N.add n0 (Npos XH)) l' else n0

(** val swap_segment :
    'a1 idx_ops -> 'a1 st -> 'a1 mem -> 'a1 st * 'a1 mem **)

let swap_segment ops s m =
  match find (fun g -> negb g.g_meta.sm_full) m.m_segs with
  | Some g -> (s, (set_cur m (g.g_id, g.g_seq) false))
  | None ->
    let id = lowest_free N0 m.m_segs in
    let seq = N.add m.m_maxseq (Npos XH) in
    let s1 =
      emits ops ((ECreate (FSeg (id, seq))) :: ((EHeader (FSeg (id,
        seq))) :: [])) s
    in
    let g = { g_id = id; g_seq = seq; g_size = header_size; g_meta = smeta0 }
    in
    (s1,
    (set_cur (set_maxseq (set_msegs m (insert_mseg g m.m_segs)) seq) (id,
      seq) false))

(** val count_rec : rec0 -> smeta -> smeta **)

let count_rec r sm =
  if r.rdel
  then { sm_full = sm.sm_full; sm_put = sm.sm_put; sm_delrec =
         (u32 (N.add sm.sm_delrec (Npos XH))); sm_delkeys = sm.sm_delkeys;
         sm_delbytes = sm.sm_delbytes }
  else { sm_full = sm.sm_full; sm_put = (u32 (N.add sm.sm_put (Npos XH)));
         sm_delrec = sm.sm_delrec; sm_delkeys = sm.sm_delkeys; sm_delbytes =
         sm.sm_delbytes }

(** val write_record :
    'a1 idx_ops -> params -> rec0 -> 'a1 st -> 'a1 mem -> ((('a1 st * 'a1
    mem) * n) * n) option **)

let write_record ops p r s m =
  let need_swap =
    match cur_seg m with
    | Some g ->
      (||) g.g_meta.sm_full (N.ltb p.p_maxseg (N.add g.g_size (rsize r)))
    | None -> true
  in
  let (s1, m1) =
    if need_swap
    then let (s0, m0) =
           match cur_seg m with
           | Some g -> seal ops g.g_id s m
           | None -> (s, m)
         in
         swap_segment ops s0 m0
    else (s, m)
  in
  (match cur_seg m1 with
   | Some g ->
     (match find_dseg g.g_id s1.s_disk with
      | Some f ->
        if negb ((&&) (N.eqb f.f_seq g.g_seq) (N.eqb (flen f) g.g_size))
        then None
        else let off = g.g_size in
             let s2 = emit ops (EAppend (g.g_id, g.g_seq, off, r)) s1 in
             let m2 =
               set_msegs m1
                 (upd_mseg g.g_id (fun g0 ->
                   set_gmeta (set_gsize g0 (N.add off (rsize r)))
                     (count_rec r g0.g_meta)) m1.m_segs)
             in
             Some (((s2, m2), g.g_id), (u32 off))
      | None -> None)
   | None -> None)

(** val do_sync : 'a1 idx_ops -> 'a1 st -> 'a1 mem -> 'a1 st **)

let do_sync ops s m =
  match cur_seg m with
  | Some g -> emit ops (ESync (FSeg (g.g_id, g.g_seq))) s
  | None -> s

(** val finish :
    'a1 idx_ops -> params -> 'a1 st -> 'a1 mem -> 'a1 st * out **)

let finish ops p s m =
  let s' = if p.p_sync then do_sync ops s m else s in ((with_mem m s'), OOk)

(** val db_put :
    'a1 idx_ops -> params -> key -> val0 -> 'a1 st -> 'a1 st * out **)

let db_put ops p k v s =
  match s.s_mem with
  | Some m ->
    if N.ltb max_key_len (nlen k)
    then (s, (OErr EKeyTooLarge))
    else if N.ltb max_val_len (nlen v)
         then (s, (OErr EValueTooLarge))
         else let h = p.p_hash m.m_seed k in
              (match write_record ops p (mkput k v) s m with
               | Some p0 ->
                 let (p1, off) = p0 in
                 let (p2, id) = p1 in
                 let (s1, m1) = p2 in
                 let sl = { sl_h = h; sl_seg = id; sl_ks = (u16 (nlen k));
                   sl_vs = (u32 (nlen v)); sl_off = off }
                 in
                 let (i2, old) =
                   ops.ix_put p.p_grow m1.m_idx sl (matchf s1.s_disk k)
                 in
                 let m2 = match old with
                          | Some o -> track_del o m1
                          | None -> m1
                 in
                 let s2 = emit ops (EIndex i2) s1 in
                 finish ops p s2 (set_idx m2 i2)
               | None -> (s, (OBroken (Npos XH))))
  | None -> (s, (OErr EClosed))

(** val add_delbytes : n -> n -> 'a1 mem -> 'a1 mem **)

let add_delbytes id n0 m =
  set_msegs m
    (upd_mseg id (fun g ->
      set_gmeta g { sm_full = g.g_meta.sm_full; sm_put = g.g_meta.sm_put;
        sm_delrec = g.g_meta.sm_delrec; sm_delkeys = g.g_meta.sm_delkeys;
        sm_delbytes = (u32 (N.add g.g_meta.sm_delbytes n0)) }) m.m_segs)

(** val db_delete : 'a1 idx_ops -> params -> key -> 'a1 st -> 'a1 st * out **)

let db_delete ops p k s =
  match s.s_mem with
  | Some m ->
    let h = p.p_hash m.m_seed k in
    let (i1, old) = ops.ix_del m.m_idx h (matchf s.s_disk k) in
    (match old with
     | Some o ->
       let m0 = track_del o m in
       (match write_record ops p (mkdel k) s m0 with
        | Some p0 ->
          let (p1, _) = p0 in
          let (p2, id) = p1 in
          let (s1, m1) = p2 in
          let m2 = add_delbytes id (u32 (rsize (mkdel k))) m1 in
          let s2 = emit ops (EIndex i1) s1 in finish ops p s2 (set_idx m2 i1)
        | None -> (s, (OBroken (Npos (XO XH)))))
     | None -> finish ops p s m)
  | None -> (s, (OErr EClosed))

(** val db_get : 'a1 idx_ops -> params -> key -> 'a1 st -> out **)

let db_get ops p k s =
  match s.s_mem with
  | Some m ->
    (match ops.ix_get m.m_idx (p.p_hash m.m_seed k) (matchf s.s_disk k) with
     | Some sl ->
       (match read_kv s.s_disk sl with
        | Some p0 -> let (_, v) = p0 in OVal (Some v)
        | None -> OBroken (Npos (XI XH)))
     | None -> OVal None)
  | None -> OErr EClosed

(** val db_get_append :
    'a1 idx_ops -> params -> key -> bytes -> 'a1 st -> out **)

let db_get_append ops p k buf s =
  match db_get ops p k s with
  | OVal v0 ->
    (match v0 with
     | Some v -> OVal (Some (app buf v))
     | None -> OVal None)
  | x -> x

(** val db_has : 'a1 idx_ops -> params -> key -> 'a1 st -> out **)

let db_has ops p k s =
  match s.s_mem with
  | Some m ->
    (match ops.ix_get m.m_idx (p.p_hash m.m_seed k) (matchf s.s_disk k) with
     | Some _ -> OBool true
     | None -> OBool false)
  | None -> OErr EClosed

(** val db_count : 'a1 idx_ops -> 'a1 st -> out **)

let db_count ops s =
  match s.s_mem with
  | Some m -> ONum (ops.ix_count m.m_idx)
  | None -> OErr EClosed

(** val read_slots : 'a1 disk -> slot list -> (key * val0) list option **)

let rec read_slots d = function
| [] -> Some []
| sl :: l' ->
  (match read_kv d sl with
   | Some kv ->
     (match read_slots d l' with
      | Some r -> Some (kv :: r)
      | None -> None)
   | None -> None)

(** val fetch_bucket :
    'a1 idx_ops -> 'a1 st -> n -> (key * val0) list option **)

let fetch_bucket ops s n0 =
  match s.s_mem with
  | Some m -> read_slots s.s_disk (ops.ix_bucket m.m_idx n0)
  | None -> None

(** val nseq : n -> nat -> n list **)

let rec nseq start = function
| O -> []
| S l -> start :: (nseq (N.add start (Npos XH)) l)

(** val db_items : 'a1 idx_ops -> 'a1 st -> out **)

let db_items ops s =
  match s.s_mem with
  | Some m ->
    let bs = nseq N0 (N.to_nat (ops.ix_nbuckets m.m_idx)) in
    let rec go = function
    | [] -> OItems []
    | n0 :: l' ->
      (match fetch_bucket ops s n0 with
       | Some a -> (match go l' with
                    | OItems b -> OItems (app a b)
                    | x -> x)
       | None -> OBroken (Npos (XO (XO XH))))
    in go bs
  | None -> OErr EClosed

(** val db_sync : 'a1 idx_ops -> 'a1 st -> 'a1 st * out **)

let db_sync ops s =
  match s.s_mem with
  | Some m -> ((do_sync ops s m), OOk)
  | None -> (s, (OErr EClosed))

(** val insert_by_seq : mseg -> mseg list -> mseg list **)

let rec insert_by_seq g l = match l with
| [] -> g :: []
| x :: l' ->
  if N.ltb g.g_seq x.g_seq then g :: l else x :: (insert_by_seq g l')

(** val by_seq : mseg list -> mseg list **)

let by_seq l =
  fold_left (fun acc g -> insert_by_seq g acc) l []

(** val pick_rev : params -> mseg list -> mseg list -> mseg list **)

let rec pick_rev p rev_segs picked =
  match rev_segs with
  | [] -> picked
  | g :: older ->
    if N.ltb (u32 g.g_size) p.p_minseg
    then pick_rev p older picked
    else if negb (p.p_frag g.g_meta.sm_delbytes g.g_size)
         then pick_rev p older picked
         else if N.ltb N0 g.g_meta.sm_delrec
              then app (rev older) (g :: picked)
              else pick_rev p older (g :: picked)

(** val pick : params -> 'a1 mem -> mseg list **)

let pick p m =
  pick_rev p (rev (by_seq m.m_segs)) []

type cursor = { c_todo : (n * n) list; c_src : ((n * n) * n) option;
                c_segs : n; c_recs : n; c_bytes : n }

(** val compact_pick :
    'a1 idx_ops -> params -> 'a1 st -> ('a1 st * cursor) option **)

let compact_pick ops p s =
  match s.s_mem with
  | Some m ->
    let picked = pick p m in
    let (s1, m1) =
      fold_left (fun sm g -> seal ops g.g_id (fst sm) (snd sm)) picked (s, m)
    in
    Some ((with_mem m1 s1), { c_todo =
    (map (fun g -> (g.g_id, g.g_seq)) picked); c_src = None; c_segs = N0;
    c_recs = N0; c_bytes = N0 })
  | None -> None

type 'i cstep =
| CDone
| CMore of 'i st * cursor
| CFail of n

(** val remove_segment :
    'a1 idx_ops -> n -> n -> 'a1 st -> 'a1 mem -> 'a1 st **)

let remove_segment ops id seq s m =
  let s1 = do_sync ops s m in
  let m1 = set_msegs m (filter (fun g -> negb (N.eqb g.g_id id)) m.m_segs) in
  let m2 =
    if (&&) (N.eqb (fst m.m_cur) id) (N.eqb (snd m.m_cur) seq)
    then set_cur m1 m.m_cur true
    else m1
  in
  let s2 =
    if exists_file s1.s_disk (FSegMeta (id, seq))
    then emit ops (ERemove (FSegMeta (id, seq))) s1
    else s1
  in
  with_mem m2 (emit ops (ERemove (FSeg (id, seq))) s2)

(** val compact_step :
    'a1 idx_ops -> params -> 'a1 st -> cursor -> 'a1 cstep **)

let compact_step ops p s c =
  match s.s_mem with
  | Some m ->
    (match c.c_src with
     | Some p0 ->
       let (p1, off) = p0 in
       let (id, seq) = p1 in
       (match find_dseg id s.s_disk with
        | Some f ->
          (match rec_at off (seg_entries f) with
           | Some r ->
             let next = Some ((id, seq), (N.add off (rsize r))) in
             let reclaimed = { c_todo = c.c_todo; c_src = next; c_segs =
               c.c_segs; c_recs = (N.add c.c_recs (Npos XH)); c_bytes =
               (N.add c.c_bytes (rsize r)) }
             in
             let kept = { c_todo = c.c_todo; c_src = next; c_segs = c.c_segs;
               c_recs = c.c_recs; c_bytes = c.c_bytes }
             in
             if r.rdel
             then CMore (s, reclaimed)
             else let h = p.p_hash m.m_seed r.rk in
                  (match ops.ix_repoint m.m_idx h id (u32 off) id (u32 off) with
                   | Some _ ->
                     (match write_record ops p r s m with
                      | Some p2 ->
                        let (p3, noff) = p2 in
                        let (p4, nid) = p3 in
                        let (s1, m1) = p4 in
                        (match ops.ix_repoint m1.m_idx h id (u32 off) nid noff with
                         | Some i2 ->
                           CMore
                             ((with_mem (set_idx m1 i2)
                                (emit ops (EIndex i2) s1)), kept)
                         | None -> CFail (Npos (XO (XI (XI XH)))))
                      | None -> CFail (Npos (XI (XO (XI XH)))))
                   | None -> CMore (s, reclaimed))
           | None ->
             if negb ((&&) (N.eqb (flen f) off) (N.eqb f.f_seq seq))
             then CFail (Npos (XO (XO (XI XH))))
             else CMore ((remove_segment ops id seq s m), { c_todo =
                    c.c_todo; c_src = None; c_segs =
                    (N.add c.c_segs (Npos XH)); c_recs = c.c_recs; c_bytes =
                    c.c_bytes }))
        | None -> CFail (Npos (XI (XI (XO XH)))))
     | None ->
       (match c.c_todo with
        | [] -> CDone
        | p0 :: todo ->
          let (id, seq) = p0 in
          let m1 =
            set_msegs m
              (upd_mseg id (fun g -> set_gmeta g (set_full g.g_meta))
                m.m_segs)
          in
          CMore ((with_mem m1 s), { c_todo = todo; c_src = (Some ((id, seq),
          header_size)); c_segs = c.c_segs; c_recs = c.c_recs; c_bytes =
          c.c_bytes })))
  | None -> CFail (Npos (XO (XI (XO XH))))

(** val compact_run :
    'a1 idx_ops -> params -> nat -> 'a1 st -> cursor -> 'a1 st * out **)

let rec compact_run ops p fuel s c =
  match fuel with
  | O -> (s, (OBroken (Npos (XI (XO XH)))))
  | S f ->
    (match compact_step ops p s c with
     | CDone -> (s, (OCompact (c.c_segs, c.c_recs, c.c_bytes)))
     | CMore (s', c') -> compact_run ops p f s' c'
     | CFail w -> (s, (OBroken w)))

(** val total_recs : 'a1 disk -> nat **)

let total_recs d =
  fold_right (fun f n0 -> add (length f.f_recs) n0) O d.d_segs

(** val db_compact : 'a1 idx_ops -> params -> 'a1 st -> 'a1 st * out **)

let db_compact ops p s =
  match compact_pick ops p s with
  | Some p0 ->
    let (s1, c) = p0 in
    compact_run ops p (S
      (add
        (add (mul (S (S O)) (length c.c_todo))
          (mul (S (S O)) (total_recs s1.s_disk))) (S (S O)))) s1 c
  | None -> (s, (OErr EClosed))

(** val gob_write : 'a1 idx_ops -> fname -> 'a1 fsev -> 'a1 st -> 'a1 st **)

let gob_write ops f body s =
  let s1 =
    if exists_file s.s_disk f
    then emit ops (ETrunc (f, N0)) s
    else emit ops (ECreate f) s
  in
  emits ops ((EHeader f) :: (body :: ((ESync f) :: []))) s1

(** val db_close : 'a1 idx_ops -> 'a1 st -> 'a1 st * out **)

let db_close ops s =
  match s.s_mem with
  | Some m ->
    let s1 = gob_write ops FDbMeta (EGobDb m.m_seed) s in
    let s2 =
      fold_left (fun s0 g ->
        gob_write ops (FSegMeta (g.g_id, g.g_seq)) (EGobSeg (g.g_id, g.g_seq,
          g.g_meta)) (emit ops (ESync (FSeg (g.g_id, g.g_seq))) s0)) m.m_segs
        s1
    in
    let s3 = gob_write ops FIndexMeta (EGobIndex m.m_idx) s2 in
    let s4 =
      emits ops ((ESync FMain) :: ((ESync FOverflow) :: ((ERemove
        FLock) :: []))) s3
    in
    ({ s_mem = None; s_disk = s4.s_disk; s_trace = s4.s_trace }, OOk)
  | None -> (s, (OErr EClosed))

(** val is_segfile : fname -> bool **)

let is_segfile = function
| FSeg (_, _) -> true
| _ -> false

(** val backup_nonseg : 'a1 idx_ops -> 'a1 st -> 'a1 st **)

let backup_nonseg ops s =
  fold_left (fun s0 f -> emit ops (ERename (f, (FBac f))) s0)
    (sort_names
      (filter (fun f -> negb ((||) (is_segfile f) (fname_eqb f FLock)))
        (dir s.s_disk))) s

(** val remove_bac : 'a1 idx_ops -> 'a1 st -> 'a1 st **)

let remove_bac ops s =
  fold_left (fun s0 f -> emit ops (ERemove f) s0) (sort_names s.s_disk.d_bac)
    s

(** val open_index : 'a1 idx_ops -> 'a1 st -> ('a1 st * 'a1) option **)

let open_index ops s =
  let fresh = match s.s_disk.d_index with
              | Some _ -> false
              | None -> true in
  let s1 =
    if fresh
    then emits ops ((ECreate FMain) :: ((EHeader FMain) :: [])) s
    else s
  in
  let s2 =
    if s1.s_disk.d_overflow
    then s1
    else emits ops ((ECreate FOverflow) :: ((EHeader FOverflow) :: [])) s1
  in
  if fresh
  then Some
         ((emits ops ((ETrunc (FMain,
            (N.add header_size (Npos (XO (XO (XO (XO (XO (XO (XO (XO (XO
              XH))))))))))))) :: ((EIndex ops.ix_empty) :: [])) s2),
         ops.ix_empty)
  else (match s2.s_disk.d_index with
        | Some i ->
          (match s2.s_disk.d_imeta with
           | GOk _ -> Some (s2, i)
           | _ -> None)
        | None -> None)

(** val insert_dseg : dseg -> dseg list -> dseg list **)

let rec insert_dseg f l = match l with
| [] -> f :: []
| g :: l' ->
  if lex_ltb (name_str (FSeg (f.f_id, f.f_seq)))
       (name_str (FSeg (g.f_id, g.f_seq)))
  then f :: l
  else g :: (insert_dseg f l')

(** val sort_segs : dseg list -> dseg list **)

let sort_segs l =
  fold_right insert_dseg [] l

(** val open_segments : 'a1 idx_ops -> 'a1 st -> 'a1 st * mseg list **)

let open_segments ops s =
  fold_left (fun acc f ->
    let (s0, l) = acc in
    let s1 =
      if f.f_hdr then s0 else emit ops (EHeader (FSeg (f.f_id, f.f_seq))) s0
    in
    let size =
      match find_dseg f.f_id s1.s_disk with
      | Some f' -> flen f'
      | None -> N0
    in
    let meta =
      if N.eqb size header_size
      then smeta0
      else (match f.f_meta with
            | GOk m -> m
            | _ -> smeta0)
    in
    (s1,
    (insert_mseg { g_id = f.f_id; g_seq = f.f_seq; g_size = size; g_meta =
      meta } l))) (sort_segs s.s_disk.d_segs) (s, [])

(** val replay_rec :
    'a1 idx_ops -> params -> 'a1 disk -> n -> n -> rec0 -> 'a1 mem -> 'a1 mem **)

let replay_rec ops p d id off r m =
  let h = p.p_hash m.m_seed r.rk in
  if r.rdel
  then let (i1, old) = ops.ix_del m.m_idx h (matchf d r.rk) in
       let m1 = match old with
                | Some o -> track_del o m
                | None -> m in
       let m2 = set_idx m1 i1 in
       set_msegs m2
         (upd_mseg id (fun g ->
           set_gmeta g { sm_full = g.g_meta.sm_full; sm_put =
             g.g_meta.sm_put; sm_delrec =
             (u32 (N.add g.g_meta.sm_delrec (Npos XH))); sm_delkeys =
             g.g_meta.sm_delkeys; sm_delbytes =
             (u32 (N.add g.g_meta.sm_delbytes (u32 (rsize r)))) }) m2.m_segs)
  else let sl = { sl_h = h; sl_seg = id; sl_ks = (u16 (nlen r.rk)); sl_vs =
         (u32 (nlen r.rv)); sl_off = (u32 off) }
       in
       let (i1, old) = ops.ix_put p.p_grow m.m_idx sl (matchf d r.rk) in
       let m1 = match old with
                | Some o -> track_del o m
                | None -> m in
       let m2 = set_idx m1 i1 in
       set_msegs m2
         (upd_mseg id (fun g ->
           set_gmeta g { sm_full = g.g_meta.sm_full; sm_put =
             (u32 (N.add g.g_meta.sm_put (Npos XH))); sm_delrec =
             g.g_meta.sm_delrec; sm_delkeys = g.g_meta.sm_delkeys;
             sm_delbytes = g.g_meta.sm_delbytes }) m2.m_segs)

(** val reframe : n -> n -> rec0 list -> n -> 'a1 st -> 'a1 st **)

let reframe id seq extra n0 s =
  { s_mem = s.s_mem; s_disk =
    (upd_seg id seq (fun f -> { f_id = f.f_id; f_seq = f.f_seq; f_hdr =
      f.f_hdr; f_recs = (app f.f_recs extra); f_tail = (ndrop n0 f.f_tail);
      f_meta = f.f_meta }) s.s_disk); s_trace = s.s_trace }

(** val recover_segment :
    'a1 idx_ops -> params -> n -> n -> 'a1 st -> 'a1 mem -> 'a1 st * 'a1 mem **)

let recover_segment ops p id seq s m =
  match find_dseg id s.s_disk with
  | Some f ->
    let (p0, why) = parse_tail f.f_tail in
    let (extra, n0) = p0 in
    let valid = N.add (N.add header_size (recs_len f.f_recs)) n0 in
    let s0 = reframe id seq extra n0 s in
    let s1 =
      match why with
      | SEnd -> s0
      | _ -> emit ops (ETrunc ((FSeg (id, seq)), valid)) s0
    in
    let m1 =
      match why with
      | SEnd -> m
      | _ -> set_msegs m (upd_mseg id (fun g -> set_gsize g valid) m.m_segs)
    in
    let entries = with_offsets header_size (app f.f_recs extra) in
    (s1,
    (fold_left (fun m0 e -> replay_rec ops p s1.s_disk id (fst e) (snd e) m0)
      entries m1))
  | None -> (s, m)

(** val seal_all_but_last : mseg list -> 'a1 mem -> 'a1 mem **)

let seal_all_but_last l m =
  fold_left (fun m0 g ->
    set_msegs m0
      (upd_mseg g.g_id (fun g0 -> set_gmeta g0 (set_full g0.g_meta))
        m0.m_segs)) (removelast l) m

(** val recover :
    'a1 idx_ops -> params -> 'a1 st -> 'a1 mem -> 'a1 st * 'a1 mem **)

let recover ops p s m =
  let order = by_seq m.m_segs in
  let (s1, m1) =
    fold_left (fun sm g ->
      recover_segment ops p g.g_id g.g_seq (fst sm) (snd sm)) order (s, m)
  in
  let m2 = seal_all_but_last order m1 in
  let s2 = emit ops (EIndex m2.m_idx) s1 in ((remove_bac ops s2), m2)

(** val db_open : 'a1 idx_ops -> params -> n -> 'a1 st -> 'a1 st * out **)

let db_open ops p seed s =
  match s.s_mem with
  | Some _ -> (s, (OErr ELocked))
  | None ->
    let existing = s.s_disk.d_lock in
    let s0 = if existing then s else emit ops (ECreate FLock) s in
    let s1 = if existing then backup_nonseg ops s0 else s0 in
    (match open_index ops s1 with
     | Some p0 ->
       let (s2, i) = p0 in
       let (s3, segs) = open_segments ops s2 in
       let maxseq = fold_left (fun n0 g -> N.max n0 g.g_seq) segs N0 in
       let m0 = { m_segs = segs; m_cur = (N0, N0); m_cur_removed = true;
         m_maxseq = maxseq; m_idx = i; m_seed = seed }
       in
       let (s4, m1) = swap_segment ops s3 m0 in
       let seed_ok =
         if N.eqb (ops.ix_count i) N0
         then Some seed
         else (match s4.s_disk.d_dbmeta with
               | GOk sd -> Some sd
               | _ -> None)
       in
       (match seed_ok with
        | Some sd ->
          let m2 = { m_segs = m1.m_segs; m_cur = m1.m_cur; m_cur_removed =
            m1.m_cur_removed; m_maxseq = m1.m_maxseq; m_idx = m1.m_idx;
            m_seed = sd }
          in
          if existing
          then let (s5, m3) = recover ops p s4 m2 in
               ((with_mem m3 s5), (OOpened true))
          else ((with_mem m2 s4), (OOpened false))
        | None -> (s4, (OErr EOpenFailed)))
     | None -> (s1, (OErr EOpenFailed)))

(** val backup_plan : 'a1 mem -> ((n * n) * n option) list **)

let backup_plan m =
  map (fun g -> ((g.g_id, g.g_seq),
    (if g.g_meta.sm_full then None else Some g.g_size))) (by_seq m.m_segs)

(** val copy_seg : 'a1 disk -> ((n * n) * n option) -> dseg option **)

let copy_seg d = function
| (p0, lim) ->
  let (id, seq) = p0 in
  (match find (is_seg id seq) d.d_segs with
   | Some f ->
     Some
       (match lim with
        | Some n0 -> set_fmeta GAbsent (trunc_seg n0 f)
        | None -> set_fmeta GAbsent f)
   | None -> None)

(** val backup_disk : dseg list -> 'a1 disk **)

let backup_disk copies =
  { d_segs = copies; d_orphans = []; d_index = None; d_overflow = false;
    d_imeta = GAbsent; d_dbmeta = GAbsent; d_lock = true; d_bac = [] }

(** val db_backup : 'a1 st -> 'a1 disk option **)

let db_backup s =
  match s.s_mem with
  | Some m ->
    option_map backup_disk
      (let rec go = function
       | [] -> Some []
       | p :: l' ->
         (match copy_seg s.s_disk p with
          | Some c ->
            (match go l' with
             | Some r -> Some (c :: r)
             | None -> None)
          | None -> None)
       in go (backup_plan m))
  | None -> None

(** val insert_dseg_seq : dseg -> dseg list -> dseg list **)

let rec insert_dseg_seq f l = match l with
| [] -> f :: []
| x :: l' ->
  if N.ltb f.f_seq x.f_seq then f :: l else x :: (insert_dseg_seq f l')

(** val dby_seq : dseg list -> dseg list **)

let dby_seq l =
  fold_left (fun acc f -> insert_dseg_seq f acc) l []

type entry = (n * n) * rec0

(** val dseg_entries : dseg -> entry list **)

let dseg_entries f =
  map (fun p -> ((f.f_id, (fst p)), (snd p))) (seg_entries f)

(** val olog : flat disk -> entry list **)

let olog d =
  concat (map dseg_entries (dby_seq d.d_segs))

(** val apply_rec : smap -> entry -> smap **)

let apply_rec m e =
  let r = snd e in if r.rdel then sdel m r.rk else sput m r.rk r.rv

(** val abs : flat disk -> smap **)

let abs d =
  fold_left apply_rec (olog d) []

(** val upd_ptr :
    (key -> (n * n) option) -> entry -> key -> (n * n) option **)

let upd_ptr m e k =
  if key_eqb k (snd e).rk
  then if (snd e).rdel then None else Some ((fst (fst e)), (snd (fst e)))
  else m k

(** val ptr_of : flat disk -> key -> (n * n) option **)

let ptr_of d =
  fold_left upd_ptr (olog d) (fun _ -> None)

(** val slot_key : flat disk -> slot -> key **)

let slot_key d sl =
  match read_kv d sl with
  | Some p -> let (k, _) = p in k
  | None -> []

(** val forallb2 : ('a1 -> 'a1 -> bool) -> 'a1 list -> bool **)

let forallb2 p l =
  forallb (fun x -> forallb (p x) l) l

(** val nodupb : ('a1 -> 'a1 -> bool) -> 'a1 list -> bool **)

let rec nodupb eqb0 = function
| [] -> true
| x :: l' -> (&&) (negb (existsb (eqb0 x) l')) (nodupb eqb0 l')

(** val rec_fits_b : rec0 -> bool **)

let rec_fits_b r =
  (&&)
    ((&&)
      ((&&)
        (forallb (fun b ->
          N.ltb b (Npos (XO (XO (XO (XO (XO (XO (XO (XO XH)))))))))) r.rk)
        (forallb (fun b ->
          N.ltb b (Npos (XO (XO (XO (XO (XO (XO (XO (XO XH)))))))))) r.rv))
      (N.leb (nlen r.rk) max_key_len)) (N.leb (nlen r.rv) max_val_len)

(** val tail_stuck_b : bytes -> bool **)

let tail_stuck_b t =
  let (p, _) = parse_tail t in
  let (rs, n0) = p in (match rs with
                       | [] -> N.eqb n0 N0
                       | _ :: _ -> false)

(** val dseg_ok_b : dseg -> bool **)

let dseg_ok_b f =
  (&&)
    ((&&)
      ((&&) ((&&) (forallb rec_fits_b f.f_recs) (tail_stuck_b f.f_tail))
        (forallb (fun b ->
          N.ltb b (Npos (XO (XO (XO (XO (XO (XO (XO (XO XH)))))))))) f.f_tail))
      ((||) f.f_hdr
        (match f.f_recs with
         | [] -> (match f.f_tail with
                  | [] -> true
                  | _ :: _ -> false)
         | _ :: _ -> false)))
    (N.ltb (N.add header_size (recs_len f.f_recs)) (Npos (XO (XO (XO (XO (XO
      (XO (XO (XO (XO (XO (XO (XO (XO (XO (XO (XO (XO (XO (XO (XO (XO (XO (XO
      (XO (XO (XO (XO (XO (XO (XO (XO (XO XH))))))))))))))))))))))))))))))))))

(** val disk_ok_b : flat disk -> bool **)

let disk_ok_b d =
  (&&)
    ((&&) (forallb dseg_ok_b d.d_segs)
      (nodupb N.eqb (map (fun d0 -> d0.f_id) d.d_segs)))
    (nodupb N.eqb (map (fun d0 -> d0.f_seq) d.d_segs))

(** val slot_ok_b : params -> flat disk -> n -> slot -> bool **)

let slot_ok_b p d seed sl =
  match find_dseg sl.sl_seg d with
  | Some f ->
    (match rec_at sl.sl_off (seg_entries f) with
     | Some r ->
       (&&)
         ((&&) ((&&) (negb r.rdel) (N.eqb sl.sl_ks (nlen r.rk)))
           (N.eqb sl.sl_vs (nlen r.rv))) (N.eqb sl.sl_h (p.p_hash seed r.rk))
     | None -> false)
  | None -> false

(** val ptr_eqb : (n * n) option -> (n * n) option -> bool **)

let ptr_eqb a b =
  match a with
  | Some p ->
    let (x, y) = p in
    (match b with
     | Some p0 -> let (x', y') = p0 in (&&) (N.eqb x x') (N.eqb y y')
     | None -> false)
  | None -> (match b with
             | Some _ -> false
             | None -> true)

(** val inv_b : params -> flat st -> bool **)

let inv_b p s =
  match s.s_mem with
  | Some m ->
    let d = s.s_disk in
    (&&)
      ((&&)
        ((&&)
          ((&&)
            ((&&)
              ((&&)
                ((&&)
                  ((&&)
                    ((&&)
                      ((&&)
                        ((&&)
                          ((&&) (disk_ok_b d)
                            (forallb (fun g ->
                              existsb (fun f ->
                                (&&)
                                  ((&&)
                                    ((&&)
                                      ((&&) (N.eqb f.f_id g.g_id)
                                        (N.eqb f.f_seq g.g_seq)) f.f_hdr)
                                    (match f.f_tail with
                                     | [] -> true
                                     | _ :: _ -> false))
                                  (N.eqb (flen f) g.g_size)) d.d_segs)
                              m.m_segs))
                          (forallb (fun f ->
                            existsb (fun g ->
                              (&&) (N.eqb g.g_id f.f_id)
                                (N.eqb g.g_seq f.f_seq)) m.m_segs) d.d_segs))
                        (let rec inc = function
                         | [] -> true
                         | g :: l' ->
                           (&&) (forallb (fun g' -> N.ltb g.g_id g'.g_id) l')
                             (inc l')
                         in inc m.m_segs))
                      (forallb (fun g -> N.leb g.g_seq m.m_maxseq) m.m_segs))
                    (forallb2 (fun g g' ->
                      (||) g.g_meta.sm_full (N.leb g'.g_seq g.g_seq))
                      m.m_segs))
                  ((||) m.m_cur_removed
                    (existsb (fun g ->
                      (&&) (N.eqb g.g_id (fst m.m_cur))
                        (N.eqb g.g_seq (snd m.m_cur))) m.m_segs)))
                (forallb (slot_ok_b p d m.m_seed) m.m_idx))
              (nodupb key_eqb (map (slot_key d) m.m_idx)))
            (forallb (fun k ->
              ptr_eqb (ptr_of d k)
                (option_map (fun sl -> (sl.sl_seg, sl.sl_off))
                  (find (fun sl -> key_eqb k (slot_key d sl)) m.m_idx)))
              (app (map (fun e -> (snd e).rk) (olog d))
                (map (slot_key d) m.m_idx)))) d.d_lock)
        (match d.d_index with
         | Some _ -> true
         | None -> false)) d.d_overflow
  | None -> disk_ok_b s.s_disk
