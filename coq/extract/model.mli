
val negb : bool -> bool

type nat =
| O
| S of nat

val option_map : ('a1 -> 'a2) -> 'a1 option -> 'a2 option

val fst : ('a1 * 'a2) -> 'a1

val snd : ('a1 * 'a2) -> 'a2

val length : 'a1 list -> nat

val app : 'a1 list -> 'a1 list -> 'a1 list

type comparison =
| Eq
| Lt
| Gt

val add : nat -> nat -> nat

val mul : nat -> nat -> nat

val sub : nat -> nat -> nat

type positive =
| XI of positive
| XO of positive
| XH

type n =
| N0
| Npos of positive

module Nat :
 sig
  val leb : nat -> nat -> bool

  val ltb : nat -> nat -> bool
 end

module Pos :
 sig
  type mask =
  | IsNul
  | IsPos of positive
  | IsNeg
 end

module Coq_Pos :
 sig
  val succ : positive -> positive

  val add : positive -> positive -> positive

  val add_carry : positive -> positive -> positive

  val pred_double : positive -> positive

  val pred : positive -> positive

  val pred_N : positive -> n

  type mask = Pos.mask =
  | IsNul
  | IsPos of positive
  | IsNeg

  val succ_double_mask : mask -> mask

  val double_mask : mask -> mask

  val double_pred_mask : positive -> mask

  val sub_mask : positive -> positive -> mask

  val sub_mask_carry : positive -> positive -> mask

  val mul : positive -> positive -> positive

  val iter : ('a1 -> 'a1) -> 'a1 -> positive -> 'a1

  val pow : positive -> positive -> positive

  val compare_cont : comparison -> positive -> positive -> comparison

  val compare : positive -> positive -> comparison

  val eqb : positive -> positive -> bool

  val coq_Nsucc_double : n -> n

  val coq_Ndouble : n -> n

  val coq_lor : positive -> positive -> positive

  val coq_land : positive -> positive -> n

  val coq_lxor : positive -> positive -> n

  val shiftl : positive -> n -> positive

  val iter_op : ('a1 -> 'a1 -> 'a1) -> positive -> 'a1 -> 'a1

  val to_nat : positive -> nat

  val eq_dec : positive -> positive -> bool
 end

module N :
 sig
  val succ_double : n -> n

  val double : n -> n

  val succ : n -> n

  val pred : n -> n

  val add : n -> n -> n

  val sub : n -> n -> n

  val mul : n -> n -> n

  val compare : n -> n -> comparison

  val eqb : n -> n -> bool

  val leb : n -> n -> bool

  val ltb : n -> n -> bool

  val max : n -> n -> n

  val div2 : n -> n

  val even : n -> bool

  val odd : n -> bool

  val pow : n -> n -> n

  val pos_div_eucl : positive -> n -> n * n

  val div_eucl : n -> n -> n * n

  val div : n -> n -> n

  val modulo : n -> n -> n

  val coq_lor : n -> n -> n

  val coq_land : n -> n -> n

  val coq_lxor : n -> n -> n

  val shiftl : n -> n -> n

  val shiftr : n -> n -> n

  val to_nat : n -> nat

  val eq_dec : n -> n -> bool

  val ones : n -> n
 end

val nth : nat -> 'a1 list -> 'a1 -> 'a1

val removelast : 'a1 list -> 'a1 list

val rev : 'a1 list -> 'a1 list

val concat : 'a1 list list -> 'a1 list

val list_eq_dec : ('a1 -> 'a1 -> bool) -> 'a1 list -> 'a1 list -> bool

val map : ('a1 -> 'a2) -> 'a1 list -> 'a2 list

val fold_left : ('a1 -> 'a2 -> 'a1) -> 'a2 list -> 'a1 -> 'a1

val fold_right : ('a2 -> 'a1 -> 'a1) -> 'a1 -> 'a2 list -> 'a1

val existsb : ('a1 -> bool) -> 'a1 list -> bool

val forallb : ('a1 -> bool) -> 'a1 list -> bool

val filter : ('a1 -> bool) -> 'a1 list -> 'a1 list

val find : ('a1 -> bool) -> 'a1 list -> 'a1 option

val skipn : nat -> 'a1 list -> 'a1 list

val repeat : 'a1 -> nat -> 'a1 list

type bytes = n list

type key = bytes

type val0 = bytes

val nlen : 'a1 list -> n

val ntake_pos : positive -> 'a1 list -> 'a1 list

val ntake : n -> 'a1 list -> 'a1 list

val ndrop_pos : positive -> 'a1 list -> 'a1 list

val ndrop : n -> 'a1 list -> 'a1 list

val bytes_eqb : bytes -> bytes -> bool

val key_eqb : bytes -> bytes -> bool

val u16 : n -> n

val u32 : n -> n

type rec0 = { rk : key; rv : val0; rdel : bool }

val mkput : key -> val0 -> rec0

val mkdel : key -> rec0

type slot = { sl_h : n; sl_seg : n; sl_ks : n; sl_vs : n; sl_off : n }

type 'i idx_ops = { ix_empty : 'i;
                    ix_get : ('i -> n -> (slot -> bool) -> slot option);
                    ix_put : ((n -> n -> bool) -> 'i -> slot -> (slot ->
                             bool) -> 'i * slot option);
                    ix_del : ('i -> n -> (slot -> bool) -> 'i * slot option);
                    ix_repoint : ('i -> n -> n -> n -> n -> n -> 'i option);
                    ix_count : ('i -> n); ix_nbuckets : ('i -> n);
                    ix_bucket : ('i -> n -> slot list) }

val poly : n

val mask32 : n

val step : n -> n

val iter0 : nat -> (n -> n) -> n -> n

val upd : n -> n -> n

val crc_state : n list -> n -> n

val crc32 : n list -> n

val le : nat -> n -> bytes

val unle : bytes -> n

val header_size : n

val format_version : n

val signature : bytes

val delbit : n

val rec_overhead : n

val max_key_len : n

val max_val_len : n

val zeros : nat -> bytes

val header_bytes : bytes

val header_ok : bytes -> bool

val rsize : rec0 -> n

val vfield : rec0 -> n

val enc_body : rec0 -> bytes

val encode_rec : rec0 -> bytes

type dres =
| DDone
| DShort
| DCorrupt
| DOk of rec0 * n * bytes

val decode_next : bytes -> dres

type stop =
| SEnd
| SShort
| SCorrupt
| SFuel

val parse_fuel : nat -> bytes -> (rec0 list * n) * stop

val parse_tail : bytes -> (rec0 list * n) * stop

val parse_file : bytes -> ((rec0 list * n) * stop) option

val decode_alloc : bytes -> n

val parse_alloc : nat -> bytes -> n

type flat = slot list

val fl_hit : n -> (slot -> bool) -> slot -> bool

val fl_get : flat -> n -> (slot -> bool) -> slot option

val fl_replace : (slot -> bool) -> slot -> flat -> (flat * slot) option

val fl_put :
  (n -> n -> bool) -> flat -> slot -> (slot -> bool) -> flat * slot option

val fl_remove : (slot -> bool) -> flat -> (flat * slot) option

val fl_del : flat -> n -> (slot -> bool) -> flat * slot option

val fl_points : n -> n -> n -> slot -> bool

val repointed : slot -> n -> n -> slot

val fl_repoint : flat -> n -> n -> n -> n -> n -> flat option

val flat_ops : flat idx_ops

val lupd : nat -> 'a1 -> 'a1 list -> 'a1 list

val bucket_index : n -> n -> n -> n

val advance : n -> n -> n * n

val cap : nat

type bucket = slot list

type chain = bucket list

val hit : n -> (slot -> bool) -> slot -> bool

val rp_hit : n -> n -> n -> slot -> bool

val rp_new : n -> n -> slot -> slot

val chain_find : (slot -> bool) -> chain -> slot option

val bucket_subst :
  (slot -> bool) -> (slot -> slot list) -> bucket -> (bucket * slot) option

val chain_subst :
  (slot -> bool) -> (slot -> slot list) -> chain -> (chain * slot) option

val insert_free : slot -> chain -> chain

val chain_put : (slot -> bool) -> slot -> chain -> chain * slot option

val sw_insert : slot -> chain -> chain

val split_step : n -> n -> n -> (chain * chain) -> slot -> chain * chain

type pindex = { px_level : n; px_split : n; px_nkeys : n;
                px_chains : chain list }

val px_level : pindex -> n

val px_split : pindex -> n

val px_nkeys : pindex -> n

val px_chains : pindex -> chain list

val px_empty : pindex

val px_bidx : pindex -> n -> n

val px_chain : pindex -> n -> chain

val px_set : pindex -> n -> chain -> n -> pindex

val px_count : pindex -> n

val px_nbuckets : pindex -> n

val px_bucket : pindex -> n -> slot list

val px_get : pindex -> n -> (slot -> bool) -> slot option

val px_dosplit : pindex -> pindex

val px_put_core : pindex -> slot -> (slot -> bool) -> pindex * slot option

val px_put_with :
  (pindex -> slot -> (slot -> bool) -> pindex * slot option) -> (n -> n ->
  bool) -> pindex -> slot -> (slot -> bool) -> pindex * slot option

val px_put :
  (n -> n -> bool) -> pindex -> slot -> (slot -> bool) -> pindex * slot option

val px_del : pindex -> n -> (slot -> bool) -> pindex * slot option

val px_repoint : pindex -> n -> n -> n -> n -> n -> pindex option

val chain_ops : pindex idx_ops

type smap = (key * val0) list

val sget : smap -> key -> val0 option

val sdel : smap -> key -> smap

val sput : smap -> key -> val0 -> smap

val scount : smap -> n

type params = { p_maxseg : n; p_minseg : n; p_frag : (n -> n -> bool);
                p_sync : bool; p_grow : (n -> n -> bool);
                p_hash : (n -> key -> n) }

type fname =
| FSeg of n * n
| FSegMeta of n * n
| FMain
| FOverflow
| FIndexMeta
| FDbMeta
| FLock
| FBac of fname

val fname_eqb : fname -> fname -> bool

val digits_fuel : nat -> n -> bytes -> bytes

val decimal : n -> bytes

val pad5 : bytes -> bytes

val ext_psg : bytes

val ext_pmt : bytes

val ext_pix : bytes

val ext_bac : bytes

val name_str : fname -> bytes

val lex_ltb : bytes -> bytes -> bool

val insert_name : fname -> fname list -> fname list

val sort_names : fname list -> fname list

type smeta = { sm_full : bool; sm_put : n; sm_delrec : n; sm_delkeys : 
               n; sm_delbytes : n }

val smeta0 : smeta

type 'a gob =
| GAbsent
| GPartial
| GOk of 'a

val gob_present : 'a1 gob -> bool

type dseg = { f_id : n; f_seq : n; f_hdr : bool; f_recs : rec0 list;
              f_tail : bytes; f_meta : smeta gob }

type 'i disk = { d_segs : dseg list; d_orphans : (n * n) list;
                 d_index : 'i option; d_overflow : bool; d_imeta : 'i gob;
                 d_dbmeta : n gob; d_lock : bool; d_bac : fname list }

val disk0 : 'a1 disk

type 'i fsev =
| ECreate of fname
| EHeader of fname
| EAppend of n * n * n * rec0
| EIndex of 'i
| EGobSeg of n * n * smeta
| EGobIndex of 'i
| EGobDb of n
| ETrunc of fname * n
| ERename of fname * fname
| ERemove of fname
| ESync of fname

val seg_names : 'a1 disk -> fname list

val dir : 'a1 disk -> fname list

val exists_file : 'a1 disk -> fname -> bool

val is_seg : n -> n -> dseg -> bool

val upd_seg : n -> n -> (dseg -> dseg) -> 'a1 disk -> 'a1 disk

val set_segs : 'a1 disk -> dseg list -> 'a1 disk

val set_orphans : 'a1 disk -> (n * n) list -> 'a1 disk

val set_index : 'a1 disk -> 'a1 option -> 'a1 disk

val set_overflow : 'a1 disk -> bool -> 'a1 disk

val set_imeta : 'a1 disk -> 'a1 gob -> 'a1 disk

val set_dbmeta : 'a1 disk -> n gob -> 'a1 disk

val set_lock : 'a1 disk -> bool -> 'a1 disk

val set_bac : 'a1 disk -> fname list -> 'a1 disk

val set_fmeta : smeta gob -> dseg -> dseg

val recs_len : rec0 list -> n

val flen : dseg -> n

val with_offsets : n -> rec0 list -> (n * rec0) list

val seg_entries : dseg -> (n * rec0) list

val trunc_recs : n -> n -> rec0 list -> rec0 list * n

val file_bytes_from : rec0 list -> bytes -> bytes

val trunc_seg : n -> dseg -> dseg

val append_seg : n -> rec0 -> dseg -> dseg

val remove_name : fname -> fname list -> fname list

val file_removed : fname -> 'a1 disk -> 'a1 disk

val apply_ev : 'a1 idx_ops -> 'a1 disk -> 'a1 fsev -> 'a1 disk

type mseg = { g_id : n; g_seq : n; g_size : n; g_meta : smeta }

type 'i mem = { m_segs : mseg list; m_cur : (n * n); m_cur_removed : 
                bool; m_maxseq : n; m_idx : 'i; m_seed : n }

type 'i st = { s_mem : 'i mem option; s_disk : 'i disk; s_trace : 'i fsev list }

val emit : 'a1 idx_ops -> 'a1 fsev -> 'a1 st -> 'a1 st

val emits : 'a1 idx_ops -> 'a1 fsev list -> 'a1 st -> 'a1 st

val with_mem : 'a1 mem -> 'a1 st -> 'a1 st

val clear_trace : 'a1 st -> 'a1 st

val set_msegs : 'a1 mem -> mseg list -> 'a1 mem

val set_idx : 'a1 mem -> 'a1 -> 'a1 mem

val set_cur : 'a1 mem -> (n * n) -> bool -> 'a1 mem

val set_maxseq : 'a1 mem -> n -> 'a1 mem

val set_gmeta : mseg -> smeta -> mseg

val set_gsize : mseg -> n -> mseg

val set_full : smeta -> smeta

val find_mseg : n -> mseg list -> mseg option

val upd_mseg : n -> (mseg -> mseg) -> mseg list -> mseg list

val insert_mseg : mseg -> mseg list -> mseg list

val find_dseg : n -> 'a1 disk -> dseg option

type err =
| EKeyTooLarge
| EValueTooLarge
| EClosed
| ELocked
| EOpenFailed

type out =
| OOk
| OErr of err
| OVal of val0 option
| OBool of bool
| ONum of n
| OItems of (key * val0) list
| OCompact of n * n * n
| OOpened of bool
| OBroken of n

val rec_at : n -> (n * rec0) list -> rec0 option

val read_kv : 'a1 disk -> slot -> (key * val0) option

val matchf : 'a1 disk -> key -> slot -> bool

val track_del : slot -> 'a1 mem -> 'a1 mem

val cur_seg : 'a1 mem -> mseg option

val seal : 'a1 idx_ops -> n -> 'a1 st -> 'a1 mem -> 'a1 st * 'a1 mem

val lowest_free : n -> mseg list -> n

val swap_segment : 'a1 idx_ops -> 'a1 st -> 'a1 mem -> 'a1 st * 'a1 mem

val count_rec : rec0 -> smeta -> smeta

val write_record :
  'a1 idx_ops -> params -> rec0 -> 'a1 st -> 'a1 mem -> ((('a1 st * 'a1
  mem) * n) * n) option

val do_sync : 'a1 idx_ops -> 'a1 st -> 'a1 mem -> 'a1 st

val finish : 'a1 idx_ops -> params -> 'a1 st -> 'a1 mem -> 'a1 st * out

val db_put : 'a1 idx_ops -> params -> key -> val0 -> 'a1 st -> 'a1 st * out

val add_delbytes : n -> n -> 'a1 mem -> 'a1 mem

val db_delete : 'a1 idx_ops -> params -> key -> 'a1 st -> 'a1 st * out

val db_get : 'a1 idx_ops -> params -> key -> 'a1 st -> out

val db_get_append : 'a1 idx_ops -> params -> key -> bytes -> 'a1 st -> out

val db_has : 'a1 idx_ops -> params -> key -> 'a1 st -> out

val db_count : 'a1 idx_ops -> 'a1 st -> out

val read_slots : 'a1 disk -> slot list -> (key * val0) list option

val fetch_bucket : 'a1 idx_ops -> 'a1 st -> n -> (key * val0) list option

val nseq : n -> nat -> n list

val db_items : 'a1 idx_ops -> 'a1 st -> out

val db_sync : 'a1 idx_ops -> 'a1 st -> 'a1 st * out

val insert_by_seq : mseg -> mseg list -> mseg list

val by_seq : mseg list -> mseg list

val pick_rev : params -> mseg list -> mseg list -> mseg list

val pick : params -> 'a1 mem -> mseg list

type cursor = { c_todo : (n * n) list; c_src : ((n * n) * n) option;
                c_segs : n; c_recs : n; c_bytes : n }

val compact_pick : 'a1 idx_ops -> params -> 'a1 st -> ('a1 st * cursor) option

type 'i cstep =
| CDone
| CMore of 'i st * cursor
| CFail of n

val remove_segment : 'a1 idx_ops -> n -> n -> 'a1 st -> 'a1 mem -> 'a1 st

val compact_step : 'a1 idx_ops -> params -> 'a1 st -> cursor -> 'a1 cstep

val compact_run :
  'a1 idx_ops -> params -> nat -> 'a1 st -> cursor -> 'a1 st * out

val total_recs : 'a1 disk -> nat

val db_compact : 'a1 idx_ops -> params -> 'a1 st -> 'a1 st * out

val gob_write : 'a1 idx_ops -> fname -> 'a1 fsev -> 'a1 st -> 'a1 st

val db_close : 'a1 idx_ops -> 'a1 st -> 'a1 st * out

val is_segfile : fname -> bool

val backup_nonseg : 'a1 idx_ops -> 'a1 st -> 'a1 st

val remove_bac : 'a1 idx_ops -> 'a1 st -> 'a1 st

val open_index : 'a1 idx_ops -> 'a1 st -> ('a1 st * 'a1) option

val insert_dseg : dseg -> dseg list -> dseg list

val sort_segs : dseg list -> dseg list

val open_segments : 'a1 idx_ops -> 'a1 st -> 'a1 st * mseg list

val replay_rec :
  'a1 idx_ops -> params -> 'a1 disk -> n -> n -> rec0 -> 'a1 mem -> 'a1 mem

val reframe : n -> n -> rec0 list -> n -> 'a1 st -> 'a1 st

val recover_segment :
  'a1 idx_ops -> params -> n -> n -> 'a1 st -> 'a1 mem -> 'a1 st * 'a1 mem

val seal_all_but_last : mseg list -> 'a1 mem -> 'a1 mem

val recover : 'a1 idx_ops -> params -> 'a1 st -> 'a1 mem -> 'a1 st * 'a1 mem

val db_open : 'a1 idx_ops -> params -> n -> 'a1 st -> 'a1 st * out

val backup_plan : 'a1 mem -> ((n * n) * n option) list

val copy_seg : 'a1 disk -> ((n * n) * n option) -> dseg option

val backup_disk : dseg list -> 'a1 disk

val db_backup : 'a1 st -> 'a1 disk option

val insert_dseg_seq : dseg -> dseg list -> dseg list

val dby_seq : dseg list -> dseg list

type entry = (n * n) * rec0

val dseg_entries : dseg -> entry list

val olog : flat disk -> entry list

val apply_rec : smap -> entry -> smap

val abs : flat disk -> smap

val upd_ptr : (key -> (n * n) option) -> entry -> key -> (n * n) option

val ptr_of : flat disk -> key -> (n * n) option

val slot_key : flat disk -> slot -> key

val forallb2 : ('a1 -> 'a1 -> bool) -> 'a1 list -> bool

val nodupb : ('a1 -> 'a1 -> bool) -> 'a1 list -> bool

val rec_fits_b : rec0 -> bool

val tail_stuck_b : bytes -> bool

val dseg_ok_b : dseg -> bool

val disk_ok_b : flat disk -> bool

val slot_ok_b : params -> flat disk -> n -> slot -> bool

val ptr_eqb : (n * n) option -> (n * n) option -> bool

val inv_b : params -> flat st -> bool
