(* Extraction of the executable model to OCaml for the correspondence check.
   Only ExtrOcamlBasic is used: bool, option, unit, list, prod, sumbool, sumor are mapped to the
   OCaml types of the same name; N, positive, nat stay the extracted inductive types.
   No Extract Constant. *)
From Coq Require Import Extraction ExtrOcamlBasic.
From Pogreb Require Import Base Crc Bytes Record Flat Index Spec DB DBInv Bucket Phys PhysProofs.
Extraction Language OCaml.
Extraction "model.ml"
  nlen ntake ndrop crc32 le unle encode_rec decode_next parse_tail parse_file parse_alloc header_bytes
  flat_ops chain_ops phys_ops ph_level ph_split ph_nkeys ph_nbuckets ph_free ph_main ph_over ph_main_bytes ph_over_bytes
  ph_chain phys_inv_b px_level px_split px_nkeys px_chains inv_b abs
  disk0 apply_ev emit emits clear_trace dir flen seg_entries read_kv
  db_put db_delete db_get db_get_append db_has db_count db_items db_sync
  compact_pick compact_step db_compact db_close db_open db_backup backup_plan copy_seg backup_disk
  fetch_bucket trunc_seg dbiter0 dbiter_step
  sget sput sdel scount.
