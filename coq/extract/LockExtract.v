(* Extraction of the lock-file protocol model (Lock.v) for the C13 correspondence check. *)
From Coq Require Import Extraction ExtrOcamlBasic.
From Pogreb Require Import Lock.
Extraction Language OCaml.
Extraction "lockmodel.ml" init apply_event exec obs path marked.
