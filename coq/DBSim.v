(* DBSim.v -- REFINEMENT: the database running on the linear-hashing bucket chains (Index.v,
   [chain_ops], the index exactly as index.go) behaves exactly like the database running on the flat
   reference index (Flat.v, [flat_ops], a plain list of slots) -- for an ARBITRARY hash function
   [p_hash P], split policy [p_grow P], thresholds and sync mode.  Hence the theorems proved for the
   flat instantiation (DBProofsOps.v: map semantics; crash / recovery files) transfer to every hash
   layout: identical 32-bit hashes, many keys in one chain, overflow buckets with holes, splits at
   any moment.  No axioms (Print Assumptions at the end: all "Closed under the global context").

   1. RELATIONS.  Generic in two index types related by [R] (Section Rel):
        opt_rel R, gob_rel R, gdisk_rel R, gev_rel R, gmem_rel R, gst_rel R
      "equal in every component, index values ([m_idx], [d_index], [d_imeta], payload of
      [EIndex]/[EGobIndex] in [s_trace]) related by R";  component-wise characterisations:
      disk_rel_iff, mem_rel_iff, st_rel_iff.  For the chain index against the flat index:
        idx_rel p l := PInv p /\ Permutation (all_slots p) l /\ px_nkeys p = nlen l
        (idx_rel_intro: the third clause follows from the first two)
        Notation disk_rel / ev_rel / mem_rel / st_rel := (g..._rel idx_rel).
   2. COMMUTATION LEMMAS (any ops1, ops2 with [R (ix_empty ops1) (ix_empty ops2)]):
        find_dseg_rel, read_kv_rel, matchf_rel (equality of FUNCTIONS), read_slots_rel, dir_rel,
        exists_file_rel, total_recs_rel, mem_rel_cur_seg, pick_rel, set_*_rel, track_del_rel,
        add_delbytes_rel, with_mem_rel, clear_trace_rel, file_removed_rel, apply_ev_rel, emit_rel,
        emits_rel, seal_rel, swap_segment_rel, write_record_rel, do_sync_rel, finish_rel,
        remove_segment_rel, fold_seal_rel, sync_rel, compact_pick_rel;
        write_record_idx (writeRecord never changes [m_idx], any ops).
      INDEX LAWS (uniq f l := at most one slot of l is accepted by f):
        get_rel, put_rel, del_rel, repoint_rel, count_rel:  under [idx_rel p l] and uniqueness of the
        accepted slot, px_get/px_put/px_del/px_repoint and fl_get/fl_put/fl_del/fl_repoint return
        THE SAME slot and related indexes ("first hit in chain scan order" = "first hit in list order").
        uniq_hit, uniq_hit_same, uniq_points: the uniqueness follows from [Inv] of the flat state
        (NoDup of the slot keys + slot_ok).
   3. OPERATION THEOREMS (sp : st pindex, sf : st flat, st_rel sp sf, Inv P sf):
        sim_put (+ room, valid k v; NO params_ok), sim_delete (no room), sim_get, sim_get_append,
        sim_has, sim_count (no Inv), sim_items, sim_items_open, sim_sync (no Inv),
        sim_compact_pick (no Inv), sim_compact_step (+ _gen: only [points_uniq] of the flat index),
        sim_compact_run, sim_db_compact (conditional on [cuniq]/[cinv] along the flat run).
      COMPOSED WITH DBProofsOps:  chain_put_ok, chain_delete_ok, chain_get_ok, chain_get_append_ok,
        chain_has_ok, chain_count_ok, chain_items_ok, chain_sync_ok;  flat_put_abs, flat_delete_abs
        ([abs] after Put / Delete is LITERALLY [sput] / [sdel] of [abs] before).
      RUNS:  op, step, step_chain, step_flat, step_spec, run, op_valid, rooms, out_equiv,
        step_refines, C01_chain_refines_map, chain_run_states, C01_chain_from_empty.
      INITIAL STATE:  st0, flat_init, flat_open_fresh, flat_init_Inv, init_rel (for the real
        [db_open chain_ops] / [db_open flat_ops] on [disk0], by computation).
   4. EXECUTABLE SIDE CONDITIONS AND EXAMPLE:  op_valid_b, room_b_ok, rooms_b (+ _ok);
        Module SimEx: 40 colliding keys, one deleted (head bucket with a hole + overflow bucket),
        then a 41st key that fills the hole: related states, different slot orders, equal outputs.

   DEVIATIONS FROM THE STATEMENTS AS FIRST SKETCHED (none of them weakens the refinement):
     - sim_items "exists lp lf, ... = OItems lp ..." is FALSE for a closed database (both sides
       return OErr EClosed).  sim_items is stated with [out_equiv] (true for open and closed);
       sim_items_open is the exists-form under [s_mem sf <> None].
     - chain_put_ok, chain_delete_ok, step_refines, C01_* carry [params_ok P] because
       DBProofsOps.put_ok_ex / delete_ok_ex carry it (their proofs ignore it:
       DBLemmas.write_record_spec starts with [intros _]).  sim_put itself does not need it.
     - OpDelete takes ANY key in C01 (no [Forall byte k]): flat_delete_abs shows that a key found in
       the index is a byte string (del_found_bytes), so delete_ok_ex applies exactly when needed.
     - Every operation theorem that needs uniqueness takes [Inv P sf] of the FLAT state only;
       nothing is assumed about the chain state beyond [st_rel]. *)
From Coq Require Import ZArith Lia ZifyN ZifyNat ZifyBool Permutation.
From Pogreb Require Import Base BaseLemmas Crc Bytes Record RecordProofs Flat Index Spec DB DBInv
  DBLemmas DBProofsOps.
Ltac Zify.zify_post_hook ::= Z.div_mod_to_equations.

(* ================================================================================================ *)
(** * 1. Relations, for two arbitrary index types related by [R] *)

Inductive opt_rel {A B} (R : A -> B -> Prop) : option A -> option B -> Prop :=
| opt_rel_none : opt_rel R None None
| opt_rel_some a b : R a b -> opt_rel R (Some a) (Some b).

Inductive gob_rel {A B} (R : A -> B -> Prop) : gob A -> gob B -> Prop :=
| gob_rel_absent : gob_rel R GAbsent GAbsent
| gob_rel_partial : gob_rel R GPartial GPartial
| gob_rel_ok a b : R a b -> gob_rel R (GOk a) (GOk b).

(* writeRecord = choose the segment (seal, swap) ; append -- for any index (cf. DBLemmas.wr_prelude) *)
Definition gprelude {I} (ops : idx_ops I) (P : params) (r : rec) (s : @DB.st I) (m : @DB.mem I) :
    @DB.st I * @DB.mem I :=
  let need_swap := match cur_seg m with
                   | None => true
                   | Some g => sm_full (g_meta g) || (p_maxseg P <? g_size g + rsize r)
                   end in
  if need_swap
  then let '(s0, m0) := match cur_seg m with
                        | Some g => seal ops (g_id g) s m
                        | None => (s, m)
                        end in
       swap_segment ops s0 m0
  else (s, m).

Definition gtail {I} (ops : idx_ops I) (r : rec) (s1 : @DB.st I) (m1 : @DB.mem I) :
    option (@DB.st I * @DB.mem I * N * N) :=
  match cur_seg m1 with
  | None => None
  | Some g =>
    match find_dseg (g_id g) (s_disk s1) with
    | None => None
    | Some f =>
      if negb ((f_seq f =? g_seq g) && (flen f =? g_size g)) then None
      else
        let off := g_size g in
        let s2 := emit ops (EAppend (g_id g) (g_seq g) off r) s1 in
        let m2 := set_msegs m1 (upd_mseg (g_id g)
                    (fun g => set_gmeta (set_gsize g (off + rsize r)) (count_rec r (g_meta g)))
                    (m_segs m1)) in
        Some (s2, m2, g_id g, u32 off)
    end
  end.

Lemma write_record_g {I} (ops : idx_ops I) P r s m :
  write_record ops P r s m = let '(s1, m1) := gprelude ops P r s m in gtail ops r s1 m1.
Proof. reflexivity. Qed.

Section Rel.
Context {I1 I2 : Type}.
Variable R : I1 -> I2 -> Prop.

Notation disk1 := (@DB.disk I1). Notation disk2 := (@DB.disk I2).
Notation mem1 := (@DB.mem I1).   Notation mem2 := (@DB.mem I2).
Notation st1 := (@DB.st I1).     Notation st2 := (@DB.st I2).
Notation fsev1 := (@DB.fsev I1). Notation fsev2 := (@DB.fsev I2).

(* equal in every component; the index values are related *)
Inductive gdisk_rel : disk1 -> disk2 -> Prop :=
| DiskRel segs orph i1 i2 ov g1 g2 dbm lk bac :
    opt_rel R i1 i2 -> gob_rel R g1 g2 ->
    gdisk_rel {| d_segs := segs; d_orphans := orph; d_index := i1; d_overflow := ov; d_imeta := g1;
                d_dbmeta := dbm; d_lock := lk; d_bac := bac |}
             {| d_segs := segs; d_orphans := orph; d_index := i2; d_overflow := ov; d_imeta := g2;
                d_dbmeta := dbm; d_lock := lk; d_bac := bac |}.

Inductive gev_rel : fsev1 -> fsev2 -> Prop :=
| er_create f : gev_rel (ECreate f) (ECreate f)
| er_header f : gev_rel (EHeader f) (EHeader f)
| er_append id seq off r : gev_rel (EAppend id seq off r) (EAppend id seq off r)
| er_index i1 i2 : R i1 i2 -> gev_rel (EIndex i1) (EIndex i2)
| er_gobseg id seq m : gev_rel (EGobSeg id seq m) (EGobSeg id seq m)
| er_gobindex i1 i2 : R i1 i2 -> gev_rel (EGobIndex i1) (EGobIndex i2)
| er_gobdb sd : gev_rel (EGobDb sd) (EGobDb sd)
| er_trunc f n : gev_rel (ETrunc f n) (ETrunc f n)
| er_rename f g : gev_rel (ERename f g) (ERename f g)
| er_remove f : gev_rel (ERemove f) (ERemove f)
| er_sync f : gev_rel (ESync f) (ESync f).

Inductive gmem_rel : mem1 -> mem2 -> Prop :=
| MemRel segs cur rem mx i1 i2 seed : R i1 i2 ->
    gmem_rel {| m_segs := segs; m_cur := cur; m_cur_removed := rem; m_maxseq := mx; m_idx := i1;
               m_seed := seed |}
            {| m_segs := segs; m_cur := cur; m_cur_removed := rem; m_maxseq := mx; m_idx := i2;
               m_seed := seed |}.

Inductive gst_rel : st1 -> st2 -> Prop :=
| StRel m1 m2 d1 d2 t1 t2 :
    opt_rel gmem_rel m1 m2 -> gdisk_rel d1 d2 -> Forall2 gev_rel t1 t2 ->
    gst_rel {| s_mem := m1; s_disk := d1; s_trace := t1 |} {| s_mem := m2; s_disk := d2; s_trace := t2 |}.

(* ---- the relations, component by component (for users who build related states by hand) ---- *)
Lemma disk_rel_iff (d1 : disk1) (d2 : disk2) :
  gdisk_rel d1 d2 <->
  d_segs d1 = d_segs d2 /\ d_orphans d1 = d_orphans d2 /\ opt_rel R (d_index d1) (d_index d2) /\
  d_overflow d1 = d_overflow d2 /\ gob_rel R (d_imeta d1) (d_imeta d2) /\
  d_dbmeta d1 = d_dbmeta d2 /\ d_lock d1 = d_lock d2 /\ d_bac d1 = d_bac d2.
Proof.
  split.
  - intros H. destruct H. cbn [d_segs d_orphans d_index d_overflow d_imeta d_dbmeta d_lock d_bac].
    repeat split; assumption.
  - destruct d1 as [a1 b1 c1 e1 f1 g1 h1 j1], d2 as [a2 b2 c2 e2 f2 g2 h2 j2]. cbn [d_segs d_orphans d_index d_overflow d_imeta d_dbmeta d_lock d_bac].
    intros (-> & -> & Hi & -> & Hg & -> & -> & ->). constructor; assumption.
Qed.

Lemma mem_rel_iff (m1 : mem1) (m2 : mem2) :
  gmem_rel m1 m2 <->
  m_segs m1 = m_segs m2 /\ m_cur m1 = m_cur m2 /\ m_cur_removed m1 = m_cur_removed m2 /\
  m_maxseq m1 = m_maxseq m2 /\ R (m_idx m1) (m_idx m2) /\ m_seed m1 = m_seed m2.
Proof.
  split.
  - intros H. destruct H. cbn [m_segs m_cur m_cur_removed m_maxseq m_idx m_seed]. repeat split; assumption.
  - destruct m1 as [a1 b1 c1 e1 f1 g1], m2 as [a2 b2 c2 e2 f2 g2]. cbn [m_segs m_cur m_cur_removed m_maxseq m_idx m_seed].
    intros (-> & -> & -> & -> & Hi & ->). constructor; assumption.
Qed.

Lemma st_rel_iff (s1 : st1) (s2 : st2) :
  gst_rel s1 s2 <->
  opt_rel gmem_rel (s_mem s1) (s_mem s2) /\ gdisk_rel (s_disk s1) (s_disk s2) /\
  Forall2 gev_rel (s_trace s1) (s_trace s2).
Proof.
  split.
  - intros H. destruct H. cbn [s_mem s_disk s_trace]. repeat split; assumption.
  - destruct s1 as [a1 b1 c1], s2 as [a2 b2 c2]. cbn [s_mem s_disk s_trace]. intros (A & B & C). constructor; assumption.
Qed.

Lemma st_rel_disk s1 s2 : gst_rel s1 s2 -> gdisk_rel (s_disk s1) (s_disk s2).
Proof. intros H. apply st_rel_iff in H. tauto. Qed.
Lemma st_rel_trace s1 s2 : gst_rel s1 s2 -> Forall2 gev_rel (s_trace s1) (s_trace s2).
Proof. intros H. apply st_rel_iff in H. tauto. Qed.

Lemma st_rel_mem_cases s1 s2 : gst_rel s1 s2 ->
  (s_mem s1 = None /\ s_mem s2 = None) \/
  (exists m1 m2, s_mem s1 = Some m1 /\ s_mem s2 = Some m2 /\ gmem_rel m1 m2).
Proof.
  intros H. destruct H as [m1 m2 d1 d2 t1 t2 Hm _ _]. cbn [s_mem].
  destruct Hm as [|a b Hab]; [left; split; reflexivity|right; exists a, b; auto].
Qed.

Lemma mem_rel_segs m1 m2 : gmem_rel m1 m2 -> m_segs m1 = m_segs m2.
Proof. intros H. destruct H. reflexivity. Qed.
Lemma mem_rel_cur m1 m2 : gmem_rel m1 m2 -> m_cur m1 = m_cur m2.
Proof. intros H. destruct H. reflexivity. Qed.
Lemma mem_rel_maxseq m1 m2 : gmem_rel m1 m2 -> m_maxseq m1 = m_maxseq m2.
Proof. intros H. destruct H. reflexivity. Qed.
Lemma mem_rel_seed m1 m2 : gmem_rel m1 m2 -> m_seed m1 = m_seed m2.
Proof. intros H. destruct H. reflexivity. Qed.
Lemma mem_rel_idx m1 m2 : gmem_rel m1 m2 -> R (m_idx m1) (m_idx m2).
Proof. intros H. destruct H. assumption. Qed.
Lemma mem_rel_cur_seg m1 m2 : gmem_rel m1 m2 -> cur_seg m1 = cur_seg m2.
Proof. intros H. destruct H. reflexivity. Qed.

(* ---- functions of the disk that never look inside the index value ---- *)
Lemma find_dseg_rel d1 d2 id : gdisk_rel d1 d2 -> find_dseg id d1 = find_dseg id d2.
Proof. intros H. destruct H. reflexivity. Qed.
Lemma d_segs_rel d1 d2 : gdisk_rel d1 d2 -> d_segs d1 = d_segs d2.
Proof. intros H. destruct H. reflexivity. Qed.
Lemma read_kv_rel d1 d2 sl : gdisk_rel d1 d2 -> read_kv d1 sl = read_kv d2 sl.
Proof. intros H. destruct H. reflexivity. Qed.
(* equality of FUNCTIONS (no extensionality needed): the callback handed to the index is the same *)
Lemma matchf_rel d1 d2 k : gdisk_rel d1 d2 -> matchf d1 k = matchf d2 k.
Proof. intros H. destruct H. reflexivity. Qed.
Lemma read_slots_rel d1 d2 l : gdisk_rel d1 d2 -> read_slots d1 l = read_slots d2 l.
Proof.
  intros H. induction l as [|sl l IH]; [reflexivity|].
  cbn [read_slots]. rewrite IH, (read_kv_rel _ _ sl H). reflexivity.
Qed.
Lemma seg_names_rel d1 d2 : gdisk_rel d1 d2 -> seg_names d1 = seg_names d2.
Proof. intros H. destruct H. reflexivity. Qed.
Lemma dir_rel d1 d2 : gdisk_rel d1 d2 -> dir d1 = dir d2.
Proof.
  intros H. destruct H as [segs orph i1 i2 ov g1 g2 dbm lk bac Hi Hg].
  unfold dir, seg_names. cbn [d_segs d_orphans d_index d_overflow d_imeta d_dbmeta d_lock d_bac].
  destruct Hi; destruct Hg; reflexivity.
Qed.
Lemma exists_file_rel d1 d2 f : gdisk_rel d1 d2 -> exists_file d1 f = exists_file d2 f.
Proof. intros H. unfold exists_file. rewrite (dir_rel _ _ H). reflexivity. Qed.
Lemma total_recs_rel d1 d2 : gdisk_rel d1 d2 -> total_recs d1 = total_recs d2.
Proof. intros H. destruct H. reflexivity. Qed.

(* ---- updates of the in-memory state ---- *)
Lemma set_msegs_rel m1 m2 l : gmem_rel m1 m2 -> gmem_rel (set_msegs m1 l) (set_msegs m2 l).
Proof. intros H. destruct H. constructor. assumption. Qed.
Lemma set_cur_rel m1 m2 c b : gmem_rel m1 m2 -> gmem_rel (set_cur m1 c b) (set_cur m2 c b).
Proof. intros H. destruct H. constructor. assumption. Qed.
Lemma set_maxseq_rel m1 m2 n : gmem_rel m1 m2 -> gmem_rel (set_maxseq m1 n) (set_maxseq m2 n).
Proof. intros H. destruct H. constructor. assumption. Qed.
Lemma set_idx_rel m1 m2 i1 i2 : gmem_rel m1 m2 -> R i1 i2 -> gmem_rel (set_idx m1 i1) (set_idx m2 i2).
Proof. intros H Hi. destruct H. constructor. assumption. Qed.
Lemma track_del_rel m1 m2 sl : gmem_rel m1 m2 -> gmem_rel (track_del sl m1) (track_del sl m2).
Proof. intros H. destruct H. constructor. assumption. Qed.
Lemma add_delbytes_rel m1 m2 id n : gmem_rel m1 m2 -> gmem_rel (add_delbytes id n m1) (add_delbytes id n m2).
Proof. intros H. destruct H. constructor. assumption. Qed.
Lemma pick_rel P m1 m2 : gmem_rel m1 m2 -> pick P m1 = pick P m2.
Proof. intros H. destruct H. reflexivity. Qed.

(* ---- the state ---- *)
Lemma with_mem_rel s1 s2 m1 m2 : gst_rel s1 s2 -> gmem_rel m1 m2 -> gst_rel (with_mem m1 s1) (with_mem m2 s2).
Proof. intros H Hm. destruct H. constructor; [constructor|..]; assumption. Qed.
Lemma clear_trace_rel s1 s2 : gst_rel s1 s2 -> gst_rel (clear_trace s1) (clear_trace s2).
Proof. intros H. destruct H. constructor; [assumption|assumption|constructor]. Qed.

(* ---- events: need the two index implementations ---- *)
Variable ops1 : idx_ops I1.
Variable ops2 : idx_ops I2.
Hypothesis R_empty : R (ix_empty ops1) (ix_empty ops2).

Ltac dsimp :=
  cbv beta iota delta [apply_ev file_removed set_segs set_orphans set_index set_overflow set_imeta
    set_dbmeta set_lock set_bac upd_seg d_segs d_orphans d_index d_overflow d_imeta d_dbmeta d_lock d_bac].

Lemma file_removed_rel d1 d2 f : gdisk_rel d1 d2 -> gdisk_rel (file_removed f d1) (file_removed f d2).
Proof.
  intros H. destruct H as [segs orph i1 i2 ov g1 g2 dbm lk bac Hi Hg].
  destruct f; dsimp; constructor; try assumption; constructor.
Qed.

Lemma set_bac_rel d1 d2 l : gdisk_rel d1 d2 -> gdisk_rel (set_bac d1 l) (set_bac d2 l).
Proof. intros H. destruct H. dsimp. constructor; assumption. Qed.
Lemma d_bac_rel d1 d2 : gdisk_rel d1 d2 -> d_bac d1 = d_bac d2.
Proof. intros H. destruct H. reflexivity. Qed.

Theorem apply_ev_rel d1 d2 e1 e2 : gdisk_rel d1 d2 -> gev_rel e1 e2 ->
  gdisk_rel (apply_ev ops1 d1 e1) (apply_ev ops2 d2 e2).
Proof.
  intros Hd He. destruct He as [f|f|id seq off r|i1 i2 Hi|id seq m|i1 i2 Hi|sd|f n|f g|f|f].
  - destruct Hd as [segs orph j1 j2 ov g1 g2 dbm lk bac Hj Hg].
    destruct f; dsimp; constructor; try assumption; constructor. exact R_empty.
  - destruct Hd as [segs orph j1 j2 ov g1 g2 dbm lk bac Hj Hg].
    destruct f; dsimp; constructor; assumption.
  - destruct Hd. dsimp. constructor; assumption.
  - destruct Hd. dsimp. constructor; [constructor|]; assumption.
  - destruct Hd. dsimp. constructor; assumption.
  - destruct Hd. dsimp. constructor; [|constructor]; assumption.
  - destruct Hd. dsimp. constructor; assumption.
  - destruct Hd as [segs orph j1 j2 ov g1 g2 dbm lk bac Hj Hg].
    destruct f; dsimp; constructor; try assumption; constructor.
  - cbv beta iota delta [apply_ev].
    rewrite (d_bac_rel _ _ (file_removed_rel d1 d2 f Hd)).
    apply set_bac_rel. apply file_removed_rel. exact Hd.
  - cbv beta iota delta [apply_ev]. apply file_removed_rel. exact Hd.
  - cbv beta iota delta [apply_ev]. exact Hd.
Qed.

Lemma emit_rel s1 s2 e1 e2 : gst_rel s1 s2 -> gev_rel e1 e2 -> gst_rel (emit ops1 e1 s1) (emit ops2 e2 s2).
Proof.
  intros Hs He. destruct Hs as [m1 m2 d1 d2 t1 t2 Hm Hd Ht]. unfold emit. cbn [s_mem s_disk s_trace].
  constructor; [exact Hm|apply apply_ev_rel; assumption|].
  apply Forall2_app; [exact Ht|]. constructor; [exact He|constructor].
Qed.

Lemma emits_rel es1 es2 : Forall2 gev_rel es1 es2 -> forall s1 s2, gst_rel s1 s2 ->
  gst_rel (emits ops1 es1 s1) (emits ops2 es2 s2).
Proof.
  unfold emits. induction 1 as [|e1 e2 es1 es2 He Hes IH]; intros s1 s2 Hs; cbn [fold_left]; [exact Hs|].
  apply IH. apply emit_rel; assumption.
Qed.

(* results of helpers that return a state and a memory *)
Definition sm_rel (a : st1 * mem1) (b : st2 * mem2) : Prop := gst_rel (fst a) (fst b) /\ gmem_rel (snd a) (snd b).

Lemma seal_rel id s1 s2 m1 m2 : gst_rel s1 s2 -> gmem_rel m1 m2 ->
  sm_rel (seal ops1 id s1 m1) (seal ops2 id s2 m2).
Proof.
  intros Hs Hm. unfold seal. rewrite (mem_rel_segs _ _ Hm).
  destruct (find_mseg id (m_segs m2)) as [g|]; [|split; assumption].
  destruct (sm_full (g_meta g)); [split; assumption|].
  split; cbn [fst snd]; [apply emit_rel; [exact Hs|constructor]|apply set_msegs_rel; exact Hm].
Qed.

Lemma swap_segment_rel s1 s2 m1 m2 : gst_rel s1 s2 -> gmem_rel m1 m2 ->
  sm_rel (swap_segment ops1 s1 m1) (swap_segment ops2 s2 m2).
Proof.
  intros Hs Hm. unfold swap_segment. rewrite (mem_rel_segs _ _ Hm).
  destruct (find (fun g => negb (sm_full (g_meta g))) (m_segs m2)) as [g|].
  - split; cbn [fst snd]; [exact Hs|apply set_cur_rel; exact Hm].
  - cbv zeta. rewrite (mem_rel_maxseq _ _ Hm). split; cbn [fst snd].
    + apply emits_rel; [|exact Hs]. constructor; [constructor|]. constructor; [constructor|constructor].
    + apply set_cur_rel, set_maxseq_rel, set_msegs_rel. exact Hm.
Qed.

Lemma gprelude_rel P r s1 s2 m1 m2 : gst_rel s1 s2 -> gmem_rel m1 m2 ->
  sm_rel (gprelude ops1 P r s1 m1) (gprelude ops2 P r s2 m2).
Proof.
  intros Hs Hm. unfold gprelude. rewrite (mem_rel_cur_seg _ _ Hm).
  destruct (cur_seg m2) as [g|].
  - destruct (sm_full (g_meta g) || (p_maxseg P <? g_size g + rsize r)); [|split; assumption].
    pose proof (seal_rel (g_id g) s1 s2 m1 m2 Hs Hm) as Hseal.
    destruct (seal ops1 (g_id g) s1 m1) as [s01 m01]. destruct (seal ops2 (g_id g) s2 m2) as [s02 m02].
    destruct Hseal as [A B]. cbn [fst snd] in A, B. apply swap_segment_rel; assumption.
  - apply swap_segment_rel; assumption.
Qed.

(* results of writeRecord *)
Definition wr_rel (a : option (st1 * mem1 * N * N)) (b : option (st2 * mem2 * N * N)) : Prop :=
  match a, b with
  | None, None => True
  | Some (s1, m1, id1, off1), Some (s2, m2, id2, off2) =>
      gst_rel s1 s2 /\ gmem_rel m1 m2 /\ id1 = id2 /\ off1 = off2
  | _, _ => False
  end.

Lemma gtail_rel r s1 s2 m1 m2 : gst_rel s1 s2 -> gmem_rel m1 m2 ->
  wr_rel (gtail ops1 r s1 m1) (gtail ops2 r s2 m2).
Proof.
  intros Hs Hm. unfold gtail. rewrite (mem_rel_cur_seg _ _ Hm).
  destruct (cur_seg m2) as [g|]; [|exact I].
  rewrite (find_dseg_rel _ _ (g_id g) (st_rel_disk _ _ Hs)).
  destruct (find_dseg (g_id g) (s_disk s2)) as [f|]; [|exact I].
  destruct (negb ((f_seq f =? g_seq g) && (flen f =? g_size g))); [exact I|].
  cbv zeta. unfold wr_rel. split; [apply emit_rel; [exact Hs|constructor]|].
  split; [|split; reflexivity]. rewrite (mem_rel_segs _ _ Hm). apply set_msegs_rel. exact Hm.
Qed.

Theorem write_record_rel P r s1 s2 m1 m2 : gst_rel s1 s2 -> gmem_rel m1 m2 ->
  wr_rel (write_record ops1 P r s1 m1) (write_record ops2 P r s2 m2).
Proof.
  intros Hs Hm. rewrite !write_record_g.
  pose proof (gprelude_rel P r s1 s2 m1 m2 Hs Hm) as Hp.
  destruct (gprelude ops1 P r s1 m1) as [s1' m1']. destruct (gprelude ops2 P r s2 m2) as [s2' m2'].
  destruct Hp as [A B]. cbn [fst snd] in A, B. apply gtail_rel; assumption.
Qed.

Lemma do_sync_rel s1 s2 m1 m2 : gst_rel s1 s2 -> gmem_rel m1 m2 ->
  gst_rel (do_sync ops1 s1 m1) (do_sync ops2 s2 m2).
Proof.
  intros Hs Hm. unfold do_sync. rewrite (mem_rel_cur_seg _ _ Hm).
  destruct (cur_seg m2) as [g|]; [apply emit_rel; [exact Hs|constructor]|exact Hs].
Qed.

(* results of operations: a state and an output *)
Definition so_rel (a : st1 * out) (b : st2 * out) : Prop := snd a = snd b /\ gst_rel (fst a) (fst b).

Lemma finish_rel P s1 s2 m1 m2 : gst_rel s1 s2 -> gmem_rel m1 m2 ->
  so_rel (finish ops1 P s1 m1) (finish ops2 P s2 m2).
Proof.
  intros Hs Hm. unfold finish. split; cbn [fst snd]; [reflexivity|].
  apply with_mem_rel; [|exact Hm]. destruct (p_sync P); [apply do_sync_rel; assumption|exact Hs].
Qed.

Lemma remove_segment_rel id seq s1 s2 m1 m2 : gst_rel s1 s2 -> gmem_rel m1 m2 ->
  gst_rel (remove_segment ops1 id seq s1 m1) (remove_segment ops2 id seq s2 m2).
Proof.
  intros Hs Hm. unfold remove_segment. cbv zeta.
  pose proof (do_sync_rel s1 s2 m1 m2 Hs Hm) as Hsync.
  rewrite (exists_file_rel _ _ (FSegMeta id seq) (st_rel_disk _ _ Hsync)).
  rewrite (mem_rel_cur _ _ Hm), (mem_rel_segs _ _ Hm).
  apply with_mem_rel.
  - apply emit_rel; [|constructor].
    destruct (exists_file (s_disk (do_sync ops2 s2 m2)) (FSegMeta id seq));
      [apply emit_rel; [exact Hsync|constructor]|exact Hsync].
  - destruct ((fst (m_cur m2) =? id) && (snd (m_cur m2) =? seq)).
    + apply set_cur_rel, set_msegs_rel. exact Hm.
    + apply set_msegs_rel. exact Hm.
Qed.

Lemma fold_seal_rel (l : list mseg) : forall a b, sm_rel a b ->
  sm_rel (fold_left (fun sm g => seal ops1 (g_id g) (fst sm) (snd sm)) l a)
         (fold_left (fun sm g => seal ops2 (g_id g) (fst sm) (snd sm)) l b).
Proof.
  induction l as [|g l IH]; intros a b Hab; cbn [fold_left]; [exact Hab|].
  apply IH. destruct Hab as [A B]. apply seal_rel; assumption.
Qed.

(* ---- operations that never touch the index ---- *)
Theorem sync_rel s1 s2 : gst_rel s1 s2 -> so_rel (db_sync ops1 s1) (db_sync ops2 s2).
Proof.
  intros Hs. unfold db_sync.
  destruct (st_rel_mem_cases _ _ Hs) as [[E1 E2]|(m1 & m2 & E1 & E2 & Hm)]; rewrite E1, E2.
  - split; [reflexivity|exact Hs].
  - split; cbn [fst snd]; [reflexivity|apply do_sync_rel; assumption].
Qed.

Definition pick_res_rel (a : option (st1 * cursor)) (b : option (st2 * cursor)) : Prop :=
  match a, b with
  | None, None => True
  | Some (s1, c1), Some (s2, c2) => gst_rel s1 s2 /\ c1 = c2
  | _, _ => False
  end.

Theorem compact_pick_rel P s1 s2 : gst_rel s1 s2 ->
  pick_res_rel (compact_pick ops1 P s1) (compact_pick ops2 P s2).
Proof.
  intros Hs. unfold compact_pick.
  destruct (st_rel_mem_cases _ _ Hs) as [[E1 E2]|(m1 & m2 & E1 & E2 & Hm)]; rewrite E1, E2; [exact I|].
  cbv zeta. rewrite (pick_rel P _ _ Hm).
  pose proof (fold_seal_rel (pick P m2) (s1, m1) (s2, m2) (conj Hs Hm)) as Hf.
  destruct (fold_left (fun sm g => seal ops1 (g_id g) (fst sm) (snd sm)) (pick P m2) (s1, m1)) as [s1' m1'].
  destruct (fold_left (fun sm g => seal ops2 (g_id g) (fst sm) (snd sm)) (pick P m2) (s2, m2)) as [s2' m2'].
  destruct Hf as [A B]. cbn [fst snd] in A, B. unfold pick_res_rel.
  split; [apply with_mem_rel; assumption|reflexivity].
Qed.

End Rel.

Arguments gdisk_rel {I1 I2} R. Arguments gev_rel {I1 I2} R. Arguments gmem_rel {I1 I2} R.
Arguments gst_rel {I1 I2} R. Arguments sm_rel {I1 I2} R. Arguments so_rel {I1 I2} R.
Arguments wr_rel {I1 I2} R. Arguments pick_res_rel {I1 I2} R.

(* ================================================================================================ *)
(** * 2. The chain index against the flat index *)

Definition idx_rel (p : pindex) (l : flat) : Prop :=
  PInv p /\ Permutation (all_slots p) l /\ px_nkeys p = nlen l.

Lemma idx_rel_intro p l : PInv p -> Permutation (all_slots p) l -> idx_rel p l.
Proof.
  intros HI HP. split; [exact HI|]. split; [exact HP|].
  destruct HI as (_ & _ & _ & _ & Hk). rewrite Hk. apply nlen_perm. exact HP.
Qed.

Lemma idx_rel_empty : idx_rel (ix_empty chain_ops) (ix_empty flat_ops).
Proof. apply idx_rel_intro; [exact PInv_empty|]. cbn. constructor. Qed.

(* at most one slot of the list is accepted by the callback *)
Definition uniq (f : slot -> bool) (l : list slot) : Prop :=
  forall a b, In a l -> In b l -> f a = true -> f b = true -> a = b.

Lemma find_none_intro {A} (f : A -> bool) l : (forall x, In x l -> f x = false) -> find f l = None.
Proof.
  induction l as [|x l IH]; intros H; [reflexivity|]. cbn [find].
  rewrite (H x (or_introl eq_refl)). apply IH. intros y Hy. apply H. right. exact Hy.
Qed.

(* ---- the flat operations: first hit in list order ---- *)
Lemma fl_replace_split f new l l' o : fl_replace f new l = Some (l', o) ->
  exists a b, l = a ++ o :: b /\ l' = a ++ new :: b /\ f o = true.
Proof.
  revert l'. induction l as [|s l IH]; intros l' H; cbn [fl_replace] in H; [discriminate|].
  destruct (f s) eqn:Es.
  - injection H as <- <-. exists [], l. auto.
  - destruct (fl_replace f new l) as [[l0 o0]|]; [|discriminate]. injection H as <- <-.
    destruct (IH _ eq_refl) as (a & b & -> & -> & Ho). exists (s :: a), b. auto.
Qed.

Lemma fl_replace_none_intro f new l : (forall x, In x l -> f x = false) -> fl_replace f new l = None.
Proof.
  induction l as [|s l IH]; intros H; [reflexivity|]. cbn [fl_replace].
  rewrite (H s (or_introl eq_refl)), IH; [reflexivity|]. intros y Hy. apply H. right. exact Hy.
Qed.

Lemma fl_remove_split f l l' o : fl_remove f l = Some (l', o) ->
  exists a b, l = a ++ o :: b /\ l' = a ++ b /\ f o = true.
Proof.
  revert l'. induction l as [|s l IH]; intros l' H; cbn [fl_remove] in H; [discriminate|].
  destruct (f s) eqn:Es.
  - injection H as <- <-. exists [], l. auto.
  - destruct (fl_remove f l) as [[l0 o0]|]; [|discriminate]. injection H as <- <-.
    destruct (IH _ eq_refl) as (a & b & -> & -> & Ho). exists (s :: a), b. auto.
Qed.

Lemma fl_remove_none_intro f l : (forall x, In x l -> f x = false) -> fl_remove f l = None.
Proof.
  induction l as [|s l IH]; intros H; [reflexivity|]. cbn [fl_remove].
  rewrite (H s (or_introl eq_refl)), IH; [reflexivity|]. intros y Hy. apply H. right. exact Hy.
Qed.

Lemma fl_repoint_split l h seg off nseg noff l' : fl_repoint l h seg off nseg noff = Some l' ->
  exists a o b, l = a ++ o :: b /\ l' = a ++ repointed o nseg noff :: b /\ fl_points h seg off o = true.
Proof.
  revert l'. induction l as [|s l IH]; intros l' H; cbn [fl_repoint] in H; [discriminate|].
  destruct (fl_points h seg off s) eqn:Es.
  - injection H as <-. exists [], s, l. auto.
  - destruct (fl_repoint l h seg off nseg noff) as [l0|]; [|discriminate]. injection H as <-.
    destruct (IH _ eq_refl) as (a & o & b & -> & -> & Ho). exists (s :: a), o, b. auto.
Qed.

Lemma fl_repoint_none l h seg off nseg noff : fl_repoint l h seg off nseg noff = None ->
  forall x, In x l -> fl_points h seg off x = false.
Proof.
  induction l as [|s l IH]; intros H x Hx; [destruct Hx|]. cbn [fl_repoint] in H.
  destruct (fl_points h seg off s) eqn:Es; [discriminate|].
  destruct (fl_repoint l h seg off nseg noff) as [l0|]; [discriminate|].
  destruct Hx as [<-|Hx]; [exact Es|exact (IH eq_refl x Hx)].
Qed.

Lemma fl_repoint_none_intro l h seg off nseg noff :
  (forall x, In x l -> fl_points h seg off x = false) -> fl_repoint l h seg off nseg noff = None.
Proof.
  induction l as [|s l IH]; intros H; [reflexivity|]. cbn [fl_repoint].
  rewrite (H s (or_introl eq_refl)), IH; [reflexivity|]. intros y Hy. apply H. right. exact Hy.
Qed.

Lemma fl_hit_true h m s : fl_hit h m s = true <-> sl_h s = h /\ m s = true.
Proof. exact (hit_true h m s). Qed.
Lemma fl_points_true h seg off s : fl_points h seg off s = true <-> sl_h s = h /\ sl_seg s = seg /\ sl_off s = off.
Proof. exact (rp_hit_true h seg off s). Qed.

Lemma not_true_false b : b <> true -> b = false.
Proof. destruct b; congruence. Qed.

(* ---- get ---- *)
Theorem get_rel p l h m : idx_rel p l -> uniq (fl_hit h m) l -> px_get p h m = fl_get l h m.
Proof.
  intros (HI & HP & _) U. unfold fl_get. destruct (px_get p h m) as [s|] eqn:E.
  - destruct (px_get_some _ _ _ _ HI E) as (Hin & Hh & Hm).
    assert (Hl : In s l) by (eapply Permutation_in; eassumption).
    assert (Hs : fl_hit h m s = true) by (apply fl_hit_true; auto).
    destruct (find (fl_hit h m) l) as [s'|] eqn:F.
    + apply find_some in F. destruct F as [F1 F2]. f_equal. apply U; assumption.
    + pose proof (find_none _ _ F s Hl). congruence.
  - symmetry. apply find_none_intro. intros x Hx. apply not_true_false. intros Hc.
    apply fl_hit_true in Hc. destruct Hc as [Hh Hm].
    assert (Hp : In x (all_slots p)) by (eapply Permutation_in; [symmetry|]; eassumption).
    pose proof (px_get_none _ _ _ HI E x Hp Hh). congruence.
Qed.

(* ---- put ---- *)
Theorem put_rel grow p l sl m p' op l' of :
  idx_rel p l -> uniq (fl_hit (sl_h sl) m) l ->
  px_put grow p sl m = (p', op) -> fl_put grow l sl m = (l', of) ->
  op = of /\ idx_rel p' l'.
Proof.
  intros (HI & HP & _) U Ep Ef. destruct (px_put_spec _ _ _ _ _ _ HI Ep) as [HI' Hs].
  unfold fl_put in Ef. destruct op as [o|].
  - destruct Hs as (Hin & Hh & Hm & l1 & l2 & P1 & P2).
    assert (Hl : In o l) by (eapply Permutation_in; eassumption).
    assert (Ho : fl_hit (sl_h sl) m o = true) by (apply fl_hit_true; auto).
    destruct (fl_replace (fl_hit (sl_h sl) m) sl l) as [[l0 o0]|] eqn:F.
    + injection Ef as <- <-. destruct (fl_replace_split _ _ _ _ _ F) as (a & b & -> & -> & Ho0).
      assert (o0 = o) by (apply U; [apply in_elt|exact Hl|exact Ho0|exact Ho]). subst o0.
      split; [reflexivity|]. apply idx_rel_intro; [exact HI'|].
      rewrite P2. apply Permutation_elt. apply (Permutation_app_inv l1 l2 a b o).
      rewrite <- P1. exact HP.
    + exfalso. clear Ef. revert F. generalize l Hl.
      intros l0 Hl0 F. induction l0 as [|x l0 IH]; [destruct Hl0|]. cbn [fl_replace] in F.
      destruct (fl_hit (sl_h sl) m x) eqn:Ex; [discriminate|].
      destruct (fl_replace (fl_hit (sl_h sl) m) sl l0); [destruct p0; discriminate|].
      destruct Hl0 as [->|Hl0]; [congruence|]. exact (IH Hl0 eq_refl).
  - destruct Hs as [Hno P2].
    rewrite fl_replace_none_intro in Ef.
    + injection Ef as <- <-. split; [reflexivity|]. apply idx_rel_intro; [exact HI'|].
      rewrite P2, HP. apply Permutation_cons_append.
    + intros x Hx. apply not_true_false. intros Hc. apply fl_hit_true in Hc. destruct Hc as [Hh Hm].
      assert (Hp : In x (all_slots p)) by (eapply Permutation_in; [symmetry|]; eassumption).
      pose proof (Hno x Hp Hh). congruence.
Qed.

(* ---- delete ---- *)
Theorem del_rel p l h m p' op l' of :
  idx_rel p l -> uniq (fl_hit h m) l ->
  px_del p h m = (p', op) -> fl_del l h m = (l', of) ->
  op = of /\ idx_rel p' l'.
Proof.
  intros (HI & HP & Hk) U Ep Ef. destruct (px_del_spec _ _ _ _ _ HI Ep) as [HI' Hs].
  unfold fl_del in Ef. destruct op as [o|].
  - destruct Hs as (Hh & Hm & P1).
    assert (Hl : In o l).
    { eapply Permutation_in; [exact HP|]. eapply Permutation_in; [symmetry; exact P1|]. left. reflexivity. }
    assert (Ho : fl_hit h m o = true) by (apply fl_hit_true; auto).
    destruct (fl_remove (fl_hit h m) l) as [[l0 o0]|] eqn:F.
    + injection Ef as <- <-. destruct (fl_remove_split _ _ _ _ F) as (a & b & -> & -> & Ho0).
      assert (o0 = o) by (apply U; [apply in_elt|exact Hl|exact Ho0|exact Ho]). subst o0.
      split; [reflexivity|]. apply idx_rel_intro; [exact HI'|].
      apply Permutation_cons_app_inv with (a := o). rewrite <- P1. exact HP.
    + pose proof (fl_remove_None _ _ F o Hl). congruence.
  - destruct Hs as [-> Hno].
    rewrite fl_remove_none_intro in Ef.
    + injection Ef as <- <-. split; [reflexivity|]. split; [exact HI|]. split; assumption.
    + intros x Hx. apply not_true_false. intros Hc. apply fl_hit_true in Hc. destruct Hc as [Hh Hm].
      assert (Hp : In x (all_slots p)) by (eapply Permutation_in; [symmetry|]; eassumption).
      pose proof (Hno x Hp Hh). congruence.
Qed.

(* ---- repoint (promoteRecord) ---- *)
Theorem repoint_rel p l h seg off nseg noff :
  idx_rel p l -> uniq (fl_points h seg off) l ->
  opt_rel idx_rel (px_repoint p h seg off nseg noff) (fl_repoint l h seg off nseg noff).
Proof.
  intros (HI & HP & Hk) U.
  destruct (px_repoint p h seg off nseg noff) as [p'|] eqn:Ep.
  - destruct (px_repoint_some _ _ _ _ _ _ _ HI Ep) as (HI' & o & l1 & l2 & Hh & Hs & Ho & P1 & P2).
    assert (Hl : In o l).
    { eapply Permutation_in; [exact HP|]. eapply Permutation_in; [symmetry; exact P1|]. apply in_elt. }
    assert (Hpt : fl_points h seg off o = true) by (apply fl_points_true; auto).
    destruct (fl_repoint l h seg off nseg noff) as [l'|] eqn:F.
    + constructor. destruct (fl_repoint_split _ _ _ _ _ _ _ F) as (a & o0 & b & -> & -> & Ho0).
      assert (o0 = o) by (apply U; [apply in_elt|exact Hl|exact Ho0|exact Hpt]). subst o0.
      apply idx_rel_intro; [exact HI'|]. rewrite P2. unfold repointed.
      apply Permutation_elt. apply (Permutation_app_inv l1 l2 a b o). rewrite <- P1. exact HP.
    + pose proof (fl_repoint_none _ _ _ _ _ _ F o Hl). congruence.
  - rewrite fl_repoint_none_intro; [constructor|].
    intros x Hx. apply not_true_false. intros Hc. apply fl_points_true in Hc.
    assert (Hp : In x (all_slots p)) by (eapply Permutation_in; [symmetry|]; eassumption).
    exact (px_repoint_none _ _ _ _ _ _ HI Ep x Hp Hc).
Qed.

Lemma count_rel p l : idx_rel p l -> ix_count chain_ops p = ix_count flat_ops l.
Proof. intros (_ & _ & Hk). exact Hk. Qed.

(* ================================================================================================ *)
(** * 3. The database on the chain index against the database on the flat index *)

Notation disk_rel := (gdisk_rel idx_rel).
Notation ev_rel := (gev_rel idx_rel).
Notation mem_rel := (gmem_rel idx_rel).
Notation st_rel := (gst_rel idx_rel).

Local Notation stp := (@DB.st pindex).
Local Notation stf := (@DB.st flat).
Local Notation diskf := (@DB.disk flat).
Local Notation memf := (@DB.mem flat).

(* ---- uniqueness of the slot the callbacks accept, from the invariant of the flat state ---- *)
Lemma matchf_key (d : diskf) k sl : matchf d k sl = true -> slot_key d sl = k.
Proof.
  unfold matchf, slot_key. destruct (read_kv d sl) as [[k' v]|]; rewrite andb_true_iff; intros [_ H].
  - apply key_eqb_eq in H. congruence.
  - discriminate.
Qed.

Lemma uniq_hit P seed idx (d d1 : diskf) k :
  idx_agrees P seed idx d ->
  (forall id off r, rec_of d id off = Some r -> rec_of d1 id off = Some r) ->
  uniq (fl_hit (p_hash P seed k) (matchf d1 k)) idx.
Proof.
  intros (Hok & Hnd & _) Hkeep a b Ha Hb Fa Fb.
  apply fl_hit_true in Fa, Fb. destruct Fa as [_ Fa], Fb as [_ Fb]. apply matchf_key in Fa, Fb.
  pose proof (proj1 (Forall_forall _ _) Hok a Ha) as Oa.
  pose proof (proj1 (Forall_forall _ _) Hok b Hb) as Ob.
  destruct (slot_keep P d d1 seed a Hkeep Oa) as (_ & _ & Ka).
  destruct (slot_keep P d d1 seed b Hkeep Ob) as (_ & _ & Kb).
  apply (NoDup_map_inj (slot_key d) idx); [exact Hnd|exact Ha|exact Hb|congruence].
Qed.

Lemma uniq_hit_same P seed idx (d : diskf) k :
  idx_agrees P seed idx d -> uniq (fl_hit (p_hash P seed k) (matchf d k)) idx.
Proof. intros H. apply (uniq_hit P seed idx d d k H). auto. Qed.

(* two slots that point to the same record are the same slot *)
Definition points_uniq (l : flat) : Prop := forall h seg off, uniq (fl_points h seg off) l.

Lemma uniq_points P seed idx (d : diskf) : idx_agrees P seed idx d -> points_uniq idx.
Proof.
  intros (Hok & Hnd & _) h seg off a b Ha Hb Fa Fb.
  apply fl_points_true in Fa, Fb. destruct Fa as (_ & Sa & Oa), Fb as (_ & Sb & Ob).
  pose proof (proj1 (Forall_forall _ _) Hok a Ha) as Ka.
  pose proof (proj1 (Forall_forall _ _) Hok b Hb) as Kb.
  destruct (slot_ok_read P d seed a Ka) as (ra & Era & _ & _ & _ & _ & _ & Eka).
  destruct (slot_ok_read P d seed b Kb) as (rb & Erb & _ & _ & _ & _ & _ & Ekb).
  rewrite Sa, Oa in Era. rewrite Sb, Ob in Erb.
  apply (NoDup_map_inj (slot_key d) idx); [exact Hnd|exact Ha|exact Hb|congruence].
Qed.

(* writeRecord on the flat state keeps every record readable (as write_record_spec, without [params_ok]) *)
Lemma wr_keep P r (s : stf) (m : memf) s' m' id off :
  InvLog m (s_disk s) -> room m -> rec_fits r ->
  write_record flat_ops P r s m = Some (s', m', id, off) ->
  m_idx m' = m_idx m /\
  forall id' off' r', rec_of (s_disk s) id' off' = Some r' -> rec_of (s_disk s') id' off' = Some r'.
Proof.
  intros HI Hroom Hr E. rewrite write_record_eq in E.
  destruct (wr_prelude_spec P r s m HI Hroom)
    as (s1 & m1 & g & pre & E1 & HI1 & Hroom1 & Ec1 & Hnf1 & Eo1 & _ & _ & Ei1 & _).
  rewrite E1 in E.
  destruct (append_step m1 (s_disk s1) r g HI1 Hroom1 Hr Ec1 Hnf1)
    as (f & Hfind & Efseq & Efl & Hlt & HI2 & Eo2 & Hrec).
  cbn zeta in HI2, Eo2.
  unfold wr_tail in E. rewrite Ec1, Hfind, Efseq, Efl, !N.eqb_refl in E. cbn [andb negb] in E.
  injection E as <- <- <- <-. split; [exact Ei1|].
  rewrite s_disk_emit. intros id' off' r' H.
  assert (Hd0 : DiskOK (s_disk s)) by apply HI.
  assert (Hd2 : DiskOK (apply_ev flat_ops (s_disk s1) (EAppend (g_id g) (g_seq g) (g_size g) r))) by apply HI2.
  apply rec_of_olog; [apply Hd2|]. rewrite Eo2, Eo1.
  apply in_or_app. left. apply rec_of_olog; [apply Hd0|exact H].
Qed.

Lemma so_rel_let (a : stp * out) (b : stf * out) :
  so_rel idx_rel a b -> let '(sp', op) := a in let '(sf', of) := b in op = of /\ st_rel sp' sf'.
Proof. destruct a, b. exact (fun H => H). Qed.

Section Sim.
Variable P : params.

(* ---- Put ---- *)
Lemma sim_put_so (sp : stp) (sf : stf) k v :
  st_rel sp sf -> Inv P sf -> (exists m, s_mem sf = Some m /\ room m) ->
  Forall byte k -> Forall byte v -> nlen k <= max_key_len -> nlen v <= max_val_len ->
  so_rel idx_rel (db_put chain_ops P k v sp) (db_put flat_ops P k v sf).
Proof.
  intros Hs HI (mf & Emf & Hroom) Hbk Hbv Hk Hv.
  destruct (st_rel_mem_cases _ _ _ Hs) as [[E1 E2]|(mp & mf' & E1 & E2 & Hm)]; [congruence|].
  assert (mf' = mf) by congruence. subst mf'.
  destruct (Inv_open P sf mf Emf HI) as (HL & Hidx & _).
  assert (Hr : rec_fits (mkput k v)) by (apply rec_fits_mkput; assumption).
  unfold db_put. rewrite E1, E2.
  rewrite (proj2 (N.ltb_ge _ _) Hk), (proj2 (N.ltb_ge _ _) Hv).
  rewrite (mem_rel_seed _ _ _ Hm). cbv zeta.
  pose proof (write_record_rel idx_rel chain_ops flat_ops idx_rel_empty P (mkput k v) sp sf mp mf Hs Hm) as Hw.
  destruct (write_record chain_ops P (mkput k v) sp mp) as [[[[s1p m1p] idp] offp]|];
    destruct (write_record flat_ops P (mkput k v) sf mf) as [[[[s1f m1f] idf] offf]|] eqn:Ewf;
    unfold wr_rel in Hw; try contradiction.
  - destruct Hw as (Hs1 & Hm1 & -> & ->).
    destruct (wr_keep P _ sf mf _ _ _ _ HL Hroom Hr Ewf) as [Ei Hkeep].
    cbn [ix_put chain_ops flat_ops].
    rewrite (matchf_rel _ _ _ k (st_rel_disk _ _ _ Hs1)).
    set (sl := {| sl_h := p_hash P (m_seed mf) k; sl_seg := idf; sl_ks := u16 (nlen k);
                  sl_vs := u32 (nlen v); sl_off := offf |}).
    assert (U : uniq (fl_hit (sl_h sl) (matchf (s_disk s1f) k)) (m_idx m1f)).
    { rewrite Ei. cbn [sl sl_h]. apply (uniq_hit P _ _ (s_disk sf)); assumption. }
    pose proof (put_rel (p_grow P) (m_idx m1p) (m_idx m1f) sl (matchf (s_disk s1f) k)) as Hput.
    destruct (px_put (p_grow P) (m_idx m1p) sl (matchf (s_disk s1f) k)) as [i2p oldp].
    destruct (fl_put (p_grow P) (m_idx m1f) sl (matchf (s_disk s1f) k)) as [i2f oldf].
    destruct (Hput _ _ _ _ (mem_rel_idx _ _ _ Hm1) U eq_refl eq_refl) as [<- Hi2].
    apply finish_rel; [exact idx_rel_empty| |].
    + apply emit_rel; [exact idx_rel_empty|exact Hs1|constructor; exact Hi2].
    + apply set_idx_rel; [|exact Hi2]. destruct oldp; [apply track_del_rel|]; exact Hm1.
  - split; [reflexivity|exact Hs].
Qed.

Theorem sim_put (sp : stp) (sf : stf) k v :
  st_rel sp sf -> Inv P sf -> (exists m, s_mem sf = Some m /\ room m) ->
  Forall byte k -> Forall byte v -> nlen k <= max_key_len -> nlen v <= max_val_len ->
  let '(sp', op) := db_put chain_ops P k v sp in
  let '(sf', of) := db_put flat_ops P k v sf in
  op = of /\ st_rel sp' sf'.
Proof. intros. apply so_rel_let. apply sim_put_so; assumption. Qed.

(* ---- Delete (no size condition, no [room]: the index is consulted BEFORE the write) ---- *)
Lemma sim_delete_so (sp : stp) (sf : stf) k :
  st_rel sp sf -> Inv P sf ->
  so_rel idx_rel (db_delete chain_ops P k sp) (db_delete flat_ops P k sf).
Proof.
  intros Hs HI.
  destruct (st_rel_mem_cases _ _ _ Hs) as [[E1 E2]|(mp & mf & E1 & E2 & Hm)].
  { unfold db_delete. rewrite E1, E2. split; [reflexivity|exact Hs]. }
  destruct (Inv_open P sf mf E2 HI) as (HL & Hidx & _).
  unfold db_delete. rewrite E1, E2.
  rewrite (mem_rel_seed _ _ _ Hm). cbv zeta. cbn [ix_del chain_ops flat_ops].
  rewrite (matchf_rel _ _ _ k (st_rel_disk _ _ _ Hs)).
  pose proof (del_rel (m_idx mp) (m_idx mf) (p_hash P (m_seed mf) k) (matchf (s_disk sf) k)) as Hdel.
  destruct (px_del (m_idx mp) (p_hash P (m_seed mf) k) (matchf (s_disk sf) k)) as [i1p oldp].
  destruct (fl_del (m_idx mf) (p_hash P (m_seed mf) k) (matchf (s_disk sf) k)) as [i1f oldf].
  destruct (Hdel _ _ _ _ (mem_rel_idx _ _ _ Hm) (uniq_hit_same P _ _ _ k Hidx) eq_refl eq_refl) as [<- Hi1].
  destruct oldp as [o|].
  - pose proof (write_record_rel idx_rel chain_ops flat_ops idx_rel_empty P (mkdel k) sp sf
                  (track_del o mp) (track_del o mf) Hs (track_del_rel _ _ _ o Hm)) as Hw.
    destruct (write_record chain_ops P (mkdel k) sp (track_del o mp)) as [[[[s1p m1p] idp] offp]|];
      destruct (write_record flat_ops P (mkdel k) sf (track_del o mf)) as [[[[s1f m1f] idf] offf]|];
      unfold wr_rel in Hw; try contradiction.
    + destruct Hw as (Hs1 & Hm1 & -> & ->).
      apply finish_rel; [exact idx_rel_empty| |].
      * apply emit_rel; [exact idx_rel_empty|exact Hs1|constructor; exact Hi1].
      * apply set_idx_rel; [|exact Hi1]. apply add_delbytes_rel. exact Hm1.
    + split; [reflexivity|exact Hs].
  - apply finish_rel; [exact idx_rel_empty|exact Hs|exact Hm].
Qed.

Theorem sim_delete (sp : stp) (sf : stf) k :
  st_rel sp sf -> Inv P sf ->
  let '(sp', op) := db_delete chain_ops P k sp in
  let '(sf', of) := db_delete flat_ops P k sf in
  op = of /\ st_rel sp' sf'.
Proof. intros. apply so_rel_let. apply sim_delete_so; assumption. Qed.

(* ---- reads ---- *)
Theorem sim_get (sp : stp) (sf : stf) k :
  st_rel sp sf -> Inv P sf -> db_get chain_ops P k sp = db_get flat_ops P k sf.
Proof.
  intros Hs HI.
  destruct (st_rel_mem_cases _ _ _ Hs) as [[E1 E2]|(mp & mf & E1 & E2 & Hm)];
    unfold db_get; rewrite E1, E2; [reflexivity|].
  destruct (Inv_open P sf mf E2 HI) as (_ & Hidx & _).
  rewrite (mem_rel_seed _ _ _ Hm). cbn [ix_get chain_ops flat_ops].
  rewrite (matchf_rel _ _ _ k (st_rel_disk _ _ _ Hs)).
  rewrite (get_rel _ _ _ _ (mem_rel_idx _ _ _ Hm) (uniq_hit_same P _ _ _ k Hidx)).
  destruct (fl_get (m_idx mf) (p_hash P (m_seed mf) k) (matchf (s_disk sf) k)) as [sl|]; [|reflexivity].
  rewrite (read_kv_rel _ _ _ sl (st_rel_disk _ _ _ Hs)). reflexivity.
Qed.

Theorem sim_get_append (sp : stp) (sf : stf) k buf :
  st_rel sp sf -> Inv P sf -> db_get_append chain_ops P k buf sp = db_get_append flat_ops P k buf sf.
Proof. intros Hs HI. unfold db_get_append. rewrite (sim_get sp sf k Hs HI). reflexivity. Qed.

Theorem sim_has (sp : stp) (sf : stf) k :
  st_rel sp sf -> Inv P sf -> db_has chain_ops P k sp = db_has flat_ops P k sf.
Proof.
  intros Hs HI.
  destruct (st_rel_mem_cases _ _ _ Hs) as [[E1 E2]|(mp & mf & E1 & E2 & Hm)];
    unfold db_has; rewrite E1, E2; [reflexivity|].
  destruct (Inv_open P sf mf E2 HI) as (_ & Hidx & _).
  rewrite (mem_rel_seed _ _ _ Hm). cbn [ix_get chain_ops flat_ops].
  rewrite (matchf_rel _ _ _ k (st_rel_disk _ _ _ Hs)).
  rewrite (get_rel _ _ _ _ (mem_rel_idx _ _ _ Hm) (uniq_hit_same P _ _ _ k Hidx)). reflexivity.
Qed.

(* Count needs no invariant at all *)
Theorem sim_count (sp : stp) (sf : stf) :
  st_rel sp sf -> db_count chain_ops sp = db_count flat_ops sf.
Proof.
  intros Hs.
  destruct (st_rel_mem_cases _ _ _ Hs) as [[E1 E2]|(mp & mf & E1 & E2 & Hm)];
    unfold db_count; rewrite E1, E2; [reflexivity|].
  rewrite (count_rel _ _ (mem_rel_idx _ _ _ Hm)). reflexivity.
Qed.

(* ---- Sync, pickForCompaction: no index access ---- *)
Theorem sim_sync (sp : stp) (sf : stf) :
  st_rel sp sf ->
  let '(sp', op) := db_sync chain_ops sp in
  let '(sf', of) := db_sync flat_ops sf in
  op = of /\ st_rel sp' sf'.
Proof. intros Hs. apply so_rel_let. apply sync_rel; [exact idx_rel_empty|exact Hs]. Qed.

Theorem sim_compact_pick (sp : stp) (sf : stf) :
  st_rel sp sf ->
  match compact_pick chain_ops P sp, compact_pick flat_ops P sf with
  | None, None => True
  | Some (sp', cp), Some (sf', cf) => st_rel sp' sf' /\ cp = cf
  | _, _ => False
  end.
Proof. intros Hs. apply (compact_pick_rel idx_rel chain_ops flat_ops idx_rel_empty P sp sf Hs). Qed.

(* ---- Items ---- *)
End Sim.

Definition kv_of {I} (d : @DB.disk I) (sl : slot) : key * val :=
  match read_kv d sl with Some kv => kv | None => ([], []) end.

Lemma read_slots_all {I} (d : @DB.disk I) l :
  (forall sl, In sl l -> read_kv d sl <> None) -> read_slots d l = Some (map (kv_of d) l).
Proof.
  induction l as [|sl l IH]; intros H; [reflexivity|]. cbn [read_slots map].
  rewrite IH by (intros x Hx; apply H; right; exact Hx).
  destruct (read_kv d sl) as [kv|] eqn:E.
  - replace (kv_of d sl) with kv by (unfold kv_of; rewrite E; reflexivity). reflexivity.
  - exfalso. apply (H sl); [left; reflexivity|exact E].
Qed.

(* a full scan when every slot is readable: the buckets in order *)
Lemma db_items_scan {I} (ops : idx_ops I) (s : @DB.st I) m :
  s_mem s = Some m ->
  (forall n sl, In sl (ix_bucket ops (m_idx m) n) -> read_kv (s_disk s) sl <> None) ->
  db_items ops s =
  OItems (concat (map (fun n => map (kv_of (s_disk s)) (ix_bucket ops (m_idx m) n))
                      (nseq 0 (N.to_nat (ix_nbuckets ops (m_idx m)))))).
Proof.
  intros E H. unfold db_items. rewrite E. cbv zeta.
  generalize (nseq 0 (N.to_nat (ix_nbuckets ops (m_idx m)))). intros bs.
  induction bs as [|n bs IH]; [reflexivity|].
  cbn [map concat]. rewrite IH. unfold fetch_bucket. rewrite E.
  rewrite (read_slots_all _ _ (H n)). reflexivity.
Qed.

Lemma nseq_seq a n : nseq (N.of_nat a) n = map N.of_nat (seq a n).
Proof.
  revert a. induction n as [|n IH]; intros a; [reflexivity|]. cbn [nseq seq map]. f_equal.
  replace (N.of_nat a + 1) with (N.of_nat (S a)) by lia. apply IH.
Qed.

Lemma concat_map_map {A B C} (f : B -> C) (g : A -> list B) l :
  concat (map (fun n => map f (g n)) l) = map f (concat (map g l)).
Proof. rewrite concat_map, map_map. reflexivity. Qed.

Lemma chain_scan_all p : concat (map (px_bucket p) (nseq 0 (N.to_nat (px_nbuckets p)))) = all_slots p.
Proof.
  unfold px_nbuckets. rewrite <- length_nlen. change 0 with (N.of_nat 0). rewrite nseq_seq.
  apply px_iter_all.
Qed.

(* outputs up to the order of an Items listing *)
Definition out_equiv (a b : out) : Prop :=
  match a, b with
  | OItems l1, OItems l2 => Permutation l1 l2
  | _, _ => a = b
  end.

Lemma out_equiv_refl a : out_equiv a a.
Proof. destruct a; cbn; reflexivity. Qed.

Section Sim2.
Variable P : params.

Lemma sim_items_open (sp : stp) (sf : stf) :
  st_rel sp sf -> Inv P sf -> s_mem sf <> None ->
  exists lp lf, db_items chain_ops sp = OItems lp /\ db_items flat_ops sf = OItems lf /\ Permutation lp lf.
Proof.
  intros Hs HI Hopen.
  destruct (st_rel_mem_cases _ _ _ Hs) as [[E1 E2]|(mp & mf & E1 & E2 & Hm)]; [congruence|].
  destruct (Inv_open P sf mf E2 HI) as (_ & (Hok & _ & _) & _).
  destruct (mem_rel_idx _ _ _ Hm) as (HPI & HPerm & _).
  assert (Hrd : forall sl, In sl (m_idx mf) -> read_kv (s_disk sf) sl <> None).
  { intros sl Hsl. pose proof (proj1 (Forall_forall _ _) Hok sl Hsl) as Ok.
    destruct (slot_ok_read P _ _ _ Ok) as (r & _ & _ & _ & _ & _ & Er & _). congruence. }
  exists (map (kv_of (s_disk sf)) (all_slots (m_idx mp))), (map (kv_of (s_disk sf)) (m_idx mf) ++ []).
  split; [|split].
  - rewrite (db_items_scan chain_ops sp mp E1).
    + cbn [ix_bucket ix_nbuckets chain_ops]. rewrite concat_map_map, chain_scan_all. f_equal.
      apply map_ext. intros sl. unfold kv_of. rewrite (read_kv_rel _ _ _ sl (st_rel_disk _ _ _ Hs)). reflexivity.
    + intros n sl Hsl. rewrite (read_kv_rel _ _ _ sl (st_rel_disk _ _ _ Hs)). apply Hrd.
      eapply Permutation_in; [exact HPerm|]. cbn [ix_bucket chain_ops] in Hsl.
      rewrite px_bucketE in Hsl. exact (px_chain_in_all _ _ _ Hsl).
  - rewrite (db_items_scan flat_ops sf mf E2).
    + cbn [ix_bucket ix_nbuckets flat_ops]. reflexivity.
    + intros n sl Hsl. cbn [ix_bucket flat_ops] in Hsl. destruct (n =? 0); [apply Hrd; exact Hsl|destruct Hsl].
  - rewrite app_nil_r. apply Permutation_map. exact HPerm.
Qed.

Theorem sim_items (sp : stp) (sf : stf) :
  st_rel sp sf -> Inv P sf -> out_equiv (db_items chain_ops sp) (db_items flat_ops sf).
Proof.
  intros Hs HI. destruct (s_mem sf) as [mf|] eqn:E2.
  - destruct (sim_items_open sp sf Hs HI) as (lp & lf & -> & -> & HP); [congruence|exact HP].
  - destruct (st_rel_mem_cases _ _ _ Hs) as [[E1 _]|(mp & mf & _ & E2' & _)]; [|congruence].
    unfold db_items. rewrite E1, E2. reflexivity.
Qed.

(* ---- one critical section of Compact ---- *)
End Sim2.

(* writeRecord never changes the index value held in memory (any index implementation) *)
Lemma seal_idx {I} (ops : idx_ops I) id s m : m_idx (snd (seal ops id s m)) = m_idx m.
Proof. unfold seal. destruct (find_mseg id (m_segs m)) as [g|]; [destruct (sm_full (g_meta g))|]; reflexivity. Qed.

Lemma swap_idx {I} (ops : idx_ops I) s m : m_idx (snd (swap_segment ops s m)) = m_idx m.
Proof. unfold swap_segment. destruct (find _ (m_segs m)); reflexivity. Qed.

Lemma gprelude_idx {I} (ops : idx_ops I) P r s m : m_idx (snd (gprelude ops P r s m)) = m_idx m.
Proof.
  unfold gprelude. destruct (cur_seg m) as [g|].
  - destruct (sm_full (g_meta g) || (p_maxseg P <? g_size g + rsize r)); [|reflexivity].
    pose proof (seal_idx ops (g_id g) s m) as H. destruct (seal ops (g_id g) s m) as [s0 m0].
    cbn [snd] in H. rewrite swap_idx. exact H.
  - apply swap_idx.
Qed.

Lemma gtail_idx {I} (ops : idx_ops I) r s1 m1 s' m' id off :
  gtail ops r s1 m1 = Some (s', m', id, off) -> m_idx m' = m_idx m1.
Proof.
  unfold gtail. destruct (cur_seg m1) as [g|]; [|discriminate].
  destruct (find_dseg (g_id g) (s_disk s1)) as [f|]; [|discriminate].
  destruct (negb ((f_seq f =? g_seq g) && (flen f =? g_size g))); [discriminate|].
  cbv zeta. intros H. injection H as _ <- _ _. reflexivity.
Qed.

Lemma write_record_idx {I} (ops : idx_ops I) P r s m s' m' id off :
  write_record ops P r s m = Some (s', m', id, off) -> m_idx m' = m_idx m.
Proof.
  rewrite write_record_g. pose proof (gprelude_idx ops P r s m) as H.
  destruct (gprelude ops P r s m) as [s1 m1]. cbn [snd] in H. intros E.
  rewrite (gtail_idx _ _ _ _ _ _ _ _ E). exact H.
Qed.

Inductive cstep_rel : @cstep pindex -> @cstep flat -> Prop :=
| cr_done : cstep_rel CDone CDone
| cr_more sp sf c : st_rel sp sf -> cstep_rel (CMore sp c) (CMore sf c)
| cr_fail w : cstep_rel (CFail w) (CFail w).

Section Sim3.
Variable P : params.

(* the only fact about the flat state that a compaction step needs: two slots of the flat index
   never point to the same record *)
Theorem sim_compact_step_gen (sp : stp) (sf : stf) c :
  st_rel sp sf -> (forall mf, s_mem sf = Some mf -> points_uniq (m_idx mf)) ->
  cstep_rel (compact_step chain_ops P sp c) (compact_step flat_ops P sf c).
Proof.
  intros Hs HU. unfold compact_step.
  destruct (st_rel_mem_cases _ _ _ Hs) as [[E1 E2]|(mp & mf & E1 & E2 & Hm)]; rewrite E1, E2; [constructor|].
  specialize (HU mf E2).
  destruct (c_src c) as [[[id seq] off]|].
  - rewrite (find_dseg_rel _ _ _ id (st_rel_disk _ _ _ Hs)).
    destruct (find_dseg id (s_disk sf)) as [f|]; [|constructor].
    destruct (rec_at off (seg_entries f)) as [r|].
    + cbv zeta. destruct (rdel r); [constructor; exact Hs|].
      rewrite (mem_rel_seed _ _ _ Hm). cbn [ix_repoint chain_ops flat_ops].
      set (h := p_hash P (m_seed mf) (rk r)).
      pose proof (repoint_rel (m_idx mp) (m_idx mf) h id (u32 off) id (u32 off)
                    (mem_rel_idx _ _ _ Hm) (HU _ _ _)) as R1.
      destruct (px_repoint (m_idx mp) h id (u32 off) id (u32 off)) as [ip|];
        destruct (fl_repoint (m_idx mf) h id (u32 off) id (u32 off)) as [jf|]; inversion R1; subst.
      * pose proof (write_record_rel idx_rel chain_ops flat_ops idx_rel_empty P r sp sf mp mf Hs Hm) as Hw.
        destruct (write_record chain_ops P r sp mp) as [[[[s1p m1p] idp] offp]|];
          destruct (write_record flat_ops P r sf mf) as [[[[s1f m1f] idf] offf]|] eqn:Ewf;
          unfold wr_rel in Hw; try contradiction; [|constructor].
        destruct Hw as (Hs1 & Hm1 & -> & ->).
        assert (U1 : points_uniq (m_idx m1f)) by (rewrite (write_record_idx _ _ _ _ _ _ _ _ _ Ewf); exact HU).
        pose proof (repoint_rel (m_idx m1p) (m_idx m1f) h id (u32 off) idf offf
                      (mem_rel_idx _ _ _ Hm1) (U1 _ _ _)) as R2.
        destruct (px_repoint (m_idx m1p) h id (u32 off) idf offf) as [i2p|];
          destruct (fl_repoint (m_idx m1f) h id (u32 off) idf offf) as [i2f|]; inversion R2; subst;
          [|constructor].
        constructor. apply with_mem_rel.
        -- apply emit_rel; [exact idx_rel_empty|exact Hs1|constructor; assumption].
        -- apply set_idx_rel; assumption.
      * constructor. exact Hs.
    + destruct (negb ((flen f =? off) && (f_seq f =? seq))); [constructor|].
      constructor. apply remove_segment_rel; [exact idx_rel_empty|exact Hs|exact Hm].
  - destruct (c_todo c) as [|[id seq] todo]; [constructor|]. cbv zeta. constructor.
    apply with_mem_rel; [exact Hs|]. rewrite (mem_rel_segs _ _ _ Hm). apply set_msegs_rel. exact Hm.
Qed.

Theorem sim_compact_step (sp : stp) (sf : stf) c :
  st_rel sp sf -> Inv P sf ->
  cstep_rel (compact_step chain_ops P sp c) (compact_step flat_ops P sf c).
Proof.
  intros Hs HI. apply sim_compact_step_gen; [exact Hs|]. intros mf E2.
  destruct (Inv_open P sf mf E2 HI) as (_ & Hidx & _). exact (uniq_points P _ _ _ Hidx).
Qed.

End Sim3.

(* ================================================================================================ *)
(** * 4. The theorems of the flat instantiation, transferred to the chain index *)

Lemma sdel_absent m k : sget m k = None -> sdel m k = m.
Proof.
  induction m as [|[k' v] m IH]; [reflexivity|]. cbn [sget sdel].
  destruct (key_eqb k k'); [discriminate|]. intros H. rewrite (IH H). reflexivity.
Qed.

(* Put / Delete of the flat database change [abs] exactly as the specification map changes *)
Lemma flat_put_abs P (s : stf) k v :
  params_ok P -> Inv P s -> (exists m, s_mem s = Some m /\ room m) ->
  Forall byte k -> Forall byte v -> nlen k <= max_key_len -> nlen v <= max_val_len ->
  exists s', db_put flat_ops P k v s = (s', OOk) /\ Inv P s' /\ s_mem s' <> None /\
             abs (s_disk s') = sput (abs (s_disk s)) k v.
Proof.
  intros HP HI Hm Hbk Hbv Hk Hv.
  destruct (put_ok_ex P s k v HP HI Hm Hbk Hbv Hk Hv)
    as (s' & E & HI' & Hm' & _ & id & seq & off & pre & i2 & post & _ & _ & _ & _ & Eo & _).
  exists s'. split; [exact E|]. split; [exact HI'|]. split; [exact Hm'|].
  rewrite (abs_snoc _ _ _ Eo). reflexivity.
Qed.

Lemma del_found_bytes P seed idx (d : diskf) k i1 o :
  DiskOK d -> idx_agrees P seed idx d ->
  fl_del idx (p_hash P seed k) (matchf d k) = (i1, Some o) -> Forall byte k.
Proof.
  intros Hd Hidx E. pose proof Hidx as (Hok & Hnd & _). rewrite (fl_del_hit P seed idx d k Hd Hok) in E.
  destruct (fl_remove (khit (slot_key d) k) idx) as [[l' o']|] eqn:Er; [|discriminate].
  inversion E; subst i1 o'. destruct (fl_remove_Some _ _ _ _ _ Hnd Er) as (A1 & A2 & _).
  pose proof (proj1 (Forall_forall _ _) Hok o A1) as Ho.
  destruct (slot_ok_read P d seed o Ho) as (r & Er' & _ & _ & _ & _ & _ & Ek).
  pose proof (rec_of_rec_fits d _ _ r Hd Er') as (Hb & _). rewrite <- A2, Ek. exact Hb.
Qed.

(* Delete accepts ANY key (no [Forall byte k]): a key that is not a byte string is absent *)
Lemma flat_delete_abs P (s : stf) k :
  params_ok P -> Inv P s -> (exists m, s_mem s = Some m /\ room m) ->
  exists s', db_delete flat_ops P k s = (s', OOk) /\ Inv P s' /\ s_mem s' <> None /\
             abs (s_disk s') = sdel (abs (s_disk s)) k.
Proof.
  intros HP HI (m & Em & Hroom).
  destruct (Inv_open P s m Em HI) as (HL & Hidx & _). assert (Hd : DiskOK (s_disk s)) by apply HL.
  destruct (fl_del (m_idx m) (p_hash P (m_seed m) k) (matchf (s_disk s) k)) as [i1 [o|]] eqn:Edel.
  - pose proof (del_found_bytes P _ _ _ k i1 o Hd Hidx Edel) as Hbk.
    destruct (delete_ok_ex P s k HP HI (ex_intro _ m (conj Em Hroom)) Hbk)
      as (s' & E & HI' & Hm' & _ & _ & [(Habs & Ed & _)|(_ & _ & id & seq & off & pre & i & post & _ & _ & _ & _ & Eo & _)]).
    + exists s'. split; [exact E|]. split; [exact HI'|]. split; [exact Hm'|].
      rewrite Ed, (sdel_absent _ _ Habs). reflexivity.
    + exists s'. split; [exact E|]. split; [exact HI'|]. split; [exact Hm'|].
      rewrite (abs_snoc _ _ _ Eo). reflexivity.
  - destruct (del_absent P _ _ _ k i1 Hd Hidx Edel) as [-> Habs].
    destruct (finish_spec P s m) as (s' & Ef & Ems' & Eds' & _).
    exists s'. unfold db_delete. rewrite Em. cbn [ix_del flat_ops]. rewrite Edel.
    split; [exact Ef|]. split; [apply (Inv_same P s); [congruence|exact Eds'|exact HI]|].
    split; [congruence|]. rewrite Eds', (sdel_absent _ _ Habs). reflexivity.
Qed.

Section Chain.
Variable P : params.

Theorem chain_get_ok (sp : stp) (sf : stf) k :
  st_rel sp sf -> Inv P sf -> s_mem sf <> None ->
  db_get chain_ops P k sp = OVal (sget (abs (s_disk sf)) k).
Proof. intros Hs HI Hm. rewrite (sim_get P sp sf k Hs HI). apply get_ok; assumption. Qed.

Theorem chain_get_append_ok (sp : stp) (sf : stf) k buf :
  st_rel sp sf -> Inv P sf -> s_mem sf <> None ->
  db_get_append chain_ops P k buf sp = OVal (option_map (fun v => buf ++ v) (sget (abs (s_disk sf)) k)).
Proof. intros Hs HI Hm. rewrite (sim_get_append P sp sf k buf Hs HI). apply get_append_ok; assumption. Qed.

Theorem chain_has_ok (sp : stp) (sf : stf) k :
  st_rel sp sf -> Inv P sf -> s_mem sf <> None ->
  db_has chain_ops P k sp = OBool (shas (abs (s_disk sf)) k).
Proof. intros Hs HI Hm. rewrite (sim_has P sp sf k Hs HI). apply has_ok; assumption. Qed.

Theorem chain_count_ok (sp : stp) (sf : stf) :
  st_rel sp sf -> Inv P sf -> s_mem sf <> None ->
  db_count chain_ops sp = ONum (scount (abs (s_disk sf))).
Proof. intros Hs HI Hm. rewrite (sim_count sp sf Hs). apply (count_ok P); assumption. Qed.

Theorem chain_items_ok (sp : stp) (sf : stf) :
  st_rel sp sf -> Inv P sf -> s_mem sf <> None ->
  exists l, db_items chain_ops sp = OItems l /\ Permutation l (abs (s_disk sf)).
Proof.
  intros Hs HI Hm. destruct (sim_items_open P sp sf Hs HI Hm) as (lp & lf & Ep & Ef & HP).
  destruct (items_ok P sf HI Hm) as (l & El & Hl). exists lp. split; [exact Ep|].
  rewrite HP. assert (lf = l) by congruence. subst lf. exact Hl.
Qed.

Theorem chain_put_ok (sp : stp) (sf : stf) k v :
  params_ok P -> st_rel sp sf -> Inv P sf -> (exists m, s_mem sf = Some m /\ room m) ->
  Forall byte k -> Forall byte v -> nlen k <= max_key_len -> nlen v <= max_val_len ->
  let '(sp', o) := db_put chain_ops P k v sp in
  let sf' := fst (db_put flat_ops P k v sf) in
  o = OOk /\ st_rel sp' sf' /\ Inv P sf' /\ s_mem sf' <> None /\
  abs (s_disk sf') = sput (abs (s_disk sf)) k v.
Proof.
  intros HP Hs HI Hm Hbk Hbv Hk Hv.
  pose proof (sim_put_so P sp sf k v Hs HI Hm Hbk Hbv Hk Hv) as [Ho Hs'].
  destruct (flat_put_abs P sf k v HP HI Hm Hbk Hbv Hk Hv) as (sf' & E & HI' & Hm' & Ea).
  rewrite E in Ho, Hs' |- *. cbn [fst snd] in Ho, Hs' |- *.
  destruct (db_put chain_ops P k v sp) as [sp' o]. cbn [fst snd] in Ho, Hs'. cbv zeta. auto.
Qed.

Theorem chain_delete_ok (sp : stp) (sf : stf) k :
  params_ok P -> st_rel sp sf -> Inv P sf -> (exists m, s_mem sf = Some m /\ room m) ->
  let '(sp', o) := db_delete chain_ops P k sp in
  let sf' := fst (db_delete flat_ops P k sf) in
  o = OOk /\ st_rel sp' sf' /\ Inv P sf' /\ s_mem sf' <> None /\
  abs (s_disk sf') = sdel (abs (s_disk sf)) k.
Proof.
  intros HP Hs HI Hm.
  pose proof (sim_delete_so P sp sf k Hs HI) as [Ho Hs'].
  destruct (flat_delete_abs P sf k HP HI Hm) as (sf' & E & HI' & Hm' & Ea).
  rewrite E in Ho, Hs' |- *. cbn [fst snd] in Ho, Hs' |- *.
  destruct (db_delete chain_ops P k sp) as [sp' o]. cbn [fst snd] in Ho, Hs'. cbv zeta. auto.
Qed.

Theorem chain_sync_ok (sp : stp) (sf : stf) :
  st_rel sp sf -> Inv P sf -> s_mem sf <> None ->
  let '(sp', o) := db_sync chain_ops sp in
  let sf' := fst (db_sync flat_ops sf) in
  o = OOk /\ st_rel sp' sf' /\ Inv P sf' /\ s_disk sf' = s_disk sf /\ s_mem sf' = s_mem sf.
Proof.
  intros Hs HI Hm. pose proof (sync_rel idx_rel chain_ops flat_ops idx_rel_empty sp sf Hs) as [Ho Hs'].
  pose proof (sync_ok P sf HI Hm) as Hf.
  destruct (db_sync flat_ops sf) as [sf' of]. destruct (db_sync chain_ops sp) as [sp' o].
  cbn [fst snd] in Ho, Hs' |- *. cbv zeta. destruct Hf as (-> & A & B & C). auto.
Qed.

End Chain.

(* ================================================================================================ *)
(** * 5. Runs: the chain-index database refines the specification map *)

Inductive op :=
| OpPut (k : key) (v : val) | OpDelete (k : key) | OpGet (k : key) | OpGetAppend (k : key) (buf : bytes)
| OpHas (k : key) | OpCount | OpItems | OpSync.

Definition step {I} (ops : idx_ops I) (P : params) (s : @DB.st I) (o : op) : @DB.st I * out :=
  match o with
  | OpPut k v => db_put ops P k v s
  | OpDelete k => db_delete ops P k s
  | OpGet k => (s, db_get ops P k s)
  | OpGetAppend k buf => (s, db_get_append ops P k buf s)
  | OpHas k => (s, db_has ops P k s)
  | OpCount => (s, db_count ops s)
  | OpItems => (s, db_items ops s)
  | OpSync => db_sync ops s
  end.
Definition step_chain (P : params) : stp -> op -> stp * out := step chain_ops P.
Definition step_flat (P : params) : stf -> op -> stf * out := step flat_ops P.

(* the specification: a plain map; Items returns the map itself *)
Definition step_spec (m : smap) (o : op) : smap * out :=
  match o with
  | OpPut k v => (sput m k v, OOk)
  | OpDelete k => (sdel m k, OOk)
  | OpGet k => (m, OVal (sget m k))
  | OpGetAppend k buf => (m, OVal (option_map (fun v => buf ++ v) (sget m k)))
  | OpHas k => (m, OBool (shas m k))
  | OpCount => (m, ONum (scount m))
  | OpItems => (m, OItems m)
  | OpSync => (m, OOk)
  end.

Fixpoint run {S} (stepf : S -> op -> S * out) (s : S) (l : list op) : list out :=
  match l with
  | [] => []
  | o :: l' => let '(s', r) := stepf s o in r :: run stepf s' l'
  end.

(* Put arguments are byte strings within the size limits (a Put outside of them is rejected by the
   database, the plain map would accept it); every other operation takes any argument *)
Definition op_valid (o : op) : Prop :=
  match o with
  | OpPut k v => Forall byte k /\ Forall byte v /\ nlen k <= max_key_len /\ nlen v <= max_val_len
  | _ => True
  end.

(* the 32-bit offset side condition (DBInv.room) holds in every state the FLAT run goes through
   (this also says that the database is open) *)
Inductive rooms (P : params) : stf -> list op -> Prop :=
| rooms_nil s : rooms P s []
| rooms_cons s o l :
    (exists m, s_mem s = Some m /\ room m) -> rooms P (fst (step_flat P s o)) l -> rooms P s (o :: l).

Lemma step_refines P (sp : stp) (sf : stf) o :
  params_ok P -> st_rel sp sf -> Inv P sf -> op_valid o -> (exists m, s_mem sf = Some m /\ room m) ->
  st_rel (fst (step_chain P sp o)) (fst (step_flat P sf o)) /\
  Inv P (fst (step_flat P sf o)) /\
  abs (s_disk (fst (step_flat P sf o))) = fst (step_spec (abs (s_disk sf)) o) /\
  out_equiv (snd (step_chain P sp o)) (snd (step_spec (abs (s_disk sf)) o)).
Proof.
  intros HP Hs HI Hv Hroom.
  assert (Hopen : s_mem sf <> None) by (destruct Hroom as (m & -> & _); discriminate).
  unfold step_chain, step_flat. destruct o as [k v|k|k|k buf|k| | |]; cbn [step step_spec fst snd].
  - destruct Hv as (Hbk & Hbv & Hk & Hvl).
    pose proof (chain_put_ok P sp sf k v HP Hs HI Hroom Hbk Hbv Hk Hvl) as H.
    destruct (db_put chain_ops P k v sp) as [sp' o]. cbv zeta in H. cbn [fst snd].
    destruct H as (-> & A & B & _ & C). repeat split; assumption.
  - pose proof (chain_delete_ok P sp sf k HP Hs HI Hroom) as H.
    destruct (db_delete chain_ops P k sp) as [sp' o]. cbv zeta in H. cbn [fst snd].
    destruct H as (-> & A & B & _ & C). repeat split; assumption.
  - rewrite (chain_get_ok P sp sf k Hs HI Hopen). repeat split; assumption.
  - rewrite (chain_get_append_ok P sp sf k buf Hs HI Hopen). repeat split; assumption.
  - rewrite (chain_has_ok P sp sf k Hs HI Hopen). repeat split; assumption.
  - rewrite (chain_count_ok P sp sf Hs HI Hopen). repeat split; assumption.
  - destruct (chain_items_ok P sp sf Hs HI Hopen) as (l & -> & Hl). repeat split; assumption.
  - pose proof (chain_sync_ok P sp sf Hs HI Hopen) as H.
    destruct (db_sync chain_ops sp) as [sp' o]. cbv zeta in H. cbn [fst snd].
    destruct H as (-> & A & B & C & _). rewrite C. repeat split; assumption.
Qed.

(* C01 for the real index: for every hash function, split policy, thresholds and sync mode, the
   outputs of any run of valid operations on the chain-index database are the outputs of the plain
   map (Items up to order), as long as the offsets fit in 32 bits *)
Theorem C01_chain_refines_map P (sp : stp) (sf : stf) (l : list op) :
  params_ok P -> st_rel sp sf -> Inv P sf -> Forall op_valid l -> rooms P sf l ->
  Forall2 out_equiv (run (step_chain P) sp l) (run step_spec (abs (s_disk sf)) l).
Proof.
  intros HP. revert sp sf. induction l as [|o l IH]; intros sp sf Hs HI Hv Hr; cbn [run]; [constructor|].
  inversion Hv as [|? ? Hvo Hvl]; subst. inversion Hr as [|? ? ? Hro Hrl]; subst.
  destruct (step_refines P sp sf o HP Hs HI Hvo Hro) as (A & B & C & D).
  destruct (step_chain P sp o) as [sp' rp]. destruct (step_spec (abs (s_disk sf)) o) as [ms' rs].
  cbn [fst snd] in A, C, D. constructor; [exact D|]. rewrite <- C. apply IH; assumption.
Qed.

(* the same with the states: relation, invariant and abstraction along the run *)
Theorem chain_run_states P (sp : stp) (sf : stf) (l : list op) :
  params_ok P -> st_rel sp sf -> Inv P sf -> Forall op_valid l -> rooms P sf l ->
  let sp' := fold_left (fun s o => fst (step_chain P s o)) l sp in
  let sf' := fold_left (fun s o => fst (step_flat P s o)) l sf in
  st_rel sp' sf' /\ Inv P sf' /\
  abs (s_disk sf') = fold_left (fun m o => fst (step_spec m o)) l (abs (s_disk sf)).
Proof.
  intros HP. revert sp sf. induction l as [|o l IH]; intros sp sf Hs HI Hv Hr; cbn [fold_left]; [auto|].
  inversion Hv as [|? ? Hvo Hvl]; subst. inversion Hr as [|? ? ? Hro Hrl]; subst.
  destruct (step_refines P sp sf o HP Hs HI Hvo Hro) as (A & B & C & D).
  rewrite <- C. apply IH; assumption.
Qed.

(* ================================================================================================ *)
(** * 6. The initial states: Open on an empty directory *)

Definition st0 {I} : @DB.st I := {| s_mem := None; s_disk := disk0; s_trace := [] |}.

(* the state of the flat database after Open on an empty directory, written out *)
Definition flat_init (seed : N) : stf :=
  {| s_mem := Some {| m_segs := [{| g_id := 0; g_seq := 1; g_size := 512; g_meta := smeta0 |}];
                      m_cur := (0, 1); m_cur_removed := false; m_maxseq := 1; m_idx := [];
                      m_seed := seed |};
     s_disk := {| d_segs := [{| f_id := 0; f_seq := 1; f_hdr := true; f_recs := []; f_tail := [];
                               f_meta := GAbsent |}];
                  d_orphans := []; d_index := Some []; d_overflow := true; d_imeta := GAbsent;
                  d_dbmeta := GAbsent; d_lock := true; d_bac := [] |};
     s_trace := [ECreate FLock; ECreate FMain; EHeader FMain; ECreate FOverflow; EHeader FOverflow;
                 ETrunc FMain 1024; EIndex []; ECreate (FSeg 0 1); EHeader (FSeg 0 1)] |}.

Lemma flat_open_fresh P seed : db_open flat_ops P seed st0 = (flat_init seed, OOpened false).
Proof. vm_compute. reflexivity. Qed.

Lemma flat_init_Inv P seed : Inv P (flat_init seed).
Proof.
  unfold Inv, flat_init. cbn [s_mem s_disk].
  split; [|split; [|split; [|split; [|split; [|split; [|split; [|split]]]]]]].
  - split; [|split].
    + constructor; [|constructor]. unfold dseg_ok. cbn [f_recs f_tail f_hdr].
      split; [constructor|]. split; [exact tail_stuck_nil|]. split; [constructor|].
      split; [discriminate|]. vm_compute. reflexivity.
    + cbn [d_segs map f_id]. constructor; [intros []|constructor].
    + cbn [d_segs map f_seq]. constructor; [intros []|constructor].
  - split.
    + intros g [<-|[]]. eexists. split; [left; reflexivity|]. repeat split.
    + intros f [<-|[]]. eexists. split; [left; reflexivity|]. split; reflexivity.
  - cbn [m_segs ids_increasing]. split; [intros g' []|exact I].
  - split.
    + intros g [<-|[]]. cbn [g_seq m_maxseq]. lia.
    + intros g g' [<-|[]] [<-|[]] _. cbn [g_seq]. lia.
  - intros _. eexists. split; [left; reflexivity|]. split; reflexivity.
  - split; [constructor|]. split; [constructor|]. intros k. reflexivity.
  - reflexivity.
  - reflexivity.
  - reflexivity.
Qed.

Lemma flat_init_room seed : exists m, s_mem (flat_init seed) = Some m /\ room m.
Proof.
  eexists. split; [reflexivity|]. intros g [<-|[]]. vm_compute. reflexivity.
Qed.

Lemma flat_init_abs seed : abs (s_disk (flat_init seed)) = [].
Proof. reflexivity. Qed.

(* Open on an empty directory: both databases open, the states are related, the flat one satisfies
   the invariant and the side condition, and the contents are empty *)
Theorem init_rel P seed :
  let '(sp, op) := db_open chain_ops P seed st0 in
  let '(sf, of) := db_open flat_ops P seed st0 in
  op = OOpened false /\ of = OOpened false /\ st_rel sp sf /\ Inv P sf /\
  (exists m, s_mem sf = Some m /\ room m) /\ abs (s_disk sf) = [].
Proof.
  rewrite flat_open_fresh.
  set (a := db_open chain_ops P seed st0). vm_compute in a. subst a. cbv beta iota.
  split; [reflexivity|]. split; [reflexivity|].
  split; [|split; [apply flat_init_Inv|split; [apply flat_init_room|reflexivity]]].
  unfold flat_init. constructor.
  - constructor. constructor. exact idx_rel_empty.
  - constructor; [constructor; exact idx_rel_empty|constructor].
  - repeat first [exact idx_rel_empty | constructor].
Qed.

(* hence: any run of valid operations on a freshly opened chain-index database behaves like the
   plain map started empty *)
Corollary C01_chain_from_empty P seed (l : list op) :
  params_ok P -> Forall op_valid l -> rooms P (flat_init seed) l ->
  Forall2 out_equiv (run (step_chain P) (fst (db_open chain_ops P seed st0)) l) (run step_spec [] l).
Proof.
  intros HP Hv Hr. pose proof (init_rel P seed) as H. rewrite flat_open_fresh in H.
  destruct (db_open chain_ops P seed st0) as [sp o]. destruct H as (_ & _ & Hs & HI & _ & Ea).
  cbn [fst]. rewrite <- Ea. apply C01_chain_refines_map; assumption.
Qed.

(* ================================================================================================ *)
(** * 7. Executable side conditions, and a concrete non-vacuity example *)

Definition op_valid_b (o : op) : bool :=
  match o with
  | OpPut k v => forallb (fun b => b <? 256) k && forallb (fun b => b <? 256) v &&
                 (nlen k <=? max_key_len) && (nlen v <=? max_val_len)
  | _ => true
  end.

Lemma forallb_byte l : forallb (fun b => b <? 256) l = true -> Forall byte l.
Proof.
  intros H. apply Forall_forall. intros x Hx. unfold byte. apply N.ltb_lt.
  exact (proj1 (forallb_forall _ _) H x Hx).
Qed.

Lemma op_valid_b_ok o : op_valid_b o = true -> op_valid o.
Proof.
  destruct o as [k v|k|k|k buf|k| | |]; cbn [op_valid_b op_valid]; try (intros _; exact I).
  rewrite !andb_true_iff. intros [[[A B] C] D].
  split; [apply forallb_byte; exact A|]. split; [apply forallb_byte; exact B|].
  split; [apply N.leb_le; exact C|apply N.leb_le; exact D].
Qed.

Lemma ops_valid_b_ok l : forallb op_valid_b l = true -> Forall op_valid l.
Proof.
  intros H. apply Forall_forall. intros o Ho. apply op_valid_b_ok.
  exact (proj1 (forallb_forall _ _) H o Ho).
Qed.

Lemma room_b_ok (m : memf) : room_b m = true -> room m.
Proof.
  unfold room_b, room. intros H g Hg. apply N.ltb_lt. exact (proj1 (forallb_forall _ _) H g Hg).
Qed.

Fixpoint rooms_b (P : params) (s : stf) (l : list op) : bool :=
  match l with
  | [] => true
  | o :: l' => match s_mem s with Some m => room_b m | None => false end &&
               rooms_b P (fst (step_flat P s o)) l'
  end.

Lemma rooms_b_ok P l : forall s, rooms_b P s l = true -> rooms P s l.
Proof.
  induction l as [|o l IH]; intros s H; [constructor|]. cbn [rooms_b] in H.
  apply andb_true_iff in H. destruct H as [A B]. constructor; [|apply IH; exact B].
  destruct (s_mem s) as [m|]; [|discriminate]. exists m. split; [reflexivity|apply room_b_ok; exact A].
Qed.

Module SimEx.
(* every key has the same 32-bit hash; the index never splits: all slots live in ONE chain *)
Definition exP : params :=
  {| p_maxseg := 1000000; p_minseg := 0; p_frag := fun _ _ => false; p_sync := false;
     p_grow := fun _ _ => false; p_hash := fun _ _ => 7 |}.

Definition key_of (i : nat) : key := [N.of_nat i].
Definition val_of (i : nat) : val := [N.of_nat i; N.of_nat i].

(* 40 colliding keys, then key 3 is deleted: the head bucket (31 slots) gets a hole, 9 slots live in
   an overflow bucket *)
Definition ex_ops : list op := map (fun i => OpPut (key_of i) (val_of i)) (seq 1 40) ++ [OpDelete (key_of 3)].
(* ... then a new key: it goes into the hole of the head bucket, i.e. BEFORE slots 32..40 in chain
   scan order, while the flat list appends it at the end *)
Definition ex_ops2 : list op := ex_ops ++ [OpPut (key_of 41) (val_of 41)].

Definition exp0 : stp := fst (db_open chain_ops exP 1 st0).
Definition exf0 : stf := flat_init 1.
Definition exp : stp := fold_left (fun s o => fst (step_chain exP s o)) ex_ops exp0.
Definition exf : stf := fold_left (fun s o => fst (step_flat exP s o)) ex_ops exf0.
Definition exp2 : stp := fold_left (fun s o => fst (step_chain exP s o)) ex_ops2 exp0.
Definition exf2 : stf := fold_left (fun s o => fst (step_flat exP s o)) ex_ops2 exf0.

Definition chain_shape (s : stp) : list (list nat) :=
  match s_mem s with Some m => map (map (@length slot)) (px_chains (m_idx m)) | None => [] end.
Definition chain_slots (s : stp) : list slot :=
  match s_mem s with Some m => all_slots (m_idx m) | None => [] end.
Definition flat_slots (s : stf) : list slot :=
  match s_mem s with Some m => m_idx m | None => [] end.

(* one chain: head bucket with a hole (30 of 31 slots), overflow bucket with 9 slots *)
Example ex_shape : chain_shape exp = [[30; 9]]%nat.
Proof. vm_compute. reflexivity. Qed.
Example ex_shape2 : chain_shape exp2 = [[31; 9]]%nat.
Proof. vm_compute. reflexivity. Qed.

Lemma exP_ok : params_ok exP.
Proof. vm_compute. reflexivity. Qed.

(* the hypotheses of the run theorems hold for these runs *)
Lemma ex_rel0 : st_rel exp0 exf0 /\ Inv exP exf0.
Proof.
  pose proof (init_rel exP 1) as H. rewrite flat_open_fresh in H. unfold exp0, exf0.
  destruct (db_open chain_ops exP 1 st0) as [sp o]. cbn [fst]. tauto.
Qed.

Example ex_rel : st_rel exp exf /\ Inv exP exf.
Proof.
  destruct ex_rel0 as [H0 I0].
  destruct (chain_run_states exP exp0 exf0 ex_ops exP_ok H0 I0) as (A & B & _).
  - apply ops_valid_b_ok. vm_compute. reflexivity.
  - apply rooms_b_ok. vm_compute. reflexivity.
  - split; assumption.
Qed.

Example ex_rel2 : st_rel exp2 exf2 /\ Inv exP exf2.
Proof.
  destruct ex_rel0 as [H0 I0].
  destruct (chain_run_states exP exp0 exf0 ex_ops2 exP_ok H0 I0) as (A & B & _).
  - apply ops_valid_b_ok. vm_compute. reflexivity.
  - apply rooms_b_ok. vm_compute. reflexivity.
  - split; assumption.
Qed.

(* the relation is not the identity: after the 41st Put the chain scan order and the flat list
   differ (they are permutations of each other by [ex_rel2]) *)
Example ex_same_order : chain_slots exp = flat_slots exf.
Proof. vm_compute. reflexivity. Qed.
Example ex_other_order : chain_slots exp2 <> flat_slots exf2 /\ length (chain_slots exp2) = 40%nat.
Proof. split; [vm_compute; discriminate|vm_compute; reflexivity]. Qed.

(* the two databases and the plain map answer alike *)
Definition ex_queries : list op :=
  [OpGet (key_of 3); OpGet (key_of 32); OpGet (key_of 41); OpHas (key_of 2); OpCount;
   OpPut (key_of 32) (val_of 5); OpGet (key_of 32); OpCount; OpDelete (key_of 99); OpSync].
Example ex_outputs :
  run (step_chain exP) exp2 ex_queries = run (step_flat exP) exf2 ex_queries /\
  run (step_chain exP) exp2 ex_queries =
    [OVal None; OVal (Some (val_of 32)); OVal (Some (val_of 41)); OBool true; ONum 40;
     OOk; OVal (Some (val_of 5)); ONum 40; OOk; OOk].
Proof. split; vm_compute; reflexivity. Qed.
End SimEx.

(* ================================================================================================ *)
(** * 8. Whole compactions (conditional on the side condition of [sim_compact_step_gen] along the
      FLAT run; [Inv] at every step implies it, see [cuniq_of_Inv]) *)

Inductive cuniq (P : params) : nat -> stf -> cursor -> Prop :=
| cuniq_O s c : cuniq P O s c
| cuniq_S f s c :
    (forall m, s_mem s = Some m -> points_uniq (m_idx m)) ->
    (forall s' c', compact_step flat_ops P s c = CMore s' c' -> cuniq P f s' c') ->
    cuniq P (S f) s c.

Theorem sim_compact_run P fuel : forall (sp : stp) (sf : stf) c,
  st_rel sp sf -> cuniq P fuel sf c ->
  so_rel idx_rel (compact_run chain_ops P fuel sp c) (compact_run flat_ops P fuel sf c).
Proof.
  induction fuel as [|f IH]; intros sp sf c Hs Hu; cbn [compact_run].
  - split; [reflexivity|exact Hs].
  - inversion Hu as [|? ? ? HU Hnext]; subst.
    pose proof (sim_compact_step_gen P sp sf c Hs HU) as Hstep.
    destruct (compact_step chain_ops P sp c) as [|sp' cp'|wp];
      destruct (compact_step flat_ops P sf c) as [|sf' cf'|wf] eqn:Ef; inversion Hstep; subst.
    + split; [reflexivity|exact Hs].
    + apply IH; [assumption|]. apply Hnext. reflexivity.
    + split; [reflexivity|exact Hs].
Qed.

Theorem sim_db_compact P (sp : stp) (sf : stf) :
  st_rel sp sf ->
  (forall s1 c, compact_pick flat_ops P sf = Some (s1, c) ->
     cuniq P (S (2 * length (c_todo c) + 2 * total_recs (s_disk s1) + 2)) s1 c) ->
  so_rel idx_rel (db_compact chain_ops P sp) (db_compact flat_ops P sf).
Proof.
  intros Hs Hu. unfold db_compact.
  pose proof (compact_pick_rel idx_rel chain_ops flat_ops idx_rel_empty P sp sf Hs) as Hp.
  destruct (compact_pick chain_ops P sp) as [[sp1 cp]|];
    destruct (compact_pick flat_ops P sf) as [[sf1 cf]|]; unfold pick_res_rel in Hp; try contradiction.
  - destruct Hp as [Hs1 ->]. rewrite (total_recs_rel _ _ _ (st_rel_disk _ _ _ Hs1)).
    apply sim_compact_run; [exact Hs1|]. apply Hu. reflexivity.
  - split; [reflexivity|exact Hs].
Qed.

(* the side condition from the invariant *)
Inductive cinv (P : params) : nat -> stf -> cursor -> Prop :=
| cinv_O s c : cinv P O s c
| cinv_S f s c :
    Inv P s -> (forall s' c', compact_step flat_ops P s c = CMore s' c' -> cinv P f s' c') ->
    cinv P (S f) s c.

Lemma cuniq_of_Inv P fuel : forall s c, cinv P fuel s c -> cuniq P fuel s c.
Proof.
  induction fuel as [|f IH]; intros s c H; [constructor|].
  inversion H as [|? ? ? HI Hn]; subst. constructor.
  - intros m Em. destruct (Inv_open P s m Em HI) as (_ & Hidx & _). exact (uniq_points P _ _ _ Hidx).
  - intros s' c' E. apply IH. exact (Hn s' c' E).
Qed.

(* ================================================================================================ *)
Print Assumptions apply_ev_rel.
Print Assumptions write_record_rel.
Print Assumptions get_rel.
Print Assumptions put_rel.
Print Assumptions del_rel.
Print Assumptions repoint_rel.
Print Assumptions sim_put.
Print Assumptions sim_delete.
Print Assumptions sim_get.
Print Assumptions sim_get_append.
Print Assumptions sim_has.
Print Assumptions sim_count.
Print Assumptions sim_items.
Print Assumptions sim_items_open.
Print Assumptions sim_sync.
Print Assumptions sim_compact_pick.
Print Assumptions sim_compact_step_gen.
Print Assumptions sim_compact_step.
Print Assumptions sim_compact_run.
Print Assumptions sim_db_compact.
Print Assumptions chain_put_ok.
Print Assumptions chain_delete_ok.
Print Assumptions chain_get_ok.
Print Assumptions chain_get_append_ok.
Print Assumptions chain_has_ok.
Print Assumptions chain_count_ok.
Print Assumptions chain_items_ok.
Print Assumptions chain_sync_ok.
Print Assumptions step_refines.
Print Assumptions C01_chain_refines_map.
Print Assumptions chain_run_states.
Print Assumptions init_rel.
Print Assumptions C01_chain_from_empty.
Print Assumptions SimEx.ex_shape.
Print Assumptions SimEx.ex_rel.
Print Assumptions SimEx.ex_rel2.
Print Assumptions SimEx.ex_other_order.
Print Assumptions SimEx.ex_outputs.
