(* DBSim.v -- the database running on the linear-hashing bucket chains (Index.v, [chain_ops]) behaves
   exactly like the database running on the flat reference index (Flat.v, [flat_ops]), for an
   arbitrary hash function, split policy and thresholds.  (Header with the list of results: see the
   end of the file.) *)
From Coq Require Import ZArith Lia ZifyN ZifyNat ZifyBool Permutation.
From Pogreb Require Import Base BaseLemmas Crc Bytes Record RecordProofs Flat Index Spec DB DBInv
  DBLemmas DBProofsOps.
Ltac Zify.zify_post_hook ::= Z.div_mod_to_equations.

(* ================================================================================================ *)
(** * 1. Relations, for two arbitrary index types related by [R] *)

Inductive opt_rel {A B} (R : A -> B -> Prop) : option A -> option B -> Prop :=
| opt_rel_none : opt_rel R None None
| opt_rel_some a b : R a b -> opt_rel R (Some a) (Some b).

Inductive gob_rel {A B} (R : A -> B -> Prop) : gob A -> gob B -> Prop :=
| gob_rel_absent : gob_rel R GAbsent GAbsent
| gob_rel_partial : gob_rel R GPartial GPartial
| gob_rel_ok a b : R a b -> gob_rel R (GOk a) (GOk b).

(* writeRecord = choose the segment (seal, swap) ; append -- for any index (cf. DBLemmas.wr_prelude) *)
Definition gprelude {I} (ops : idx_ops I) (P : params) (r : rec) (s : @DB.st I) (m : @DB.mem I) :
    @DB.st I * @DB.mem I :=
  let need_swap := match cur_seg m with
                   | None => true
                   | Some g => sm_full (g_meta g) || (p_maxseg P <? g_size g + rsize r)
                   end in
  if need_swap
  then let '(s0, m0) := match cur_seg m with
                        | Some g => seal ops (g_id g) s m
                        | None => (s, m)
                        end in
       swap_segment ops s0 m0
  else (s, m).

Definition gtail {I} (ops : idx_ops I) (r : rec) (s1 : @DB.st I) (m1 : @DB.mem I) :
    option (@DB.st I * @DB.mem I * N * N) :=
  match cur_seg m1 with
  | None => None
  | Some g =>
    match find_dseg (g_id g) (s_disk s1) with
    | None => None
    | Some f =>
      if negb ((f_seq f =? g_seq g) && (flen f =? g_size g)) then None
      else
        let off := g_size g in
        let s2 := emit ops (EAppend (g_id g) (g_seq g) off r) s1 in
        let m2 := set_msegs m1 (upd_mseg (g_id g)
                    (fun g => set_gmeta (set_gsize g (off + rsize r)) (count_rec r (g_meta g)))
                    (m_segs m1)) in
        Some (s2, m2, g_id g, u32 off)
    end
  end.

Lemma write_record_g {I} (ops : idx_ops I) P r s m :
  write_record ops P r s m = let '(s1, m1) := gprelude ops P r s m in gtail ops r s1 m1.
Proof. reflexivity. Qed.

Section Rel.
Context {I1 I2 : Type}.
Variable R : I1 -> I2 -> Prop.

Notation disk1 := (@DB.disk I1). Notation disk2 := (@DB.disk I2).
Notation mem1 := (@DB.mem I1).   Notation mem2 := (@DB.mem I2).
Notation st1 := (@DB.st I1).     Notation st2 := (@DB.st I2).
Notation fsev1 := (@DB.fsev I1). Notation fsev2 := (@DB.fsev I2).

(* equal in every component; the index values are related *)
Inductive gdisk_rel : disk1 -> disk2 -> Prop :=
| DiskRel segs orph i1 i2 ov g1 g2 dbm lk bac :
    opt_rel R i1 i2 -> gob_rel R g1 g2 ->
    gdisk_rel {| d_segs := segs; d_orphans := orph; d_index := i1; d_overflow := ov; d_imeta := g1;
                d_dbmeta := dbm; d_lock := lk; d_bac := bac |}
             {| d_segs := segs; d_orphans := orph; d_index := i2; d_overflow := ov; d_imeta := g2;
                d_dbmeta := dbm; d_lock := lk; d_bac := bac |}.

Inductive gev_rel : fsev1 -> fsev2 -> Prop :=
| er_create f : gev_rel (ECreate f) (ECreate f)
| er_header f : gev_rel (EHeader f) (EHeader f)
| er_append id seq off r : gev_rel (EAppend id seq off r) (EAppend id seq off r)
| er_index i1 i2 : R i1 i2 -> gev_rel (EIndex i1) (EIndex i2)
| er_gobseg id seq m : gev_rel (EGobSeg id seq m) (EGobSeg id seq m)
| er_gobindex i1 i2 : R i1 i2 -> gev_rel (EGobIndex i1) (EGobIndex i2)
| er_gobdb sd : gev_rel (EGobDb sd) (EGobDb sd)
| er_trunc f n : gev_rel (ETrunc f n) (ETrunc f n)
| er_rename f g : gev_rel (ERename f g) (ERename f g)
| er_remove f : gev_rel (ERemove f) (ERemove f)
| er_sync f : gev_rel (ESync f) (ESync f).

Inductive gmem_rel : mem1 -> mem2 -> Prop :=
| MemRel segs cur rem mx i1 i2 seed : R i1 i2 ->
    gmem_rel {| m_segs := segs; m_cur := cur; m_cur_removed := rem; m_maxseq := mx; m_idx := i1;
               m_seed := seed |}
            {| m_segs := segs; m_cur := cur; m_cur_removed := rem; m_maxseq := mx; m_idx := i2;
               m_seed := seed |}.

Inductive gst_rel : st1 -> st2 -> Prop :=
| StRel m1 m2 d1 d2 t1 t2 :
    opt_rel gmem_rel m1 m2 -> gdisk_rel d1 d2 -> Forall2 gev_rel t1 t2 ->
    gst_rel {| s_mem := m1; s_disk := d1; s_trace := t1 |} {| s_mem := m2; s_disk := d2; s_trace := t2 |}.

(* ---- the relations, component by component (for users who build related states by hand) ---- *)
Lemma disk_rel_iff (d1 : disk1) (d2 : disk2) :
  gdisk_rel d1 d2 <->
  d_segs d1 = d_segs d2 /\ d_orphans d1 = d_orphans d2 /\ opt_rel R (d_index d1) (d_index d2) /\
  d_overflow d1 = d_overflow d2 /\ gob_rel R (d_imeta d1) (d_imeta d2) /\
  d_dbmeta d1 = d_dbmeta d2 /\ d_lock d1 = d_lock d2 /\ d_bac d1 = d_bac d2.
Proof.
  split.
  - intros H. destruct H. cbn [d_segs d_orphans d_index d_overflow d_imeta d_dbmeta d_lock d_bac].
    repeat split; assumption.
  - destruct d1 as [a1 b1 c1 e1 f1 g1 h1 j1], d2 as [a2 b2 c2 e2 f2 g2 h2 j2]. cbn [d_segs d_orphans d_index d_overflow d_imeta d_dbmeta d_lock d_bac].
    intros (-> & -> & Hi & -> & Hg & -> & -> & ->). constructor; assumption.
Qed.

Lemma mem_rel_iff (m1 : mem1) (m2 : mem2) :
  gmem_rel m1 m2 <->
  m_segs m1 = m_segs m2 /\ m_cur m1 = m_cur m2 /\ m_cur_removed m1 = m_cur_removed m2 /\
  m_maxseq m1 = m_maxseq m2 /\ R (m_idx m1) (m_idx m2) /\ m_seed m1 = m_seed m2.
Proof.
  split.
  - intros H. destruct H. cbn [m_segs m_cur m_cur_removed m_maxseq m_idx m_seed]. repeat split; assumption.
  - destruct m1 as [a1 b1 c1 e1 f1 g1], m2 as [a2 b2 c2 e2 f2 g2]. cbn [m_segs m_cur m_cur_removed m_maxseq m_idx m_seed].
    intros (-> & -> & -> & -> & Hi & ->). constructor; assumption.
Qed.

Lemma st_rel_iff (s1 : st1) (s2 : st2) :
  gst_rel s1 s2 <->
  opt_rel gmem_rel (s_mem s1) (s_mem s2) /\ gdisk_rel (s_disk s1) (s_disk s2) /\
  Forall2 gev_rel (s_trace s1) (s_trace s2).
Proof.
  split.
  - intros H. destruct H. cbn [s_mem s_disk s_trace]. repeat split; assumption.
  - destruct s1 as [a1 b1 c1], s2 as [a2 b2 c2]. cbn [s_mem s_disk s_trace]. intros (A & B & C). constructor; assumption.
Qed.

Lemma st_rel_disk s1 s2 : gst_rel s1 s2 -> gdisk_rel (s_disk s1) (s_disk s2).
Proof. intros H. apply st_rel_iff in H. tauto. Qed.
Lemma st_rel_trace s1 s2 : gst_rel s1 s2 -> Forall2 gev_rel (s_trace s1) (s_trace s2).
Proof. intros H. apply st_rel_iff in H. tauto. Qed.

Lemma st_rel_mem_cases s1 s2 : gst_rel s1 s2 ->
  (s_mem s1 = None /\ s_mem s2 = None) \/
  (exists m1 m2, s_mem s1 = Some m1 /\ s_mem s2 = Some m2 /\ gmem_rel m1 m2).
Proof.
  intros H. destruct H as [m1 m2 d1 d2 t1 t2 Hm _ _]. cbn [s_mem].
  destruct Hm as [|a b Hab]; [left; split; reflexivity|right; exists a, b; auto].
Qed.

Lemma mem_rel_segs m1 m2 : gmem_rel m1 m2 -> m_segs m1 = m_segs m2.
Proof. intros H. destruct H. reflexivity. Qed.
Lemma mem_rel_cur m1 m2 : gmem_rel m1 m2 -> m_cur m1 = m_cur m2.
Proof. intros H. destruct H. reflexivity. Qed.
Lemma mem_rel_maxseq m1 m2 : gmem_rel m1 m2 -> m_maxseq m1 = m_maxseq m2.
Proof. intros H. destruct H. reflexivity. Qed.
Lemma mem_rel_seed m1 m2 : gmem_rel m1 m2 -> m_seed m1 = m_seed m2.
Proof. intros H. destruct H. reflexivity. Qed.
Lemma mem_rel_idx m1 m2 : gmem_rel m1 m2 -> R (m_idx m1) (m_idx m2).
Proof. intros H. destruct H. assumption. Qed.
Lemma mem_rel_cur_seg m1 m2 : gmem_rel m1 m2 -> cur_seg m1 = cur_seg m2.
Proof. intros H. destruct H. reflexivity. Qed.

(* ---- functions of the disk that never look inside the index value ---- *)
Lemma find_dseg_rel d1 d2 id : gdisk_rel d1 d2 -> find_dseg id d1 = find_dseg id d2.
Proof. intros H. destruct H. reflexivity. Qed.
Lemma d_segs_rel d1 d2 : gdisk_rel d1 d2 -> d_segs d1 = d_segs d2.
Proof. intros H. destruct H. reflexivity. Qed.
Lemma read_kv_rel d1 d2 sl : gdisk_rel d1 d2 -> read_kv d1 sl = read_kv d2 sl.
Proof. intros H. destruct H. reflexivity. Qed.
(* equality of FUNCTIONS (no extensionality needed): the callback handed to the index is the same *)
Lemma matchf_rel d1 d2 k : gdisk_rel d1 d2 -> matchf d1 k = matchf d2 k.
Proof. intros H. destruct H. reflexivity. Qed.
Lemma read_slots_rel d1 d2 l : gdisk_rel d1 d2 -> read_slots d1 l = read_slots d2 l.
Proof.
  intros H. induction l as [|sl l IH]; [reflexivity|].
  cbn [read_slots]. rewrite IH, (read_kv_rel _ _ sl H). reflexivity.
Qed.
Lemma seg_names_rel d1 d2 : gdisk_rel d1 d2 -> seg_names d1 = seg_names d2.
Proof. intros H. destruct H. reflexivity. Qed.
Lemma dir_rel d1 d2 : gdisk_rel d1 d2 -> dir d1 = dir d2.
Proof.
  intros H. destruct H as [segs orph i1 i2 ov g1 g2 dbm lk bac Hi Hg].
  unfold dir, seg_names. cbn [d_segs d_orphans d_index d_overflow d_imeta d_dbmeta d_lock d_bac].
  destruct Hi; destruct Hg; reflexivity.
Qed.
Lemma exists_file_rel d1 d2 f : gdisk_rel d1 d2 -> exists_file d1 f = exists_file d2 f.
Proof. intros H. unfold exists_file. rewrite (dir_rel _ _ H). reflexivity. Qed.
Lemma total_recs_rel d1 d2 : gdisk_rel d1 d2 -> total_recs d1 = total_recs d2.
Proof. intros H. destruct H. reflexivity. Qed.

(* ---- updates of the in-memory state ---- *)
Lemma set_msegs_rel m1 m2 l : gmem_rel m1 m2 -> gmem_rel (set_msegs m1 l) (set_msegs m2 l).
Proof. intros H. destruct H. constructor. assumption. Qed.
Lemma set_cur_rel m1 m2 c b : gmem_rel m1 m2 -> gmem_rel (set_cur m1 c b) (set_cur m2 c b).
Proof. intros H. destruct H. constructor. assumption. Qed.
Lemma set_maxseq_rel m1 m2 n : gmem_rel m1 m2 -> gmem_rel (set_maxseq m1 n) (set_maxseq m2 n).
Proof. intros H. destruct H. constructor. assumption. Qed.
Lemma set_idx_rel m1 m2 i1 i2 : gmem_rel m1 m2 -> R i1 i2 -> gmem_rel (set_idx m1 i1) (set_idx m2 i2).
Proof. intros H Hi. destruct H. constructor. assumption. Qed.
Lemma track_del_rel m1 m2 sl : gmem_rel m1 m2 -> gmem_rel (track_del sl m1) (track_del sl m2).
Proof. intros H. destruct H. constructor. assumption. Qed.
Lemma add_delbytes_rel m1 m2 id n : gmem_rel m1 m2 -> gmem_rel (add_delbytes id n m1) (add_delbytes id n m2).
Proof. intros H. destruct H. constructor. assumption. Qed.
Lemma pick_rel P m1 m2 : gmem_rel m1 m2 -> pick P m1 = pick P m2.
Proof. intros H. destruct H. reflexivity. Qed.

(* ---- the state ---- *)
Lemma with_mem_rel s1 s2 m1 m2 : gst_rel s1 s2 -> gmem_rel m1 m2 -> gst_rel (with_mem m1 s1) (with_mem m2 s2).
Proof. intros H Hm. destruct H. constructor; [constructor|..]; assumption. Qed.
Lemma clear_trace_rel s1 s2 : gst_rel s1 s2 -> gst_rel (clear_trace s1) (clear_trace s2).
Proof. intros H. destruct H. constructor; [assumption|assumption|constructor]. Qed.

(* ---- events: need the two index implementations ---- *)
Variable ops1 : idx_ops I1.
Variable ops2 : idx_ops I2.
Hypothesis R_empty : R (ix_empty ops1) (ix_empty ops2).

Ltac dsimp :=
  cbv beta iota delta [apply_ev file_removed set_segs set_orphans set_index set_overflow set_imeta
    set_dbmeta set_lock set_bac upd_seg d_segs d_orphans d_index d_overflow d_imeta d_dbmeta d_lock d_bac].

Lemma file_removed_rel d1 d2 f : gdisk_rel d1 d2 -> gdisk_rel (file_removed f d1) (file_removed f d2).
Proof.
  intros H. destruct H as [segs orph i1 i2 ov g1 g2 dbm lk bac Hi Hg].
  destruct f; dsimp; constructor; try assumption; constructor.
Qed.

Lemma set_bac_rel d1 d2 l : gdisk_rel d1 d2 -> gdisk_rel (set_bac d1 l) (set_bac d2 l).
Proof. intros H. destruct H. dsimp. constructor; assumption. Qed.
Lemma d_bac_rel d1 d2 : gdisk_rel d1 d2 -> d_bac d1 = d_bac d2.
Proof. intros H. destruct H. reflexivity. Qed.

Theorem apply_ev_rel d1 d2 e1 e2 : gdisk_rel d1 d2 -> gev_rel e1 e2 ->
  gdisk_rel (apply_ev ops1 d1 e1) (apply_ev ops2 d2 e2).
Proof.
  intros Hd He. destruct He as [f|f|id seq off r|i1 i2 Hi|id seq m|i1 i2 Hi|sd|f n|f g|f|f].
  - destruct Hd as [segs orph j1 j2 ov g1 g2 dbm lk bac Hj Hg].
    destruct f; dsimp; constructor; try assumption; constructor. exact R_empty.
  - destruct Hd as [segs orph j1 j2 ov g1 g2 dbm lk bac Hj Hg].
    destruct f; dsimp; constructor; assumption.
  - destruct Hd. dsimp. constructor; assumption.
  - destruct Hd. dsimp. constructor; [constructor|]; assumption.
  - destruct Hd. dsimp. constructor; assumption.
  - destruct Hd. dsimp. constructor; [|constructor]; assumption.
  - destruct Hd. dsimp. constructor; assumption.
  - destruct Hd as [segs orph j1 j2 ov g1 g2 dbm lk bac Hj Hg].
    destruct f; dsimp; constructor; try assumption; constructor.
  - cbv beta iota delta [apply_ev].
    rewrite (d_bac_rel _ _ (file_removed_rel d1 d2 f Hd)).
    apply set_bac_rel. apply file_removed_rel. exact Hd.
  - cbv beta iota delta [apply_ev]. apply file_removed_rel. exact Hd.
  - cbv beta iota delta [apply_ev]. exact Hd.
Qed.

Lemma emit_rel s1 s2 e1 e2 : gst_rel s1 s2 -> gev_rel e1 e2 -> gst_rel (emit ops1 e1 s1) (emit ops2 e2 s2).
Proof.
  intros Hs He. destruct Hs as [m1 m2 d1 d2 t1 t2 Hm Hd Ht]. unfold emit. cbn [s_mem s_disk s_trace].
  constructor; [exact Hm|apply apply_ev_rel; assumption|].
  apply Forall2_app; [exact Ht|]. constructor; [exact He|constructor].
Qed.

Lemma emits_rel es1 es2 : Forall2 gev_rel es1 es2 -> forall s1 s2, gst_rel s1 s2 ->
  gst_rel (emits ops1 es1 s1) (emits ops2 es2 s2).
Proof.
  unfold emits. induction 1 as [|e1 e2 es1 es2 He Hes IH]; intros s1 s2 Hs; cbn [fold_left]; [exact Hs|].
  apply IH. apply emit_rel; assumption.
Qed.

(* results of helpers that return a state and a memory *)
Definition sm_rel (a : st1 * mem1) (b : st2 * mem2) : Prop := gst_rel (fst a) (fst b) /\ gmem_rel (snd a) (snd b).

Lemma seal_rel id s1 s2 m1 m2 : gst_rel s1 s2 -> gmem_rel m1 m2 ->
  sm_rel (seal ops1 id s1 m1) (seal ops2 id s2 m2).
Proof.
  intros Hs Hm. unfold seal. rewrite (mem_rel_segs _ _ Hm).
  destruct (find_mseg id (m_segs m2)) as [g|]; [|split; assumption].
  destruct (sm_full (g_meta g)); [split; assumption|].
  split; cbn [fst snd]; [apply emit_rel; [exact Hs|constructor]|apply set_msegs_rel; exact Hm].
Qed.

Lemma swap_segment_rel s1 s2 m1 m2 : gst_rel s1 s2 -> gmem_rel m1 m2 ->
  sm_rel (swap_segment ops1 s1 m1) (swap_segment ops2 s2 m2).
Proof.
  intros Hs Hm. unfold swap_segment. rewrite (mem_rel_segs _ _ Hm).
  destruct (find (fun g => negb (sm_full (g_meta g))) (m_segs m2)) as [g|].
  - split; cbn [fst snd]; [exact Hs|apply set_cur_rel; exact Hm].
  - cbv zeta. rewrite (mem_rel_maxseq _ _ Hm). split; cbn [fst snd].
    + apply emits_rel; [|exact Hs]. constructor; [constructor|]. constructor; [constructor|constructor].
    + apply set_cur_rel, set_maxseq_rel, set_msegs_rel. exact Hm.
Qed.

Lemma gprelude_rel P r s1 s2 m1 m2 : gst_rel s1 s2 -> gmem_rel m1 m2 ->
  sm_rel (gprelude ops1 P r s1 m1) (gprelude ops2 P r s2 m2).
Proof.
  intros Hs Hm. unfold gprelude. rewrite (mem_rel_cur_seg _ _ Hm).
  destruct (cur_seg m2) as [g|].
  - destruct (sm_full (g_meta g) || (p_maxseg P <? g_size g + rsize r)); [|split; assumption].
    pose proof (seal_rel (g_id g) s1 s2 m1 m2 Hs Hm) as Hseal.
    destruct (seal ops1 (g_id g) s1 m1) as [s01 m01]. destruct (seal ops2 (g_id g) s2 m2) as [s02 m02].
    destruct Hseal as [A B]. cbn [fst snd] in A, B. apply swap_segment_rel; assumption.
  - apply swap_segment_rel; assumption.
Qed.

(* results of writeRecord *)
Definition wr_rel (a : option (st1 * mem1 * N * N)) (b : option (st2 * mem2 * N * N)) : Prop :=
  match a, b with
  | None, None => True
  | Some (s1, m1, id1, off1), Some (s2, m2, id2, off2) =>
      gst_rel s1 s2 /\ gmem_rel m1 m2 /\ id1 = id2 /\ off1 = off2
  | _, _ => False
  end.

Lemma gtail_rel r s1 s2 m1 m2 : gst_rel s1 s2 -> gmem_rel m1 m2 ->
  wr_rel (gtail ops1 r s1 m1) (gtail ops2 r s2 m2).
Proof.
  intros Hs Hm. unfold gtail. rewrite (mem_rel_cur_seg _ _ Hm).
  destruct (cur_seg m2) as [g|]; [|exact I].
  rewrite (find_dseg_rel _ _ (g_id g) (st_rel_disk _ _ Hs)).
  destruct (find_dseg (g_id g) (s_disk s2)) as [f|]; [|exact I].
  destruct (negb ((f_seq f =? g_seq g) && (flen f =? g_size g))); [exact I|].
  cbv zeta. unfold wr_rel. split; [apply emit_rel; [exact Hs|constructor]|].
  split; [|split; reflexivity]. rewrite (mem_rel_segs _ _ Hm). apply set_msegs_rel. exact Hm.
Qed.

Theorem write_record_rel P r s1 s2 m1 m2 : gst_rel s1 s2 -> gmem_rel m1 m2 ->
  wr_rel (write_record ops1 P r s1 m1) (write_record ops2 P r s2 m2).
Proof.
  intros Hs Hm. rewrite !write_record_g.
  pose proof (gprelude_rel P r s1 s2 m1 m2 Hs Hm) as Hp.
  destruct (gprelude ops1 P r s1 m1) as [s1' m1']. destruct (gprelude ops2 P r s2 m2) as [s2' m2'].
  destruct Hp as [A B]. cbn [fst snd] in A, B. apply gtail_rel; assumption.
Qed.

Lemma do_sync_rel s1 s2 m1 m2 : gst_rel s1 s2 -> gmem_rel m1 m2 ->
  gst_rel (do_sync ops1 s1 m1) (do_sync ops2 s2 m2).
Proof.
  intros Hs Hm. unfold do_sync. rewrite (mem_rel_cur_seg _ _ Hm).
  destruct (cur_seg m2) as [g|]; [apply emit_rel; [exact Hs|constructor]|exact Hs].
Qed.

(* results of operations: a state and an output *)
Definition so_rel (a : st1 * out) (b : st2 * out) : Prop := snd a = snd b /\ gst_rel (fst a) (fst b).

Lemma finish_rel P s1 s2 m1 m2 : gst_rel s1 s2 -> gmem_rel m1 m2 ->
  so_rel (finish ops1 P s1 m1) (finish ops2 P s2 m2).
Proof.
  intros Hs Hm. unfold finish. split; cbn [fst snd]; [reflexivity|].
  apply with_mem_rel; [|exact Hm]. destruct (p_sync P); [apply do_sync_rel; assumption|exact Hs].
Qed.

Lemma remove_segment_rel id seq s1 s2 m1 m2 : gst_rel s1 s2 -> gmem_rel m1 m2 ->
  gst_rel (remove_segment ops1 id seq s1 m1) (remove_segment ops2 id seq s2 m2).
Proof.
  intros Hs Hm. unfold remove_segment. cbv zeta.
  pose proof (do_sync_rel s1 s2 m1 m2 Hs Hm) as Hsync.
  rewrite (exists_file_rel _ _ (FSegMeta id seq) (st_rel_disk _ _ Hsync)).
  rewrite (mem_rel_cur _ _ Hm), (mem_rel_segs _ _ Hm).
  apply with_mem_rel.
  - apply emit_rel; [|constructor].
    destruct (exists_file (s_disk (do_sync ops2 s2 m2)) (FSegMeta id seq));
      [apply emit_rel; [exact Hsync|constructor]|exact Hsync].
  - destruct ((fst (m_cur m2) =? id) && (snd (m_cur m2) =? seq)).
    + apply set_cur_rel, set_msegs_rel. exact Hm.
    + apply set_msegs_rel. exact Hm.
Qed.

Lemma fold_seal_rel (l : list mseg) : forall a b, sm_rel a b ->
  sm_rel (fold_left (fun sm g => seal ops1 (g_id g) (fst sm) (snd sm)) l a)
         (fold_left (fun sm g => seal ops2 (g_id g) (fst sm) (snd sm)) l b).
Proof.
  induction l as [|g l IH]; intros a b Hab; cbn [fold_left]; [exact Hab|].
  apply IH. destruct Hab as [A B]. apply seal_rel; assumption.
Qed.

(* ---- operations that never touch the index ---- *)
Theorem sync_rel s1 s2 : gst_rel s1 s2 -> so_rel (db_sync ops1 s1) (db_sync ops2 s2).
Proof.
  intros Hs. unfold db_sync.
  destruct (st_rel_mem_cases _ _ Hs) as [[E1 E2]|(m1 & m2 & E1 & E2 & Hm)]; rewrite E1, E2.
  - split; [reflexivity|exact Hs].
  - split; cbn [fst snd]; [reflexivity|apply do_sync_rel; assumption].
Qed.

Definition pick_res_rel (a : option (st1 * cursor)) (b : option (st2 * cursor)) : Prop :=
  match a, b with
  | None, None => True
  | Some (s1, c1), Some (s2, c2) => gst_rel s1 s2 /\ c1 = c2
  | _, _ => False
  end.

Theorem compact_pick_rel P s1 s2 : gst_rel s1 s2 ->
  pick_res_rel (compact_pick ops1 P s1) (compact_pick ops2 P s2).
Proof.
  intros Hs. unfold compact_pick.
  destruct (st_rel_mem_cases _ _ Hs) as [[E1 E2]|(m1 & m2 & E1 & E2 & Hm)]; rewrite E1, E2; [exact I|].
  cbv zeta. rewrite (pick_rel P _ _ Hm).
  pose proof (fold_seal_rel (pick P m2) (s1, m1) (s2, m2) (conj Hs Hm)) as Hf.
  destruct (fold_left (fun sm g => seal ops1 (g_id g) (fst sm) (snd sm)) (pick P m2) (s1, m1)) as [s1' m1'].
  destruct (fold_left (fun sm g => seal ops2 (g_id g) (fst sm) (snd sm)) (pick P m2) (s2, m2)) as [s2' m2'].
  destruct Hf as [A B]. cbn [fst snd] in A, B. unfold pick_res_rel.
  split; [apply with_mem_rel; assumption|reflexivity].
Qed.

End Rel.

Arguments gdisk_rel {I1 I2} R. Arguments gev_rel {I1 I2} R. Arguments gmem_rel {I1 I2} R.
Arguments gst_rel {I1 I2} R. Arguments sm_rel {I1 I2} R. Arguments so_rel {I1 I2} R.
Arguments wr_rel {I1 I2} R. Arguments pick_res_rel {I1 I2} R.

(* ================================================================================================ *)
(** * 2. The chain index against the flat index *)

Definition idx_rel (p : pindex) (l : flat) : Prop :=
  PInv p /\ Permutation (all_slots p) l /\ px_nkeys p = nlen l.

Lemma idx_rel_intro p l : PInv p -> Permutation (all_slots p) l -> idx_rel p l.
Proof.
  intros HI HP. split; [exact HI|]. split; [exact HP|].
  destruct HI as (_ & _ & _ & _ & Hk). rewrite Hk. apply nlen_perm. exact HP.
Qed.

Lemma idx_rel_empty : idx_rel (ix_empty chain_ops) (ix_empty flat_ops).
Proof. apply idx_rel_intro; [exact PInv_empty|]. cbn. constructor. Qed.

(* at most one slot of the list is accepted by the callback *)
Definition uniq (f : slot -> bool) (l : list slot) : Prop :=
  forall a b, In a l -> In b l -> f a = true -> f b = true -> a = b.

Lemma find_none_intro {A} (f : A -> bool) l : (forall x, In x l -> f x = false) -> find f l = None.
Proof.
  induction l as [|x l IH]; intros H; [reflexivity|]. cbn [find].
  rewrite (H x (or_introl eq_refl)). apply IH. intros y Hy. apply H. right. exact Hy.
Qed.

(* ---- the flat operations: first hit in list order ---- *)
Lemma fl_replace_split f new l l' o : fl_replace f new l = Some (l', o) ->
  exists a b, l = a ++ o :: b /\ l' = a ++ new :: b /\ f o = true.
Proof.
  revert l'. induction l as [|s l IH]; intros l' H; cbn [fl_replace] in H; [discriminate|].
  destruct (f s) eqn:Es.
  - injection H as <- <-. exists [], l. auto.
  - destruct (fl_replace f new l) as [[l0 o0]|]; [|discriminate]. injection H as <- <-.
    destruct (IH _ eq_refl) as (a & b & -> & -> & Ho). exists (s :: a), b. auto.
Qed.

Lemma fl_replace_none_intro f new l : (forall x, In x l -> f x = false) -> fl_replace f new l = None.
Proof.
  induction l as [|s l IH]; intros H; [reflexivity|]. cbn [fl_replace].
  rewrite (H s (or_introl eq_refl)), IH; [reflexivity|]. intros y Hy. apply H. right. exact Hy.
Qed.

Lemma fl_remove_split f l l' o : fl_remove f l = Some (l', o) ->
  exists a b, l = a ++ o :: b /\ l' = a ++ b /\ f o = true.
Proof.
  revert l'. induction l as [|s l IH]; intros l' H; cbn [fl_remove] in H; [discriminate|].
  destruct (f s) eqn:Es.
  - injection H as <- <-. exists [], l. auto.
  - destruct (fl_remove f l) as [[l0 o0]|]; [|discriminate]. injection H as <- <-.
    destruct (IH _ eq_refl) as (a & b & -> & -> & Ho). exists (s :: a), b. auto.
Qed.

Lemma fl_remove_none_intro f l : (forall x, In x l -> f x = false) -> fl_remove f l = None.
Proof.
  induction l as [|s l IH]; intros H; [reflexivity|]. cbn [fl_remove].
  rewrite (H s (or_introl eq_refl)), IH; [reflexivity|]. intros y Hy. apply H. right. exact Hy.
Qed.

Lemma fl_repoint_split l h seg off nseg noff l' : fl_repoint l h seg off nseg noff = Some l' ->
  exists a o b, l = a ++ o :: b /\ l' = a ++ repointed o nseg noff :: b /\ fl_points h seg off o = true.
Proof.
  revert l'. induction l as [|s l IH]; intros l' H; cbn [fl_repoint] in H; [discriminate|].
  destruct (fl_points h seg off s) eqn:Es.
  - injection H as <-. exists [], s, l. auto.
  - destruct (fl_repoint l h seg off nseg noff) as [l0|]; [|discriminate]. injection H as <-.
    destruct (IH _ eq_refl) as (a & o & b & -> & -> & Ho). exists (s :: a), o, b. auto.
Qed.

Lemma fl_repoint_none l h seg off nseg noff : fl_repoint l h seg off nseg noff = None ->
  forall x, In x l -> fl_points h seg off x = false.
Proof.
  induction l as [|s l IH]; intros H x Hx; [destruct Hx|]. cbn [fl_repoint] in H.
  destruct (fl_points h seg off s) eqn:Es; [discriminate|].
  destruct (fl_repoint l h seg off nseg noff) as [l0|]; [discriminate|].
  destruct Hx as [<-|Hx]; [exact Es|exact (IH eq_refl x Hx)].
Qed.

Lemma fl_repoint_none_intro l h seg off nseg noff :
  (forall x, In x l -> fl_points h seg off x = false) -> fl_repoint l h seg off nseg noff = None.
Proof.
  induction l as [|s l IH]; intros H; [reflexivity|]. cbn [fl_repoint].
  rewrite (H s (or_introl eq_refl)), IH; [reflexivity|]. intros y Hy. apply H. right. exact Hy.
Qed.

Lemma fl_hit_true h m s : fl_hit h m s = true <-> sl_h s = h /\ m s = true.
Proof. exact (hit_true h m s). Qed.
Lemma fl_points_true h seg off s : fl_points h seg off s = true <-> sl_h s = h /\ sl_seg s = seg /\ sl_off s = off.
Proof. exact (rp_hit_true h seg off s). Qed.

Lemma not_true_false b : b <> true -> b = false.
Proof. destruct b; congruence. Qed.

(* ---- get ---- *)
Theorem get_rel p l h m : idx_rel p l -> uniq (fl_hit h m) l -> px_get p h m = fl_get l h m.
Proof.
  intros (HI & HP & _) U. unfold fl_get. destruct (px_get p h m) as [s|] eqn:E.
  - destruct (px_get_some _ _ _ _ HI E) as (Hin & Hh & Hm).
    assert (Hl : In s l) by (eapply Permutation_in; eassumption).
    assert (Hs : fl_hit h m s = true) by (apply fl_hit_true; auto).
    destruct (find (fl_hit h m) l) as [s'|] eqn:F.
    + apply find_some in F. destruct F as [F1 F2]. f_equal. apply U; assumption.
    + pose proof (find_none _ _ F s Hl). congruence.
  - symmetry. apply find_none_intro. intros x Hx. apply not_true_false. intros Hc.
    apply fl_hit_true in Hc. destruct Hc as [Hh Hm].
    assert (Hp : In x (all_slots p)) by (eapply Permutation_in; [symmetry|]; eassumption).
    pose proof (px_get_none _ _ _ HI E x Hp Hh). congruence.
Qed.

(* ---- put ---- *)
Theorem put_rel grow p l sl m p' op l' of :
  idx_rel p l -> uniq (fl_hit (sl_h sl) m) l ->
  px_put grow p sl m = (p', op) -> fl_put grow l sl m = (l', of) ->
  op = of /\ idx_rel p' l'.
Proof.
  intros (HI & HP & _) U Ep Ef. destruct (px_put_spec _ _ _ _ _ _ HI Ep) as [HI' Hs].
  unfold fl_put in Ef. destruct op as [o|].
  - destruct Hs as (Hin & Hh & Hm & l1 & l2 & P1 & P2).
    assert (Hl : In o l) by (eapply Permutation_in; eassumption).
    assert (Ho : fl_hit (sl_h sl) m o = true) by (apply fl_hit_true; auto).
    destruct (fl_replace (fl_hit (sl_h sl) m) sl l) as [[l0 o0]|] eqn:F.
    + injection Ef as <- <-. destruct (fl_replace_split _ _ _ _ _ F) as (a & b & -> & -> & Ho0).
      assert (o0 = o) by (apply U; [apply in_elt|exact Hl|exact Ho0|exact Ho]). subst o0.
      split; [reflexivity|]. apply idx_rel_intro; [exact HI'|].
      rewrite P2. apply Permutation_elt. apply (Permutation_app_inv l1 l2 a b o).
      rewrite <- P1. exact HP.
    + exfalso. clear Ef. revert F. generalize l Hl.
      intros l0 Hl0 F. induction l0 as [|x l0 IH]; [destruct Hl0|]. cbn [fl_replace] in F.
      destruct (fl_hit (sl_h sl) m x) eqn:Ex; [discriminate|].
      destruct (fl_replace (fl_hit (sl_h sl) m) sl l0); [destruct p0; discriminate|].
      destruct Hl0 as [->|Hl0]; [congruence|]. exact (IH Hl0 eq_refl).
  - destruct Hs as [Hno P2].
    rewrite fl_replace_none_intro in Ef.
    + injection Ef as <- <-. split; [reflexivity|]. apply idx_rel_intro; [exact HI'|].
      rewrite P2, HP. apply Permutation_cons_append.
    + intros x Hx. apply not_true_false. intros Hc. apply fl_hit_true in Hc. destruct Hc as [Hh Hm].
      assert (Hp : In x (all_slots p)) by (eapply Permutation_in; [symmetry|]; eassumption).
      pose proof (Hno x Hp Hh). congruence.
Qed.

(* ---- delete ---- *)
Theorem del_rel p l h m p' op l' of :
  idx_rel p l -> uniq (fl_hit h m) l ->
  px_del p h m = (p', op) -> fl_del l h m = (l', of) ->
  op = of /\ idx_rel p' l'.
Proof.
  intros (HI & HP & Hk) U Ep Ef. destruct (px_del_spec _ _ _ _ _ HI Ep) as [HI' Hs].
  unfold fl_del in Ef. destruct op as [o|].
  - destruct Hs as (Hh & Hm & P1).
    assert (Hl : In o l).
    { eapply Permutation_in; [exact HP|]. eapply Permutation_in; [symmetry; exact P1|]. left. reflexivity. }
    assert (Ho : fl_hit h m o = true) by (apply fl_hit_true; auto).
    destruct (fl_remove (fl_hit h m) l) as [[l0 o0]|] eqn:F.
    + injection Ef as <- <-. destruct (fl_remove_split _ _ _ _ F) as (a & b & -> & -> & Ho0).
      assert (o0 = o) by (apply U; [apply in_elt|exact Hl|exact Ho0|exact Ho]). subst o0.
      split; [reflexivity|]. apply idx_rel_intro; [exact HI'|].
      apply Permutation_cons_app_inv with (a := o). rewrite <- P1. exact HP.
    + pose proof (fl_remove_None _ _ F o Hl). congruence.
  - destruct Hs as [-> Hno].
    rewrite fl_remove_none_intro in Ef.
    + injection Ef as <- <-. split; [reflexivity|]. split; [exact HI|]. split; assumption.
    + intros x Hx. apply not_true_false. intros Hc. apply fl_hit_true in Hc. destruct Hc as [Hh Hm].
      assert (Hp : In x (all_slots p)) by (eapply Permutation_in; [symmetry|]; eassumption).
      pose proof (Hno x Hp Hh). congruence.
Qed.

(* ---- repoint (promoteRecord) ---- *)
Theorem repoint_rel p l h seg off nseg noff :
  idx_rel p l -> uniq (fl_points h seg off) l ->
  opt_rel idx_rel (px_repoint p h seg off nseg noff) (fl_repoint l h seg off nseg noff).
Proof.
  intros (HI & HP & Hk) U.
  destruct (px_repoint p h seg off nseg noff) as [p'|] eqn:Ep.
  - destruct (px_repoint_some _ _ _ _ _ _ _ HI Ep) as (HI' & o & l1 & l2 & Hh & Hs & Ho & P1 & P2).
    assert (Hl : In o l).
    { eapply Permutation_in; [exact HP|]. eapply Permutation_in; [symmetry; exact P1|]. apply in_elt. }
    assert (Hpt : fl_points h seg off o = true) by (apply fl_points_true; auto).
    destruct (fl_repoint l h seg off nseg noff) as [l'|] eqn:F.
    + constructor. destruct (fl_repoint_split _ _ _ _ _ _ _ F) as (a & o0 & b & -> & -> & Ho0).
      assert (o0 = o) by (apply U; [apply in_elt|exact Hl|exact Ho0|exact Hpt]). subst o0.
      apply idx_rel_intro; [exact HI'|]. rewrite P2. unfold repointed.
      apply Permutation_elt. apply (Permutation_app_inv l1 l2 a b o). rewrite <- P1. exact HP.
    + pose proof (fl_repoint_none _ _ _ _ _ _ F o Hl). congruence.
  - rewrite fl_repoint_none_intro; [constructor|].
    intros x Hx. apply not_true_false. intros Hc. apply fl_points_true in Hc.
    assert (Hp : In x (all_slots p)) by (eapply Permutation_in; [symmetry|]; eassumption).
    exact (px_repoint_none _ _ _ _ _ _ HI Ep x Hp Hc).
Qed.

Lemma count_rel p l : idx_rel p l -> ix_count chain_ops p = ix_count flat_ops l.
Proof. intros (_ & _ & Hk). exact Hk. Qed.

(* ================================================================================================ *)
(** * 3. The database on the chain index against the database on the flat index *)

Notation disk_rel := (gdisk_rel idx_rel).
Notation ev_rel := (gev_rel idx_rel).
Notation mem_rel := (gmem_rel idx_rel).
Notation st_rel := (gst_rel idx_rel).

Local Notation stp := (@DB.st pindex).
Local Notation stf := (@DB.st flat).
Local Notation diskf := (@DB.disk flat).
Local Notation memf := (@DB.mem flat).

(* ---- uniqueness of the slot the callbacks accept, from the invariant of the flat state ---- *)
Lemma matchf_key (d : diskf) k sl : matchf d k sl = true -> slot_key d sl = k.
Proof.
  unfold matchf, slot_key. destruct (read_kv d sl) as [[k' v]|]; rewrite andb_true_iff; intros [_ H].
  - apply key_eqb_eq in H. congruence.
  - discriminate.
Qed.

Lemma uniq_hit P seed idx (d d1 : diskf) k :
  idx_agrees P seed idx d ->
  (forall id off r, rec_of d id off = Some r -> rec_of d1 id off = Some r) ->
  uniq (fl_hit (p_hash P seed k) (matchf d1 k)) idx.
Proof.
  intros (Hok & Hnd & _) Hkeep a b Ha Hb Fa Fb.
  apply fl_hit_true in Fa, Fb. destruct Fa as [_ Fa], Fb as [_ Fb]. apply matchf_key in Fa, Fb.
  pose proof (proj1 (Forall_forall _ _) Hok a Ha) as Oa.
  pose proof (proj1 (Forall_forall _ _) Hok b Hb) as Ob.
  destruct (slot_keep P d d1 seed a Hkeep Oa) as (_ & _ & Ka).
  destruct (slot_keep P d d1 seed b Hkeep Ob) as (_ & _ & Kb).
  apply (NoDup_map_inj (slot_key d) idx); [exact Hnd|exact Ha|exact Hb|congruence].
Qed.

Lemma uniq_hit_same P seed idx (d : diskf) k :
  idx_agrees P seed idx d -> uniq (fl_hit (p_hash P seed k) (matchf d k)) idx.
Proof. intros H. apply (uniq_hit P seed idx d d k H). auto. Qed.

(* two slots that point to the same record are the same slot *)
Definition points_uniq (l : flat) : Prop := forall h seg off, uniq (fl_points h seg off) l.

Lemma uniq_points P seed idx (d : diskf) : idx_agrees P seed idx d -> points_uniq idx.
Proof.
  intros (Hok & Hnd & _) h seg off a b Ha Hb Fa Fb.
  apply fl_points_true in Fa, Fb. destruct Fa as (_ & Sa & Oa), Fb as (_ & Sb & Ob).
  pose proof (proj1 (Forall_forall _ _) Hok a Ha) as Ka.
  pose proof (proj1 (Forall_forall _ _) Hok b Hb) as Kb.
  destruct (slot_ok_read P d seed a Ka) as (ra & Era & _ & _ & _ & _ & _ & Eka).
  destruct (slot_ok_read P d seed b Kb) as (rb & Erb & _ & _ & _ & _ & _ & Ekb).
  rewrite Sa, Oa in Era. rewrite Sb, Ob in Erb.
  apply (NoDup_map_inj (slot_key d) idx); [exact Hnd|exact Ha|exact Hb|congruence].
Qed.

(* writeRecord on the flat state keeps every record readable (as write_record_spec, without [params_ok]) *)
Lemma wr_keep P r (s : stf) (m : memf) s' m' id off :
  InvLog m (s_disk s) -> room m -> rec_fits r ->
  write_record flat_ops P r s m = Some (s', m', id, off) ->
  m_idx m' = m_idx m /\
  forall id' off' r', rec_of (s_disk s) id' off' = Some r' -> rec_of (s_disk s') id' off' = Some r'.
Proof.
  intros HI Hroom Hr E. rewrite write_record_eq in E.
  destruct (wr_prelude_spec P r s m HI Hroom)
    as (s1 & m1 & g & pre & E1 & HI1 & Hroom1 & Ec1 & Hnf1 & Eo1 & _ & _ & Ei1 & _).
  rewrite E1 in E.
  destruct (append_step m1 (s_disk s1) r g HI1 Hroom1 Hr Ec1 Hnf1)
    as (f & Hfind & Efseq & Efl & Hlt & HI2 & Eo2 & Hrec).
  cbn zeta in HI2, Eo2.
  unfold wr_tail in E. rewrite Ec1, Hfind, Efseq, Efl, !N.eqb_refl in E. cbn [andb negb] in E.
  injection E as <- <- <- <-. split; [exact Ei1|].
  rewrite s_disk_emit. intros id' off' r' H.
  assert (Hd0 : DiskOK (s_disk s)) by apply HI.
  assert (Hd2 : DiskOK (apply_ev flat_ops (s_disk s1) (EAppend (g_id g) (g_seq g) (g_size g) r))) by apply HI2.
  apply rec_of_olog; [apply Hd2|]. rewrite Eo2, Eo1.
  apply in_or_app. left. apply rec_of_olog; [apply Hd0|exact H].
Qed.

Lemma so_rel_let (a : stp * out) (b : stf * out) :
  so_rel idx_rel a b -> let '(sp', op) := a in let '(sf', of) := b in op = of /\ st_rel sp' sf'.
Proof. destruct a, b. exact (fun H => H). Qed.

Section Sim.
Variable P : params.

(* ---- Put ---- *)
Lemma sim_put_so (sp : stp) (sf : stf) k v :
  st_rel sp sf -> Inv P sf -> (exists m, s_mem sf = Some m /\ room m) ->
  Forall byte k -> Forall byte v -> nlen k <= max_key_len -> nlen v <= max_val_len ->
  so_rel idx_rel (db_put chain_ops P k v sp) (db_put flat_ops P k v sf).
Proof.
  intros Hs HI (mf & Emf & Hroom) Hbk Hbv Hk Hv.
  destruct (st_rel_mem_cases _ _ _ Hs) as [[E1 E2]|(mp & mf' & E1 & E2 & Hm)]; [congruence|].
  assert (mf' = mf) by congruence. subst mf'.
  destruct (Inv_open P sf mf Emf HI) as (HL & Hidx & _).
  assert (Hr : rec_fits (mkput k v)) by (apply rec_fits_mkput; assumption).
  unfold db_put. rewrite E1, E2.
  rewrite (proj2 (N.ltb_ge _ _) Hk), (proj2 (N.ltb_ge _ _) Hv).
  rewrite (mem_rel_seed _ _ _ Hm). cbv zeta.
  pose proof (write_record_rel idx_rel chain_ops flat_ops idx_rel_empty P (mkput k v) sp sf mp mf Hs Hm) as Hw.
  destruct (write_record chain_ops P (mkput k v) sp mp) as [[[[s1p m1p] idp] offp]|];
    destruct (write_record flat_ops P (mkput k v) sf mf) as [[[[s1f m1f] idf] offf]|] eqn:Ewf;
    unfold wr_rel in Hw; try contradiction.
  - destruct Hw as (Hs1 & Hm1 & -> & ->).
    destruct (wr_keep P _ sf mf _ _ _ _ HL Hroom Hr Ewf) as [Ei Hkeep].
    cbn [ix_put chain_ops flat_ops].
    rewrite (matchf_rel _ _ _ k (st_rel_disk _ _ _ Hs1)).
    set (sl := {| sl_h := p_hash P (m_seed mf) k; sl_seg := idf; sl_ks := u16 (nlen k);
                  sl_vs := u32 (nlen v); sl_off := offf |}).
    assert (U : uniq (fl_hit (sl_h sl) (matchf (s_disk s1f) k)) (m_idx m1f)).
    { rewrite Ei. cbn [sl sl_h]. apply (uniq_hit P _ _ (s_disk sf)); assumption. }
    pose proof (put_rel (p_grow P) (m_idx m1p) (m_idx m1f) sl (matchf (s_disk s1f) k)) as Hput.
    destruct (px_put (p_grow P) (m_idx m1p) sl (matchf (s_disk s1f) k)) as [i2p oldp].
    destruct (fl_put (p_grow P) (m_idx m1f) sl (matchf (s_disk s1f) k)) as [i2f oldf].
    destruct (Hput _ _ _ _ (mem_rel_idx _ _ _ Hm1) U eq_refl eq_refl) as [<- Hi2].
    apply finish_rel; [exact idx_rel_empty| |].
    + apply emit_rel; [exact idx_rel_empty|exact Hs1|constructor; exact Hi2].
    + apply set_idx_rel; [|exact Hi2]. destruct oldp; [apply track_del_rel|]; exact Hm1.
  - split; [reflexivity|exact Hs].
Qed.

Theorem sim_put (sp : stp) (sf : stf) k v :
  st_rel sp sf -> Inv P sf -> (exists m, s_mem sf = Some m /\ room m) ->
  Forall byte k -> Forall byte v -> nlen k <= max_key_len -> nlen v <= max_val_len ->
  let '(sp', op) := db_put chain_ops P k v sp in
  let '(sf', of) := db_put flat_ops P k v sf in
  op = of /\ st_rel sp' sf'.
Proof. intros. apply so_rel_let. apply sim_put_so; assumption. Qed.

(* ---- Delete (no size condition, no [room]: the index is consulted BEFORE the write) ---- *)
Lemma sim_delete_so (sp : stp) (sf : stf) k :
  st_rel sp sf -> Inv P sf ->
  so_rel idx_rel (db_delete chain_ops P k sp) (db_delete flat_ops P k sf).
Proof.
  intros Hs HI.
  destruct (st_rel_mem_cases _ _ _ Hs) as [[E1 E2]|(mp & mf & E1 & E2 & Hm)].
  { unfold db_delete. rewrite E1, E2. split; [reflexivity|exact Hs]. }
  destruct (Inv_open P sf mf E2 HI) as (HL & Hidx & _).
  unfold db_delete. rewrite E1, E2.
  rewrite (mem_rel_seed _ _ _ Hm). cbv zeta. cbn [ix_del chain_ops flat_ops].
  rewrite (matchf_rel _ _ _ k (st_rel_disk _ _ _ Hs)).
  pose proof (del_rel (m_idx mp) (m_idx mf) (p_hash P (m_seed mf) k) (matchf (s_disk sf) k)) as Hdel.
  destruct (px_del (m_idx mp) (p_hash P (m_seed mf) k) (matchf (s_disk sf) k)) as [i1p oldp].
  destruct (fl_del (m_idx mf) (p_hash P (m_seed mf) k) (matchf (s_disk sf) k)) as [i1f oldf].
  destruct (Hdel _ _ _ _ (mem_rel_idx _ _ _ Hm) (uniq_hit_same P _ _ _ k Hidx) eq_refl eq_refl) as [<- Hi1].
  destruct oldp as [o|].
  - pose proof (write_record_rel idx_rel chain_ops flat_ops idx_rel_empty P (mkdel k) sp sf
                  (track_del o mp) (track_del o mf) Hs (track_del_rel _ _ _ o Hm)) as Hw.
    destruct (write_record chain_ops P (mkdel k) sp (track_del o mp)) as [[[[s1p m1p] idp] offp]|];
      destruct (write_record flat_ops P (mkdel k) sf (track_del o mf)) as [[[[s1f m1f] idf] offf]|];
      unfold wr_rel in Hw; try contradiction.
    + destruct Hw as (Hs1 & Hm1 & -> & ->).
      apply finish_rel; [exact idx_rel_empty| |].
      * apply emit_rel; [exact idx_rel_empty|exact Hs1|constructor; exact Hi1].
      * apply set_idx_rel; [|exact Hi1]. apply add_delbytes_rel. exact Hm1.
    + split; [reflexivity|exact Hs].
  - apply finish_rel; [exact idx_rel_empty|exact Hs|exact Hm].
Qed.

Theorem sim_delete (sp : stp) (sf : stf) k :
  st_rel sp sf -> Inv P sf ->
  let '(sp', op) := db_delete chain_ops P k sp in
  let '(sf', of) := db_delete flat_ops P k sf in
  op = of /\ st_rel sp' sf'.
Proof. intros. apply so_rel_let. apply sim_delete_so; assumption. Qed.

(* ---- reads ---- *)
Theorem sim_get (sp : stp) (sf : stf) k :
  st_rel sp sf -> Inv P sf -> db_get chain_ops P k sp = db_get flat_ops P k sf.
Proof.
  intros Hs HI.
  destruct (st_rel_mem_cases _ _ _ Hs) as [[E1 E2]|(mp & mf & E1 & E2 & Hm)];
    unfold db_get; rewrite E1, E2; [reflexivity|].
  destruct (Inv_open P sf mf E2 HI) as (_ & Hidx & _).
  rewrite (mem_rel_seed _ _ _ Hm). cbn [ix_get chain_ops flat_ops].
  rewrite (matchf_rel _ _ _ k (st_rel_disk _ _ _ Hs)).
  rewrite (get_rel _ _ _ _ (mem_rel_idx _ _ _ Hm) (uniq_hit_same P _ _ _ k Hidx)).
  destruct (fl_get (m_idx mf) (p_hash P (m_seed mf) k) (matchf (s_disk sf) k)) as [sl|]; [|reflexivity].
  rewrite (read_kv_rel _ _ _ sl (st_rel_disk _ _ _ Hs)). reflexivity.
Qed.

Theorem sim_get_append (sp : stp) (sf : stf) k buf :
  st_rel sp sf -> Inv P sf -> db_get_append chain_ops P k buf sp = db_get_append flat_ops P k buf sf.
Proof. intros Hs HI. unfold db_get_append. rewrite (sim_get sp sf k Hs HI). reflexivity. Qed.

Theorem sim_has (sp : stp) (sf : stf) k :
  st_rel sp sf -> Inv P sf -> db_has chain_ops P k sp = db_has flat_ops P k sf.
Proof.
  intros Hs HI.
  destruct (st_rel_mem_cases _ _ _ Hs) as [[E1 E2]|(mp & mf & E1 & E2 & Hm)];
    unfold db_has; rewrite E1, E2; [reflexivity|].
  destruct (Inv_open P sf mf E2 HI) as (_ & Hidx & _).
  rewrite (mem_rel_seed _ _ _ Hm). cbn [ix_get chain_ops flat_ops].
  rewrite (matchf_rel _ _ _ k (st_rel_disk _ _ _ Hs)).
  rewrite (get_rel _ _ _ _ (mem_rel_idx _ _ _ Hm) (uniq_hit_same P _ _ _ k Hidx)). reflexivity.
Qed.

(* Count needs no invariant at all *)
Theorem sim_count (sp : stp) (sf : stf) :
  st_rel sp sf -> db_count chain_ops sp = db_count flat_ops sf.
Proof.
  intros Hs.
  destruct (st_rel_mem_cases _ _ _ Hs) as [[E1 E2]|(mp & mf & E1 & E2 & Hm)];
    unfold db_count; rewrite E1, E2; [reflexivity|].
  rewrite (count_rel _ _ (mem_rel_idx _ _ _ Hm)). reflexivity.
Qed.

(* ---- Sync, pickForCompaction: no index access ---- *)
Theorem sim_sync (sp : stp) (sf : stf) :
  st_rel sp sf ->
  let '(sp', op) := db_sync chain_ops sp in
  let '(sf', of) := db_sync flat_ops sf in
  op = of /\ st_rel sp' sf'.
Proof. intros Hs. apply so_rel_let. apply sync_rel; [exact idx_rel_empty|exact Hs]. Qed.

Theorem sim_compact_pick (sp : stp) (sf : stf) :
  st_rel sp sf ->
  match compact_pick chain_ops P sp, compact_pick flat_ops P sf with
  | None, None => True
  | Some (sp', cp), Some (sf', cf) => st_rel sp' sf' /\ cp = cf
  | _, _ => False
  end.
Proof. intros Hs. apply (compact_pick_rel idx_rel chain_ops flat_ops idx_rel_empty P sp sf Hs). Qed.
