(* DBSim.v -- the database running on the linear-hashing bucket chains (Index.v, [chain_ops]) behaves
   exactly like the database running on the flat reference index (Flat.v, [flat_ops]), for an
   arbitrary hash function, split policy and thresholds.  (Header with the list of results: see the
   end of the file.) *)
From Coq Require Import ZArith Lia ZifyN ZifyNat ZifyBool Permutation.
From Pogreb Require Import Base BaseLemmas Crc Bytes Record RecordProofs Flat Index Spec DB DBInv
  DBLemmas DBProofsOps.
Ltac Zify.zify_post_hook ::= Z.div_mod_to_equations.

(* ================================================================================================ *)
(** * 1. Relations, for two arbitrary index types related by [R] *)

Inductive opt_rel {A B} (R : A -> B -> Prop) : option A -> option B -> Prop :=
| opt_rel_none : opt_rel R None None
| opt_rel_some a b : R a b -> opt_rel R (Some a) (Some b).

Inductive gob_rel {A B} (R : A -> B -> Prop) : gob A -> gob B -> Prop :=
| gob_rel_absent : gob_rel R GAbsent GAbsent
| gob_rel_partial : gob_rel R GPartial GPartial
| gob_rel_ok a b : R a b -> gob_rel R (GOk a) (GOk b).

Section Rel.
Context {I1 I2 : Type}.
Variable R : I1 -> I2 -> Prop.

Notation disk1 := (@DB.disk I1). Notation disk2 := (@DB.disk I2).
Notation mem1 := (@DB.mem I1).   Notation mem2 := (@DB.mem I2).
Notation st1 := (@DB.st I1).     Notation st2 := (@DB.st I2).
Notation fsev1 := (@DB.fsev I1). Notation fsev2 := (@DB.fsev I2).

(* equal in every component; the index values are related *)
Inductive disk_rel : disk1 -> disk2 -> Prop :=
| DiskRel segs orph i1 i2 ov g1 g2 dbm lk bac :
    opt_rel R i1 i2 -> gob_rel R g1 g2 ->
    disk_rel {| d_segs := segs; d_orphans := orph; d_index := i1; d_overflow := ov; d_imeta := g1;
                d_dbmeta := dbm; d_lock := lk; d_bac := bac |}
             {| d_segs := segs; d_orphans := orph; d_index := i2; d_overflow := ov; d_imeta := g2;
                d_dbmeta := dbm; d_lock := lk; d_bac := bac |}.

Inductive ev_rel : fsev1 -> fsev2 -> Prop :=
| er_create f : ev_rel (ECreate f) (ECreate f)
| er_header f : ev_rel (EHeader f) (EHeader f)
| er_append id seq off r : ev_rel (EAppend id seq off r) (EAppend id seq off r)
| er_index i1 i2 : R i1 i2 -> ev_rel (EIndex i1) (EIndex i2)
| er_gobseg id seq m : ev_rel (EGobSeg id seq m) (EGobSeg id seq m)
| er_gobindex i1 i2 : R i1 i2 -> ev_rel (EGobIndex i1) (EGobIndex i2)
| er_gobdb sd : ev_rel (EGobDb sd) (EGobDb sd)
| er_trunc f n : ev_rel (ETrunc f n) (ETrunc f n)
| er_rename f g : ev_rel (ERename f g) (ERename f g)
| er_remove f : ev_rel (ERemove f) (ERemove f)
| er_sync f : ev_rel (ESync f) (ESync f).

Inductive mem_rel : mem1 -> mem2 -> Prop :=
| MemRel segs cur rem mx i1 i2 seed : R i1 i2 ->
    mem_rel {| m_segs := segs; m_cur := cur; m_cur_removed := rem; m_maxseq := mx; m_idx := i1;
               m_seed := seed |}
            {| m_segs := segs; m_cur := cur; m_cur_removed := rem; m_maxseq := mx; m_idx := i2;
               m_seed := seed |}.

Inductive st_rel : st1 -> st2 -> Prop :=
| StRel m1 m2 d1 d2 t1 t2 :
    opt_rel mem_rel m1 m2 -> disk_rel d1 d2 -> Forall2 ev_rel t1 t2 ->
    st_rel {| s_mem := m1; s_disk := d1; s_trace := t1 |} {| s_mem := m2; s_disk := d2; s_trace := t2 |}.

(* ---- the relations, component by component (for users who build related states by hand) ---- *)
Lemma disk_rel_iff (d1 : disk1) (d2 : disk2) :
  disk_rel d1 d2 <->
  d_segs d1 = d_segs d2 /\ d_orphans d1 = d_orphans d2 /\ opt_rel R (d_index d1) (d_index d2) /\
  d_overflow d1 = d_overflow d2 /\ gob_rel R (d_imeta d1) (d_imeta d2) /\
  d_dbmeta d1 = d_dbmeta d2 /\ d_lock d1 = d_lock d2 /\ d_bac d1 = d_bac d2.
Proof.
  split.
  - intros H. destruct H. cbn [d_segs d_orphans d_index d_overflow d_imeta d_dbmeta d_lock d_bac].
    repeat split; assumption.
  - destruct d1, d2. cbn [d_segs d_orphans d_index d_overflow d_imeta d_dbmeta d_lock d_bac].
    intros (-> & -> & Hi & -> & Hg & -> & -> & ->). constructor; assumption.
Qed.

Lemma mem_rel_iff (m1 : mem1) (m2 : mem2) :
  mem_rel m1 m2 <->
  m_segs m1 = m_segs m2 /\ m_cur m1 = m_cur m2 /\ m_cur_removed m1 = m_cur_removed m2 /\
  m_maxseq m1 = m_maxseq m2 /\ R (m_idx m1) (m_idx m2) /\ m_seed m1 = m_seed m2.
Proof.
  split.
  - intros H. destruct H. cbn [m_segs m_cur m_cur_removed m_maxseq m_idx m_seed]. repeat split; assumption.
  - destruct m1, m2. cbn [m_segs m_cur m_cur_removed m_maxseq m_idx m_seed].
    intros (-> & -> & -> & -> & Hi & ->). constructor; assumption.
Qed.

Lemma st_rel_iff (s1 : st1) (s2 : st2) :
  st_rel s1 s2 <->
  opt_rel mem_rel (s_mem s1) (s_mem s2) /\ disk_rel (s_disk s1) (s_disk s2) /\
  Forall2 ev_rel (s_trace s1) (s_trace s2).
Proof.
  split.
  - intros H. destruct H. cbn [s_mem s_disk s_trace]. repeat split; assumption.
  - destruct s1, s2. cbn [s_mem s_disk s_trace]. intros (A & B & C). constructor; assumption.
Qed.

Lemma st_rel_disk s1 s2 : st_rel s1 s2 -> disk_rel (s_disk s1) (s_disk s2).
Proof. intros H. apply st_rel_iff in H. tauto. Qed.
Lemma st_rel_trace s1 s2 : st_rel s1 s2 -> Forall2 ev_rel (s_trace s1) (s_trace s2).
Proof. intros H. apply st_rel_iff in H. tauto. Qed.

Lemma st_rel_mem_cases s1 s2 : st_rel s1 s2 ->
  (s_mem s1 = None /\ s_mem s2 = None) \/
  (exists m1 m2, s_mem s1 = Some m1 /\ s_mem s2 = Some m2 /\ mem_rel m1 m2).
Proof.
  intros H. destruct H as [m1 m2 d1 d2 t1 t2 Hm _ _]. cbn [s_mem].
  destruct Hm as [|a b Hab]; [left; split; reflexivity|right; exists a, b; auto].
Qed.

Lemma mem_rel_segs m1 m2 : mem_rel m1 m2 -> m_segs m1 = m_segs m2.
Proof. intros H. destruct H. reflexivity. Qed.
Lemma mem_rel_cur m1 m2 : mem_rel m1 m2 -> m_cur m1 = m_cur m2.
Proof. intros H. destruct H. reflexivity. Qed.
Lemma mem_rel_maxseq m1 m2 : mem_rel m1 m2 -> m_maxseq m1 = m_maxseq m2.
Proof. intros H. destruct H. reflexivity. Qed.
Lemma mem_rel_seed m1 m2 : mem_rel m1 m2 -> m_seed m1 = m_seed m2.
Proof. intros H. destruct H. reflexivity. Qed.
Lemma mem_rel_idx m1 m2 : mem_rel m1 m2 -> R (m_idx m1) (m_idx m2).
Proof. intros H. destruct H. assumption. Qed.
Lemma mem_rel_cur_seg m1 m2 : mem_rel m1 m2 -> cur_seg m1 = cur_seg m2.
Proof. intros H. destruct H. reflexivity. Qed.

(* ---- functions of the disk that never look inside the index value ---- *)
Lemma find_dseg_rel d1 d2 id : disk_rel d1 d2 -> find_dseg id d1 = find_dseg id d2.
Proof. intros H. destruct H. reflexivity. Qed.
Lemma d_segs_rel d1 d2 : disk_rel d1 d2 -> d_segs d1 = d_segs d2.
Proof. intros H. destruct H. reflexivity. Qed.
Lemma read_kv_rel d1 d2 sl : disk_rel d1 d2 -> read_kv d1 sl = read_kv d2 sl.
Proof. intros H. destruct H. reflexivity. Qed.
(* equality of FUNCTIONS (no extensionality needed): the callback handed to the index is the same *)
Lemma matchf_rel d1 d2 k : disk_rel d1 d2 -> matchf d1 k = matchf d2 k.
Proof. intros H. destruct H. reflexivity. Qed.
Lemma read_slots_rel d1 d2 l : disk_rel d1 d2 -> read_slots d1 l = read_slots d2 l.
Proof. intros H. destruct H. reflexivity. Qed.
Lemma seg_names_rel d1 d2 : disk_rel d1 d2 -> seg_names d1 = seg_names d2.
Proof. intros H. destruct H. reflexivity. Qed.
Lemma dir_rel d1 d2 : disk_rel d1 d2 -> dir d1 = dir d2.
Proof.
  intros H. destruct H as [segs orph i1 i2 ov g1 g2 dbm lk bac Hi Hg].
  unfold dir, seg_names. cbn [d_segs d_orphans d_index d_overflow d_imeta d_dbmeta d_lock d_bac].
  destruct Hi; destruct Hg; reflexivity.
Qed.
Lemma exists_file_rel d1 d2 f : disk_rel d1 d2 -> exists_file d1 f = exists_file d2 f.
Proof. intros H. unfold exists_file. rewrite (dir_rel _ _ H). reflexivity. Qed.
Lemma total_recs_rel d1 d2 : disk_rel d1 d2 -> total_recs d1 = total_recs d2.
Proof. intros H. destruct H. reflexivity. Qed.

(* ---- updates of the in-memory state ---- *)
Lemma set_msegs_rel m1 m2 l : mem_rel m1 m2 -> mem_rel (set_msegs m1 l) (set_msegs m2 l).
Proof. intros H. destruct H. constructor. assumption. Qed.
Lemma set_cur_rel m1 m2 c b : mem_rel m1 m2 -> mem_rel (set_cur m1 c b) (set_cur m2 c b).
Proof. intros H. destruct H. constructor. assumption. Qed.
Lemma set_maxseq_rel m1 m2 n : mem_rel m1 m2 -> mem_rel (set_maxseq m1 n) (set_maxseq m2 n).
Proof. intros H. destruct H. constructor. assumption. Qed.
Lemma set_idx_rel m1 m2 i1 i2 : mem_rel m1 m2 -> R i1 i2 -> mem_rel (set_idx m1 i1) (set_idx m2 i2).
Proof. intros H Hi. destruct H. constructor. assumption. Qed.
Lemma track_del_rel m1 m2 sl : mem_rel m1 m2 -> mem_rel (track_del sl m1) (track_del sl m2).
Proof. intros H. destruct H. constructor. assumption. Qed.
Lemma add_delbytes_rel m1 m2 id n : mem_rel m1 m2 -> mem_rel (add_delbytes id n m1) (add_delbytes id n m2).
Proof. intros H. destruct H. constructor. assumption. Qed.
Lemma pick_rel P m1 m2 : mem_rel m1 m2 -> pick P m1 = pick P m2.
Proof. intros H. destruct H. reflexivity. Qed.

(* ---- the state ---- *)
Lemma with_mem_rel s1 s2 m1 m2 : st_rel s1 s2 -> mem_rel m1 m2 -> st_rel (with_mem m1 s1) (with_mem m2 s2).
Proof. intros H Hm. destruct H. constructor; [constructor|..]; assumption. Qed.
Lemma clear_trace_rel s1 s2 : st_rel s1 s2 -> st_rel (clear_trace s1) (clear_trace s2).
Proof. intros H. destruct H. constructor; [assumption|assumption|constructor]. Qed.

(* ---- events: need the two index implementations ---- *)
Variable ops1 : idx_ops I1.
Variable ops2 : idx_ops I2.
Hypothesis R_empty : R (ix_empty ops1) (ix_empty ops2).

Ltac dsimp :=
  cbv beta iota delta [apply_ev file_removed set_segs set_orphans set_index set_overflow set_imeta
    set_dbmeta set_lock set_bac upd_seg d_segs d_orphans d_index d_overflow d_imeta d_dbmeta d_lock d_bac].

Lemma file_removed_rel d1 d2 f : disk_rel d1 d2 -> disk_rel (file_removed f d1) (file_removed f d2).
Proof.
  intros H. destruct H as [segs orph i1 i2 ov g1 g2 dbm lk bac Hi Hg].
  destruct f; dsimp; constructor; try assumption; constructor.
Qed.

Lemma set_bac_rel d1 d2 l : disk_rel d1 d2 -> disk_rel (set_bac d1 l) (set_bac d2 l).
Proof. intros H. destruct H. dsimp. constructor; assumption. Qed.
Lemma d_bac_rel d1 d2 : disk_rel d1 d2 -> d_bac d1 = d_bac d2.
Proof. intros H. destruct H. reflexivity. Qed.

Theorem apply_ev_rel d1 d2 e1 e2 : disk_rel d1 d2 -> ev_rel e1 e2 ->
  disk_rel (apply_ev ops1 d1 e1) (apply_ev ops2 d2 e2).
Proof.
  intros Hd He. destruct He as [f|f|id seq off r|i1 i2 Hi|id seq m|i1 i2 Hi|sd|f n|f g|f|f].
  - destruct Hd as [segs orph j1 j2 ov g1 g2 dbm lk bac Hj Hg].
    destruct f; dsimp; constructor; try assumption; constructor. exact R_empty.
  - destruct Hd as [segs orph j1 j2 ov g1 g2 dbm lk bac Hj Hg].
    destruct f; dsimp; constructor; assumption.
  - destruct Hd. dsimp. constructor; assumption.
  - destruct Hd. dsimp. constructor; [constructor|]; assumption.
  - destruct Hd. dsimp. constructor; assumption.
  - destruct Hd. dsimp. constructor; [|constructor]; assumption.
  - destruct Hd. dsimp. constructor; assumption.
  - destruct Hd as [segs orph j1 j2 ov g1 g2 dbm lk bac Hj Hg].
    destruct f; dsimp; constructor; try assumption; constructor.
  - cbv beta iota delta [apply_ev].
    rewrite (d_bac_rel _ _ (file_removed_rel d1 d2 f Hd)).
    apply set_bac_rel. apply file_removed_rel. exact Hd.
  - cbv beta iota delta [apply_ev]. apply file_removed_rel. exact Hd.
  - cbv beta iota delta [apply_ev]. exact Hd.
Qed.

Lemma emit_rel s1 s2 e1 e2 : st_rel s1 s2 -> ev_rel e1 e2 -> st_rel (emit ops1 e1 s1) (emit ops2 e2 s2).
Proof.
  intros Hs He. destruct Hs as [m1 m2 d1 d2 t1 t2 Hm Hd Ht]. unfold emit. cbn [s_mem s_disk s_trace].
  constructor; [exact Hm|apply apply_ev_rel; assumption|].
  apply Forall2_app; [exact Ht|]. constructor; [exact He|constructor].
Qed.

Lemma emits_rel es1 es2 : Forall2 ev_rel es1 es2 -> forall s1 s2, st_rel s1 s2 ->
  st_rel (emits ops1 es1 s1) (emits ops2 es2 s2).
Proof.
  unfold emits. induction 1 as [|e1 e2 es1 es2 He Hes IH]; intros s1 s2 Hs; cbn [fold_left]; [exact Hs|].
  apply IH. apply emit_rel; assumption.
Qed.

(* results of helpers that return a state and a memory *)
Definition sm_rel (a : st1 * mem1) (b : st2 * mem2) : Prop := st_rel (fst a) (fst b) /\ mem_rel (snd a) (snd b).

Lemma seal_rel id s1 s2 m1 m2 : st_rel s1 s2 -> mem_rel m1 m2 ->
  sm_rel (seal ops1 id s1 m1) (seal ops2 id s2 m2).
Proof.
  intros Hs Hm. unfold seal. rewrite (mem_rel_segs _ _ Hm).
  destruct (find_mseg id (m_segs m2)) as [g|]; [|split; assumption].
  destruct (sm_full (g_meta g)); [split; assumption|].
  split; cbn [fst snd]; [apply emit_rel; [exact Hs|constructor]|apply set_msegs_rel; exact Hm].
Qed.

Lemma swap_segment_rel s1 s2 m1 m2 : st_rel s1 s2 -> mem_rel m1 m2 ->
  sm_rel (swap_segment ops1 s1 m1) (swap_segment ops2 s2 m2).
Proof.
  intros Hs Hm. unfold swap_segment. rewrite (mem_rel_segs _ _ Hm).
  destruct (find (fun g => negb (sm_full (g_meta g))) (m_segs m2)) as [g|].
  - split; cbn [fst snd]; [exact Hs|apply set_cur_rel; exact Hm].
  - cbv zeta. rewrite (mem_rel_maxseq _ _ Hm). split; cbn [fst snd].
    + apply emits_rel; [|exact Hs]. constructor; [constructor|]. constructor; [constructor|constructor].
    + apply set_cur_rel, set_maxseq_rel, set_msegs_rel. exact Hm.
Qed.

End Rel.
