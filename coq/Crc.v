From Pogreb Require Import Base.

Definition poly : N := 0xEDB88320.
Definition mask32 : N := 0xFFFFFFFF.

Definition step (s : N) : N :=
  if N.odd s then N.lxor (N.shiftr s 1) poly else N.shiftr s 1.

Fixpoint iter (n : nat) (f : N -> N) (s : N) : N :=
  match n with O => s | S n => iter n f (f s) end.

Definition upd (s b : N) : N := iter 8 step (N.lxor s b).

Definition crc_state (bs : list N) (s : N) : N := fold_left upd bs s.
Definition crc32 (bs : list N) : N := N.lxor (crc_state bs mask32) mask32.

(* "123456789" -> 0xCBF43926 *)
Example crc_check : crc32 [49;50;51;52;53;54;55;56;57] = 0xCBF43926.
Proof. vm_compute. reflexivity. Qed.

Definition lt32 (s : N) := s < 2^32.

Lemma lt32_bits s : lt32 s <-> forall n, 32 <= n -> N.testbit s n = false.
Proof.
  unfold lt32. split.
  - intros H n Hn. destruct (N.eq_dec s 0) as [->|Hz]; [apply N.bits_0|].
    apply N.bits_above_log2. apply N.log2_lt_pow2 in H; lia.
  - intros H. destruct (N.eq_dec s 0) as [->|Hz]; [reflexivity|].
    apply N.log2_lt_pow2; [lia|].
    destruct (N.lt_ge_cases (N.log2 s) 32) as [Hl|Hl]; [exact Hl|].
    specialize (H (N.log2 s) Hl). rewrite N.bit_log2 in H by exact Hz. discriminate.
Qed.

Lemma poly_lt32 : lt32 poly. Proof. unfold lt32, poly. lia. Qed.

Lemma step_lt32 s : lt32 s -> lt32 (step s).
Proof.
  intros H. apply lt32_bits. intros n Hn. unfold step.
  assert (Hs : N.testbit (N.shiftr s 1) n = false).
  { rewrite N.shiftr_spec by lia. apply (proj1 (lt32_bits s) H). lia. }
  destruct (N.odd s).
  - rewrite N.lxor_spec, Hs. rewrite (proj1 (lt32_bits poly) poly_lt32 n Hn). reflexivity.
  - exact Hs.
Qed.

Lemma step_top s : lt32 s -> N.testbit (step s) 31 = N.odd s.
Proof.
  intros H. unfold step.
  assert (Hs : N.testbit (N.shiftr s 1) 31 = false).
  { rewrite N.shiftr_spec by lia. apply (proj1 (lt32_bits s) H). lia. }
  destruct (N.odd s).
  - rewrite N.lxor_spec, Hs. reflexivity.
  - exact Hs.
Qed.

Lemma step_inj s t : lt32 s -> lt32 t -> step s = step t -> s = t.
Proof.
  intros Hs Ht E.
  assert (Ho : N.odd s = N.odd t).
  { rewrite <- (step_top s Hs), <- (step_top t Ht), E. reflexivity. }
  assert (Hh : N.shiftr s 1 = N.shiftr t 1).
  { unfold step in E. rewrite <- Ho in E. destruct (N.odd s).
    - apply (f_equal (fun x => N.lxor x poly)) in E.
      rewrite !N.lxor_assoc, N.lxor_nilpotent, !N.lxor_0_r in E. exact E.
    - exact E. }
  rewrite <- !N.div2_spec in Hh.
  rewrite (N.div2_odd s), (N.div2_odd t), Hh, Ho. reflexivity.
Qed.

Lemma iter_lt32 n s : lt32 s -> lt32 (iter n step s).
Proof. revert s; induction n; simpl; auto using step_lt32. Qed.

Lemma iter_inj n s t : lt32 s -> lt32 t -> iter n step s = iter n step t -> s = t.
Proof.
  revert s t; induction n; simpl; intros s t Hs Ht E; [exact E|].
  apply step_inj; auto. apply IHn; auto using step_lt32.
Qed.


Lemma lxor_lt32 s b : lt32 s -> byte b -> lt32 (N.lxor s b).
Proof.
  intros Hs Hb. apply lt32_bits. intros n Hn. rewrite N.lxor_spec.
  rewrite (proj1 (lt32_bits s) Hs n Hn).
  assert (lt32 b) by (unfold lt32, byte in *; lia).
  rewrite (proj1 (lt32_bits b) H n Hn). reflexivity.
Qed.

Lemma upd_lt32 s b : lt32 s -> byte b -> lt32 (upd s b).
Proof. intros; apply iter_lt32, lxor_lt32; auto. Qed.

Lemma upd_inj_state s t b : lt32 s -> lt32 t -> byte b -> upd s b = upd t b -> s = t.
Proof.
  intros Hs Ht Hb E. apply iter_inj in E; auto using lxor_lt32.
  apply (f_equal (fun x => N.lxor x b)) in E.
  rewrite !N.lxor_assoc, N.lxor_nilpotent, !N.lxor_0_r in E. exact E.
Qed.

Lemma upd_inj_byte s b c : lt32 s -> byte b -> byte c -> upd s b = upd s c -> b = c.
Proof.
  intros Hs Hb Hc E. apply iter_inj in E; auto using lxor_lt32.
  apply (f_equal (N.lxor s)) in E.
  rewrite <- !N.lxor_assoc, N.lxor_nilpotent, !N.lxor_0_l in E. exact E.
Qed.

Lemma crc_state_lt32 bs s : lt32 s -> Forall byte bs -> lt32 (crc_state bs s).
Proof.
  revert s; induction bs as [|b bs IH]; simpl; intros s Hs Hb; [exact Hs|].
  inversion Hb; subst. apply IH; auto using upd_lt32.
Qed.

Lemma crc_state_inj bs s t : lt32 s -> lt32 t -> Forall byte bs ->
  crc_state bs s = crc_state bs t -> s = t.
Proof.
  revert s t; induction bs as [|b bs IH]; simpl; intros s t Hs Ht Hb E; [exact E|].
  inversion Hb; subst. apply IH in E; auto using upd_lt32.
  eapply upd_inj_state; eauto.
Qed.

(* Changing exactly one byte (to any different byte, in particular flipping one bit)
   of a message always changes the CRC. *)
Theorem crc32_one_byte_change pre b c post :
  Forall byte pre -> byte b -> byte c -> Forall byte post -> b <> c ->
  crc32 (pre ++ b :: post) <> crc32 (pre ++ c :: post).
Proof.
  intros Hpre Hb Hc Hpost Hne E. unfold crc32 in E.
  apply (f_equal (fun x => N.lxor x mask32)) in E.
  rewrite !N.lxor_assoc, N.lxor_nilpotent, !N.lxor_0_r in E.
  unfold crc_state in E. rewrite !fold_left_app in E. simpl in E.
  assert (H0 : lt32 (fold_left upd pre mask32)).
  { apply crc_state_lt32; auto. unfold lt32, mask32; lia. }
  apply crc_state_inj in E; auto using upd_lt32.
  apply upd_inj_byte in E; auto.
Qed.
Print Assumptions crc32_one_byte_change.
